(* C14: the length-limiting phase of build_huffman_tree (DESIGN.md Appendix A5).
   counts[l] = number of used symbols at clamped length l; total = sum_{l=1..L} counts[l] * 2^(L-l).
   The `while total > 1 << L` loop keeps sum_{l>=1} counts[l], lowers total by exactly one per iteration, never
   underflows `i` or `counts[L]`, and stops with total = 2^L; the reassignment consumes counts exactly. *)
From Coq Require Import ZArith List Bool Lia Arith Permutation.
From WebP Require Import Lib.Res Gen.Kernels Model.EncoderHeap Model.Encoder Spec.PrefixCode
  Proofs.Huffman_lists Proofs.Huffman_canon Proofs.Huffman_heap Proofs.Huffman_tree.
Import ListNotations.
Open Scope Z_scope.

(* weighted sums over a counts array: sum_k w(i+k) * cs[k] *)
Fixpoint wsum_from (w : Z -> Z) (i : Z) (cs : list Z) : Z :=
  match cs with [] => 0 | c :: tl => w i * c + wsum_from w (i + 1) tl end.
Definition wsum (w : Z -> Z) (cs : list Z) : Z := wsum_from w 0 cs.

Lemma wsum_from_upd w : forall cs k v i, (k < length cs)%nat ->
  wsum_from w i (upd cs k v) = wsum_from w i cs + w (i + Z.of_nat k) * (v - nth k cs 0).
Proof.
  induction cs as [|c tl IH]; intros [|k] v i Hk; cbn [length] in Hk; try lia; cbn [upd wsum_from nth].
  - rewrite Z.add_0_r. lia.
  - rewrite IH by lia. replace (i + 1 + Z.of_nat k) with (i + Z.of_nat (S k)) by lia. lia.
Qed.

Lemma wsum_from_zero w : forall cs i, (forall k, (k < length cs)%nat -> w (i + Z.of_nat k) * nth k cs 0 = 0) ->
  wsum_from w i cs = 0.
Proof.
  induction cs as [|c tl IH]; intros i H; cbn [wsum_from]; [reflexivity|].
  pose proof (H 0%nat ltac:(cbn [length]; lia)) as H0. cbn [nth] in H0. rewrite Z.add_0_r in H0. rewrite H0.
  rewrite IH; [reflexivity|]. intros k Hk. specialize (H (S k) ltac:(cbn [length]; lia)). cbn [nth] in H.
  replace (i + 1 + Z.of_nat k) with (i + Z.of_nat (S k)) by lia. exact H.
Qed.

Lemma wsum_from_single w cs i k : (k < length cs)%nat ->
  (forall j, (j < length cs)%nat -> j <> k -> w (i + Z.of_nat j) * nth j cs 0 = 0) ->
  wsum_from w i cs = w (i + Z.of_nat k) * nth k cs 0.
Proof.
  intros Hk H. pose proof (wsum_from_upd w cs k 0 i Hk) as U.
  rewrite wsum_from_zero in U.
  - lia.
  - rewrite upd_length. intros j Hj. destruct (Nat.eq_dec j k) as [-> | Ne].
    + rewrite nth_upd_eq by exact Hk. lia.
    + rewrite nth_upd_neq by lia. apply H; assumption.
Qed.

Lemma wsum_from_ext w w' : forall cs i, (forall k, (k < length cs)%nat -> w (i + Z.of_nat k) = w' (i + Z.of_nat k)) ->
  wsum_from w i cs = wsum_from w' i cs.
Proof.
  induction cs as [|c tl IH]; intros i H; cbn [wsum_from]; [reflexivity|].
  pose proof (H 0%nat ltac:(cbn [length]; lia)) as H0. rewrite Z.add_0_r in H0. rewrite H0. f_equal.
  apply IH. intros k Hk. specialize (H (S k) ltac:(cbn [length]; lia)).
  replace (i + 1 + Z.of_nat k) with (i + Z.of_nat (S k)) by lia. exact H.
Qed.

Lemma wsum_from_app w : forall a b i, wsum_from w i (a ++ b) = wsum_from w i a + wsum_from w (i + zlen a) b.
Proof.
  induction a as [|c tl IH]; intros b i; cbn [app wsum_from].
  - change (zlen (@nil Z)) with 0. rewrite Z.add_0_r. lia.
  - rewrite IH, zlen_cons. replace (i + 1 + zlen tl) with (i + (zlen tl + 1)) by lia. lia.
Qed.

Lemma wsum_nth cs k : (k < length cs)%nat -> nth k cs 0 = wsum (fun j => if j =? Z.of_nat k then 1 else 0) cs.
Proof.
  intros Hk. unfold wsum. rewrite (wsum_from_single _ cs 0 k Hk).
  - rewrite Z.add_0_l, Z.eqb_refl. lia.
  - intros j Hj Ne. rewrite Z.add_0_l. replace (Z.of_nat j =? Z.of_nat k) with false by (symmetry; apply Z.eqb_neq; lia). lia.
Qed.

Lemma wsum_zeros w n : wsum w (zeros n) = 0.
Proof. unfold wsum. apply wsum_from_zero. intros k _. rewrite nth_zeros. lia. Qed.

Lemma nth_le_zsum cs k : Forall (fun c => 0 <= c) cs -> nth k cs 0 <= zsum cs.
Proof.
  intros H. revert k. induction H as [|c tl Hc Ht IH]; intros [|k]; cbn [nth zsum]; try lia.
  - pose proof (zsum_nonneg tl Ht). lia.
  - specialize (IH k). lia.
Qed.

Lemma Forall_upd {A} (P : A -> Prop) l k v : Forall P l -> P v -> Forall P (upd l k v).
Proof.
  intros H Hv. revert k. induction H as [|x tl Hx Ht IH]; intros [|k]; cbn [upd]; constructor; auto.
Qed.

Lemma Forall_nth_nonneg cs k : Forall (fun c => 0 <= c) cs -> 0 <= nth k cs 0.
Proof.
  intros H. revert k. induction H as [|c tl Hc _ IH]; intros [|k]; cbn [nth]; try lia. apply IH.
Qed.

(* ---- counts ---- *)
Lemma count_lengths_spec L : 0 <= L <= 15 -> forall lens counts,
  length counts = 16%nat -> Forall (fun x => 0 <= x) lens -> Forall (fun c => 0 <= c) counts ->
  zsum counts + zlen lens <= u32_max ->
  exists counts', count_lengths lens L counts = Ok counts' /\ length counts' = 16%nat /\ Forall (fun c => 0 <= c) counts'
    /\ forall w, wsum w counts' = wsum w counts + lsum (fun x => w (Z.min x L)) lens.
Proof.
  intros HL. induction lens as [|x tl IH]; intros counts Hlen Hx Hc Hs.
  - exists counts. cbn [count_lengths]. repeat split; try assumption. intros w. unfold lsum. cbn. lia.
  - apply Forall_cons_iff in Hx. destruct Hx as [Hx0 Hxt]. rewrite zlen_cons in Hs. pose proof (zlen_nonneg tl).
    cbn [count_lengths].
    assert (Hi : 0 <= Z.min x L < zlen counts) by (unfold zlen; rewrite Hlen; lia).
    rewrite (lget_ok counts _ 0 Hi). cbn [bind].
    pose proof (nth_le_zsum counts (Z.to_nat (Z.min x L)) Hc) as Hle.
    pose proof (Forall_nth_nonneg counts (Z.to_nat (Z.min x L)) Hc) as Hnn.
    unfold cadd. replace (u32_max <? nth (Z.to_nat (Z.min x L)) counts 0 + 1) with false by (symmetry; apply Z.ltb_ge; lia).
    cbn [bind]. rewrite (lset_ok counts _ _ Hi). cbn [bind].
    destruct (IH (upd counts (Z.to_nat (Z.min x L)) (nth (Z.to_nat (Z.min x L)) counts 0 + 1))) as [c' [E [Hl' [Hc' Hw]]]].
    + rewrite upd_length. exact Hlen.
    + exact Hxt.
    + apply Forall_upd; [exact Hc | lia].
    + rewrite zsum_upd by (rewrite Hlen; lia). lia.
    + exists c'. split; [exact E|]. split; [exact Hl'|]. split; [exact Hc'|].
      intros w. rewrite Hw. unfold wsum. rewrite wsum_from_upd by (rewrite Hlen; lia).
      unfold lsum. cbn [map zsum]. rewrite Z.add_0_l, Z2Nat.id by lia. lia.
Qed.

(* ---- total ---- *)
Lemma total_loop_spec L : 1 <= L <= 15 -> forall cs i total,
  1 <= i -> i + zlen cs - 1 <= L -> Forall (fun c => 0 <= c) cs -> 0 <= total ->
  total + wsum_from (fun j => 2 ^ (L - j)) i cs <= u32_max ->
  total_loop cs i L total = Ok (total + wsum_from (fun j => 2 ^ (L - j)) i cs).
Proof.
  intros HL. induction cs as [|c tl IH]; intros i total Hi Hil Hc Ht Hb; cbn [total_loop wsum_from].
  - rewrite Z.add_0_r. reflexivity.
  - rewrite zlen_cons in Hil. pose proof (zlen_nonneg tl).
    apply Forall_cons_iff in Hc. destruct Hc as [Hc0 Hct]. cbn [wsum_from] in Hb.
    assert (Hrest : 0 <= wsum_from (fun j => 2 ^ (L - j)) (i + 1) tl).
    { clear - Hct. revert i. induction Hct as [|x l Hx _ IHl]; intros i; cbn [wsum_from]; [lia|].
      specialize (IHl (i + 1)). assert (0 <= 2 ^ (L - (i + 1))) by (apply Z.pow_nonneg; lia). nia. }
    pose proof (pow2_pos (L - i) ltac:(lia)) as Hp.
    unfold csub. replace (L - i <? 0) with false by (symmetry; apply Z.ltb_ge; lia). cbn [bind].
    replace (32 <=? L - i) with false by (symmetry; apply Z.leb_gt; lia).
    assert (Hcp : 0 <= c * 2 ^ (L - i)) by nia.
    unfold two32. rewrite Z.mod_small by (unfold u32_max in Hb; lia).
    unfold cadd. replace (u32_max <? total + c * 2 ^ (L - i)) with false by (symmetry; apply Z.ltb_ge; lia).
    cbn [bind]. rewrite IH; [f_equal; lia | lia | lia | exact Hct | lia | lia].
Qed.

(* weights *)
Definition WK (L j : Z) : Z := if (1 <=? j) && (j <=? L) then 2 ^ (L - j) else 0.
Definition W1 (L j : Z) : Z := if (1 <=? j) && (j <=? L) then 1 else 0.

Lemma W1_in L j : 1 <= j <= L -> W1 L j = 1.
Proof. intros H. unfold W1. replace (1 <=? j) with true by (symmetry; apply Z.leb_le; lia).
  replace (j <=? L) with true by (symmetry; apply Z.leb_le; lia). reflexivity. Qed.
Lemma WK_in L j : 1 <= j <= L -> WK L j = 2 ^ (L - j).
Proof. intros H. unfold WK. replace (1 <=? j) with true by (symmetry; apply Z.leb_le; lia).
  replace (j <=? L) with true by (symmetry; apply Z.leb_le; lia). reflexivity. Qed.

Lemma total_is_WK L counts : 1 <= L <= 15 -> length counts = 16%nat ->
  wsum_from (fun j => 2 ^ (L - j)) 1 (firstn (Z.to_nat L) (skipn 1 counts)) = wsum (WK L) counts.
Proof.
  intros HL Hlen. destruct counts as [|c0 rest]; [discriminate|]. cbn [skipn length] in *.
  unfold wsum. cbn [wsum_from]. unfold WK at 1. cbn [Z.leb andb]. rewrite Z.mul_0_l, Z.add_0_l. change (0 + 1) with 1.
  rewrite <- (firstn_skipn (Z.to_nat L) rest) at 2. rewrite wsum_from_app.
  rewrite (wsum_from_zero (WK L) (skipn (Z.to_nat L) rest)).
  - rewrite Z.add_0_r. apply wsum_from_ext. intros k Hk. rewrite firstn_length in Hk.
    unfold WK. replace (1 <=? 1 + Z.of_nat k) with true by (symmetry; apply Z.leb_le; lia).
    replace (1 + Z.of_nat k <=? L) with true by (symmetry; apply Z.leb_le; lia). reflexivity.
  - intros k _. unfold zlen. rewrite firstn_length. replace (Init.Nat.min (Z.to_nat L) (length rest)) with (Z.to_nat L) by lia.
    unfold WK. replace (1 + Z.of_nat (Z.to_nat L) + Z.of_nat k <=? L) with false by (symmetry; apply Z.leb_gt; lia).
    rewrite andb_false_r. lia.
Qed.

Lemma wsum_ind_le_W1 L k : 1 <= k <= L -> forall cs s, Forall (fun c => 0 <= c) cs ->
  wsum_from (fun j => if j =? k then 1 else 0) s cs <= wsum_from (W1 L) s cs.
Proof.
  intros Hk cs s H. revert s. induction H as [|c l Hc _ IHl]; intros s; cbn [wsum_from]; [lia|].
  specialize (IHl (s + 1)). unfold W1 at 1.
  destruct (s =? k) eqn:E.
  - apply Z.eqb_eq in E. replace (1 <=? s) with true by (symmetry; apply Z.leb_le; lia).
    replace (s <=? L) with true by (symmetry; apply Z.leb_le; lia). cbn [andb]. lia.
  - destruct ((1 <=? s) && (s <=? L)); lia.
Qed.

(* ---- the inner search ---- *)
Lemma find_nonzero_spec counts : forall k, (k < length counts)%nat ->
  (exists i, find_nonzero counts k = Ok i /\ 0 <= i <= Z.of_nat k /\ nth (Z.to_nat i) counts 0 <> 0
             /\ forall j, i < j <= Z.of_nat k -> nth (Z.to_nat j) counts 0 = 0)
  \/ (forall j, 0 <= j <= Z.of_nat k -> nth (Z.to_nat j) counts 0 = 0).
Proof.
  induction k as [|k IH]; intros Hk.
  - cbn [find_nonzero]. rewrite (lget_ok counts _ 0) by (unfold zlen; lia). cbn [bind].
    destruct (nth (Z.to_nat (Z.of_nat 0)) counts 0 =? 0) eqn:E.
    + right. apply Z.eqb_eq in E. intros j Hj. replace j with (Z.of_nat 0) by lia. exact E.
    + left. apply Z.eqb_neq in E. exists 0. split; [reflexivity|]. split; [lia|]. split; [exact E | intros j Hj; lia].
  - cbn [find_nonzero]. rewrite (lget_ok counts _ 0) by (unfold zlen; lia). cbn [bind]. rewrite Nat2Z.id.
    destruct (nth (S k) counts 0 =? 0) eqn:E.
    + apply Z.eqb_eq in E. destruct (IH ltac:(lia)) as [[i [Ei [Hi [Hnz Hz]]]] | Hz].
      * left. exists i. split; [exact Ei|]. split; [lia|]. split; [exact Hnz|].
        intros j Hj. destruct (Z.eq_dec j (Z.of_nat (S k))) as [-> | Ne]; [rewrite Nat2Z.id; exact E | apply Hz; lia].
      * right. intros j Hj. destruct (Z.eq_dec j (Z.of_nat (S k))) as [-> | Ne]; [rewrite Nat2Z.id; exact E | apply Hz; lia].
    + apply Z.eqb_neq in E. left. exists (Z.of_nat (S k)). split; [reflexivity|]. split; [lia|].
      split; [rewrite Nat2Z.id; exact E | intros j Hj; lia].
Qed.

(* ---- the limiting loop ---- *)
Record cinv (L : Z) (counts : list Z) : Prop := {
  ci_len : length counts = 16%nat;
  ci_nn : Forall (fun c => 0 <= c) counts;
  ci_hi : forall j, L < j < 16 -> nth (Z.to_nat j) counts 0 = 0
}.

Lemma W_L_only L counts : 1 <= L <= 15 -> cinv L counts ->
  (forall j, 1 <= j <= L - 1 -> nth (Z.to_nat j) counts 0 = 0) ->
  wsum (WK L) counts = nth (Z.to_nat L) counts 0 /\ wsum (W1 L) counts = nth (Z.to_nat L) counts 0.
Proof.
  intros HL [Hlen _ Hhi] Hz.
  assert (G : forall w, (forall j, w j = if (1 <=? j) && (j <=? L) then w j else 0) -> w L = 1 ->
                        wsum w counts = nth (Z.to_nat L) counts 0).
  { intros w Hw HwL. unfold wsum. rewrite (wsum_from_single w counts 0 (Z.to_nat L)).
    - rewrite Z.add_0_l, Z2Nat.id, HwL by lia. lia.
    - lia.
    - intros j Hj Ne. rewrite Z.add_0_l. rewrite Hw.
      destruct (1 <=? Z.of_nat j) eqn:E1; cbn [andb]; [|lia]. destruct (Z.of_nat j <=? L) eqn:E2; [|lia].
      apply Z.leb_le in E1, E2. rewrite <- (Nat2Z.id j). rewrite (Hz (Z.of_nat j)) by lia. lia. }
  split; apply G.
  - intros j. unfold WK. destruct ((1 <=? j) && (j <=? L)); reflexivity.
  - unfold WK. replace (1 <=? L) with true by (symmetry; apply Z.leb_le; lia). rewrite Z.leb_refl. cbn [andb].
    rewrite Z.sub_diag. reflexivity.
  - intros j. unfold W1. destruct ((1 <=? j) && (j <=? L)); reflexivity.
  - unfold W1. replace (1 <=? L) with true by (symmetry; apply Z.leb_le; lia). rewrite Z.leb_refl. reflexivity.
Qed.

Lemma limit_loop_spec L : 1 <= L <= 15 ->
  forall fuel counts total, cinv L counts ->
  wsum (WK L) counts = total -> wsum (W1 L) counts <= 2 ^ L -> 2 ^ L <= total ->
  total - 2 ^ L + (if 0 <? nth (Z.to_nat L) counts 0 then 1 else 0) <= nth (Z.to_nat L) counts 0 ->
  total - 2 ^ L < Z.of_nat fuel ->
  exists counts', limit_loop fuel counts total L = Ok counts' /\ cinv L counts'
    /\ wsum (WK L) counts' = 2 ^ L /\ wsum (W1 L) counts' = wsum (W1 L) counts.
Proof.
  intros HL. induction fuel as [|fuel IH]; intros counts total CI HT HN Hge H3 Hf; [lia|].
  cbn [limit_loop]. replace (32 <=? L) with false by (symmetry; apply Z.leb_gt; lia).
  destruct (2 ^ L <? total) eqn:Egt.
  - apply Z.ltb_lt in Egt. destruct CI as [Hlen Hnn Hhi].
    unfold csub at 1. replace (L - 1 <? 0) with false by (symmetry; apply Z.ltb_ge; lia). cbn [bind].
    (* cL >= 2 *)
    set (cL := nth (Z.to_nat L) counts 0) in *.
    assert (HcL : 2 <= cL) by (destruct (0 <? cL) eqn:E; [lia | apply Z.ltb_ge in E; lia]).
    assert (H3' : total - 2 ^ L + 1 <= cL) by (destruct (0 <? cL) eqn:E; [lia | apply Z.ltb_ge in E; lia]).
    destruct (find_nonzero_spec counts (Z.to_nat (L - 1)) ltac:(lia)) as [[i [Ei [Hi [Hnz Hzi]]]] | Hz].
    2:{ exfalso. destruct (W_L_only L counts HL (Build_cinv _ _ Hlen Hnn Hhi)) as [E1 E2].
        { intros j Hj. apply Hz. lia. }
        fold cL in E1, E2. lia. }
    destruct (Z.eq_dec i 0) as [-> | Hi0].
    { exfalso. destruct (W_L_only L counts HL (Build_cinv _ _ Hlen Hnn Hhi)) as [E1 E2].
      { intros j Hj. apply Hzi. lia. }
      fold cL in E1, E2. lia. }
    rewrite Ei. cbn [bind].
    assert (Hil : 1 <= i <= L - 1) by lia.
    set (ci := nth (Z.to_nat i) counts 0) in *.
    assert (Hci : 1 <= ci) by (pose proof (Forall_nth_nonneg counts (Z.to_nat i) Hnn); fold ci in H; lia).
    rewrite (lget_ok counts i 0) by (unfold zlen; lia). fold ci. cbn [bind].
    unfold csub at 1. replace (ci - 1 <? 0) with false by (symmetry; apply Z.ltb_ge; lia). cbn [bind].
    rewrite (lset_ok counts i) by (unfold zlen; lia). cbn [bind].
    set (c1 := upd counts (Z.to_nat i) (ci - 1)).
    assert (Hl1 : length c1 = 16%nat) by (unfold c1; rewrite upd_length; exact Hlen).
    rewrite (lget_ok c1 L 0) by (unfold zlen; lia). cbn [bind].
    assert (E1L : nth (Z.to_nat L) c1 0 = cL) by (unfold c1; rewrite nth_upd_neq by lia; reflexivity).
    rewrite E1L. unfold csub at 1. replace (cL - 1 <? 0) with false by (symmetry; apply Z.ltb_ge; lia). cbn [bind].
    rewrite (lset_ok c1 L) by (unfold zlen; lia). cbn [bind].
    set (c2 := upd c1 (Z.to_nat L) (cL - 1)).
    assert (Hl2 : length c2 = 16%nat) by (unfold c2; rewrite upd_length; exact Hl1).
    rewrite (lget_ok c2 (i + 1) 0) by (unfold zlen; lia). cbn [bind].
    set (x := nth (Z.to_nat (i + 1)) c2 0).
    assert (Hnn1 : Forall (fun c => 0 <= c) c1) by (apply Forall_upd; [exact Hnn | lia]).
    assert (Hnn2 : Forall (fun c => 0 <= c) c2) by (apply Forall_upd; [exact Hnn1 | lia]).
    assert (Hx0 : 0 <= x) by (apply Forall_nth_nonneg; exact Hnn2).
    assert (Hxb : x <= zsum c2) by (apply nth_le_zsum; exact Hnn2).
    (* sum of counts is at most 16 * ... : bound x + 2 through the W1 sum is awkward; use zsum directly *)
    assert (Hz2 : zsum c2 = zsum counts - 2).
    { unfold c2, c1. rewrite zsum_upd by (rewrite upd_length; lia). rewrite zsum_upd by lia.
      rewrite nth_upd_neq by lia. fold cL ci. lia. }
    unfold cadd.
    destruct (u32_max <? x + 2) eqn:Eov.
    { (* impossible: zsum counts <= u32_max is not part of the invariant; derive a bound from W1 and counts[0] *)
      exfalso. apply Z.ltb_lt in Eov.
      (* x counts symbols of length i+1 in 1..L, so x <= wsum W1 c2 <= 2^L *)
      assert (Hx1 : x <= wsum (W1 L) c2).
      { unfold x. rewrite (wsum_nth c2 (Z.to_nat (i + 1))) by lia.
        unfold wsum. apply wsum_ind_le_W1; [lia | exact Hnn2]. }
      assert (Hw2 : wsum (W1 L) c2 = wsum (W1 L) counts - 2).
      { unfold c2, c1, wsum. rewrite wsum_from_upd by (rewrite upd_length; lia). rewrite wsum_from_upd by lia.
        rewrite nth_upd_neq by lia. fold cL ci. rewrite !Z.add_0_l, !Z2Nat.id by lia. rewrite !W1_in by lia. lia. }
      assert (Hp : 2 ^ L <= 2 ^ 15) by (apply Z.pow_le_mono_r; lia). change (2 ^ 15) with 32768 in Hp.
      unfold u32_max in Eov. lia. }
    cbn [bind]. rewrite (lset_ok c2 (i + 1)) by (unfold zlen; lia). cbn [bind].
    set (c3 := upd c2 (Z.to_nat (i + 1)) (x + 2)).
    unfold csub. replace (total - 1 <? 0) with false by (symmetry; apply Z.ltb_ge; pose proof (pow2_pos L ltac:(lia)); lia).
    cbn [bind].
    (* effect of the three updates on any weight *)
    assert (Hw : forall w, wsum w c3 = wsum w counts - w i - w L + 2 * w (i + 1)).
    { intros w. unfold wsum.
      unfold c3. rewrite wsum_from_upd by lia. fold x.
      unfold c2 at 1. rewrite wsum_from_upd by lia. rewrite E1L.
      unfold c1 at 1. rewrite wsum_from_upd by lia. fold ci.
      rewrite !Z.add_0_l, !Z2Nat.id by lia. lia. }
    assert (E3L : nth (Z.to_nat L) c3 0 = if i + 1 =? L then cL + 1 else cL - 1).
    { unfold c3. destruct (i + 1 =? L) eqn:E.
      - apply Z.eqb_eq in E. rewrite E. rewrite nth_upd_eq by lia. unfold x. rewrite E. unfold c2.
        rewrite nth_upd_eq by lia. lia.
      - apply Z.eqb_neq in E. rewrite nth_upd_neq by lia. unfold c2. rewrite nth_upd_eq by lia. reflexivity. }
    destruct (IH c3 (total - 1)) as [c' [Ec [CI' [HK' HN']]]].
    + constructor.
      * unfold c3. rewrite upd_length. exact Hl2.
      * apply Forall_upd; [exact Hnn2 | lia].
      * intros j Hj. unfold c3, c2, c1. rewrite !nth_upd_neq by lia. apply Hhi. exact Hj.
    + rewrite Hw, HT. rewrite !WK_in by lia.
      rewrite Z.sub_diag. change (2 ^ 0) with 1.
      replace (L - i) with (L - (i + 1) + 1) by lia. rewrite pow2_succ by lia. lia.
    + rewrite Hw. rewrite !W1_in by lia. lia.
    + lia.
    + rewrite E3L. destruct (i + 1 =? L); [destruct (0 <? cL + 1) | destruct (0 <? cL - 1)]; lia.
    + lia.
    + exists c'. split; [exact Ec|]. split; [exact CI'|]. split; [exact HK'|]. rewrite HN', Hw. rewrite !W1_in by lia. lia.
  - apply Z.ltb_ge in Egt. exists counts. split; [reflexivity|]. split; [exact CI|]. split; [lia | reflexivity].
Qed.

(* ---- reassignment ---- *)
Definition usedpairs (idx : list (Z * Z)) : Z := zsum (map (fun p : Z * Z => if 0 <? snd p then 1 else 0) idx).
Definition ksum (L : Z) (lengths : list Z) (idx : list (Z * Z)) : Z :=
  zsum (map (fun p : Z * Z => if 0 <? snd p then 2 ^ (L - nth (Z.to_nat (fst p)) lengths 0) else 0) idx).

Lemma usedpairs_nonneg idx : 0 <= usedpairs idx.
Proof. unfold usedpairs. induction idx as [|p tl IH]; cbn [map zsum]; [lia | destruct (0 <? snd p); lia]. Qed.

Lemma WK_le_W1 L : 0 <= L -> forall cs s, Forall (fun c => 0 <= c) cs ->
  0 <= wsum_from (WK L) s cs <= 2 ^ L * wsum_from (W1 L) s cs.
Proof.
  intros HL cs s H. revert s. induction H as [|c l Hc _ IHl]; intros s; cbn [wsum_from]; [lia|].
  specialize (IHl (s + 1)). unfold WK at 1 3, W1 at 1.
  destruct ((1 <=? s) && (s <=? L)) eqn:E; [|lia].
  apply andb_true_iff in E. destruct E as [E1 E2]. apply Z.leb_le in E1, E2.
  assert (0 < 2 ^ (L - s) <= 2 ^ L) by (split; [apply pow2_pos; lia | apply Z.pow_le_mono_r; lia]). nia.
Qed.

Lemma reassign_spec L : 1 <= L <= 15 -> forall idx counts len lengths,
  NoDup (map fst idx) -> Forall (fun p : Z * Z => 0 <= fst p < zlen lengths) idx ->
  length counts = 16%nat -> Forall (fun c => 0 <= c) counts -> 0 <= len <= L ->
  (forall j, len < j < 16 -> nth (Z.to_nat j) counts 0 = 0) ->
  wsum (W1 L) counts = usedpairs idx ->
  exists lengths', reassign idx counts len lengths = Ok lengths' /\ length lengths' = length lengths
    /\ (forall p, In p idx -> 0 < snd p -> 1 <= nth (Z.to_nat (fst p)) lengths' 0 <= len)
    /\ (forall j, (forall p, In p idx -> 0 < snd p -> Z.to_nat (fst p) <> j) -> nth j lengths' 0 = nth j lengths 0)
    /\ ksum L lengths' idx = wsum (WK L) counts.
Proof.
  intros HL. induction idx as [|[i f] tl IH]; intros counts len lengths Hnd Hr Hlen Hnn Hl Hhi HU.
  - exists lengths. cbn [reassign]. split; [reflexivity|]. split; [reflexivity|]. split; [intros p []|]. split; [reflexivity|].
    unfold ksum. cbn [map zsum]. unfold usedpairs in HU. cbn [map zsum] in HU.
    pose proof (WK_le_W1 L ltac:(lia) counts 0 Hnn) as B. unfold wsum in *. rewrite HU in B. lia.
  - cbn [map] in Hnd. inversion Hnd as [|? ? Hni Hnd']; subst.
    apply Forall_cons_iff in Hr. destruct Hr as [Hi Hr]. cbn [fst] in Hi.
    cbn [reassign]. destruct (0 <? f) eqn:Ef.
    + apply Z.ltb_lt in Ef. unfold usedpairs in HU. cbn [map zsum snd] in HU.
      replace (0 <? f) with true in HU by (symmetry; apply Z.ltb_lt; lia). fold (usedpairs tl) in HU.
      pose proof (usedpairs_nonneg tl) as Hu0.
      assert (Hzero : forall lo, (forall j, lo <= j <= len -> nth (Z.to_nat j) counts 0 = 0) -> 0 <= lo <= 1 -> wsum (W1 L) counts = 0).
      { intros lo Hz Hlo. unfold wsum. apply wsum_from_zero. intros k Hk. rewrite Z.add_0_l.
        destruct (Z.eq_dec (Z.of_nat k) 0) as [E0 | N0].
        - rewrite E0. unfold W1. cbn. lia.
        - destruct (Z.le_gt_cases (Z.of_nat k) len) as [Hle | Hgt].
          + rewrite <- (Nat2Z.id k). rewrite Hz by lia. lia.
          + rewrite <- (Nat2Z.id k). rewrite Hhi by lia. lia. }
      destruct (find_nonzero_spec counts (Z.to_nat len) ltac:(lia)) as [[i' [Ei [Hi' [Hnz Hzi]]]] | Hz].
      2:{ exfalso. rewrite (Hzero 0) in HU; [lia | | lia]. intros j Hj. apply Hz. lia. }
      destruct (Z.eq_dec i' 0) as [-> | Hi0].
      { exfalso. rewrite (Hzero 1) in HU; [lia | | lia]. intros j Hj. apply Hzi. lia. }
      rewrite Ei. cbn [bind]. rewrite (lset_ok lengths i) by exact Hi. cbn [bind].
      rewrite (lget_ok counts i' 0) by (unfold zlen; lia). cbn [bind].
      set (c := nth (Z.to_nat i') counts 0) in *.
      assert (Hc : 1 <= c) by (pose proof (Forall_nth_nonneg counts (Z.to_nat i') Hnn) as Hc0; fold c in Hc0; lia).
      unfold csub. replace (c - 1 <? 0) with false by (symmetry; apply Z.ltb_ge; lia). cbn [bind].
      rewrite (lset_ok counts i') by (unfold zlen; lia). cbn [bind].
      destruct (IH (upd counts (Z.to_nat i') (c - 1)) i' (upd lengths (Z.to_nat i) i')) as [l' [El [Hll [Hin [Hout Hk]]]]].
      * exact Hnd'.
      * rewrite zlen_upd. exact Hr.
      * rewrite upd_length. exact Hlen.
      * apply Forall_upd; [exact Hnn | lia].
      * lia.
      * intros j Hj. rewrite nth_upd_neq by lia.
        destruct (Z.le_gt_cases j len) as [Hle | Hgt]; [apply Hzi; lia | apply Hhi; lia].
      * unfold wsum. rewrite wsum_from_upd by lia. fold c. rewrite Z.add_0_l, Z2Nat.id by lia.
        rewrite W1_in by lia. unfold wsum in HU. lia.
      * assert (Ei'' : nth (Z.to_nat i) l' 0 = i').
        { rewrite Hout.
          - apply nth_upd_eq. unfold zlen in Hi. lia.
          - intros p Hp _ E. apply Hni. apply in_map_iff. exists p. split; [|exact Hp].
            rewrite Forall_forall in Hr. specialize (Hr p Hp). lia. }
        exists l'. split; [exact El|]. split; [rewrite Hll; apply upd_length|]. split; [|split].
        -- intros p [<- | Hp] Hpos; cbn [fst snd] in *; [rewrite Ei''; lia | specialize (Hin p Hp Hpos); lia].
        -- intros j Hj. rewrite Hout.
           ++ apply nth_upd_neq. specialize (Hj (i, f) (or_introl eq_refl) Ef). cbn [fst] in Hj. exact Hj.
           ++ intros p Hp Hpos. apply Hj; [right; exact Hp | exact Hpos].
        -- unfold ksum in *. cbn [map zsum fst snd]. replace (0 <? f) with true by (symmetry; apply Z.ltb_lt; lia).
           rewrite Ei'', Hk. unfold wsum. rewrite wsum_from_upd by lia. fold c. rewrite Z.add_0_l, Z2Nat.id by lia.
           rewrite WK_in by lia. lia.
    + apply Z.ltb_ge in Ef. unfold usedpairs in HU. cbn [map zsum snd] in HU.
      replace (0 <? f) with false in HU by (symmetry; apply Z.ltb_ge; lia). rewrite Z.add_0_l in HU. fold (usedpairs tl) in HU.
      destruct (IH counts len lengths Hnd' Hr Hlen Hnn Hl Hhi HU) as [l' [El [Hll [Hin [Hout Hk]]]]].
      exists l'. split; [exact El|]. split; [exact Hll|]. split; [|split].
      * intros p [<- | Hp] Hpos; cbn [fst snd] in *; [lia | apply Hin; assumption].
      * intros j Hj. apply Hout. intros p Hp Hpos. apply Hj; [right; exact Hp | exact Hpos].
      * unfold ksum in *. cbn [map zsum snd]. replace (0 <? f) with false by (symmetry; apply Z.ltb_ge; lia). rewrite Hk. lia.
Qed.

(* ---- enumerate ---- *)
Lemma enumerate_from_spec {A} : forall (l : list A) s p, In p (enumerate_from s l) ->
  s <= fst p < s + zlen l /\ nth_error l (Z.to_nat (fst p - s)) = Some (snd p).
Proof.
  induction l as [|x tl IH]; intros s p Hp; cbn [enumerate_from] in Hp; [contradiction|].
  rewrite zlen_cons. pose proof (zlen_nonneg tl). destruct Hp as [<- | Hp]; cbn [fst snd].
  - rewrite Z.sub_diag. cbn. split; [lia | reflexivity].
  - destruct (IH (s + 1) p Hp) as [Hr He]. split; [lia|].
    replace (Z.to_nat (fst p - s)) with (S (Z.to_nat (fst p - (s + 1)))) by lia. exact He.
Qed.

Lemma enumerate_from_NoDup {A} : forall (l : list A) s, NoDup (map fst (enumerate_from s l)).
Proof.
  induction l as [|x tl IH]; intros s; cbn [enumerate_from map]; constructor; [|apply IH].
  intros Hin. apply in_map_iff in Hin. destruct Hin as [p [Ep Hp]]. apply enumerate_from_spec in Hp. cbn [fst] in Ep. lia.
Qed.

Lemma enumerate_from_In {A} : forall (l : list A) s k d, (k < length l)%nat -> In (s + Z.of_nat k, nth k l d) (enumerate_from s l).
Proof.
  induction l as [|x tl IH]; intros s k d Hk; cbn [length] in Hk; [lia|]. cbn [enumerate_from].
  destruct k as [|k]; [left; cbn [nth]; f_equal; lia|]. right. cbn [nth].
  replace (s + Z.of_nat (S k)) with (s + 1 + Z.of_nat k) by lia. apply IH. lia.
Qed.

Lemma usedpairs_enumerate : forall l s, usedpairs (enumerate_from s l) = zsum (map (fun f => if 0 <? f then 1 else 0) l).
Proof. induction l as [|x tl IH]; intros s; cbn [enumerate_from]; unfold usedpairs in *; cbn [map zsum snd]; [reflexivity | rewrite IH; reflexivity]. Qed.

Definition kterm (L x : Z) : Z := if 0 <? x then 2 ^ (L - x) else 0.

Lemma kraft_enumerate L {A} : forall (l : list A) lens pre s, length lens = length l -> s = zlen pre ->
  kraft lens L = zsum (map (fun p : Z * A => kterm L (nth (Z.to_nat (fst p)) (pre ++ lens) 0)) (enumerate_from s l)).
Proof.
  induction l as [|f tl IH]; intros [|x lens] pre s Hlen Hs; cbn [length] in Hlen; try lia; try reflexivity; cbn [kraft enumerate_from map zsum].
  cbn [fst]. rewrite app_nth2 by (unfold zlen in Hs; lia).
  replace (Z.to_nat s - length pre)%nat with 0%nat by (unfold zlen in Hs; lia). cbn [nth]. unfold kterm at 1. f_equal.
  rewrite (IH lens (pre ++ [x]) (s + 1)); [| lia | rewrite zlen_app; change (zlen [x]) with 1; lia].
  rewrite <- app_assoc. reflexivity.
Qed.

(* ---- the whole limiting phase ---- *)
Definition gK (L x : Z) : Z := if 0 <? x then 2 ^ (L - Z.min x L) else 0.
Definition gC (L x : Z) : Z := if L <=? x then 1 else 0.
Definition gU (x : Z) : Z := if 0 <? x then 1 else 0.

Lemma lsum_ext g g' l : (forall x, In x l -> g x = g' x) -> lsum g l = lsum g' l.
Proof. intros H. unfold lsum. apply zsum_map_ext. exact H. Qed.

Lemma lsum_le_len g l : (forall x, 0 <= g x <= 1) -> 0 <= lsum g l <= zlen l.
Proof.
  intros H. unfold lsum. induction l as [|x tl IH]; cbn [map zsum]; [unfold zlen; cbn; lia|].
  rewrite zlen_cons. specialize (H x). lia.
Qed.

Lemma fold_max_ge : forall l a, a <= fold_left Z.max l a /\ Forall (fun x => x <= fold_left Z.max l a) l.
Proof.
  induction l as [|x tl IH]; intros a; cbn [fold_left]; [split; [lia | constructor]|].
  destruct (IH (Z.max a x)) as [H1 H2]. split; [lia|]. constructor; [lia | exact H2].
Qed.

Lemma fold_max_le : forall l a b, a <= b -> Forall (fun x => x <= b) l -> fold_left Z.max l a <= b.
Proof. induction l as [|x tl IH]; intros a b Ha H; cbn [fold_left]; [exact Ha|]. apply Forall_cons_iff in H. apply IH; [lia | tauto]. Qed.

Lemma In_firstn {A} (x : A) : forall n l, In x (firstn n l) -> In x l.
Proof. induction n as [|n IH]; intros [|y l] H; cbn [firstn] in H; try contradiction. destruct H as [-> | H]; [left; reflexivity | right; apply IH; exact H]. Qed.

Theorem limit_lengths_ok : forall sorter freqs lens0 L,
  1 <= L <= 15 -> length lens0 = length freqs -> zlen freqs <= 2 ^ L ->
  Permutation (sorter (enumerate freqs)) (enumerate freqs) ->
  Forall (fun x => 0 <= x) lens0 ->
  Forall2 (fun f x => (0 <? f) = (0 <? x)) freqs lens0 ->
  (Forall (fun x => x <= L) lens0 -> kraft lens0 L = 2 ^ L) ->
  2 ^ L <= lsum (gK L) lens0 ->
  lsum (gK L) lens0 - 2 ^ L + (if 0 <? lsum (gC L) lens0 then 1 else 0) <= lsum (gC L) lens0 ->
  exists lens1, limit_lengths sorter freqs lens0 L = Ok lens1 /\ length lens1 = length freqs
    /\ (forall i, (i < length freqs)%nat -> 0 < nth i freqs 0 -> 1 <= nth i lens1 0 <= L)
    /\ (forall i, (i < length freqs)%nat -> nth i freqs 0 <= 0 -> nth i lens1 0 = 0)
    /\ kraft lens1 L = 2 ^ L.
Proof.
  intros sorter freqs lens0 L HL Hlen Hn Hperm Hnn HF2 HK1 HK2 HK3.
  assert (Hpos : forall i, (i < length freqs)%nat -> (0 <? nth i freqs 0) = (0 <? nth i lens0 0)).
  { clear - HF2. induction HF2 as [|f x fl xl Hfx _ IH]; intros i Hi; cbn [length] in Hi; [lia|].
    destruct i as [|i]; cbn [nth]; [exact Hfx | apply IH; lia]. }
  unfold limit_lengths. destruct (L <? fold_left Z.max lens0 0) eqn:Emax.
  2:{ apply Z.ltb_ge in Emax. destruct (fold_max_ge lens0 0) as [_ Hall].
      assert (HallL : Forall (fun x => x <= L) lens0) by (eapply Forall_impl; [|exact Hall]; intros a Ha; cbv beta in Ha; lia).
      exists lens0. split; [reflexivity|]. split; [exact Hlen|]. split; [|split; [|exact (HK1 HallL)]].
      - intros i Hi Hf. specialize (Hpos i Hi). replace (0 <? nth i freqs 0) with true in Hpos by (symmetry; apply Z.ltb_lt; lia).
        symmetry in Hpos. apply Z.ltb_lt in Hpos. rewrite Forall_forall in HallL.
        specialize (HallL (nth i lens0 0) (@nth_In Z i lens0 0 ltac:(rewrite Hlen; exact Hi))). cbv beta in HallL. lia.
      - intros i Hi Hf. specialize (Hpos i Hi). replace (0 <? nth i freqs 0) with false in Hpos by (symmetry; apply Z.ltb_ge; lia).
        symmetry in Hpos. apply Z.ltb_ge in Hpos. rewrite Forall_forall in Hnn.
        specialize (Hnn (nth i lens0 0) (@nth_In Z i lens0 0 ltac:(rewrite Hlen; exact Hi))). cbv beta in Hnn. lia. }
  apply Z.ltb_lt in Emax.
  assert (Hp15 : 2 ^ L <= 32768) by (change 32768 with (2 ^ 15); apply Z.pow_le_mono_r; lia).
  pose proof (pow2_pos L ltac:(lia)) as HpL.
  assert (Hzl : zlen lens0 = zlen freqs) by (unfold zlen; rewrite Hlen; reflexivity).
  destruct (count_lengths_spec L ltac:(lia) lens0 (zeros 16)) as [counts [Ec [Hcl [Hcnn Hcw]]]].
  { apply zeros_length. } { exact Hnn. } { unfold zeros. apply Forall_forall. intros x Hx. apply repeat_spec in Hx. lia. }
  { replace (zsum (zeros 16)) with 0 by reflexivity. unfold u32_max. lia. }
  rewrite Ec. cbn [bind].
  assert (HwK : wsum (WK L) counts = lsum (gK L) lens0).
  { rewrite Hcw, wsum_zeros, Z.add_0_l. apply lsum_ext. intros x Hx. rewrite Forall_forall in Hnn. specialize (Hnn x Hx). cbv beta in Hnn.
    unfold WK, gK. destruct (0 <? x) eqn:E.
    - apply Z.ltb_lt in E. replace (1 <=? Z.min x L) with true by (symmetry; apply Z.leb_le; lia).
      replace (Z.min x L <=? L) with true by (symmetry; apply Z.leb_le; lia). reflexivity.
    - apply Z.ltb_ge in E. replace (Z.min x L) with 0 by lia. reflexivity. }
  assert (Hw1 : wsum (W1 L) counts = lsum gU lens0).
  { rewrite Hcw, wsum_zeros, Z.add_0_l. apply lsum_ext. intros x Hx. rewrite Forall_forall in Hnn. specialize (Hnn x Hx). cbv beta in Hnn.
    unfold W1, gU. destruct (0 <? x) eqn:E.
    - apply Z.ltb_lt in E. replace (1 <=? Z.min x L) with true by (symmetry; apply Z.leb_le; lia).
      replace (Z.min x L <=? L) with true by (symmetry; apply Z.leb_le; lia). reflexivity.
    - apply Z.ltb_ge in E. replace (Z.min x L) with 0 by lia. reflexivity. }
  assert (HU : 0 <= lsum gU lens0 <= zlen lens0).
  { apply lsum_le_len. intros x. unfold gU. destruct (0 <? x); lia. }
  assert (HcL : nth (Z.to_nat L) counts 0 = lsum (gC L) lens0).
  { rewrite (wsum_nth counts (Z.to_nat L)) by lia. rewrite Hcw, wsum_zeros, Z.add_0_l. apply lsum_ext. intros x Hx.
    unfold gC. rewrite Z2Nat.id by lia. destruct (L <=? x) eqn:E.
    - apply Z.leb_le in E. replace (Z.min x L) with L by lia. rewrite Z.eqb_refl. reflexivity.
    - apply Z.leb_gt in E. replace (Z.min x L =? L) with false by (symmetry; apply Z.eqb_neq; lia). reflexivity. }
  assert (Hhi : forall j, L < j < 16 -> nth (Z.to_nat j) counts 0 = 0).
  { intros j Hj. rewrite (wsum_nth counts (Z.to_nat j)) by lia. rewrite Hcw, wsum_zeros, Z.add_0_l.
    unfold lsum. rewrite (zsum_map_ext _ (fun _ => 0)).
    - clear. induction lens0; cbn [map zsum]; lia.
    - intros x _. rewrite Z2Nat.id by lia. replace (Z.min x L =? j) with false by (symmetry; apply Z.eqb_neq; lia). reflexivity. }
  assert (HKb : wsum (WK L) counts <= 2 ^ L * wsum (W1 L) counts) by (apply (WK_le_W1 L ltac:(lia) counts 0 Hcnn)).
  rewrite (total_loop_spec L HL).
  2:{ lia. } 2:{ unfold zlen. rewrite firstn_length. lia. }
  2:{ apply Forall_forall. intros x Hx. apply In_firstn in Hx. destruct counts as [|c0 rest]; [discriminate|]. cbn [skipn] in Hx.
      rewrite Forall_forall in Hcnn. apply Hcnn. right. exact Hx. }
  2:{ lia. }
  2:{ rewrite total_is_WK by assumption. unfold u32_max. nia. }
  cbn [bind]. rewrite Z.add_0_l, total_is_WK by assumption.
  destruct (limit_loop_spec L HL (S (length freqs)) counts (wsum (WK L) counts)) as [counts' [El [[Hl' Hnn' Hhi'] [HK' HN']]]].
  { constructor; assumption. } { reflexivity. } { lia. } { lia. } { rewrite HcL, HwK. exact HK3. }
  { rewrite HwK. rewrite <- Hzl in *. unfold zlen in *. destruct (0 <? lsum (gC L) lens0) eqn:E.
    - assert (lsum (gC L) lens0 <= lsum gU lens0).
      { unfold lsum. clear - HL. induction lens0 as [|x tl IH]; cbn [map zsum]; [lia|]. unfold gC at 1, gU at 1.
        destruct (L <=? x) eqn:E1; destruct (0 <? x) eqn:E2; lia. }
      lia.
    - apply Z.ltb_ge in E. lia. }
  rewrite El. cbn [bind].
  set (idx := sorter (enumerate freqs)) in *.
  assert (Hidx_in : forall p, In p idx -> 0 <= fst p < zlen freqs /\ nth (Z.to_nat (fst p)) freqs 0 = snd p).
  { intros p Hp. apply (Permutation_in _ Hperm) in Hp. unfold enumerate in Hp. apply enumerate_from_spec in Hp.
    destruct Hp as [Hr He]. rewrite Z.sub_0_r in He. split; [lia|]. apply nth_error_nth. exact He. }
  destruct (reassign_spec L HL idx counts' L lens0) as [lens1 [Er [Hl1 [Hin [Hout Hks]]]]].
  { apply (Permutation_NoDup (Permutation_sym (Permutation_map fst Hperm))). apply enumerate_from_NoDup. }
  { apply Forall_forall. intros p Hp. destruct (Hidx_in p Hp) as [Hr _]. rewrite Hzl. exact Hr. }
  { exact Hl'. } { exact Hnn'. } { lia. } { exact Hhi'. }
  { rewrite HN', Hw1. unfold usedpairs. rewrite (zsum_perm _ _ (Permutation_map _ Hperm)). fold (usedpairs (enumerate freqs)).
    unfold enumerate. rewrite usedpairs_enumerate. unfold lsum, gU.
    clear - HF2. induction HF2 as [|f x fl xl Hfx _ IH]; cbn [map zsum]; [reflexivity | rewrite Hfx, IH; reflexivity]. }
  rewrite Er. exists lens1. split; [reflexivity|]. split; [rewrite Hl1; exact Hlen|].
  assert (Hused : forall i, (i < length freqs)%nat -> 0 < nth i freqs 0 -> 1 <= nth i lens1 0 <= L).
  { intros i Hi Hf. pose proof (enumerate_from_In freqs 0 i 0 Hi) as Hp. fold (enumerate freqs) in Hp.
    apply (Permutation_in _ (Permutation_sym Hperm)) in Hp. specialize (Hin _ Hp Hf). cbn [fst] in Hin.
    rewrite Z.add_0_l, Nat2Z.id in Hin. exact Hin. }
  assert (Hunused : forall i, (i < length freqs)%nat -> nth i freqs 0 <= 0 -> nth i lens1 0 = 0).
  { intros i Hi Hf. rewrite Hout.
    - specialize (Hpos i Hi). replace (0 <? nth i freqs 0) with false in Hpos by (symmetry; apply Z.ltb_ge; lia).
      symmetry in Hpos. apply Z.ltb_ge in Hpos. rewrite Forall_forall in Hnn.
      specialize (Hnn (nth i lens0 0) (@nth_In Z i lens0 0 ltac:(rewrite Hlen; exact Hi))). cbv beta in Hnn. lia.
    - intros p Hp Hpp E. destruct (Hidx_in p Hp) as [_ He]. rewrite E in He. lia. }
  split; [exact Hused|]. split; [exact Hunused|].
  rewrite (kraft_enumerate L freqs lens1 [] 0) by (try reflexivity; rewrite Hl1; exact Hlen). cbn [app].
  fold (enumerate freqs). rewrite <- (zsum_perm _ _ (Permutation_map _ Hperm)). fold idx.
  rewrite <- HK', <- Hks. unfold ksum. apply zsum_map_ext. intros p Hp. destruct (Hidx_in p Hp) as [Hr He].
  unfold kterm. destruct (0 <? snd p) eqn:E.
  - apply Z.ltb_lt in E. specialize (Hin p Hp E). replace (0 <? nth (Z.to_nat (fst p)) lens1 0) with true by (symmetry; apply Z.ltb_lt; lia). reflexivity.
  - apply Z.ltb_ge in E. rewrite (Hunused (Z.to_nat (fst p))) by (unfold zlen in Hr; lia). reflexivity.
Qed.
