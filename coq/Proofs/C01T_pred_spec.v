(* C01, inverse transforms, (c) part 1: the specification side of the predictor transform.
   - Spec.VP8L.inverse_predictor is characterised by a recurrence on its own result (every pixel = residual + prediction
     from already reconstructed pixels), because `prediction` only reads pixels before the current one;
   - the 14 prediction modes on (R, G, B, A) quadruples: the specification's per-channel formulas equal the Rust kernels
     (average2, clamp_add_subtract_full / _half, the Manhattan distances of Select). *)
From Coq Require Import ZArith NArith List Bool Lia.
From WebP Require Import Lib.Res Lib.Arr Lib.ZBits Gen.Kernels Model.LosslessLib Model.LosslessTransform
  Proofs.Lossless_HuffmanSafe Proofs.Lossless_Kernels Proofs.C01T_repr.
From WebP Require Spec.VP8L Proofs.C04_arr.
Import ListNotations.
Open Scope Z_scope.

Ltac Zify.zify_post_hook ::= Z.div_mod_to_equations.

(* ------------------------------------------------------------------------------------------------ *)
(** * the inverse predictor, generic in what a block's green byte g predicts *)
(* Spec.VP8L.prediction / inverse_predictor with `predict (green & 15)` replaced by a parameter pf applied to the whole
   green byte: the specification is the instance pf g = predict (g & 15); the Rust code is the instance `pmodel` below. *)
Definition prediction_gen (pf : Z -> Z -> Z -> Z -> Z -> Z) (width size_bits : Z) (modes img : arr) (x y : Z) : Z :=
  let at_ x y := V.pix img (y * width + x) in
  if (x =? 0) && (y =? 0) then V.black
  else if y =? 0 then at_ (x - 1) y
  else if x =? 0 then at_ x (y - 1)
  else
    let block_xsize := V.DIV_ROUND_UP width (2 ^ size_bits) in
    let block_index := Z.shiftr y size_bits * block_xsize + Z.shiftr x size_bits in
    let g := V.GREEN (V.pix modes block_index) in
    let TR := if x =? width - 1 then at_ 0 y else at_ (x + 1) (y - 1) in
    pf g (at_ (x - 1) y) (at_ x (y - 1)) TR (at_ (x - 1) (y - 1)).

Definition inverse_predictor_gen (pf : Z -> Z -> Z -> Z -> Z -> Z) (width height size_bits : Z) (modes img : arr) : arr :=
  V.for_range height (fun y => V.for_range width (fun x img =>
    let i := y * width + x in
    V.set_pix img i (V.add_pixels (V.pix img i) (prediction_gen pf width size_bits modes img x y)))) img.

Lemma inverse_predictor_is_gen w h bits modes img :
  V.inverse_predictor w h bits modes img = inverse_predictor_gen (fun g => V.predict (Z.land g 15)) w h bits modes img.
Proof. reflexivity. Qed.

(* what lossless_transform.rs does with the green byte g of a block: the 14 modes of the format, and NOTHING for g >= 14
   (the residuals stay: prediction 0x00000000), where libwebp / Spec.VP8L use mode g & 15 with 14, 15 = 0xff000000 *)
Definition pmodel (g : Z) : Z -> Z -> Z -> Z -> Z := if g <=? 13 then V.predict g else fun _ _ _ _ => 0.

Lemma for_range_ext {A} n (f g : Z -> A -> A) a : 0 <= n -> (forall i x, 0 <= i < n -> f i x = g i x) ->
  V.for_range n f a = V.for_range n g a.
Proof.
  intros Hn H. apply (C04_arr.for_range_inv (fun i x => x = V.for_range i g a) f a n Hn); [reflexivity|].
  intros i x Hi ->. rewrite C04_arr.for_range_succ by lia. apply H. lia.
Qed.

(* two instances that agree on the green bytes of the blocks give the same image *)
Lemma inverse_predictor_gen_ext pf1 pf2 w h bits modes img : 0 <= w -> 0 <= h ->
  (forall x y, 0 <= x < w -> 0 <= y < h ->
     pf1 (V.GREEN (V.pix modes (Z.shiftr y bits * V.DIV_ROUND_UP w (2 ^ bits) + Z.shiftr x bits))) =
     pf2 (V.GREEN (V.pix modes (Z.shiftr y bits * V.DIV_ROUND_UP w (2 ^ bits) + Z.shiftr x bits)))) ->
  inverse_predictor_gen pf1 w h bits modes img = inverse_predictor_gen pf2 w h bits modes img.
Proof.
  intros Hw Hh H. unfold inverse_predictor_gen. apply for_range_ext; [exact Hh|]. intros y a Hy.
  apply for_range_ext; [exact Hw|]. intros x a0 Hx. cbv zeta. do 2 f_equal.
  unfold prediction_gen. cbv zeta. rewrite (H x y Hx Hy). reflexivity.
Qed.

Lemma prediction_local pf w bits modes a b x y : 1 <= w -> 0 <= x < w -> 0 <= y ->
  (forall j, 0 <= j < y * w + x -> V.pix a j = V.pix b j) ->
  prediction_gen pf w bits modes a x y = prediction_gen pf w bits modes b x y.
Proof.
  intros Hw Hx Hy H. unfold prediction_gen. cbv zeta.
  destruct (Z.eqb_spec x 0) as [Ex|Ex]; destruct (Z.eqb_spec y 0) as [Ey|Ey]; cbn [andb]; try reflexivity.
  - assert (0 <= (y - 1) * w) by nia. apply H. lia.
  - apply H. lia.
  - assert (0 <= (y - 1) * w) by nia.
    rewrite (H (y * w + (x - 1))), (H ((y - 1) * w + x)), (H ((y - 1) * w + (x - 1))) by lia.
    destruct (Z.eqb_spec x (w - 1)) as [Exw|Exw].
    + rewrite (H (y * w + 0)) by lia. reflexivity.
    + rewrite (H ((y - 1) * w + (x + 1))) by lia. reflexivity.
Qed.

Section Rec.
  Variables (pf : Z -> Z -> Z -> Z -> Z -> Z) (w h bits : Z) (modes img : arr).
  Hypothesis Hw : 1 <= w.
  Hypothesis Hh : 1 <= h.
  Let out := inverse_predictor_gen pf w h bits modes img.

  Lemma inverse_predictor_rec :
    alen out = alen img /\
    forall x y, 0 <= x < w -> 0 <= y < h ->
      V.pix out (y * w + x) = V.add_pixels (V.pix img (y * w + x)) (prediction_gen pf w bits modes out x y).
  Proof.
    pose proof (scan2d_spec w h (fun x y v a => V.add_pixels v (prediction_gen pf w bits modes a x y)) img ltac:(lia) ltac:(lia)) as H.
    cbv beta zeta in H. destruct H as (Ha & Hp & _).
    - intros x y v a b Hx Hy Hab. f_equal. apply prediction_local; try lia; try exact Hab.
    - split; [exact Ha | exact Hp].
  Qed.

  (* the green byte of the block of an inner pixel *)
  Definition green_at (x y : Z) : Z :=
    V.GREEN (V.pix modes (Z.shiftr y bits * V.DIV_ROUND_UP w (2 ^ bits) + Z.shiftr x bits)).

  Lemma out_00 : V.pix out 0 = V.add_pixels (V.pix img 0) V.black.
  Proof. destruct inverse_predictor_rec as (_ & H). specialize (H 0 0 ltac:(lia) ltac:(lia)). rewrite Z.mul_0_l, Z.add_0_r in H. exact H. Qed.

  Lemma out_row0 x : 1 <= x < w -> V.pix out x = V.add_pixels (V.pix img x) (V.pix out (x - 1)).
  Proof.
    intros Hx. destruct inverse_predictor_rec as (_ & H). specialize (H x 0 ltac:(lia) ltac:(lia)).
    rewrite Z.mul_0_l, Z.add_0_l in H. rewrite H. f_equal. unfold prediction_gen. cbv zeta.
    replace (x =? 0) with false by (symmetry; apply Z.eqb_neq; lia). cbn [andb Z.eqb]. rewrite Z.mul_0_l, Z.add_0_l. reflexivity.
  Qed.

  Lemma out_col0 y : 1 <= y < h -> V.pix out (y * w) = V.add_pixels (V.pix img (y * w)) (V.pix out ((y - 1) * w)).
  Proof.
    intros Hy. destruct inverse_predictor_rec as (_ & H). specialize (H 0 y ltac:(lia) ltac:(lia)).
    rewrite Z.add_0_r in H. rewrite H. f_equal. unfold prediction_gen. cbv zeta.
    replace (y =? 0) with false by (symmetry; apply Z.eqb_neq; lia). cbn [andb Z.eqb]. rewrite Z.add_0_r. reflexivity.
  Qed.

  Lemma out_inner x y i : 1 <= x < w -> 1 <= y < h -> i = y * w + x ->
    V.pix out i = V.add_pixels (V.pix img i)
      (pf (green_at x y) (V.pix out (i - 1)) (V.pix out (i - w)) (V.pix out (i - w + 1)) (V.pix out (i - w - 1))).
  Proof.
    intros Hx Hy ->. destruct inverse_predictor_rec as (_ & H). rewrite (H x y ltac:(lia) ltac:(lia)). f_equal.
    unfold prediction_gen. cbv zeta.
    replace (x =? 0) with false by (symmetry; apply Z.eqb_neq; lia).
    replace (y =? 0) with false by (symmetry; apply Z.eqb_neq; lia). cbn [andb]. fold (green_at x y).
    replace (y * w + (x - 1)) with (y * w + x - 1) by lia.
    replace ((y - 1) * w + x) with (y * w + x - w) by lia.
    replace ((y - 1) * w + (x - 1)) with (y * w + x - w - 1) by lia.
    destruct (Z.eqb_spec x (w - 1)) as [E|E].
    - replace (y * w + 0) with (y * w + x - w + 1) by lia. reflexivity.
    - replace ((y - 1) * w + (x + 1)) with (y * w + x - w + 1) by lia. reflexivity.
  Qed.
End Rec.

(* ------------------------------------------------------------------------------------------------ *)
(** * prediction kernels on quadruples *)
Lemma q4_black : q4 V.black = (0, 0, 0, 255).
Proof. reflexivity. Qed.

Lemma avg_byte a b : byte a -> byte b -> byte ((a + b) / 2).
Proof. unfold byte. lia. Qed.

Lemma q4_Average2 p q : q4 (V.Average2 p q) = zip4 average2 (q4 p) (q4 q).
Proof.
  unfold V.Average2. rewrite (q4_per_channel (fun a b => (a + b) / 2)) by (intros; apply avg_byte; assumption).
  unfold zip4, q4.
  rewrite !(fun a b Ha Hb => proj1 (average2_spec a b Ha Hb)) by auto using RED_byte, GREEN_byte, BLUE_byte, ALPHA_byte.
  reflexivity.
Qed.

Lemma Average2_range p q : 0 <= V.Average2 p q < 2 ^ 32.
Proof. unfold V.Average2. apply per_channel_range. intros. apply avg_byte; assumption. Qed.

Lemma chan_Average2 c p q : 0 <= c < 4 -> chan c (V.Average2 p q) = average2 (chan c p) (chan c q).
Proof.
  intros Hc. rewrite chan_q4, q4_Average2 by exact Hc. unfold q4, zip4, chan. cbn [fst snd].
  destruct (c =? 0); [reflexivity|]. destruct (c =? 1); [reflexivity|]. destruct (c =? 2); reflexivity.
Qed.

Lemma Clamp_clamp255 a : V.Clamp a = clamp255 a.
Proof. unfold V.Clamp, clamp255. destruct (Z.ltb_spec a 0); [lia|]. destruct (Z.gtb_spec a 255); lia. Qed.

Lemma clamp255_byte a : byte (clamp255 a).
Proof. unfold clamp255, byte. lia. Qed.

Lemma q4_per_channel3 f p q r : (forall a b c, byte a -> byte b -> byte c -> byte (f a b c)) ->
  q4 (V.per_channel3 f p q r) =
  (f (V.RED p) (V.RED q) (V.RED r), f (V.GREEN p) (V.GREEN q) (V.GREEN r), f (V.BLUE p) (V.BLUE q) (V.BLUE r),
   f (V.ALPHA p) (V.ALPHA q) (V.ALPHA r)).
Proof.
  intros Hf. unfold V.per_channel3, q4.
  match goal with |- context [V.argb ?a ?r ?g ?b] =>
    destruct (argb_channels a r g b) as (E1 & E2 & E3 & E4); try (apply Hf; auto using RED_byte, GREEN_byte, BLUE_byte, ALPHA_byte) end.
  rewrite E1, E2, E3, E4. reflexivity.
Qed.

(* mode 12 *)
Lemma q4_casf L T TL : zip4r3 casf (q4 L) (q4 T) (q4 TL) = Ok (q4 (V.ClampAddSubtractFull L T TL)).
Proof.
  unfold V.ClampAddSubtractFull.
  rewrite (q4_per_channel3 (fun a b c => V.Clamp (a + b - c))) by (intros; rewrite Clamp_clamp255; apply clamp255_byte).
  unfold zip4r3, q4. rewrite !casf_ok by auto using RED_byte, GREEN_byte, BLUE_byte, ALPHA_byte. cbn [bind].
  rewrite !Clamp_clamp255. reflexivity.
Qed.

(* mode 13 *)
Lemma q4_cash L T TL : zip4r3 cash (q4 L) (q4 T) (q4 TL) = Ok (q4 (V.ClampAddSubtractHalf (V.Average2 L T) TL)).
Proof.
  unfold V.ClampAddSubtractHalf.
  rewrite (q4_per_channel (fun a b => V.Clamp (a + Z.quot (a - b) 2))) by (intros; rewrite Clamp_clamp255; apply clamp255_byte).
  rewrite q4_Average2. unfold zip4r3, zip4, q4. rewrite !cash_ok by auto using RED_byte, GREEN_byte, BLUE_byte, ALPHA_byte. cbn [bind].
  rewrite !Clamp_clamp255.
  rewrite !(fun a b Ha Hb => proj1 (average2_spec a b Ha Hb)) by auto using RED_byte, GREEN_byte, BLUE_byte, ALPHA_byte.
  reflexivity.
Qed.

Lemma ClampAddSubtractFull_range L T TL : 0 <= V.ClampAddSubtractFull L T TL < 2 ^ 32.
Proof.
  unfold V.ClampAddSubtractFull, V.per_channel3. apply argb_range; rewrite Clamp_clamp255; apply clamp255_byte.
Qed.

(* mode 11: the decision of Select on the quadruples, with the i16 overflow checks of the Rust code *)
Definition sel_left (l t tl : px4) : Z := sum4 (zip4 (fun p x => Z.abs (p - x)) (zip4 Z.sub (zip4 Z.add l t) tl) l).
Definition sel_top (l t tl : px4) : Z := sum4 (zip4 (fun p x => Z.abs (p - x)) (zip4 Z.sub (zip4 Z.add l t) tl) t).

Lemma select_q4 L T TL :
  sel_left (q4 L) (q4 T) (q4 TL) <= 32767 /\ sel_top (q4 L) (q4 T) (q4 TL) <= 32767 /\
  V.Select L T TL = if sel_left (q4 L) (q4 T) (q4 TL) <? sel_top (q4 L) (q4 T) (q4 TL) then L else T.
Proof.
  unfold sel_left, sel_top, V.Select, q4, zip4, sum4. cbv zeta.
  pose proof (RED_byte L). pose proof (GREEN_byte L). pose proof (BLUE_byte L). pose proof (ALPHA_byte L).
  pose proof (RED_byte T). pose proof (GREEN_byte T). pose proof (BLUE_byte T). pose proof (ALPHA_byte T).
  pose proof (RED_byte TL). pose proof (GREEN_byte TL). pose proof (BLUE_byte TL). pose proof (ALPHA_byte TL).
  unfold byte in *. split; [lia|]. split; [lia|].
  match goal with |- (if ?a <? ?b then _ else _) = (if ?c <? ?d then _ else _) => replace c with a by lia; replace d with b by lia end.
  reflexivity.
Qed.

Lemma mod256_small' x : byte x -> x mod 256 = x.
Proof. unfold byte. intros H. apply Z.mod_small. lia. Qed.

Lemma map4_mod_q4 p : map4 (fun x => x mod 256) (q4 p) = q4 p.
Proof.
  unfold map4, q4. rewrite !mod256_small' by auto using RED_byte, GREEN_byte, BLUE_byte, ALPHA_byte. reflexivity.
Qed.
