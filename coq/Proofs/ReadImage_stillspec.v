(* Glue of read_image, part 6: the composed executable specification Spec.Still.decode_still, run on the serialisation of a
   well-formed lossy still file, computes [lossy_pixels] (Proofs/ReadImage_lossy.v) from the planes Spec.VP8.decode gives for the
   file's 'VP8 ' chunk.  Spec.Still has its own small chunk walker; this file shows it reads back what Spec.Container.serialize
   wrote (parse . serialize over the chunk list) -- a statement about the two specifications only. *)
From Coq Require Import ZArith List Bool Lia Arith.
From WebP Require Import Lib.ZBits Spec.Container Spec.YUV.
From WebP Require Spec.VP8.
From WebP Require Import Proofs.Container_bytes Proofs.Container_simple Proofs.Container_scan Proofs.Container_extended
  Proofs.ReadImage_base Proofs.ReadImage_container Proofs.ReadImage_lossy.
Import ListNotations.
Open Scope Z_scope.

Ltac Zify.zify_post_hook ::= Z.div_mod_to_equations.

(* ---------------------------------------------------------------------------------------------- *)
(* the chunk walker of Spec.Still on serialised chunks                                              *)
(* ---------------------------------------------------------------------------------------------- *)
Definition item : Type := (list Z * list Z)%type.
Definition ser_item (it : item) : list Z := ser_chunk (fst it) (snd it).
Definition item_ok (it : item) : Prop := length (fst it) = 4%nat /\ len (snd it) < 4294967296.

Lemma drop_skipn : forall n l, SS.drop n l = skipn n l.
Proof. induction n as [|n IH]; intros [|x l]; first [reflexivity | cbn [SS.drop skipn]; apply IH]. Qed.

Lemma le32_roundtrip v : 0 <= v < 4294967296 -> SS.le32 (le32 v) = v.
Proof. intros H. unfold SS.le32, le32. lia. Qed.

Lemma pad_length p : length (pad p) = (length p mod 2)%nat.
Proof.
  unfold pad, len. pose proof (Z.bit0_mod (Z.of_nat (length p))) as H. rewrite Z.bit0_odd in H.
  pose proof (Nat2Z.inj_mod (length p) 2) as H2. change (Z.of_nat 2) with 2 in H2.
  destruct (Z.odd (Z.of_nat (length p))); cbn [Z.b2z length] in *; lia.
Qed.

Lemma ser_item_length it : (8 <= length (ser_item it))%nat \/ length (fst it) <> 4%nat.
Proof.
  destruct (Nat.eq_dec (length (fst it)) 4) as [E|N]; [left | right; exact N].
  unfold ser_item, ser_chunk. rewrite !app_length, E. cbn [le32 length]. lia.
Qed.

Lemma chunks_ser : forall items fuel, Forall item_ok items -> (length items <= fuel)%nat ->
  SS.chunks fuel (concat (map ser_item items)) = items.
Proof.
  induction items as [|[cc p] items IH]; intros fuel Hok Hf.
  - destruct fuel; reflexivity.
  - inversion Hok as [|? ? [Hcc Hp] Hoks]; subst. cbn [fst snd] in Hcc, Hp.
    destruct fuel as [|fuel]; [cbn [length] in Hf; lia|].
    destruct cc as [|c0 [|c1 [|c2 [|c3 [|c4 cc]]]]]; cbn [length] in Hcc; try lia.
    cbn [map concat]. unfold ser_item at 1. cbn [fst snd]. unfold ser_chunk.
    set (rest := concat (map ser_item items)).
    change (([c0; c1; c2; c3] ++ le32 (len p) ++ p ++ pad p) ++ rest)
      with (c0 :: c1 :: c2 :: c3 :: len p mod 256 :: (len p / 256) mod 256 :: (len p / 65536) mod 256 :: (len p / 16777216) mod 256
            :: ((p ++ pad p) ++ rest)).
    cbn [SS.chunks].
    change [len p mod 256; (len p / 256) mod 256; (len p / 65536) mod 256; (len p / 16777216) mod 256] with (le32 (len p)).
    pose proof (len_nonneg p) as Hp0.
    rewrite le32_roundtrip by lia. unfold len. rewrite !Nat2Z.id.
    assert (E1 : Nat.leb (length p) (length ((p ++ pad p) ++ rest)) = true).
    { apply Nat.leb_le. rewrite !app_length. lia. }
    rewrite E1. rewrite take_firstn, drop_skipn.
    rewrite <- app_assoc. rewrite firstn_app, firstn_all, Nat.sub_diag. cbn [firstn]. rewrite app_nil_r.
    rewrite app_assoc. rewrite skipn_app.
    assert (E2 : length (p ++ pad p) = (length p + length p mod 2)%nat) by (rewrite app_length, pad_length; reflexivity).
    rewrite <- E2, skipn_all, Nat.sub_diag. cbn [skipn app].
    apply f_equal. unfold rest. apply IH; [exact Hoks | cbn [length] in Hf; lia].
Qed.

Lemma concat_ser_length items : Forall item_ok items -> (length items <= length (concat (map ser_item items)))%nat.
Proof.
  induction 1 as [|it items [Hcc _] _ IH]; [cbn; lia|].
  cbn [map concat length]. rewrite app_length. destruct (ser_item_length it) as [H|H]; [lia | contradiction].
Qed.

(* ---------------------------------------------------------------------------------------------- *)
(* FourCC lookups                                                                                   *)
(* ---------------------------------------------------------------------------------------------- *)
Lemma fourcc_eqb_bytes a b : length a = 4%nat -> length b = 4%nat -> SS.fourcc_eqb a b = bytes_eqb a b.
Proof.
  intros Ha Hb.
  destruct a as [|a0 [|a1 [|a2 [|a3 [|a4 a]]]]]; cbn [length] in Ha; try lia.
  destruct b as [|b0 [|b1 [|b2 [|b3 [|b4 b]]]]]; cbn [length] in Hb; try lia.
  cbn [SS.fourcc_eqb bytes_eqb]. rewrite andb_true_r, !andb_assoc. reflexivity.
Qed.

Lemma unknown_not_reserved cc r : is_unknown_cc cc = true -> In r reserved_ccs -> bytes_eqb cc r = false.
Proof.
  unfold is_unknown_cc. rewrite !andb_true_iff, negb_true_iff. intros [_ H] Hin.
  destruct (bytes_eqb cc r) eqn:E; [|reflexivity].
  assert (X : existsb (bytes_eqb cc) reserved_ccs = true) by (apply existsb_exists; eauto). congruence.
Qed.

Definition chunk_item (k : chunk) : item := (chunk_cc k, chunk_payload k).

Lemma chunk_cc_length k : chunk_ok k = true -> length (chunk_cc k) = 4%nat.
Proof. intros H. pose proof (chunk_cc_len k H) as E. unfold len in E. lia. Qed.

Lemma find_chunk_items (cc : list Z) (pred : chunk -> bool) cs :
  In cc reserved_ccs -> length cc = 4%nat ->
  (forall k, match k with CUnknown _ => pred k = false | _ => pred k = bytes_eqb (chunk_cc k) cc end) ->
  forallb chunk_ok cs = true ->
  SS.find_chunk cc (map chunk_item cs) = option_map chunk_payload (find pred cs).
Proof.
  intros Hin Hlen Hpred. induction cs as [|k cs IH]; intros Hok; [reflexivity|].
  rewrite forallb_cons, andb_true_iff in Hok. destruct Hok as [Hk Hcs].
  cbn [map SS.find_chunk find]. unfold chunk_item at 1.
  rewrite fourcc_eqb_bytes by (try exact Hlen; apply chunk_cc_length; exact Hk).
  assert (E : bytes_eqb (chunk_cc k) cc = pred k).
  { pose proof (Hpred k) as Hp. destruct k; try (symmetry; exact Hp).
    rewrite Hp. cbn [chunk_cc]. apply unknown_not_reserved; [|exact Hin].
    cbn [chunk_ok] in Hk. rewrite unknown_ok_eq, andb_true_iff in Hk. apply Hk. }
  rewrite E. destruct (pred k); [reflexivity | apply IH; exact Hcs].
Qed.

Lemma find_chunk_unknowns cc trail : In cc reserved_ccs -> length cc = 4%nat -> forallb unknown_ok trail = true ->
  SS.find_chunk cc (map (fun u => (u_cc u, u_payload u)) trail) = None.
Proof.
  intros Hin Hlen. induction trail as [|u trail IH]; intros Hok; [reflexivity|].
  rewrite forallb_cons, andb_true_iff in Hok. destruct Hok as [Hu Hus].
  rewrite unknown_ok_eq, andb_true_iff in Hu. destruct Hu as [Hu _].
  cbn [map SS.find_chunk].
  rewrite fourcc_eqb_bytes; [| pose proof (is_unknown_cc_len _ Hu) as E; unfold len in E; lia | exact Hlen].
  rewrite (unknown_not_reserved _ _ Hu Hin). apply IH. exact Hus.
Qed.

Lemma testbit4_flags r1 i l e xm a r2 : 0 <= r1 <= 3 -> 0 <= r2 <= 1 ->
  Z.testbit (64 * r1 + 32 * b2z i + 16 * b2z l + 8 * b2z e + 4 * b2z xm + 2 * b2z a + r2) 4 = l.
Proof.
  intros H1 H2.
  assert (C1 : r1 = 0 \/ r1 = 1 \/ r1 = 2 \/ r1 = 3) by lia.
  assert (C2 : r2 = 0 \/ r2 = 1) by lia.
  destruct C1 as [-> | [-> | [-> | ->]]], C2 as [-> | ->], i, l, e, xm, a; reflexivity.
Qed.

Lemma payload_lt c cs : In c cs -> len (concat (map chunk_bytes cs)) < 4294967296 -> forallb chunk_ok cs = true ->
  len (chunk_payload c) < 4294967296.
Proof. intros Hin Hl _. pose proof (payload_len_bound c cs Hin). lia. Qed.

(* ---------------------------------------------------------------------------------------------- *)
(* the composed specification on a serialised lossy still                                           *)
(* ---------------------------------------------------------------------------------------------- *)
Theorem decode_still_serialize c payload w h yp up vp :
  wf c = true -> anim c = false -> image_vp8 c = Some payload ->
  Spec.VP8.decode payload = Some (w, h, yp, up, vp) ->
  SS.decode_still (serialize c) =
  match lossy_pixels c w h yp up vp with Some px => Some (w, h, alpha c, px) | None => None end.
Proof.
  intros Hwf Ha Hp Hdec.
  assert (Hcc : forall cc, In cc reserved_ccs -> length cc = 4%nat).
  { intros cc Hin. unfold reserved_ccs in Hin. cbn [In] in Hin. repeat (destruct Hin as [<- | Hin]; [reflexivity|]). contradiction. }
  assert (In8 : In cc_VP8 reserved_ccs) by (unfold reserved_ccs; cbn [In]; tauto).
  assert (InA : In cc_ALPH reserved_ccs) by (unfold reserved_ccs; cbn [In]; tauto).
  destruct c as [v trail | l trail | x cs]; [| discriminate |].
  - (* simple lossy *)
    rewrite wf_simple_lossy_eq in Hwf. rewrite !andb_true_iff in Hwf. destruct Hwf as (Hfs & Hv & Htr). apply Z.leb_le in Hfs.
    cbn [image_vp8] in Hp. injection Hp as <-.
    set (items := (cc_VP8, vp8_bytes v) :: map (fun u => (u_cc u, u_payload u)) trail).
    assert (Hbody : body (SimpleLossy v trail) = concat (map ser_item items)).
    { cbn [body items map concat]. unfold ser_item at 1. cbn [fst snd]. f_equal.
      clear. induction trail as [|u trail IH]; [reflexivity|]. cbn [map concat]. rewrite IH. reflexivity. }
    assert (Hlenb : len (body (SimpleLossy v trail)) < 4294967296) by (unfold file_size in Hfs; lia).
    assert (Hitems : Forall item_ok items).
    { unfold items. constructor.
      - split; [reflexivity|]. cbn [snd]. rewrite Hbody in Hlenb. cbn [items map concat] in Hlenb. unfold ser_item at 1 in Hlenb.
        cbn [fst snd] in Hlenb. rewrite len_app, len_ser_chunk4 in Hlenb by reflexivity.
        pose proof (len_nonneg (concat (map ser_item (map (fun u => (u_cc u, u_payload u)) trail)))).
        pose proof (len_nonneg (vp8_bytes v)). unfold rounded in Hlenb. lia.
      - apply Forall_forall. intros it Hin. apply in_map_iff in Hin. destruct Hin as (u & <- & Hu).
        rewrite forallb_forall in Htr. specialize (Htr u Hu). rewrite unknown_ok_eq, andb_true_iff in Htr. destruct Htr as [Hu1 _].
        split; cbn [fst snd]; [pose proof (is_unknown_cc_len _ Hu1) as E; unfold len in E; lia|].
        assert (Hin2 : In (CUnknown u) (map CUnknown trail)) by (apply in_map; exact Hu).
        pose proof (payload_len_bound (CUnknown u) (map CUnknown trail) Hin2) as Hb. cbn [chunk_payload] in Hb.
        assert (E : concat (map chunk_bytes (map CUnknown trail)) = concat (map unknown_bytes trail)).
        { clear. induction trail as [|u' trail IH]; [reflexivity|]. cbn [map concat]. rewrite IH. reflexivity. }
        rewrite E in Hb. cbn [body] in Hlenb. rewrite len_app in Hlenb. pose proof (len_nonneg (ser_chunk cc_VP8 (vp8_bytes v))). lia. }
    unfold serialize. rewrite Hbody.
    change (cc_RIFF ++ le32 (file_size (SimpleLossy v trail)) ++ cc_WEBP ++ concat (map ser_item items))
      with (82 :: 73 :: 70 :: 70 :: file_size (SimpleLossy v trail) mod 256 :: (file_size (SimpleLossy v trail) / 256) mod 256
            :: (file_size (SimpleLossy v trail) / 65536) mod 256 :: (file_size (SimpleLossy v trail) / 16777216) mod 256
            :: 87 :: 69 :: 66 :: 80 :: concat (map ser_item items)).
    cbn [SS.decode_still]. change (SS.fourcc_eqb [82; 73; 70; 70] SS.cc_RIFF && SS.fourcc_eqb [87; 69; 66; 80] SS.cc_WEBP) with true.
    cbn [negb]. rewrite (chunks_ser items _ Hitems (concat_ser_length items Hitems)).
    unfold items at 1. cbn [SS.find_chunk]. change (SS.fourcc_eqb cc_VP8 SS.cc_VP8) with true. cbv iota.
    rewrite Hdec. unfold lossy_pixels. cbn [alpha negb].
    unfold items. unfold vp8_bytes at 1. cbn [le24 app].
    change (SS.fourcc_eqb cc_VP8 SS.cc_VP8X) with false. cbn [andb negb]. reflexivity.
  - (* extended still *)
    cbn [anim] in Ha. rewrite wf_extended_eq in Hwf. rewrite !andb_true_iff in Hwf.
    destruct Hwf as (Hfs & (((((Hx & Hcs) & _) & _) & _) & _)). apply Z.leb_le in Hfs.
    cbn [image_vp8] in Hp.
    set (items := (cc_VP8X, vp8x_payload x) :: map chunk_item cs).
    assert (Hbody : body (Extended x cs) = concat (map ser_item items)).
    { rewrite body_extended_eq. cbn [items map concat]. unfold ser_item at 1. cbn [fst snd]. f_equal.
      clear. induction cs as [|k cs IH]; [reflexivity|]. cbn [map concat]. rewrite IH. reflexivity. }
    assert (Hlenb : len (concat (map chunk_bytes cs)) < 4294967296).
    { unfold file_size in Hfs. rewrite body_extended_eq, len_app in Hfs. pose proof (len_nonneg (ser_chunk cc_VP8X (vp8x_payload x))). lia. }
    assert (Hitems : Forall item_ok items).
    { unfold items. constructor; [split; [reflexivity | cbn; lia]|].
      apply Forall_forall. intros it Hin. apply in_map_iff in Hin. destruct Hin as (k & <- & Hk).
      rewrite forallb_forall in Hcs. split; cbn [chunk_item fst snd].
      - apply chunk_cc_length. apply Hcs. exact Hk.
      - pose proof (payload_len_bound k cs Hk). lia. }
    unfold serialize. rewrite Hbody.
    change (cc_RIFF ++ le32 (file_size (Extended x cs)) ++ cc_WEBP ++ concat (map ser_item items))
      with (82 :: 73 :: 70 :: 70 :: file_size (Extended x cs) mod 256 :: (file_size (Extended x cs) / 256) mod 256
            :: (file_size (Extended x cs) / 65536) mod 256 :: (file_size (Extended x cs) / 16777216) mod 256
            :: 87 :: 69 :: 66 :: 80 :: concat (map ser_item items)).
    cbn [SS.decode_still]. change (SS.fourcc_eqb [82; 73; 70; 70] SS.cc_RIFF && SS.fourcc_eqb [87; 69; 66; 80] SS.cc_WEBP) with true.
    cbn [negb]. rewrite (chunks_ser items _ Hitems (concat_ser_length items Hitems)).
    unfold items at 1. cbn [SS.find_chunk]. change (SS.fourcc_eqb cc_VP8X SS.cc_VP8) with false. cbv iota.
    change SS.cc_VP8 with cc_VP8.
    rewrite (find_chunk_items cc_VP8 is_vp8 cs In8 eq_refl) by (try exact Hcs; intros k; destruct k; reflexivity).
    rewrite Hp. cbn [option_map]. rewrite Hdec.
    unfold items at 1. unfold vp8x_payload at 1. cbn [app].
    change (SS.fourcc_eqb cc_VP8X SS.cc_VP8X) with true. cbn [andb].
    unfold vp8x_ok in Hx. split_andb.
    unfold vp8x_flags. rewrite testbit4_flags by lia.
    unfold lossy_pixels. cbn [alpha image_alph].
    destruct (x_alpha x); cbn [negb]; [|reflexivity].
    unfold items. cbn [SS.find_chunk]. change (SS.fourcc_eqb cc_VP8X SS.cc_ALPH) with false. cbv iota.
    change SS.cc_ALPH with cc_ALPH.
    rewrite (find_chunk_items cc_ALPH is_alph cs InA eq_refl) by (try exact Hcs; intros k; destruct k; reflexivity).
    destruct (option_map chunk_payload (find is_alph cs)) as [a|]; [|reflexivity].
    destruct (SS.alpha_plane w h a); reflexivity.
Qed.
