(* Proofs/VP8_arraykernels.v -- the imperative VP8 kernels of src/loop_filter.rs (translated by tools/rs2v_imp.py into
   functions of the 8 samples p3 p2 p1 p0 | q0 q1 q2 q3 across an edge) refine the loop filter of Spec.VP8 (libwebp
   dsp/dec.c), and never hit a checked-arithmetic panic on byte samples.  The transforms are in VP8_arraykernels_aux.v
   and restated here (section 7).

   Sections: 3 tap-level restatement of the Spec (the t_ functions), clamp algebra, Gen kernel = t_ function (for ALL integers);
   4 `_ok` lemmas (byte taps, arbitrary thresholds); 5 Spec array functions = t_ functions at i-4*step .. i+3*step (arr_ext);
   6 main theorems `*_refines`, `*_no_panic`, read-back corollaries `*_taps`, `*_frame`, byte preservation, parameter
   correspondence; 7 transforms; 8 examples. *)
From Coq Require Import ZArith NArith Lia List Bool.
From WebP Require Import Lib.Arr Lib.Sweep Lib.ZBits Gen.Kernels Spec.VP8 Proofs.VP8_kernels Proofs.VP8_arraykernels_aux.
Import ListNotations.
Open Scope Z_scope.
Ltac Zify.zify_post_hook ::= Z.div_mod_to_equations.

(* ---------------------------------------------------------------------------------------------------------- *)
(* 3. loop filter, tap level                                                                                   *)
(* ---------------------------------------------------------------------------------------------------------- *)
(* Spec.VP8's filters restated on the 8 samples p3 p2 p1 p0 | q0 q1 q2 q3 across an edge (no array) *)
Definition t_needs_filter (thresh p1 p0 q0 q1 : Z) : bool :=
  4 * zabs (p0 - q0) + zabs (p1 - q1) <=? 2 * thresh + 1.
Definition t_needs_filter2 (thresh ithresh p3 p2 p1 p0 q0 q1 q2 q3 : Z) : bool :=
  (4 * zabs (p0 - q0) + zabs (p1 - q1) <=? 2 * thresh + 1) &&
  (zabs (p3 - p2) <=? ithresh) && (zabs (p2 - p1) <=? ithresh) && (zabs (p1 - p0) <=? ithresh) &&
  (zabs (q3 - q2) <=? ithresh) && (zabs (q2 - q1) <=? ithresh) && (zabs (q1 - q0) <=? ithresh).
Definition t_hev (hevt p1 p0 q0 q1 : Z) : bool := (hevt <? zabs (p1 - p0)) || (hevt <? zabs (q1 - q0)).
Definition t_filter2 (p3 p2 p1 p0 q0 q1 q2 q3 : Z) : list Z :=
  let f := 3 * (q0 - p0) + sclip1 (p1 - q1) in
  let a1 := sclip2 (Z.shiftr (f + 4) 3) in
  let a2 := sclip2 (Z.shiftr (f + 3) 3) in
  [p3; p2; p1; clip255 (p0 + a2); clip255 (q0 - a1); q1; q2; q3].
Definition t_filter4 (p3 p2 p1 p0 q0 q1 q2 q3 : Z) : list Z :=
  let f := 3 * (q0 - p0) in
  let a1 := sclip2 (Z.shiftr (f + 4) 3) in
  let a2 := sclip2 (Z.shiftr (f + 3) 3) in
  let a3 := Z.shiftr (a1 + 1) 1 in
  [p3; p2; clip255 (p1 + a3); clip255 (p0 + a2); clip255 (q0 - a1); clip255 (q1 - a3); q2; q3].
Definition t_filter6 (p3 p2 p1 p0 q0 q1 q2 q3 : Z) : list Z :=
  let f := sclip1 (3 * (q0 - p0) + sclip1 (p1 - q1)) in
  let a1 := Z.shiftr (27 * f + 63) 7 in
  let a2 := Z.shiftr (18 * f + 63) 7 in
  let a3 := Z.shiftr (9 * f + 63) 7 in
  [p3; clip255 (p2 + a3); clip255 (p1 + a2); clip255 (p0 + a1); clip255 (q0 - a1); clip255 (q1 - a2);
   clip255 (q2 - a3); q3].
Definition t_simple_edge (thresh p3 p2 p1 p0 q0 q1 q2 q3 : Z) : list Z :=
  if t_needs_filter thresh p1 p0 q0 q1 then t_filter2 p3 p2 p1 p0 q0 q1 q2 q3
  else [p3; p2; p1; p0; q0; q1; q2; q3].
Definition t_inner_edge (thresh ithresh hevt p3 p2 p1 p0 q0 q1 q2 q3 : Z) : list Z :=
  if t_needs_filter2 thresh ithresh p3 p2 p1 p0 q0 q1 q2 q3 then
    if t_hev hevt p1 p0 q0 q1 then t_filter2 p3 p2 p1 p0 q0 q1 q2 q3 else t_filter4 p3 p2 p1 p0 q0 q1 q2 q3
  else [p3; p2; p1; p0; q0; q1; q2; q3].
Definition t_mb_edge (thresh ithresh hevt p3 p2 p1 p0 q0 q1 q2 q3 : Z) : list Z :=
  if t_needs_filter2 thresh ithresh p3 p2 p1 p0 q0 q1 q2 q3 then
    if t_hev hevt p1 p0 q0 q1 then t_filter2 p3 p2 p1 p0 q0 q1 q2 q3 else t_filter6 p3 p2 p1 p0 q0 q1 q2 q3
  else [p3; p2; p1; p0; q0; q1; q2; q3].

(* --- clamp algebra: RFC-style (loop_filter.rs) = libwebp table style (Spec) ------------------------------- *)
Lemma shiftr1 x : Z.shiftr x 1 = x / 2.
Proof. rewrite Z.shiftr_div_pow2 by lia. reflexivity. Qed.
Lemma shiftr7 x : Z.shiftr x 7 = x / 128.
Proof. rewrite Z.shiftr_div_pow2 by lia. reflexivity. Qed.
Lemma clip_minmax lo hi v : lo <= hi -> clip lo hi v = Z.min (Z.max v lo) hi.
Proof. intros H. unfold clip. destruct (Z.ltb_spec v lo); destruct (Z.ltb_spec hi v); lia. Qed.

(* s2u without a range condition: c(v) + 128 is always a byte *)
Lemma lf_s2u_clip v : lf_s2u v = clip255 (v + 128).
Proof.
  unfold lf_s2u, lf_c, clip255. rewrite clip_minmax by lia.
  rewrite wrapU_small by (change (2 ^ 8) with 256; lia). lia.
Qed.

(* (c(c(f) + k)) >> 3 = sclip2((f + k) >> 3) for the two rounding constants of common_adjust *)
Lemma adj4 f : Z.shiftr (lf_c (lf_c f + 4)) 3 = sclip2 (Z.shiftr (f + 4) 3).
Proof. unfold lf_c, sclip2. rewrite clip_minmax by lia. rewrite !shiftr3. lia. Qed.
Lemma adj3 f : Z.shiftr (lf_c (lf_c f + 3)) 3 = sclip2 (Z.shiftr (f + 3) 3).
Proof. unfold lf_c, sclip2. rewrite clip_minmax by lia. rewrite !shiftr3. lia. Qed.

(* the outer clamp of macroblock_filter's (k*w + 63) >> 7 never acts *)
Lemma mbadj k w : 0 <= k <= 27 -> lf_c (Z.shiftr (k * lf_c w + 63) 7) = Z.shiftr (k * sclip1 w + 63) 7.
Proof.
  intros Hk. rewrite (lf_c_spec w). set (v := sclip1 w).
  assert (Hv : -128 <= v <= 127) by (unfold v, sclip1; rewrite clip_minmax by lia; lia).
  clearbody v. unfold lf_c. rewrite !shiftr7.
  assert (-3456 <= k * v <= 3429) by nia. lia.
Qed.

(* --- the predicates ---------------------------------------------------------------------------------------- *)
Lemma lf_diff_abs a b : lf_diff a b = zabs (a - b).
Proof. unfold lf_diff, zabs. destruct (Z.gtb_spec a b); lia. Qed.

Lemma lf_simple_threshold_spec e p3 p2 p1 p0 q0 q1 q2 q3 :
  lf_simple_threshold e p3 p2 p1 p0 q0 q1 q2 q3 = t_needs_filter e p1 p0 q0 q1.
Proof.
  unfold lf_simple_threshold, t_needs_filter. rewrite !lf_diff_abs. unfold zabs.
  rewrite Z.quot_div_nonneg by lia.
  apply eq_true_iff_eq. rewrite !Z.leb_le. lia.
Qed.

Lemma lf_should_filter_spec il e p3 p2 p1 p0 q0 q1 q2 q3 :
  lf_should_filter il e p3 p2 p1 p0 q0 q1 q2 q3 = t_needs_filter2 e il p3 p2 p1 p0 q0 q1 q2 q3.
Proof.
  unfold lf_should_filter. rewrite lf_simple_threshold_spec. unfold t_needs_filter, t_needs_filter2.
  rewrite !lf_diff_abs. reflexivity.
Qed.

Lemma lf_high_edge_variance_spec t p3 p2 p1 p0 q0 q1 q2 q3 :
  lf_high_edge_variance t p3 p2 p1 p0 q0 q1 q2 q3 = t_hev t p1 p0 q0 q1.
Proof.
  unfold lf_high_edge_variance, t_hev. rewrite !lf_diff_abs, !Z.gtb_ltb. reflexivity.
Qed.

(* equality of two tap lists whose entries are equal or `clip255` of ring-equal arguments *)
Ltac list8_eq :=
  repeat (apply (f_equal2 (@cons Z)); [first [reflexivity | apply (f_equal clip255); ring]|]); reflexivity.

(* --- common_adjust ------------------------------------------------------------------------------------------ *)
Definition ca_f (outer : bool) (p1 p0 q0 q1 : Z) : Z :=
  if outer then 3 * (q0 - p0) + sclip1 (p1 - q1) else 3 * (q0 - p0).

Lemma lf_common_adjust_spec outer p3 p2 p1 p0 q0 q1 q2 q3 :
  lf_common_adjust outer p3 p2 p1 p0 q0 q1 q2 q3 =
  (sclip2 (Z.shiftr (ca_f outer p1 p0 q0 q1 + 4) 3),
   [p3; p2; p1; clip255 (p0 + sclip2 (Z.shiftr (ca_f outer p1 p0 q0 q1 + 3) 3));
    clip255 (q0 - sclip2 (Z.shiftr (ca_f outer p1 p0 q0 q1 + 4) 3)); q1; q2; q3]).
Proof.
  unfold lf_common_adjust, lf_u2s. cbv zeta. rewrite adj4, adj3, !lf_s2u_clip.
  assert (EF : (if outer then lf_c (p1 - 128 - (q1 - 128)) else 0) + 3 * (q0 - 128 - (p0 - 128))
               = ca_f outer p1 p0 q0 q1).
  { unfold ca_f. destruct outer; [|ring]. rewrite lf_c_spec.
    replace (p1 - 128 - (q1 - 128)) with (p1 - q1) by ring. ring. }
  rewrite EF.
  apply f_equal2; [reflexivity|].
  list8_eq.
Qed.

(* --- the three filters -------------------------------------------------------------------------------------- *)
Theorem lf_simple_segment_eq e p3 p2 p1 p0 q0 q1 q2 q3 :
  lf_simple_segment e p3 p2 p1 p0 q0 q1 q2 q3 = t_simple_edge e p3 p2 p1 p0 q0 q1 q2 q3.
Proof.
  unfold lf_simple_segment, t_simple_edge. cbv zeta.
  rewrite lf_simple_threshold_spec, lf_common_adjust_spec.
  destruct (t_needs_filter e p1 p0 q0 q1); reflexivity.
Qed.

Theorem lf_subblock_filter_eq hevt il e p3 p2 p1 p0 q0 q1 q2 q3 :
  lf_subblock_filter hevt il e p3 p2 p1 p0 q0 q1 q2 q3 = t_inner_edge e il hevt p3 p2 p1 p0 q0 q1 q2 q3.
Proof.
  unfold lf_subblock_filter, t_inner_edge. cbv zeta.
  rewrite lf_should_filter_spec, lf_high_edge_variance_spec, lf_common_adjust_spec.
  destruct (t_needs_filter2 e il p3 p2 p1 p0 q0 q1 q2 q3); [|reflexivity].
  destruct (t_hev hevt p1 p0 q0 q1); [reflexivity|].
  cbn [negb nth fst snd ca_f]. rewrite !lf_s2u_clip. unfold lf_u2s, t_filter4. cbv zeta.
  list8_eq.
Qed.

Theorem lf_macroblock_filter_eq hevt il e p3 p2 p1 p0 q0 q1 q2 q3 :
  lf_macroblock_filter hevt il e p3 p2 p1 p0 q0 q1 q2 q3 = t_mb_edge e il hevt p3 p2 p1 p0 q0 q1 q2 q3.
Proof.
  unfold lf_macroblock_filter, t_mb_edge. cbv zeta.
  rewrite lf_should_filter_spec, lf_high_edge_variance_spec, lf_common_adjust_spec.
  destruct (t_needs_filter2 e il p3 p2 p1 p0 q0 q1 q2 q3); [|reflexivity].
  destruct (t_hev hevt p1 p0 q0 q1); [reflexivity|].
  cbn [negb nth fst snd]. rewrite !lf_s2u_clip. unfold lf_u2s, t_filter6. cbv zeta.
  rewrite !mbadj by lia. rewrite (lf_c_spec (p1 - 128 - (q1 - 128))).
  replace (sclip1 (p1 - 128 - (q1 - 128)) + 3 * (q0 - 128 - (p0 - 128)))
    with (3 * (q0 - p0) + sclip1 (p1 - q1))
    by (replace (p1 - 128 - (q1 - 128)) with (p1 - q1) by ring; ring).
  list8_eq.
Qed.

(* ---------------------------------------------------------------------------------------------------------- *)
(* 4. no checked-arithmetic panic for byte taps and byte thresholds                                            *)
(* ---------------------------------------------------------------------------------------------------------- *)
Lemma lf_c_range v : -128 <= lf_c v <= 127.
Proof. unfold lf_c. lia. Qed.

(* replace every `lf_c e` of the goal by a fresh variable in [-128, 127] *)
Ltac gen_lfc :=
  repeat match goal with
  | |- context [lf_c ?e] =>
    let w := fresh "w" in let Hw := fresh "Hw" in
    pose proof (lf_c_range e) as Hw; set (w := lf_c e) in *; clearbody w
  end.
Ltac ok_leaves :=
  split_ok; try reflexivity; gen_lfc; rewrite ?shiftr3, ?shiftr1, ?shiftr7; apply inr_true; lia.

Lemma lf_diff_ok_true a b : byte a -> byte b -> lf_diff_ok a b = true.
Proof. intros Ha Hb. apply (lf_diff_spec a b Ha Hb). Qed.

Lemma lf_diff_range a b : byte a -> byte b -> 0 <= lf_diff a b <= 255.
Proof. unfold byte. intros Ha Hb. rewrite lf_diff_abs. unfold zabs. lia. Qed.

Lemma lf_common_adjust_ok_true outer p3 p2 p1 p0 q0 q1 q2 q3 :
  byte p1 -> byte p0 -> byte q0 -> byte q1 ->
  lf_common_adjust_ok outer p3 p2 p1 p0 q0 q1 q2 q3 = true.
Proof.
  unfold byte. intros H1 H0 G0 G1.
  unfold lf_common_adjust_ok, lf_s2u_ok, lf_u2s_ok, lf_c_ok, lf_u2s. cbv zeta.
  destruct outer; ok_leaves.
Qed.

Lemma lf_simple_threshold_ok_true e p3 p2 p1 p0 q0 q1 q2 q3 :
  byte p1 -> byte p0 -> byte q0 -> byte q1 ->
  lf_simple_threshold_ok e p3 p2 p1 p0 q0 q1 q2 q3 = true.
Proof.
  intros H1 H0 G0 G1. unfold lf_simple_threshold_ok.
  rewrite !lf_diff_ok_true by assumption.
  pose proof (lf_diff_range p0 q0 H0 G0). pose proof (lf_diff_range p1 q1 H1 G1).
  set (d0 := lf_diff p0 q0) in *. set (d1 := lf_diff p1 q1) in *. clearbody d0 d1.
  rewrite Z.quot_div_nonneg by lia.
  split_ok; try reflexivity; apply inr_true; lia.
Qed.

Lemma lf_should_filter_ok_true il e p3 p2 p1 p0 q0 q1 q2 q3 :
  byte p3 -> byte p2 -> byte p1 -> byte p0 -> byte q0 -> byte q1 -> byte q2 -> byte q3 ->
  lf_should_filter_ok il e p3 p2 p1 p0 q0 q1 q2 q3 = true.
Proof.
  intros H3 H2 H1 H0 G0 G1 G2 G3. unfold lf_should_filter_ok.
  rewrite lf_simple_threshold_ok_true by assumption.
  rewrite !lf_diff_ok_true by assumption. rewrite !implb_true_r. reflexivity.
Qed.

Lemma lf_high_edge_variance_ok_true t p3 p2 p1 p0 q0 q1 q2 q3 :
  byte p1 -> byte p0 -> byte q0 -> byte q1 ->
  lf_high_edge_variance_ok t p3 p2 p1 p0 q0 q1 q2 q3 = true.
Proof.
  intros H1 H0 G0 G1. unfold lf_high_edge_variance_ok.
  rewrite !lf_diff_ok_true by assumption. rewrite !implb_true_r. reflexivity.
Qed.

Theorem lf_simple_segment_ok_true e p3 p2 p1 p0 q0 q1 q2 q3 :
  byte p1 -> byte p0 -> byte q0 -> byte q1 ->
  lf_simple_segment_ok e p3 p2 p1 p0 q0 q1 q2 q3 = true.
Proof.
  intros H1 H0 G0 G1. unfold lf_simple_segment_ok.
  rewrite lf_simple_threshold_ok_true, lf_common_adjust_ok_true by assumption.
  destruct (lf_simple_threshold e p3 p2 p1 p0 q0 q1 q2 q3); reflexivity.
Qed.

Lemma sclip2_range v : -16 <= sclip2 v <= 15.
Proof. unfold sclip2. rewrite clip_minmax by lia. lia. Qed.

Theorem lf_subblock_filter_ok_true hevt il e p3 p2 p1 p0 q0 q1 q2 q3 :
  byte p3 -> byte p2 -> byte p1 -> byte p0 -> byte q0 -> byte q1 -> byte q2 -> byte q3 ->
  lf_subblock_filter_ok hevt il e p3 p2 p1 p0 q0 q1 q2 q3 = true.
Proof.
  intros H3 H2 H1 H0 G0 G1 G2 G3. unfold lf_subblock_filter_ok. cbv zeta.
  rewrite lf_should_filter_ok_true, lf_high_edge_variance_ok_true, lf_common_adjust_ok_true by assumption.
  destruct (lf_should_filter il e p3 p2 p1 p0 q0 q1 q2 q3); [|reflexivity].
  rewrite lf_common_adjust_spec. cbn [nth fst snd].
  set (hv := lf_high_edge_variance hevt p3 p2 p1 p0 q0 q1 q2 q3).
  pose proof (sclip2_range (Z.shiftr (ca_f hv p1 p0 q0 q1 + 4) 3)) as Ha.
  set (a := sclip2 (Z.shiftr (ca_f hv p1 p0 q0 q1 + 4) 3)) in *. clearbody a.
  unfold byte in *.
  destruct hv; cbn [negb]; unfold lf_s2u_ok, lf_u2s_ok, lf_c_ok, lf_u2s; ok_leaves.
Qed.

Theorem lf_macroblock_filter_ok_true hevt il e p3 p2 p1 p0 q0 q1 q2 q3 :
  byte p3 -> byte p2 -> byte p1 -> byte p0 -> byte q0 -> byte q1 -> byte q2 -> byte q3 ->
  lf_macroblock_filter_ok hevt il e p3 p2 p1 p0 q0 q1 q2 q3 = true.
Proof.
  intros H3 H2 H1 H0 G0 G1 G2 G3. unfold lf_macroblock_filter_ok. cbv zeta.
  rewrite lf_should_filter_ok_true, lf_high_edge_variance_ok_true, lf_common_adjust_ok_true by assumption.
  destruct (lf_should_filter il e p3 p2 p1 p0 q0 q1 q2 q3);
    destruct (lf_high_edge_variance hevt p3 p2 p1 p0 q0 q1 q2 q3); cbn [negb];
    unfold byte in *; unfold lf_s2u_ok, lf_u2s_ok, lf_c_ok, lf_u2s; ok_leaves.
Qed.

(* ---------------------------------------------------------------------------------------------------------- *)
(* 5. Spec.VP8's array functions are the tap functions applied at i - 4*step .. i + 3*step                      *)
(* ---------------------------------------------------------------------------------------------------------- *)
Definition taps_of (a : arr) (i step : Z) : list Z :=
  [px a (i - 4 * step); px a (i - 3 * step); px a (i - 2 * step); px a (i - step);
   px a i; px a (i + step); px a (i + 2 * step); px a (i + 3 * step)].
Definition write_taps (a : arr) (i step : Z) (l : list Z) : arr :=
  match l with
  | [t0; t1; t2; t3; t4; t5; t6; t7] =>
    wr (wr (wr (wr (wr (wr (wr (wr a (i - 4 * step) t0) (i - 3 * step) t1) (i - 2 * step) t2) (i - step) t3)
       i t4) (i + step) t5) (i + 2 * step) t6) (i + 3 * step) t7
  | _ => a
  end.
(* apply a function of 8 scalars to a list of 8 *)
Definition app8 {A} (f : Z -> Z -> Z -> Z -> Z -> Z -> Z -> Z -> A) (d : A) (l : list Z) : A :=
  match l with [t0; t1; t2; t3; t4; t5; t6; t7] => f t0 t1 t2 t3 t4 t5 t6 t7 | _ => d end.
(* extensional equality of arrays: same length, same cell contents (the PositiveMap trees may differ in shape) *)
Definition arr_ext (a b : arr) : Prop := alen a = alen b /\ forall n : N, araw a n = araw b n.
(* the 8 positions are usable: non-negative and pairwise distinct *)
Definition edge_pos (i step : Z) : Prop := step <> 0 /\ 0 <= i - 4 * step /\ 0 <= i + 3 * step.

Lemma arr_ext_refl a : arr_ext a a.
Proof. split; reflexivity. Qed.
Lemma arr_ext_trans a b c : arr_ext a b -> arr_ext b c -> arr_ext a c.
Proof. intros [L1 E1] [L2 E2]. split; [congruence|]. intros n. rewrite E1. apply E2. Qed.
Lemma arr_ext_sym a b : arr_ext a b -> arr_ext b a.
Proof. intros [L1 E1]. split; [congruence|]. intros n. symmetry. apply E1. Qed.

Lemma araw_wr a j v n : araw (wr a j v) n = if (Z.to_N j =? n)%N then v else araw a n.
Proof.
  unfold wr. destruct (N.eqb_spec (Z.to_N j) n) as [->|Hne].
  - apply araw_aset'_eq.
  - apply araw_aset'_neq. exact Hne.
Qed.
Lemma alen_wr a j v : alen (wr a j v) = alen a.
Proof. reflexivity. Qed.

(* --- array plumbing: a chain of writes at some of the 8 positions = writing all 8 taps ---------------------- *)
Ltac neq_simpl :=
  repeat match goal with
  | |- context [(?x =? ?x)%N] => rewrite (N.eqb_refl x)
  | H : ?x <> ?y |- context [(?x =? ?y)%N] => rewrite (proj2 (N.eqb_neq x y) H)
  | H : ?y <> ?x |- context [(?x =? ?y)%N] => rewrite (proj2 (N.eqb_neq x y) (not_eq_sym H))
  end.
Lemma to_N_neq x y : 0 <= x -> 0 <= y -> x <> y -> Z.to_N x <> Z.to_N y.
Proof. intros Hx Hy Hne E. apply Hne. apply Z2N.inj; assumption. Qed.
(* pairwise distinctness facts, each proved from the three hypotheses H1 H2 H3 only *)
Ltac distinct_from H1 H2 H3 x l :=
  lazymatch l with
  | nil => idtac
  | ?y :: ?tl => assert (Z.to_N x <> Z.to_N y) by (clear - H1 H2 H3; apply to_N_neq; lia);
                 distinct_from H1 H2 H3 x tl
  end.
Ltac distinct_all H1 H2 H3 l :=
  lazymatch l with
  | nil => idtac
  | ?x :: ?tl => distinct_from H1 H2 H3 x tl; distinct_all H1 H2 H3 tl
  end.
Ltac case_cell nk n := destruct (N.eqb_spec nk n); [subst n; neq_simpl; reflexivity|].
(* both sides: chains of [wr] on [a] at positions among the 8, values not mentioning the arrays being built *)
Ltac solve_taps_ext i step :=
  let Hs := fresh "Hs" in let Hlo := fresh "Hlo" in let Hhi := fresh "Hhi" in
  let n := fresh "n" in
  let n0 := fresh "n0" in let n1 := fresh "n1" in let n2 := fresh "n2" in let n3 := fresh "n3" in
  let n4 := fresh "n4" in let n5 := fresh "n5" in let n6 := fresh "n6" in let n7 := fresh "n7" in
  match goal with H : edge_pos i step |- _ => destruct H as (Hs & Hlo & Hhi) end;
  split; [reflexivity|]; intros n; unfold write_taps, px; rewrite !araw_wr;
  distinct_all Hs Hlo Hhi [i - 4 * step; i - 3 * step; i - 2 * step; i - step; i; i + step; i + 2 * step; i + 3 * step];
  clear Hs Hlo Hhi;
  set (n0 := Z.to_N (i - 4 * step)) in *; set (n1 := Z.to_N (i - 3 * step)) in *;
  set (n2 := Z.to_N (i - 2 * step)) in *; set (n3 := Z.to_N (i - step)) in *;
  set (n4 := Z.to_N i) in *; set (n5 := Z.to_N (i + step)) in *;
  set (n6 := Z.to_N (i + 2 * step)) in *; set (n7 := Z.to_N (i + 3 * step)) in *;
  clearbody n0 n1 n2 n3 n4 n5 n6 n7;
  case_cell n7 n; case_cell n6 n; case_cell n5 n; case_cell n4 n;
  case_cell n3 n; case_cell n2 n; case_cell n1 n; case_cell n0 n; reflexivity.

Lemma wr0_taps a i step : edge_pos i step ->
  arr_ext a (write_taps a i step (taps_of a i step)).
Proof. intros H. unfold taps_of. solve_taps_ext i step. Qed.

Lemma wr2_taps a i step x y : edge_pos i step ->
  arr_ext (wr (wr a (i - step) x) i y)
    (write_taps a i step [px a (i - 4 * step); px a (i - 3 * step); px a (i - 2 * step); x;
                          y; px a (i + step); px a (i + 2 * step); px a (i + 3 * step)]).
Proof. intros H. solve_taps_ext i step. Qed.

Lemma wr4_taps a i step w x y z : edge_pos i step ->
  arr_ext (wr (wr (wr (wr a (i - 2 * step) w) (i - step) x) i y) (i + step) z)
    (write_taps a i step [px a (i - 4 * step); px a (i - 3 * step); w; x;
                          y; z; px a (i + 2 * step); px a (i + 3 * step)]).
Proof. intros H. solve_taps_ext i step. Qed.

Lemma wr6_taps a i step v w x y z u : edge_pos i step ->
  arr_ext (wr (wr (wr (wr (wr (wr a (i - 3 * step) v) (i - 2 * step) w) (i - step) x) i y) (i + step) z)
              (i + 2 * step) u)
    (write_taps a i step [px a (i - 4 * step); v; w; x; y; z; u; px a (i + 3 * step)]).
Proof. intros H. solve_taps_ext i step. Qed.

(* --- Spec edge functions = tap functions at the edge position ---------------------------------------------- *)
Theorem spec_simple_edge_taps step thresh a i : edge_pos i step ->
  arr_ext (Spec.VP8.simple_edge step thresh a i)
          (write_taps a i step (app8 (t_simple_edge thresh) [] (taps_of a i step))).
Proof.
  intros H. unfold Spec.VP8.simple_edge, taps_of, app8, t_simple_edge, needs_filter, t_needs_filter.
  destruct (4 * zabs (px a (i - step) - px a i) + zabs (px a (i - 2 * step) - px a (i + step)) <=? 2 * thresh + 1).
  - unfold do_filter2, t_filter2. cbv zeta. apply wr2_taps. exact H.
  - apply (wr0_taps a i step H).
Qed.

Theorem spec_inner_edge_taps step thresh ithresh hevt a i : edge_pos i step ->
  arr_ext (Spec.VP8.inner_edge step thresh ithresh hevt a i)
          (write_taps a i step (app8 (t_inner_edge thresh ithresh hevt) [] (taps_of a i step))).
Proof.
  intros H. unfold Spec.VP8.inner_edge, taps_of, app8, t_inner_edge.
  change (needs_filter2 a i step thresh ithresh)
    with (t_needs_filter2 thresh ithresh (px a (i - 4 * step)) (px a (i - 3 * step)) (px a (i - 2 * step))
            (px a (i - step)) (px a i) (px a (i + step)) (px a (i + 2 * step)) (px a (i + 3 * step))).
  change (hev a i step hevt) with (t_hev hevt (px a (i - 2 * step)) (px a (i - step)) (px a i) (px a (i + step))).
  destruct (t_needs_filter2 _ _ _ _ _ _ _ _ _ _); [|apply (wr0_taps a i step H)].
  destruct (t_hev _ _ _ _ _).
  - unfold do_filter2, t_filter2. cbv zeta. apply wr2_taps. exact H.
  - unfold do_filter4, t_filter4. cbv zeta. apply wr4_taps. exact H.
Qed.

Theorem spec_mb_edge_taps step thresh ithresh hevt a i : edge_pos i step ->
  arr_ext (Spec.VP8.mb_edge step thresh ithresh hevt a i)
          (write_taps a i step (app8 (t_mb_edge thresh ithresh hevt) [] (taps_of a i step))).
Proof.
  intros H. unfold Spec.VP8.mb_edge, taps_of, app8, t_mb_edge.
  change (needs_filter2 a i step thresh ithresh)
    with (t_needs_filter2 thresh ithresh (px a (i - 4 * step)) (px a (i - 3 * step)) (px a (i - 2 * step))
            (px a (i - step)) (px a i) (px a (i + step)) (px a (i + 2 * step)) (px a (i + 3 * step))).
  change (hev a i step hevt) with (t_hev hevt (px a (i - 2 * step)) (px a (i - step)) (px a i) (px a (i + step))).
  destruct (t_needs_filter2 _ _ _ _ _ _ _ _ _ _); [|apply (wr0_taps a i step H)].
  destruct (t_hev _ _ _ _ _).
  - unfold do_filter2, t_filter2. cbv zeta. apply wr2_taps. exact H.
  - unfold do_filter6, t_filter6. cbv zeta. apply wr6_taps. exact H.
Qed.

(* ---------------------------------------------------------------------------------------------------------- *)
(* 6. main theorems: the translated Rust kernels applied to the taps of an edge position refine Spec.VP8        *)
(*                                                                                                            *)
(* Argument correspondence (src/vp8.rs loop_filter / calculate_filter_parameters  vs  Spec.VP8.filter_mb):     *)
(*   Rust edge_limit      = Spec thresh   (mbedge_limit = (level+2)*2 + interior = f_limit + 4 on macroblock   *)
(*                                         edges, sub_bedge_limit = level*2 + interior = f_limit on inner      *)
(*                                         edges; libwebp compares 4|p0-q0| + |p1-q1| <= 2*thresh + 1, the     *)
(*                                         Rust code 2|p0-q0| + |p1-q1|/2 <= edge_limit: the same predicate)   *)
(*   Rust interior_limit  = Spec ithresh  (f_ilevel)                                                           *)
(*   Rust hev_threshold   = Spec hevt     (f_hev)                                                              *)
(*   Rust point, stride   = Spec i, step; Rust pixels[point + k*stride] = px a (i + k*step), k = -4 .. 3.       *)
(* The equalities hold for all integers; only the no-panic lemmas need the taps to be bytes.                   *)
(* ---------------------------------------------------------------------------------------------------------- *)
Theorem simple_segment_refines edge_limit step a i : edge_pos i step ->
  arr_ext (Spec.VP8.simple_edge step edge_limit a i)
          (write_taps a i step (app8 (lf_simple_segment edge_limit) [] (taps_of a i step))).
Proof.
  intros H. unfold taps_of, app8. rewrite lf_simple_segment_eq. apply (spec_simple_edge_taps step edge_limit a i H).
Qed.

Theorem subblock_filter_refines hev_threshold interior_limit edge_limit step a i : edge_pos i step ->
  arr_ext (Spec.VP8.inner_edge step edge_limit interior_limit hev_threshold a i)
          (write_taps a i step
             (app8 (lf_subblock_filter hev_threshold interior_limit edge_limit) [] (taps_of a i step))).
Proof.
  intros H. unfold taps_of, app8. rewrite lf_subblock_filter_eq.
  apply (spec_inner_edge_taps step edge_limit interior_limit hev_threshold a i H).
Qed.

Theorem macroblock_filter_refines hev_threshold interior_limit edge_limit step a i : edge_pos i step ->
  arr_ext (Spec.VP8.mb_edge step edge_limit interior_limit hev_threshold a i)
          (write_taps a i step
             (app8 (lf_macroblock_filter hev_threshold interior_limit edge_limit) [] (taps_of a i step))).
Proof.
  intros H. unfold taps_of, app8. rewrite lf_macroblock_filter_eq.
  apply (spec_mb_edge_taps step edge_limit interior_limit hev_threshold a i H).
Qed.

(* no checked-arithmetic panic at an edge position whose 8 samples are bytes (any thresholds) *)
Definition taps_bytes (a : arr) (i step : Z) : Prop := Forall byte (taps_of a i step).

Ltac inv_taps_bytes H :=
  unfold taps_bytes, taps_of in H;
  repeat match type of H with Forall _ (_ :: _) =>
    let Hh := fresh "Hb" in let Ht := fresh "Ht" in
    pose proof (Forall_inv H) as Hh; pose proof (Forall_inv_tail H) as Ht; clear H; rename Ht into H end.

Theorem simple_segment_no_panic edge_limit step a i : taps_bytes a i step ->
  app8 (lf_simple_segment_ok edge_limit) false (taps_of a i step) = true.
Proof. intros H. inv_taps_bytes H. unfold taps_of, app8. apply lf_simple_segment_ok_true; assumption. Qed.

Theorem subblock_filter_no_panic hev_threshold interior_limit edge_limit step a i : taps_bytes a i step ->
  app8 (lf_subblock_filter_ok hev_threshold interior_limit edge_limit) false (taps_of a i step) = true.
Proof. intros H. inv_taps_bytes H. unfold taps_of, app8. apply lf_subblock_filter_ok_true; assumption. Qed.

Theorem macroblock_filter_no_panic hev_threshold interior_limit edge_limit step a i : taps_bytes a i step ->
  app8 (lf_macroblock_filter_ok hev_threshold interior_limit edge_limit) false (taps_of a i step) = true.
Proof. intros H. inv_taps_bytes H. unfold taps_of, app8. apply lf_macroblock_filter_ok_true; assumption. Qed.

(* --- consequences in "read back" form ----------------------------------------------------------------------- *)
Lemma taps_of_ext a b i step : arr_ext a b -> taps_of a i step = taps_of b i step.
Proof. intros [_ E]. unfold taps_of, px. rewrite !E. reflexivity. Qed.

Lemma taps_write_taps a i step l : edge_pos i step -> length l = 8%nat ->
  taps_of (write_taps a i step l) i step = l.
Proof.
  intros (Hs & Hlo & Hhi) Hl.
  do 8 (destruct l as [|? l]; [discriminate Hl|]). destruct l; [|discriminate Hl]. clear Hl.
  unfold taps_of, write_taps, px. rewrite !araw_wr.
  distinct_all Hs Hlo Hhi [i - 4 * step; i - 3 * step; i - 2 * step; i - step; i; i + step; i + 2 * step; i + 3 * step].
  clear Hs Hlo Hhi.
  set (n0 := Z.to_N (i - 4 * step)) in *; set (n1 := Z.to_N (i - 3 * step)) in *;
  set (n2 := Z.to_N (i - 2 * step)) in *; set (n3 := Z.to_N (i - step)) in *;
  set (n4 := Z.to_N i) in *; set (n5 := Z.to_N (i + step)) in *;
  set (n6 := Z.to_N (i + 2 * step)) in *; set (n7 := Z.to_N (i + 3 * step)) in *.
  clearbody n0 n1 n2 n3 n4 n5 n6 n7.
  neq_simpl. reflexivity.
Qed.

Lemma write_taps_frame a i step l n :
  (forall p, In p [i - 4 * step; i - 3 * step; i - 2 * step; i - step; i; i + step; i + 2 * step; i + 3 * step] ->
             Z.to_N p <> n) ->
  araw (write_taps a i step l) n = araw a n.
Proof.
  intros H. unfold write_taps.
  do 8 (destruct l as [|? l]; [reflexivity|]). destruct l; [|reflexivity].
  rewrite !araw_wr.
  repeat match goal with |- context [(Z.to_N ?p =? n)%N] =>
    rewrite (proj2 (N.eqb_neq (Z.to_N p) n)) by (apply H; cbn [In]; tauto) end.
  reflexivity.
Qed.

Lemma t_simple_edge_length e p3 p2 p1 p0 q0 q1 q2 q3 : length (t_simple_edge e p3 p2 p1 p0 q0 q1 q2 q3) = 8%nat.
Proof. unfold t_simple_edge. destruct (t_needs_filter _ _ _ _ _); reflexivity. Qed.
Lemma t_inner_edge_length e il h p3 p2 p1 p0 q0 q1 q2 q3 : length (t_inner_edge e il h p3 p2 p1 p0 q0 q1 q2 q3) = 8%nat.
Proof. unfold t_inner_edge. destruct (t_needs_filter2 _ _ _ _ _ _ _ _ _ _); [destruct (t_hev _ _ _ _ _)|]; reflexivity. Qed.
Lemma t_mb_edge_length e il h p3 p2 p1 p0 q0 q1 q2 q3 : length (t_mb_edge e il h p3 p2 p1 p0 q0 q1 q2 q3) = 8%nat.
Proof. unfold t_mb_edge. destruct (t_needs_filter2 _ _ _ _ _ _ _ _ _ _); [destruct (t_hev _ _ _ _ _)|]; reflexivity. Qed.

(* the 8 samples the Spec leaves at the edge position are exactly the kernel's 8 output taps ... *)
Corollary simple_segment_taps edge_limit step a i : edge_pos i step ->
  taps_of (Spec.VP8.simple_edge step edge_limit a i) i step
  = app8 (lf_simple_segment edge_limit) [] (taps_of a i step).
Proof.
  intros H. rewrite (taps_of_ext _ _ i step (simple_segment_refines edge_limit step a i H)).
  apply taps_write_taps; [exact H|]. unfold taps_of, app8. rewrite lf_simple_segment_eq. apply t_simple_edge_length.
Qed.
Corollary subblock_filter_taps hev_threshold interior_limit edge_limit step a i : edge_pos i step ->
  taps_of (Spec.VP8.inner_edge step edge_limit interior_limit hev_threshold a i) i step
  = app8 (lf_subblock_filter hev_threshold interior_limit edge_limit) [] (taps_of a i step).
Proof.
  intros H. rewrite (taps_of_ext _ _ i step (subblock_filter_refines hev_threshold interior_limit edge_limit step a i H)).
  apply taps_write_taps; [exact H|]. unfold taps_of, app8. rewrite lf_subblock_filter_eq. apply t_inner_edge_length.
Qed.
Corollary macroblock_filter_taps hev_threshold interior_limit edge_limit step a i : edge_pos i step ->
  taps_of (Spec.VP8.mb_edge step edge_limit interior_limit hev_threshold a i) i step
  = app8 (lf_macroblock_filter hev_threshold interior_limit edge_limit) [] (taps_of a i step).
Proof.
  intros H. rewrite (taps_of_ext _ _ i step (macroblock_filter_refines hev_threshold interior_limit edge_limit step a i H)).
  apply taps_write_taps; [exact H|]. unfold taps_of, app8. rewrite lf_macroblock_filter_eq. apply t_mb_edge_length.
Qed.

(* ... and every other cell (and the length) is untouched *)
Definition off_edge (i step : Z) (n : N) : Prop :=
  forall p, In p [i - 4 * step; i - 3 * step; i - 2 * step; i - step; i; i + step; i + 2 * step; i + 3 * step] ->
            Z.to_N p <> n.
Corollary simple_edge_frame thresh step a i n : edge_pos i step -> off_edge i step n ->
  araw (Spec.VP8.simple_edge step thresh a i) n = araw a n
  /\ alen (Spec.VP8.simple_edge step thresh a i) = alen a.
Proof.
  intros H Hn. destruct (spec_simple_edge_taps step thresh a i H) as [L E]. split.
  - rewrite E. apply write_taps_frame. exact Hn.
  - unfold Spec.VP8.simple_edge, do_filter2. destruct (needs_filter a i step thresh); reflexivity.
Qed.
Corollary inner_edge_frame thresh ithresh hevt step a i n : edge_pos i step -> off_edge i step n ->
  araw (Spec.VP8.inner_edge step thresh ithresh hevt a i) n = araw a n
  /\ alen (Spec.VP8.inner_edge step thresh ithresh hevt a i) = alen a.
Proof.
  intros H Hn. destruct (spec_inner_edge_taps step thresh ithresh hevt a i H) as [L E]. split.
  - rewrite E. apply write_taps_frame. exact Hn.
  - unfold Spec.VP8.inner_edge, do_filter2, do_filter4.
    destruct (needs_filter2 a i step thresh ithresh); [destruct (hev a i step hevt)|]; reflexivity.
Qed.
Corollary mb_edge_frame thresh ithresh hevt step a i n : edge_pos i step -> off_edge i step n ->
  araw (Spec.VP8.mb_edge step thresh ithresh hevt a i) n = araw a n
  /\ alen (Spec.VP8.mb_edge step thresh ithresh hevt a i) = alen a.
Proof.
  intros H Hn. destruct (spec_mb_edge_taps step thresh ithresh hevt a i H) as [L E]. split.
  - rewrite E. apply write_taps_frame. exact Hn.
  - unfold Spec.VP8.mb_edge, do_filter2, do_filter6.
    destruct (needs_filter2 a i step thresh ithresh); [destruct (hev a i step hevt)|]; reflexivity.
Qed.

(* --- the predicates at array level --------------------------------------------------------------------------- *)
Theorem simple_threshold_refines edge_limit step a i :
  app8 (lf_simple_threshold edge_limit) false (taps_of a i step) = Spec.VP8.needs_filter a i step edge_limit.
Proof. unfold taps_of, app8. rewrite lf_simple_threshold_spec. reflexivity. Qed.
Theorem should_filter_refines interior_limit edge_limit step a i :
  app8 (lf_should_filter interior_limit edge_limit) false (taps_of a i step)
  = Spec.VP8.needs_filter2 a i step edge_limit interior_limit.
Proof. unfold taps_of, app8. rewrite lf_should_filter_spec. reflexivity. Qed.
Theorem high_edge_variance_refines hev_threshold step a i :
  app8 (lf_high_edge_variance hev_threshold) false (taps_of a i step) = Spec.VP8.hev a i step hev_threshold.
Proof. unfold taps_of, app8. rewrite lf_high_edge_variance_spec. reflexivity. Qed.

(* common_adjust(true) is libwebp's DoFilter2; its return value is a1 (used by nobody in that case) *)
Theorem common_adjust_true_refines step a i : edge_pos i step ->
  arr_ext (Spec.VP8.do_filter2 a i step)
          (write_taps a i step (snd (app8 (lf_common_adjust true) (0, []) (taps_of a i step)))).
Proof.
  intros H. unfold taps_of, app8. rewrite lf_common_adjust_spec. cbn [snd ca_f].
  unfold do_filter2. cbv zeta. apply wr2_taps. exact H.
Qed.

(* --- outputs are bytes again (so the lemmas chain along an edge and from edge to edge) ----------------------- *)
Lemma clip255_byte v : byte (clip255 v).
Proof. unfold byte, clip255. rewrite clip_minmax by lia. lia. Qed.

Ltac bytes8 := repeat (apply Forall_cons; [first [assumption | apply clip255_byte]|]); apply Forall_nil.

Theorem lf_simple_segment_bytes e p3 p2 p1 p0 q0 q1 q2 q3 :
  byte p3 -> byte p2 -> byte p1 -> byte p0 -> byte q0 -> byte q1 -> byte q2 -> byte q3 ->
  Forall byte (lf_simple_segment e p3 p2 p1 p0 q0 q1 q2 q3).
Proof.
  intros. rewrite lf_simple_segment_eq. unfold t_simple_edge, t_filter2.
  destruct (t_needs_filter _ _ _ _ _); cbv zeta; bytes8.
Qed.
Theorem lf_subblock_filter_bytes h il e p3 p2 p1 p0 q0 q1 q2 q3 :
  byte p3 -> byte p2 -> byte p1 -> byte p0 -> byte q0 -> byte q1 -> byte q2 -> byte q3 ->
  Forall byte (lf_subblock_filter h il e p3 p2 p1 p0 q0 q1 q2 q3).
Proof.
  intros. rewrite lf_subblock_filter_eq. unfold t_inner_edge, t_filter2, t_filter4.
  destruct (t_needs_filter2 _ _ _ _ _ _ _ _ _ _); [destruct (t_hev _ _ _ _ _)|]; cbv zeta; bytes8.
Qed.
Theorem lf_macroblock_filter_bytes h il e p3 p2 p1 p0 q0 q1 q2 q3 :
  byte p3 -> byte p2 -> byte p1 -> byte p0 -> byte q0 -> byte q1 -> byte q2 -> byte q3 ->
  Forall byte (lf_macroblock_filter h il e p3 p2 p1 p0 q0 q1 q2 q3).
Proof.
  intros. rewrite lf_macroblock_filter_eq. unfold t_mb_edge, t_filter2, t_filter6.
  destruct (t_needs_filter2 _ _ _ _ _ _ _ _ _ _); [destruct (t_hev _ _ _ _ _)|]; cbv zeta; bytes8.
Qed.

(* --- filter parameters: the Rust limits are the Spec thresholds and are bytes -------------------------------- *)
(* vp8.rs: mbedge_limit = (filter_level + 2) * 2 + interior_limit, sub_bedge_limit = filter_level * 2 + interior_limit
   (u8 arithmetic); Spec.filter_mb: thresh = f_limit + 4 resp. f_limit with f_limit = 2 * level + ilevel. *)
Lemma edge_limits_corr level il : 0 <= level <= 63 -> 0 <= il <= 63 ->
  (level + 2) * 2 + il = (2 * level + il) + 4 /\ level * 2 + il = 2 * level + il /\
  byte ((level + 2) * 2 + il) /\ byte (level * 2 + il) /\ byte ((level + 2) * 2).
Proof. unfold byte. lia. Qed.

Lemma filter_strength_bytes h seg i4 :
  let fi := filter_strength h seg i4 in
  byte (f_limit fi + 4) /\ byte (f_limit fi) /\ byte (f_ilevel fi) /\ byte (f_hev fi).
Proof.
  cbv zeta. unfold filter_strength.
  set (lv := clip 0 63 _). assert (Hlv : 0 <= lv <= 63) by (unfold lv; rewrite clip_minmax by lia; lia).
  clearbody lv. cbv zeta.
  destruct (Z.ltb_spec 0 lv) as [Hp|Hp]; [|cbn [f_limit f_ilevel f_hev]; unfold byte; lia].
  set (il0 := if 0 <? h_sharpness h then _ else lv).
  assert (Hil : il0 <= 63).
  { unfold il0. destruct (0 <? h_sharpness h); [|lia].
    rewrite shiftr1. rewrite (Z.shiftr_div_pow2 lv 2) by lia.
    change (2 ^ 2) with 4.
    destruct (4 <? h_sharpness h);
      match goal with |- (if ?c then _ else _) <= _ => destruct c eqn:Hc end;
      try (apply Z.ltb_lt in Hc); try (apply Z.ltb_ge in Hc); lia. }
  clearbody il0. cbn [f_limit f_ilevel f_hev]. unfold byte.
  destruct (il0 <? 1) eqn:H1; [|apply Z.ltb_ge in H1];
    destruct (40 <=? lv); destruct (15 <=? lv); lia.
Qed.

(* ---------------------------------------------------------------------------------------------------------- *)
(* 7. the transforms (proved in VP8_arraykernels_aux), restated in one piece                                    *)
(* ---------------------------------------------------------------------------------------------------------- *)
(* iwht4x4 works in checked i32 arithmetic: the value equality holds for all integers, the absence of overflow
   exactly up to |x| <= 2^27 - 1 = wht_bound (16 * 2^27 overflows, see [iwht4x4_bound_tight]). *)
Theorem iwht4x4_refines b0 b1 b2 b3 b4 b5 b6 b7 b8 b9 b10 b11 b12 b13 b14 b15 :
  Forall (within wht_bound) [b0; b1; b2; b3; b4; b5; b6; b7; b8; b9; b10; b11; b12; b13; b14; b15] ->
  iwht4x4 b0 b1 b2 b3 b4 b5 b6 b7 b8 b9 b10 b11 b12 b13 b14 b15
  = fst (Spec.VP8.iwht [b0; b1; b2; b3; b4; b5; b6; b7; b8; b9; b10; b11; b12; b13; b14; b15])
  /\ iwht4x4_ok b0 b1 b2 b3 b4 b5 b6 b7 b8 b9 b10 b11 b12 b13 b14 b15 = true.
Proof.
  intros H. split; [apply iwht4x4_eq|].
  repeat match type of H with Forall _ (_ :: _) =>
    let Hh := fresh "Hb" in let Ht := fresh "Ht" in
    pose proof (Forall_inv H) as Hh; pose proof (Forall_inv_tail H) as Ht; clear H; rename Ht into H end.
  apply iwht4x4_ok_true; assumption.
Qed.

(* idct4x4 works in i64 and casts to i32 after each pass: both the equality and the i64 range checks hold for
   |x| <= 2^29 = dct_bound, the largest power of two for which the first-pass casts are exact
   (|tmp| <= (2 + 85627/65536 + 35468/65536) * |x| + 2 < 3.848 * |x| + 2; see [idct4x4_bound_tight]). *)
Theorem idct4x4_refines b0 b1 b2 b3 b4 b5 b6 b7 b8 b9 b10 b11 b12 b13 b14 b15 :
  Forall (within dct_bound) [b0; b1; b2; b3; b4; b5; b6; b7; b8; b9; b10; b11; b12; b13; b14; b15] ->
  idct4x4 b0 b1 b2 b3 b4 b5 b6 b7 b8 b9 b10 b11 b12 b13 b14 b15
  = fst (Spec.VP8.idct [b0; b1; b2; b3; b4; b5; b6; b7; b8; b9; b10; b11; b12; b13; b14; b15])
  /\ idct4x4_ok b0 b1 b2 b3 b4 b5 b6 b7 b8 b9 b10 b11 b12 b13 b14 b15 = true.
Proof.
  intros H.
  repeat match type of H with Forall _ (_ :: _) =>
    let Hh := fresh "Hb" in let Ht := fresh "Ht" in
    pose proof (Forall_inv H) as Hh; pose proof (Forall_inv_tail H) as Ht; clear H; rename Ht into H end.
  split; [apply idct4x4_eq | apply idct4x4_ok_true]; assumption.
Qed.

(* ---------------------------------------------------------------------------------------------------------- *)
(* 8. examples: the hypotheses are satisfiable, the filters do something, the bounds are sharp                  *)
(* ---------------------------------------------------------------------------------------------------------- *)
Example edge_pos_ex : edge_pos 1000 64 /\ edge_pos 1000 1 /\ edge_pos 4 1.
Proof. unfold edge_pos. lia. Qed.

(* a step edge 60|70|90|100 || 120|130|135|140: all three filters act, each differently *)
Example simple_segment_ex : lf_simple_segment 80 60 70 90 100 120 130 135 140 = [60; 70; 90; 102; 117; 130; 135; 140].
Proof. vm_compute. reflexivity. Qed.
Example subblock_filter_ex : lf_subblock_filter 30 40 80 60 70 90 100 120 130 135 140 = [60; 70; 94; 107; 112; 126; 135; 140].
Proof. vm_compute. reflexivity. Qed.
Example macroblock_filter_ex : lf_macroblock_filter 30 40 80 60 70 90 100 120 130 135 140 = [60; 71; 93; 104; 116; 127; 134; 140].
Proof. vm_compute. reflexivity. Qed.
Example subblock_filter_hev_ex : lf_subblock_filter 1 40 80 60 70 90 100 120 130 135 140 = [60; 70; 90; 102; 117; 130; 135; 140].
Proof. vm_compute. reflexivity. Qed.

Example refines_ex :
  let a := Arr.of_list [60; 70; 90; 100; 120; 130; 135; 140] in
  Arr.to_list (Spec.VP8.mb_edge 1 80 40 30 a 4) = lf_macroblock_filter 30 40 80 60 70 90 100 120 130 135 140
  /\ taps_of a 4 1 = [60; 70; 90; 100; 120; 130; 135; 140].
Proof. vm_compute. split; reflexivity. Qed.
