(* VP8 whole-frame decoding, part 5: MAIN THEOREM.  For every payload the reference decodes (Spec.VP8.decode_frame data =
   Some f), under four decidable side conditions on the stream, the Model of Vp8Decoder::decode_frame returns Ok and
   exactly the reference's frame: same width and height, same Y, U, V planes, sample for sample.

   Composition of: VP8_frame_hdrthm.read_frame_header_refines + VP8_frame_main.parse_frame_loop_refines (parsing half
   = the reference's parse), VP8_decode_starved (the reference accepting the stream excludes the parsing half's
   failure branch), VP8_decode_shape / VP8_decode_refwf / VP8_decode_bridge (the relations of the two halves fit),
   VP8_recon_main.decode_frame_recon_is_spec (reconstruction half = the reference's planes). *)
From Coq Require Import ZArith Lia List Bool.
From WebP Require Import Lib.Res Gen.Tables Lib.ZBits Spec.BoolDec Spec.VP8Tables Spec.VP8 Model.ArithDec Model.Vp8Parse Model.Vp8Frame
  Model.Vp8Recon Model.Vp8Decode
  Proofs.C15_model Proofs.VP8_parse_base Proofs.VP8_parse_coeffs Proofs.VP8_parse_residual Proofs.VP8_frame_base Proofs.VP8_frame_mono Proofs.VP8_frame_header
  Proofs.VP8_frame_hdrthm Proofs.VP8_frame_loop Proofs.VP8_frame_main
  Proofs.VP8_recon_frame Proofs.VP8_recon_filter Proofs.VP8_recon_main Proofs.VP8_recon_example
  Proofs.VP8_decode_starved Proofs.VP8_decode_shape Proofs.VP8_decode_refwf Proofs.VP8_decode_bridge.
Import ListNotations.
Open Scope Z_scope.
Open Scope res_scope.

(* The side conditions, all decidable from the payload alone (through the reference header parser):
     1 the reserved colour-space bit is 0            (the crate rejects 1 with ColorSpaceInvalid; libwebp ignores the bit)
     2 the first partition does not start with 0xFF  (C15's hypothesis on the arithmetic decoder, see DESIGN 0.2)
     3 no token partition starts with 0xFF           (the same)
     4 for each of the four segments the loop-filter base level (segment value, plus the frame level in delta mode)
       is within 0..63                               (outside, the crate clamps before adding the ref / mode deltas and
                                                      libwebp after: VP8_recon_example.filter_level_clamp_refuted) *)
Definition decode_hyps_b (data : list Z) : bool :=
  match parse_header data with
  | Some (h, s, parts) =>
    (h_color_space h =? 0) && no_ff_start (first_partition data) && forallb no_ff_start parts && lf_base_okb h
  | None => false
  end.

(* PARSING HALF, closed: for a payload the reference decodes, under side conditions 1-3 the parsing half of the crate
   succeeds -- the failure branch of VP8_frame_main.parse_frame_refines (reference over-read => BitStreamError) cannot
   occur, because Spec.VP8.decode_frame rejects starved partitions and is one byte stricter than the crate
   (VP8_decode_starved) -- and what it hands on is related to the reference's parse by the relations the
   reconstruction half asks for (VP8_decode_bridge). *)
Theorem parse_frame_of_spec : forall (data : list Z) (f : frame) (h : header) (s : bstate) (parts : list (list Z)),
  Forall byte data -> C15_model.len data < 2 ^ 63 ->
  parse_header data = Some (h, s, parts) -> VP8.decode_frame data = Some f ->
  h_color_space h = 0 -> no_ff_start (first_partition data) = true -> forallb no_ff_start parts = true ->
  let '(modes, s') := parse_modes h s in
  let '(res, ps') := parse_tokens h modes (map bd_init parts) in
  exists recs v, parse_frame data = Ok (recs, v) /\ frame_rel (mb_w h) recs modes res /\
                 dims_rel (recon_header v) h /\ filt_rel (recon_header v) h /\ header_wf h.
Proof.
  intros data f h s parts Hbytes Hlen Hph Hd Hcs Hff0 Hffp.
  destruct (parse_header_dims data h s parts Hph) as [Dw Dh].
  destruct (mb_h_bounds h ltac:(lia)) as [Hmbh _]. destruct (mb_w_bounds h ltac:(lia)) as [Hmbw _].
  destruct (read_frame_header_refines data Hbytes Hlen h s parts Hph Hcs Hff0 Hffp) as [v0 [Enew H]].
  pose proof (decoded_first_not_over_read data h s parts f Hph Hd) as N1.
  assert (Hb0 : Forall byte (first_partition data)) by (unfold first_partition; apply Forall_firstn, Forall_skipn; exact Hbytes).
  assert (Hl0 : C15_model.len (first_partition data) < 2 ^ 63).
  { unfold C15_model.len in *. unfold first_partition. rewrite firstn_length, skipn_length. lia. }
  destruct H as [(vh & EH & Hrel & Hwf & Hlink & Hpl & Lparts & Hparts) | [EH Ov]].
  2:{ exfalso. apply N1.
      pose proof (parse_mode_rows_mono h (Z.to_nat (mb_h h)) (tabulate (fun _ => 0) (Z.to_nat (4 * mb_w h))) s []) as MM.
      fold (parse_modes h s) in MM. exact (over_read_le _ _ _ MM Ov). }
  pose proof (parse_frame_loop_refines (first_partition data) parts h vh s Hb0 Hl0 Hrel Hwf Hlink Hpl Lparts Hparts) as R.
  assert (Hnp : h_num_parts h = 1 \/ h_num_parts h = 2 \/ h_num_parts h = 4 \/ h_num_parts h = 8) by (destruct Hwf as (_ & _ & _ & _ & _ & X & _); exact X).
  pose proof (decoded_not_over_read data h s parts f Hph Hd Hnp Lparts Hmbh) as N2.
  pose proof (parse_modes_facts h s) as MF.
  destruct (parse_modes h s) as [modes s'] eqn:Em. cbn [snd fst] in *.
  assert (Htab : tables_ok (h_probas h)) by (destruct Hwf as (X & _); exact X).
  assert (Htp : token_nodes_of (h_probas h) = Ok (v_token_probs vh)) by (destruct Hrel as (_ & _ & _ & _ & _ & _ & _ & _ & _ & _ & _ & _ & _ & _ & X & _); exact X).
  pose proof (parse_tokens_facts h vh modes (map bd_init parts) Htab Htp) as TF.
  destruct (parse_tokens h modes (map bd_init parts)) as [res ps'] eqn:Et. cbn [fst] in TF. destruct N2 as [_ N2].
  destruct R as [(recs & v' & EM & Hrows & Sh & _) | [_ [O | O]]]; [|contradiction | contradiction].
  assert (Epf : parse_frame data = Ok (recs, v')) by (unfold parse_frame; rewrite Enew; cbn [bind]; rewrite EH; cbn [bind]; exact EM).
  pose proof (parse_frame_shape data recs v' Epf) as Hshape.
  pose proof (frame_bridge h modes res recs ltac:(lia) Hrows Hshape MF TF) as Hframe.
  destruct (header_bridge data h s parts vh v' Hph Hrel Sh) as [Hdims Hfilt].
  exists recs, v'. split; [exact Epf|]. split; [exact Hframe|]. split; [exact Hdims|]. split; [exact Hfilt | exact Hwf].
Qed.

(* in particular the reference parse of such a stream passes the computable check of VP8_recon_example: the hypothesis
   wf_frame_b of recon_of_spec_parse is a theorem for every stream the reference decodes *)
Corollary spec_parse_wf_b : forall (data : list Z) (f : frame) (h : header) (s : bstate) (parts : list (list Z)),
  Forall byte data -> C15_model.len data < 2 ^ 63 ->
  parse_header data = Some (h, s, parts) -> VP8.decode_frame data = Some f ->
  h_color_space h = 0 -> no_ff_start (first_partition data) = true -> forallb no_ff_start parts = true ->
  let '(modes, s') := parse_modes h s in
  let '(res, ps') := parse_tokens h modes (map bd_init parts) in
  wf_frame_b (mb_w h) modes res = true.
Proof.
  intros data f h s parts Hbytes Hlen Hph Hd Hcs Hff0 Hffp.
  pose proof (parse_frame_of_spec data f h s parts Hbytes Hlen Hph Hd Hcs Hff0 Hffp) as P.
  destruct (parse_modes h s) as [modes s']. destruct (parse_tokens h modes (map bd_init parts)) as [res ps'].
  destruct P as (recs & v & _ & Hframe & _). exact (wf_frame_b_of_rel _ _ _ _ Hframe).
Qed.

(* MAIN THEOREM *)
Theorem decode_frame_is_spec : forall (data : list Z) (f : frame),
  Forall byte data -> C15_model.len data < 2 ^ 63 ->
  VP8.decode_frame data = Some f ->
  decode_hyps_b data = true ->
  Vp8Decode.decode_frame data = Ok (fr_w f, fr_h f, fr_y f, fr_u f, fr_v f).
Proof.
  intros data f Hbytes Hlen Hd Hy. unfold decode_hyps_b in Hy.
  destruct (parse_header data) as [[[h s] parts]|] eqn:Hph; [|discriminate Hy].
  apply andb_true_iff in Hy. destruct Hy as [Hy Hlf]. apply andb_true_iff in Hy. destruct Hy as [Hy Hffp].
  apply andb_true_iff in Hy. destruct Hy as [Hcs Hff0]. apply Z.eqb_eq in Hcs.
  destruct (parse_header_dims data h s parts Hph) as [Dw Dh].
  pose proof (parse_frame_of_spec data f h s parts Hbytes Hlen Hph Hd Hcs Hff0 Hffp) as P.
  destruct (parse_modes h s) as [modes s'] eqn:Em. destruct (parse_tokens h modes (map bd_init parts)) as [res ps'] eqn:Et.
  destruct P as (recs & v' & Epf & Hframe & Hdims & Hfilt & Hwf).
  pose proof (lf_valid_bridge h Hwf (lf_base_okb_spec h Hlf)) as Hlfv.
  pose proof (parse_modes_length h s modes s' ltac:(lia) Em) as Hlen'.
  destruct (decode_frame_recon_is_spec data h s parts modes s' res ps' f (recon_header v') recs Hph Em Et Hd Hdims ltac:(lia) ltac:(lia) Hfilt Hlfv Hframe Hlen')
    as (Epl & Ew & Eh).
  unfold Vp8Decode.decode_frame. rewrite Epf. cbn [bind]. rewrite Epl. cbn [bind]. rewrite Ew, Eh. reflexivity.
Qed.

(* the same about Spec.VP8.decode, the function the container-level specifications (Spec.Still, Spec.Anim) use *)
Corollary decode_is_spec : forall (data : list Z) (w h : Z) (yp up vp : list Z),
  Forall byte data -> C15_model.len data < 2 ^ 63 ->
  VP8.decode data = Some (w, h, yp, up, vp) ->
  decode_hyps_b data = true ->
  Vp8Decode.decode_frame data = Ok (w, h, yp, up, vp).
Proof.
  intros data w h yp up vp Hb Hl Hd Hy. unfold VP8.decode in Hd.
  destruct (VP8.decode_frame data) as [f|] eqn:Ef; [|discriminate Hd]. injection Hd as <- <- <- <- <-.
  exact (decode_frame_is_spec data f Hb Hl Ef Hy).
Qed.

(* the oracle entry point prints exactly this *)
Corollary vp8d_run_is_spec data f : Forall byte data -> C15_model.len data < 2 ^ 63 ->
  VP8.decode_frame data = Some f -> decode_hyps_b data = true ->
  vp8d_run data = (0, [fr_w f; fr_h f], fr_y f, fr_u f, fr_v f).
Proof. intros Hb Hl Hd Hy. unfold vp8d_run. rewrite (decode_frame_is_spec data f Hb Hl Hd Hy). reflexivity. Qed.
