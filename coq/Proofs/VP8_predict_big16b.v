(* Proofs/VP8_predict_big16b.v -- predict_tmpred / predict_dcpred on the luma workspace (17 rows x 21 columns). *)
From Coq Require Import ZArith List Bool Lia.
From WebP Require Import Lib.Res Lib.ZBits Gen.Kernels Spec.VP8 Proofs.VP8_kernels Model.Vp8Predict Proofs.VP8_predict_base
  Proofs.VP8_predict_eval.
Import ListNotations.
Open Scope Z_scope.
Open Scope res_scope.

(* predict_tmpred with the per-sample formula as a parameter (so that the model can be run with opaque samples) *)
Definition predict_tmpred_gen (F : Z -> Z -> Z -> Z) (a : list Z) (size x0 y0 stride : Z) : res (list Z) :=
  let* xm := usub x0 1 in
  let mid := y0 * stride + xm in
  if len a <? mid then Panic PSlice else
  let* ym := usub y0 1 in
  let* pidx := usub (ym * stride + x0) 1 in
  if mid <=? pidx then Panic PIndex else
  let p := get a pidx in
  let astart := ym * stride + x0 in
  if mid <? astart then Panic PSlice else
  let alen := mid - astart in
  rows (Z.to_nat size) a 0 0 0 (fun y _ s =>
    if len a - mid <=? y * stride then Panic PIndex else
    if len a - mid <? y * stride + 1 then Panic PSlice else
    if len a - mid - (y * stride + 1) <? size then Panic PSlice else
    copyf (Z.to_nat (Z.min size alen)) s (mid + (y * stride + 1)) 0
          (fun k => F (get s (mid + y * stride)) p (get a (astart + k)))).

Lemma predict_tmpred_is_gen a size x0 y0 stride :
  predict_tmpred a size x0 y0 stride = predict_tmpred_gen (fun l p t => clamp255 (l - p + t)) a size x0 y0 stride.
Proof. reflexivity. Qed.

Lemma tm_luma_gen F a :
  len a = 357 ->
  predict_tmpred_gen F a 16 1 1 21 =
  Ok (cells 17 21 (fun y x => if (1 <=? y) && (1 <=? x) && (x <=? 16) then F (get a (y * 21)) (get a 0) (get a x)
                              else get a (y * 21 + x))).
Proof. intros Hl. eval_cells a Hl 357%nat. Qed.

Theorem predict_tmpred_luma a :
  len a = 357 ->
  exists a', predict_tmpred a 16 1 1 21 = Ok a' /\ len a' = 357 /\
    forall y x, 0 <= y < 17 -> 0 <= x < 21 ->
      get a' (y * 21 + x) = if (1 <=? y) && (1 <=? x) && (x <=? 16)
                            then clip255 (get a x + get a (y * 21) - get a 0) else get a (y * 21 + x).
Proof.
  intros Hl. rewrite predict_tmpred_is_gen, tm_luma_gen by exact Hl.
  eexists. split; [reflexivity|]. split; [apply len_cells2|].
  intros y x Hy Hx. rewrite (get_cells2 17 21) by lia.
  destruct ((1 <=? y) && (1 <=? x) && (x <=? 16)); [|reflexivity].
  rewrite clamp255_spec. f_equal. lia.
Qed.

(* the store loop of predict_dcpred with an arbitrary value *)
Lemma dc_fill_luma a dc :
  len a = 357 ->
  exists a',
    rows 16 a 0 0 0 (fun y _ s =>
      let start := 1 + 21 * (y + 1) in
      if len s <? start then Panic PSlice else
      if len s - start <? 16 then Panic PSlice else
      copyf 16 s start 0 (fun _ => dc)) = Ok a' /\ len a' = 357 /\
    forall y x, 0 <= y < 17 -> 0 <= x < 21 ->
      get a' (y * 21 + x) = if (1 <=? y) && (1 <=? x) && (x <=? 16) then dc else get a (y * 21 + x).
Proof.
  intros Hl.
  exists (cells 17 21 (fun y x => if (1 <=? y) && (1 <=? x) && (x <=? 16) then dc else get a (y * 21 + x))).
  split; [|split; [apply len_cells2 | intros y x Hy Hx; apply (get_cells2 17 21); lia]].
  eval_cells a Hl 357%nat.
Qed.

Theorem predict_dcpred_luma a above left :
  len a = 357 -> bytes a ->
  exists a', predict_dcpred a 16 21 above left = Ok a' /\ len a' = 357 /\
    forall y x, 0 <= y < 17 -> 0 <= x < 21 ->
      get a' (y * 21 + x) =
      if (1 <=? y) && (1 <=? x) && (x <=? 16)
      then dc_big (tabulate (fun i => get a (1 + i)) 16) (tabulate (fun j => get a ((1 + j) * 21)) 16) 16 4 above left
      else get a (y * 21 + x).
Proof.
  intros Hl Hb. unfold predict_dcpred. change (16 =? 8) with false. cbv iota.
  change (Z.to_nat 16) with 16%nat. rewrite Hl.
  destruct left, above; cbn [sum_left sum_range negb andb];
    repeat first [rewrite rd_ok by side | rewrite ltb_false by side | progress cbn [bind]];
    set (dc := Z.modulo _ 256);
    (match goal with |- context [dc_big ?t ?l ?sz ?sh ?ab ?lf] => assert (Edc : dc = dc_big t l sz sh ab lf) end;
     [ subst dc; unfold dc_big, sumZ; cbv [tabulate tabulate_aux fold_left]; cbv beta; cbn [andb negb]; norm_idx;
       try reflexivity;
       all_bytes Hb; unfold byte in *;
       change (3 + 1 + 1) with 5; change (3 + 1) with 4; change (4 + 1) with 5; change (5 - 1) with 4; change (4 - 1) with 3;
       change (Z.shiftl 1 4) with 16; change (Z.shiftl 1 3) with 8; change (Z.shiftr 16 1) with 8;
       rewrite dc_mod_small by (change (2 ^ 5) with 32; change (2 ^ 4) with 16; lia);
       (apply (f_equal2 Z.shiftr); [ring | reflexivity])
     | rewrite <- Edc; clearbody dc; exact (dc_fill_luma a dc Hl) ]).
Qed.
