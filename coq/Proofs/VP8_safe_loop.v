(* C03 for the VP8 key-frame decoder, part 3: the parsing side of the macroblock loop of decode_frame_ from ANY state
   satisfying the invariant VP8_safe_inv.vp8_inv: read_macroblock_header, read_residual_data or the skipped branch, the row
   loop and the loop over rows (partition index `mby % num_partitions`, left context reset) return Ok -- with the invariant
   re-established and one record per macroblock that satisfies mbout_ok -- or Err; never Panic (there is no fuel). *)
From Coq Require Import ZArith Lia List Bool.
From WebP Require Import Lib.Res Gen.Kernels Gen.Tables Lib.ZBits Proofs.C15_model Proofs.C15_main Model.ArithDec
  Model.Vp8Parse Model.Vp8Frame Proofs.VP8_arraykernels_aux Proofs.VP8_parse_base Proofs.VP8_parse_coeffs Proofs.VP8_parse_mbheader
  Proofs.VP8_parse_header Proofs.VP8_parse_residual Proofs.VP8_frame_header Proofs.VP8_frame_hdrthm Proofs.VP8_frame_loop
  Proofs.VP8_decode_shape Proofs.VP8_safe_inv Proofs.VP8_safe_residual.
From WebP Require Import Spec.VP8.
Import ListNotations.
Open Scope Z_scope.
Open Scope res_scope.

(* ---- the invariant under the two kinds of state change ---- *)
Lemma inv_st v d tops l : vp8_inv v -> wsafe d -> big d -> length tops = length (v_top v) -> Forall top_ok tops -> top_ok l ->
  vp8_inv (st v d tops l).
Proof.
  intros [I1 I2 I3 I4 I5 I6 I7 I8 I9 I10] Hw Hb Ll Ft Hl.
  constructor; try (destruct v; assumption).
  - destruct v; cbn in *. split; assumption.
  - destruct v; cbn in *. destruct I9 as [E _]. split; [lia | exact Ft].
Qed.

Lemma inv_set_left v l : vp8_inv v -> top_ok l -> vp8_inv (set_left v l).
Proof. intros [I1 I2 I3 I4 I5 I6 I7 I8 I9 I10] Hl. constructor; try (destruct v; assumption). Qed.

Lemma inv_rst v p mbx t d tc lc : vp8_inv v -> 0 <= p < v_num_partitions v -> part_live d ->
  0 <= mbx -> nth_error (v_top v) (Z.to_nat mbx) = Some t ->
  length tc = 9%nat -> cx_ok tc -> length lc = 9%nat -> cx_ok lc ->
  vp8_inv (rst v p mbx t d tc lc).
Proof.
  intros [I1 I2 I3 I4 I5 I6 I7 I8 I9 I10] Hp Hd Hmbx Et Ltc Ctc Llc Clc.
  assert (Htop : top_ok t).
  { destruct I9 as [_ F]. rewrite Forall_forall in F. apply F. eapply nth_error_In. exact Et. }
  constructor; try (destruct v; assumption).
  - (* partitions *)
    intros i Hi. replace (v_num_partitions (rst v p mbx t d tc lc)) with (v_num_partitions v) in Hi by (destruct v; reflexivity).
    rewrite rst_parts. destruct (I8 p Hp) as (dp & Edp & _). pose proof (nth_error_lt_len _ _ _ Edp) as Lp.
    destruct (Z.eq_dec i p) as [-> | Ne].
    + exists d. split; [unfold updZ; apply nth_error_upd_same; exact Lp | exact Hd].
    + destruct (I8 i Hi) as (di & Edi & Hdi). exists di. split; [|exact Hdi].
      unfold updZ. rewrite nth_error_upd_other by lia. exact Edi.
  - (* top *)
    rewrite rst_top. destruct I9 as [E F]. split.
    + unfold updZ. rewrite upd_length. replace (v_mbwidth (rst v p mbx t d tc lc)) with (v_mbwidth v) by (destruct v; reflexivity). exact E.
    + unfold updZ. apply Forall_upd; [exact F|]. destruct Htop as (A & B & _ & _).
      unfold top_ok, mb_set_complexity. cbn [mb_bpred mb_complexity]. repeat split; assumption.
  - rewrite rst_left. destruct I10 as (A & B & _ & _). unfold top_ok, mb_set_complexity. cbn [mb_bpred mb_complexity]. repeat split; assumption.
Qed.

(* ---- what the macroblock-header program can return, for any reader ---- *)
Lemma G_mbh_values {St} (bit : St -> Z -> bool * St) segnodes skipp tb lb s :
  (forall nodes, segnodes = Some nodes -> exists sp, length sp = 3%nat /\ Forall byte sp /\ tree_nodes_from vp8_SEGMENT_ID_TREE sp = Ok nodes) ->
  let r := fst (interpG bit (G_mbh segnodes skipp tb lb) s) in
  0 <= fst (fst (fst (fst (fst r)))) <= 3.
Proof.
  intros Hseg. cbv zeta. unfold G_mbh. rewrite bind_inv.
  assert (Hid : 0 <= fst (interpG bit (match segnodes with Some nodes => lift (tree0 nodes) | None => GRet 0 end) s) <= 3).
  { destruct segnodes as [nodes|]; [|cbn [interpG fst]; lia].
    destruct (Hseg nodes eq_refl) as (sp & L3 & Bsp & En). rewrite interpG_lift. unfold tree0.
    apply (tree_prog_range _ _ _ 3 (seg_tree_ok sp L3 Bsp) En ltac:(lia) seg_leaves). }
  destruct (interpG bit (match segnodes with Some nodes => lift (tree0 nodes) | None => GRet 0 end) s) as [id s1]. cbn [fst snd] in *.
  rewrite bind_inv. destruct (interpG bit (match skipp with Some p => GRead p (fun b => GRet b) | None => GRet false end) s1) as [sk s2]. cbn [fst snd].
  rewrite bind_inv. destruct (interpG bit (lift (tree0 ynodes)) s2) as [luma s3]. cbn [fst snd].
  rewrite bind_inv.
  destruct (interpG bit (if luma =? 4 then gbind (G_brows 4 0 tb lb (repeat 0 16)) (fun r => GRet (snd (fst r), snd r))
                         else GRet (fill4 4 0 lb (repeat 0 16) (intra_of luma))) s3) as [lm s4]. cbn [fst snd].
  rewrite bind_inv. destruct (interpG bit (lift (tree0 uvnodes)) s4) as [chroma s5]. cbn [interpG fst snd]. exact Hid.
Qed.

(* ---- read_macroblock_header ---- *)
Lemma read_macroblock_header_safe v mbx : vp8_inv v -> 0 <= mbx < v_mbwidth v ->
  (exists e, read_macroblock_header v mbx = Err e) \/
  exists mb v' t', read_macroblock_header v mbx = Ok (mb, v') /\ vp8_inv v' /\ same_hdr v v' /\ v_partitions v' = v_partitions v /\
    nth_error (v_top v') (Z.to_nat mbx) = Some t' /\ rec_shape mb /\ 0 <= mb_segmentid mb <= 3.
Proof.
  intros Hinv Hmbx. pose proof Hinv as [I1 I2 I3 [I4 I4'] I5 I6 I7 I8 [I9 I9'] I10].
  assert (Hx : (Z.to_nat mbx < length (v_top v))%nat) by lia.
  destruct (nth_error (v_top v) (Z.to_nat mbx)) as [t|] eqn:Et; [|apply nth_error_None in Et; lia].
  assert (Htop : top_ok t) by (rewrite Forall_forall in I9'; apply I9'; eapply nth_error_In; exact Et).
  destruct Htop as (Lt & Mt & Lct & Cct). destruct I10 as (Ll & Ml & Lcl & Ccl).
  pose proof (mbh_model_st v (v_b v) (v_top v) (v_left v) mbx t I1 I2 I3 ltac:(lia) Et Lt Ll Mt Ml I4 I4') as EM.
  rewrite <- st_eta in EM.
  assert (Hsn : forall nodes, mbh_seg v = Some nodes -> exists sp, length sp = 3%nat /\ Forall byte sp /\ tree_nodes_from vp8_SEGMENT_ID_TREE sp = Ok nodes).
  { unfold mbh_seg. intros nodes E. destruct (v_segments_enabled v && v_segments_update_map v) eqn:Ese; [|discriminate].
    injection E as <-. exact (I2 eq_refl). }
  pose proof (G_mbh_values cold_pure (mbh_seg v) (v_prob_skip_false v) (mb_bpred t) (mb_bpred (v_left v)) (v_b v) Hsn) as Hid.
  pose proof (G_mbh_shape cold_pure (mbh_seg v) (v_prob_skip_false v) (mb_bpred t) (mb_bpred (v_left v)) (v_b v) Lt Ll Mt Ml) as Sh.
  cbv zeta in Hid, Sh.
  assert (Hprobs : gprobs_ok (G_mbh (mbh_seg v) (v_prob_skip_false v) (mb_bpred t) (mb_bpred (v_left v)))).
  { apply G_mbh_probs; [|exact I3]. intros nodes E. destruct (Hsn nodes E) as (sp & L3 & Bsp & En).
    unfold tree0. apply (tree_probs_of _ _ _ (seg_tree_ok sp L3 Bsp) En). }
  destruct (run_facts _ (v_b v) I4 I4' Hprobs) as [W1 B1].
  destruct (interpG cold_pure (G_mbh (mbh_seg v) (v_prob_skip_false v) (mb_bpred t) (mb_bpred (v_left v))) (v_b v)) as [rr d'].
  destruct rr as [[[[[id skipped] luma] lb'] mbp'] chroma]. cbn [fst snd] in *. unfold mbh_result in EM.
  destruct (is_past_eof d'); [left; eexists; exact EM|]. right.
  destruct Sh as (S1 & S2 & S3 & S4).
  set (t' := mkMB mbp' (mb_complexity t) luma chroma (mb_segmentid t) (mb_coeffs_skipped t) (mb_non_zero_coeffs t)) in *.
  eexists _, _, t'. split; [exact EM|].
  split.
  { apply inv_st; try assumption.
    - unfold updZ. apply upd_length.
    - unfold updZ. apply Forall_upd; [exact I9'|]. unfold top_ok, t'. cbn [mb_bpred mb_complexity]. repeat split; assumption.
    - unfold top_ok, mb_set_bpred. cbn [mb_bpred mb_complexity]. repeat split; assumption. }
  split; [apply same_hdr_st|]. split; [destruct v; reflexivity|].
  split; [rewrite st_top; unfold updZ; apply nth_error_upd_same; exact Hx|].
  split; [exact (read_macroblock_header_shape _ _ _ _ EM)|]. cbn [mb_segmentid]. exact Hid.
Qed.

(* ---- one macroblock ---- *)
Lemma skc_ok keep tc : cx_ok tc -> length (skc keep tc) = 9%nat /\ cx_ok (skc keep tc).
Proof.
  intros C. unfold skc. split; [reflexivity|]. unfold cx_ok. constructor.
  - destruct keep; [|lia]. destruct tc as [|c tc]; [cbn; lia|]. inversion C; subst. cbn [nth]. assumption.
  - apply Forall_forall. intros z Hz. apply repeat_spec in Hz. lia.
Qed.

Lemma same_hdr_fields v v' : same_hdr v v' ->
  v_num_partitions v' = v_num_partitions v /\ v_mbwidth v' = v_mbwidth v /\ v_mbheight v' = v_mbheight v.
Proof.
  unfold same_hdr, hdr_fields. intros E. injection E as E1 E2 E3 E4 E5 E6 E7 E8 E9 E10 E11 E12 E13 E14. repeat split; congruence.
Qed.

Lemma zero_blocks_ok : blocks_ok (repeat 0 384).
Proof.
  exists (repeat zero16 24). split; [reflexivity|]. split; [apply zero_blocks_bounded; unfold dct_bound; lia | vm_compute; reflexivity].
Qed.

Lemma parse_macroblock_safe v mbx p : vp8_inv v -> 0 <= mbx < v_mbwidth v -> 0 <= p < v_num_partitions v ->
  (exists e, parse_macroblock v mbx p = Err e) \/
  exists mb blocks v', parse_macroblock v mbx p = Ok (mb, blocks, v') /\ vp8_inv v' /\ same_hdr v v' /\ mbout_ok (mb, blocks).
Proof.
  intros Hinv Hmbx Hp. unfold parse_macroblock.
  destruct (read_macroblock_header_safe v mbx Hinv Hmbx) as [(e & E) | (mb & v1 & t' & E & Hinv1 & Hsame & Eparts & Et' & Hshape & Hsid)];
    rewrite E; cbn [bind]; [left; eexists; reflexivity|].
  destruct (same_hdr_fields _ _ Hsame) as (Enp & Emw & _).
  pose proof Hinv1 as [J1 J2 J3 J4 J5 [J6 J6'] J7 J8 [J9 J9'] J10].
  assert (Htop : top_ok t') by (rewrite Forall_forall in J9'; apply J9'; eapply nth_error_In; exact Et').
  destruct Htop as (_ & _ & Lct & Cct). destruct J10 as (_ & _ & Lcl & Ccl).
  destruct (J8 p ltac:(lia)) as (d & Ed & Hd).
  destruct (mb_coeffs_skipped mb) eqn:Esk; cbn [negb].
  - (* skipped *)
    rewrite (skipped_macroblock_ok v1 mb mbx p t' d ltac:(lia) ltac:(lia) Ed Et' Lct Lcl). cbn [bind]. right.
    destruct (skc_ok (mb_luma_mode mb =? vp8_B_PRED) (mb_complexity t') Cct) as [A1 A2].
    destruct (skc_ok (mb_luma_mode mb =? vp8_B_PRED) (mb_complexity (v_left v1)) Ccl) as [A3 A4].
    eexists _, _, _. split; [reflexivity|].
    split; [apply inv_rst; try assumption; lia|].
    split; [eapply same_hdr_trans; [exact Hsame | apply same_hdr_rst]|].
    split; [exact Hshape|]. split; [exact Hsid | exact zero_blocks_ok].
  - (* coefficients *)
    assert (Hsl : (Z.to_nat (mb_segmentid mb) < length (v_segment v1))%nat) by lia.
    destruct (nth_error (v_segment v1) (Z.to_nat (mb_segmentid mb))) as [seg|] eqn:Eseg; [|apply nth_error_None in Eseg; lia].
    assert (Hq : seg_q_ok seg) by (rewrite Forall_forall in J6'; apply J6'; eapply nth_error_In; exact Eseg).
    pose proof (read_residual_data_safe v1 mb t' mbx p d seg J5 ltac:(lia) Eseg Hq ltac:(lia) Ed Hd ltac:(lia) Et' Lct Lcl Cct Ccl) as R.
    unfold rrd_post in R.
    destruct R as [R | (blocks & nz & d' & tc' & lc' & R & Hd' & A1 & A2 & A3 & A4 & Hbl)]; rewrite R; cbn [bind]; [left; eexists; reflexivity|].
    right. eexists _, _, _. split; [reflexivity|].
    split; [apply inv_rst; try assumption; lia|].
    split; [eapply same_hdr_trans; [exact Hsame | apply same_hdr_rst]|].
    unfold mbout_ok, mb_set_non_zero_coeffs. cbn [fst snd mb_segmentid].
    split; [|split; [exact Hsid | exact Hbl]].
    destruct Hshape as ((A & B) & C & D). unfold rec_shape, bshape. cbn [mb_bpred mb_luma_mode mb_chroma_mode]. split; [split; assumption | split; assumption].
Qed.

(* ---- the loops ---- *)
Lemma parse_mb_row_safe n : forall mbx v p acc, vp8_inv v -> 0 <= mbx -> mbx + Z.of_nat n = v_mbwidth v -> 0 <= p < v_num_partitions v ->
  Forall mbout_ok acc ->
  (exists e, parse_mb_row n mbx v p acc = Err e) \/
  exists acc' v', parse_mb_row n mbx v p acc = Ok (acc', v') /\ vp8_inv v' /\ same_hdr v v' /\ Forall mbout_ok acc' /\
                  length acc' = (length acc + n)%nat.
Proof.
  induction n as [|n IH]; intros mbx v p acc Hinv Hmbx Hw Hp Hacc; cbn [parse_mb_row].
  - right. exists acc, v. split; [reflexivity|]. split; [exact Hinv|]. split; [apply same_hdr_refl|]. split; [exact Hacc | lia].
  - destruct (parse_macroblock_safe v mbx p Hinv ltac:(lia) Hp) as [(e & E) | (mb & blocks & v1 & E & Hinv1 & Hsame & Hout)];
      rewrite E; cbn [bind]; [left; eexists; reflexivity|].
    destruct (same_hdr_fields _ _ Hsame) as (Enp & Emw & _).
    destruct (IH (mbx + 1) v1 p ((mb, blocks) :: acc) Hinv1 ltac:(lia) ltac:(lia) ltac:(lia) ltac:(constructor; assumption))
      as [(e & E2) | (acc' & v' & E2 & Hinv' & Hsame' & Hacc' & Hlen)]; rewrite E2; [left; eexists; reflexivity|].
    right. exists acc', v'. split; [reflexivity|]. split; [exact Hinv'|]. split; [eapply same_hdr_trans; eassumption|].
    split; [exact Hacc'|]. cbn [length] in Hlen. lia.
Qed.

Lemma parse_mb_rows_safe n : forall mby v acc, vp8_inv v -> 0 <= mby -> 0 <= v_mbwidth v -> Forall mbout_ok acc ->
  (exists e, parse_mb_rows n mby v acc = Err e) \/
  exists acc' v', parse_mb_rows n mby v acc = Ok (acc', v') /\ vp8_inv v' /\ same_hdr v v' /\ Forall mbout_ok acc' /\
                  length acc' = (length acc + n * Z.to_nat (v_mbwidth v))%nat.
Proof.
  induction n as [|n IH]; intros mby v acc Hinv Hmby Hw Hacc; cbn [parse_mb_rows].
  - right. exists acc, v. split; [reflexivity|]. split; [exact Hinv|]. split; [apply same_hdr_refl|]. split; [exact Hacc | lia].
  - pose proof (inv_np v Hinv) as Hnp.
    unfold usize_rem. destruct (Z.eqb_spec (v_num_partitions v) 0) as [E0 | _]; [lia|]. cbn [bind].
    assert (Hp : 0 <= mby mod v_num_partitions v < v_num_partitions v) by (apply Z.mod_pos_bound; lia).
    set (v0 := set_left v MacroBlock_default).
    assert (Hinv0 : vp8_inv v0) by (apply inv_set_left; [exact Hinv | exact default_top_ok]).
    assert (Hs0 : same_hdr v v0) by apply same_hdr_set_left.
    destruct (same_hdr_fields _ _ Hs0) as (Enp0 & Emw0 & _).
    destruct (parse_mb_row_safe (Z.to_nat (v_mbwidth v0)) 0 v0 (mby mod v_num_partitions v) acc Hinv0 ltac:(lia) ltac:(lia) ltac:(lia) Hacc)
      as [(e & E) | (acc1 & v1 & E & Hinv1 & Hsame1 & Hacc1 & Hlen1)]; rewrite E; cbn [bind]; [left; eexists; reflexivity|].
    destruct (same_hdr_fields _ _ Hsame1) as (Enp1 & Emw1 & _).
    destruct (IH (mby + 1) v1 acc1 Hinv1 ltac:(lia) ltac:(lia) Hacc1) as [(e & E2) | (acc' & v' & E2 & Hinv' & Hsame' & Hacc' & Hlen')];
      rewrite E2; [left; eexists; reflexivity|].
    right. exists acc', v'. split; [reflexivity|]. split; [exact Hinv'|].
    split; [eapply same_hdr_trans; [exact Hs0 | eapply same_hdr_trans; eassumption]|]. split; [exact Hacc'|].
    rewrite Hlen', Hlen1, Emw1, Emw0. lia.
Qed.

Lemma Forall_rev_append {A} (Q : A -> Prop) (a b : list A) : Forall Q a -> Forall Q b -> Forall Q (rev_append a b).
Proof. rewrite rev_append_rev. intros Ha Hb. apply Forall_app. split; [apply Forall_rev; exact Ha | exact Hb]. Qed.

Theorem parse_frame_loop_safe v : vp8_inv v -> 0 <= v_mbwidth v ->
  (exists e, parse_frame_loop v = Err e) \/
  exists recs v', parse_frame_loop v = Ok (recs, v') /\ same_hdr v v' /\ Forall mbout_ok recs /\
                  length recs = (Z.to_nat (v_mbheight v) * Z.to_nat (v_mbwidth v))%nat.
Proof.
  intros Hinv Hw. unfold parse_frame_loop.
  destruct (parse_mb_rows_safe (Z.to_nat (v_mbheight v)) 0 v [] Hinv ltac:(lia) Hw ltac:(constructor))
    as [(e & E) | (acc & v' & E & _ & Hsame & Hacc & Hlen)]; rewrite E; cbn [bind]; [left; eexists; reflexivity|].
  right. exists (rev_append acc []), v'. split; [reflexivity|]. split; [exact Hsame|].
  split; [apply Forall_rev_append; [exact Hacc | constructor]|]. rewrite rev_append_rev, app_nil_r, rev_length. exact Hlen.
Qed.
