(* C01 / C03, inverse transforms, (d): colour indexing.
   Model.LosslessTransform.apply_color_indexing_transform (lossless_transform.rs) refines Spec.VP8L.inverse_color_indexing
   (section 4.4) for every table size 1..256:
     - more than 16 colours: one index per pixel, looked up in place;
     - at most 16 colours: 8 / 4 / 2 pixels per index byte, a 256-entry table of pre-expanded pixel runs, rows and index
       bytes processed in REVERSE order so that the expansion can be done in place (the packed image sits at the start
       of the buffer of the full-size image);
     - an index not below the table size decodes to transparent black 0x00000000;
   and never panics (every slice, index and usize subtraction in range). *)
From Coq Require Import ZArith NArith List Bool Lia.
From WebP Require Import Lib.Res Lib.Arr Lib.ZBits Gen.Kernels Model.LosslessLib Model.LosslessTransform
  Proofs.Lossless_HuffmanSafe Proofs.Lossless_CopyWithin Proofs.C01T_repr Proofs.C01T_color.
From WebP Require Spec.VP8L Proofs.C04_arr.
Import ListNotations.
Open Scope Z_scope.

Ltac Zify.zify_post_hook ::= Z.div_mod_to_equations.

(* ------------------------------------------------------------------------------------------------ *)
(** * lists of equally long lists *)
Lemma concat_uniform_length {A} (l : list (list A)) m : (forall x, In x l -> length x = m) ->
  length (concat l) = (length l * m)%nat.
Proof.
  induction l as [|a l IH]; intros Hm; [reflexivity|]. cbn [concat length]. rewrite app_length, IH, (Hm a).
  - lia.
  - left. reflexivity.
  - intros x Hx. apply Hm. right. exact Hx.
Qed.

Lemma nth_concat_uniform {A} (l : list (list A)) m d : (forall x, In x l -> length x = m) ->
  forall k r, (k < length l)%nat -> (r < m)%nat -> nth (k * m + r) (concat l) d = nth r (nth k l []) d.
Proof.
  induction l as [|a l IH]; intros Hm k r Hk Hr; [cbn [length] in Hk; lia|].
  assert (Ha : length a = m) by (apply Hm; left; reflexivity).
  cbn [concat]. destruct k as [|k].
  - cbn [nth Nat.mul Nat.add]. rewrite app_nth1 by lia. reflexivity.
  - cbn [nth]. rewrite app_nth2 by (rewrite Ha; lia). rewrite Ha.
    replace (S k * m + r - m)%nat with (k * m + r)%nat by lia.
    apply IH; [|cbn [length] in Hk; lia | exact Hr]. intros x Hx. apply Hm. right. exact Hx.
Qed.

Lemma az_of_list L k : 0 <= k -> az (of_list L) k = nth (Z.to_nat k) L 0.
Proof. intros Hk. unfold az. rewrite C04_arr.araw_of_list. f_equal. lia. Qed.

Lemma zlen_of_list L : zlen (of_list L) = Z.of_nat (length L).
Proof. unfold zlen, of_list. cbn [alen]. lia. Qed.

Lemma nth_cl c p : 0 <= c < 4 -> nth (Z.to_nat c) (cl p) 0 = chan c p.
Proof.
  intros Hc. assert (C : c = 0 \/ c = 1 \/ c = 2 \/ c = 3) by lia.
  destruct C as [-> | [-> | [-> | ->]]]; reflexivity.
Qed.

Lemma cl_zero : cl 0 = [0; 0; 0; 0].
Proof. reflexivity. Qed.

Lemma q4_zero : q4 0 = (0, 0, 0, 0).
Proof. reflexivity. Qed.

(* ------------------------------------------------------------------------------------------------ *)
(** * the expanded table *)
Section Table.
  Variables (tdata table : arr) (ts bpe mask per : Z).
  Hypothesis Htab : repr tdata table ts.
  Hypothesis Hmask : 0 <= mask.
  Hypothesis Hper : 0 <= per.

  (* the colour of sub-pixel j of index byte i (Spec: index beyond the table = transparent black) *)
  Definition ecolor (i j : Z) : Z :=
    let k := Z.land (Z.shiftr i (j * bpe)) mask in if k <? ts then V.pix table k else 0.

  Lemma ecolor_range i j : 0 <= ecolor i j < 2 ^ 32.
  Proof.
    unfold ecolor. cbv zeta. destruct (Z.ltb_spec (Z.land (Z.shiftr i (j * bpe)) mask) ts) as [H|H]; [|cbn; lia].
    apply (repr_range _ _ _ _ Htab). split; [|exact H]. apply Z.land_nonneg. right. exact Hmask.
  Qed.

  Lemma index_entry_spec i : forall n j acc,
    index_entry n j i bpe mask ts tdata acc = Ok (acc ++ concat (map (fun jj => cl (ecolor i (j + Z.of_nat jj))) (seq 0 n))).
  Proof.
    induction n as [|n IH]; intros j acc; cbn [index_entry].
    - cbn [seq map concat]. rewrite app_nil_r. reflexivity.
    - assert (E : (if Z.land (Z.shiftr i (j * bpe)) mask <? ts then zslice tdata (Z.land (Z.shiftr i (j * bpe)) mask * 4) 4 else Ok [0; 0; 0; 0])
                  = Ok (cl (ecolor i j))).
      { unfold ecolor. cbv zeta. destruct (Z.ltb_spec (Z.land (Z.shiftr i (j * bpe)) mask) ts) as [H|H]; [|reflexivity].
        apply (zslice_cell _ _ _ _ Htab). split; [|exact H]. apply Z.land_nonneg. right. exact Hmask. }
      rewrite E. cbn [bind]. rewrite IH. f_equal. rewrite <- app_assoc. f_equal.
      cbn [seq map concat]. rewrite Z.add_0_r. f_equal. rewrite <- seq_shift, map_map. f_equal.
      apply map_ext. intros jj. do 2 f_equal. lia.
  Qed.

  Definition entry (i : Z) : list Z := concat (map (fun jj => cl (ecolor i (Z.of_nat jj))) (seq 0 (Z.to_nat per))).

  Lemma index_table_spec : forall n i acc,
    index_table n i per bpe mask ts tdata acc = Ok (rev acc ++ map (fun k => entry (i + Z.of_nat k)) (seq 0 n)).
  Proof.
    induction n as [|n IH]; intros i acc; cbn [index_table].
    - cbn [seq map]. rewrite app_nil_r. reflexivity.
    - rewrite index_entry_spec. cbn [bind app]. rewrite IH. f_equal. cbn [rev]. rewrite <- app_assoc. f_equal.
      assert (Ht : map (fun k => entry (i + Z.of_nat k)) (seq 1 n) = map (fun k => entry (i + 1 + Z.of_nat k)) (seq 0 n)).
      { rewrite <- seq_shift, map_map. apply map_ext. intros k. f_equal. lia. }
      cbn [seq map app]. rewrite Ht, Z.add_0_r. reflexivity.
  Qed.

  Lemma entry_length i : length (entry i) = (Z.to_nat per * 4)%nat.
  Proof.
    unfold entry. rewrite (concat_uniform_length _ 4%nat).
    - rewrite map_length, seq_length. reflexivity.
    - intros x Hx. apply in_map_iff in Hx. destruct Hx as (jj & <- & _). reflexivity.
  Qed.

  Lemma entry_nth i jj c : 0 <= jj < per -> 0 <= c < 4 -> nth (Z.to_nat (4 * jj + c)) (entry i) 0 = chan c (ecolor i jj).
  Proof.
    intros Hj Hc. unfold entry. replace (Z.to_nat (4 * jj + c)) with (Z.to_nat jj * 4 + Z.to_nat c)%nat by lia.
    rewrite (nth_concat_uniform _ 4%nat).
    - rewrite nth_map_seq by lia. rewrite Z2Nat.id by lia. apply nth_cl. exact Hc.
    - intros x Hx. apply in_map_iff in Hx. destruct Hx as (j' & <- & _). reflexivity.
    - rewrite map_length, seq_length. lia.
    - lia.
  Qed.

  Definition xtable : arr := of_list (concat (map (fun k => entry (0 + Z.of_nat k)) (seq 0 256))).

  Lemma xtable_len : zlen xtable = 256 * (4 * per).
  Proof.
    unfold xtable. rewrite zlen_of_list. rewrite (concat_uniform_length _ (Z.to_nat per * 4)%nat).
    - rewrite map_length, seq_length. lia.
    - intros x Hx. apply in_map_iff in Hx. destruct Hx as (k & <- & _). apply entry_length.
  Qed.

  Lemma xtable_az i jj c : 0 <= i < 256 -> 0 <= jj < per -> 0 <= c < 4 ->
    az xtable (i * (4 * per) + 4 * jj + c) = chan c (ecolor i jj).
  Proof.
    intros Hi Hj Hc. unfold xtable. rewrite az_of_list by nia.
    replace (Z.to_nat (i * (4 * per) + 4 * jj + c)) with (Z.to_nat i * (Z.to_nat per * 4) + Z.to_nat (4 * jj + c))%nat by nia.
    rewrite (nth_concat_uniform _ (Z.to_nat per * 4)%nat).
    - rewrite (nth_map_seq (fun k => entry (0 + Z.of_nat k))) by lia. replace (0 + Z.of_nat (Z.to_nat i)) with i by lia.
      apply entry_nth; assumption.
    - intros x Hx. apply in_map_iff in Hx. destruct Hx as (k & <- & _). apply entry_length.
    - rewrite map_length, seq_length. lia.
    - lia.
  Qed.
End Table.

(* ------------------------------------------------------------------------------------------------ *)
(** * the specification side, with the width bits as a parameter *)
Definition ici_wb (width_bits width height color_table_size : Z) (color_table img : arr) : arr :=
  let packed_width := V.DIV_ROUND_UP width (2 ^ width_bits) in
  let bits_per_pixel := Z.shiftr 8 width_bits in
  V.for_range height (fun y => V.for_range width (fun x out =>
    let packed := V.GREEN (V.pix img (y * packed_width + Z.shiftr x width_bits)) in
    let index := Z.land (Z.shiftr packed ((x mod 2 ^ width_bits) * bits_per_pixel)) (2 ^ bits_per_pixel - 1) in
    let color := if index <? color_table_size then V.pix color_table index else 0 in
    V.set_pix out (y * width + x) color)) (amake (Z.to_N (width * height))).

Lemma ici_unfold w h ts table img : V.inverse_color_indexing w h ts table img = ici_wb (V.width_bits_of ts) w h ts table img.
Proof. reflexivity. Qed.

Lemma ici_wb_spec wb w h ts table img : 0 < w -> 0 <= h ->
  let out := ici_wb wb w h ts table img in
  Z.of_N (alen out) = w * h /\
  forall x y, 0 <= x < w -> 0 <= y < h ->
    V.pix out (y * w + x) =
    ecolor table ts (Z.shiftr 8 wb) (2 ^ Z.shiftr 8 wb - 1) (V.GREEN (V.pix img (y * V.DIV_ROUND_UP w (2 ^ wb) + Z.shiftr x wb))) (x mod 2 ^ wb).
Proof.
  intros Hw Hh.
  pose proof (scan2d_spec w h (fun x y _ _ =>
     ecolor table ts (Z.shiftr 8 wb) (2 ^ Z.shiftr 8 wb - 1) (V.GREEN (V.pix img (y * V.DIV_ROUND_UP w (2 ^ wb) + Z.shiftr x wb))) (x mod 2 ^ wb))
     (amake (Z.to_N (w * h))) Hw Hh) as H.
  cbv beta zeta in H. destruct H as (Ha & Hp & _); [reflexivity|]. split.
  - unfold ici_wb. cbv zeta. unfold ecolor in Ha. cbv zeta in Ha. rewrite Ha. cbn [alen amake]. nia.
  - exact Hp.
Qed.

(* ------------------------------------------------------------------------------------------------ *)
(** * at most 16 colours: pixel bundling, reverse in-place expansion *)
Section Small.
  Variables (bytes px tdata table : arr) (w h wb ts : Z).
  Hypothesis Hw : 1 <= w.
  Hypothesis Hh : 0 <= h.
  Hypothesis Hwb : 0 <= wb <= 3.
  Let per := 2 ^ wb.
  Let iw := V.DIV_ROUND_UP w per.
  Hypothesis Hrepr : repr bytes px (iw * h).
  Hypothesis Hlen : zlen bytes = 4 * (w * h).
  Hypothesis Htab : repr tdata table ts.

  Let bpe := Z.shiftr 8 wb.
  Let mask := 2 ^ bpe - 1.
  Let out := ici_wb wb w h ts table px.
  Let xt := xtable table ts bpe mask per.

  Lemma per_range : 1 <= per <= 8.
  Proof. unfold per. split; [apply (Z.pow_le_mono_r 2 0 wb); lia | apply (Z.pow_le_mono_r 2 wb 3); lia]. Qed.

  Lemma mask_nonneg : 0 <= mask.
  Proof. unfold mask. assert (0 < 2 ^ bpe); [|lia]. apply Z.pow_pos_nonneg; [lia|]. unfold bpe. apply Z.shiftr_nonneg. lia. Qed.

  Lemma iw_facts : (iw - 1) * per < w <= iw * per /\ 1 <= iw <= w.
  Proof.
    pose proof per_range as Hp.
    destruct (div_round_up_bounds w per ltac:(lia) ltac:(lia)) as [H1 | [H1 _]]; [|lia].
    pose proof (div_round_up_ge w per ltac:(lia) ltac:(lia)) as H2. fold iw in H1, H2. split; [lia|]. split; nia.
  Qed.

  (* rows >= y expanded, packed rows < y still intact; inside row y: index bytes < x intact, pixels from x*per on expanded *)
  Definition iinv (y x : Z) (cur : arr) : Prop :=
    zlen cur = zlen bytes /\
    (forall j, 0 <= j < y * iw + x -> cell cur j = q4 (V.pix px j)) /\
    (forall j, y * w + Z.min (x * per) w <= j < w * h -> cell cur j = q4 (V.pix out j)).

  Lemma out_pix x y jj : 0 <= y < h -> 0 <= x < iw -> 0 <= jj < per -> x * per + jj < w ->
    V.pix out (y * w + (x * per + jj)) = ecolor table ts bpe mask (V.GREEN (V.pix px (y * iw + x))) jj.
  Proof.
    intros Hy Hx Hj Hlt. pose proof per_range as Hp.
    destruct (ici_wb_spec wb w h ts table px ltac:(lia) Hh) as (_ & Hpx). fold out in Hpx.
    rewrite (Hpx (x * per + jj) y ltac:(nia) Hy). fold per. fold iw. fold bpe. fold mask.
    rewrite Z.shiftr_div_pow2 by lia. fold per.
    replace ((x * per + jj) / per) with x by (apply (Z.div_unique _ _ _ jj); lia).
    replace ((x * per + jj) mod per) with jj by (apply (Z.mod_unique _ _ x); lia).
    reflexivity.
  Qed.

  Lemma iinv_step y x cur : 0 <= y < h -> 0 <= x < iw -> iinv y (x + 1) cur ->
    let n := if x =? iw - 1 then w * 4 - 4 * per * (iw - 1) else 4 * per in
    exists cur',
      bind (zget cur (y * iw * 4 + x * 4 + 1)) (fun table_index =>
        if 4 * per <? n then Panic PSlice else
        bind (zslice xt (table_index * (4 * per)) n) (fun src =>
        if zlen cur <? y * w * 4 + x * (4 * per) then Panic PSlice else zwrite cur (y * w * 4 + x * (4 * per)) src)) = Ok cur'
      /\ iinv y x cur'.
  Proof.
    intros Hy Hx (Hl & Hin & Hout). pose proof per_range as Hp. destruct iw_facts as (F1 & F2). cbv zeta.
    set (cnt := Z.min ((x + 1) * per) w - x * per).
    assert (Hcnt : 1 <= cnt <= per) by (unfold cnt; nia).
    assert (En : (if x =? iw - 1 then w * 4 - 4 * per * (iw - 1) else 4 * per) = 4 * cnt).
    { unfold cnt. destruct (Z.eqb_spec x (iw - 1)) as [->|Hne]; [|nia]. replace (iw - 1 + 1) with iw by lia. lia. }
    rewrite En.
    assert (Hih : iw * h <= w * h) by nia.
    assert (Hjin : 0 <= y * iw + x < iw * h) by (split; [nia|]; assert (y * iw + x < (y + 1) * iw) by lia; nia).
    assert (Hlow : y * iw + x <= y * w + x * per) by nia.
    assert (Hhigh : y * w + x * per + cnt <= w * h).
    { unfold cnt. assert (y * w + w <= h * w) by nia. lia. }
    replace (y * iw * 4 + x * 4 + 1) with (4 * (y * iw + x) + 1) by lia.
    rewrite zget_ok by lia. cbn [bind].
    pose proof (Hin (y * iw + x) ltac:(lia)) as Hc. apply pair4_inj in Hc. destruct Hc as (_ & Hg & _ & _). rewrite Hg.
    set (ti := V.GREEN (V.pix px (y * iw + x))). pose proof (GREEN_byte (V.pix px (y * iw + x))) as Hti. fold ti in Hti. unfold byte in Hti.
    replace (4 * per <? 4 * cnt) with false by (symmetry; apply Z.ltb_ge; lia).
    pose proof (xtable_len table ts bpe mask per ltac:(lia)) as Hxl. fold xt in Hxl.
    rewrite zslice_ok by nia. cbn [bind].
    replace (y * w * 4 + x * (4 * per)) with (4 * (y * w + x * per)) by lia.
    replace (zlen cur <? 4 * (y * w + x * per)) with false by (symmetry; apply Z.ltb_ge; lia).
    set (src := map (fun k => az xt (ti * (4 * per) + Z.of_nat k)) (seq 0 (Z.to_nat (4 * cnt)))).
    assert (Hsl : Z.of_nat (length src) = 4 * cnt) by (unfold src; rewrite map_length, seq_length; lia).
    destruct (zwrite_ok cur (4 * (y * w + x * per)) src ltac:(nia) ltac:(lia)) as (c1 & E1 & L1 & Z1).
    exists c1. split; [exact E1|]. rewrite Hsl in Z1.
    split; [lia|]. split.
    - intros j Hj. unfold cell. rewrite !Z1 by lia.
      replace (4 * (y * w + x * per) <=? 4 * j) with false by (symmetry; apply Z.leb_gt; lia).
      replace (4 * (y * w + x * per) <=? 4 * j + 1) with false by (symmetry; apply Z.leb_gt; lia).
      replace (4 * (y * w + x * per) <=? 4 * j + 2) with false by (symmetry; apply Z.leb_gt; lia).
      replace (4 * (y * w + x * per) <=? 4 * j + 3) with false by (symmetry; apply Z.leb_gt; lia).
      cbn [andb]. apply (Hin j). lia.
    - intros j Hj. replace (Z.min (x * per) w) with (x * per) in Hj by nia.
      destruct (Z_lt_ge_dec j (y * w + x * per + cnt)) as [Hlt|Hge].
      + set (jj := j - (y * w + x * per)). assert (Hjj : 0 <= jj < cnt) by (unfold jj; lia).
        replace j with (y * w + (x * per + jj)) by (unfold jj; lia).
        rewrite out_pix by (try assumption; unfold cnt in *; lia).
        apply cell_chan. intros c Hc. rewrite Z1 by nia.
        replace ((4 * (y * w + x * per) <=? 4 * (y * w + (x * per + jj)) + c) &&
                 (4 * (y * w + (x * per + jj)) + c <? 4 * (y * w + x * per) + 4 * cnt)) with true
          by (symmetry; apply andb_true_iff; split; [apply Z.leb_le | apply Z.ltb_lt]; lia).
        replace (4 * (y * w + (x * per + jj)) + c - 4 * (y * w + x * per)) with (4 * jj + c) by lia.
        unfold src. rewrite nth_map_seq by lia. rewrite Z2Nat.id by lia.
        replace (ti * (4 * per) + (4 * jj + c)) with (ti * (4 * per) + 4 * jj + c) by lia.
        unfold xt. apply xtable_az; lia.
      + unfold cell. rewrite !Z1 by lia.
        replace (4 * j <? 4 * (y * w + x * per) + 4 * cnt) with false by (symmetry; apply Z.ltb_ge; lia).
        replace (4 * j + 1 <? 4 * (y * w + x * per) + 4 * cnt) with false by (symmetry; apply Z.ltb_ge; lia).
        replace (4 * j + 2 <? 4 * (y * w + x * per) + 4 * cnt) with false by (symmetry; apply Z.ltb_ge; lia).
        replace (4 * j + 3 <? 4 * (y * w + x * per) + 4 * cnt) with false by (symmetry; apply Z.ltb_ge; lia).
        rewrite !andb_false_r. apply (Hout j). unfold cnt in Hge. lia.
  Qed.

  Lemma small_loops :
    exists bytes',
      for_range_rev 0 h (fun y img => for_range_rev 0 iw (fun x img0 =>
        bind (zget img0 (y * iw * 4 + x * 4 + 1)) (fun table_index =>
          if 4 * per <? (if x =? iw - 1 then w * 4 - 4 * per * (iw - 1) else 4 * per) then Panic PSlice else
          bind (zslice xt (table_index * (4 * per)) (if x =? iw - 1 then w * 4 - 4 * per * (iw - 1) else 4 * per)) (fun src =>
          if zlen img0 <? y * w * 4 + x * (4 * per) then Panic PSlice else zwrite img0 (y * w * 4 + x * (4 * per)) src))) img) bytes
      = Ok bytes' /\ zlen bytes' = zlen bytes /\ repr bytes' out (w * h).
  Proof.
    pose proof per_range as Hp. destruct iw_facts as (F1 & F2).
    match goal with |- exists b, for_range_rev 0 h ?F bytes = _ /\ _ =>
      destruct (for_range_rev_inv (fun y cur => iinv y 0 cur) F 0 h bytes Hh) as (b' & E & Hb') end.
    - split; [reflexivity|]. split.
      + intros j Hj. apply (repr_cell _ _ _ _ Hrepr). nia.
      + intros j Hj. exfalso. nia.
    - intros y cur Hy (Hl & Hin & Hout).
      match goal with |- exists s1, for_range_rev 0 iw ?G cur = _ /\ _ =>
        destruct (for_range_rev_inv (fun x c => iinv y x c) G 0 iw cur ltac:(lia)) as (c' & E' & Hc') end.
      + split; [exact Hl|]. split.
        * intros j Hj. apply Hin. lia.
        * intros j Hj. apply Hout. replace (Z.min (iw * per) w) with w in Hj by lia. replace (Z.min (0 * per) w) with 0 by lia. lia.
      + intros x c0 Hx Hc0. apply (iinv_step y x c0 Hy Hx Hc0).
      + exists c'. split; [exact E'|]. exact Hc'.
    - exists b'. split; [exact E|]. destruct Hb' as (Hl & _ & Hout). split; [exact Hl|].
      destruct (ici_wb_spec wb w h ts table px ltac:(lia) Hh) as (Ha & Hpx). fold out in Ha, Hpx.
      apply repr_intro; [lia | exact Ha |]. intros i Hi. split.
      + apply Hout. replace (Z.min (0 * per) w) with 0 by lia. lia.
      + destruct (idx_decomp w h i ltac:(lia) Hi) as (x & y & Hx & Hy & ->). rewrite (Hpx x y Hx Hy).
        apply (ecolor_range tdata table ts _ _ Htab). fold bpe. apply mask_nonneg.
  Qed.

  (* the Model's else-branch with width_bits = wb *)
  Lemma small_ok :
    exists bytes',
      (let width_bits := wb in
       let per := Z.shiftl 1 width_bits in
       let bits_per_entry := 8 / per in
       let mask := Z.shiftl 1 bits_per_entry - 1 in
       bind (index_table 256 0 per bits_per_entry mask ts tdata []) (fun tbl =>
       let table := of_list (concat tbl) in
       let entry_size := Z.shiftl 4 width_bits in
       let index_image_width := (w + per - 1) / per in
       bind (usub index_image_width 1) (fun m =>
       bind (usub (w * 4) (entry_size * m)) (fun final_entry_size =>
       for_range_rev 0 h (fun y img =>
         for_range_rev 0 index_image_width (fun x img =>
           let input_index := y * index_image_width * 4 + x * 4 + 1 in
           let output_index := y * w * 4 + x * entry_size in
           bind (zget img input_index) (fun table_index =>
           let n := if x =? index_image_width - 1 then final_entry_size else entry_size in
           if entry_size <? n then Panic PSlice else
           bind (zslice table (table_index * entry_size) n) (fun src =>
           if zlen img <? output_index then Panic PSlice else
           zwrite img output_index src))) img) bytes)))) = Ok bytes'
      /\ zlen bytes' = zlen bytes /\ repr bytes' out (w * h).
  Proof.
    pose proof per_range as Hp. destruct iw_facts as (F1 & F2). cbv zeta.
    rewrite Z.shiftl_1_l. fold per.
    replace (8 / per) with bpe by (unfold bpe, per; rewrite Z.shiftr_div_pow2 by lia; reflexivity).
    rewrite Z.shiftl_1_l. fold mask.
    rewrite (index_table_spec tdata table ts bpe mask per Htab mask_nonneg). cbn [bind rev app].
    fold (xtable table ts bpe mask per). fold xt.
    rewrite Z.shiftl_mul_pow2 by lia. fold per.
    change ((w + per - 1) / per) with iw.
    unfold usub. replace (iw <? 1) with false by (symmetry; apply Z.ltb_ge; lia). cbn [bind].
    replace (w * 4 <? 4 * per * (iw - 1)) with false by (symmetry; apply Z.ltb_ge; nia). cbn [bind].
    apply small_loops.
  Qed.
End Small.

(* ------------------------------------------------------------------------------------------------ *)
(** * more than 16 colours: one index per pixel *)
Section Large.
  Variables (bytes px tdata table : arr) (w h ts : Z).
  Hypothesis Hw : 1 <= w.
  Hypothesis Hh : 0 <= h.
  Hypothesis Hts : 16 < ts <= 256.
  Hypothesis Hrepr : repr bytes px (w * h).
  Hypothesis Hlen : zlen bytes = 4 * (w * h).
  Hypothesis Htab : repr tdata table ts.
  Hypothesis Htlen : zlen tdata = 4 * ts.

  Let out := ici_wb 0 w h ts table px.

  Lemma large_pix i : 0 <= i < w * h ->
    V.pix out i = if V.GREEN (V.pix px i) <? ts then V.pix table (V.GREEN (V.pix px i)) else 0.
  Proof.
    intros Hi. destruct (idx_decomp w h i ltac:(lia) Hi) as (x & y & Hx & Hy & ->).
    destruct (ici_wb_spec 0 w h ts table px ltac:(lia) Hh) as (_ & Hpx). fold out in Hpx. rewrite (Hpx x y Hx Hy).
    unfold ecolor. cbv zeta. change (2 ^ 0) with 1. unfold V.DIV_ROUND_UP. rewrite Z.shiftr_0_r.
    replace ((w + 1 - 1) / 1) with w by (rewrite Z.div_1_r; lia).
    rewrite Z.mod_1_r. change (Z.shiftr 8 0) with 8. rewrite Z.mul_0_l, Z.shiftr_0_r.
    change (2 ^ 8 - 1) with 255. rewrite land255'.
    pose proof (GREEN_byte (V.pix px (y * w + x))) as Hg. rewrite (mod256_small _ Hg). reflexivity.
  Qed.

  Lemma large_ok :
    exists bytes',
      for_loop (Z.to_nat (zlen bytes / 4)) 0 4 (fun pos img =>
        bind (zget img (pos + 1)) (fun g =>
        bind (if g <? Z.min (zlen tdata / 4) 256 then zslice tdata (g * 4) 4 else Ok [0; 0; 0; 0]) (fun px0 =>
        zwrite img pos px0))) bytes = Ok bytes'
      /\ zlen bytes' = zlen bytes /\ repr bytes' out (w * h).
  Proof.
    assert (Hn : 0 <= w * h) by nia.
    replace (zlen bytes / 4) with (w * h) by lia. replace (Z.min (zlen tdata / 4) 256) with ts by lia.
    set (P := fun (i : Z) (cur : arr) => zlen cur = zlen bytes /\
                forall j, 0 <= j < w * h -> cell cur j = q4 (if j <? i then V.pix out j else V.pix px j)).
    match goal with |- exists b, for_loop _ 0 4 ?F bytes = _ /\ _ =>
      destruct (for_loop4_inv P F (Z.to_nat (w * h)) 0 bytes) as (b' & E & Hb') end.
    - split; [reflexivity|]. intros j Hj. replace (j <? 0) with false by (symmetry; apply Z.ltb_ge; lia).
      apply (repr_cell _ _ _ _ Hrepr Hj).
    - intros i cur Hi (Hl & Hc). rewrite Z2Nat.id in Hi by lia.
      rewrite zget_ok by lia. cbn [bind].
      pose proof (Hc i ltac:(lia)) as Hci. replace (i <? i) with false in Hci by (symmetry; apply Z.ltb_ge; lia).
      apply pair4_inj in Hci. destruct Hci as (_ & Hg & _ & _). rewrite Hg.
      set (g := V.GREEN (V.pix px i)). pose proof (GREEN_byte (V.pix px i)) as Bg. fold g in Bg. unfold byte in Bg.
      assert (Es : (if g <? ts then zslice tdata (g * 4) 4 else Ok [0; 0; 0; 0]) = Ok (cl (V.pix out i))).
      { rewrite large_pix by lia. fold g. destruct (Z.ltb_spec g ts); [|reflexivity]. apply (zslice_cell _ _ _ _ Htab). lia. }
      rewrite Es. cbn [bind].
      destruct (zwrite_ok cur (4 * i) (cl (V.pix out i)) ltac:(lia) ltac:(cbn [cl length]; lia)) as (c1 & E1 & L1 & Z1).
      exists c1. split; [exact E1|]. split; [lia|]. cbn [cl length] in Z1. intros j Hj.
      destruct (Z.eq_dec j i) as [->|Hne].
      + replace (i <? i + 1) with true by (symmetry; apply Z.ltb_lt; lia).
        apply cell_chan. intros c Hcc. rewrite Z1 by lia.
        replace ((4 * i <=? 4 * i + c) && (4 * i + c <? 4 * i + Z.of_nat 4)) with true
          by (symmetry; apply andb_true_iff; split; [apply Z.leb_le | apply Z.ltb_lt]; lia).
        replace (4 * i + c - 4 * i) with c by lia. apply nth_cl. exact Hcc.
      + assert (Hu : forall c, 0 <= c < 4 -> az c1 (4 * j + c) = az cur (4 * j + c)).
        { intros c Hcc. rewrite Z1 by lia.
          replace ((4 * i <=? 4 * j + c) && (4 * j + c <? 4 * i + Z.of_nat 4)) with false; [reflexivity|].
          symmetry. apply andb_false_iff. destruct (Z_lt_ge_dec j i); [left; apply Z.leb_gt | right; apply Z.ltb_ge]; lia. }
        unfold cell. rewrite <- (Z.add_0_r (4 * j)) at 1. rewrite !Hu by lia. rewrite Z.add_0_r.
        fold (cell cur j). rewrite (Hc j Hj). f_equal.
        destruct (Z.ltb_spec j i); destruct (Z.ltb_spec j (i + 1)); try reflexivity; lia.
    - exists b'. split; [exact E|]. destruct Hb' as (Hl & Hc). split; [exact Hl|].
      destruct (ici_wb_spec 0 w h ts table px ltac:(lia) Hh) as (Ha & _). fold out in Ha.
      apply repr_intro; [lia | exact Ha |]. intros i Hi. split.
      + rewrite (Hc i Hi). rewrite Z2Nat.id by lia. replace (i <? 0 + w * h) with true by (symmetry; apply Z.ltb_lt; lia). reflexivity.
      + rewrite large_pix by lia. pose proof (GREEN_byte (V.pix px i)) as Bg. unfold byte in Bg.
        destruct (Z.ltb_spec (V.GREEN (V.pix px i)) ts); [apply (repr_range _ _ _ _ Htab); lia | cbn; lia].
  Qed.
End Large.

(* ------------------------------------------------------------------------------------------------ *)
(** * the transform *)
Theorem color_indexing_refines bytes px tdata table w h ts :
  1 <= w -> 0 <= h -> 1 <= ts <= 256 ->
  repr bytes px (V.DIV_ROUND_UP w (2 ^ V.width_bits_of ts) * h) -> zlen bytes = 4 * (w * h) ->
  repr tdata table ts -> zlen tdata = 4 * ts ->
  exists bytes', apply_color_indexing_transform bytes w h ts tdata = Ok bytes' /\ zlen bytes' = zlen bytes /\
                 repr bytes' (V.inverse_color_indexing w h ts table px) (w * h).
Proof.
  intros Hw Hh Hts Hr Hl Ht Htl. rewrite ici_unfold. unfold apply_color_indexing_transform. unfold V.width_bits_of in *.
  destruct (Z.ltb_spec 16 ts) as [H16|H16].
  - replace (ts <=? 2) with false in * by (symmetry; apply Z.leb_gt; lia).
    replace (ts <=? 4) with false in * by (symmetry; apply Z.leb_gt; lia).
    replace (ts <=? 16) with false in * by (symmetry; apply Z.leb_gt; lia).
    change (2 ^ 0) with 1 in Hr. unfold V.DIV_ROUND_UP in Hr. replace ((w + 1 - 1) / 1) with w in Hr by (rewrite Z.div_1_r; lia).
    apply (large_ok bytes px tdata table w h ts); try assumption; lia.
  - destruct (Z.leb_spec ts 2) as [H2|H2]; [|destruct (Z.leb_spec ts 4) as [H4|H4]].
    + apply (small_ok bytes px tdata table w h 3 ts); try assumption; lia.
    + apply (small_ok bytes px tdata table w h 2 ts); try assumption; lia.
    + replace (ts <=? 16) with true in * by (symmetry; apply Z.leb_le; lia).
      apply (small_ok bytes px tdata table w h 1 ts); try assumption; lia.
Qed.

Corollary color_indexing_no_panic bytes px tdata table w h ts :
  1 <= w -> 0 <= h -> 1 <= ts <= 256 ->
  repr bytes px (V.DIV_ROUND_UP w (2 ^ V.width_bits_of ts) * h) -> zlen bytes = 4 * (w * h) ->
  repr tdata table ts -> zlen tdata = 4 * ts ->
  forall p, apply_color_indexing_transform bytes w h ts tdata <> Panic p.
Proof.
  intros Hw Hh Hts Hr Hl Ht Htl p.
  destruct (color_indexing_refines bytes px tdata table w h ts Hw Hh Hts Hr Hl Ht Htl) as (b' & E & _). rewrite E. discriminate.
Qed.

(* satisfiable: 5 x 2 image, 3 colours (4 pixels per index byte, last byte of a row holds one pixel; index 3 is beyond the table) *)
Example color_indexing_example :
  let bytes := of_list ([0; 0xe4; 0; 255; 0; 0x02; 0; 255; 0; 0x1b; 0; 255; 0; 0x01; 0; 255] ++ repeat 9 24) in
  let px := of_list [V.argb 255 0 0xe4 0; V.argb 255 0 2 0; V.argb 255 0 0x1b 0; V.argb 255 0 1 0] in
  let tdata := of_list [1; 2; 3; 4; 5; 6; 7; 8; 9; 10; 11; 12] in
  let table := of_list [V.argb 4 1 2 3; V.argb 8 5 6 7; V.argb 12 9 10 11] in
  match apply_color_indexing_transform bytes 5 2 3 tdata with
  | Ok b' => map q4 (V.pixel_list (V.inverse_color_indexing 5 2 3 table px)) = map (cell b') [0; 1; 2; 3; 4; 5; 6; 7; 8; 9]
             /\ cell b' 3 = (0, 0, 0, 0)
  | _ => False
  end.
Proof. vm_compute. split; reflexivity. Qed.
