(* VP8 whole-frame decoding, part 7: the parameter of Model.ReadImage instantiated.
   With  vp8 := Model.Vp8Decode.decode_frame  the file-level theorems about lossy stills and animations with lossy frames
   (Proofs/ReadImage_lossy.v, ReadImage_wrap.v, ReadImage_anim.v) lose their hypotheses about the frame decoder
   (`vp8 payload = Ok planes`, `planes_ok`): what remains is about the FILE only -- well-formed container, the
   reference decodes the key frame (Spec.VP8.decode payload = Some _), and the four decidable side conditions of
   VP8_decode_main.decode_hyps_b on the key-frame payload. *)
From Coq Require Import ZArith List Bool Lia Arith.
From WebP Require Import Lib.Res Lib.ZBits Spec.Container Spec.YUV Model.Still.
From WebP Require Spec.VP8 Model.Vp8Decode Model.Anim Proofs.Anim_play Proofs.C01_top Proofs.C15_model.
From WebP Require Import Proofs.Container_bytes Proofs.Container_simple Proofs.Container_scan Proofs.Container_extended
  Proofs.ReadImage_base Proofs.ReadImage_container Proofs.ReadImage_lossless
  Proofs.ReadImage_lossy Proofs.ReadImage_stillspec Proofs.ReadImage_wrap Proofs.ReadImage_frame Proofs.ReadImage_anim Proofs.ReadImage_safe.
From WebP Require Import Model.ReadImage.
From WebP Require Import Proofs.VP8_decode_main Proofs.VP8_decode_planes.
Import ListNotations.
Open Scope Z_scope.

Notation vp8dec := Vp8Decode.decode_frame.

(* ---------- a payload taken out of a well-formed file is a byte string of moderate length ---------- *)
Lemma all_bytes_Forall l : all_bytes l = true -> Forall byte l.
Proof.
  unfold all_bytes. intros H. apply Forall_forall. intros x Hx. rewrite forallb_forall in H. specialize (H x Hx).
  unfold is_byte in H. apply andb_true_iff in H. destruct H as [A B]. apply Z.leb_le in A, B. unfold byte. lia.
Qed.

Lemma wf_file_len c : wf c = true -> len (serialize c) <= 4294967294.
Proof.
  intros Hwf. assert (Hfs : file_size c <= 4294967286).
  { unfold wf in Hwf. apply andb_true_iff in Hwf. destruct Hwf as [H _]. apply Z.leb_le in H. exact H. }
  destruct (serialize_layout c) as (_ & _ & _ & L). unfold file_size in Hfs. lia.
Qed.

Lemma still_payload_facts c payload : wf c = true -> anim c = false -> image_vp8 c = Some payload ->
  Forall byte payload /\ C15_model.len payload < 2 ^ 63.
Proof.
  intros Hwf Ha Hp. destruct (new_still_view c Hwf Ha) as (dec & _ & Hv).
  destruct Hv as (Hdata & _ & _ & _ & _ & Hv8 & _). rewrite Hp in Hv8. destruct Hv8 as (s & _ & Hat & Hb).
  split; [exact (all_bytes_Forall _ Hb)|].
  destruct (at_pos_bound _ _ _ Hat) as [Hs Hl]. rewrite Hdata in Hl. pose proof (wf_file_len c Hwf).
  unfold C15_model.len. unfold len in *. lia.
Qed.

(* ---------- the link, in the shape the ReadImage theorems take it ---------- *)
Theorem vp8_link payload w h yp up vp : Forall byte payload -> C15_model.len payload < 2 ^ 63 ->
  VP8.decode payload = Some (w, h, yp, up, vp) -> decode_hyps_b payload = true ->
  vp8dec payload = Ok (w, h, yp, up, vp) /\ planes_ok w h yp up vp.
Proof.
  intros Hb Hl Hd Hy. split; [exact (decode_is_spec payload w h yp up vp Hb Hl Hd Hy) | exact (planes_ok_of_spec payload w h yp up vp Hd)].
Qed.

(* what follows about the frame decoder's safety: on every valid key frame (in the sense of the main theorem) it returns
   Ok with well-formed planes -- the clause of ReadImage_safe.vp8_safe for that payload.  (vp8_safe itself quantifies
   over ALL byte strings: no panic of parsing + reconstruction on arbitrary input is property C03, not shown here.) *)
Theorem vp8dec_safe_on_valid payload w h yp up vp : Forall byte payload -> C15_model.len payload < 2 ^ 63 ->
  VP8.decode payload = Some (w, h, yp, up, vp) -> decode_hyps_b payload = true ->
  match vp8dec payload with
  | Ok (w', h', yp', up', vp') => planes_ok w' h' yp' up' vp'
  | Err _ => True
  | Panic _ | OutOfFuel => False
  end.
Proof. intros Hb Hl Hd Hy. destruct (vp8_link payload w h yp up vp Hb Hl Hd Hy) as [-> Hp]. exact Hp. Qed.

(* ---------- lossy stills (C05 / C11) ---------- *)
Theorem read_image_lossy_closed c payload w h yp up vp px :
  wf c = true -> anim c = false -> image_vp8 c = Some payload -> dims c = (w, h) ->
  VP8.decode payload = Some (w, h, yp, up, vp) -> decode_hyps_b payload = true ->
  lossy_pixels c w h yp up vp = Some px -> alph_ok_for c w h ->
  exists dec, M.new (serialize c) = Ok dec /\
    (forall buf, len buf = buffer_size c -> read_image vp8dec dec buf = (Ok tt, Some px)) /\
    (forall buf, len buf <> buffer_size c -> read_image vp8dec dec buf = (Err EImageTooLarge, Some buf)).
Proof.
  intros Hwf Ha Hp Hd Hdec Hy Hpx Hfmt.
  destruct (still_payload_facts c payload Hwf Ha Hp) as [Hb Hl].
  destruct (vp8_link payload w h yp up vp Hb Hl Hdec Hy) as [Hlink Hpl].
  exact (read_image_lossy vp8dec c payload w h yp up vp px Hwf Ha Hp Hd Hlink Hpl Hpx Hfmt).
Qed.

(* the file-level statement of C05 for lossy stills: whatever Spec.Still.decode_still says about the file is what the
   decoder reports and what read_image leaves in the buffer *)
Theorem read_image_equals_still_spec_closed c payload w h yp up vp w' h' a px :
  wf c = true -> anim c = false -> image_vp8 c = Some payload -> dims c = (w, h) ->
  VP8.decode payload = Some (w, h, yp, up, vp) -> decode_hyps_b payload = true ->
  alph_ok_for c w h ->
  SS.decode_still (serialize c) = Some (w', h', a, px) ->
  (w', h', a) = (w, h, alpha c) /\
  exists dec, M.new (serialize c) = Ok dec /\ M.dimensions dec = (w', h') /\ M.has_alpha dec = a /\
    (forall buf, len buf = buffer_size c -> read_image vp8dec dec buf = (Ok tt, Some px)) /\
    (forall buf, len buf <> buffer_size c -> read_image vp8dec dec buf = (Err EImageTooLarge, Some buf)).
Proof.
  intros Hwf Ha Hp Hd Hdec Hy Hfmt Hspec.
  destruct (still_payload_facts c payload Hwf Ha Hp) as [Hb Hl].
  destruct (vp8_link payload w h yp up vp Hb Hl Hdec Hy) as [Hlink Hpl].
  exact (read_image_equals_still_spec vp8dec c payload w h yp up vp w' h' a px Hwf Ha Hp Hd Hdec Hlink Hpl Hfmt Hspec).
Qed.

(* every container around the same key frame shows the same colours *)
Theorem lossy_wrappings_agree_closed payload w h yp up vp :
  VP8.decode payload = Some (w, h, yp, up, vp) -> decode_hyps_b payload = true ->
  forall c px, wf c = true -> anim c = false -> image_vp8 c = Some payload -> dims c = (w, h) ->
  lossy_pixels c w h yp up vp = Some px -> alph_ok_for c w h ->
  (if alpha c then drop_alpha px else px) = rgb_plane (Z.to_nat w) (Z.to_nat h) yp up vp /\
  exists dec, M.new (serialize c) = Ok dec /\
    forall buf, len buf = buffer_size c -> read_image vp8dec dec buf = (Ok tt, Some px).
Proof.
  intros Hdec Hy c px Hwf Ha Hp Hd Hpx Hfmt.
  destruct (still_payload_facts c payload Hwf Ha Hp) as [Hb Hl].
  destruct (vp8_link payload w h yp up vp Hb Hl Hdec Hy) as [Hlink Hpl].
  exact (lossy_wrappings_agree vp8dec payload w h yp up vp Hlink Hpl c px Hwf Ha Hp Hd Hpx Hfmt).
Qed.

(* ---------- animations with lossy frames (C06) ---------- *)
(* the per-frame hypothesis of ReadImage_anim.frame_decodes with the frame decoder replaced by the reference:
   a lossy frame is one whose 'VP8 ' payload the reference decodes, under the side conditions *)
Definition frame_decodes_spec (W H : Z) (f : frame) (m : Anim.mframe) : Prop :=
  let fw := f_w1 f + 1 in let fh := f_h1 f + 1 in
  fw <= 16384 /\ fh <= 16384 /\ 2 * f_x f + fw <= W /\ 2 * f_y f + fh <= H /\ 32 <= len (frame_payload f) /\
  match f_image f with
  | FLossless l =>
      exists pixels, V.decode_rgba (vp8l_bytes l) = Some (fw, fh, pixels) /\ C01_top.codes_in_format (vp8l_bytes l) /\
        (forall s0, V.read_header (V.Stream [] (vp8l_bytes l)) = Some (fw, fh, s0) -> C01_top.in_format fw fh s0) /\
        m = mframe_of f true pixels
  | FLossy None v =>
      exists yp up vp, VP8.decode (vp8_bytes v) = Some (fw, fh, yp, up, vp) /\ decode_hyps_b (vp8_bytes v) = true /\
        m = mframe_of f false (rgb_plane (Z.to_nat fw) (Z.to_nat fh) yp up vp)
  | FLossy (Some a) v =>
      exists yp up vp al, VP8.decode (vp8_bytes v) = Some (fw, fh, yp, up, vp) /\ decode_hyps_b (vp8_bytes v) = true /\
        SS.alpha_plane fw fh (alph_bytes a) = Some al /\ alph_in_format fw fh (alph_bytes a) /\
        m = mframe_of f true (SS.weave (rgb_plane (Z.to_nat fw) (Z.to_nat fh) yp up vp) al)
  end.

Lemma len_ser_chunk_ge cc p : len cc = 4 -> len p <= len (ser_chunk cc p).
Proof. intros H. rewrite (len_ser_chunk4 cc p H). pose proof (rounded_bounds (len p) (len_nonneg p)). lia. Qed.

Lemma frame_vp8_len f a v : f_image f = FLossy a v -> len (vp8_bytes v) <= len (frame_payload f).
Proof.
  intros E. unfold frame_payload. rewrite E. rewrite !len_app.
  assert (H : len (vp8_bytes v) <= len (image_bytes (FLossy a v))).
  { destruct a as [al|]; cbn [image_bytes]; [rewrite len_app|]; pose proof (len_ser_chunk_ge cc_VP8 (vp8_bytes v) eq_refl); [pose proof (len_nonneg (ser_chunk cc_ALPH (alph_bytes al)))|]; lia. }
  repeat match goal with |- context [len ?x] => lazymatch goal with H : 0 <= len x |- _ => fail | _ => pose proof (len_nonneg x) end end.
  lia.
Qed.

Lemma frame_decodes_closed W H f m : frame_ok f = true -> len (frame_payload f) < 2 ^ 63 ->
  frame_decodes_spec W H f m -> frame_decodes vp8dec W H f m.
Proof.
  intros Hok Hlen (A1 & A2 & A3 & A4 & A5 & Hm). unfold frame_decodes. cbv zeta in *.
  repeat (split; [assumption|]).
  assert (Himg : image_ok (f_image f) = true).
  { unfold frame_ok in Hok. rewrite !andb_true_iff in Hok. destruct Hok as ((_ & Hi) & _). exact Hi. }
  destruct (f_image f) as [[al|] v | l] eqn:Ei; [| |exact Hm].
  - destruct Hm as (yp & up & vp & alp & Hd & Hy & Hal & Hfmt & ->).
    cbn [image_ok] in Himg. apply andb_true_iff in Himg. destruct Himg as [_ Hv].
    pose proof (frame_vp8_len f _ _ Ei) as Hl.
    destruct (vp8_link (vp8_bytes v) _ _ yp up vp (all_bytes_Forall _ (all_bytes_vp8 v Hv)) ltac:(unfold C15_model.len; unfold len in *; lia) Hd Hy) as [Hlink Hpl].
    exists yp, up, vp, alp. split; [exact Hlink|]. split; [exact Hpl|]. split; [exact Hal|]. split; [exact Hfmt | reflexivity].
  - destruct Hm as (yp & up & vp & Hd & Hy & ->). cbn [image_ok] in Himg.
    pose proof (frame_vp8_len f _ _ Ei) as Hl.
    destruct (vp8_link (vp8_bytes v) _ _ yp up vp (all_bytes_Forall _ (all_bytes_vp8 v Himg)) ltac:(unfold C15_model.len; unfold len in *; lia) Hd Hy) as [Hlink Hpl].
    exists yp, up, vp. split; [exact Hlink|]. split; [exact Hpl | reflexivity].
Qed.

(* a frame of a well-formed file is shorter than the file *)
Lemma in_concat_len {A} (g : A -> list Z) (l : list A) x : In x l -> len (g x) <= len (concat (map g l)).
Proof.
  induction l as [|y l IH]; intros H; [destruct H|]. cbn [map concat]. rewrite len_app. destruct H as [-> | H].
  - pose proof (len_nonneg (concat (map g l))). lia.
  - specialize (IH H). pose proof (len_nonneg (g y)). lia.
Qed.

Lemma wf_frame_len c f : wf c = true -> In f (frames c) -> len (frame_payload f) < 2 ^ 63.
Proof.
  intros Hwf Hin. pose proof (wf_file_len c Hwf) as Hfile. destruct (serialize_layout c) as (_ & _ & _ & L).
  destruct c as [v trail | l trail | x cs]; cbn [frames] in Hin; try contradiction.
  apply in_flat_map in Hin. destruct Hin as (k & Hk & Hf). destruct k; try contradiction. destruct Hf as [<- | []].
  pose proof (in_concat_len chunk_bytes cs (CANMF f0) Hk) as Hc. unfold chunk_bytes at 1 in Hc. cbn [chunk_cc chunk_payload] in Hc.
  pose proof (len_ser_chunk_ge cc_ANMF (frame_payload f0) eq_refl) as Hs.
  cbn [body] in L. rewrite len_app in L. pose proof (len_nonneg (ser_chunk cc_VP8X (vp8x_payload x))). lia.
Qed.

Lemma frames_decode_closed c ms : wf c = true ->
  Forall2 (frame_decodes_spec (fst (dims c)) (snd (dims c))) (frames c) ms ->
  Forall2 (frame_decodes vp8dec (fst (dims c)) (snd (dims c))) (frames c) ms.
Proof.
  intros Hwf HF. pose proof (wf_frames_ok c Hwf) as Hok.
  assert (Hlen : Forall (fun f => len (frame_payload f) < 2 ^ 63) (frames c)) by (apply Forall_forall; intros f Hf; exact (wf_frame_len c f Hwf Hf)).
  revert Hok Hlen. induction HF as [|f m fs ms Hfm _ IH]; intros Hok Hlen; [constructor|].
  inversion Hok; subst. inversion Hlen; subst. constructor; [apply frame_decodes_closed; assumption | apply IH; assumption].
Qed.

(* animations decoded FROM THE FILE BYTES, lossy frames decoded by the Model of the frame decoder *)
Theorem play_from_file_closed c ms :
  wf c = true -> anim c = true -> Forall2 (frame_decodes_spec (fst (dims c)) (snd (dims c))) (frames c) ms ->
  fst (dims c) * snd (dims c) * 4 < 18446744073709551616 ->
  Anim_play.valid_file (anim_file c ms) /\
  exists dec, M.new (serialize c) = Ok dec /\
    forall buf, len buf = buffer_size c ->
      play vp8dec dec (length ms) buf = Anim.play (anim_file c ms) buf
      /\ play vp8dec dec (S (length ms)) buf
         = Anim.play (anim_file c ms) buf ++ [(Err ENoMoreFrames, last (map snd (Anim.play (anim_file c ms) buf)) buf)].
Proof. intros Hwf Ha HF Hc. exact (play_from_file vp8dec c ms Hwf Ha (frames_decode_closed c ms Hwf HF) Hc). Qed.

Theorem read_frame_from_file_spec_closed c ms :
  wf c = true -> anim c = true -> Forall2 (frame_decodes_spec (fst (dims c)) (snd (dims c))) (frames c) ms ->
  fst (dims c) * snd (dims c) * 4 < 18446744073709551616 ->
  exists dec, M.new (serialize c) = Ok dec /\ M.num_frames dec = Z.of_nat (length ms) /\ (forall buf, len buf = buffer_size c ->
      (forall k, (k < length ms)%nat ->
         nth_error (play vp8dec dec (S (length ms)) buf) k =
         Some (Ok (Spec.Anim.duration (Anim_play.anim_of (anim_file c ms)) k),
               Spec.Anim.render (alpha c) (fst (dims c)) (snd (dims c))
                 (Spec.Anim.frames_upto AlphaBlend.do_alpha_blending (Anim_play.anim_of (anim_file c ms)) k)))
      /\ exists b, nth_error (play vp8dec dec (S (length ms)) buf) (length ms) = Some (Err ENoMoreFrames, b)).
Proof. intros Hwf Ha HF Hc. exact (read_frame_from_file_spec vp8dec c ms Hwf Ha (frames_decode_closed c ms Hwf HF) Hc). Qed.
