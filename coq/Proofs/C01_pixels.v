(* C01, layer 4b: the pixel loop.  Model.Lossless.decode_image_data / pixel_loop / pixel_nonfast refine the
   specification's decode_pixels / decode_step / emit / copy_pixels:

     decode_image_data_refines :
       for related streams and a HuffmanInfo that represents the specification's image_info (`info_rel`: every
       table `represents` its code, the entropy image holds the meta prefix codes, the cache has the same size),
         Spec decode_pixels = Some (pixels, st')  ->  Model = Ok (br', data') with Rel st' br' and, for every pixel i,
                                                        the bytes 4i..4i+3 of data' = R,G,B,A of pixels[i];
         Spec decode_pixels = None                 ->  Model = Err _ .
   The loop invariant `Inv` ties a specification state (pos, pixels, cache, input) to the decoder's
   (index, byte buffer, colour cache, bit reader).  One decoder iteration is 1 specification step (literal,
   back-reference), 1 or 2 (colour cache symbol with the F2 double look-up), or n (all-single-symbol fast path).
   Colour cache: the specification inserts every pixel; the decoder inserts literals and cache hits at once, the
   pixels of a back-reference with distance <> 1 right after the copy, and nothing for distance 1 or for the
   repeated pixels of the fast path -- those re-insert the colour that was inserted last, which changes nothing
   (invariant `iv_last`); the relation `cache_rel` is pointwise and does not see it. *)
From Coq Require Import ZArith NArith List Bool Lia FMapPositive.
From WebP Require Import Lib.Res Lib.Arr Lib.ZBits Gen.Tables
  Model.EncoderHeap Proofs.C04_bits Proofs.C04_arr
  Model.LosslessLib Model.BitReader Model.Huffman Model.LosslessTransform Model.Lossless
  Proofs.Lossless_BitReader Proofs.Lossless_HuffmanSafe Proofs.Lossless_CopyWithin Proofs.Lossless_SymSchedule
  Proofs.Lossless_PixelSafe Proofs.C01_stream Proofs.C01_symbols Proofs.C01_pixlib.
Import ListNotations.
Open Scope Z_scope.

Ltac Zify.zify_post_hook ::= Z.div_mod_to_equations.

Notation "'olet' p ':=' e 'in' f" := (match e with Some p => f | None => None end)
  (at level 200, p pattern, e at level 200, f at level 200, right associativity).

(* the five tables of a group against the five codes *)
Record group_rel (cs : Z) (gm : group) (gs : V.group) : Prop := {
  gr_green : represents (g_green gm) (V.g_green gs) (280 + cs);
  gr_red : represents (g_red gm) (V.g_red gs) 256;
  gr_blue : represents (g_blue gm) (V.g_blue gs) 256;
  gr_alpha : represents (g_alpha gm) (V.g_alpha gs) 256;
  gr_dist : represents (g_dist gm) (V.g_dist gs) 40 }.

(* what decode_image_data is given (HuffmanInfo) against what decode_pixels is given (image_info) *)
Record info_rel (im : V.image_info) (h : huffman_info) (w hgt : Z) : Prop := {
  ir_w : V.xsize im = w;
  ir_h : V.ysize im = hgt;
  ir_bits : 0 <= V.cache_bits im <= 11;
  ir_groups : forall i, 0 <= i < vzlen (h_groups h) ->
     exists gs, V.lookup (V.groups im) i = Some gs /\ group_rel (V.cache_size_of (V.cache_bits im)) (vz (h_groups h) i) gs;
  ir_group0 : 0 < vzlen (h_groups h);
  ir_mask : h_mask h = if h_bits h =? 0 then 65535 else 2 ^ h_bits h - 1;
  ir_meta : match V.meta im with
            | None => h_bits h = 0
            | Some (pb, eimg) =>
                h_bits h = pb /\ 2 <= pb <= 9 /\ h_xsize h = V.DIV_ROUND_UP w (2 ^ pb) /\
                forall x y, 0 <= x < w -> 0 <= y < hgt ->
                  let p := Z.shiftr y pb * h_xsize h + Z.shiftr x pb in
                  0 <= p < zlen (h_image h) /\ az (h_image h) p = Z.land (Z.shiftr (V.pix eimg p) 8) 65535 /\
                  0 <= az (h_image h) p < vzlen (h_groups h)
            end }.

Lemma cache_size_range b : 0 <= b <= 11 -> 0 <= V.cache_size_of b <= 2048.
Proof.
  intros H. unfold V.cache_size_of. destruct (b =? 0); [lia|].
  assert (0 < 2 ^ b) by (apply Z.pow_pos_nonneg; lia). assert (2 ^ b <= 2 ^ 11) by (apply Z.pow_le_mono_r; lia).
  change (2 ^ 11) with 2048 in *. lia.
Qed.

(* C03 link: the relation gives the invariant under which vp8lmodel's decode_image_data_safe applies *)
Lemma group_rel_ok cs gm gs : group_rel cs gm gs -> group_ok gm (280 + cs).
Proof.
  intros [G R B A D]. constructor;
    [exact (rp_ok _ _ _ G) | exact (rp_lt _ _ _ G) | exact (rp_ok _ _ _ R) | exact (rp_ok _ _ _ B) | exact (rp_ok _ _ _ A)
    | exact (rp_ok _ _ _ D) | exact (rp_lt _ _ _ D)].
Qed.

Theorem info_rel_ok im h w hgt : info_rel im h w hgt -> info_ok h w hgt (280 + V.cache_size_of (V.cache_bits im)).
Proof.
  intros [Hw Hh Hb Hg Hg0 Hm Hmeta]. constructor.
  - destruct (V.meta im) as [[pb eimg]|]; [destruct Hmeta as (-> & Hpb & _); lia | lia].
  - exact Hm.
  - intros i Hi. destruct (Hg i Hi) as (gs & _ & Hr). eapply group_rel_ok. exact Hr.
  - exact Hg0.
  - intros Hnz x y Hx Hy. destruct (V.meta im) as [[pb eimg]|]; [|contradiction].
    destruct Hmeta as (E & _ & _ & Hpos). rewrite E. destruct (Hpos x y Hx Hy) as (A & _ & C). auto.
Qed.

Section Pixels.
  Variables (im : V.image_info) (h : huffman_info) (w hgt : Z).
  Hypothesis HI : info_rel im h w hgt.
  Hypothesis Hw : 1 <= w <= 65535.
  Hypothesis Hh : 1 <= hgt <= 65536.

  Let N := w * hgt.
  Let bits := V.cache_bits im.
  Let cs := V.cache_size_of bits.
  Let fin := fun st : V.state => N <=? V.pos st.

  Lemma Hbits : 0 <= bits <= 11.
  Proof. exact (ir_bits _ _ _ _ HI). Qed.

  (* ---------------------------------------------------------------------------------------------- *)
  (** ** the invariant *)
  Record Inv (st : V.state) (cache : option color_cache) (index : Z) (br : BitReader.t) (data : arr) : Prop := {
    iv_pos : V.pos st = index;
    iv_rel : Rel (V.input st) br;
    iv_len : zlen data = 4 * N;
    iv_pix : forall i, 0 <= i < index -> px_at data i = px_of (V.pix (V.pixels st) i) /\ pix32 (V.pix (V.pixels st) i);
    iv_cache : cache_rel bits (V.cache st) cache;
    iv_last : bits <> 0 -> 0 < index ->
              V.pix (V.cache st) (V.cache_index bits (V.pix (V.pixels st) (index - 1))) = V.pix (V.pixels st) (index - 1) }.

  Lemma emit_fields color st s :
    V.emit im color (V.with_input st s) =
    {| V.pos := V.pos st + 1; V.pixels := V.set_pix (V.pixels st) (V.pos st) color;
       V.cache := s_ins bits (V.cache st) color; V.input := s |}.
  Proof. reflexivity. Qed.

  Lemma with_input_id st : V.with_input st (V.input st) = st.
  Proof. destruct st; reflexivity. Qed.

  Lemma inv_emit st cache index br data color s' br' data' cache' :
    Inv st cache index br data -> 0 <= index -> pix32 color -> Rel s' br' ->
    zlen data' = 4 * N -> (forall j, 0 <= j < index -> px_at data' j = px_at data j) -> px_at data' index = px_of color ->
    cache_rel bits (s_ins bits (V.cache st) color) cache' ->
    Inv (V.emit im color (V.with_input st s')) cache' (index + 1) br' data'.
  Proof.
    intros [Hp Hr Hl Hpx Hc Hlast] Hi Hcol Hr' Hl' Hlow Hat Hc'. rewrite emit_fields. constructor; cbn [V.pos V.pixels V.cache V.input].
    - lia.
    - exact Hr'.
    - exact Hl'.
    - intros i Hi2. rewrite pix_set_pix by lia. rewrite Hp. destruct (Z.eqb_spec index i) as [<-|Hne].
      + rewrite Hat. auto.
      + rewrite Hlow by lia. apply Hpx. lia.
    - exact Hc'.
    - intros Hb _. replace (index + 1 - 1) with index by lia. rewrite pix_set_pix by lia. rewrite Hp, Z.eqb_refl.
      apply s_ins_last; [exact Hb | exact Hbits].
  Qed.

  (* the decoder-side insertion that goes with an emit *)
  Lemma insert_opt_rel sc cache p : cache_rel bits sc cache -> pix32 p ->
    exists cache', cache_insert_opt cache (px_of p) = Ok cache' /\ cache_rel bits (s_ins bits sc p) cache'.
  Proof.
    intros Hc Hp. destruct cache as [c|]; cbn [cache_insert_opt].
    - destruct (cache_insert_rel bits sc c p Hc Hp) as (c' & E & Hc'). rewrite E. cbn [bind]. eauto.
    - exists None. split; [reflexivity|]. cbn [cache_rel] in *. exact Hc.
  Qed.

  (* the buffer may change at and above `index` *)
  Lemma inv_data st cache index br data data' : Inv st cache index br data -> zlen data' = 4 * N ->
    (forall j, 0 <= j < index -> px_at data' j = px_at data j) -> Inv st cache index br data'.
  Proof.
    intros [Hp Hr Hl Hpx Hc Hlast] Hl' Hlow. constructor; auto. intros i Hi. rewrite Hlow by exact Hi. apply Hpx. exact Hi.
  Qed.

  (* emitting again the colour that was emitted last: nothing to do on the decoder's cache *)
  Fixpoint repeat_emit (n : nat) (p : Z) (st : V.state) : V.state :=
    match n with O => st | S k => repeat_emit k p (V.emit im p st) end.

  Lemma inv_repeat : forall n st cache index br data,
    Inv st cache index br data -> 0 < index ->
    (forall j, index <= j < index + Z.of_nat n -> px_at data j = px_of (V.pix (V.pixels st) (index - 1))) ->
    Inv (repeat_emit n (V.pix (V.pixels st) (index - 1)) st) cache (index + Z.of_nat n) br data.
  Proof.
    induction n as [|n IH]; intros st cache index br data HInv Hi Hrun.
    - cbn [repeat_emit]. replace (index + Z.of_nat 0) with index by lia. exact HInv.
    - cbn [repeat_emit]. set (p := V.pix (V.pixels st) (index - 1)) in *.
      pose proof HInv as [Hp Hr Hl Hpx Hc Hlast].
      assert (Hp32 : pix32 p) by (apply Hpx; lia).
      assert (HInv1 : Inv (V.emit im p st) cache (index + 1) br data).
      { rewrite <- (with_input_id st) at 1. apply (inv_emit st cache index br data p (V.input st) br data cache); auto; try lia.
        - apply Hrun. lia.
        - apply (cache_rel_ext bits (V.cache st)); [|exact Hc]. apply s_ins_same; [|exact Hbits]. intros Hb. apply Hlast; [exact Hb | lia]. }
      assert (Hp1 : V.pix (V.pixels (V.emit im p st)) (index + 1 - 1) = p).
      { rewrite <- (with_input_id st), emit_fields. cbn [V.pixels]. rewrite pix_set_pix by lia.
        replace (index + 1 - 1) with index by lia. rewrite Hp, Z.eqb_refl. reflexivity. }
      specialize (IH (V.emit im p st) cache (index + 1) br data HInv1 ltac:(lia)). rewrite Hp1 in IH.
      replace (index + Z.of_nat (S n)) with (index + 1 + Z.of_nat n) by lia. apply IH.
      intros j Hj. apply Hrun. lia.
  Qed.

  Lemma copy_pixels_one : forall n st, 0 < V.pos st ->
    V.copy_pixels im n 1 st = repeat_emit n (V.pix (V.pixels st) (V.pos st - 1)) st.
  Proof.
    induction n as [|n IH]; intros st Hp; [reflexivity|]. cbn [V.copy_pixels repeat_emit].
    set (p := V.pix (V.pixels st) (V.pos st - 1)). rewrite IH.
    - f_equal. rewrite <- (with_input_id st), emit_fields. cbn [V.pos V.pixels]. rewrite pix_set_pix by lia.
      replace (V.pos st + 1 - 1) with (V.pos st) by lia. rewrite Z.eqb_refl. reflexivity.
    - rewrite <- (with_input_id st), emit_fields. cbn [V.pos]. lia.
  Qed.

  (* the overlapping copy with the decoder's insertion loop *)
  Lemma inv_copy dist data' br : forall n i index st c,
    Inv st (Some c) (index + i) br data' -> 0 <= i -> 0 <= index -> 1 <= dist <= index + i -> index + i + Z.of_nat n <= N ->
    (forall j, index + i <= j < index + i + Z.of_nat n -> px_at data' j = px_at data' (j - dist)) ->
    exists c', for_loop n i 1 (fun i0 c0 => bind (get4 data' (index * 4 + i0 * 4)) (fun p => cache_insert c0 p)) c = Ok c' /\
               Inv (V.copy_pixels im n dist st) (Some c') (index + i + Z.of_nat n) br data'.
  Proof.
    induction n as [|n IH]; intros i index st c HInv Hi Hidx Hd Hn Hrec.
    - exists c. split; [reflexivity|]. cbn [V.copy_pixels]. replace (index + i + Z.of_nat 0) with (index + i) by lia. exact HInv.
    - cbn [for_loop V.copy_pixels]. pose proof HInv as [Hp Hr Hl Hpx Hc Hlast].
      set (q := V.pix (V.pixels st) (V.pos st - dist)).
      assert (Eq : q = V.pix (V.pixels st) (index + i - dist)) by (unfold q; rewrite Hp; reflexivity).
      destruct (Hpx (index + i - dist) ltac:(lia)) as [Hq1 Hq2]. rewrite <- Eq in Hq1, Hq2.
      assert (Hat : px_at data' (index + i) = px_of q) by (rewrite Hrec by lia; exact Hq1).
      replace (index * 4 + i * 4) with (4 * (index + i)) by lia. rewrite get4_px by lia. cbn [bind]. rewrite Hat.
      destruct (cache_insert_rel bits (V.cache st) c q Hc Hq2) as (c1 & E1 & Hc1). rewrite E1.
      assert (HInv1 : Inv (V.emit im q st) (Some c1) (index + (i + 1)) br data').
      { rewrite <- (with_input_id st) at 1. replace (index + (i + 1)) with (index + i + 1) by lia.
        apply (inv_emit st (Some c) (index + i) br data' q (V.input st) br data' (Some c1)); auto; lia. }
      destruct (IH (i + 1) index (V.emit im q st) c1 HInv1 ltac:(lia) Hidx ltac:(lia) ltac:(lia)) as (c' & E & HInv').
      { intros j Hj. apply Hrec. lia. }
      exists c'. split; [exact E|]. replace (index + i + Z.of_nat (S n)) with (index + (i + 1) + Z.of_nat n) by lia. exact HInv'.
  Qed.

  Lemma inv_copy_none dist data' br : forall n index st,
    Inv st None index br data' -> 1 <= dist <= index -> index + Z.of_nat n <= N ->
    (forall j, index <= j < index + Z.of_nat n -> px_at data' j = px_at data' (j - dist)) ->
    Inv (V.copy_pixels im n dist st) None (index + Z.of_nat n) br data'.
  Proof.
    induction n as [|n IH]; intros index st HInv Hd Hn Hrec.
    - cbn [V.copy_pixels]. replace (index + Z.of_nat 0) with index by lia. exact HInv.
    - cbn [V.copy_pixels]. pose proof HInv as [Hp Hr Hl Hpx Hc Hlast].
      set (q := V.pix (V.pixels st) (V.pos st - dist)).
      assert (Eq : q = V.pix (V.pixels st) (index - dist)) by (unfold q; rewrite Hp; reflexivity).
      destruct (Hpx (index - dist) ltac:(lia)) as [Hq1 Hq2]. rewrite <- Eq in Hq1, Hq2.
      assert (HInv1 : Inv (V.emit im q st) None (index + 1) br data').
      { rewrite <- (with_input_id st) at 1.
        apply (inv_emit st None index br data' q (V.input st) br data' None); auto; try lia.
        rewrite Hrec by lia. exact Hq1. }
      replace (index + Z.of_nat (S n)) with (index + 1 + Z.of_nat n) by lia. apply IH; auto; try lia.
      intros j Hj. apply Hrec. lia.
  Qed.

  (* ---------------------------------------------------------------------------------------------- *)
  (** ** groups and blocks *)
  Lemma Hxs : V.xsize im = w. Proof. exact (ir_w _ _ _ _ HI). Qed.
  Lemma Hys : V.ysize im = hgt. Proof. exact (ir_h _ _ _ _ HI). Qed.

  Lemma bits0_meta : h_bits h = 0 -> V.meta im = None.
  Proof.
    intros H0. pose proof (ir_meta _ _ _ _ HI) as Hm. destruct (V.meta im) as [[pb eimg]|]; [|reflexivity].
    destruct Hm as (E & Hpb & _). lia.
  Qed.

  Lemma group_lookup x y : 0 <= x < w -> 0 <= y < hgt ->
    exists gm gs, bind (get_huff_index h x y) (fun i => vget (h_groups h) i) = Ok gm /\
                  V.group_at im x y = Some gs /\ group_rel cs gm gs /\ (h_bits h = 0 -> gm = vz (h_groups h) 0).
  Proof.
    intros Hx Hy. pose proof (ir_meta _ _ _ _ HI) as Hm. pose proof (ir_groups _ _ _ _ HI) as Hg.
    pose proof (ir_group0 _ _ _ _ HI) as Hg0. unfold get_huff_index, V.group_at.
    destruct (V.meta im) as [[pb eimg]|].
    - destruct Hm as (E & Hpb & Hxsz & Hpos). rewrite E. replace (pb =? 0) with false by (symmetry; apply Z.eqb_neq; lia).
      rewrite Hxs, <- Hxsz. destruct (Hpos x y Hx Hy) as (A & B & C). cbv zeta in A, B, C.
      rewrite zget_ok by exact A. cbn [bind]. rewrite vget_ok by exact C.
      destruct (Hg _ C) as (gs & El & Hr). exists (vz (h_groups h) (az (h_image h) (Z.shiftr y pb * h_xsize h + Z.shiftr x pb))), gs.
      split; [reflexivity|]. split; [rewrite <- B; exact El|]. split; [exact Hr|]. intros H0. lia.
    - rewrite Hm. cbn [Z.eqb bind]. rewrite vget_ok by lia. destruct (Hg 0 ltac:(lia)) as (gs & El & Hr).
      exists (vz (h_groups h) 0), gs. auto.
  Qed.

  Lemma shiftr_lor_ones x x' b : 0 <= b -> 0 <= x <= x' -> x' <= Z.lor x (2 ^ b - 1) -> Z.shiftr x' b = Z.shiftr x b.
  Proof.
    intros Hb Hx Hx'. assert (Hp : 0 < 2 ^ b) by (apply Z.pow_pos_nonneg; lia).
    assert (HL : Z.shiftr (Z.lor x (2 ^ b - 1)) b = Z.shiftr x b).
    { rewrite Z.shiftr_lor. replace (Z.shiftr (2 ^ b - 1) b) with 0; [apply Z.lor_0_r|].
      rewrite Z.shiftr_div_pow2 by lia. symmetry. apply Z.div_small. lia. }
    rewrite !Z.shiftr_div_pow2 in * by lia.
    pose proof (Z.div_le_mono x x' (2 ^ b) Hp ltac:(lia)). pose proof (Z.div_le_mono x' _ (2 ^ b) Hp Hx'). lia.
  Qed.

  Lemma block_same x x' y : 0 <= x <= x' -> x' <= Z.lor x (h_mask h) -> x' < w -> 0 <= y < hgt ->
    V.group_at im x' y = V.group_at im x y.
  Proof.
    intros Hx Hx' Hxw Hy. pose proof (ir_meta _ _ _ _ HI) as Hm. pose proof (ir_mask _ _ _ _ HI) as Hmask. unfold V.group_at.
    destruct (V.meta im) as [[pb eimg]|]; [|reflexivity].
    destruct Hm as (E & Hpb & _). rewrite E in Hmask. replace (pb =? 0) with false in Hmask by (symmetry; apply Z.eqb_neq; lia).
    rewrite Hmask in Hx'. rewrite (shiftr_lor_ones x x' pb) by lia. reflexivity.
  Qed.

  Lemma group_at_flat : h_bits h = 0 -> forall x y x0 y0, V.group_at im x y = V.group_at im x0 y0.
  Proof. intros H0 x y x0 y0. unfold V.group_at. rewrite (bits0_meta H0). reflexivity. Qed.

  (* the cached group is the group of every pixel up to the end of the block *)
  Definition blk (grp : group) (index nbs : Z) : Prop :=
    index < nbs -> exists gs, group_rel cs grp gs /\ forall j, index <= j < nbs -> V.group_at im (j mod w) (j / w) = Some gs.

  Lemma block_step_rel grp nbs index : 0 <= index < N -> nbs <= N -> blk grp index nbs ->
    exists g nbs' e,
      (if nbs <=? index then
         if w =? 0 then Panic PDivZero else
         let x := index mod w in let y := index / w in
         bind (usub w 1) (fun wm1 =>
         let nbs1 := Z.min (Z.lor x (h_mask h)) wm1 + y * w + 1 in
         bind (get_huff_index h (x mod 2 ^ 16) (y mod 2 ^ 16)) (fun huff_index =>
         bind (vget (h_groups h) huff_index) (fun g => Ok (g, nbs1, true))))
       else Ok (grp, nbs, false)) = Ok (g, nbs', e) /\
      index < nbs' <= N /\ blk g index nbs' /\ e = (nbs <=? index) /\
      (e = true -> h_bits h = 0 -> g = vz (h_groups h) 0).
  Proof.
    intros Hidx Hnbs Hblk. destruct (nbs <=? index) eqn:En.
    2:{ apply Z.leb_gt in En. exists grp, nbs, false. split; [reflexivity|]. split; [lia|]. split; [exact Hblk|]. split; [reflexivity|].
        intros H; discriminate. }
    replace (w =? 0) with false by (symmetry; apply Z.eqb_neq; lia).
    unfold usub. replace (w <? 1) with false by (symmetry; apply Z.ltb_ge; lia). cbn [bind]. cbv zeta.
    set (x := index mod w). set (y := index / w).
    assert (Hx : 0 <= x < w) by (apply Z.mod_pos_bound; lia).
    assert (Hy : 0 <= y < hgt).
    { unfold y. split; [apply Z.div_pos; lia|]. apply Z.div_lt_upper_bound; [lia|]. unfold N in Hidx. lia. }
    assert (Hxy : index = w * y + x) by (unfold x, y; apply Z.div_mod; lia).
    assert (Hm0 : 0 <= h_mask h).
    { rewrite (ir_mask _ _ _ _ HI). destruct (h_bits h =? 0) eqn:Eb; [lia|]. apply Z.eqb_neq in Eb.
      pose proof (ir_meta _ _ _ _ HI) as Hm. destruct (V.meta im) as [[pb eimg]|]; [|lia]. destruct Hm as (E & Hpb & _).
      assert (0 < 2 ^ h_bits h) by (apply Z.pow_pos_nonneg; lia). lia. }
    pose proof (lor_ge x (h_mask h) ltac:(lia) Hm0) as Hlor.
    rewrite (Z.mod_small x) by (change (2 ^ 16) with 65536; lia).
    rewrite (Z.mod_small y) by (change (2 ^ 16) with 65536; lia).
    destruct (group_lookup x y Hx Hy) as (gm & gs & Eg & Es & Hr & H0).
    set (nbs' := Z.min (Z.lor x (h_mask h)) (w - 1) + y * w + 1).
    assert (Hnb : index < nbs' <= N) by (unfold nbs', N; nia).
    destruct (get_huff_index h x y) as [hi| | |]; cbn [bind] in Eg; try discriminate. cbn [bind]. rewrite Eg. cbn [bind].
    exists gm, nbs', true. split; [reflexivity|]. split; [exact Hnb|]. split; [|split; [reflexivity | intros _; exact H0]].
    intros _. exists gs. split; [exact Hr|]. intros j Hj.
    assert (Hjx : 0 <= j - y * w < w) by (unfold nbs' in Hj; lia).
    replace j with ((j - y * w) + y * w) at 1 2 by lia. rewrite Z.mod_add, Z.div_add by lia.
    rewrite Z.mod_small, Z.div_small by lia. rewrite Z.add_0_l. rewrite <- Es. apply block_same; lia.
  Qed.

  (* ---------------------------------------------------------------------------------------------- *)
  (** ** one specification step *)
  Lemma decode_step_eq st gs : V.group_at im (V.pos st mod w) (V.pos st / w) = Some gs ->
    V.decode_step im st =
      olet (sym, s) := V.read_symbol (V.g_green gs) (V.input st) in
      if sym <? 256 then
        olet (red, s) := V.read_symbol (V.g_red gs) s in
        olet (blue, s) := V.read_symbol (V.g_blue gs) s in
        olet (alpha, s) := V.read_symbol (V.g_alpha gs) s in
        Some (V.emit im (V.argb alpha red sym blue) (V.with_input st s))
      else if sym <? 280 then
        olet (length, s) := V.read_lz77_value (sym - 256) s in
        olet (dist_prefix, s) := V.read_symbol (V.g_dist gs) s in
        olet (dist_code, s) := V.read_lz77_value dist_prefix s in
        if (V.distance_of_code w dist_code >? V.pos st) || (length >? N - V.pos st) then None
        else Some (V.copy_pixels im (Z.to_nat length) (V.distance_of_code w dist_code) (V.with_input st s))
      else Some (V.emit im (V.pix (V.cache st) (sym - 280)) (V.with_input st s)).
  Proof. intros E. unfold V.decode_step. rewrite Hxs, Hys, E. reflexivity. Qed.

  Lemma inv_input st cache index br data s' br' :
    Inv st cache index br data -> Rel s' br' -> Inv (V.with_input st s') cache index br' data.
  Proof. intros [Hp Hr Hl Hpx Hc Hlast] Hr'. constructor; cbn [V.with_input V.pos V.pixels V.cache V.input]; auto. Qed.

  Lemma fill_if st r (c : bool) : Rel st r ->
    exists r', (if c then fill r else Ok r) = Ok r' /\ Rel st r' /\ (c = true -> lvl 56 r') /\ (c = false -> r' = r).
  Proof.
    intros H. destruct c.
    - destruct (fill_Rel st r H) as (r' & E & H' & Hp). exists r'. split; [exact E|]. split; [exact H'|]. split; [intros _; exact Hp | discriminate].
    - exists r. split; [reflexivity|]. split; [exact H|]. split; [discriminate | reflexivity].
  Qed.

  (* the verdict of the whole loop on both sides *)
  Definition Q (sr : option V.state) (mr : res (BitReader.t * arr)) : Prop :=
    match sr with
    | Some st' => exists br' data', mr = Ok (br', data') /\ N <= V.pos st' /\ Rel (V.input st') br' /\ zlen data' = 4 * N /\
                    forall i, 0 <= i < N -> px_at data' i = px_of (V.pix (V.pixels st') i) /\ pix32 (V.pix (V.pixels st') i)
    | None => exists e, mr = Err e
    end.

  Tactic Notation "rsym" constr(Hrep) constr(HRel) constr(Hd) ident(v) ident(s') ident(r') ident(Er) ident(HRel') ident(Hdat) ident(Hnb) ident(Hv) :=
    let P := fresh "P" in
    pose proof (rp_reads _ _ _ Hrep _ _ HRel Hd) as P;
    match type of P with match V.read_symbol ?c ?s with _ => _ end =>
      destruct (V.read_symbol c s) as [[v s']|] end;
    [ destruct P as (r' & Er & HRel' & Hdat & Hnb); pose proof (proj1 (rp_lt _ _ _ Hrep) _ _ _ Er) as Hv;
      rewrite Er; cbn [bind]; cbv beta iota
    | rewrite P; cbn [bind Q]; eexists; reflexivity ].

  Lemma nonfast_refines (k : option color_cache -> Z -> BitReader.t -> arr -> res (BitReader.t * arr))
        g gs cache index nbs br data st K :
    group_rel cs g gs -> (forall j, index <= j < nbs -> V.group_at im (j mod w) (j / w) = Some gs) ->
    index < nbs <= N -> 0 <= index -> Inv st cache index br data -> lvl 56 br -> N - index <= Z.of_nat K ->
    (forall cache' index' br' data' st' K', Inv st' cache' index' br' data' -> index < index' <= N ->
        N - index' <= Z.of_nat K' -> Q (iterN fin (V.decode_step im) K' st') (k cache' index' br' data')) ->
    Q (iterN fin (V.decode_step im) K st) (pixel_nonfast k w N g cache index nbs br data).
  Proof.
    intros [Ggreen Gred Gblue Galpha Gdist] Hgrp Hnbs Hidx0 HInv Hlvl HK Hk.
    pose proof HInv as [Hpos HRel Hlen Hpix Hcache Hlast].
    pose proof Hbits as Hb.
    destruct K as [|K']; [lia|].
    assert (Hfin : fin st = false) by (unfold fin; apply Z.leb_gt; lia).
    cbn [iterN]. rewrite Hfin.
    rewrite (decode_step_eq st gs) by (rewrite Hpos; apply Hgrp; lia).
    unfold pixel_nonfast.
    assert (Hd0 : disc br) by (destruct Hlvl; [left; lia | right; assumption]).
    rsym Ggreen HRel Hd0 code s1 br1 Er1 HRel1 Hdat1 Hnb1 Hcode. clear Er1.
    assert (Hl1 : lvl 41 br1) by (destruct Hlvl as [Hl|Hl]; [left; lia | right; congruence]).
    assert (Hd1 : disc br1) by (destruct Hl1; [left; lia | right; assumption]).
    destruct (code <? 256) eqn:Ec.
    - (* literal *)
      apply Z.ltb_lt in Ec.
      rsym Gred HRel1 Hd1 red s2 br2 Er2 HRel2 Hdat2 Hnb2 Hred. clear Er2.
      assert (Hd2 : disc br2) by (destruct Hl1 as [Hl|Hl]; [left; lia | right; congruence]).
      rsym Gblue HRel2 Hd2 blue s3 br3 Er3 HRel3 Hdat3 Hnb3 Hblue. clear Er3.
      destruct (fill_if s3 br3 (nbits br3 <? 15) HRel3) as (br4 & Ef & HRel4 & Hf1 & Hf2). rewrite Ef. cbn [bind]. clear Ef.
      assert (Hd4 : disc br4).
      { destruct (nbits br3 <? 15) eqn:E15.
        - destruct (Hf1 eq_refl); [left; lia | right; assumption].
        - rewrite (Hf2 eq_refl). apply Z.ltb_ge in E15. left. exact E15. }
      rsym Galpha HRel4 Hd4 alpha s4 br5 Er5 HRel5 Hdat5 Hnb5 Halpha. clear Er5.
      rewrite !u8_byte by (unfold byte; lia).
      destruct (set4_px data index (red, code, blue, alpha) Hidx0 ltac:(unfold N in *; lia)) as (data1 & Es & Hlen1 & Hpx1).
      rewrite Es. cbn [bind]. clear Es.
      destruct (chan_argb alpha red code blue) as (_ & _ & _ & _ & Hc32); try (unfold byte; lia).
      destruct (insert_opt_rel (V.cache st) cache (V.argb alpha red code blue) Hcache Hc32) as (cache1 & Ei & Hc1).
      rewrite px_of_argb in Ei by (unfold byte; lia). rewrite Ei. cbn [bind]. clear Ei.
      apply Hk; [|lia|lia].
      apply (inv_emit st cache index br data _ s4 br5 data1 cache1); auto; try lia.
      + intros j Hj. rewrite (Hpx1 j ltac:(lia)). replace (j =? index) with false by (symmetry; apply Z.eqb_neq; lia). reflexivity.
      + rewrite (Hpx1 index Hidx0), Z.eqb_refl. rewrite px_of_argb by (unfold byte; lia). reflexivity.
    - apply Z.ltb_ge in Ec. change (256 + 24) with 280. destruct (code <? 280) eqn:Ec2.
      + (* backward reference *)
        apply Z.ltb_lt in Ec2.
        pose proof (get_copy_distance_refines s1 br1 (code - 256) HRel1 ltac:(lia)) as P.
        assert (Hle : lvl (lz_extra (code - 256)) br1)
          by (pose proof (lz_extra_len (code - 256) ltac:(lia)); destruct Hl1; [left; lia | right; assumption]).
        specialize (P Hle).
        destruct (V.read_lz77_value (code - 256) s1) as [[len s2]|]; [|rewrite P; cbn [bind Q]; eexists; reflexivity].
        destruct P as (br2 & E2 & HRel2 & Hdat2 & Hnb2 & Hlen1). rewrite E2. cbn [bind]. cbv beta iota. clear E2.
        destruct (fill_if s2 br2 (nbits br2 <? 33) HRel2) as (br3 & Ef & HRel3 & Hf1 & Hf2). rewrite Ef. cbn [bind]. clear Ef.
        assert (Hl3 : lvl 33 br3).
        { destruct (nbits br2 <? 33) eqn:E33.
          - destruct (Hf1 eq_refl); [left; lia | right; assumption].
          - rewrite (Hf2 eq_refl). apply Z.ltb_ge in E33. left. exact E33. }
        assert (Hd3 : disc br3) by (destruct Hl3; [left; lia | right; assumption]).
        rsym Gdist HRel3 Hd3 dsym s4 br4 Er4 HRel4 Hdat4 Hnb4 Hdsym. clear Er4.
        pose proof (get_copy_distance_refines s4 br4 dsym HRel4 Hdsym) as P.
        assert (Hle4 : lvl (lz_extra dsym) br4)
          by (pose proof (lz_extra_range dsym Hdsym); destruct Hl3 as [Hl|Hl]; [left; lia | right; congruence]).
        specialize (P Hle4).
        destruct (V.read_lz77_value dsym s4) as [[dcode s5]|]; [|rewrite P; cbn [bind Q]; eexists; reflexivity].
        destruct P as (br5 & E5 & HRel5 & _ & _ & Hdc). rewrite E5. cbn [bind]. cbv beta iota. clear E5.
        rewrite (plane_code_refines w dcode Hdc). cbn [bind].
        pose proof (distance_of_code_pos w dcode Hdc) as Hdist. set (dist := V.distance_of_code w dcode) in *.
        rewrite Hpos. rewrite !Z.gtb_ltb.
        destruct ((index <? dist) || (N - index <? len)) eqn:Echk; [cbn [Q]; eexists; reflexivity|].
        apply orb_false_iff in Echk. destruct Echk as [E1 E2]. apply Z.ltb_ge in E1. apply Z.ltb_ge in E2.
        pose proof (inv_input st cache index br data s5 br5 HInv HRel5) as HInv5.
        clear Hle Hle4 Hl3 Hd3 Hf1 Hf2 HRel1 HRel2 HRel3 HRel4 Hdat1 Hdat2 Hdat4 Hnb1 Hnb2 Hnb4 Hd0 Hd1 Hl1 Hlvl.
        destruct (dist =? 1) eqn:Ed1.
        * (* distance 1: a run of the previous pixel *)
          apply Z.eqb_eq in Ed1. rewrite Ed1 in *.
          replace ((index - 1) * 4) with (4 * (index - 1)) by lia.
          rewrite slice4_px by (unfold N in *; lia). cbn [bind].
          destruct (fill_pixels_px data index len (px_at data (index - 1)) Hidx0 ltac:(lia) ltac:(unfold N in *; lia))
            as (data1 & Efp & Hlen1' & Hpx1). rewrite Efp. cbn [bind]. clear Efp.
          rewrite copy_pixels_one by (cbn [V.with_input V.pos]; lia).
          apply Hk; [|lia|lia].
          replace (index + len) with (index + Z.of_nat (Z.to_nat len)) by lia.
          change (V.pos (V.with_input st s5)) with (V.pos st). rewrite Hpos.
          apply (inv_repeat (Z.to_nat len) (V.with_input st s5) cache index br5 data1).
          -- apply (inv_data _ _ _ _ data); [exact HInv5 | lia|]. intros j Hj. rewrite (Hpx1 j ltac:(lia)).
             replace ((index <=? j) && (j <? index + len)) with false; [reflexivity|].
             symmetry. apply andb_false_iff. left. apply Z.leb_gt. lia.
          -- lia.
          -- intros j Hj. rewrite (Hpx1 j ltac:(lia)).
             replace ((index <=? j) && (j <? index + len)) with true
               by (symmetry; apply andb_true_iff; split; [apply Z.leb_le | apply Z.ltb_lt]; lia).
             apply (Hpix (index - 1)). lia.
        * (* distance >= 2: the overlapping copy, then the insertion of the copied pixels *)
          apply Z.eqb_neq in Ed1.
          destruct (copy_backref_px data index dist len N Hlen ltac:(lia) Hlen1 ltac:(lia)) as (data1 & Ecb & Hl1' & Hlow & Hrec).
          rewrite Ecb. cbn [bind]. clear Ecb.
          assert (HInv6 : Inv (V.with_input st s5) cache index br5 data1)
            by (apply (inv_data _ _ _ _ data); [exact HInv5 | lia | exact Hlow]).
          destruct cache as [c|].
          -- unfold cache_insert_range.
             replace (zlen data1 <? index * 4 + len * 4) with false by (symmetry; apply Z.ltb_ge; unfold N in *; lia).
             unfold for_range.
             destruct (inv_copy dist data1 br5 (Z.to_nat (len - 0)) 0 index (V.with_input st s5) c) as (c' & Ec' & HInv7);
               try lia.
             { rewrite Z.add_0_r. exact HInv6. }
             { intros j Hj. apply Hrec. lia. }
             rewrite Ec'. cbn [bind]. apply Hk; [|lia|lia].
             replace (index + len) with (index + 0 + Z.of_nat (Z.to_nat (len - 0))) by lia.
             replace (Z.to_nat len) with (Z.to_nat (len - 0)) by lia. exact HInv7.
          -- cbn [bind]. apply Hk; [|lia|lia].
             replace (index + len) with (index + Z.of_nat (Z.to_nat len)) by lia.
             apply inv_copy_none; [exact HInv6 | lia | lia|]. intros j Hj. apply Hrec. lia.
      + (* colour cache symbol, with the look-ahead for a second one *)
        apply Z.ltb_ge in Ec2.
        assert (Hbnz : bits <> 0).
        { intros E0. unfold cs, V.cache_size_of in Hcode. rewrite E0 in Hcode. cbn [Z.eqb] in Hcode. lia. }
        destruct cache as [c|]; [|cbn [cache_rel] in Hcache; contradiction].
        assert (Hcs : cs = 2 ^ bits)
          by (unfold cs, V.cache_size_of; replace (bits =? 0) with false by (symmetry; apply Z.eqb_neq; exact Hbnz); reflexivity).
        destruct (cache_lookup_rel bits (V.cache st) c (code - 280) Hcache ltac:(lia)) as [El Hc32]. rewrite El. cbn [bind]. clear El.
        set (col := V.pix (V.cache st) (code - 280)) in *.
        destruct (write4_px data index (px_of col) Hidx0 ltac:(unfold N in *; lia)) as (data1 & Ew & Hlen1 & Hpx1).
        rewrite Ew. cbn [bind]. clear Ew.
        destruct (cache_insert_rel bits (V.cache st) c col Hcache Hc32) as (c1 & Ei & Hc1). rewrite Ei. cbn [bind]. clear Ei.
        assert (HInv1 : Inv (V.emit im col (V.with_input st s1)) (Some c1) (index + 1) br1 data1).
        { apply (inv_emit st (Some c) index br data col s1 br1 data1 (Some c1)); auto; try lia.
          - intros j Hj. rewrite (Hpx1 j ltac:(lia)). replace (j =? index) with false by (symmetry; apply Z.eqb_neq; lia). reflexivity.
          - rewrite (Hpx1 index Hidx0), Z.eqb_refl. reflexivity. }
        destruct (index + 1 <? nbs) eqn:Enb.
        2:{ apply Z.ltb_ge in Enb. apply Hk; [exact HInv1 | lia | lia]. }
        apply Z.ltb_lt in Enb.
        destruct (rp_peek _ _ _ Ggreen br1 ltac:(pose proof (RelB_nbits _ _ HRel1); lia)) as (o & Ep & Ho). rewrite Ep. cbn [bind].
        destruct o as [[pb code2]|]; [|apply Hk; [exact HInv1 | lia | lia]].
        destruct (280 <=? code2) eqn:Ec3; [|apply Hk; [exact HInv1 | lia | lia]].
        apply Z.leb_le in Ec3. destruct (Ho pb code2 eq_refl) as [Hpb Hrd].
        pose proof (proj2 (rp_lt _ _ _ Ggreen) _ _ _ Ep) as [Hcode2 _]. clear Ep Ho.
        destruct K' as [|K'']; [lia|].
        set (st1 := V.emit im col (V.with_input st s1)) in *.
        assert (Hpos1 : V.pos st1 = index + 1) by (apply (iv_pos _ _ _ _ _ HInv1)).
        assert (Hfin1 : fin st1 = false) by (unfold fin; apply Z.leb_gt; lia).
        cbn [iterN]. rewrite Hfin1.
        rewrite (decode_step_eq st1 gs) by (rewrite Hpos1; apply Hgrp; lia).
        pose proof (rp_reads _ _ _ Ggreen (V.input st1) br1 (iv_rel _ _ _ _ _ HInv1) Hd1) as P.
        destruct (V.read_symbol (V.g_green gs) (V.input st1)) as [[v s2]|].
        2:{ rewrite Hrd in P. destruct (consume br1 pb) as [brc|e| |]; cbn [bind] in P; try discriminate. cbn [bind Q]. eexists; reflexivity. }
        destruct P as (br2 & Er & HRel2 & _ & _). rewrite Hrd in Er.
        destruct (consume br1 pb) as [brc|e| |]; cbn [bind] in Er; try discriminate. injection Er as <- <-.
        cbn [bind]. cbv beta iota.
        replace (code2 <? 256) with false by (symmetry; apply Z.ltb_ge; lia).
        replace (code2 <? 280) with false by (symmetry; apply Z.ltb_ge; lia).
        pose proof (iv_cache _ _ _ _ _ HInv1) as Hcache1.
        destruct (cache_lookup_rel bits (V.cache st1) c1 (code2 - 280) Hcache1 ltac:(lia)) as [El Hc232]. rewrite El. cbn [bind]. clear El.
        set (col2 := V.pix (V.cache st1) (code2 - 280)) in *.
        destruct (write4_px data1 (index + 1) (px_of col2) ltac:(lia) ltac:(unfold N in *; lia)) as (data2 & Ew & Hlen2 & Hpx2).
        rewrite Ew. cbn [bind]. clear Ew.
        destruct (cache_insert_rel bits (V.cache st1) c1 col2 Hcache1 Hc232) as (c2 & Ei & Hc2). rewrite Ei. cbn [bind]. clear Ei.
        apply Hk; [|lia|lia]. replace (index + 1 + 1) with ((index + 1) + 1) by lia.
        apply (inv_emit st1 (Some c1) (index + 1) br1 data1 col2 s2 brc data2 (Some c2)); auto; try lia.
        * intros j Hj. rewrite (Hpx2 j ltac:(lia)). replace (j =? index + 1) with false by (symmetry; apply Z.eqb_neq; lia). reflexivity.
        * rewrite (Hpx2 (index + 1) ltac:(lia)), Z.eqb_refl. reflexivity.
  Qed.

  (* ---------------------------------------------------------------------------------------------- *)
  (** ** the fast path: four zero-bit codes, one literal repeated to the end of the block *)
  Lemma all_single_inv g : all_single g = true ->
    exists c r b a, g_green g = Single c /\ g_red g = Single r /\ g_blue g = Single b /\ g_alpha g = Single a.
  Proof.
    unfold all_single. intros H. rewrite !andb_true_iff in H. destruct H as [[[H1 H2] H3] H4].
    destruct (g_green g) as [c|]; [|discriminate]. destruct (g_red g) as [r|]; [|discriminate].
    destruct (g_blue g) as [b|]; [|discriminate]. destruct (g_alpha g) as [a|]; [|discriminate]. exists c, r, b, a. auto.
  Qed.

  Lemma fast_steps gs c r b a : V.g_green gs = V.Symbol c -> V.g_red gs = V.Symbol r -> V.g_blue gs = V.Symbol b ->
    V.g_alpha gs = V.Symbol a -> c < 256 ->
    forall n st K, (forall j, V.pos st <= j < V.pos st + Z.of_nat n -> V.group_at im (j mod w) (j / w) = Some gs) ->
      V.pos st + Z.of_nat n <= N ->
      iterN fin (V.decode_step im) (n + K) st = iterN fin (V.decode_step im) K (repeat_emit n (V.argb a r c b) st).
  Proof.
    intros Eg Er Eb Ea Hc. induction n as [|n IH]; intros st K Hgrp Hn; [reflexivity|].
    cbn [Nat.add iterN repeat_emit].
    assert (Hfin : fin st = false) by (unfold fin; apply Z.leb_gt; lia). rewrite Hfin.
    rewrite (decode_step_eq st gs) by (apply Hgrp; lia). rewrite Eg, Er, Eb, Ea. cbn [V.read_symbol].
    replace (c <? 256) with true by (symmetry; apply Z.ltb_lt; exact Hc). rewrite with_input_id.
    apply IH.
    - intros j Hj. apply Hgrp. rewrite <- (with_input_id st), emit_fields in Hj. cbn [V.pos] in Hj. lia.
    - rewrite <- (with_input_id st), emit_fields. cbn [V.pos]. lia.
  Qed.

  (* ---------------------------------------------------------------------------------------------- *)
  (** ** the loop *)
  Theorem pixel_loop_refines : forall fuel K grp cache index nbs br data st,
    Inv st cache index br data -> 0 <= index <= N -> nbs <= N -> blk grp index nbs ->
    (h_bits h = 0 -> index < N -> (index = 0 /\ nbs <= 0) \/ ~ fastable (vz (h_groups h) 0)) ->
    N - index < Z.of_nat fuel -> N - index <= Z.of_nat K ->
    Q (iterN fin (V.decode_step im) K st) (pixel_loop fuel w N h grp cache index nbs br data).
  Proof.
    induction fuel as [|fuel IH]; intros K grp cache index nbs br data st HInv Hidx Hnbs Hblk Hnf Hfuel HK; [lia|].
    cbn [pixel_loop]. pose proof HInv as [Hpos HRel Hlen Hpix Hcache Hlast].
    destruct (index <? N) eqn:Ei; cbn [negb].
    2:{ apply Z.ltb_ge in Ei. rewrite iterN_finished by (unfold fin; apply Z.leb_le; lia). cbn [Q].
        exists br, data. split; [reflexivity|]. split; [lia|]. split; [exact HRel|]. split; [exact Hlen|].
        intros i Hi. apply Hpix. lia. }
    apply Z.ltb_lt in Ei.
    destruct (fill_Rel _ br HRel) as (br1 & F & HRel1 & Hpost). rewrite F. cbn [bind]. clear F.
    assert (HInv1 : Inv st cache index br1 data) by (rewrite <- (with_input_id st); apply (inv_input st cache index br data (V.input st) br1 HInv HRel1)).
    destruct (block_step_rel grp nbs index ltac:(lia) Hnbs Hblk) as (g & nbs' & e & Eb & Hnbs' & Hblk' & He & Hg0).
    cbv zeta in Eb. rewrite Eb. cbn [bind]. clear Eb.
    destruct (Hblk' ltac:(lia)) as (gs & Hgr & Hgrp).
    (* the rest of the loop from a larger index *)
    assert (Hnext : (h_bits h = 0 -> ~ fastable (vz (h_groups h) 0)) ->
               forall cache' index' br' data' st' K', Inv st' cache' index' br' data' -> index < index' <= N ->
               N - index' <= Z.of_nat K' ->
               Q (iterN fin (V.decode_step im) K' st') (pixel_loop fuel w N h g cache' index' nbs' br' data')).
    { intros Hnf' cache' index' br' data' st' K' HInv' Hi' HK'. apply IH; auto; try lia.
      intros Hlt. exists gs. split; [exact Hgr|]. intros j Hj. apply Hgrp. lia. }
    assert (Hblocked : (e && all_single g = false \/ exists c, g_green g = Single c /\ 256 <= c) ->
               h_bits h = 0 -> ~ fastable (vz (h_groups h) 0)).
    { intros Hwhy Hb0. destruct (Hnf Hb0 Ei) as [[Hi0 Hn0]|Hnofast]; [|assumption].
      assert (Het : e = true) by (rewrite He; apply Z.leb_le; lia).
      rewrite <- (Hg0 Het Hb0). intros [Hall (c & Hc & Hc256)].
      destruct Hwhy as [Hwhy|(c' & Hc' & Hc'256)].
      - rewrite Het, Hall in Hwhy. discriminate.
      - rewrite Hc in Hc'. injection Hc' as <-. lia. }
    assert (Hbody : (h_bits h = 0 -> ~ fastable (vz (h_groups h) 0)) ->
       Q (iterN fin (V.decode_step im) K st)
         (pixel_nonfast (fun cache0 index0 br0 data0 => pixel_loop fuel w N h g cache0 index0 nbs' br0 data0)
                        w N g cache index nbs' br1 data)).
    { intros Hnf'. apply (nonfast_refines _ g gs cache index nbs' br1 data st K); auto; try lia. }
    destruct (e && all_single g) eqn:Efast.
    2:{ apply Hbody. apply Hblocked. left. reflexivity. }
    apply andb_true_iff in Efast. destruct Efast as [Het Hall].
    destruct (all_single_inv g Hall) as (c & r & b & a & Eg & Er & Ebl & Ea).
    rewrite Eg. cbn [read_symbol bind].
    destruct (c <? 256) eqn:Ec.
    2:{ apply Z.ltb_ge in Ec. cbn [bind]. apply Hbody. apply Hblocked. right. exists c. split; [assumption | lia]. }
    apply Z.ltb_lt in Ec. rewrite Er, Ebl, Ea. cbn [read_symbol bind].
    destruct Hgr as [Ggreen Gred Gblue Galpha Gdist].
    pose proof (proj1 (rp_lt _ _ _ Ggreen) br1 c br1 ltac:(rewrite Eg; reflexivity)) as Hcb.
    pose proof (proj1 (rp_lt _ _ _ Gred) br1 r br1 ltac:(rewrite Er; reflexivity)) as Hrb.
    pose proof (proj1 (rp_lt _ _ _ Gblue) br1 b br1 ltac:(rewrite Ebl; reflexivity)) as Hbb.
    pose proof (proj1 (rp_lt _ _ _ Galpha) br1 a br1 ltac:(rewrite Ea; reflexivity)) as Hab.
    rewrite !u8_byte by (unfold byte; lia).
    set (n := if h_bits h =? 0 then N else nbs' - index).
    assert (Hn : 1 <= n /\ index + n <= N /\ (h_bits h = 0 -> index + n = N) /\ (h_bits h <> 0 -> index + n = nbs') /\
                 forall j, index <= j < index + n -> V.group_at im (j mod w) (j / w) = Some gs).
    { unfold n. destruct (h_bits h =? 0) eqn:Eb0.
      - apply Z.eqb_eq in Eb0. destruct (Hnf Eb0 Ei) as [[Hi0 _]|Hnofast].
        + subst index. split; [lia|]. split; [lia|]. split; [lia|]. split; [lia|]. intros j Hj.
          rewrite (group_at_flat Eb0 _ _ (0 mod w) (0 / w)). apply Hgrp. lia.
        + exfalso. apply Hnofast. rewrite <- (Hg0 Het Eb0). split; [assumption|]. exists c. split; [assumption | lia].
      - apply Z.eqb_neq in Eb0. split; [lia|]. split; [lia|]. split; [lia|]. split; [lia|]. intros j Hj. apply Hgrp. lia. }
    destruct Hn as (Hn1 & Hn2 & Hn3 & Hn4 & Hngrp).
    destruct (fill_pixels_px data index n (r, c, b, a) ltac:(lia) ltac:(lia) ltac:(unfold N in *; lia)) as (data1 & Efp & Hlen1 & Hpx1).
    rewrite Efp. cbn [bind]. clear Efp.
    set (col := V.argb a r c b).
    destruct (chan_argb a r c b) as (_ & _ & _ & _ & Hc32); try (unfold byte; lia).
    destruct (insert_opt_rel (V.cache st) cache col Hcache Hc32) as (cache1 & Eins & Hc1).
    unfold col in Eins. rewrite px_of_argb in Eins by (unfold byte; lia). rewrite Eins. cbn [bind]. clear Eins. fold col in Hc1.
    (* the n specification steps *)
    replace K with (Z.to_nat n + (K - Z.to_nat n))%nat by lia.
    rewrite (fast_steps gs c r b a (rp_single _ _ _ Ggreen c Eg) (rp_single _ _ _ Gred r Er) (rp_single _ _ _ Gblue b Ebl)
               (rp_single _ _ _ Galpha a Ea) Ec (Z.to_nat n) st)
      by (rewrite Hpos; try (intros j Hj; apply Hngrp); lia).
    fold col. destruct (Z.to_nat n) as [|m] eqn:Em; [lia|]. cbn [repeat_emit].
    set (st1 := V.emit im col st).
    assert (HInvA : Inv st1 cache1 (index + 1) br1 data1).
    { unfold st1. rewrite <- (with_input_id st) at 1.
      apply (inv_emit st cache index br data col (V.input st) br1 data1 cache1); auto; try lia.
      - intros j Hj. rewrite (Hpx1 j ltac:(lia)).
        replace ((index <=? j) && (j <? index + n)) with false; [reflexivity|]. symmetry. apply andb_false_iff. left. apply Z.leb_gt. lia.
      - rewrite (Hpx1 index ltac:(lia)).
        replace ((index <=? index) && (index <? index + n)) with true
          by (symmetry; apply andb_true_iff; split; [apply Z.leb_le | apply Z.ltb_lt]; lia).
        unfold col. rewrite px_of_argb by (unfold byte; lia). reflexivity. }
    assert (Hp1 : V.pix (V.pixels st1) (index + 1 - 1) = col).
    { unfold st1. rewrite <- (with_input_id st), emit_fields. cbn [V.pixels]. rewrite pix_set_pix by lia.
      replace (index + 1 - 1) with index by lia. rewrite Hpos, Z.eqb_refl. reflexivity. }
    pose proof (inv_repeat m st1 cache1 (index + 1) br1 data1 HInvA ltac:(lia)) as HInvB. rewrite Hp1 in HInvB.
    specialize (HInvB ltac:(intros j Hj; rewrite (Hpx1 j ltac:(lia));
                             replace ((index <=? j) && (j <? index + n)) with true
                               by (symmetry; apply andb_true_iff; split; [apply Z.leb_le | apply Z.ltb_lt]; lia);
                             unfold col; rewrite px_of_argb by (unfold byte; lia); reflexivity)).
    replace (index + 1 + Z.of_nat m) with (index + n) in HInvB by lia.
    apply IH; auto; try lia.
    intros Hlt. destruct (Z.eq_dec (h_bits h) 0) as [E0|E0]; [specialize (Hn3 E0) | specialize (Hn4 E0)]; lia.
  Qed.

  (* ---------------------------------------------------------------------------------------------- *)
  (** ** decode_image_data = decode_pixels *)
  Theorem decode_image_data_refines st br data :
    Rel st br -> zlen data = 4 * (w * hgt) ->
    cache_rel (V.cache_bits im) (amake (Z.to_N (2 ^ V.cache_bits im))) (h_cache h) ->
    match V.decode_pixels im st with
    | Some (pixels, st') =>
        exists br' data', decode_image_data br w hgt h data = Ok (br', data') /\ Rel st' br' /\ zlen data' = 4 * (w * hgt) /\
                          forall i, 0 <= i < w * hgt -> px_at data' i = px_of (V.pix pixels i) /\ pix32 (V.pix pixels i)
    | None => exists e, decode_image_data br w hgt h data = Err e
    end.
  Proof.
    intros HRel Hlen Hcache. unfold V.decode_pixels, decode_image_data. rewrite Hxs, Hys. fold N.
    assert (HN : 1 <= N) by (unfold N; nia).
    destruct (group_lookup 0 0 ltac:(lia) ltac:(lia)) as (gm & gs & Eg & _ & _ & _).
    destruct (get_huff_index h 0 0) as [hi| | |]; cbn [bind] in Eg; try discriminate. cbn [bind]. rewrite Eg. cbn [bind].
    set (st0 := {| V.pos := 0; V.pixels := amake (Z.to_N N); V.cache := amake (Z.to_N (2 ^ V.cache_bits im)); V.input := st |}).
    assert (HInv0 : Inv st0 (h_cache h) 0 br data).
    { constructor; cbn [V.pos V.pixels V.cache V.input]; auto; try lia. }
    rewrite run_iterN.
    pose proof (pixel_loop_refines (S (Z.to_nat N)) (Pos.to_nat (Z.to_pos N)) gm (h_cache h) 0 0 br data st0 HInv0
                  ltac:(lia) ltac:(lia) ltac:(intros H; lia) ltac:(intros _ _; left; lia) ltac:(lia) ltac:(lia)) as P.
    unfold fin in P.
    destruct (iterN (fun st1 : V.state => N <=? V.pos st1) (V.decode_step im) (Pos.to_nat (Z.to_pos N)) st0) as [st'|]; cbn [Q] in P.
    - destruct P as (br' & data' & E & Hfin & HRel' & Hlen' & Hpx).
      replace (N <=? V.pos st') with true by (symmetry; apply Z.leb_le; exact Hfin). exists br', data'. auto.
    - exact P.
  Qed.
End Pixels.

(* the decoder's fresh colour cache against the specification's *)
Lemma cache_rel_new (obits : option Z) (bits : Z) :
  match obits with None => bits = 0 | Some b => bits = b /\ 1 <= b <= 11 end ->
  cache_rel bits (amake (Z.to_N (2 ^ bits))) (option_map cache_new obits).
Proof.
  destruct obits as [b|]; cbn [option_map].
  - intros [-> Hb]. apply cache_rel_init. exact Hb.
  - intros ->. reflexivity.
Qed.
