(* Proofs/VP8_predict_big16a.v -- predict_vpred / predict_hpred on the luma workspace (17 rows x 21 columns), as
   intra_predict_luma calls them: complete description of the workspace afterwards, cell (y, x) = index y * 21 + x.
   Each proof runs the model on the explicit list of the 357 cells (contents opaque). *)
From Coq Require Import ZArith List Bool Lia.
From WebP Require Import Lib.Res Lib.ZBits Gen.Kernels Spec.VP8 Proofs.VP8_kernels Model.Vp8Predict Proofs.VP8_predict_base
  Proofs.VP8_predict_eval.
Import ListNotations.
Open Scope Z_scope.

(* rows 1..16: every column 1..20 receives the sample above it in row 0 (the four cells right of the block included) *)
Theorem predict_vpred_luma a :
  len a = 357 ->
  exists a', predict_vpred a 16 1 1 21 = Ok a' /\ len a' = 357 /\
    forall y x, 0 <= y < 17 -> 0 <= x < 21 ->
      get a' (y * 21 + x) = if (1 <=? y) && (1 <=? x) then get a x else get a (y * 21 + x).
Proof.
  intros Hl.
  exists (cells 17 21 (fun y x => if (1 <=? y) && (1 <=? x) then get a x else get a (y * 21 + x))).
  split; [|split; [apply len_cells2 | intros y x Hy Hx; apply (get_cells2 17 21); lia]].
  eval_cells a Hl 357%nat.
Qed.

(* rows 1..16: every column 1..20 receives the sample of column 0 of its row *)
Theorem predict_hpred_luma a :
  len a = 357 ->
  exists a', predict_hpred a 16 1 1 21 = Ok a' /\ len a' = 357 /\
    forall y x, 0 <= y < 17 -> 0 <= x < 21 ->
      get a' (y * 21 + x) = if (1 <=? y) && (1 <=? x) then get a (y * 21) else get a (y * 21 + x).
Proof.
  intros Hl.
  exists (cells 17 21 (fun y x => if (1 <=? y) && (1 <=? x) then get a (y * 21) else get a (y * 21 + x))).
  split; [|split; [apply len_cells2 | intros y x Hy Hx; apply (get_cells2 17 21); lia]].
  eval_cells a Hl 357%nat.
Qed.
