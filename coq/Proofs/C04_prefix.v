(* C04 layer L2: prefix-code symbol round trip.  For code lengths that satisfy the Kraft equality (what C14 proves of
   build_huffman_tree), the specification's `make_code` builds a tree, and reading -- with `read_symbol` -- the code word
   the encoder emits for symbol s (Spec.PrefixCode.stream_codes, i.e. the bit-reversed canonical word handed to the
   LSB-first writer) returns s and consumes exactly that word. *)
From Coq Require Import ZArith List Bool Lia Sorting.Sorted.
From WebP Require Import Lib.Res Lib.ZBits Gen.Kernels Model.EncoderHeap Model.Encoder Spec.PrefixCode
  Proofs.Huffman_lists Proofs.Huffman_canon Proofs.Encoder_bitwriter Proofs.C04_bits.
From WebP Require Spec.VP8L.
Import ListNotations.
Open Scope Z_scope.

(* ------------------------------------------------------------------------------------------------ *)
(** * words: MSB-first bit lists, and the bit reversal the writer applies *)
Lemma word_bits_snoc k : forall x, word_bits (S k) x = word_bits k (x / 2) ++ [Z.testbit x 0].
Proof.
  induction k as [|k IH]; intros x.
  - reflexivity.
  - change (word_bits (S (S k)) x) with (Z.testbit x (Z.of_nat (S k)) :: word_bits (S k) x).
    rewrite IH. change (word_bits (S k) (x / 2)) with (Z.testbit (x / 2) (Z.of_nat k) :: word_bits k (x / 2)).
    cbn [app]. f_equal. rewrite Z.div2_bits by lia. f_equal. lia.
Qed.

Lemma bits_of_rev_bits_nat n : forall m x acc,
  bits_of (n + m) (rev_bits_nat n x acc) = word_bits n x ++ bits_of m acc.
Proof.
  induction n as [|n IH]; intros m x acc.
  - reflexivity.
  - cbn [rev_bits_nat]. replace (S n + m)%nat with (n + S m)%nat by lia. rewrite IH.
    rewrite word_bits_snoc, <- app_assoc. f_equal. cbn [bits_of app]. f_equal.
    + rewrite Z.add_comm, Z.odd_add_mul_2, Zmod_odd. change (Z.testbit x 0) with (Z.odd x). destruct (Z.odd x); reflexivity.
    + f_equal. pose proof (Z.mod_pos_bound x 2 ltac:(lia)). lia.
Qed.

(* what write_bits (rev_bits l w) l appends is the word, most significant bit first *)
Lemma bits_of_rev_bits l w : bits_of (Z.to_nat l) (rev_bits l w) = word_bits (Z.to_nat l) w.
Proof.
  unfold rev_bits. pose proof (bits_of_rev_bits_nat (Z.to_nat l) 0 w 0) as H.
  rewrite Nat.add_0_r in H. cbn [bits_of] in H. rewrite app_nil_r in H. exact H.
Qed.

Lemma rev_bits_nat_range n : forall x acc k, 0 <= acc < 2 ^ k -> 0 <= k -> 0 <= rev_bits_nat n x acc < 2 ^ (k + Z.of_nat n).
Proof.
  induction n as [|n IH]; intros x acc k Ha Hk; cbn [rev_bits_nat].
  - rewrite Z.add_0_r. exact Ha.
  - replace (k + Z.of_nat (S n)) with ((k + 1) + Z.of_nat n) by lia. apply IH; [|lia].
    rewrite Z.pow_add_r by lia. change (2 ^ 1) with 2. pose proof (Z.mod_pos_bound x 2 ltac:(lia)). lia.
Qed.

Lemma rev_bits_range l w : 0 <= l -> 0 <= rev_bits l w < 2 ^ l.
Proof.
  intros Hl. unfold rev_bits. pose proof (rev_bits_nat_range (Z.to_nat l) w 0 0 ltac:(change (2^0) with 1; lia) ltac:(lia)) as H.
  rewrite Z2Nat.id, Z.add_0_l in H by lia. exact H.
Qed.

(* ------------------------------------------------------------------------------------------------ *)
(** * looking a word up in a code tree *)
Fixpoint lookup_word (c : V.code) (len : nat) (w : Z) : option Z :=
  match len with
  | O => match c with V.Symbol v => Some v | _ => None end
  | S k => match c with
           | V.Branch c0 c1 => lookup_word (if Z.testbit w (Z.of_nat k) then c1 else c0) k w
           | _ => None
           end
  end.

Lemma read_symbol_lookup len : forall c w s, lookup_word c len w = Some s ->
  parses (V.read_symbol c) (word_bits len w) s.
Proof.
  induction len as [|k IH]; intros c w s H st rest Hs.
  - cbn [lookup_word] in H. destruct c; try discriminate. inversion H; subst.
    cbn [V.read_symbol]. exists st. split; [reflexivity | exact Hs].
  - cbn [lookup_word] in H. destruct c as [| |c0 c1]; try discriminate.
    cbn [word_bits app] in Hs. cbn [V.read_symbol].
    destruct (read_bit_some st _ _ Hs) as [s1 [E1 H1]]. rewrite E1.
    apply (IH _ w s H s1 rest H1).
Qed.

Lemma add_lookup_same len : forall c w sym, lookup_word (V.add_code_word c len w sym) len w = Some sym.
Proof.
  induction len as [|k IH]; intros c w sym; cbn [V.add_code_word lookup_word]; [reflexivity|].
  destruct (match c with V.Branch c0 c1 => (c0, c1) | _ => (V.Unused, V.Unused) end) as [c0 c1].
  destruct (Z.testbit w (Z.of_nat k)) eqn:E; cbn [lookup_word]; rewrite E; apply IH.
Qed.

(* the two words disagree somewhere inside their common length *)
Fixpoint differs (len len' : nat) (w w' : Z) : Prop :=
  match len, len' with
  | S k, S k' => if Bool.eqb (Z.testbit w (Z.of_nat k)) (Z.testbit w' (Z.of_nat k')) then differs k k' w w' else True
  | _, _ => False
  end.

Lemma differs_sym len : forall len' w w', differs len len' w w' -> differs len' len w' w.
Proof.
  induction len as [|k IH]; intros [|k'] w w' H; cbn [differs] in *; try contradiction.
  destruct (Z.testbit w (Z.of_nat k)), (Z.testbit w' (Z.of_nat k')); cbn [Bool.eqb] in *; try exact I; apply IH; exact H.
Qed.

Lemma add_lookup_other len' : forall len c w w' s s', lookup_word c len w = Some s -> differs len len' w w' ->
  lookup_word (V.add_code_word c len' w' s') len w = Some s.
Proof.
  induction len' as [|k' IH]; intros len c w w' s s' H D.
  - destruct len; cbn [differs] in D; contradiction.
  - destruct len as [|k]; [cbn [differs] in D; contradiction|].
    cbn [lookup_word] in H. destruct c as [| |c0 c1]; try discriminate.
    cbn [differs] in D. cbn [V.add_code_word].
    cbn [lookup_word] in H.
    destruct (Z.testbit w' (Z.of_nat k')) eqn:E'; destruct (Z.testbit w (Z.of_nat k)) eqn:E;
      cbn [Bool.eqb] in D; cbn [lookup_word]; rewrite E; try exact H; apply IH; assumption.
Qed.

Lemma mod_pow2_succ x k : 0 <= k -> x mod 2 ^ (k + 1) = x mod 2 ^ k + 2 ^ k * Z.b2z (Z.testbit x k).
Proof.
  intros Hk. rewrite Z.pow_add_r by lia. change (2 ^ 1) with 2.
  pose proof (pow2_pos k Hk). rewrite Z.rem_mul_r by lia. rewrite Z.testbit_spec' by lia. reflexivity.
Qed.

Lemma differs_num len : forall d w w', 0 <= d ->
  w mod 2 ^ Z.of_nat len <> (w' / 2 ^ d) mod 2 ^ Z.of_nat len -> differs len (len + Z.to_nat d) w w'.
Proof.
  induction len as [|k IH]; intros d w w' Hd H.
  - change (2 ^ Z.of_nat 0) with 1 in H. rewrite !Z.mod_1_r in H. contradiction.
  - cbn [Nat.add differs].
    destruct (Bool.eqb _ _) eqn:E; [|exact I]. apply IH; [exact Hd|].
    apply Bool.eqb_prop in E. intros Hc. apply H.
    rewrite Nat2Z.inj_succ, <- Z.add_1_r, !mod_pow2_succ by lia. rewrite Hc. f_equal. f_equal. f_equal.
    rewrite E. rewrite Z.div_pow2_bits by lia. f_equal. clear - Hd. lia.
Qed.

(* ------------------------------------------------------------------------------------------------ *)
(** * inserting a list of pairwise different words *)
Definition entry := (Z * Z * Z)%type.     (* (symbol, length, word) *)
Definition e_ok (c : V.code) (e : entry) : Prop :=
  let '(s, l, w) := e in lookup_word c (Z.to_nat l) w = Some s.
Definition e_diff (e e' : entry) : Prop :=
  let '(_, l, w) := e in let '(_, l', w') := e' in differs (Z.to_nat l) (Z.to_nat l') w w'.
Definition add_entry (c : V.code) (slw : entry) : V.code :=
  match slw with (sym, l, w) => V.add_code_word c (Z.to_nat l) w sym end.

Lemma build_lookup : forall entries c (P : entry -> Prop),
  (forall e, P e -> e_ok c e) ->
  (forall e e', P e -> In e' entries -> e_diff e e') ->
  ForallOrdPairs e_diff entries ->
  forall e, P e \/ In e entries -> e_ok (fold_left add_entry entries c) e.
Proof.
  induction entries as [|e0 rest IH]; intros c P Hok Hd Hop e He; cbn [fold_left].
  - destruct He as [He | []]. apply Hok. exact He.
  - inversion Hop as [|? ? Hall Hop']; subst.
    apply (IH (add_entry c e0) (fun x => P x \/ x = e0)).
    + intros x [Hx | ->].
      * specialize (Hok x Hx). specialize (Hd x e0 Hx (or_introl eq_refl)).
        destruct x as [[s l] w]. destruct e0 as [[s0 l0] w0]. cbn [e_ok e_diff add_entry] in *.
        apply add_lookup_other; assumption.
      * destruct e0 as [[s0 l0] w0]. cbn [e_ok add_entry]. apply add_lookup_same.
    + intros x x' [Hx | ->] Hin.
      * apply Hd; [exact Hx | right; exact Hin].
      * rewrite Forall_forall in Hall. apply Hall. exact Hin.
    + exact Hop'.
    + destruct He as [He | [<- | He]]; [left; left; exact He | left; right; reflexivity | right; exact He].
Qed.

(* ------------------------------------------------------------------------------------------------ *)
(** * the canonical words of the specification, block by block *)
Definition numbered (lens : list Z) : list (Z * Z) := combine (V.zseq 0 (length lens)) lens.
Definition block (lens : list Z) (l : Z) : list (Z * Z) := filter (fun sl => snd sl =? l) (numbered lens).

(* a block of symbols of one length gets consecutive words *)
Fixpoint cwb (w l : Z) (syms : list (Z * Z)) : list entry :=
  match syms with [] => [] | (sym, _) :: rest => (sym, l, w) :: cwb (w + 1) l rest end.

Fixpoint cw_end (next len : Z) (syms : list (Z * Z)) : Z * Z :=
  match syms with [] => (next, len) | (sym, l) :: rest => cw_end (next * 2 ^ (l - len) + 1) l rest end.

Lemma canonical_words_app : forall A B next len,
  V.canonical_words next len (A ++ B)
  = V.canonical_words next len A ++ V.canonical_words (fst (cw_end next len A)) (snd (cw_end next len A)) B.
Proof.
  induction A as [|[sym l] A IH]; intros B next len; cbn [app V.canonical_words cw_end fst snd]; [reflexivity|].
  rewrite IH. reflexivity.
Qed.

Lemma cwb_same_len l : forall syms w, Forall (fun sl => snd sl = l) syms ->
  V.canonical_words w l syms = cwb (w - 1 + 1) l syms /\ cw_end w l syms = (w + zlen syms, l).
Proof.
  induction syms as [|[sym l'] rest IH]; intros w HF.
  - cbn [V.canonical_words cwb cw_end]. change (zlen (@nil (Z * Z))) with 0. rewrite Z.add_0_r. split; reflexivity.
  - apply Forall_cons_iff in HF. destruct HF as [Hl HF]. cbn [snd] in Hl. subst l'.
    cbn [V.canonical_words cwb cw_end]. rewrite Z.sub_diag. change (2 ^ 0) with 1. rewrite Z.mul_1_r.
    destruct (IH (w + 1) HF) as [E1 E2]. rewrite E1, E2, zlen_cons.
    replace (w - 1 + 1) with w by lia. replace (w + 1 - 1 + 1) with (w + 1) by lia. split; [reflexivity | f_equal; lia].
Qed.

Lemma cwb_block l : forall syms next len, Forall (fun sl => snd sl = l) syms ->
  V.canonical_words next len syms = cwb (next * 2 ^ (l - len)) l syms
  /\ cw_end next len syms = match syms with [] => (next, len) | _ => (next * 2 ^ (l - len) + zlen syms, l) end.
Proof.
  intros [|[sym l'] rest] next len HF; [split; reflexivity|].
  apply Forall_cons_iff in HF. destruct HF as [Hl HF]. cbn [snd] in Hl. subst l'.
  cbn [V.canonical_words cwb cw_end].
  destruct (cwb_same_len l rest (next * 2 ^ (l - len) + 1) HF) as [E1 E2]. rewrite E1, E2, zlen_cons.
  replace (next * 2 ^ (l - len) + 1 - 1 + 1) with (next * 2 ^ (l - len) + 1) by lia.
  split; [reflexivity | f_equal; lia].
Qed.

Lemma block_snd lens l : Forall (fun sl => snd sl = l) (block lens l).
Proof. apply Forall_forall. intros x Hx. apply filter_In in Hx. destruct Hx as [_ Hx]. apply Z.eqb_eq. exact Hx. Qed.

Lemma block_length_gen l : forall rest a,
  zlen (filter (fun sl : Z * Z => snd sl =? l) (combine (V.zseq a (length rest)) rest)) = count_eq l rest.
Proof.
  induction rest as [|x tl IH]; intros a; cbn [length V.zseq combine filter count_eq snd]; [reflexivity|].
  destruct (x =? l); [rewrite zlen_cons, IH; lia | rewrite IH; lia].
Qed.

Lemma block_length lens l : zlen (block lens l) = count_eq l lens.
Proof. apply block_length_gen. Qed.

(* the entries of the whole code: for each length 1..15 the block gets next_code(l), next_code(l)+1, ... *)
Lemma canonical_blocks lens : forall k b next len,
  0 <= len <= Z.of_nat b -> next * 2 ^ (Z.of_nat b - len) = KS lens b ->
  V.canonical_words next len (flat_map (block lens) (V.zseq (Z.of_nat b + 1) k))
  = flat_map (fun l => cwb (next_code lens (Z.to_nat l)) l (block lens l)) (V.zseq (Z.of_nat b + 1) k).
Proof.
  induction k as [|k IH]; intros b next len Hlen Hks; cbn [V.zseq flat_map]; [reflexivity|].
  rewrite canonical_words_app.
  destruct (cwb_block (Z.of_nat b + 1) (block lens (Z.of_nat b + 1)) next len (block_snd _ _)) as [E1 E2].
  assert (Hnc : next * 2 ^ (Z.of_nat b + 1 - len) = next_code lens (Z.to_nat (Z.of_nat b + 1))).
  { replace (Z.to_nat (Z.of_nat b + 1)) with (S b) by lia. rewrite next_code_KS, <- Hks.
    replace (Z.of_nat b + 1 - len) with (Z.of_nat b - len + 1) by lia. rewrite Z.pow_add_r by lia. change (2 ^ 1) with 2. ring. }
  rewrite E1, Hnc. f_equal.
  replace (Z.of_nat b + 1 + 1) with (Z.of_nat (S b) + 1) by lia.
  pose proof (block_length lens (Z.of_nat b + 1)) as Hbl.
  assert (HKS : KS lens (S b) = next_code lens (Z.to_nat (Z.of_nat b + 1)) + count_eq (Z.of_nat b + 1) lens).
  { cbn [KS]. replace (Z.to_nat (Z.of_nat b + 1)) with (S b) by lia. rewrite next_code_KS.
    replace (Z.of_nat (S b)) with (Z.of_nat b + 1) by lia. reflexivity. }
  rewrite E2. destruct (block lens (Z.of_nat b + 1)) as [|e0 bl] eqn:Eb.
  - cbn [fst snd]. apply IH; [lia|]. rewrite HKS, <- Hbl. change (zlen (@nil (Z * Z))) with 0.
    rewrite Z.add_0_r, <- Hnc. f_equal. f_equal. lia.
  - cbn [fst snd]. apply IH; [lia|]. rewrite HKS, <- Hbl, Hnc.
    replace (Z.of_nat (S b) - (Z.of_nat b + 1)) with 0 by lia. change (2 ^ 0) with 1. lia.
Qed.

Lemma used_symbols_blocks lens : V.used_symbols lens = flat_map (block lens) (V.zseq 1 15).
Proof. reflexivity. Qed.

Lemma canonical_entries lens :
  V.canonical_words 0 0 (V.used_symbols lens)
  = flat_map (fun l => cwb (next_code lens (Z.to_nat l)) l (block lens l)) (V.zseq 1 15).
Proof.
  rewrite used_symbols_blocks. apply (canonical_blocks lens 15 0 0 0); [cbn; lia | reflexivity].
Qed.

(* membership in a block's entries: the word is next_code + number of earlier symbols of the same length *)
Lemma cwb_in_gen l : forall rest a W s l' w,
  In (s, l', w) (cwb W l (filter (fun sl : Z * Z => snd sl =? l) (combine (V.zseq a (length rest)) rest)))
  <-> l' = l /\ exists k, (k < length rest)%nat /\ s = a + Z.of_nat k /\ nth k rest 0 = l
                          /\ w = W + count_eq l (firstn k rest).
Proof.
  induction rest as [|x tl IH]; intros a W s l' w; cbn [length V.zseq combine filter snd].
  - cbn [cwb In]. split; [intros [] | intros [_ [k [Hk _]]]; cbn in Hk; lia].
  - destruct (x =? l) eqn:Ex.
    + apply Z.eqb_eq in Ex. subst x. cbn [cwb In]. rewrite IH. split.
      * intros [H | [Hl [k [Hk [Hs [Hn Hw]]]]]].
        -- inversion H; subst. split; [reflexivity|]. exists 0%nat. cbn [nth firstn count_eq]. repeat split; lia.
        -- split; [exact Hl|]. exists (S k). cbn [nth firstn count_eq length]. rewrite Z.eqb_refl. repeat split; first [assumption | lia].
      * intros [Hl [[|k] [Hk [Hs [Hn Hw]]]]].
        -- left. cbn [firstn count_eq] in Hw. subst. f_equal; [f_equal|]; lia.
        -- right. split; [exact Hl|]. exists k. cbn [nth firstn count_eq length] in *. rewrite Z.eqb_refl in Hw. repeat split; first [assumption | lia].
    + apply Z.eqb_neq in Ex. rewrite IH. split.
      * intros [Hl [k [Hk [Hs [Hn Hw]]]]]. split; [exact Hl|]. exists (S k). cbn [nth firstn count_eq length].
        replace (x =? l) with false by (symmetry; apply Z.eqb_neq; exact Ex). repeat split; first [assumption | lia].
      * intros [Hl [[|k] [Hk [Hs [Hn Hw]]]]].
        -- cbn [nth] in Hn. contradiction.
        -- split; [exact Hl|]. exists k. cbn [nth firstn count_eq length] in *.
           replace (x =? l) with false in Hw by (symmetry; apply Z.eqb_neq; exact Ex). repeat split; first [assumption | lia].
Qed.

Lemma in_zseq a : forall k x, In x (V.zseq a k) <-> a <= x < a + Z.of_nat k.
Proof.
  intros k. revert a. induction k as [|k IH]; intros a x; cbn [V.zseq In]; [lia|]. rewrite IH. lia.
Qed.

(* every entry of the code, characterised *)
Lemma entries_in lens s l w :
  In (s, l, w) (V.canonical_words 0 0 (V.used_symbols lens))
  <-> 1 <= l <= 15 /\ exists k, (k < length lens)%nat /\ s = Z.of_nat k /\ nth k lens 0 = l
                                /\ w = next_code lens (Z.to_nat l) + count_eq l (firstn k lens).
Proof.
  rewrite canonical_entries, in_flat_map. split.
  - intros [l0 [Hl0 Hin]]. unfold block, numbered in Hin. apply cwb_in_gen in Hin.
    apply in_zseq in Hl0. destruct Hin as [-> [k [Hk [Hs [Hn Hw]]]]]. split; [cbn in Hl0; lia|].
    exists k. repeat split; try assumption; lia.
  - intros [Hl [k [Hk [Hs [Hn Hw]]]]]. exists l. split; [apply in_zseq; cbn; lia|].
    unfold block, numbered. apply cwb_in_gen. split; [reflexivity|]. exists k. repeat split; try assumption; lia.
Qed.

(* ------------------------------------------------------------------------------------------------ *)
(** * order facts: sorted by length, words increase across the list *)
Lemma canonical_words_later : forall syms next len,
  StronglySorted (fun a b : Z * Z => snd a <= snd b) syms -> Forall (fun sl => len <= snd sl) syms -> 0 <= next ->
  Forall (fun e : entry => let '(_, l, w) := e in len <= l /\ next * 2 ^ (l - len) <= w) (V.canonical_words next len syms).
Proof.
  induction syms as [|[sym l] rest IH]; intros next len HS HF Hn; cbn [V.canonical_words]; [constructor|].
  apply Forall_cons_iff in HF. destruct HF as [Hl HF]. cbn [snd] in Hl.
  inversion HS as [|? ? HS' Hall]; subst.
  pose proof (pow2_pos (l - len) ltac:(lia)) as Hp.
  constructor; [split; lia|].
  assert (HF' : Forall (fun sl : Z * Z => l <= snd sl) rest) by exact Hall.
  specialize (IH (next * 2 ^ (l - len) + 1) l HS' HF' ltac:(nia)).
  rewrite Forall_forall in IH |- *. intros [[s' l'] w'] Hin. specialize (IH _ Hin). cbn beta iota in IH.
  destruct IH as [Hl' Hw']. split; [lia|].
  replace (l' - len) with ((l - len) + (l' - l)) by lia. rewrite Z.pow_add_r by lia.
  pose proof (pow2_pos (l' - l) ltac:(lia)). nia.
Qed.

Lemma StronglySorted_app {A} (R : A -> A -> Prop) : forall a b,
  StronglySorted R a -> StronglySorted R b -> (forall x y, In x a -> In y b -> R x y) -> StronglySorted R (a ++ b).
Proof.
  induction a as [|x a IH]; intros b Ha Hb Hab; cbn [app]; [exact Hb|].
  inversion Ha as [|? ? Ha' Hall]; subst. constructor.
  - apply IH; [exact Ha' | exact Hb | intros; apply Hab; [right|]; assumption].
  - apply Forall_app. split; [exact Hall|]. apply Forall_forall. intros y Hy. apply Hab; [left; reflexivity | exact Hy].
Qed.

Lemma same_snd_sorted l : forall syms : list (Z * Z), Forall (fun sl => snd sl = l) syms ->
  StronglySorted (fun a b : Z * Z => snd a <= snd b) syms.
Proof.
  induction syms as [|x tl IH]; intros HF; [constructor|].
  apply Forall_cons_iff in HF. destruct HF as [Hx HF]. constructor; [apply IH; exact HF|].
  rewrite Forall_forall in HF |- *. intros y Hy. rewrite Hx, (HF y Hy). lia.
Qed.

Lemma blocks_sorted lens : forall k a,
  StronglySorted (fun x y : Z * Z => snd x <= snd y) (flat_map (block lens) (V.zseq a k))
  /\ Forall (fun sl => a <= snd sl) (flat_map (block lens) (V.zseq a k)).
Proof.
  induction k as [|k IH]; intros a; cbn [V.zseq flat_map]; [split; constructor|].
  destruct (IH (a + 1)) as [HS HF]. pose proof (block_snd lens a) as Hb. split.
  - apply StronglySorted_app; [apply (same_snd_sorted a); exact Hb | exact HS|].
    intros x y Hx Hy. rewrite Forall_forall in Hb, HF. rewrite (Hb x Hx). specialize (HF y Hy). lia.
  - apply Forall_app. split.
    + rewrite Forall_forall in Hb |- *. intros x Hx. rewrite (Hb x Hx). lia.
    + rewrite Forall_forall in HF |- *. intros x Hx. specialize (HF x Hx). lia.
Qed.

Lemma canonical_ordpairs : forall syms next len,
  StronglySorted (fun a b : Z * Z => snd a <= snd b) syms -> Forall (fun sl => len <= snd sl) syms -> 0 <= next ->
  ForallOrdPairs (fun e e' : entry => let '(_, l, w) := e in let '(_, l', w') := e' in l <= l' /\ (w + 1) * 2 ^ (l' - l) <= w')
                 (V.canonical_words next len syms).
Proof.
  induction syms as [|[sym l] rest IH]; intros next len HS HF Hn; cbn [V.canonical_words]; [constructor|].
  apply Forall_cons_iff in HF. destruct HF as [Hl HF]. cbn [snd] in Hl.
  inversion HS as [|? ? HS' Hall]; subst.
  pose proof (pow2_pos (l - len) ltac:(lia)) as Hp.
  constructor.
  - pose proof (canonical_words_later rest (next * 2 ^ (l - len) + 1) l HS' Hall ltac:(nia)) as H.
    rewrite Forall_forall in H |- *. intros [[s' l'] w'] Hin. specialize (H _ Hin). cbn beta iota in H. exact H.
  - apply IH; [exact HS' | exact Hall | nia].
Qed.

(* ------------------------------------------------------------------------------------------------ *)
(** * Kraft sums *)
Lemma kraft_sum_fold lens : forall acc, Forall (fun l => 0 <= l) lens ->
  fold_left (fun acc l => if l =? 0 then acc else acc + 2 ^ (15 - l)) lens acc = acc + kraft lens 15.
Proof.
  induction lens as [|l tl IH]; intros acc HF; cbn [fold_left kraft]; [lia|].
  apply Forall_cons_iff in HF. destruct HF as [Hl HF]. rewrite IH by exact HF.
  destruct (l =? 0) eqn:E.
  - apply Z.eqb_eq in E. subst l. cbn [Z.ltb Z.compare]. lia.
  - apply Z.eqb_neq in E. replace (0 <? l) with true by (symmetry; apply Z.ltb_lt; lia). lia.
Qed.

Lemma kraft_sum_kraft lens : Forall (fun l => 0 <= l) lens -> V.kraft_sum lens = kraft lens 15.
Proof. intros H. unfold V.kraft_sum. rewrite kraft_sum_fold by exact H. lia. Qed.

Lemma kraft_nonneg lens L : 0 <= kraft lens L.
Proof.
  induction lens as [|l tl IH]; cbn [kraft]; [lia|]. destruct (0 <? l); [|lia].
  pose proof (Z.pow_nonneg 2 (L - l) ltac:(lia)). lia.
Qed.

Lemma kraft_pos_used lens L : 0 < kraft lens L -> exists i, (i < length lens)%nat /\ 0 < nth i lens 0.
Proof.
  induction lens as [|l tl IH]; cbn [kraft]; [lia|]. intros H.
  destruct (0 <? l) eqn:E.
  - apply Z.ltb_lt in E. exists 0%nat. cbn [nth length]. split; lia.
  - destruct (IH ltac:(lia)) as [i [Hi Hn]]. exists (S i). cbn [nth length]. split; [lia | exact Hn].
Qed.

(* a complete code has at least two code words *)
Lemma kraft_two_used lens L : 0 <= L -> kraft lens L = 2 ^ L ->
  exists i j, i <> j /\ (i < length lens)%nat /\ (j < length lens)%nat /\ 0 < nth i lens 0 /\ 0 < nth j lens 0.
Proof.
  intros HL. induction lens as [|l tl IH]; cbn [kraft]; intros H.
  - pose proof (pow2_pos L HL). lia.
  - destruct (0 <? l) eqn:E.
    + apply Z.ltb_lt in E.
      assert (Hlt : 2 ^ (L - l) < 2 ^ L).
      { destruct (Z.le_gt_cases l L); [apply Z.pow_lt_mono_r; lia|].
        rewrite Z.pow_neg_r by lia. apply pow2_pos; lia. }
      destruct (kraft_pos_used tl L ltac:(lia)) as [j [Hj Hn]].
      exists 0%nat, (S j). cbn [nth length]. repeat split; first [assumption | lia].
    + destruct (IH ltac:(lia)) as [i [j [Hij [Hi [Hj [Hni Hnj]]]]]].
      exists (S i), (S j). cbn [nth length]. repeat split; try lia; assumption.
Qed.

(* rescaling the Kraft sum to a larger limit *)
Lemma kraft_scale lens L d : 0 <= d -> Forall (fun l => 0 <= l <= L) lens -> kraft lens (L + d) = 2 ^ d * kraft lens L.
Proof.
  intros Hd. induction 1 as [|l tl Hl _ IH]; cbn [kraft]; [lia|]. rewrite IH.
  destruct (0 <? l); [|lia]. replace (L + d - l) with (d + (L - l)) by lia. rewrite Z.pow_add_r by lia. lia.
Qed.

(* ------------------------------------------------------------------------------------------------ *)
(** * the stream code word of a symbol *)
Lemma canonical_from_nth all : forall rest seen k, (k < length rest)%nat ->
  nth k (canonical_from all seen rest) 0
  = if nth k rest 0 =? 0 then 0
    else next_code all (Z.to_nat (nth k rest 0)) + (count_eq (nth k rest 0) seen + count_eq (nth k rest 0) (firstn k rest)).
Proof.
  induction rest as [|l tl IH]; intros seen k Hk; cbn [length] in Hk; [lia|].
  destruct k as [|k]; cbn [canonical_from nth firstn].
  - cbn [count_eq]. rewrite Z.add_0_r. reflexivity.
  - rewrite IH by lia. destruct (nth k tl 0 =? 0); [reflexivity|]. cbn [count_eq]. lia.
Qed.

Lemma map2_nth {A B C} (f : A -> B -> C) da db dc : forall la lb k, (k < length la)%nat -> (k < length lb)%nat ->
  nth k (map2 f la lb) dc = f (nth k la da) (nth k lb db).
Proof.
  induction la as [|a la IH]; intros [|b lb] k Ha Hb; cbn [length] in *; try lia.
  destruct k; cbn [map2 nth]; [reflexivity | apply IH; lia].
Qed.

Lemma canonical_from_length all : forall rest seen, length (canonical_from all seen rest) = length rest.
Proof. induction rest as [|l tl IH]; intros seen; cbn [canonical_from length]; [reflexivity | rewrite IH; reflexivity]. Qed.

Lemma stream_codes_nth lens k : (k < length lens)%nat -> 0 < nth k lens 0 ->
  nth k (stream_codes lens) 0
  = rev_bits (nth k lens 0) (next_code lens (Z.to_nat (nth k lens 0)) + count_eq (nth k lens 0) (firstn k lens)).
Proof.
  intros Hk Hp. unfold stream_codes, canonical.
  rewrite (map2_nth rev_bits 0 0 0) by (rewrite ?canonical_from_length; exact Hk).
  rewrite canonical_from_nth by exact Hk.
  replace (nth k lens 0 =? 0) with false by (symmetry; apply Z.eqb_neq; lia). cbn [count_eq]. reflexivity.
Qed.

(* ------------------------------------------------------------------------------------------------ *)
(** * L2 *)
Definition code_tree (lens : list Z) : V.code :=
  fold_left add_entry (V.canonical_words 0 0 (V.used_symbols lens)) V.Unused.

Lemma make_code_complete lens : Forall (fun l => 0 <= l <= 15) lens -> kraft lens 15 = 2 ^ 15 ->
  V.make_code lens = Some (code_tree lens).
Proof.
  intros HF Hk. unfold V.make_code.
  destruct (kraft_two_used lens 15 ltac:(lia) Hk) as [i [j [Hij [Hi [Hj [Hni Hnj]]]]]].
  assert (Hin : forall k, (k < length lens)%nat -> 0 < nth k lens 0 ->
                          exists w, In (Z.of_nat k, nth k lens 0, w) (V.canonical_words 0 0 (V.used_symbols lens))).
  { intros k Hk' Hn. eexists. apply entries_in. rewrite Forall_forall in HF.
    pose proof (HF _ (nth_In lens 0 Hk')). split; [lia|]. exists k. repeat split; try reflexivity. exact Hk'. }
  rewrite kraft_sum_kraft by (eapply Forall_impl; [|exact HF]; cbn; intros; lia). rewrite Hk, Z.eqb_refl.
  destruct (Hin i Hi Hni) as [wi Hwi]. destruct (Hin j Hj Hnj) as [wj Hwj].
  destruct (V.used_symbols lens) as [|[s0 l0] [|e1 rest]] eqn:Eu.
  - cbn in Hwi. contradiction.
  - cbn [V.canonical_words In] in Hwi, Hwj. destruct Hwi as [Hwi | []]. destruct Hwj as [Hwj | []].
    inversion Hwi. inversion Hwj. lia.
  - unfold code_tree. rewrite Eu. reflexivity.
Qed.

Lemma skipn_nth_cons : forall k (l : list Z), (k < length l)%nat -> skipn k l = nth k l 0 :: skipn (S k) l.
Proof.
  induction k as [|k IH]; intros [|x tl] H; cbn [length] in H; try lia; [reflexivity|].
  cbn [skipn nth]. cbn [skipn] in IH. apply IH. lia.
Qed.

Theorem code_tree_lookup lens : Forall (fun l => 0 <= l <= 15) lens -> kraft lens 15 = 2 ^ 15 ->
  forall k, (k < length lens)%nat -> 0 < nth k lens 0 ->
  lookup_word (code_tree lens) (Z.to_nat (nth k lens 0))
              (next_code lens (Z.to_nat (nth k lens 0)) + count_eq (nth k lens 0) (firstn k lens)) = Some (Z.of_nat k).
Proof.
  intros HF Hk k Hkl Hn.
  set (entries := V.canonical_words 0 0 (V.used_symbols lens)).
  assert (HKS : KS lens 15 = 2 ^ Z.of_nat 15).
  { rewrite <- (kraft_KS lens 15); [exact Hk | exact HF]. }
  (* every entry's word fits its length *)
  assert (Hfit : forall s l w, In (s, l, w) entries -> 1 <= l <= 15 /\ 0 <= w < 2 ^ l).
  { intros s l w Hin. apply entries_in in Hin. destruct Hin as [Hl [k' [Hk' [Hs [Hnk Hw]]]]]. split; [exact Hl|].
    pose proof (KS_bound lens 15 (Z.to_nat l) HKS ltac:(lia)) as Hb.
    destruct (Z.to_nat l) as [|b0] eqn:Eb; [lia|].
    rewrite next_code_KS in Hw. cbn [KS] in Hb. replace (Z.of_nat (S b0)) with l in Hb by lia.
    pose proof (KS_nonneg lens b0). pose proof (count_eq_nonneg l (firstn k' lens)).
    assert (Hc : count_eq l (firstn k' lens) < count_eq l lens).
    { rewrite <- (firstn_skipn k' lens) at 2. rewrite count_eq_app.
      rewrite (skipn_nth_cons k' lens) by exact Hk'. cbn [count_eq]. rewrite Hnk, Z.eqb_refl.
      pose proof (count_eq_nonneg l (skipn (S k') lens)). lia. }
    lia. }
  pose proof (blocks_sorted lens 15 1) as [HS HFl]. rewrite <- used_symbols_blocks in HS, HFl.
  assert (Hop : ForallOrdPairs e_diff entries).
  { pose proof (canonical_ordpairs (V.used_symbols lens) 0 0 HS
                  ltac:(eapply Forall_impl; [|exact HFl]; cbn; intros; lia) ltac:(lia)) as H.
    fold entries in H.
    assert (G : forall l0 : list entry, (forall e, In e l0 -> In e entries) ->
       ForallOrdPairs (fun e e' : entry => let '(_, l, w) := e in let '(_, l', w') := e' in l <= l' /\ (w + 1) * 2 ^ (l' - l) <= w') l0 ->
       ForallOrdPairs e_diff l0).
    { induction l0 as [|e0 l0 IHl]; intros Hsub Hp; [constructor|].
      inversion Hp as [|? ? Hall Hp']; subst. constructor.
      - rewrite Forall_forall in Hall |- *. intros e' He'. specialize (Hall e' He').
        destruct e0 as [[s l] w]. destruct e' as [[s' l'] w']. cbn beta iota in Hall. destruct Hall as [Hll Hww].
        destruct (Hfit s l w (Hsub _ (or_introl eq_refl))) as [Hl Hw].
        destruct (Hfit s' l' w' (Hsub _ (or_intror He'))) as [Hl' Hw'].
        unfold e_diff. replace (Z.to_nat l') with (Z.to_nat l + Z.to_nat (l' - l))%nat by lia.
        apply differs_num; [lia|]. rewrite Z2Nat.id by lia. rewrite (Z.mod_small w) by lia.
        pose proof (pow2_pos (l' - l) ltac:(lia)) as Hp2.
        assert (w + 1 <= w' / 2 ^ (l' - l)) by (apply Z.div_le_lower_bound; lia).
        assert (w' / 2 ^ (l' - l) < 2 ^ l).
        { apply Z.div_lt_upper_bound; [lia|]. rewrite <- Z.pow_add_r by lia. replace (l' - l + l) with l' by lia. lia. }
        rewrite Z.mod_small by lia. lia.
      - apply IHl; [intros e He; apply Hsub; right; exact He | exact Hp']. }
    apply G; [auto | exact H]. }
  pose proof (build_lookup entries V.Unused (fun _ => False) ltac:(intros e []) ltac:(intros e e' []) Hop) as HB.
  specialize (HB (Z.of_nat k, nth k lens 0, next_code lens (Z.to_nat (nth k lens 0)) + count_eq (nth k lens 0) (firstn k lens))).
  apply HB. right. apply entries_in. rewrite Forall_forall in HF. pose proof (HF _ (nth_In lens 0 Hkl)).
  split; [lia|]. exists k. repeat split; try reflexivity. exact Hkl.
Qed.


(* L2: the encoder's word for symbol k is read back as k *)
Theorem prefix_code_roundtrip : forall lens, Forall (fun l => 0 <= l <= 15) lens -> kraft lens 15 = 2 ^ 15 ->
  exists c, V.make_code lens = Some c /\
    forall k, (k < length lens)%nat -> 0 < nth k lens 0 ->
      parses (V.read_symbol c) (bits_of (Z.to_nat (nth k lens 0)) (nth k (stream_codes lens) 0)) (Z.of_nat k).
Proof.
  intros lens HF Hk. exists (code_tree lens). split; [apply make_code_complete; assumption|].
  intros k Hkl Hn. rewrite stream_codes_nth by assumption. rewrite bits_of_rev_bits.
  apply read_symbol_lookup. apply code_tree_lookup; assumption.
Qed.

(* a code with a single used symbol: a bare leaf, reading it consumes nothing *)
Lemma make_code_single lens k l : (k < length lens)%nat -> 1 <= l <= 15 ->
  (forall i, (i < length lens)%nat -> nth i lens 0 = if Nat.eqb i k then l else 0) ->
  V.make_code lens = Some (V.Symbol (Z.of_nat k)).
Proof.
  intros Hk Hl Hall. unfold V.make_code.
  assert (Hin : forall s l', In (s, l') (V.used_symbols lens) <-> s = Z.of_nat k /\ l' = l).
  { intros s l'. rewrite used_symbols_blocks, in_flat_map. split.
    - intros [l0 [Hl0 Hin]]. unfold block in Hin. apply filter_In in Hin. destruct Hin as [Hin Hs]. cbn [snd] in Hs.
      apply Z.eqb_eq in Hs. subst l0. apply in_zseq in Hl0.
      unfold numbered in Hin. apply (In_nth _ _ (0, 0)) in Hin. destruct Hin as [i [Hi Ei]].
      rewrite combine_length in Hi. rewrite combine_nth in Ei.
      2:{ clear. generalize 0. induction (length lens); intros; cbn [V.zseq length]; [reflexivity | rewrite IHn; reflexivity]. }
      apply pair_equal_spec in Ei. destruct Ei as [E1 E2]. assert (Hil : (i < length lens)%nat) by lia.
      rewrite (Hall i Hil) in E2. destruct (Nat.eqb i k) eqn:Eik; [|cbn in Hl0; lia].
      apply Nat.eqb_eq in Eik. subst i. split; [|lia]. subst s.
      clear - Hil. revert Hil. generalize (length lens) as n. intros n.
      assert (G : forall n a i, (i < n)%nat -> nth i (V.zseq a n) 0 = a + Z.of_nat i).
      { induction n0 as [|n0 IH]; intros a i Hi; [lia|]. destruct i; cbn [V.zseq nth]; [lia | rewrite IH by lia; lia]. }
      intros Hil. rewrite G by exact Hil. lia.
    - intros [-> ->]. exists l. split; [apply in_zseq; cbn; lia|]. unfold block. apply filter_In. cbn [snd]. split; [|apply Z.eqb_refl].
      unfold numbered.
      assert (G : forall (rest : list Z) a i, (i < length rest)%nat -> In (a + Z.of_nat i, nth i rest 0) (combine (V.zseq a (length rest)) rest)).
      { induction rest as [|x tl IH]; intros a i Hi; cbn [length] in Hi; [lia|]. cbn [length V.zseq combine].
        destruct i; cbn [nth]; [left; f_equal; lia | right]. replace (a + Z.of_nat (S i)) with (a + 1 + Z.of_nat i) by lia. apply IH. lia. }
      pose proof (G lens 0 k Hk) as H. rewrite (Hall k Hk), Nat.eqb_refl in H. exact H. }
  assert (Hlen : zlen (V.used_symbols lens) = 1).
  { rewrite used_symbols_blocks.
    assert (G : forall n a, zlen (flat_map (block lens) (V.zseq a n)) = zsum (map (fun b => count_eq b lens) (V.zseq a n))).
    { induction n as [|n IH]; intros a; cbn [V.zseq flat_map map zsum]; [reflexivity|]. rewrite zlen_app, IH, block_length. reflexivity. }
    rewrite G.
    assert (C : forall b, count_eq b lens = if b =? 0 then zlen lens - 1 else if b =? l then 1 else 0).
    { intros b. clear Hin G. revert k Hk Hall. induction lens as [|x tl IH]; intros k Hk Hall; cbn [length] in Hk; [lia|].
      cbn [count_eq]. rewrite zlen_cons. destruct k as [|k].
      - pose proof (Hall 0%nat ltac:(cbn; lia)) as H0. cbn [nth Nat.eqb] in H0. subst x.
        assert (Ht : forall i, (i < length tl)%nat -> nth i tl 0 = 0).
        { intros i Hi. specialize (Hall (S i) ltac:(cbn [length]; lia)). cbn [nth Nat.eqb] in Hall. exact Hall. }
        assert (Hz : count_eq b tl = if b =? 0 then zlen tl else 0).
        { clear - Ht. induction tl as [|y tl IH]; cbn [count_eq]; [destruct (b =? 0); reflexivity|].
          pose proof (Ht 0%nat ltac:(cbn; lia)) as Hy. cbn [nth] in Hy. subst y.
          rewrite IH by (intros i Hi; apply (Ht (S i)); cbn [length]; lia). rewrite zlen_cons, (Z.eqb_sym 0 b).
          destruct (b =? 0); lia. }
        rewrite Hz. destruct (b =? 0) eqn:E0; [apply Z.eqb_eq in E0; subst b; replace (l =? 0) with false by (symmetry; apply Z.eqb_neq; lia); lia|].
        rewrite (Z.eqb_sym l b). destruct (b =? l); lia.
      - pose proof (Hall 0%nat ltac:(cbn; lia)) as H0. cbn [nth Nat.eqb] in H0. subst x.
        rewrite (IH k ltac:(lia)).
        2:{ intros i Hi. specialize (Hall (S i) ltac:(cbn [length]; lia)). cbn [nth Nat.eqb] in Hall. exact Hall. }
        rewrite (Z.eqb_sym 0 b). destruct (b =? 0); lia. }
    cbn [V.zseq map zsum]. rewrite !C.
    assert (Hc : l = 1 \/ l = 2 \/ l = 3 \/ l = 4 \/ l = 5 \/ l = 6 \/ l = 7 \/ l = 8 \/ l = 9 \/ l = 10 \/ l = 11 \/ l = 12
                 \/ l = 13 \/ l = 14 \/ l = 15) by lia.
    repeat (destruct Hc as [-> | Hc]; [reflexivity|]). subst l. reflexivity. }
  destruct (V.used_symbols lens) as [|[s0 l0] [|e1 rest]] eqn:Eu.
  - change (zlen (@nil (Z * Z))) with 0 in Hlen. lia.
  - destruct (Hin s0 l0) as [H _]. destruct (H (or_introl eq_refl)) as [-> _]. reflexivity.
  - rewrite !zlen_cons in Hlen. pose proof (zlen_nonneg rest). lia.
Qed.

Lemma read_symbol_leaf v : parses (V.read_symbol (V.Symbol v)) [] v.
Proof. intros s rest H. exists s. split; [reflexivity | exact H]. Qed.

(* statement tests *)
Example prefix_code_instance :
  let lens := [2; 1; 3; 3] in
  kraft lens 15 = 2 ^ 15 /\ stream_codes lens = [1; 0; 3; 7] /\
  exists c, V.make_code lens = Some c /\
    V.read_symbol c (V.Stream [] [3 + 8 * 7 + 64 * 1]) = Some (2, V.Stream [true; true; true; true; false] []).
Proof. vm_compute. repeat split. eexists. split; reflexivity. Qed.
