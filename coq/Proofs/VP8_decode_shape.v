(* VP8 whole-frame decoding, part 2: what the parsing half hands on is well-typed, by the Model's own checks.
   `LumaMode::from_i8`, `ChromaMode::from_i8`, `IntraMode::from_i8(..).ok_or(..)?` and `into_intra` are explicit in
   Model.Vp8Parse.read_macroblock_header, so whenever it returns Ok the MacroBlock has 16 sub-block modes in 0..9, a luma
   mode in 0..4 and a chroma mode in 0..3 -- for ANY decoder state (no invariant of the loop is needed).  These are the
   Rust type invariants (enum discriminants) that the mode renumberings between the crate and the reference need. *)
From Coq Require Import ZArith Lia List Bool.
From WebP Require Import Lib.Res Gen.Tables Model.ArithDec Model.Vp8Parse Model.Vp8Frame Proofs.VP8_parse_mbheader.
Import ListNotations.
Open Scope Z_scope.
Open Scope res_scope.

Definition bshape (mb : MacroBlock) : Prop := length (mb_bpred mb) = 16%nat /\ modes_ok (mb_bpred mb).
Definition rec_shape (mb : MacroBlock) : Prop :=
  bshape mb /\ 0 <= mb_luma_mode mb <= 4 /\ 0 <= mb_chroma_mode mb <= 3.

Ltac bstep H :=
  lazymatch type of H with
  | bind ?e _ = Ok _ => let E := fresh "E" in destruct e eqn:E; cbn [bind] in H; [|discriminate H ..]
  end.

Lemma set_nth_shape {A} (P : A -> Prop) (l : list A) : forall n x l', set_nth l n x = Some l' ->
  length l' = length l /\ (Forall P l -> P x -> Forall P l').
Proof.
  induction l as [|y l IH]; intros n x l' H; [destruct n; discriminate H|].
  destruct n as [|n]; cbn [set_nth] in H.
  - injection H as <-. split; [reflexivity|]. intros F Px. inversion F; subst. constructor; assumption.
  - destruct (set_nth l n x) as [r|] eqn:E; [|discriminate H]. injection H as <-.
    destruct (IH n x r E) as [L F]. split; [cbn [length]; lia|]. intros Fl Px. inversion Fl; subst. constructor; auto.
Qed.

Lemma set_idx_shape {A} (P : A -> Prop) (l : list A) i x l' : set_idx l i x = Ok l' ->
  length l' = length l /\ (Forall P l -> P x -> Forall P l').
Proof.
  unfold set_idx. destruct (i <? 0); [discriminate|]. destruct (set_nth l (Z.to_nat i) x) as [r|] eqn:E; [|discriminate].
  cbn [of_option]. intros H. injection H as <-. exact (set_nth_shape P l _ x r E).
Qed.

Lemma set_bpred_shape mb i x bp : set_idx (mb_bpred mb) i x = Ok bp -> mode_ok x -> bshape mb ->
  bshape (mb_set_bpred mb bp) /\ mb_luma_mode (mb_set_bpred mb bp) = mb_luma_mode mb /\ mb_chroma_mode (mb_set_bpred mb bp) = mb_chroma_mode mb.
Proof.
  intros E Hx [L M]. destruct (set_idx_shape mode_ok _ _ _ _ E) as [L' F'].
  unfold bshape, mb_set_bpred. cbn [mb_bpred mb_luma_mode mb_chroma_mode]. repeat split; [lia | exact (F' M Hx)].
Qed.

Lemma intra_from_i8_ok x m : IntraMode_from_i8 x = Some m -> mode_ok m.
Proof.
  unfold IntraMode_from_i8, mode_ok. destruct (Z.leb_spec 0 x); destruct (Z.leb_spec x 9); cbn [andb]; try discriminate.
  intros Heq. injection Heq as <-. lia.
Qed.

Lemma bpred_row_shape nx : forall x y v mb mbx v' mb', bpred_row nx x y v mb mbx = Ok (v', mb') -> bshape mb ->
  bshape mb' /\ mb_luma_mode mb' = mb_luma_mode mb /\ mb_chroma_mode mb' = mb_chroma_mode mb.
Proof.
  induction nx as [|m IH]; intros x y v mb mbx v' mb' H Hs; cbn [bpred_row] in H.
  - injection H as <- <-. repeat split; try reflexivity; apply Hs.
  - bstep H. bstep H. bstep H. bstep H. destruct a2 as [intra b1].
    destruct (IntraMode_from_i8 intra) as [bm|] eqn:EI; cbn [bind] in H; [|discriminate H].
    bstep H. bstep H. bstep H.
    destruct (set_bpred_shape mb _ _ _ E3 (intra_from_i8_ok _ _ EI) Hs) as (S1 & L1 & C1).
    destruct (IH _ _ _ _ _ _ _ H S1) as (S2 & L2 & C2). split; [exact S2|]. split; congruence.
Qed.

Lemma bpred_rows_shape ny : forall y v mb mbx v' mb', bpred_rows ny y v mb mbx = Ok (v', mb') -> bshape mb ->
  bshape mb' /\ mb_luma_mode mb' = mb_luma_mode mb /\ mb_chroma_mode mb' = mb_chroma_mode mb.
Proof.
  induction ny as [|m IH]; intros y v mb mbx v' mb' H Hs; cbn [bpred_rows] in H.
  - injection H as <- <-. repeat split; try reflexivity; apply Hs.
  - bstep H. destruct a as [v1 mb1]. destruct (bpred_row_shape _ _ _ _ _ _ _ _ E Hs) as (S1 & L1 & C1).
    destruct (IH _ _ _ _ _ _ H S1) as (S2 & L2 & C2). split; [exact S2|]. split; congruence.
Qed.

Lemma fill_modes_shape n : forall i v mb mode v' mb', fill_modes n i v mb mode = Ok (v', mb') -> mode_ok mode -> bshape mb ->
  bshape mb' /\ mb_luma_mode mb' = mb_luma_mode mb /\ mb_chroma_mode mb' = mb_chroma_mode mb.
Proof.
  induction n as [|m IH]; intros i v mb mode v' mb' H Hm Hs; cbn [fill_modes] in H.
  - injection H as <- <-. repeat split; try reflexivity; apply Hs.
  - bstep H. bstep H.
    destruct (set_bpred_shape mb _ _ _ E Hm Hs) as (S1 & L1 & C1).
    destruct (IH _ _ _ _ _ _ H Hm S1) as (S2 & L2 & C2). split; [exact S2|]. split; congruence.
Qed.

Lemma into_intra_ok lm mode : LumaMode_into_intra lm = Some mode -> mode_ok mode.
Proof.
  unfold LumaMode_into_intra, mode_ok.
  repeat match goal with |- (if ?c then _ else _) = _ -> _ => destruct c end; intros H; try discriminate H; injection H as <-;
    unfold vp8_B_DC_PRED, vp8_B_VE_PRED, vp8_B_HE_PRED, vp8_B_TM_PRED; lia.
Qed.

Lemma default_bshape : bshape MacroBlock_default.
Proof. split; [reflexivity|]. apply Forall_forall. intros x Hx. apply repeat_spec in Hx. subst x. unfold mode_ok. lia. Qed.

Theorem read_macroblock_header_shape v mbx mb v' : read_macroblock_header v mbx = Ok (mb, v') -> rec_shape mb.
Proof.
  unfold read_macroblock_header. intros H.
  (* segment id *)
  bstep H. destruct a as [mb1 v1].
  assert (P1 : bshape mb1 /\ mb_luma_mode mb1 = 0 /\ mb_chroma_mode mb1 = 0).
  { destruct (v_segments_enabled v && v_segments_update_map v).
    - bstep E. destruct a as [id b1]. injection E as <- _. split; [exact default_bshape | split; reflexivity].
    - injection E as <- _. split; [exact default_bshape | split; reflexivity]. }
  clear E.
  (* skip flag *)
  bstep H. destruct a as [skipped v2]. clear E.
  (* inter_predicted *)
  bstep H. destruct a as [inter v3]. clear E. destruct inter; [discriminate H|].
  set (mb2 := mb_set_coeffs_skipped mb1 skipped) in *.
  assert (P2 : bshape mb2 /\ mb_luma_mode mb2 = 0 /\ mb_chroma_mode mb2 = 0) by exact P1.
  clearbody mb2. clear P1.
  (* modes *)
  bstep H. destruct a as [mb3 v4].
  assert (P3 : rec_shape mb3).
  { destruct (fi_keyframe (v_frame v3)).
    - bstep E. bstep E. destruct a0 as [luma b1].
      destruct (LumaMode_from_i8 luma) as [lm|] eqn:EL; cbn [bind] in E; [|discriminate E].
      assert (Hlm : 0 <= lm <= 4).
      { unfold LumaMode_from_i8 in EL. destruct (Z.leb_spec 0 luma); destruct (Z.leb_spec luma 4); cbn [andb] in EL; try discriminate EL.
        injection EL as <-. lia. }
      bstep E. destruct a0 as [v5 mb4].
      assert (P4 : bshape mb4 /\ mb_luma_mode mb4 = lm /\ mb_chroma_mode mb4 = 0).
      { destruct P2 as (S2 & L2 & C2).
        assert (S2' : bshape (mb_set_luma_mode mb2 lm)) by exact S2.
        destruct (LumaMode_into_intra lm) as [mode|] eqn:EI.
        - destruct (fill_modes_shape _ _ _ _ _ _ _ E2 (into_intra_ok _ _ EI) S2') as (A & B & C). split; [exact A|]. split; [rewrite B; reflexivity | rewrite C; exact C2].
        - destruct (bpred_rows_shape _ _ _ _ _ _ _ E2 S2') as (A & B & C). split; [exact A|]. split; [rewrite B; reflexivity | rewrite C; exact C2]. }
      bstep E. bstep E. destruct a1 as [chroma b2].
      destruct (ChromaMode_from_i8 chroma) as [cm|] eqn:EC; cbn [bind] in E; [|discriminate E].
      injection E as <- _. destruct P4 as (S4 & L4 & C4).
      unfold rec_shape. split; [exact S4|]. cbn [mb_set_chroma_mode mb_luma_mode mb_chroma_mode]. split; [lia|].
      unfold ChromaMode_from_i8 in EC. destruct (Z.leb_spec 0 chroma); destruct (Z.leb_spec chroma 3); cbn [andb] in EC; try discriminate EC.
      injection EC as <-. lia.
    - injection E as <- _. destruct P2 as (S2 & L2 & C2). split; [exact S2|]. lia. }
  clear E.
  bstep H. bstep H. bstep H. unfold check in E1. destruct (is_past_eof _); [discriminate E1|]. injection E1 as <-. injection H as <- _. exact P3.
Qed.

(* ---------- the loops ---------- *)
Lemma parse_macroblock_shape v mbx p mb blocks v' : parse_macroblock v mbx p = Ok (mb, blocks, v') -> rec_shape mb.
Proof.
  unfold parse_macroblock. intros H. bstep H. destruct a as [mb0 v0].
  pose proof (read_macroblock_header_shape _ _ _ _ E) as S0.
  destruct (negb (mb_coeffs_skipped mb0)).
  - bstep H. destruct a as [[bl nz] v1]. injection H as <- _ _. exact S0.
  - bstep H. injection H as <- _ _. exact S0.
Qed.

Definition recs_shape (recs : list (MacroBlock * list Z)) : Prop := Forall (fun r => rec_shape (fst r)) recs.

Lemma parse_mb_row_shape n : forall mbx v p acc acc' v', parse_mb_row n mbx v p acc = Ok (acc', v') -> recs_shape acc -> recs_shape acc'.
Proof.
  induction n as [|n IH]; intros mbx v p acc acc' v' H Ha; cbn [parse_mb_row] in H.
  - injection H as <- _. exact Ha.
  - bstep H. destruct a as [[mb blocks] v1]. apply (IH _ _ _ _ _ _ H). constructor; [exact (parse_macroblock_shape _ _ _ _ _ _ E) | exact Ha].
Qed.

Lemma parse_mb_rows_shape n : forall mby v acc acc' v', parse_mb_rows n mby v acc = Ok (acc', v') -> recs_shape acc -> recs_shape acc'.
Proof.
  induction n as [|n IH]; intros mby v acc acc' v' H Ha; cbn [parse_mb_rows] in H.
  - injection H as <- _. exact Ha.
  - bstep H. bstep H. destruct a0 as [acc1 v1]. apply (IH _ _ _ _ _ H). exact (parse_mb_row_shape _ _ _ _ _ _ _ E0 Ha).
Qed.

Theorem parse_frame_shape data recs v : parse_frame data = Ok (recs, v) -> recs_shape recs.
Proof.
  unfold parse_frame, parse_frame_loop. intros H. bstep H. bstep H. bstep H. destruct a1 as [acc v1]. injection H as <- _.
  pose proof (parse_mb_rows_shape _ _ _ _ _ _ E1 (Forall_nil _)) as S.
  rewrite rev_append_rev, app_nil_r. apply Forall_rev. exact S.
Qed.
