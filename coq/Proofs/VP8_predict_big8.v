(* Proofs/VP8_predict_big8.v -- predict_vpred / predict_hpred / predict_tmpred / predict_dcpred on a chroma workspace
   (9 rows x 9 columns), as intra_predict_chroma calls them; cell (y, x) = index y * 9 + x. *)
From Coq Require Import ZArith List Bool Lia.
From WebP Require Import Lib.Res Lib.ZBits Gen.Kernels Spec.VP8 Proofs.VP8_kernels Model.Vp8Predict Proofs.VP8_predict_base.
Import ListNotations.
Open Scope Z_scope.

Ltac cells_chroma y x :=
  repeat rewrite get_fillf by side;
  rows9 y;
  destruct (Z.eq_dec x 0) as [->|?];
  reads.

Theorem predict_vpred_chroma a :
  len a = 81 ->
  exists a', predict_vpred a 8 1 1 9 = Ok a' /\ len a' = 81 /\
    forall y x, 0 <= y < 9 -> 0 <= x < 9 ->
      get a' (y * 9 + x) = if (1 <=? y) && (1 <=? x) then get a x else get a (y * 9 + x).
Proof.
  intros Hl. unfold predict_vpred. rewrite Hl.
  change (Z.to_nat (Z.min 8 ((81 - 9 * 1) / 9))) with 8%nat.
  change (Z.to_nat (Z.min (9 - 1) (9 * 1 - 1))) with 8%nat.
  execB.
  eexists. split; [reflexivity|]. split; [lens; exact Hl|].
  intros y x Hy Hx.
  cells_chroma y x; try reflexivity; try (apply f_equal; lia).
Qed.

Theorem predict_hpred_chroma a :
  len a = 81 ->
  exists a', predict_hpred a 8 1 1 9 = Ok a' /\ len a' = 81 /\
    forall y x, 0 <= y < 9 -> 0 <= x < 9 ->
      get a' (y * 9 + x) = if (1 <=? y) && (1 <=? x) then get a (y * 9) else get a (y * 9 + x).
Proof.
  intros Hl. unfold predict_hpred. rewrite Hl.
  change (Z.to_nat (Z.max 0 (Z.min 8 (81 / 9 - 1)))) with 8%nat.
  change (Z.to_nat (9 - 1)) with 8%nat.
  execB.
  eexists. split; [reflexivity|]. split; [lens; exact Hl|].
  intros y x Hy Hx.
  cells_chroma y x; try reflexivity; try (apply f_equal; lia).
Qed.

Theorem predict_tmpred_chroma a :
  len a = 81 ->
  exists a', predict_tmpred a 8 1 1 9 = Ok a' /\ len a' = 81 /\
    forall y x, 0 <= y < 9 -> 0 <= x < 9 ->
      get a' (y * 9 + x) = if (1 <=? y) && (1 <=? x)
                           then clip255 (get a x + get a (y * 9) - get a 0) else get a (y * 9 + x).
Proof.
  intros Hl. unfold predict_tmpred. rewrite Hl.
  execB.
  change (Z.to_nat 8) with 8%nat.
  change (Z.to_nat (Z.min 8 (1 * 9 + (1 - 1) - ((1 - 1) * 9 + 1)))) with 8%nat.
  execB.
  eexists. split; [reflexivity|]. split; [lens; exact Hl|].
  intros y x Hy Hx.
  cells_chroma y x.
  all: try reflexivity.
  all: rewrite clamp255_spec; apply f_equal.
  all: match goal with |- get ?b ?i - get ?b ?k + get ?b ?j = get ?b ?j' + get ?b ?i' - get ?b ?k' =>
         replace i with i' by lia; replace j with j' by lia; replace k with k' by lia; lia end.
Qed.

Lemma dc_fill_chroma a dc :
  len a = 81 ->
  exists a',
    rows 8 a 0 0 0 (fun y _ s =>
      let start := 1 + 9 * (y + 1) in
      if len s <? start then Panic PSlice else
      if len s - start <? 8 then Panic PSlice else
      copyf 8 s start 0 (fun _ => dc)) = Ok a' /\ len a' = 81 /\
    forall y x, 0 <= y < 9 -> 0 <= x < 9 ->
      get a' (y * 9 + x) = if (1 <=? y) && (1 <=? x) then dc else get a (y * 9 + x).
Proof.
  intros Hl. cbv zeta. execB.
  eexists. split; [reflexivity|]. split; [lens; exact Hl|].
  intros y x Hy Hx.
  cells_chroma y x; reflexivity.
Qed.

Theorem predict_dcpred_chroma a above left :
  len a = 81 -> bytes a ->
  exists a', predict_dcpred a 8 9 above left = Ok a' /\ len a' = 81 /\
    forall y x, 0 <= y < 9 -> 0 <= x < 9 ->
      get a' (y * 9 + x) =
      if (1 <=? y) && (1 <=? x)
      then dc_big (tabulate (fun i => get a (1 + i)) 8) (tabulate (fun j => get a ((1 + j) * 9)) 8) 8 3 above left
      else get a (y * 9 + x).
Proof.
  intros Hl Hb. unfold predict_dcpred. change (8 =? 8) with true. cbv iota.
  change (Z.to_nat 8) with 8%nat. rewrite Hl.
  destruct left, above; cbn [sum_left sum_range negb andb];
    repeat first [rewrite rd_ok by side | rewrite ltb_false by side | progress cbn [bind]];
    set (dc := Z.modulo _ 256);
    (match goal with |- context [dc_big ?t ?l ?sz ?sh ?ab ?lf] => assert (Edc : dc = dc_big t l sz sh ab lf) end;
     [ subst dc; unfold dc_big, sumZ; cbv [tabulate tabulate_aux fold_left]; cbv beta; cbn [andb negb]; norm_idx;
       try reflexivity;
       all_bytes Hb; unfold byte in *;
       change (2 + 1 + 1) with 4; change (2 + 1) with 3; change (3 + 1) with 4; change (4 - 1) with 3; change (3 - 1) with 2;
       change (Z.shiftl 1 3) with 8; change (Z.shiftl 1 2) with 4; change (Z.shiftr 8 1) with 4;
       rewrite dc_mod_small by (change (2 ^ 4) with 16; change (2 ^ 3) with 8; lia);
       (apply (f_equal2 Z.shiftr); [ring | reflexivity])
     | rewrite <- Edc; clearbody dc; exact (dc_fill_chroma a dc Hl) ]).
Qed.
