(* C14: the tree phase of build_huffman_tree.  `internal_nodes` encodes a full binary tree whose leaves are exactly the
   used symbols (whatever the heap hands out); the stack walk writes every leaf's depth into lengths[]. *)
From Coq Require Import ZArith List Bool Lia Arith.
From WebP Require Import Lib.Res Gen.Kernels Model.EncoderHeap Model.Encoder Spec.PrefixCode
  Proofs.Huffman_lists Proofs.Huffman_canon Proofs.Huffman_heap.
Import ListNotations.
Open Scope Z_scope.

Inductive tree := Leaf (i : Z) | Node (l r : tree).
Fixpoint leaves (t : tree) : list Z := match t with Leaf i => [i] | Node l r => leaves l ++ leaves r end.
Fixpoint nodes (t : tree) : nat := match t with Leaf _ => 1%nat | Node l r => S (nodes l + nodes r) end.
Fixpoint height (t : tree) : Z := match t with Leaf _ => 0 | Node l r => 1 + Z.max (height l) (height r) end.

Lemma height_nonneg t : 0 <= height t.
Proof. induction t; cbn [height]; lia. Qed.

Lemma nodes_leaves t : nodes t = (2 * length (leaves t) - 1)%nat /\ (1 <= length (leaves t))%nat.
Proof. induction t as [i | l [IHl Hl] r [IHr Hr]]; cbn [nodes leaves length]; [lia|]. rewrite app_length. lia. Qed.

Lemma height_lt_leaves t : height t + 1 <= Z.of_nat (length (leaves t)).
Proof.
  induction t as [i | l IHl r IHr]; cbn [height leaves length]; [lia|]. rewrite app_length.
  pose proof (nodes_leaves l). pose proof (nodes_leaves r). lia.
Qed.

(* ---- the trees denoted by internal_nodes ---- *)
Definition lookup (n : Z) (ts : list tree) (id : Z) : tree :=
  if id <? n then Leaf id else nth (Z.to_nat (id - n)) ts (Leaf 0).
Fixpoint build_trees (n : Z) (ins : list (Z * Z)) (acc : list tree) : list tree :=
  match ins with
  | [] => acc
  | (l, r) :: tl => build_trees n tl (acc ++ [Node (lookup n acc l) (lookup n acc r)])
  end.
Definition trees (n : Z) (ins : list (Z * Z)) : list tree := build_trees n ins [].
Definition tree_of (n : Z) (ins : list (Z * Z)) (id : Z) : tree := lookup n (trees n ins) id.

Lemma build_trees_app n a b acc : build_trees n (a ++ b) acc = build_trees n b (build_trees n a acc).
Proof. revert acc. induction a as [|[l r] tl IH]; intros acc; cbn [build_trees app]; [reflexivity | apply IH]. Qed.

Lemma trees_snoc n ins l r :
  trees n (ins ++ [(l, r)]) = trees n ins ++ [Node (tree_of n ins l) (tree_of n ins r)].
Proof. unfold trees, tree_of. rewrite build_trees_app. reflexivity. Qed.

Lemma build_trees_length n ins acc : length (build_trees n ins acc) = (length acc + length ins)%nat.
Proof.
  revert acc. induction ins as [|[l r] tl IH]; intros acc; cbn [build_trees length]; [lia|].
  rewrite IH, app_length. cbn [length]. lia.
Qed.
Lemma trees_length n ins : length (trees n ins) = length ins.
Proof. unfold trees. rewrite build_trees_length. reflexivity. Qed.

Lemma tree_of_leaf n ins id : id < n -> tree_of n ins id = Leaf id.
Proof. intros H. unfold tree_of, lookup. replace (id <? n) with true by (symmetry; apply Z.ltb_lt; lia). reflexivity. Qed.

Lemma tree_of_mono n ins x id : id < n + zlen ins -> tree_of n (ins ++ [x]) id = tree_of n ins id.
Proof.
  intros H. destruct x as [l r]. unfold tree_of at 1. rewrite trees_snoc. unfold tree_of at 3. unfold lookup.
  destruct (id <? n) eqn:E; [reflexivity|]. apply Z.ltb_ge in E.
  rewrite app_nth1; [reflexivity|]. rewrite trees_length. unfold zlen in H. lia.
Qed.

Lemma tree_of_new n ins l r : 0 <= n ->
  tree_of n (ins ++ [(l, r)]) (n + zlen ins) = Node (tree_of n ins l) (tree_of n ins r).
Proof.
  intros Hn. unfold tree_of at 1. rewrite trees_snoc. unfold lookup.
  pose proof (zlen_nonneg ins).
  replace (n + zlen ins <? n) with false by (symmetry; apply Z.ltb_ge; lia).
  rewrite app_nth2; rewrite trees_length; unfold zlen; [|lia].
  replace (Z.to_nat (n + Z.of_nat (length ins) - n) - length ins)%nat with 0%nat by lia. reflexivity.
Qed.

Definition wf_ins (n : Z) (ins : list (Z * Z)) : Prop :=
  forall k l r, nth_error ins k = Some (l, r) -> 0 <= l < n + Z.of_nat k /\ 0 <= r < n + Z.of_nat k.

Lemma wf_ins_snoc n ins l r :
  wf_ins n ins -> 0 <= l < n + zlen ins -> 0 <= r < n + zlen ins -> wf_ins n (ins ++ [(l, r)]).
Proof.
  intros H Hl Hr k l' r' Hk. destruct (Nat.lt_ge_cases k (length ins)) as [Hlt | Hge].
  - rewrite nth_error_app1 in Hk by exact Hlt. apply (H k l' r' Hk).
  - rewrite nth_error_app2 in Hk by exact Hge.
    destruct (k - length ins)%nat as [|m] eqn:Em; cbn [nth_error] in Hk.
    + inversion Hk; subst. unfold zlen in *. replace k with (length ins) by lia. lia.
    + destruct m; discriminate.
Qed.

Lemma tree_of_unfold n ins : 0 <= n -> wf_ins n ins -> forall id, n <= id < n + zlen ins ->
  exists l r, nth_error ins (Z.to_nat (id - n)) = Some (l, r)
              /\ tree_of n ins id = Node (tree_of n ins l) (tree_of n ins r)
              /\ 0 <= l < id /\ 0 <= r < id.
Proof.
  intros Hn. induction ins as [|[l0 r0] ins IH] using rev_ind; intros Hwf id Hid.
  - unfold zlen in Hid. cbn in Hid. lia.
  - assert (Hwf0 : wf_ins n ins).
    { intros k l r Hk. apply (Hwf k l r). rewrite nth_error_app1; [exact Hk|]. apply nth_error_Some. rewrite Hk. discriminate. }
    rewrite zlen_app in Hid. unfold zlen at 2 in Hid. cbn [length] in Hid.
    destruct (Z.lt_ge_cases id (n + zlen ins)) as [Hlt | Hge].
    + destruct (IH Hwf0 id ltac:(lia)) as [l [r [Hk [Ht [Hl Hr]]]]].
      exists l, r. split; [|split; [|split; assumption]].
      * rewrite nth_error_app1; [exact Hk|]. unfold zlen in Hlt. lia.
      * rewrite !tree_of_mono by lia. exact Ht.
    + assert (Eid : id = n + zlen ins) by lia. subst id.
      assert (Hk : nth_error (ins ++ [(l0, r0)]) (Z.to_nat (n + zlen ins - n)) = Some (l0, r0)).
      { rewrite nth_error_app2; unfold zlen; [|lia].
        replace (Z.to_nat (n + Z.of_nat (length ins) - n) - length ins)%nat with 0%nat by lia. reflexivity. }
      destruct (Hwf _ _ _ Hk) as [Hl Hr].
      replace (Z.of_nat (Z.to_nat (n + zlen ins - n))) with (zlen ins) in Hl, Hr by (unfold zlen; lia).
      exists l0, r0. split; [exact Hk|]. split; [|split; lia].
      rewrite tree_of_new by exact Hn. rewrite !tree_of_mono by lia. reflexivity.
Qed.

(* ---- the histogram's used symbols ---- *)
Definition usedb (freqs : list Z) (i : Z) : Z :=
  if (0 <=? i) && (i <? zlen freqs) && (0 <? nth (Z.to_nat i) freqs 0) then 1 else 0.

Definition valid_idb (m : Z) (it : item) : bool := (0 <=? snd it) && (snd it <? m).
Definition fst_nnb (it : item) : bool := 0 <=? fst it.
Definition ifst (it : item) : Z := fst it.
Definition lcnt (n : Z) (ins : list (Z * Z)) (i : Z) (it : item) : Z := count_eq i (leaves (tree_of n ins (snd it))).

Lemma lcnt_pair n ins i f id : lcnt n ins i (f, id) = count_eq i (leaves (tree_of n ins id)).
Proof. reflexivity. Qed.

Record inv (freqs : list Z) (h : list item) (ins : list (Z * Z)) : Prop := {
  inv_wf : wf_ins (zlen freqs) ins;
  inv_ids : Forall (fun it => valid_idb (zlen freqs + zlen ins) it = true) h;
  inv_nn : Forall (fun it => fst_nnb it = true) h;
  inv_sum : zsum (map ifst h) <= u32_max;
  inv_leaf : forall i, zsum (map (lcnt (zlen freqs) ins i) h) = usedb freqs i;
  inv_len : zlen ins + zlen h = used freqs
}.

Lemma zsum_ifst_nonneg (tl : list item) : Forall (fun it => fst_nnb it = true) tl -> 0 <= zsum (map ifst tl).
Proof.
  intros H. apply zsum_nonneg. induction H as [|a l Ha _ IH]; cbn [map]; constructor; [|exact IH].
  unfold fst_nnb in Ha. apply Z.leb_le in Ha. exact Ha.
Qed.

Lemma filter_len_le {A} (p : A -> bool) l : (length (filter p l) <= length l)%nat.
Proof. induction l as [|x tl IH]; cbn [filter length]; [lia|]. destruct (p x); cbn [length]; lia. Qed.

Lemma wrapU16_small x : 0 <= x < 65536 -> wrapU 16 x = x.
Proof. intros H. unfold wrapU. change (2 ^ 16) with 65536. apply Z.mod_small. exact H. Qed.

Lemma huff_loop_ok freqs : zlen freqs <= 32768 ->
  forall fuel h ins, inv freqs h ins -> 1 <= zlen h -> zlen h <= Z.of_nat fuel ->
  exists F root ins', huff_loop fuel (zlen freqs) h ins = Ok ([(F, root)], ins') /\ inv freqs [(F, root)] ins'.
Proof.
  intros Hn. set (n := zlen freqs) in *. assert (Hn0 : 0 <= n) by apply zlen_nonneg.
  induction fuel as [|fuel IH]; intros h ins I H1 Hf; [lia|].
  cbn [huff_loop]. destruct (1 <? zlen h) eqn:E1.
  - apply Z.ltb_lt in E1.
    destruct (heap_pop_ok h) as [[f1 i1] [h1 [Ep M]]].
    { intros ->. unfold zlen in E1. cbn in E1. lia. }
    rewrite Ep. cbn [bind].
    assert (Hlen1 : zlen h1 = zlen h - 1).
    { pose proof (meq_length _ _ M) as L. unfold zlen. cbn [length] in L. lia. }
    destruct h1 as [|[f0 i0] tl]; [unfold zlen in *; cbn [length] in *; lia|].
    pose proof (meq_sym _ _ M) as M'.
    pose proof (meq_Forall _ _ _ M' (inv_ids _ _ _ I)) as Hids.
    pose proof (meq_Forall _ _ _ M' (inv_nn _ _ _ I)) as Hnn.
    pose proof (M ifst) as Hsum. cbn [map zsum] in Hsum. unfold ifst at 1 2 in Hsum. cbn [fst] in Hsum.
    pose proof (inv_sum _ _ _ I) as Hs.
    apply Forall_cons_iff in Hnn. destruct Hnn as [Hn1 Hnn]. apply Forall_cons_iff in Hnn. destruct Hnn as [Hn0' Hnt].
    unfold fst_nnb in Hn1, Hn0'. cbn [fst] in Hn1, Hn0'. apply Z.leb_le in Hn1, Hn0'.
    pose proof (zsum_ifst_nonneg tl Hnt) as Htl.
    unfold cadd at 1. replace (u32_max <? f1 + f0) with false by (symmetry; apply Z.ltb_ge; lia). cbn [bind].
    pose proof (inv_len _ _ _ I) as Hl. pose proof (zlen_nonneg ins) as Hi0.
    assert (Hused : used freqs <= n).
    { unfold used, n, zlen. pose proof (filter_len_le (fun f => 0 <? f) freqs). lia. }
    rewrite zlen_app. change (zlen [(i1, i0)]) with 1.
    rewrite (wrapU16_small (zlen ins + 1)) by lia. rewrite (wrapU16_small n) by lia.
    unfold cadd. replace (u16_max <? zlen ins + 1 + n) with false by (symmetry; apply Z.ltb_ge; unfold u16_max; lia).
    cbn [bind]. unfold csub. replace (zlen ins + 1 + n - 1 <? 0) with false by (symmetry; apply Z.ltb_ge; lia).
    cbn [bind].
    destruct (heap_replace_top_ok (f0, i0) tl (f1 + f0, zlen ins + 1 + n - 1)) as [h2 [Er M2]].
    rewrite Er. cbn [bind].
    (* validity of the popped ids *)
    apply Forall_cons_iff in Hids. destruct Hids as [Hv1 Hids]. apply Forall_cons_iff in Hids. destruct Hids as [Hv0 Hvt].
    unfold valid_idb in Hv1, Hv0. cbn [snd] in Hv1, Hv0.
    apply andb_true_iff in Hv1. destruct Hv1 as [Hv1a Hv1b]. apply Z.leb_le in Hv1a. apply Z.ltb_lt in Hv1b.
    apply andb_true_iff in Hv0. destruct Hv0 as [Hv0a Hv0b]. apply Z.leb_le in Hv0a. apply Z.ltb_lt in Hv0b.
    apply IH.
    + constructor.
      * apply wf_ins_snoc; [exact (inv_wf _ _ _ I) | fold n; lia | fold n; lia].
      * apply (meq_Forall _ _ _ (meq_sym _ _ M2)). rewrite zlen_app. change (zlen [(i1, i0)]) with 1. fold n.
        constructor.
        -- unfold valid_idb. cbn [snd]. apply andb_true_iff. rewrite Z.leb_le, Z.ltb_lt. lia.
        -- eapply Forall_impl; [|exact Hvt]. intros it Hit. unfold valid_idb in *.
           apply andb_true_iff in Hit. destruct Hit as [Ha Hb']. apply Z.ltb_lt in Hb'.
           apply andb_true_iff. split; [exact Ha | apply Z.ltb_lt; lia].
      * apply (meq_Forall _ _ _ (meq_sym _ _ M2)). constructor; [|exact Hnt].
        unfold fst_nnb. cbn [fst]. apply Z.leb_le. lia.
      * rewrite (M2 ifst). cbn [map zsum]. unfold ifst at 1. cbn [fst]. lia.
      * intros i. rewrite (M2 _). cbn [map zsum]. rewrite lcnt_pair.
        replace (zlen ins + 1 + n - 1) with (n + zlen ins) by lia.
        fold n. rewrite tree_of_new by exact Hn0. cbn [leaves]. rewrite count_eq_app.
        rewrite <- (inv_leaf _ _ _ I i). rewrite (M' _). cbn [map zsum]. rewrite !lcnt_pair. fold n.
        rewrite (zsum_map_ext (lcnt n (ins ++ [(i1, i0)]) i) (lcnt n ins i) tl); [lia|].
        intros it Hit. rewrite Forall_forall in Hvt. specialize (Hvt it Hit). unfold valid_idb in Hvt.
        apply andb_true_iff in Hvt. destruct Hvt as [_ Hvt]. apply Z.ltb_lt in Hvt. fold n in Hvt.
        unfold lcnt. rewrite tree_of_mono by exact Hvt. reflexivity.
      * rewrite zlen_app. change (zlen [(i1, i0)]) with 1.
        pose proof (meq_length _ _ M2) as L2. unfold zlen in *. cbn [length] in *. lia.
    + pose proof (meq_length _ _ M2) as L2. unfold zlen in *. cbn [length] in *. lia.
    + pose proof (meq_length _ _ M2) as L2. unfold zlen in *. cbn [length] in *. lia.
  - apply Z.ltb_ge in E1. destruct h as [|[F root] [|y tl]].
    + unfold zlen in H1. cbn in H1. lia.
    + exists F, root, ins. split; [reflexivity | exact I].
    + unfold zlen in E1. cbn [length] in E1. lia.
Qed.

(* ---- the initial heap ---- *)
Lemma enumerate_items_spec : forall l s, 0 <= s -> s + zlen l <= 65536 ->
  let items := map (fun p : Z * Z => (snd p, wrapU 16 (fst p))) (filter (fun p : Z * Z => 0 <? snd p) (enumerate_from s l)) in
  Forall (fun it => valid_idb (s + zlen l) it = true /\ s <= snd it) items
  /\ Forall (fun it => fst_nnb it = true) items
  /\ zsum (map fst items) = zsum (filter (fun f => 0 <? f) l)
  /\ (forall i, zsum (map (fun it => count_eq i [snd it]) items)
                = if (s <=? i) && (i <? s + zlen l) && (0 <? nth (Z.to_nat (i - s)) l 0) then 1 else 0)
  /\ zlen items = zlen (filter (fun f => 0 <? f) l).
Proof.
  induction l as [|x tl IH]; intros s Hs Hb; cbn zeta.
  - cbn [enumerate_from filter map zsum]. repeat split; try constructor.
    intros i. change (zlen (@nil Z)) with 0.
    destruct (s <=? i) eqn:A; cbn [andb]; [|reflexivity]. destruct (i <? s + 0) eqn:B; cbn [andb]; [|reflexivity].
    apply Z.leb_le in A. apply Z.ltb_lt in B. lia.
  - rewrite zlen_cons in Hb. pose proof (zlen_nonneg tl) as Ht.
    destruct (IH (s + 1) ltac:(lia) ltac:(lia)) as [IH1 [IH2 [IH3 [IH4 IH5]]]]. cbn zeta in *.
    cbn [enumerate_from filter snd]. rewrite zlen_cons.
    assert (W : forall it, valid_idb (s + 1 + zlen tl) it = true /\ s + 1 <= snd it -> valid_idb (s + (zlen tl + 1)) it = true /\ s <= snd it).
    { intros it [Ha Hb']. split; [|lia]. replace (s + (zlen tl + 1)) with (s + 1 + zlen tl) by lia. exact Ha. }
    assert (C : forall i, (if (s <=? i) && (i <? s + (zlen tl + 1)) && (0 <? nth (Z.to_nat (i - s)) (x :: tl) 0) then 1 else 0)
                        = (if (i =? s) && (0 <? x) then 1 else 0)
                          + (if (s + 1 <=? i) && (i <? s + 1 + zlen tl) && (0 <? nth (Z.to_nat (i - (s + 1))) tl 0) then 1 else 0)).
    { intros i. destruct (Z.eq_dec i s) as [-> | Ne].
      - rewrite Z.eqb_refl, Z.sub_diag. cbn [Z.to_nat nth andb].
        replace (s <=? s) with true by (symmetry; apply Z.leb_le; lia).
        replace (s <? s + (zlen tl + 1)) with true by (symmetry; apply Z.ltb_lt; lia).
        replace (s + 1 <=? s) with false by (symmetry; apply Z.leb_gt; lia). cbn [andb]. destruct (0 <? x); reflexivity.
      - replace (i =? s) with false by (symmetry; apply Z.eqb_neq; exact Ne). cbn [andb].
        destruct (Z.lt_ge_cases i s) as [Hlt | Hge].
        + replace (s <=? i) with false by (symmetry; apply Z.leb_gt; lia).
          replace (s + 1 <=? i) with false by (symmetry; apply Z.leb_gt; lia). reflexivity.
        + replace (s <=? i) with true by (symmetry; apply Z.leb_le; lia).
          replace (s + 1 <=? i) with true by (symmetry; apply Z.leb_le; lia).
          replace (i <? s + (zlen tl + 1)) with (i <? s + 1 + zlen tl) by (f_equal; lia).
          replace (Z.to_nat (i - s)) with (S (Z.to_nat (i - (s + 1)))) by lia. cbn [nth]. reflexivity. }
    destruct (0 <? x) eqn:Ex.
    + cbn [map fst snd zsum filter]. rewrite (wrapU16_small s) by lia.
      split; [|split; [|split; [|split]]].
      * constructor.
        -- split; [|cbn [snd]; lia]. unfold valid_idb. cbn [snd]. apply andb_true_iff. rewrite Z.leb_le, Z.ltb_lt. lia.
        -- eapply Forall_impl; [|exact IH1]. exact W.
      * constructor; [|exact IH2]. unfold fst_nnb. cbn [fst]. apply Z.leb_le. apply Z.ltb_lt in Ex. lia.
      * rewrite IH3. reflexivity.
      * intros i. rewrite C, IH4. cbn [count_eq andb]. rewrite (Z.eqb_sym s i). destruct (i =? s); reflexivity.
      * rewrite !zlen_cons. rewrite IH5. reflexivity.
    + cbn [filter]. split; [|split; [|split; [|split]]].
      * eapply Forall_impl; [|exact IH1]. exact W.
      * exact IH2.
      * exact IH3.
      * intros i. rewrite C, IH4. rewrite andb_false_r. reflexivity.
      * exact IH5.
Qed.

Lemma zsum_filter_le l : Forall (fun f => 0 <= f) l -> zsum (filter (fun f => 0 <? f) l) <= zsum l.
Proof. induction 1 as [|x tl Hx _ IH]; cbn [filter zsum]; [lia|]. destruct (0 <? x); cbn [zsum]; lia. Qed.

Lemma initial_inv freqs h0 : zlen freqs <= 32768 -> Forall (fun f => 0 <= f) freqs -> zsum freqs <= u32_max ->
  meq h0 (heap_items freqs) -> inv freqs h0 [].
Proof.
  intros Hn Hnn Hs M. pose proof (zlen_nonneg freqs) as H0.
  destruct (enumerate_items_spec freqs 0 ltac:(lia) ltac:(lia)) as [E1 [E2 [E3 [E4 E5]]]]. cbn zeta in *.
  fold (enumerate freqs) in *. fold (heap_items freqs) in *.
  constructor.
  - intros k l r Hk. destruct k; discriminate.
  - apply (meq_Forall _ _ _ (meq_sym _ _ M)). change (zlen []) with 0 at 1. rewrite Z.add_0_r.
    eapply Forall_impl; [|exact E1]. intros it [Ha _]. rewrite Z.add_0_l in Ha. exact Ha.
  - apply (meq_Forall _ _ _ (meq_sym _ _ M)). exact E2.
  - rewrite (M ifst). change (map ifst (heap_items freqs)) with (map fst (heap_items freqs)). rewrite E3. pose proof (zsum_filter_le freqs Hnn). lia.
  - intros i. rewrite (M _).
    rewrite (zsum_map_ext (lcnt (zlen freqs) [] i) (fun it => count_eq i [snd it]) (heap_items freqs)).
    + rewrite E4. unfold usedb. rewrite Z.add_0_l, Z.sub_0_r. reflexivity.
    + intros it Hit. rewrite Forall_forall in E1. destruct (E1 it Hit) as [Hv _]. unfold valid_idb in Hv.
      apply andb_true_iff in Hv. destruct Hv as [_ Hv]. apply Z.ltb_lt in Hv. rewrite Z.add_0_l in Hv.
      unfold lcnt. rewrite tree_of_leaf by exact Hv. reflexivity.
  - change (zlen (@nil (Z * Z))) with 0. rewrite Z.add_0_l.
    transitivity (zlen (heap_items freqs)); [unfold zlen; rewrite (meq_length _ _ M); reflexivity|]. exact E5.
Qed.

(* ---- the walk ---- *)
(* the writes the walk performs for the subtree t whose root sits at depth d (right subtree first: it is on top of
   the stack) *)
Fixpoint assign (t : tree) (d : Z) (lens : list Z) : list Z :=
  match t with
  | Leaf i => upd lens (Z.to_nat i) (wrapU 8 d)
  | Node l r => assign l (d + 1) (assign r (d + 1) lens)
  end.

Lemma assign_length t : forall d lens, length (assign t d lens) = length lens.
Proof. induction t as [i | l IHl r IHr]; intros; cbn [assign]; [apply upd_length | rewrite IHl, IHr; reflexivity]. Qed.

Lemma walk_tree n ins : 0 <= n -> wf_ins n ins ->
  forall t id, tree_of n ins id = t -> 0 <= id < n + zlen ins ->
  forall d st lens fuel, zlen lens = n -> 0 <= d -> d + height t <= i32_max ->
  walk (nodes t + fuel) n ins ((id, d) :: st) lens = walk fuel n ins st (assign t d lens).
Proof.
  intros Hn Hwf. induction t as [i | tl IHl tr IHr]; intros id Ht Hid d st lens fuel Hlen Hd Hh.
  - (* a leaf: id < n *)
    destruct (Z.lt_ge_cases id n) as [Hlt | Hge].
    + rewrite tree_of_leaf in Ht by exact Hlt. inversion Ht; subst i.
      cbn [nodes Nat.add walk assign]. replace (id <? n) with true by (symmetry; apply Z.ltb_lt; lia).
      rewrite lset_ok by lia. cbn [bind]. reflexivity.
    + destruct (tree_of_unfold n ins Hn Hwf id ltac:(lia)) as [l [r [_ [Hu _]]]]. rewrite Hu in Ht. discriminate.
  - destruct (Z.lt_ge_cases id n) as [Hlt | Hge].
    + rewrite tree_of_leaf in Ht by exact Hlt. discriminate.
    + destruct (tree_of_unfold n ins Hn Hwf id ltac:(lia)) as [l [r [Hk [Hu [Hl Hr]]]]].
      rewrite Hu in Ht. injection Ht as Etl Etr.
      cbn [nodes Nat.add walk]. replace (id <? n) with false by (symmetry; apply Z.ltb_ge; lia).
      unfold lget. replace (id - n <? 0) with false by (symmetry; apply Z.ltb_ge; lia).
      rewrite Hk. cbn [of_option bind]. cbn [height] in Hh.
      pose proof (height_nonneg tl). pose proof (height_nonneg tr).
      unfold cadd. replace (i32_max <? d + 1) with false by (symmetry; apply Z.ltb_ge; lia). cbn [bind].
      replace (nodes tl + nodes tr + fuel)%nat with (nodes tr + (nodes tl + fuel))%nat by lia.
      rewrite (IHr r Etr ltac:(lia) (d + 1) ((l, d + 1) :: st) lens (nodes tl + fuel)%nat Hlen ltac:(lia) ltac:(lia)).
      rewrite (IHl l Etl ltac:(lia) (d + 1) st (assign tr (d + 1) lens) fuel); [reflexivity | | lia | lia].
      unfold zlen. rewrite assign_length. exact Hlen.
Qed.

(* ---- what assign leaves in the array ---- *)
Definition lsum (g : Z -> Z) (l : list Z) : Z := zsum (map g l).

(* sum of g over the leaf depths, root at depth d *)
Fixpoint dsum (g : Z -> Z) (t : tree) (d : Z) : Z :=
  match t with Leaf _ => g d | Node l r => dsum g l (d + 1) + dsum g r (d + 1) end.

Lemma assign_outside t : forall d lens j, ~ In (Z.of_nat j) (leaves t) -> Forall (fun i => 0 <= i) (leaves t) ->
  nth j (assign t d lens) 0 = nth j lens 0.
Proof.
  induction t as [i | l IHl r IHr]; intros d lens j Hj Hnn; cbn [assign leaves] in *.
  - apply nth_upd_neq. intros E. apply Hj. left. apply Forall_cons_iff in Hnn. lia.
  - apply Forall_app in Hnn. destruct Hnn as [Hl Hr].
    rewrite IHl; [| intros H; apply Hj; apply in_or_app; left; exact H | exact Hl].
    apply IHr; [intros H; apply Hj; apply in_or_app; right; exact H | exact Hr].
Qed.

Lemma wrapU8_small x : 0 <= x <= 255 -> wrapU 8 x = x.
Proof. intros H. unfold wrapU. change (2 ^ 8) with 256. apply Z.mod_small. lia. Qed.

Lemma assign_sum g : g 0 = 0 -> forall t d lens,
  NoDup (leaves t) -> Forall (fun i => 0 <= i < zlen lens) (leaves t) ->
  (forall i, In i (leaves t) -> nth (Z.to_nat i) lens 0 = 0) ->
  0 <= d -> d + height t <= 255 ->
  lsum g (assign t d lens) = lsum g lens + dsum g t d.
Proof.
  intros Hg. induction t as [i | l IHl r IHr]; intros d lens Hnd Hrange Hzero Hd Hh; cbn [assign leaves dsum height] in *.
  - apply Forall_cons_iff in Hrange. destruct Hrange as [Hi _].
    unfold lsum. rewrite map_upd, zsum_upd by (rewrite map_length; unfold zlen in Hi; lia).
    rewrite (nth_indep _ 0 (g 0)) by (rewrite map_length; unfold zlen in Hi; lia).
    rewrite map_nth, (Hzero i (or_introl eq_refl)), Hg, wrapU8_small by lia. lia.
  - pose proof (height_nonneg l). pose proof (height_nonneg r).
    apply Forall_app in Hrange. destruct Hrange as [Hrl Hrr].
    destruct (NoDup_app_inv _ _ Hnd) as [Hndl [Hndr Hdisj]].
    rewrite IHl; [| exact Hndl | | | lia | lia].
    + rewrite IHr; [lia | exact Hndr | exact Hrr | | lia | lia].
      intros i Hi. apply Hzero. apply in_or_app. right. exact Hi.
    + unfold zlen. rewrite assign_length. exact Hrl.
    + intros i Hi. rewrite Forall_forall in Hrl. specialize (Hrl i Hi).
      replace i with (Z.of_nat (Z.to_nat i)) in Hi by lia.
      rewrite assign_outside.
      * apply Hzero. apply in_or_app. left. replace i with (Z.of_nat (Z.to_nat i)) by lia. exact Hi.
      * intros Hir. exact (Hdisj _ Hi Hir).
      * eapply Forall_impl; [|exact Hrr]. intros a Ha. cbv beta in Ha. lia.
Qed.

(* every leaf of t ends with a value in [d + (1 if t is a Node), d + height t] *)
Lemma assign_leaf_value : forall t d lens i,
  NoDup (leaves t) -> Forall (fun i => 0 <= i < zlen lens) (leaves t) -> In i (leaves t) ->
  0 <= d -> d + height t <= 255 ->
  d + (match t with Leaf _ => 0 | Node _ _ => 1 end) <= nth (Z.to_nat i) (assign t d lens) 0 <= d + height t.
Proof.
  induction t as [k | l IHl r IHr]; intros d lens i Hnd Hrange Hin Hd Hh; cbn [assign leaves height] in *.
  - destruct Hin as [<- | []]. apply Forall_cons_iff in Hrange. destruct Hrange as [Hk _].
    rewrite nth_upd_eq by (unfold zlen in Hk; lia). rewrite wrapU8_small by lia. lia.
  - pose proof (height_nonneg l). pose proof (height_nonneg r).
    apply Forall_app in Hrange. destruct Hrange as [Hrl Hrr].
    destruct (NoDup_app_inv _ _ Hnd) as [Hndl [Hndr Hdisj]].
    apply in_app_or in Hin. destruct Hin as [Hil | Hir].
    + assert (Hrl' : Forall (fun i => 0 <= i < zlen (assign r (d + 1) lens)) (leaves l)).
      { unfold zlen. rewrite assign_length. exact Hrl. }
      pose proof (IHl (d + 1) (assign r (d + 1) lens) i Hndl Hrl' Hil ltac:(lia) ltac:(lia)) as B.
      destruct l; lia.
    + rewrite Forall_forall in Hrr. pose proof (Hrr i Hir) as Hi.
      rewrite <- (Z2Nat.id i) in Hir by lia.
      rewrite assign_outside.
      * rewrite Z2Nat.id in Hir by lia.
        assert (Hrr' : Forall (fun i => 0 <= i < zlen lens) (leaves r)) by (apply Forall_forall; exact Hrr).
        pose proof (IHr (d + 1) lens i Hndr Hrr' Hir ltac:(lia) ltac:(lia)) as B. destruct r; lia.
      * intros Hil. exact (Hdisj _ Hil Hir).
      * eapply Forall_impl; [|exact Hrl]. intros a Ha. cbv beta in Ha. lia.
Qed.
