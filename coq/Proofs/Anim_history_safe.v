(* Consequence of the cursor-machine theorem (Proofs/Anim_history.v): on a valid animation no call of any call sequence panics,
   runs out of fuel, or fails with anything but NoMoreFrames -- whatever calls came before it. *)
From Coq Require Import ZArith List Bool.
From WebP Require Import Lib.Res Model.Anim Spec.Anim Proofs.Anim_play Proofs.Anim_history.
Import ListNotations.
Open Scope Z_scope.

Definition call_clean (r : mres) : Prop :=
  match r with
  | RFrame (Ok _) | RFrame (Err ENoMoreFrames) | RImage (Ok _) | RReset | RFill => True
  | _ => False
  end.

Lemma mres_of_clean e : call_clean (mres_of e).
Proof. destruct e; exact I. Qed.

Lemma ops_clean_lemma : forall f ops buf, valid_file f -> Z.of_nat (length buf) = output_buffer_size f ->
  Forall (fun rb => call_clean (fst rb)) (run_ops f ops fresh_state buf).
Proof.
  intros f ops buf Hv Hl. rewrite history_independent_lemma by assumption.
  unfold trace_of. apply Forall_forall. intros rb Hin. apply in_map_iff in Hin.
  destruct Hin as (eb & Heq & _). subst rb. cbn [fst]. apply mres_of_clean.
Qed.
