(* C14: the remaining link of huffman_ok_partial.  The BinaryHeap of Model.EncoderHeap is a min-heap on the frequency
   (std's max-heap under Item's reversed order), pop returns a minimum; hence the tree built by the heap loop is a
   Huffman tree, a subtree of height k weighs at least Fibonacci(k + 2), and with a total count below 2^32 no leaf is
   deeper than 45: `depth as u8` loses nothing for any alphabet. *)
From Coq Require Import ZArith List Bool Lia Arith.
From WebP Require Import Lib.Res Lib.ZBits Gen.Kernels Model.EncoderHeap Model.Encoder Spec.PrefixCode
  Proofs.Huffman_lists Proofs.Huffman_canon Proofs.Huffman_heap Proofs.Huffman_tree Proofs.Huffman_limit Proofs.Huffman_ok.
Import ListNotations.
Open Scope Z_scope.

(* ---- positional facts ---- *)
Definition kg (h : list item) (i : Z) : Z := fst (hget h i).
Definition par (i : Z) : Z := (i - 1) / 2.

Lemma hget_hswap_l h i j : 0 <= i < zlen h -> 0 <= j < zlen h -> hget (hswap h i j) i = hget h j.
Proof.
  unfold zlen. intros Hi Hj. unfold hswap, hget at 1.
  destruct (Z.eq_dec i j) as [-> | Ne].
  - rewrite nth_upd_eq by (rewrite upd_length; lia). reflexivity.
  - rewrite nth_upd_neq by lia. rewrite nth_upd_eq by lia. reflexivity.
Qed.

Lemma hget_hswap_r h i j : 0 <= i < zlen h -> 0 <= j < zlen h -> hget (hswap h i j) j = hget h i.
Proof.
  unfold zlen. intros Hi Hj. unfold hswap, hget at 1. rewrite nth_upd_eq by (rewrite upd_length; lia). reflexivity.
Qed.

Lemma hget_hswap_o h i j k : 0 <= i -> 0 <= j -> 0 <= k -> k <> i -> k <> j -> hget (hswap h i j) k = hget h k.
Proof. intros Hi Hj Hk Ni Nj. unfold hswap, hget at 1. rewrite !nth_upd_neq by lia. reflexivity. Qed.

Lemma kg_hswap h i j k : 0 <= i < zlen h -> 0 <= j < zlen h -> 0 <= k ->
  kg (hswap h i j) k = if k =? i then kg h j else if k =? j then kg h i else kg h k.
Proof.
  intros Hi Hj Hk. unfold kg. destruct (k =? i) eqn:E1; [apply Z.eqb_eq in E1; subst k; rewrite hget_hswap_l by assumption; reflexivity|].
  apply Z.eqb_neq in E1. destruct (k =? j) eqn:E2; [apply Z.eqb_eq in E2; subst k; rewrite hget_hswap_r by assumption; reflexivity|].
  apply Z.eqb_neq in E2. rewrite hget_hswap_o by lia. reflexivity.
Qed.

(* min-heap from index lo upwards: every node whose parent is >= lo is not below its parent *)
Definition hp_from (lo : Z) (h : list item) : Prop :=
  forall i, 1 <= i < zlen h -> lo <= par i -> kg h (par i) <= kg h i.
Definition hp (h : list item) : Prop := hp_from 0 h.

(* the situation during sift_down at `pos` *)
Record SD (lo : Z) (h : list item) (pos : Z) : Prop := {
  sd_a : forall i, 1 <= i < zlen h -> lo <= par i -> par i <> pos -> kg h (par i) <= kg h i;
  sd_b : 1 <= pos -> lo <= par pos -> forall c, c < zlen h -> (c = 2 * pos + 1 \/ c = 2 * pos + 2) -> kg h (par pos) <= kg h c
}.

Lemma SD_done lo h pos : SD lo h pos -> 0 <= pos ->
  (forall c, c < zlen h -> (c = 2 * pos + 1 \/ c = 2 * pos + 2) -> kg h pos <= kg h c) -> hp_from lo h.
Proof.
  intros [A B] Hp Hc i Hi Hlo. destruct (Z.eq_dec (par i) pos) as [E | Ne].
  - rewrite E. apply Hc; [lia|]. unfold par in E. lia.
  - apply A; assumption.
Qed.

Lemma SD_swap lo h pos child : SD lo h pos -> lo <= pos -> 0 <= pos -> child < zlen h ->
  (child = 2 * pos + 1 \/ child = 2 * pos + 2) ->
  (forall c, c < zlen h -> (c = 2 * pos + 1 \/ c = 2 * pos + 2) -> kg h child <= kg h c) ->
  kg h child <= kg h pos ->
  SD lo (hswap h pos child) child.
Proof.
  intros [A B] Hlo Hp Hcl Hch Hmin Hlt.
  assert (Hpr : 0 <= pos < zlen h) by lia. assert (Hcr : 0 <= child < zlen h) by lia.
  assert (Hparc : par child = pos) by (unfold par; lia).
  constructor.
  - intros i Hi Hloi Hne. rewrite zlen_hswap in Hi.
    assert (Hpi : 0 <= par i < i) by (unfold par; lia).
    rewrite !kg_hswap by lia.
    destruct (i =? pos) eqn:Ei; [apply Z.eqb_eq in Ei|apply Z.eqb_neq in Ei].
    + (* i = pos: its parent is untouched *)
      subst i. replace (par pos =? pos) with false by (symmetry; apply Z.eqb_neq; lia).
      replace (par pos =? child) with false by (symmetry; apply Z.eqb_neq; lia).
      apply B; [lia | exact Hloi | lia | exact Hch].
    + destruct (i =? child) eqn:Ec; [apply Z.eqb_eq in Ec|apply Z.eqb_neq in Ec].
      * subst i. rewrite Hparc, Z.eqb_refl. exact Hlt.
      * destruct (par i =? pos) eqn:Epp; [apply Z.eqb_eq in Epp|apply Z.eqb_neq in Epp].
        -- (* the sibling *) apply Hmin; [lia|]. unfold par in Epp. lia.
        -- replace (par i =? child) with false by (symmetry; apply Z.eqb_neq; lia). apply A; assumption.
  - intros _ _ c Hc Hcc. rewrite zlen_hswap in Hc. rewrite Hparc.
    rewrite !kg_hswap by lia. rewrite Z.eqb_refl.
    replace (c =? pos) with false by (symmetry; apply Z.eqb_neq; lia).
    replace (c =? child) with false by (symmetry; apply Z.eqb_neq; lia).
    assert (Hpc : par c = child) by (unfold par; lia).
    rewrite <- Hpc. apply A; [lia | rewrite Hpc; lia | rewrite Hpc; lia].
Qed.

Lemma sift_down_range_hp lo : forall fuel h pos, SD lo h pos -> lo <= pos -> 0 <= pos < zlen h ->
  forall h', sift_down_range fuel h pos (zlen h) = Ok h' -> hp_from lo h'.
Proof.
  induction fuel as [|fuel IH]; intros h pos S Hlo Hp h' E; cbn [sift_down_range] in E; [discriminate|].
  destruct (2 * pos + 1 <=? Z.max 0 (zlen h - 2)) eqn:Ec.
  - apply Z.leb_le in Ec.
    set (child := if item_le (hget h (2 * pos + 1)) (hget h (2 * pos + 1 + 1)) then 2 * pos + 1 + 1 else 2 * pos + 1) in *.
    assert (Hmin : forall c, c < zlen h -> (c = 2 * pos + 1 \/ c = 2 * pos + 2) -> kg h child <= kg h c).
    { intros c Hc Hcc. unfold child, item_le. unfold kg.
      destruct (fst (hget h (2 * pos + 1 + 1)) <=? fst (hget h (2 * pos + 1))) eqn:El; [apply Z.leb_le in El | apply Z.leb_gt in El];
        destruct Hcc as [-> | ->]; replace (2 * pos + 2) with (2 * pos + 1 + 1) by lia; lia. }
    assert (Hch : child = 2 * pos + 1 \/ child = 2 * pos + 2) by (unfold child; destruct (item_le _ _); lia).
    destruct (item_ge (hget h pos) (hget h child)) eqn:Eg.
    + inversion E; subst h'. apply (SD_done lo h pos S); [lia|]. intros c Hc Hcc.
      unfold item_ge in Eg. apply Z.leb_le in Eg. specialize (Hmin c Hc Hcc). unfold kg in *. lia.
    + unfold item_ge in Eg. apply Z.leb_gt in Eg.
      assert (S' : SD lo (hswap h pos child) child) by (apply SD_swap; try assumption; try lia; unfold kg; lia).
      rewrite <- (zlen_hswap h pos child) in E. apply (IH _ _ S' ltac:(lia) ltac:(rewrite zlen_hswap; lia) _ E).
  - apply Z.leb_gt in Ec.
    destruct ((2 * pos + 1 =? zlen h - 1) && item_lt (hget h pos) (hget h (2 * pos + 1))) eqn:Eb.
    + apply andb_true_iff in Eb. destruct Eb as [Eb1 Eb2]. apply Z.eqb_eq in Eb1. unfold item_lt in Eb2. apply Z.ltb_lt in Eb2.
      inversion E; subst h'.
      assert (S' : SD lo (hswap h pos (2 * pos + 1)) (2 * pos + 1)).
      { apply SD_swap; try assumption; try lia; [|unfold kg; lia]. intros c Hc [-> | ->]; [lia | lia]. }
      apply (SD_done lo _ (2 * pos + 1) S'); [lia|]. intros c Hc Hcc. rewrite zlen_hswap in Hc. lia.
    + inversion E; subst h'. apply (SD_done lo h pos S); [lia|]. intros c Hc Hcc.
      apply andb_false_iff in Eb. destruct Eb as [Eb | Eb].
      * apply Z.eqb_neq in Eb. lia.
      * unfold item_lt in Eb. apply Z.ltb_ge in Eb. assert (c = 2 * pos + 1) by lia. subst c. unfold kg. lia.
Qed.

(* ---- sift_down_to_bottom: the unconditional descent, then sift_up ---- *)
Record HOLE (h : list item) (cur : Z) : Prop := {
  ho_a : forall i, 1 <= i < zlen h -> i <> cur -> par i <> cur -> kg h (par i) <= kg h i;
  ho_b : 1 <= cur -> forall c, c < zlen h -> (c = 2 * cur + 1 \/ c = 2 * cur + 2) -> kg h (par cur) <= kg h c
}.
(* everything in order except possibly the pair (parent pos, pos) *)
Record UP (h : list item) (pos : Z) : Prop := {
  up_a : forall i, 1 <= i < zlen h -> i <> pos -> kg h (par i) <= kg h i;
  up_b : 1 <= pos -> forall c, c < zlen h -> (c = 2 * pos + 1 \/ c = 2 * pos + 2) -> kg h (par pos) <= kg h c
}.

Lemma HOLE_swap h cur child : HOLE h cur -> 0 <= cur -> child < zlen h ->
  (child = 2 * cur + 1 \/ child = 2 * cur + 2) ->
  (forall c, c < zlen h -> (c = 2 * cur + 1 \/ c = 2 * cur + 2) -> kg h child <= kg h c) ->
  HOLE (hswap h cur child) child.
Proof.
  intros [A B] Hp Hcl Hch Hmin.
  assert (Hpr : 0 <= cur < zlen h) by lia. assert (Hcr : 0 <= child < zlen h) by lia.
  assert (Hparc : par child = cur) by (unfold par; lia).
  constructor.
  - intros i Hi Hne1 Hne2. rewrite zlen_hswap in Hi.
    assert (Hpi : 0 <= par i < i) by (unfold par; lia).
    rewrite !kg_hswap by lia.
    replace (i =? child) with false by (symmetry; apply Z.eqb_neq; lia).
    replace (par i =? child) with false by (symmetry; apply Z.eqb_neq; lia).
    destruct (i =? cur) eqn:Ei; [apply Z.eqb_eq in Ei|apply Z.eqb_neq in Ei].
    + subst i. replace (par cur =? cur) with false by (symmetry; apply Z.eqb_neq; lia).
      apply B; [lia | lia | exact Hch].
    + destruct (par i =? cur) eqn:Epp; [apply Z.eqb_eq in Epp|apply Z.eqb_neq in Epp].
      * apply Hmin; [lia|]. unfold par in Epp. lia.
      * apply A; assumption.
  - intros _ c Hc Hcc. rewrite zlen_hswap in Hc. rewrite Hparc.
    rewrite !kg_hswap by lia. rewrite Z.eqb_refl.
    replace (c =? cur) with false by (symmetry; apply Z.eqb_neq; lia).
    replace (c =? child) with false by (symmetry; apply Z.eqb_neq; lia).
    assert (Hpc : par c = child) by (unfold par; lia).
    rewrite <- Hpc. apply A; [lia | lia | rewrite Hpc; lia].
Qed.

Lemma sift_bottom_loop_hole : forall fuel h pos, HOLE h pos -> 0 <= pos < zlen h ->
  forall h' p, sift_bottom_loop fuel h pos (zlen h) = Ok (h', p) ->
  UP h' p /\ pos <= p < zlen h' /\ zlen h' = zlen h.
Proof.
  induction fuel as [|fuel IH]; intros h pos Hh Hp h' p E; cbn [sift_bottom_loop] in E; [discriminate|].
  destruct (2 * pos + 1 <=? Z.max 0 (zlen h - 2)) eqn:Ec.
  - apply Z.leb_le in Ec.
    set (child := if item_le (hget h (2 * pos + 1)) (hget h (2 * pos + 1 + 1)) then 2 * pos + 1 + 1 else 2 * pos + 1) in *.
    assert (Hmin : forall c, c < zlen h -> (c = 2 * pos + 1 \/ c = 2 * pos + 2) -> kg h child <= kg h c).
    { intros c Hc Hcc. unfold child, item_le. unfold kg.
      destruct (fst (hget h (2 * pos + 1 + 1)) <=? fst (hget h (2 * pos + 1))) eqn:El; [apply Z.leb_le in El | apply Z.leb_gt in El];
        destruct Hcc as [-> | ->]; replace (2 * pos + 2) with (2 * pos + 1 + 1) by lia; lia. }
    assert (Hch : child = 2 * pos + 1 \/ child = 2 * pos + 2) by (unfold child; destruct (item_le _ _); lia).
    assert (H' : HOLE (hswap h pos child) child) by (apply HOLE_swap; try assumption; lia).
    rewrite <- (zlen_hswap h pos child) in E.
    destruct (IH _ _ H' ltac:(rewrite zlen_hswap; lia) _ _ E) as [U [Hr Hl]].
    rewrite zlen_hswap in Hl. split; [exact U|]. split; [lia | exact Hl].
  - apply Z.leb_gt in Ec. destruct (2 * pos + 1 =? zlen h - 1) eqn:Eb.
    + apply Z.eqb_eq in Eb. assert (Eh' : h' = hswap h pos (2 * pos + 1)) by congruence. assert (Ep : p = 2 * pos + 1) by congruence. subst h' p. clear E.
      assert (H' : HOLE (hswap h pos (2 * pos + 1)) (2 * pos + 1)).
      { apply HOLE_swap; try assumption; try lia. intros c Hc [-> | ->]; lia. }
      destruct H' as [A B]. rewrite zlen_hswap in *. split; [|split; [lia | reflexivity]].
      constructor.
      * intros i Hi Hne. rewrite zlen_hswap in Hi. apply A; [exact Hi | exact Hne | unfold par; lia].
      * intros _ c Hc Hcc. rewrite zlen_hswap in Hc. lia.
    + apply Z.eqb_neq in Eb. assert (Eh' : h' = h) by congruence. assert (Ep : p = pos) by congruence. subst h' p. clear E. destruct Hh as [A B]. split; [|split; [lia | reflexivity]].
      constructor.
      * intros i Hi Hne. apply A; [exact Hi | exact Hne | unfold par; lia].
      * intros _ c Hc Hcc. lia.
Qed.

Lemma sift_up_hp : forall fuel h pos, UP h pos -> 0 <= pos < zlen h ->
  forall h', sift_up fuel h 0 pos = Ok h' -> hp h'.
Proof.
  induction fuel as [|fuel IH]; intros h pos [A B] Hp h' E; cbn [sift_up] in E; [discriminate|].
  destruct (0 <? pos) eqn:E0; [apply Z.ltb_lt in E0 | apply Z.ltb_ge in E0].
  - assert (Hq : 0 <= par pos < pos) by (unfold par; lia). fold (par pos) in E.
    destruct (item_le (hget h pos) (hget h (par pos))) eqn:El.
    + inversion E; subst h'. unfold item_le in El. apply Z.leb_le in El.
      intros i Hi _. destruct (Z.eq_dec i pos) as [-> | Ne]; [unfold kg; exact El | apply A; assumption].
    + unfold item_le in El. apply Z.leb_gt in El.
      apply (IH (hswap h pos (par pos)) (par pos)); [| rewrite zlen_hswap; lia | exact E].
      set (q := par pos) in *.
      constructor.
      * intros i Hi Hne. rewrite zlen_hswap in Hi.
        assert (Hpi : 0 <= par i < i) by (unfold par; lia).
        rewrite !kg_hswap by lia.
        destruct (i =? pos) eqn:Ei; [apply Z.eqb_eq in Ei|apply Z.eqb_neq in Ei].
        -- subst i. fold q. replace (q =? pos) with false by (symmetry; apply Z.eqb_neq; lia). rewrite Z.eqb_refl. unfold kg. lia.
        -- replace (i =? q) with false by (symmetry; apply Z.eqb_neq; lia).
           destruct (par i =? pos) eqn:Epp; [apply Z.eqb_eq in Epp|apply Z.eqb_neq in Epp].
           ++ (* a child of pos *) unfold q. apply B; [lia | lia | unfold par in Epp; lia].
           ++ destruct (par i =? q) eqn:Epq; [apply Z.eqb_eq in Epq|apply Z.eqb_neq in Epq].
              ** (* the sibling of pos *) pose proof (A i Hi Ei) as H1. rewrite Epq in H1. unfold kg in *. lia.
              ** apply A; assumption.
      * intros Hq1 c Hc Hcc. rewrite zlen_hswap in Hc.
        assert (Hpq : 0 <= par q < q) by (unfold par; lia).
        rewrite !kg_hswap by lia.
        replace (par q =? pos) with false by (symmetry; apply Z.eqb_neq; lia).
        replace (par q =? q) with false by (symmetry; apply Z.eqb_neq; lia).
        pose proof (A q ltac:(lia) ltac:(lia)) as Hqq.
        replace (c =? q) with false by (symmetry; apply Z.eqb_neq; lia).
        destruct (c =? pos) eqn:Ecp; [apply Z.eqb_eq in Ecp | apply Z.eqb_neq in Ecp].
        -- exact Hqq.
        -- assert (Hpc : par c = q) by (unfold par; lia).
           pose proof (A c ltac:(lia) Ecp) as H1. rewrite Hpc in H1. lia.
  - inversion E; subst h'. intros i Hi _. apply A; [exact Hi | lia].
Qed.

(* the root of a heap is a minimum *)
Lemma hp_root_min h : hp h -> forall i, 0 <= i < zlen h -> kg h 0 <= kg h i.
Proof.
  intros H i Hi. assert (G : forall n i, 0 <= i <= Z.of_nat n -> i < zlen h -> kg h 0 <= kg h i).
  { induction n as [|n IH]; intros j Hj Hl.
    - replace j with 0 by lia. lia.
    - destruct (Z.eq_dec j 0) as [-> | Ne]; [lia|].
      assert (Hpj : 0 <= par j < j) by (unfold par; lia).
      pose proof (H j ltac:(lia) ltac:(lia)). pose proof (IH (par j) ltac:(lia) ltac:(lia)). lia. }
  apply (G (Z.to_nat i)); lia.
Qed.

Lemma Forall_kg (P : Z -> Prop) h : (forall i, 0 <= i < zlen h -> P (kg h i)) -> Forall (fun y => P (fst y)) h.
Proof.
  intros H. apply Forall_forall. intros y Hy. destruct (In_nth _ _ (0, 0) Hy) as [k [Hk Ek]].
  assert (Hr : 0 <= Z.of_nat k < zlen h) by (unfold zlen; unfold item in *; lia).
  specialize (H (Z.of_nat k) Hr). replace (fst y) with (kg h (Z.of_nat k)); [exact H|].
  unfold kg, hget. rewrite Nat2Z.id. rewrite <- Ek. reflexivity.
Qed.

(* positions of a list: kg on cons / app *)
Lemma kg_cons x tl i : 1 <= i -> kg (x :: tl) i = kg tl (i - 1).
Proof. intros Hi. unfold kg, hget. replace (Z.to_nat i) with (S (Z.to_nat (i - 1))) by lia. reflexivity. Qed.

Lemma kg_app_l a b i : 0 <= i < zlen a -> kg (a ++ b) i = kg a i.
Proof. intros Hi. unfold kg, hget. rewrite app_nth1 by (unfold zlen in Hi; lia). reflexivity. Qed.

(* pop on a heap: the result is a heap and the popped element is below everything left *)
Lemma heap_pop_hp h : hp h -> forall x h', heap_pop h = Ok (Some (x, h')) -> hp h' /\ Forall (fun y => fst x <= fst y) h'.
Proof.
  intros H x h' E. unfold heap_pop in E.
  destruct (rev h) as [|last rinit] eqn:Er; [discriminate|].
  assert (Eh : h = rev rinit ++ [last]).
  { apply (f_equal (@rev item)) in Er. rewrite rev_involutive in Er. exact Er. }
  destruct (rev rinit) as [|top tl] eqn:Ei.
  - inversion E; subst. split; [intros i Hi; unfold zlen in Hi; cbn in Hi; lia | constructor].
  - destruct (sift_down_to_bottom (last :: tl) 0) as [h1| | |] eqn:Es; cbn [bind] in E; try discriminate.
    inversion E; subst x h'. clear E.
    (* the heap before: top :: tl ++ [last] *)
    cbn [app] in Eh. pose proof (zlen_nonneg tl) as Htl.
    assert (Hlen : zlen h = zlen tl + 2) by (rewrite Eh, zlen_cons, zlen_app; change (zlen [last]) with 1; lia).
    (* HOLE at the root of last :: tl *)
    assert (Hh : HOLE (last :: tl) 0).
    { constructor; [|lia]. intros i Hi Hne Hpne. rewrite zlen_cons in Hi.
      assert (Hpi : 1 <= par i < i) by (unfold par in *; lia).
      pose proof (H i ltac:(lia) ltac:(lia)) as Hi'. rewrite Eh in Hi'.
      rewrite !kg_cons in Hi' by lia. rewrite !kg_app_l in Hi' by lia.
      rewrite !kg_cons by lia. exact Hi'. }
    unfold sift_down_to_bottom in Es.
    destruct (sift_bottom_loop (S (length (last :: tl))) (last :: tl) 0 (zlen (last :: tl))) as [[h2 p]| | |] eqn:Eb; cbn [bind] in Es; try discriminate.
    destruct (sift_bottom_loop_hole _ _ _ Hh ltac:(rewrite zlen_cons; lia) _ _ Eb) as [U [Hr Hl]].
    pose proof (sift_up_hp _ _ _ U ltac:(lia) _ Es) as Hp1.
    split; [exact Hp1|].
    (* top is a minimum of h, h1 is a rearrangement of last :: tl *)
    destruct (sift_down_to_bottom_ok (last :: tl) ltac:(rewrite zlen_cons; lia)) as [h1' [Es' M]].
    unfold sift_down_to_bottom in Es'. rewrite Eb in Es'. cbn [bind] in Es'. rewrite Es in Es'. inversion Es'; subst h1'.
    assert (Fall : Forall (fun y => (fst top <=? fst y) = true) (last :: tl)).
    { assert (F0 : Forall (fun y => fst top <= fst y) h).
      { apply (Forall_kg (fun v => fst top <= v)). intros i Hi. pose proof (hp_root_min h H i Hi) as R.
        replace (kg h 0) with (fst top) in R; [exact R|]. rewrite Eh. reflexivity. }
      rewrite Eh in F0. apply Forall_cons_iff in F0. destruct F0 as [_ F0]. apply Forall_app in F0. destruct F0 as [Ft Fl].
      apply Forall_cons_iff in Fl. destruct Fl as [Fl _].
      constructor; [apply Z.leb_le; exact Fl|]. eapply Forall_impl; [|exact Ft]. intros a Ha. apply Z.leb_le. exact Ha. }
    pose proof (meq_Forall (fun y => fst top <=? fst y) _ _ (meq_sym _ _ M) Fall) as F1.
    eapply Forall_impl; [|exact F1]. intros a Ha. apply Z.leb_le. exact Ha.
Qed.

(* replacing the root of a heap and sifting it down gives a heap *)
Lemma heap_replace_top_hp y tl x : hp (y :: tl) -> forall h', heap_replace_top (y :: tl) x = Ok h' -> hp h'.
Proof.
  intros H h' E. unfold heap_replace_top in E. pose proof (zlen_nonneg tl) as Htl.
  assert (S0 : SD 0 (x :: tl) 0).
  { constructor; [|lia]. intros i Hi _ Hpne. rewrite zlen_cons in Hi.
    assert (Hpi : 1 <= par i < i) by (unfold par in *; lia).
    pose proof (H i ltac:(rewrite zlen_cons; lia) ltac:(lia)) as Hi'.
    rewrite !kg_cons in * by lia. exact Hi'. }
  destruct (1 <? zlen (x :: tl)) eqn:E1.
  - unfold sift_down in E. apply (sift_down_range_hp 0 _ _ _ S0 ltac:(lia) ltac:(rewrite zlen_cons; lia) _ E).
  - apply Z.ltb_ge in E1. rewrite zlen_cons in E1. inversion E; subst h'. intros i Hi. rewrite zlen_cons in Hi. lia.
Qed.

(* BinaryHeap::from(vec) *)
Lemma rebuild_loop_hp : forall n h, Z.of_nat n <= zlen h -> hp_from (Z.of_nat n) h ->
  forall h', rebuild_loop n h = Ok h' -> hp h'.
Proof.
  induction n as [|n IH]; intros h Hn H h' E; cbn [rebuild_loop] in E.
  - inversion E; subst h'. exact H.
  - destruct (sift_down h (Z.of_nat n)) as [h1| | |] eqn:Es; cbn [bind] in E; try discriminate.
    assert (S0 : SD (Z.of_nat n) h (Z.of_nat n)).
    { constructor.
      - intros i Hi Hlo Hne. apply H; [exact Hi | lia].
      - intros H1 Hlo. unfold par in Hlo. lia. }
    unfold sift_down in Es.
    pose proof (sift_down_range_hp _ _ _ _ S0 ltac:(lia) ltac:(lia) _ Es) as H1.
    destruct (sift_down_ok h (Z.of_nat n) ltac:(lia)) as [h1' [Es' M]]. unfold sift_down in Es'. rewrite Es in Es'. inversion Es'; subst h1'.
    apply (IH h1); [unfold zlen in *; rewrite (meq_length _ _ M); lia | exact H1 | exact E].
Qed.

Lemma heap_from_vec_hp v : forall h, heap_from_vec v = Ok h -> hp h.
Proof.
  intros h E. unfold heap_from_vec in E.
  assert (Hd : Z.of_nat (Nat.div2 (length v)) = zlen v / 2).
  { unfold zlen. rewrite Nat.div2_div, Nat2Z.inj_div. reflexivity. }
  apply (rebuild_loop_hp (Nat.div2 (length v)) v); [rewrite Hd; pose proof (zlen_nonneg v); lia | | exact E].
  intros i Hi Hlo. rewrite Hd in Hlo. unfold par in Hlo. lia.
Qed.

(* ---- one round of the heap loop (the step that Huffman_tree.huff_loop_ok iterates), with everything it produces ---- *)
Lemma huff_step freqs : zlen freqs <= 32768 -> forall fuel h ins, inv freqs h ins -> 1 < zlen h ->
  exists f1 i1 f0 i0 tl h2,
    heap_pop h = Ok (Some ((f1, i1), (f0, i0) :: tl)) /\ meq ((f1, i1) :: (f0, i0) :: tl) h
    /\ heap_replace_top ((f0, i0) :: tl) (f1 + f0, zlen freqs + zlen ins) = Ok h2
    /\ meq h2 ((f1 + f0, zlen freqs + zlen ins) :: tl)
    /\ inv freqs h2 (ins ++ [(i1, i0)])
    /\ huff_loop (S fuel) (zlen freqs) h ins = huff_loop fuel (zlen freqs) h2 (ins ++ [(i1, i0)])
    /\ 0 <= i1 < zlen freqs + zlen ins /\ 0 <= i0 < zlen freqs + zlen ins
    /\ Forall (fun it => valid_idb (zlen freqs + zlen ins) it = true) tl
    /\ 0 <= f1 /\ 0 <= f0.
Proof.
  intros Hn fuel h ins I E1. set (n := zlen freqs) in *. assert (Hn0 : 0 <= n) by apply zlen_nonneg.
  destruct (heap_pop_ok h) as [[f1 i1] [h1 [Ep M]]].
  { intros ->. unfold zlen in E1. cbn in E1. lia. }
  assert (Hlen1 : zlen h1 = zlen h - 1).
  { pose proof (meq_length _ _ M) as L. unfold zlen. cbn [length] in L. lia. }
  destruct h1 as [|[f0 i0] tl]; [unfold zlen in *; cbn [length] in *; lia|].
  pose proof (meq_sym _ _ M) as M'.
  pose proof (meq_Forall _ _ _ M' (inv_ids _ _ _ I)) as Hids.
  pose proof (meq_Forall _ _ _ M' (inv_nn _ _ _ I)) as Hnn.
  pose proof (M ifst) as Hsum. cbn [map zsum] in Hsum. unfold ifst at 1 2 in Hsum. cbn [fst] in Hsum.
  pose proof (inv_sum _ _ _ I) as Hs.
  apply Forall_cons_iff in Hnn. destruct Hnn as [Hn1 Hnn]. apply Forall_cons_iff in Hnn. destruct Hnn as [Hn0' Hnt].
  unfold fst_nnb in Hn1, Hn0'. cbn [fst] in Hn1, Hn0'. apply Z.leb_le in Hn1, Hn0'.
  pose proof (zsum_ifst_nonneg tl Hnt) as Htl.
  pose proof (inv_len _ _ _ I) as Hl. pose proof (zlen_nonneg ins) as Hi0.
  assert (Hused : used freqs <= n).
  { unfold used, n, zlen. pose proof (filter_len_le (fun f => 0 <? f) freqs). lia. }
  destruct (heap_replace_top_ok (f0, i0) tl (f1 + f0, n + zlen ins)) as [h2 [Er M2]].
  apply Forall_cons_iff in Hids. destruct Hids as [Hv1 Hids]. apply Forall_cons_iff in Hids. destruct Hids as [Hv0 Hvt].
  unfold valid_idb in Hv1, Hv0. cbn [snd] in Hv1, Hv0.
  apply andb_true_iff in Hv1. destruct Hv1 as [Hv1a Hv1b]. apply Z.leb_le in Hv1a. apply Z.ltb_lt in Hv1b.
  apply andb_true_iff in Hv0. destruct Hv0 as [Hv0a Hv0b]. apply Z.leb_le in Hv0a. apply Z.ltb_lt in Hv0b.
  fold n in Hv1b, Hv0b, Hvt.
  exists f1, i1, f0, i0, tl, h2.
  split; [exact Ep|]. split; [exact M|]. split; [exact Er|]. split; [exact M2|].
  split; [|split; [|split; [lia | split; [lia | split; [exact Hvt | split; lia]]]]].
  - constructor.
    + apply wf_ins_snoc; [exact (inv_wf _ _ _ I) | fold n; lia | fold n; lia].
    + apply (meq_Forall _ _ _ (meq_sym _ _ M2)). rewrite zlen_app. change (zlen [(i1, i0)]) with 1. fold n.
      constructor.
      * unfold valid_idb. cbn [snd]. apply andb_true_iff. rewrite Z.leb_le, Z.ltb_lt. lia.
      * eapply Forall_impl; [|exact Hvt]. intros it Hit. unfold valid_idb in *.
        apply andb_true_iff in Hit. destruct Hit as [Ha Hb']. apply Z.ltb_lt in Hb'.
        apply andb_true_iff. split; [exact Ha | apply Z.ltb_lt; lia].
    + apply (meq_Forall _ _ _ (meq_sym _ _ M2)). constructor; [|exact Hnt].
      unfold fst_nnb. cbn [fst]. apply Z.leb_le. lia.
    + rewrite (M2 ifst). cbn [map zsum]. unfold ifst at 1. cbn [fst]. lia.
    + intros i. rewrite (M2 _). cbn [map zsum]. rewrite lcnt_pair.
      fold n. rewrite tree_of_new by exact Hn0. cbn [leaves]. rewrite count_eq_app.
      rewrite <- (inv_leaf _ _ _ I i). rewrite (M' _). cbn [map zsum]. rewrite !lcnt_pair. fold n.
      rewrite (zsum_map_ext (lcnt n (ins ++ [(i1, i0)]) i) (lcnt n ins i) tl); [lia|].
      intros it Hit. rewrite Forall_forall in Hvt. specialize (Hvt it Hit). unfold valid_idb in Hvt.
      apply andb_true_iff in Hvt. destruct Hvt as [_ Hvt]. apply Z.ltb_lt in Hvt.
      unfold lcnt. rewrite tree_of_mono by exact Hvt. reflexivity.
    + rewrite zlen_app. change (zlen [(i1, i0)]) with 1.
      pose proof (meq_length _ _ M2) as L2. unfold zlen in *. cbn [length] in *. lia.
  - cbn [huff_loop]. replace (1 <? zlen h) with true by (symmetry; apply Z.ltb_lt; lia).
    rewrite Ep. cbn [bind].
    unfold cadd at 1. replace (u32_max <? f1 + f0) with false by (symmetry; apply Z.ltb_ge; lia). cbn [bind].
    rewrite zlen_app. change (zlen [(i1, i0)]) with 1.
    rewrite (wrapU16_small (zlen ins + 1)) by lia. rewrite (wrapU16_small n) by lia.
    unfold cadd. replace (u16_max <? zlen ins + 1 + n) with false by (symmetry; apply Z.ltb_ge; unfold u16_max; lia).
    cbn [bind]. unfold csub. replace (zlen ins + 1 + n - 1 <? 0) with false by (symmetry; apply Z.ltb_ge; lia).
    cbn [bind]. replace (zlen ins + 1 + n - 1) with (n + zlen ins) by lia. rewrite Er. cbn [bind]. reflexivity.
Qed.

(* ---- Fibonacci weights ---- *)
Fixpoint phi (k : nat) : Z :=
  match k with
  | O => 1
  | S k' => match k' with O => 2 | S k'' => phi k' + phi k'' end
  end.

Lemma phi_SS k : phi (S (S k)) = phi (S k) + phi k.
Proof. reflexivity. Qed.

Lemma phi_pos k : 1 <= phi k /\ phi k <= phi (S k).
Proof.
  induction k as [|k [IH1 IH2]]; [cbn; lia|]. split; [lia|]. rewrite phi_SS. lia.
Qed.

Lemma phi_mono k m : (k <= m)%nat -> phi k <= phi m.
Proof. induction 1 as [|m _ IH]; [lia|]. pose proof (phi_pos m). lia. Qed.

(* linear-time evaluation of phi (the definition itself recurses twice) *)
Fixpoint fibpair (k : nat) : Z * Z := match k with O => (1, 2) | S k' => let '(a, b) := fibpair k' in (b, a + b) end.
Lemma phi_fibpair k : fibpair k = (phi k, phi (S k)).
Proof.
  induction k as [|k IH]; [reflexivity|]. cbn [fibpair]. rewrite IH. rewrite (phi_SS k). f_equal. lia.
Qed.

Lemma pair_fst_eq (a b c d : Z) : (a, b) = (c, d) -> a = c.
Proof. intros H. inversion H. reflexivity. Qed.

(* care: nothing below may make the kernel evaluate `phi 46` by its doubly recursive definition *)
Lemma phi_46 : 2 ^ 32 < phi 46.
Proof.
  pose proof (phi_fibpair 46) as E.
  assert (V : fibpair 46 = (4807526976, 7778742049)) by (vm_compute; reflexivity).
  rewrite V in E. apply pair_fst_eq in E. rewrite <- E. reflexivity.
Qed.

Fixpoint hn (t : tree) : nat := match t with Leaf _ => O | Node l r => S (Nat.max (hn l) (hn r)) end.
Lemma height_hn t : height t = Z.of_nat (hn t).
Proof. induction t as [i | l IHl r IHr]; cbn [height hn]; [reflexivity|]. rewrite IHl, IHr. lia. Qed.

Definition j1b (n : Z) (ins : list (Z * Z)) (it : item) : bool := phi (hn (tree_of n ins (snd it))) <=? fst it.
Definition j2b (theta : Z) (it : item) : bool := theta <=? fst it.
Definition j3b (n : Z) (ins : list (Z * Z)) (theta : Z) (it : item) : bool :=
  match tree_of n ins (snd it) with Leaf _ => true | Node l r => phi (Nat.max (hn l) (hn r)) <=? theta end.

Lemma huff_loop_fib freqs : zlen freqs <= 32768 ->
  forall fuel h ins theta, inv freqs h ins -> hp h ->
  Forall (fun it => j1b (zlen freqs) ins it = true) h ->
  Forall (fun it => j2b theta it = true) h ->
  Forall (fun it => j3b (zlen freqs) ins theta it = true) h ->
  forall F root ins', huff_loop fuel (zlen freqs) h ins = Ok ([(F, root)], ins') ->
  phi (hn (tree_of (zlen freqs) ins' root)) <= F.
Proof.
  intros Hn. set (n := zlen freqs) in *. assert (Hn0 : 0 <= n) by apply zlen_nonneg.
  induction fuel as [|fuel IH]; intros h ins theta I Hh J1 J2 J3 F root ins' E; [discriminate|].
  destruct (Z.lt_ge_cases 1 (zlen h)) as [Hgt | Hle].
  - destruct (huff_step freqs Hn fuel h ins I Hgt) as [f1 [i1 [f0 [i0 [tl [h2 [Ep [M [Er [M2 [I2 [Es [Hi1 [Hi0 [Hvt [Hf1 Hf0]]]]]]]]]]]]]]]].
    fold n in Es, Er, M2, Hi1, Hi0, Hvt. rewrite Es in E.
    (* order facts *)
    destruct (heap_pop_hp h Hh _ _ Ep) as [Hh1 Hmin1].
    pose proof (heap_replace_top_hp _ _ _ Hh1 _ Er) as Hh2.
    apply Forall_cons_iff in Hmin1. destruct Hmin1 as [Hab _]. cbn [fst] in Hab.
    assert (Hb_min : Forall (fun y => f0 <= fst y) tl).
    { pose proof (Forall_kg (fun v => f0 <= v) ((f0, i0) :: tl)) as G.
      assert (G' : Forall (fun y => f0 <= fst y) ((f0, i0) :: tl)).
      { apply G. intros i Hi. pose proof (hp_root_min _ Hh1 i Hi) as R. exact R. }
      apply Forall_cons_iff in G'. tauto. }
    (* the invariants on the popped items and the rest *)
    pose proof (meq_sym _ _ M) as M'.
    pose proof (meq_Forall _ _ _ M' J1) as K1. pose proof (meq_Forall _ _ _ M' J2) as K2. pose proof (meq_Forall _ _ _ M' J3) as K3.
    apply Forall_cons_iff in K1. destruct K1 as [K1a K1]. apply Forall_cons_iff in K1. destruct K1 as [K1b K1t].
    apply Forall_cons_iff in K2. destruct K2 as [K2a K2]. apply Forall_cons_iff in K2. destruct K2 as [K2b K2t].
    apply Forall_cons_iff in K3. destruct K3 as [K3a K3]. apply Forall_cons_iff in K3. destruct K3 as [K3b K3t].
    unfold j1b in K1a, K1b. unfold j2b in K2a, K2b. unfold j3b in K3a, K3b. cbn [fst snd] in *.
    apply Z.leb_le in K1a, K1b, K2a, K2b.
    set (A := tree_of n ins i1) in *. set (B := tree_of n ins i0) in *.
    pose proof (phi_pos (hn A)) as [PA _]. pose proof (phi_pos (hn B)) as [PB _].
    apply (IH h2 (ins ++ [(i1, i0)]) f0 I2 Hh2); [| | | exact E].
    + (* J1 *)
      apply (meq_Forall _ _ _ (meq_sym _ _ M2)). constructor.
      * unfold j1b. cbn [fst snd]. rewrite tree_of_new by exact Hn0. fold A B. cbn [hn]. apply Z.leb_le.
        destruct (Nat.max (hn A) (hn B)) as [|m'] eqn:Em.
        -- cbn. lia.
        -- rewrite phi_SS. destruct (Nat.max_dec (hn A) (hn B)) as [Emax | Emax]; rewrite Emax in Em.
           ++ (* A is the higher one *)
              destruct A as [k | la ra]; cbn [hn] in Em; [discriminate|]. injection Em as Em. rewrite Em in K3a.
              apply Z.leb_le in K3a. cbn [hn] in K1a. rewrite Em in K1a. lia.
           ++ destruct B as [k | lb rb]; cbn [hn] in Em; [discriminate|]. injection Em as Em. rewrite Em in K3b.
              apply Z.leb_le in K3b. cbn [hn] in K1b. rewrite Em in K1b. lia.
      * apply Forall_forall. intros it Hit. rewrite Forall_forall in K1t, Hvt. specialize (K1t it Hit). specialize (Hvt it Hit).
        unfold valid_idb in Hvt. apply andb_true_iff in Hvt. destruct Hvt as [_ Hvt]. apply Z.ltb_lt in Hvt.
        unfold j1b in *. rewrite tree_of_mono by exact Hvt. exact K1t.
    + (* J2 with the new threshold f0 *)
      apply (meq_Forall _ _ _ (meq_sym _ _ M2)). constructor.
      * unfold j2b. cbn [fst]. apply Z.leb_le. lia.
      * eapply Forall_impl; [|exact Hb_min]. intros a Ha. unfold j2b. apply Z.leb_le. exact Ha.
    + (* J3 *)
      apply (meq_Forall _ _ _ (meq_sym _ _ M2)). constructor.
      * unfold j3b. cbn [snd]. rewrite tree_of_new by exact Hn0. fold A B. apply Z.leb_le.
        destruct (Nat.max_dec (hn A) (hn B)) as [Emax | Emax]; rewrite Emax; lia.
      * apply Forall_forall. intros it Hit. rewrite Forall_forall in K3t, Hvt. specialize (K3t it Hit). specialize (Hvt it Hit).
        unfold valid_idb in Hvt. apply andb_true_iff in Hvt. destruct Hvt as [_ Hvt]. apply Z.ltb_lt in Hvt.
        unfold j3b in *. rewrite tree_of_mono by exact Hvt.
        destruct (tree_of n ins (snd it)); [reflexivity|]. apply Z.leb_le in K3t. apply Z.leb_le. lia.
  - cbn [huff_loop] in E. replace (1 <? zlen h) with false in E by (symmetry; apply Z.ltb_ge; lia).
    inversion E; subst. apply Forall_cons_iff in J1. destruct J1 as [J1 _]. unfold j1b in J1. cbn [fst snd] in J1.
    apply Z.leb_le in J1. exact J1.
Qed.

Lemma heap_items_pos freqs : Forall (fun it : item => 1 <= fst it) (heap_items freqs).
Proof.
  unfold heap_items. apply Forall_forall. intros it Hit. apply in_map_iff in Hit. destruct Hit as [p [<- Hp]].
  apply filter_In in Hp. destruct Hp as [_ Hp]. apply Z.ltb_lt in Hp. cbn [fst]. lia.
Qed.

Theorem depth_fits_all : forall freqs,
  zlen freqs <= 32768 -> Forall (fun f => 0 <= f) freqs -> zsum freqs < 2 ^ 32 -> depth_fits freqs.
Proof.
  intros freqs Hn Hnn Hs t Et. unfold huff_tree in Et. set (n := zlen freqs) in *.
  assert (Hs' : zsum freqs <= u32_max) by (unfold u32_max; change (2 ^ 32) with 4294967296 in Hs; lia).
  destruct (heap_from_vec (heap_items freqs)) as [h0| | |] eqn:E0; cbn [bind] in Et; try discriminate.
  destruct (heap_from_vec_ok (heap_items freqs)) as [h0' [E0' M0]]. rewrite E0 in E0'. inversion E0'; subst h0'.
  pose proof (initial_inv freqs h0 Hn Hnn Hs' M0) as I0.
  pose proof (heap_from_vec_hp _ _ E0) as Hh0.
  destruct (huff_loop (S (length freqs)) n h0 []) as [[h ins]| | |] eqn:El; cbn [bind fst snd] in Et; try discriminate.
  destruct (heap_pop h) as [[[[F root] rest]|]| | |] eqn:Ep; cbn [bind] in Et; try discriminate.
  inversion Et; subst t. clear Et.
  (* the loop ends with a single item *)
  assert (Hl0 : zlen h0 = used freqs) by (pose proof (inv_len _ _ _ I0) as L; change (zlen (@nil (Z * Z))) with 0 in L; lia).
  assert (Hused : used freqs <= zlen freqs).
  { unfold used, zlen. pose proof (filter_len_le (fun f => 0 <? f) freqs). lia. }
  destruct (Z.le_gt_cases 1 (zlen h0)) as [H1 | H0].
  2:{ (* no used symbol at all: the loop returns the empty heap and pop gives None *)
      assert (h0 = []) by (destruct h0; [reflexivity | unfold zlen in H0; cbn [length] in H0; lia]). subst h0.
      cbn in El. inversion El; subst h ins. cbn in Ep. discriminate. }
  destruct (huff_loop_ok freqs Hn (S (length freqs)) h0 [] I0 H1 ltac:(unfold zlen in *; lia)) as [F' [root' [ins' [El' I]]]].
  fold n in El'. rewrite El in El'. inversion El'; subst h ins'. clear El'.
  change (heap_pop [(F', root')]) with (@Ok (option (item * list item)) (Some ((F', root'), []))) in Ep. inversion Ep; subst F' root' rest.
  (* Fibonacci bound *)
  assert (Jpos : Forall (fun it : item => 1 <= fst it) h0).
  { pose proof (heap_items_pos freqs) as P.
    assert (Pb : Forall (fun it : item => (1 <=? fst it) = true) (heap_items freqs)) by (eapply Forall_impl; [|exact P]; intros a Ha; apply Z.leb_le; exact Ha).
    pose proof (meq_Forall (fun it => 1 <=? fst it) _ _ (meq_sym _ _ M0) Pb) as P0.
    eapply Forall_impl; [|exact P0]. intros a Ha. apply Z.leb_le. exact Ha. }
  pose proof (inv_ids _ _ _ I0) as Hids0. change (zlen (@nil (Z * Z))) with 0 in Hids0. rewrite Z.add_0_r in Hids0.
  assert (Hleaf0 : forall it, In it h0 -> tree_of n [] (snd it) = Leaf (snd it)).
  { intros it Hit. rewrite Forall_forall in Hids0. specialize (Hids0 it Hit). unfold valid_idb in Hids0.
    apply andb_true_iff in Hids0. destruct Hids0 as [_ Hv]. apply Z.ltb_lt in Hv. apply tree_of_leaf. exact Hv. }
  pose proof (huff_loop_fib freqs Hn (S (length freqs)) h0 [] 0 I0 Hh0) as Fib. fold n in Fib.
  assert (HF : phi (hn (tree_of n ins root)) <= F).
  { apply Fib; [| | | exact El].
    - apply Forall_forall. intros it Hit. unfold j1b. rewrite (Hleaf0 it Hit). cbn [hn phi].
      rewrite Forall_forall in Jpos. apply Z.leb_le. apply Jpos. exact Hit.
    - apply Forall_forall. intros it Hit. unfold j2b. rewrite Forall_forall in Jpos. specialize (Jpos it Hit). apply Z.leb_le. lia.
    - apply Forall_forall. intros it Hit. unfold j3b. rewrite (Hleaf0 it Hit). reflexivity. }
  pose proof (inv_sum _ _ _ I) as HFs. cbn [map zsum] in HFs. unfold ifst in HFs. cbn [fst] in HFs.
  rewrite height_hn.
  destruct (le_lt_dec 46 (hn (tree_of n ins root))) as [Hbig | Hsmall]; [|lia].
  pose proof (phi_mono _ _ Hbig). pose proof phi_46. unfold u32_max in HFs. change (2 ^ 32) with 4294967296 in *. lia.
Qed.

(* ---- the unconditional theorem ---- *)
Theorem huffman_ok_full : forall sorter freqs L,
  sorter_ok sorter -> 1 <= L <= 15 ->
  Forall (fun f => 0 <= f) freqs -> zsum freqs < 2 ^ 32 -> zlen freqs <= 2 ^ L -> 2 <= used freqs ->
  exists lens codes, build_huffman_tree sorter freqs L = Ok (true, lens, codes) /\ c14_prop freqs L true lens codes.
Proof.
  intros sorter freqs L Hsort HL Hnn Hs Hn Hu.
  apply huffman_ok_partial; try assumption.
  assert (Hp15 : 2 ^ L <= 32768) by (change 32768 with (2 ^ 15); apply Z.pow_le_mono_r; lia).
  apply depth_fits_all; [lia | exact Hnn | exact Hs].
Qed.

(* the three situations in which encoder.rs calls build_huffman_tree *)
Corollary huffman_ok_encoder : forall sorter freqs L,
  sorter_ok sorter -> Forall (fun f => 0 <= f) freqs -> zsum freqs < 2 ^ 32 -> 2 <= used freqs ->
  (L = 15 /\ (zlen freqs = 256 \/ zlen freqs = 280)) \/ (L = 7 /\ zlen freqs = 16) ->
  exists lens codes, build_huffman_tree sorter freqs L = Ok (true, lens, codes) /\ c14_prop freqs L true lens codes.
Proof.
  intros sorter freqs L Hsort Hnn Hs Hu Hc. apply huffman_ok_full; try assumption.
  - destruct Hc as [[-> _] | [-> _]]; lia.
  - destruct Hc as [[-> [-> | ->]] | [-> ->]]; cbn; lia.
Qed.
