(* C08: the hypotheses of accessors_spec are satisfiable by non-trivial containers, and on them the model
   returns the expected values by computation (a sanity check of the statement, independent of the proof). *)
From Coq Require Import ZArith List Bool.
From WebP Require Import Lib.Res Spec.Container Proofs.Container_bytes Proofs.Container_simple.
From WebP Require Model.Container.
Import ListNotations.
Open Scope Z_scope.

Definition ex_vp8 : vp8_data :=
  {| v_tag := 464; v_width := 2; v_hscale := 0; v_height := 3; v_vscale := 1; v_rest := [1; 2; 3] |}.
Definition ex_vp8l : vp8l_data := {| l_w1 := 16383; l_h1 := 0; l_alpha := true; l_rest := [9] |}.
Definition ex_alph : alph_data := {| a_pre := 1; a_filter := 2; a_comp := 0; a_rest := [5; 6; 7] |}.
Definition ex_unknown : unknown_chunk := {| u_cc := [97; 98; 99; 100]; u_payload := [1; 2; 3] |}.     (* "abcd", odd length *)
Definition ex_frame1 : frame :=
  {| f_x := 1; f_y := 2; f_w1 := 3; f_h1 := 4; f_duration := 100; f_rsv := 0; f_noblend := true; f_dispose := false;
     f_image := FLossy (Some ex_alph) ex_vp8; f_unknown := [ex_unknown] |}.
Definition ex_frame2 : frame :=
  {| f_x := 0; f_y := 0; f_w1 := 3; f_h1 := 4; f_duration := 16777215; f_rsv := 0; f_noblend := false; f_dispose := true;
     f_image := FLossless ex_vp8l; f_unknown := [] |}.
Definition ex_vp8x_anim : vp8x :=
  {| x_rsv1 := 0; x_icc := true; x_alpha := true; x_exif := true; x_xmp := false; x_anim := true; x_rsv2 := 0; x_rsv3 := 0;
     x_w1 := 16777215; x_h1 := 49 |}.
(* animation, 2^24 wide: unknown chunk first, ICCP, ANIM, a lossless frame, an odd-length EXIF, a lossy frame with
   ALPH and an unknown sub-chunk, a duplicate EXIF (ignored), an unknown chunk last *)
Definition ex_anim : container :=
  Extended ex_vp8x_anim
    [CUnknown ex_unknown; CICCP [1; 2; 3]; CANIM [1; 2; 3; 4] 7; CANMF ex_frame2; CEXIF [7; 7; 7]; CANMF ex_frame1;
     CEXIF [8]; CUnknown ex_unknown].

Definition ex_vp8x_still : vp8x :=
  {| x_rsv1 := 0; x_icc := false; x_alpha := true; x_exif := true; x_xmp := true; x_anim := false; x_rsv2 := 0; x_rsv3 := 0;
     x_w1 := 1; x_h1 := 2 |}.
(* still image with the metadata BEFORE the image data and an unknown chunk between ALPH and VP8 *)
Definition ex_still : container :=
  Extended ex_vp8x_still [CXMP [60; 120; 62]; CEXIF [73; 73; 42; 0; 8]; CALPH ex_alph; CUnknown ex_unknown; CVP8 ex_vp8].

Example wf_ex_anim : wf ex_anim = true. Proof. vm_compute. reflexivity. Qed.
Example wf_ex_still : wf ex_still = true. Proof. vm_compute. reflexivity. Qed.
Example wf_ex_lossless : wf (SimpleLossless ex_vp8l [ex_unknown]) = true. Proof. vm_compute. reflexivity. Qed.
Example wf_ex_lossy : wf (SimpleLossy ex_vp8 []) = true. Proof. vm_compute. reflexivity. Qed.

Definition tuple (d : M.decoder) :=
  (M.dimensions d, M.has_alpha d, M.is_animated d, M.is_lossy d, M.num_frames d, M.loop_count d, M.loop_duration d,
   M.icc_profile d, M.exif_metadata d, M.xmp_metadata d, M.output_buffer_size d).

Example run_ex_anim :
  rmap tuple (M.new (serialize ex_anim))
  = Ok ((16777216, 50), true, true, true, 2, M.Times 7, 16777315, Ok (Some [1; 2; 3]), Ok (Some [7; 7; 7]), Ok None,
        Some 3355443200).
Proof. vm_compute. reflexivity. Qed.

Example run_ex_still :
  rmap tuple (M.new (serialize ex_still))
  = Ok ((2, 3), true, false, true, 0, M.Times 1, 0, Ok None, Ok (Some [73; 73; 42; 0; 8]), Ok (Some [60; 120; 62]), Some 24).
Proof. vm_compute. reflexivity. Qed.

(* a 16384 x 1 lossless file: the dimension the unfixed source (F1) wrapped to 0 *)
Example run_ex_lossless :
  rmap M.dimensions (M.new (serialize (SimpleLossless ex_vp8l [ex_unknown]))) = Ok (16384, 1).
Proof. vm_compute. reflexivity. Qed.

(* memory limit 2 on the EXIF payload of 3 bytes *)
Example run_ex_limit :
  rmap (fun d => M.exif_metadata (M.set_memory_limit d 2)) (M.new (serialize ex_anim)) = Ok (Err EMemoryLimitExceeded).
Proof. vm_compute. reflexivity. Qed.
