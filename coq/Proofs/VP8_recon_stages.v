(* Proofs/VP8_recon_stages.v -- (iii): the four stages of Vp8Decoder::loop_filter (left macroblock edge, inner vertical
   edges, top macroblock edge, inner horizontal edges; luma, then u and v together), simple and normal filter, against
   the corresponding steps of Spec.VP8.filter_mb_plane on each plane. *)
From Coq Require Import ZArith NArith List Bool Lia.
From WebP Require Import Lib.Res Lib.ZBits Lib.Arr Gen.Kernels Gen.Tables Spec.VP8 Model.Vp8Predict Model.Vp8Recon
  Proofs.VP8_predict_base Proofs.VP8_arraykernels Proofs.VP8_recon_base Proofs.VP8_recon_bytes Proofs.VP8_recon_edge
  Proofs.VP8_recon_runs.
From WebP Require Model.Vp8Parse.
Import ListNotations.
Open Scope Z_scope.

(* a decoder plane [a] being filtered, the reference array [b], dimensions w x h *)
Definition pst (a b : arr) (w h : Z) : Prop := aeq a b /\ abytes_in a /\ alenZ a = w * h.

Lemma pst_next a a' b b' w h : pst a b w h -> aeq a' b' -> abytes_in a' -> alen a' = alen a -> pst a' b' w h.
Proof. intros (_ & _ & L) R B La. split; [exact R|]. split; [exact B|]. unfold alenZ in *. rewrite La. exact L. Qed.

(* the Spec edge functions in the argument order of [edge_refines] *)
Definition g_simple (el : Z) : Z -> arr -> Z -> arr := fun s b p => VP8.simple_edge s el b p.
Definition g_mb (hev il el : Z) : Z -> arr -> Z -> arr := fun s b p => VP8.mb_edge s el il hev b p.
Definition g_sub (hev il el : Z) : Z -> arr -> Z -> arr := fun s b p => VP8.inner_edge s el il hev b p.

Lemma er_simple el : edge_refines (simple_segment el) (g_simple el).
Proof. intros a b p s. apply simple_segment_refines_spec. Qed.
Lemma er_mb hev il el : edge_refines (macroblock_filter hev il el) (g_mb hev il el).
Proof. intros a b p s. apply macroblock_filter_refines_spec. Qed.
Lemma er_sub hev il el : edge_refines (subblock_filter hev il el) (g_sub hev il el).
Proof. intros a b p s. apply subblock_filter_refines_spec. Qed.

(* the four steps of Spec.VP8.filter_mb_plane *)
Definition sp_left (fe : Z -> arr -> Z -> arr) (stride size mx my : Z) (a : arr) : arr :=
  if 0 <? mx then edge_loop (fe 1) a (size * my * stride + size * mx) stride (Z.to_nat size) else a.
Definition sp_inner_v (fi : Z -> arr -> Z -> arr) (stride size mx my : Z) (inner : bool) (a : arr) : arr :=
  if inner then inner_edges (fi 1) a (size * my * stride + size * mx) 4 stride (Z.to_nat size) (Z.to_nat (size / 4 - 1)) else a.
Definition sp_top (fe : Z -> arr -> Z -> arr) (stride size mx my : Z) (a : arr) : arr :=
  if 0 <? my then edge_loop (fe stride) a (size * my * stride + size * mx) 1 (Z.to_nat size) else a.
Definition sp_inner_h (fi : Z -> arr -> Z -> arr) (stride size mx my : Z) (inner : bool) (a : arr) : arr :=
  if inner then inner_edges (fi stride) a (size * my * stride + size * mx) (4 * stride) 1 (Z.to_nat size) (Z.to_nat (size / 4 - 1)) else a.

Lemma filter_mb_plane_stages fe fi stride size mx my inner a :
  filter_mb_plane fe fi stride size mx my inner a =
  sp_inner_h fi stride size mx my inner (sp_top fe stride size mx my (sp_inner_v fi stride size mx my inner (sp_left fe stride size mx my a))).
Proof. reflexivity. Qed.

Lemma inner_edges_1 f a i0 off along n : inner_edges f a i0 off along n 1 = edge_loop f a (i0 + off) along n.
Proof. reflexivity. Qed.

Section Stages.
  Variables (h : RHdr) (mbh mx my : Z) (mb : Vp8Parse.MacroBlock) (il hev el : Z).
  Let mbw := rh_mbwidth h.
  Hypothesis Hmx : 0 <= mx < mbw.
  Hypothesis Hmy : 0 <= my < mbh.
  Let inner := (Vp8Parse.mb_luma_mode mb =? vp8_B_PRED) || Vp8Parse.mb_non_zero_coeffs mb.

  Variables (y u v yb ub vb : arr).
  Hypothesis Hy : pst y yb (mbw * 16) (mbh * 16).
  Hypothesis Hu : pst u ub (mbw * 8) (mbh * 8).
  Hypothesis Hv : pst v vb (mbw * 8) (mbh * 8).

  (* ---------------- simple filter: luma only ---------------- *)
  Lemma lf_left_simple : rh_filter_type h = true ->
    exists y', lf_left h mx my mb il hev el 16 16 8 8 (y, u, v) = Ok (y', u, v) /\
               pst y' (sp_left (g_simple el) (mbw * 16) 16 mx my yb) (mbw * 16) (mbh * 16).
  Proof.
    intros Hs. unfold lf_left, sp_left. rewrite Hs. fold mbw. rewrite Z.gtb_ltb.
    destruct (Z.ltb_spec 0 mx) as [Hm|Hm]; [|exists y; split; [reflexivity|exact Hy]].
    change (16 >=? 2) with true. cbv iota. change (Z.to_nat 16) with 16%nat.
    destruct Hy as (R & B & L).
    destruct (vrun (simple_segment el) (g_simple el) (er_simple el) (mbw * 16) (mbh * 16) ltac:(lia) y yb (mx * 16) (my * 16) 16
                (fun yy => (my * 16 + yy) * (mbw * 16) + mx * 16) R B L) as (y' & E & R' & B' & L'); try lia.
    exists y'. rewrite E. cbn [bind]. split; [reflexivity|].
    replace (16 * my * (mbw * 16) + 16 * mx) with (my * 16 * (mbw * 16) + mx * 16) by ring.
    apply (pst_next y y' yb _ _ _ (conj R (conj B L)) R' B' L').
  Qed.

  Lemma lf_top_simple : rh_filter_type h = true ->
    exists y', lf_top h mx my mb il hev el 16 16 8 8 (y, u, v) = Ok (y', u, v) /\
               pst y' (sp_top (g_simple el) (mbw * 16) 16 mx my yb) (mbw * 16) (mbh * 16).
  Proof.
    intros Hs. unfold lf_top, sp_top. rewrite Hs. fold mbw. rewrite Z.gtb_ltb.
    destruct (Z.ltb_spec 0 my) as [Hm|Hm]; [|exists y; split; [reflexivity|exact Hy]].
    change (16 >=? 2) with true. cbv iota. change (Z.to_nat 16) with 16%nat.
    destruct Hy as (R & B & L).
    destruct (hrun (simple_segment el) (g_simple el) (er_simple el) (mbw * 16) (mbh * 16) ltac:(lia) y yb (my * 16) (mx * 16) 16
                (fun x => my * 16 * (mbw * 16) + (mx * 16 + x)) R B L) as (y' & E & R' & B' & L'); try lia.
    exists y'. rewrite E. cbn [bind]. split; [reflexivity|].
    replace (16 * my * (mbw * 16) + 16 * mx) with (my * 16 * (mbw * 16) + mx * 16) by ring.
    apply (pst_next y y' yb _ _ _ (conj R (conj B L)) R' B' L').
  Qed.

  Lemma lf_inner_v_simple : rh_filter_type h = true ->
    exists y', lf_inner_v h mx my mb il hev el 16 16 8 8 (y, u, v) = Ok (y', u, v) /\
               pst y' (sp_inner_v (g_simple el) (mbw * 16) 16 mx my inner yb) (mbw * 16) (mbh * 16).
  Proof.
    intros Hs. unfold lf_inner_v, sp_inner_v. rewrite Hs. fold mbw. fold inner.
    destruct inner; [|exists y; split; [reflexivity|exact Hy]].
    rewrite usub_ok by lia. cbn [bind]. change (step4_count 4 (16 - 1)) with 3%nat.
    change (Z.to_nat 16) with 16%nat. change (Z.to_nat (16 / 4 - 1)) with 3%nat.
    destruct Hy as (R & B & L).
    destruct (inner_v_run (simple_segment el) (g_simple el) (er_simple el) (mbw * 16) (mbh * 16) ltac:(lia)
                (mx * 16) (my * 16) 16 ltac:(lia) ltac:(lia) ltac:(lia) 3 4 y yb R B L) as (y' & E & R' & B' & L'); try lia.
    exists y'. rewrite E. cbn [bind]. split; [reflexivity|].
    replace (16 * my * (mbw * 16) + 16 * mx) with (my * 16 * (mbw * 16) + mx * 16 + 4 - 4) by ring.
    apply (pst_next y y' yb _ _ _ (conj R (conj B L)) R' B' L').
  Qed.

  Lemma lf_inner_h_simple : rh_filter_type h = true ->
    exists y', lf_inner_h h mx my mb il hev el 16 16 8 8 (y, u, v) = Ok (y', u, v) /\
               pst y' (sp_inner_h (g_simple el) (mbw * 16) 16 mx my inner yb) (mbw * 16) (mbh * 16).
  Proof.
    intros Hs. unfold lf_inner_h, sp_inner_h. rewrite Hs. fold mbw. fold inner.
    destruct inner; [|exists y; split; [reflexivity|exact Hy]].
    rewrite usub_ok by lia. cbn [bind]. change (step4_count 4 (16 - 1)) with 3%nat.
    change (Z.to_nat 16) with 16%nat. change (Z.to_nat (16 / 4 - 1)) with 3%nat.
    destruct Hy as (R & B & L).
    destruct (inner_h_run (simple_segment el) (g_simple el) (er_simple el) (mbw * 16) (mbh * 16) ltac:(lia)
                (mx * 16) (my * 16) 16 ltac:(lia) ltac:(lia) ltac:(lia) 3 4 y yb R B L) as (y' & E & R' & B' & L'); try lia.
    exists y'. rewrite E. cbn [bind]. split; [reflexivity|].
    replace (16 * my * (mbw * 16) + 16 * mx) with ((my * 16 + 4 - 4) * (mbw * 16) + mx * 16) by ring.
    apply (pst_next y y' yb _ _ _ (conj R (conj B L)) R' B' L').
  Qed.

  (* ---------------- normal filter: the three planes ---------------- *)
  Lemma lf_left_normal : rh_filter_type h = false ->
    exists y' u' v', lf_left h mx my mb il hev el 16 16 8 8 (y, u, v) = Ok (y', u', v') /\
      pst y' (sp_left (g_mb hev il el) (mbw * 16) 16 mx my yb) (mbw * 16) (mbh * 16) /\
      pst u' (sp_left (g_mb hev il el) (mbw * 8) 8 mx my ub) (mbw * 8) (mbh * 8) /\
      pst v' (sp_left (g_mb hev il el) (mbw * 8) 8 mx my vb) (mbw * 8) (mbh * 8).
  Proof.
    intros Hs. unfold lf_left, sp_left. rewrite Hs. fold mbw. rewrite Z.gtb_ltb.
    destruct (Z.ltb_spec 0 mx) as [Hm|Hm]; [|exists y, u, v; split; [reflexivity|split; [exact Hy|split; [exact Hu|exact Hv]]]].
    change (16 >=? 4) with true. change (8 >=? 4) with true. cbv iota.
    change (Z.to_nat 16) with 16%nat. change (Z.to_nat 8) with 8%nat.
    destruct Hy as (R & B & L). destruct Hu as (Ru & Bu & Lu). destruct Hv as (Rv & Bv & Lv).
    destruct (vrun (macroblock_filter hev il el) (g_mb hev il el) (er_mb hev il el) (mbw * 16) (mbh * 16) ltac:(lia) y yb (mx * 16) (my * 16) 16
                (fun yy => (my * 16 + yy) * (mbw * 16) + mx * 16) R B L) as (y' & E & R' & B' & L'); try lia.
    destruct (vrun (macroblock_filter hev il el) (g_mb hev il el) (er_mb hev il el) (mbw * 8) (mbh * 8) ltac:(lia) u ub (mx * 8) (my * 8) 8
                (fun yy => (my * 8 + yy) * (mbw * 8) + mx * 8) Ru Bu Lu) as (u' & Eu & Ru' & Bu' & Lu'); try lia.
    destruct (vrun (macroblock_filter hev il el) (g_mb hev il el) (er_mb hev il el) (mbw * 8) (mbh * 8) ltac:(lia) v vb (mx * 8) (my * 8) 8
                (fun yy => (my * 8 + yy) * (mbw * 8) + mx * 8) Rv Bv Lv) as (v' & Ev & Rv' & Bv' & Lv'); try lia.
    exists y', u', v'. rewrite E. cbn [bind].
    rewrite (both_run (macroblock_filter hev il el) (fun yy => (my * 8 + yy) * (mbw * 8) + mx * 8) 1 8 0 u v u' v' Eu Ev). cbn [bind].
    split; [reflexivity|].
    replace (16 * my * (mbw * 16) + 16 * mx) with (my * 16 * (mbw * 16) + mx * 16) by ring.
    replace (8 * my * (mbw * 8) + 8 * mx) with (my * 8 * (mbw * 8) + mx * 8) by ring.
    split; [apply (pst_next y y' yb _ _ _ (conj R (conj B L)) R' B' L')|].
    split; [apply (pst_next u u' ub _ _ _ (conj Ru (conj Bu Lu)) Ru' Bu' Lu') | apply (pst_next v v' vb _ _ _ (conj Rv (conj Bv Lv)) Rv' Bv' Lv')].
  Qed.

  Lemma lf_top_normal : rh_filter_type h = false ->
    exists y' u' v', lf_top h mx my mb il hev el 16 16 8 8 (y, u, v) = Ok (y', u', v') /\
      pst y' (sp_top (g_mb hev il el) (mbw * 16) 16 mx my yb) (mbw * 16) (mbh * 16) /\
      pst u' (sp_top (g_mb hev il el) (mbw * 8) 8 mx my ub) (mbw * 8) (mbh * 8) /\
      pst v' (sp_top (g_mb hev il el) (mbw * 8) 8 mx my vb) (mbw * 8) (mbh * 8).
  Proof.
    intros Hs. unfold lf_top, sp_top. rewrite Hs. fold mbw. rewrite Z.gtb_ltb.
    destruct (Z.ltb_spec 0 my) as [Hm|Hm]; [|exists y, u, v; split; [reflexivity|split; [exact Hy|split; [exact Hu|exact Hv]]]].
    change (16 >=? 4) with true. change (8 >=? 4) with true. cbv iota.
    change (Z.to_nat 16) with 16%nat. change (Z.to_nat 8) with 8%nat.
    destruct Hy as (R & B & L). destruct Hu as (Ru & Bu & Lu). destruct Hv as (Rv & Bv & Lv).
    destruct (hrun (macroblock_filter hev il el) (g_mb hev il el) (er_mb hev il el) (mbw * 16) (mbh * 16) ltac:(lia) y yb (my * 16) (mx * 16) 16
                (fun x => my * 16 * (mbw * 16) + (mx * 16 + x)) R B L) as (y' & E & R' & B' & L'); try lia.
    destruct (hrun (macroblock_filter hev il el) (g_mb hev il el) (er_mb hev il el) (mbw * 8) (mbh * 8) ltac:(lia) u ub (my * 8) (mx * 8) 8
                (fun x => my * 8 * (mbw * 8) + (mx * 8 + x)) Ru Bu Lu) as (u' & Eu & Ru' & Bu' & Lu'); try lia.
    destruct (hrun (macroblock_filter hev il el) (g_mb hev il el) (er_mb hev il el) (mbw * 8) (mbh * 8) ltac:(lia) v vb (my * 8) (mx * 8) 8
                (fun x => my * 8 * (mbw * 8) + (mx * 8 + x)) Rv Bv Lv) as (v' & Ev & Rv' & Bv' & Lv'); try lia.
    exists y', u', v'. rewrite E. cbn [bind].
    rewrite (both_run (macroblock_filter hev il el) (fun x => my * 8 * (mbw * 8) + (mx * 8 + x)) (mbw * 8) 8 0 u v u' v' Eu Ev). cbn [bind].
    split; [reflexivity|].
    replace (16 * my * (mbw * 16) + 16 * mx) with (my * 16 * (mbw * 16) + mx * 16) by ring.
    replace (8 * my * (mbw * 8) + 8 * mx) with (my * 8 * (mbw * 8) + mx * 8) by ring.
    split; [apply (pst_next y y' yb _ _ _ (conj R (conj B L)) R' B' L')|].
    split; [apply (pst_next u u' ub _ _ _ (conj Ru (conj Bu Lu)) Ru' Bu' Lu') | apply (pst_next v v' vb _ _ _ (conj Rv (conj Bv Lv)) Rv' Bv' Lv')].
  Qed.

  Lemma lf_inner_v_normal : rh_filter_type h = false ->
    exists y' u' v', lf_inner_v h mx my mb il hev el 16 16 8 8 (y, u, v) = Ok (y', u', v') /\
      pst y' (sp_inner_v (g_sub hev il el) (mbw * 16) 16 mx my inner yb) (mbw * 16) (mbh * 16) /\
      pst u' (sp_inner_v (g_sub hev il el) (mbw * 8) 8 mx my inner ub) (mbw * 8) (mbh * 8) /\
      pst v' (sp_inner_v (g_sub hev il el) (mbw * 8) 8 mx my inner vb) (mbw * 8) (mbh * 8).
  Proof.
    intros Hs. unfold lf_inner_v, sp_inner_v. rewrite Hs. fold mbw. fold inner.
    destruct inner; [|exists y, u, v; split; [reflexivity|split; [exact Hy|split; [exact Hu|exact Hv]]]].
    change (16 >? 3) with true. change (8 =? 8) with true. cbv iota. change (step4_count 4 (16 - 3)) with 3%nat.
    change (Z.to_nat 16) with 16%nat. change (Z.to_nat 8) with 8%nat.
    change (Z.to_nat (16 / 4 - 1)) with 3%nat. change (Z.to_nat (8 / 4 - 1)) with 1%nat.
    destruct Hy as (R & B & L). destruct Hu as (Ru & Bu & Lu). destruct Hv as (Rv & Bv & Lv).
    destruct (inner_v_run (subblock_filter hev il el) (g_sub hev il el) (er_sub hev il el) (mbw * 16) (mbh * 16) ltac:(lia)
                (mx * 16) (my * 16) 16 ltac:(lia) ltac:(lia) ltac:(lia) 3 4 y yb R B L) as (y' & E & R' & B' & L'); try lia.
    destruct (vrun (subblock_filter hev il el) (g_sub hev il el) (er_sub hev il el) (mbw * 8) (mbh * 8) ltac:(lia) u ub (mx * 8 + 4) (my * 8) 8
                (fun yy => (my * 8 + yy) * (mbw * 8) + (mx * 8 + 4)) Ru Bu Lu) as (u' & Eu & Ru' & Bu' & Lu'); try lia.
    destruct (vrun (subblock_filter hev il el) (g_sub hev il el) (er_sub hev il el) (mbw * 8) (mbh * 8) ltac:(lia) v vb (mx * 8 + 4) (my * 8) 8
                (fun yy => (my * 8 + yy) * (mbw * 8) + (mx * 8 + 4)) Rv Bv Lv) as (v' & Ev & Rv' & Bv' & Lv'); try lia.
    exists y', u', v'. rewrite E. cbn [bind].
    rewrite (both_run (subblock_filter hev il el) (fun yy => (my * 8 + yy) * (mbw * 8) + (mx * 8 + 4)) 1 8 0 u v u' v' Eu Ev). cbn [bind].
    split; [reflexivity|]. rewrite !inner_edges_1.
    replace (16 * my * (mbw * 16) + 16 * mx) with (my * 16 * (mbw * 16) + mx * 16 + 4 - 4) by ring.
    replace (8 * my * (mbw * 8) + 8 * mx + 4) with (my * 8 * (mbw * 8) + (mx * 8 + 4)) by ring.
    split; [apply (pst_next y y' yb _ _ _ (conj R (conj B L)) R' B' L')|].
    split; [apply (pst_next u u' ub _ _ _ (conj Ru (conj Bu Lu)) Ru' Bu' Lu') | apply (pst_next v v' vb _ _ _ (conj Rv (conj Bv Lv)) Rv' Bv' Lv')].
  Qed.

  Lemma lf_inner_h_normal : rh_filter_type h = false ->
    exists y' u' v', lf_inner_h h mx my mb il hev el 16 16 8 8 (y, u, v) = Ok (y', u', v') /\
      pst y' (sp_inner_h (g_sub hev il el) (mbw * 16) 16 mx my inner yb) (mbw * 16) (mbh * 16) /\
      pst u' (sp_inner_h (g_sub hev il el) (mbw * 8) 8 mx my inner ub) (mbw * 8) (mbh * 8) /\
      pst v' (sp_inner_h (g_sub hev il el) (mbw * 8) 8 mx my inner vb) (mbw * 8) (mbh * 8).
  Proof.
    intros Hs. unfold lf_inner_h, sp_inner_h. rewrite Hs. fold mbw. fold inner.
    destruct inner; [|exists y, u, v; split; [reflexivity|split; [exact Hy|split; [exact Hu|exact Hv]]]].
    change (16 >? 3) with true. change (8 =? 8) with true. cbv iota. change (step4_count 4 (16 - 3)) with 3%nat.
    change (Z.to_nat 16) with 16%nat. change (Z.to_nat 8) with 8%nat.
    change (Z.to_nat (16 / 4 - 1)) with 3%nat. change (Z.to_nat (8 / 4 - 1)) with 1%nat.
    destruct Hy as (R & B & L). destruct Hu as (Ru & Bu & Lu). destruct Hv as (Rv & Bv & Lv).
    destruct (inner_h_run (subblock_filter hev il el) (g_sub hev il el) (er_sub hev il el) (mbw * 16) (mbh * 16) ltac:(lia)
                (mx * 16) (my * 16) 16 ltac:(lia) ltac:(lia) ltac:(lia) 3 4 y yb R B L) as (y' & E & R' & B' & L'); try lia.
    destruct (hrun (subblock_filter hev il el) (g_sub hev il el) (er_sub hev il el) (mbw * 8) (mbh * 8) ltac:(lia) u ub (my * 8 + 4) (mx * 8) 8
                (fun x => (my * 8 + 4) * (mbw * 8) + (mx * 8 + x)) Ru Bu Lu) as (u' & Eu & Ru' & Bu' & Lu'); try lia.
    destruct (hrun (subblock_filter hev il el) (g_sub hev il el) (er_sub hev il el) (mbw * 8) (mbh * 8) ltac:(lia) v vb (my * 8 + 4) (mx * 8) 8
                (fun x => (my * 8 + 4) * (mbw * 8) + (mx * 8 + x)) Rv Bv Lv) as (v' & Ev & Rv' & Bv' & Lv'); try lia.
    exists y', u', v'. rewrite E. cbn [bind].
    rewrite (both_run (subblock_filter hev il el) (fun x => (my * 8 + 4) * (mbw * 8) + (mx * 8 + x)) (mbw * 8) 8 0 u v u' v' Eu Ev). cbn [bind].
    split; [reflexivity|]. rewrite !inner_edges_1.
    replace (16 * my * (mbw * 16) + 16 * mx) with ((my * 16 + 4 - 4) * (mbw * 16) + mx * 16) by ring.
    replace (8 * my * (mbw * 8) + 8 * mx + 4 * (mbw * 8)) with ((my * 8 + 4) * (mbw * 8) + mx * 8) by ring.
    split; [apply (pst_next y y' yb _ _ _ (conj R (conj B L)) R' B' L')|].
    split; [apply (pst_next u u' ub _ _ _ (conj Ru (conj Bu Lu)) Ru' Bu' Lu') | apply (pst_next v v' vb _ _ _ (conj Rv (conj Bv Lv)) Rv' Bv' Lv')].
  Qed.
End Stages.
