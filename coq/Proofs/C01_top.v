(* C01 / C03 / C10 at frame level, UNCONDITIONAL in the entropy decoder: the frame theorems of C01_frame.v
   (= c01transforms' C01T_frame.v generalised over the image readers) instantiated with
       rel br s := C01_stream.Rel s br,   ECI := strict_entropy_coded_image,   SCI := strict_spatially_coded_image,
   all five premises discharged by C01_stream / C01_codes / C01_pixels / C01_groups.

   `strict_decode*` is Spec.VP8L.decode* with the strict prefix-code reader (a simple code naming a symbol outside its
   alphabet is invalid -- the crate's rule; the specification follows libwebp and drops the symbol):
       strict_decode_rgba data = Some x  ->  V.decode_rgba data = Some x                       (strict_decode_rgba_sound)
   Results (W x h the dimensions the caller expects, `in_format` = no predictor block uses mode 14/15):
     decode_frame_matches_strict : strict_decode_rgba data = Some (W, h, pixels) -> in_format -> decode_frame = Ok pixels
     decode_frame_matches_spec   : V.decode_rgba data = Some (W, h, pixels) -> codes_in_format data -> in_format -> Ok pixels
     decode_frame_sound          : decode_frame = Ok pixels -> in_format -> V.decode_rgba data = Some (W, h, pixels)
     decode_frame_rejects        : V.decode data = None -> decode_frame_arr returns Err                  (unconditional)
     decode_frame_no_panic       : decode_frame_arr never panics / never runs out of fuel                (unconditional)
     decode_frame_schedule_independent : two fill_buf schedules give the same result                     (C10)
   and the same for ALPH-style (implicit dimensions) streams.
   `codes_in_format data` is decidable: strict_decode_rgba data and V.decode_rgba data are both Some or both None. *)
From Coq Require Import ZArith NArith List Bool Lia.
From WebP Require Import Lib.Res Lib.Arr Lib.ZBits
  Model.LosslessLib Model.BitReader Model.Huffman Model.LosslessTransform Model.Lossless
  Proofs.Lossless_BitReader Proofs.C04_bits
  Proofs.C01_stream Proofs.C01_codes Proofs.C01_pixlib Proofs.C01_pixels Proofs.C01_groups Proofs.C01_gspec Proofs.C01_final.
From WebP Require Proofs.C01T_repr Proofs.C01T_index Proofs.C01_frame.
Import ListNotations.
Open Scope Z_scope.

Module F := WebP.Proofs.C01_frame.

Notation SE := strict_entropy_coded_image.
Notation SS := strict_spatially_coded_image.

Definition strict_decode := g_decode SE SS.
Definition strict_decode_rgba := g_decode_rgba SE SS.
Definition strict_decode_implicit := g_decode_implicit SE SS.
Definition strict_decode_implicit_rgba := g_decode_implicit_rgba SE SS.
(* no predictor block of the (strict) parse uses mode 14 or 15 *)
Definition in_format (w h : Z) (s : V.stream) : Prop := F.stream_in_format SE w h s.

Lemma sub_SE : sub SE V.entropy_coded_image.
Proof. intros w h s x. apply strict_entropy_sound. Qed.
Lemma sub_SS : sub SS V.spatially_coded_image.
Proof. intros w h s x. apply strict_spatial_sound. Qed.

Theorem strict_decode_sound data x : strict_decode data = Some x -> V.decode data = Some x.
Proof. intros E. rewrite <- g_decode_spec. apply (g_decode_sub _ _ _ _ sub_SE sub_SS _ _ E). Qed.
Theorem strict_decode_rgba_sound data x : strict_decode_rgba data = Some x -> V.decode_rgba data = Some x.
Proof. intros E. rewrite <- g_decode_rgba_spec. apply (g_decode_rgba_sub _ _ _ _ sub_SE sub_SS _ _ E). Qed.
Theorem strict_decode_implicit_sound w h data x : strict_decode_implicit w h data = Some x -> V.decode_implicit w h data = Some x.
Proof. intros E. rewrite <- g_decode_implicit_spec. apply (g_decode_implicit_sub _ _ _ _ sub_SE sub_SS _ _ _ _ E). Qed.
Theorem strict_decode_implicit_rgba_sound w h data x :
  strict_decode_implicit_rgba w h data = Some x -> V.decode_implicit_rgba w h data = Some x.
Proof. intros E. rewrite <- g_decode_implicit_rgba_spec. apply (g_decode_implicit_rgba_sub _ _ _ _ sub_SE sub_SS _ _ _ _ E). Qed.

(* the specification accepts whatever the strict specification accepts, so it rejects less *)
Lemma spec_none_strict_decode data : V.decode data = None -> strict_decode data = None.
Proof. intros E. destruct (strict_decode data) as [x|] eqn:Es; [|reflexivity]. rewrite (strict_decode_sound _ _ Es) in E. discriminate. Qed.
Lemma spec_none_strict_decode_implicit w h data : V.decode_implicit w h data = None -> strict_decode_implicit w h data = None.
Proof.
  intros E. destruct (strict_decode_implicit w h data) as [x|] eqn:Es; [|reflexivity].
  rewrite (strict_decode_implicit_sound _ _ _ _ Es) in E. discriminate.
Qed.

(* ------------------------------------------------------------------------------------------------ *)
(** * the five premises, for the strict readers *)
Lemma P3_strict : forall br s xs ys (argb : bool) data px s',
  rel br s -> 1 <= xs <= 16384 -> 1 <= ys <= 16384 -> zlen data = 4 * (xs * ys) ->
  (if argb then SS xs ys s else SE xs ys s) = Some (px, s') ->
  exists br' bytes, decode_image_stream STREAM_LEVELS br xs ys argb data = Ok (br', bytes) /\
                    zlen bytes = zlen data /\ C01T_repr.repr bytes px (xs * ys) /\ rel br' s'.
Proof.
  intros br s xs ys argb data px s' H Hx Hy Hl E.
  pose proof (decode_image_stream_strict argb s br xs ys data H Hx Hy Hl) as P. unfold strict_image in P. rewrite E in P.
  destruct P as (r' & data' & Em & HR & Hl' & Hpx). exists r', data'. split; [exact Em|]. split; [lia|]. split; [|exact HR].
  apply repr_of_px; [nia | exact Hl' | exact (strict_image_alen argb _ _ _ _ _ E) | exact Hpx].
Qed.

Lemma P5_strict : forall br s xs ys (argb : bool) data,
  rel br s -> 1 <= xs <= 16384 -> 1 <= ys <= 16384 -> zlen data = 4 * (xs * ys) ->
  (if argb then SS xs ys s else SE xs ys s) = None -> F.is_err (decode_image_stream STREAM_LEVELS br xs ys argb data).
Proof.
  intros br s xs ys argb data H Hx Hy Hl E.
  pose proof (decode_image_stream_strict argb s br xs ys data H Hx Hy Hl) as P. unfold strict_image in P. rewrite E in P. exact P.
Qed.

Lemma P4' : forall br s tb n, rel br s -> 0 <= n <= 16 -> n <= tb ->
  V.read_bits (Z.to_nat n) s = None -> F.is_err (BitReader.read_bits br tb n).
Proof. intros br s tb n H Hn Htb E. exact (read_bits_rejects br s tb n H Hn Htb E). Qed.

(* ------------------------------------------------------------------------------------------------ *)
(** * the frame theorems *)
Theorem decode_frame_matches_strict data sched W h buf pixels : Forall byte data -> Z.of_nat (length buf) = 4 * (W * h) ->
  strict_decode_rgba data = Some (W, h, pixels) ->
  (forall s0, V.read_header (V.Stream [] data) = Some (W, h, s0) -> in_format W h s0) ->
  decode_frame data sched W h false buf = Ok pixels.
Proof. exact (F.decode_frame_matches_spec SE SS rel rel_init read_bits_refines P3_strict data sched W h buf pixels). Qed.

Theorem decode_frame_implicit_matches_strict data sched W h buf pixels : Forall byte data -> Z.of_nat (length buf) = 4 * (W * h) ->
  strict_decode_implicit_rgba W h data = Some pixels -> in_format W h (V.Stream [] data) ->
  decode_frame data sched W h true buf = Ok pixels.
Proof. exact (F.decode_frame_implicit_matches_spec SE SS rel rel_init read_bits_refines P3_strict data sched W h buf pixels). Qed.

(* every prefix-code description of the stream stays inside its alphabet (decidable: compare the two verdicts) *)
Definition codes_in_format (data : list Z) : Prop :=
  match V.decode_rgba data with Some _ => strict_decode_rgba data <> None | None => True end.
Definition codes_in_format_implicit (w h : Z) (data : list Z) : Prop :=
  match V.decode_implicit_rgba w h data with Some _ => strict_decode_implicit_rgba w h data <> None | None => True end.

(* C01 against the specification itself *)
Theorem decode_frame_matches_spec data sched W h buf pixels : Forall byte data -> Z.of_nat (length buf) = 4 * (W * h) ->
  V.decode_rgba data = Some (W, h, pixels) -> codes_in_format data ->
  (forall s0, V.read_header (V.Stream [] data) = Some (W, h, s0) -> in_format W h s0) ->
  decode_frame data sched W h false buf = Ok pixels.
Proof.
  intros Hb Hl E Hc Hf. unfold codes_in_format in Hc. rewrite E in Hc.
  destruct (strict_decode_rgba data) as [x|] eqn:Es; [|contradiction].
  pose proof (strict_decode_rgba_sound _ _ Es) as E'. rewrite E in E'. injection E' as <-.
  apply decode_frame_matches_strict; assumption.
Qed.

Theorem decode_frame_implicit_matches_spec data sched W h buf pixels : Forall byte data -> Z.of_nat (length buf) = 4 * (W * h) ->
  V.decode_implicit_rgba W h data = Some pixels -> codes_in_format_implicit W h data -> in_format W h (V.Stream [] data) ->
  decode_frame data sched W h true buf = Ok pixels.
Proof.
  intros Hb Hl E Hc Hf. unfold codes_in_format_implicit in Hc. rewrite E in Hc.
  destruct (strict_decode_implicit_rgba W h data) as [x|] eqn:Es; [|contradiction].
  pose proof (strict_decode_implicit_rgba_sound _ _ _ _ Es) as E'. rewrite E in E'. injection E' as <-.
  apply decode_frame_implicit_matches_strict; assumption.
Qed.

(* the specification rejects => the decoder rejects, with an error *)
Theorem decode_frame_rejects data sched W h buf : Forall byte data -> zlen buf = 4 * (W * h) ->
  V.decode data = None -> F.is_err (decode_frame_arr data sched W h false buf).
Proof.
  intros Hb Hl E.
  exact (F.decode_frame_rejects SE SS rel rel_init read_bits_refines P3_strict P4' P5_strict data sched W h buf Hb Hl (spec_none_strict_decode _ E)).
Qed.

Theorem decode_frame_implicit_rejects data sched W h buf : Forall byte data -> zlen buf = 4 * (W * h) ->
  1 <= W <= 16384 -> 1 <= h <= 16384 ->
  V.decode_implicit W h data = None -> F.is_err (decode_frame_arr data sched W h true buf).
Proof.
  intros Hb Hl HW Hh E.
  exact (F.decode_frame_implicit_rejects SE SS rel rel_init read_bits_refines P3_strict P4' P5_strict data sched W h buf Hb Hl HW Hh
           (spec_none_strict_decode_implicit _ _ _ E)).
Qed.

(* C03: never a panic, never fuel exhaustion, for every payload *)
Theorem decode_frame_no_panic data sched W h buf : Forall byte data -> zlen buf = 4 * (W * h) ->
  (forall p, decode_frame_arr data sched W h false buf <> Panic p) /\ decode_frame_arr data sched W h false buf <> OutOfFuel.
Proof. exact (F.decode_frame_no_panic SE SS rel rel_init read_bits_refines P3_strict P4' P5_strict data sched W h buf). Qed.

Theorem decode_frame_implicit_no_panic data sched W h buf : Forall byte data -> zlen buf = 4 * (W * h) ->
  1 <= W <= 16384 -> 1 <= h <= 16384 ->
  (forall p, decode_frame_arr data sched W h true buf <> Panic p) /\ decode_frame_arr data sched W h true buf <> OutOfFuel.
Proof. exact (F.decode_frame_implicit_no_panic SE SS rel rel_init read_bits_refines P3_strict P4' P5_strict data sched W h buf). Qed.

Definition berr : forall A : Type, res A -> Prop := fun A r => @F.is_err A r.
Lemma berr_err : forall A e, berr A (Err e).
Proof. intros A e. exists e. reflexivity. Qed.
Lemma berr_bind : forall A B (r : res A) (f : A -> res B), berr A r -> berr B (bind r f).
Proof. intros A B r f (e & ->). exists e. reflexivity. Qed.

(* soundness: whatever decode_frame returns is what the specification defines *)
Theorem decode_frame_sound data sched W h buf pixels : Forall byte data -> Z.of_nat (length buf) = 4 * (W * h) ->
  decode_frame data sched W h false buf = Ok pixels ->
  (forall s0, V.read_header (V.Stream [] data) = Some (W, h, s0) -> in_format W h s0) ->
  V.decode_rgba data = Some (W, h, pixels).
Proof.
  intros Hb Hl Em Hf. apply strict_decode_rgba_sound.
  assert (Hl' : zlen (of_list buf) = 4 * (W * h)) by (rewrite C01T_index.zlen_of_list; exact Hl).
  pose proof (F.decode_frame_gen SE SS berr berr_err berr_bind rel rel_init) as G.
  unfold decode_frame in Em.
  destruct (decode_frame_arr data sched W h false (of_list buf)) as [out| | |] eqn:Ea; cbn [bind] in Em; try discriminate.
  injection Em as <-.
  pose proof (F.decode_frame_gen_header SE SS berr berr_err berr_bind rel rel_init) as GH.
  assert (RB : forall br s tb n, rel br s -> 0 <= n <= 16 -> n <= tb ->
             match V.read_bits (Z.to_nat n) s with
             | Some (v, s') => exists br', BitReader.read_bits br tb n = Ok (v, br') /\ rel br' s'
             | None => berr _ (BitReader.read_bits br tb n) end).
  { intros br s tb n H Hn Htb. destruct (V.read_bits (Z.to_nat n) s) as [[v s']|] eqn:E.
    - apply (read_bits_refines br s tb n v s'); assumption.
    - apply (P4' br s tb n); assumption. }
  assert (DI : forall br s xs ys (argb : bool) d, rel br s -> 1 <= xs <= 16384 -> 1 <= ys <= 16384 -> zlen d = 4 * (xs * ys) ->
             match (if argb then SS xs ys s else SE xs ys s) with
             | Some (px, s') => exists br' bytes, decode_image_stream STREAM_LEVELS br xs ys argb d = Ok (br', bytes) /\
                                  zlen bytes = zlen d /\ C01T_repr.repr bytes px (xs * ys) /\ rel br' s'
             | None => berr _ (decode_image_stream STREAM_LEVELS br xs ys argb d) end).
  { intros br s xs ys argb d H Hx Hy Hld. destruct (if argb then SS xs ys s else SE xs ys s) as [[px s']|] eqn:E.
    - apply (P3_strict br s xs ys argb d px s'); assumption.
    - apply (P5_strict br s xs ys argb d); assumption. }
  specialize (G RB DI data sched W h (of_list buf) Hb Hl'). specialize (GH RB DI data sched W h (of_list buf) Hb).
  unfold strict_decode_rgba, g_decode_rgba. unfold g_decode in *.
  destruct (V.read_header (V.Stream [] data)) as [[[w' h'] s0]|].
  2:{ destruct G as (e & Ee). rewrite Ea in Ee. discriminate. }
  destruct (Z.eq_dec w' W) as [->|Hnw]; [destruct (Z.eq_dec h' h) as [->|Hnh]|].
  - destruct (g_image_stream SE SS W h s0) as [px|].
    + destruct (G eq_refl eq_refl) as (out' & Eo & _ & Ho). rewrite Ea in Eo. injection Eo as <-.
      rewrite (Ho Hf). reflexivity.
    + destruct G as (e & Ee). rewrite Ea in Ee. discriminate.
  - destruct (GH (or_intror Hnh)) as (e & Ee). rewrite Ea in Ee. discriminate.
  - destruct (GH (or_introl Hnw)) as (e & Ee). rewrite Ea in Ee. discriminate.
Qed.

(* C10: the result does not depend on how the reader hands out its bytes *)
Theorem decode_frame_schedule_independent data sched1 sched2 W h buf : Forall byte data -> Z.of_nat (length buf) = 4 * (W * h) ->
  (forall s0, V.read_header (V.Stream [] data) = Some (W, h, s0) -> in_format W h s0) ->
  match decode_frame data sched1 W h false buf, decode_frame data sched2 W h false buf with
  | Ok p1, Ok p2 => p1 = p2
  | Err _, Err _ => True
  | _, _ => False
  end.
Proof.
  intros Hb Hl Hf.
  assert (Hl' : zlen (of_list buf) = 4 * (W * h)) by (rewrite C01T_index.zlen_of_list; exact Hl).
  destruct (strict_decode_rgba data) as [[[w' h'] px]|] eqn:Es.
  - destruct (decode_frame data sched1 W h false buf) as [p1|e1| |] eqn:E1.
    + pose proof (decode_frame_sound data sched1 W h buf p1 Hb Hl E1 Hf) as S1.
      pose proof (strict_decode_rgba_sound _ _ Es) as S0. rewrite S1 in S0. injection S0 as <- <- <-.
      rewrite (decode_frame_matches_strict data sched2 W h buf p1 Hb Hl Es Hf). reflexivity.
    + destruct (decode_frame data sched2 W h false buf) as [p2|e2| |] eqn:E2; [|exact I| |].
      * pose proof (decode_frame_sound data sched2 W h buf p2 Hb Hl E2 Hf) as S2.
        pose proof (strict_decode_rgba_sound _ _ Es) as S0. rewrite S2 in S0. injection S0 as <- <- <-.
        rewrite (decode_frame_matches_strict data sched1 W h buf p2 Hb Hl Es Hf) in E1. discriminate.
      * unfold decode_frame in E2. destruct (decode_frame_no_panic data sched2 W h (of_list buf) Hb Hl') as [Hp _].
        destruct (decode_frame_arr data sched2 W h false (of_list buf)) as [o|e|q|]; cbn [bind] in E2; try discriminate.
        exact (Hp q eq_refl).
      * unfold decode_frame in E2. destruct (decode_frame_no_panic data sched2 W h (of_list buf) Hb Hl') as [_ Hp].
        destruct (decode_frame_arr data sched2 W h false (of_list buf)) as [o|e|q|]; cbn [bind] in E2; try discriminate.
        exact (Hp eq_refl).
    + unfold decode_frame in E1. destruct (decode_frame_no_panic data sched1 W h (of_list buf) Hb Hl') as [Hp _].
      destruct (decode_frame_arr data sched1 W h false (of_list buf)) as [o|e|p0|]; cbn [bind] in E1; try discriminate.
      exfalso. exact (Hp p0 eq_refl).
    + unfold decode_frame in E1. destruct (decode_frame_no_panic data sched1 W h (of_list buf) Hb Hl') as [_ Hp].
      destruct (decode_frame_arr data sched1 W h false (of_list buf)) as [o|e|p0|]; cbn [bind] in E1; try discriminate.
      exfalso. exact (Hp eq_refl).
  - assert (Hn : strict_decode data = None).
    { unfold strict_decode_rgba, g_decode_rgba in Es. unfold strict_decode. destruct (g_decode SE SS data) as [[[w' h'] px]|]; [discriminate | reflexivity]. }
    assert (R : forall sched, exists e, decode_frame data sched W h false buf = Err e).
    { intros sched.
      destruct (F.decode_frame_rejects SE SS rel rel_init read_bits_refines P3_strict P4' P5_strict data sched W h (of_list buf) Hb Hl' Hn) as (e & Ee).
      exists e. unfold decode_frame. rewrite Ee. reflexivity. }
    destruct (R sched1) as (e1 & E1). destruct (R sched2) as (e2 & E2). rewrite E1, E2. exact I.
Qed.

(* statement test: the hypotheses are satisfiable.  The F3 witness of DESIGN.md section 8 (a 2x1 image whose green code
   is the simple code with the symbols sent as 200, 100): specification, strict specification and decoder agree. *)
Example frame_example :
  let d := [47; 1; 0; 0; 16; 56; 50; 89; 68; 255; 67] in
  let px := [0; 100; 0; 255; 0; 200; 0; 255] in
  V.decode_rgba d = Some (2, 1, px) /\ strict_decode_rgba d = Some (2, 1, px) /\ codes_in_format d /\
  (forall s0, V.read_header (V.Stream [] d) = Some (2, 1, s0) -> in_format 2 1 s0) /\
  decode_frame d [1; 2; 1] 2 1 false (repeat 7 8) = Ok px.
Proof.
  cbv zeta. split; [vm_compute; reflexivity|]. split; [vm_compute; reflexivity|]. split.
  - unfold codes_in_format. vm_compute. discriminate.
  - split; [|vm_compute; reflexivity]. intros s0 E. vm_compute in E. injection E as <-.
    unfold in_format, F.stream_in_format. vm_compute. constructor.
Qed.
