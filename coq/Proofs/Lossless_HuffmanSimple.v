(* Simple prefix codes (lemma b. of C01, the parts that need no table reasoning), with the repair F3:
   a one-symbol code consumes no bits; the two-symbol simple code built by read_huffman_code gives bit 0 to the
   smaller symbol whatever the order in which the two symbols were transmitted, and two equal symbols are a
   one-symbol code (HuffmanTree::build_two_node itself keeps the order of its arguments). *)
From Coq Require Import ZArith NArith List Bool Lia FMapPositive.
From WebP Require Import Lib.Res Lib.Arr Lib.ZBits Model.LosslessLib Model.BitReader Model.Huffman Model.Lossless
     Proofs.Lossless_BitReader Proofs.Lossless_HuffmanSafe.
Import ListNotations.
Open Scope Z_scope.

Ltac Zify.zify_post_hook ::= Z.div_mod_to_equations.

Theorem read_symbol_single s br : read_symbol (build_single_node s) br = Ok (s, br).
Proof. reflexivity. Qed.

Theorem peek_symbol_single s br : peek_symbol (build_single_node s) br = Ok (Some (0, s)).
Proof. reflexivity. Qed.

Lemma entry1 z : 0 <= z < 65536 -> Z.lor (Z.shiftl 1 16) z = 65536 + z.
Proof.
  intros H. rewrite Z.lor_comm. change (Z.shiftl 1 16) with (1 * 2 ^ 16).
  rewrite lor_low_high by (change (2 ^ 16) with 65536; lia). change (2 ^ 16) with 65536. lia.
Qed.

(* build_two_node: the next stream bit selects `zero` (0) or `one` (1); exactly one bit is consumed *)
Theorem read_symbol_two_node s r a b : R s r -> 1 <= nbits r -> 0 <= a < 65536 -> 0 <= b < 65536 ->
  exists r', read_symbol (build_two_node a b) r = Ok (if Z.testbit s 0 then b else a, r') /\ R (Z.shiftr s 1) r'.
Proof.
  intros HR Hn Ha Hb. unfold build_two_node.
  unfold read_symbol. rewrite !entry1 by lia.
  set (v := peek_full r mod 2 ^ 16).
  assert (Hv : Z.land v 1 = Z.b2z (Z.testbit s 0)).
  { rewrite land1. unfold v. change 2 with (2 ^ 1) at 2. rewrite mod_pow2_mod_pow2 by lia.
    rewrite (peek_full_low s r 1 HR) by lia. change (2 ^ 1) with 2. rewrite Z.bit0_odd. apply mod2_b2z. }
  rewrite Hv.
  destruct (consume_R s r 1 HR ltac:(lia)) as (r' & Ec & HR' & _).
  exists r'. split; [|exact HR'].
  destruct (Z.testbit s 0); cbn [Z.b2z].
  - change (zget (of_list [65536 + a; 65536 + b]) 1) with (Ok (65536 + b) : res Z). cbn [bind].
    replace (Z.shiftr (65536 + b) 16) with 1 by (rewrite Z.shiftr_div_pow2 by lia; change (2 ^ 16) with 65536; lia).
    cbn [Z.eqb negb]. change (1 mod 2 ^ 8) with 1. rewrite Ec. cbn [bind].
    f_equal. f_equal. change (2 ^ 16) with 65536. lia.
  - change (zget (of_list [65536 + a; 65536 + b]) 0) with (Ok (65536 + a) : res Z). cbn [bind].
    replace (Z.shiftr (65536 + a) 16) with 1 by (rewrite Z.shiftr_div_pow2 by lia; change (2 ^ 16) with 65536; lia).
    cbn [Z.eqb negb]. change (1 mod 2 ^ 8) with 1. rewrite Ec. cbn [bind].
    f_equal. f_equal. change (2 ^ 16) with 65536. lia.
Qed.

(* FIX F3 (in read_huffman_code): the two-symbol simple code does not depend on the order of transmission,
   equal symbols are a one-symbol code, and the smaller symbol gets the word 0 *)
Theorem simple_two_symbols_sym a b : simple_two_symbols a b = simple_two_symbols b a.
Proof.
  unfold simple_two_symbols. destruct (Z.eqb_spec a b) as [->|Hne].
  - rewrite Z.eqb_refl. reflexivity.
  - replace (b =? a) with false by (symmetry; apply Z.eqb_neq; lia).
    rewrite (Z.min_comm a b), (Z.max_comm a b). reflexivity.
Qed.

Theorem simple_two_symbols_equal a : simple_two_symbols a a = build_single_node a.
Proof. unfold simple_two_symbols. rewrite Z.eqb_refl. reflexivity. Qed.

Theorem read_symbol_simple_two s r a b : R s r -> 1 <= nbits r -> 0 <= a < 65536 -> 0 <= b < 65536 -> a <> b ->
  exists r', read_symbol (simple_two_symbols a b) r = Ok (if Z.testbit s 0 then Z.max a b else Z.min a b, r') /\
             R (Z.shiftr s 1) r'.
Proof.
  intros HR Hn Ha Hb Hne. unfold simple_two_symbols.
  replace (a =? b) with false by (symmetry; apply Z.eqb_neq; lia).
  apply read_symbol_two_node; auto; lia.
Qed.

(* the F3 witness of DESIGN.md section 8: symbols transmitted as (200, 100), stream bits 0 then 1 decode to 100, 200 *)
Example two_node_f3 :
  (let t := simple_two_symbols 200 100 in
   bind (fill (init [2] [])) (fun r1 =>
   bind (read_symbol t r1) (fun '(s1, r2) =>
   bind (read_symbol t r2) (fun '(s2, _) => Ok (s1, s2))))) = Ok (100, 200).
Proof. vm_compute. reflexivity. Qed.
