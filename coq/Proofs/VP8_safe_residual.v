(* C03 for the VP8 key-frame decoder, part 2: read_residual_data (with read_coefficients, the inverse WHT / DCT and the
   context updates inside) from ANY well-formed decoder state: the result is Ok -- with the token partition live again, the two
   9-entry context arrays 0/1 again, and the 384 residuals the inverse DCT of 24 coefficient blocks bounded by 2^29 -- or
   Err BitStreamError.  No hypothesis on the bytes of the partition: the reader may be anywhere, also on its last byte (then
   `check` fails and the result is the error).  Built on the data-independent closed forms of VP8_parse_residual
   (read_coefficients_model, residual_rows_ok: Model = interpreter of a request program on C15's pure cold reader) and on the
   bounds that hold for EVERY bit reader (G_rows_inv, G_coeff_bound: whatever tokens come out, a coefficient is at most
   4162 * factor). *)
From Coq Require Import ZArith Lia List Bool.
From WebP Require Import Lib.Res Gen.Kernels Gen.Tables Lib.ZBits Proofs.C15_model Proofs.C15_main Model.ArithDec
  Model.Vp8Parse Proofs.VP8_arraykernels_aux Proofs.VP8_parse_base Proofs.VP8_parse_coeffs Proofs.VP8_parse_mbheader
  Proofs.VP8_parse_header Proofs.VP8_parse_residual Proofs.VP8_frame_header Proofs.VP8_frame_loop Proofs.VP8_safe_inv.
From WebP Require Import Spec.VP8.
Import ListNotations.
Open Scope Z_scope.
Open Scope res_scope.

(* ---- the in-place inverse DCT of a block the loop has read = Spec.VP8.idct of its coefficients ---- *)
Lemma blk_post_idct hb : length (snd hb) = 16%nat -> Forall (within dct_bound) (snd hb) ->
  (blk_flag hb = false -> snd hb = zero16) -> blk_post hb = fst (idct (snd hb)).
Proof.
  intros L F Hz. unfold blk_post. destruct (blk_flag hb) eqn:E.
  - apply app16_idct_spec; assumption.
  - rewrite (Hz eq_refl). reflexivity.
Qed.

Lemma blk_flag_false hb : blk_flag hb = false -> fst hb = false /\ nth 0 (snd hb) 0 = 0.
Proof.
  unfold blk_flag. intros H. apply orb_false_iff in H. destruct H as [H1 H2]. split; [exact H2|].
  apply negb_false_iff in H1. apply Z.eqb_eq in H1. exact H1.
Qed.

Lemma posts_idct hbs : bounded_blocks dct_bound (map snd hbs) -> Forall (fun hb => blk_flag hb = false -> snd hb = zero16) hbs ->
  concat (map blk_post hbs) = idct_of (map snd hbs).
Proof.
  unfold idct_of. induction hbs as [|hb tl IH]; intros Hb Hz; [reflexivity|].
  cbn [map concat]. inversion Hb as [|? ? [L F] Hb']; subst. inversion Hz as [|? ? Z1 Hz']; subst.
  rewrite (blk_post_idct hb L F Z1). f_equal. apply IH; assumption.
Qed.

Lemma idct_of_app a b : idct_of (a ++ b) = idct_of a ++ idct_of b.
Proof. unfold idct_of. rewrite map_app, concat_app. reflexivity. Qed.

Lemma idct_of_length bs : length (idct_of bs) = (16 * length bs)%nat.
Proof. unfold idct_of. apply concat_idct_length'. Qed.

Lemma bounded_app B a b : bounded_blocks B a -> bounded_blocks B b -> bounded_blocks B (a ++ b).
Proof. unfold bounded_blocks. intros. apply Forall_app. split; assumption. Qed.

(* with_dcs keeps lengths / bounds, and an unflagged block with its DC written is still all zero *)
Lemma with_dcs_facts B : forall hbs ws, length ws = length hbs -> bounded_blocks B (map snd hbs) -> Forall (within B) ws ->
  Forall unread_zero hbs ->
  length (with_dcs hbs ws) = length hbs /\ bounded_blocks B (map snd (with_dcs hbs ws)) /\
  Forall (fun hb => blk_flag hb = false -> snd hb = zero16) (with_dcs hbs ws).
Proof.
  induction hbs as [|hb tl IH]; intros ws Hl Hb Hw Hu; destruct ws as [|w wtl]; try discriminate Hl.
  - cbn [with_dcs length map]. repeat split; constructor.
  - cbn [with_dcs length map]. inversion Hb as [|? ? [L F] Hb']; subst. inversion Hw as [|? ? W1 Hw']; subst.
    inversion Hu as [|? ? U1 Hu']; subst.
    destruct (IH wtl ltac:(cbn in Hl; lia) Hb' Hw' Hu') as (I1 & I2 & I3).
    split; [lia|]. split.
    + constructor; [|exact I2]. cbn [snd]. split; [rewrite updZ_length; exact L|].
      clear - F W1. unfold updZ. change (Z.to_nat 0) with 0%nat. destruct (snd hb) as [|x l]; [constructor|].
      cbn [upd]. inversion F; subst. constructor; assumption.
    + constructor; [|exact I3]. intros Hf. apply blk_flag_false in Hf. cbn [fst snd] in Hf. destruct Hf as [Hf Hd].
      cbn [snd]. rewrite (U1 Hf) in *. unfold updZ in *. change (Z.to_nat 0) with 0%nat in *. cbn [zero16 upd nth] in *. subst w. reflexivity.
Qed.

Lemma unread_flag hbs : Forall unread_zero hbs -> Forall (fun hb => blk_flag hb = false -> snd hb = zero16) hbs.
Proof.
  intros H. eapply Forall_impl; [|exact H]. intros hb U Hf. apply U. apply (blk_flag_false hb Hf).
Qed.

(* ---- one plane stage of read_residual_data: the size x size blocks starting at block ioff, contexts j .. j+size ---- *)
Section Stage.
Variable P : list (list (list (list Z))).
Variable v : Vp8.
Hypothesis Htab : tables_ok P.
Hypothesis Htp : token_nodes_of P = Ok (v_token_probs v).
Variables p mbx : Z.
Variable t : MacroBlock.
Hypothesis Hp : 0 <= p < Z.of_nat (length (v_partitions v)).
Hypothesis Hmbx : 0 <= mbx < Z.of_nat (length (v_top v)).

Definition stage_post (size ioff j : nat) (tc lc blocks : list Z) (r : res (Vp8 * list Z * bool)) : Prop :=
  r = Err EBitStreamError \/
  exists bs tn ln d' nz',
    r = Ok (rst v p mbx t d' (firstn j tc ++ tn ++ skipn (j + size) tc) (firstn j lc ++ ln ++ skipn (j + size) lc),
            firstn (16 * ioff) blocks ++ idct_of bs ++ skipn (16 * (ioff + size * size)) blocks, nz') /\
    part_live d' /\ length bs = (size * size)%nat /\ bounded_blocks dct_bound bs /\
    length tn = size /\ cx_ok tn /\ length ln = size /\ cx_ok ln.

(* blocks still zero (planes 2, 3 and -- never used by the crate -- 1; also plane 0 when every DC is 0) *)
Lemma stage_zero plane dcq acq (size ioff j : nat) d tc lc blocks nz :
  0 <= plane <= 3 -> i16 dcq -> i16 acq -> coef_bound dcq acq <= dct_bound -> part_live d ->
  (j + size <= length tc)%nat -> (j + size <= length lc)%nat -> cx_ok tc -> cx_ok lc ->
  (16 * (ioff + size * size) <= length blocks)%nat ->
  row_inits size size (skipn (16 * ioff) blocks) = repeat (repeat zero16 size) size ->
  stage_post size ioff j tc lc blocks
    (residual_rows size 0 (Z.of_nat size) (rst v p mbx t d tc lc) blocks nz mbx p plane (Z.of_nat ioff) (Z.of_nat j) dcq acq).
Proof.
  intros Hplane Hdc Hac HB (Hw & Hbig & Heof) Htc Hlc Ctc Clc Hbl Hin.
  assert (HB0 : 0 <= dct_bound) by (unfold dct_bound; lia).
  pose proof (residual_rows_ok P v Htab Htp p mbx plane dcq acq dct_bound t Hplane Hdc Hac ltac:(lia) Hp Hmbx
                size 0 size ioff j d tc lc blocks nz Hw Hbig Heof Htc ltac:(lia) Ctc Clc ltac:(cbn [Nat.add]; lia)) as EM.
  change (0 * size)%nat with 0%nat in EM. cbn [Nat.add] in EM. rewrite !Nat.add_0_r in EM. rewrite Hin in EM.
  specialize (EM ltac:(apply Forall_forall; intros x Hx; apply repeat_spec in Hx; subst x; apply zero_blocks_bounded; exact HB0)).
  change (Z.of_nat 0) with 0 in EM. rewrite EM. clear EM.
  destruct (plane_facts P v Htab Htp plane Hplane) as [HPp HNp].
  set (first := if plane =? 0 then 1 else 0).
  assert (Hfirst : first = 0 \/ first = 1) by (unfold first; destruct (plane =? 0); lia).
  set (tops := firstn size (skipn j tc)). set (lefts := firstn size (skipn j lc)).
  assert (Ltops : length tops = size) by (unfold tops; rewrite firstn_length, skipn_length; lia).
  assert (Llefts : length lefts = size) by (unfold lefts; rewrite firstn_length, skipn_length; lia).
  assert (Ctops : cx_ok tops) by (apply cx_ok_firstn, cx_ok_skipn; exact Ctc).
  assert (Clefts : cx_ok lefts) by (apply cx_ok_firstn, cx_ok_skipn; exact Clc).
  pose proof (G_rows_inv _ _ HPp HNp dcq acq first Hfirst cold_pure dct_bound lefts tops d Ctops Clefts HB0 HB) as Inv.
  cbv zeta in Inv. rewrite Ltops, Llefts in Inv.
  destruct (run_facts (G_rows (nth (Z.to_nat plane) (v_token_probs v) []) dcq acq first tops lefts (repeat (repeat zero16 size) size)) d Hw Hbig
              (G_rows_probs_any _ _ HPp HNp dcq acq first lefts Hfirst tops _)) as [W1 B1].
  destruct (interpG cold_pure (G_rows (nth (Z.to_nat plane) (v_token_probs v) []) dcq acq first tops lefts (repeat (repeat zero16 size) size)) d) as [r d'].
  cbn [fst snd] in *. destruct Inv as (I1 & I2 & I3 & I4 & I5 & I6 & I7).
  destruct (is_past_eof d') eqn:Ee; [left; reflexivity|]. right.
  exists (map snd (fst (fst r))), (snd (fst r)), (snd r), d', (nz || existsb blk_flag (fst (fst r))).
  split; [rewrite (posts_idct _ I6 (unread_flag _ I7)); reflexivity|].
  split; [split; [exact W1 | split; [exact B1 | exact Ee]]|]. split; [rewrite map_length; exact I1|]. split; [exact I6|]. split; [exact I2|]. split; [exact I4|]. split; [exact I3 | exact I5].
Qed.

(* the Y blocks of a 16x16 macroblock: plane 0, position 1.., every block starts as [dc; 0 .. 0] *)
Lemma stage_dc dcq acq d tc lc nz (w : list Z) :
  i16 dcq -> i16 acq -> coef_bound dcq acq <= dct_bound -> part_live d ->
  (5 <= length tc)%nat -> (5 <= length lc)%nat -> cx_ok tc -> cx_ok lc ->
  length w = 16%nat -> Forall (within dct_bound) w ->
  stage_post 4 0 1 tc lc (concat (map dcblk w) ++ repeat 0 128)
    (residual_rows 4 0 4 (rst v p mbx t d tc lc) (concat (map dcblk w) ++ repeat 0 128) nz mbx p 0 0 1 dcq acq).
Proof.
  intros Hdc Hac HB (Hw & Hbig & Heof) Htc Hlc Ctc Clc Lw Fw.
  assert (HB0 : 0 <= dct_bound) by (unfold dct_bound; lia).
  set (blocks1 := concat (map dcblk w) ++ repeat 0 128).
  assert (Lb1 : length blocks1 = 384%nat).
  { unfold blocks1. rewrite app_length, repeat_length. clear - Lw. do 16 (destruct w as [|? w]; [discriminate|]). destruct w; [|discriminate]. reflexivity. }
  destruct (scatter_ok w Lw) as (_ & Sc2 & Sc3 & Sc4). fold blocks1 in Sc2.
  pose proof (residual_rows_ok P v Htab Htp p mbx 0 dcq acq dct_bound t ltac:(lia) Hdc Hac ltac:(lia) Hp Hmbx
                4 0 4 0 1 d tc lc blocks1 nz Hw Hbig Heof ltac:(lia) ltac:(lia) Ctc Clc ltac:(rewrite Lb1; cbn; lia)) as EM.
  rewrite Sc2 in EM.
  specialize (EM ltac:(unfold chunk4; repeat constructor; apply dcblk_bounded; try exact HB0; try apply Forall_firstn; try apply Forall_skipn; exact Fw)).
  change (Z.of_nat 0) with 0 in EM. change (Z.of_nat 4) with 4 in EM. change (Z.of_nat 1) with 1 in EM. change (0 =? 0) with true in EM. cbv iota in EM.
  change (Z.to_nat 0) with 0%nat in EM. cbn [Nat.add Nat.mul] in EM. rewrite EM. clear EM.
  destruct (plane_facts P v Htab Htp 0 ltac:(lia)) as [HP0 HN0]. change (Z.to_nat 0) with 0%nat in *.
  set (tops := firstn 4 (skipn 1 tc)). set (lefts := firstn 4 (skipn 1 lc)).
  assert (Ltops : length tops = 4%nat) by (unfold tops; rewrite firstn_length, skipn_length; lia).
  assert (Llefts : length lefts = 4%nat) by (unfold lefts; rewrite firstn_length, skipn_length; lia).
  assert (Ctops : cx_ok tops) by (apply cx_ok_firstn, cx_ok_skipn; exact Ctc).
  assert (Clefts : cx_ok lefts) by (apply cx_ok_firstn, cx_ok_skipn; exact Clc).
  rewrite (G_rows_dc cold_pure _ _ dcq acq lefts HP0 HN0 tops (chunk4 w) d Ctops Clefts ltac:(rewrite Llefts; reflexivity)
             ltac:(rewrite Ltops; exact Sc4)).
  rewrite Sc3.
  pose proof (G_rows_inv _ _ HP0 HN0 dcq acq 1 (or_intror eq_refl) cold_pure dct_bound lefts tops d Ctops Clefts HB0 HB) as Inv.
  cbv zeta in Inv.
  destruct (run_facts (G_rows (nth 0 (v_token_probs v) []) dcq acq 1 tops lefts (repeat (repeat zero16 (length tops)) (length lefts))) d Hw Hbig
              (G_rows_probs_any _ _ HP0 HN0 dcq acq 1 lefts (or_intror eq_refl) tops _)) as [W1 B1].
  destruct (interpG cold_pure (G_rows (nth 0 (v_token_probs v) []) dcq acq 1 tops lefts (repeat (repeat zero16 (length tops)) (length lefts))) d) as [r d'].
  cbn [fst snd] in *. destruct Inv as (I1 & I2 & I3 & I4 & I5 & I6 & I7). rewrite Ltops, Llefts in I1. rewrite Ltops in I2. rewrite Llefts in I3.
  cbn [Nat.mul Nat.add] in I1.
  destruct (is_past_eof d') eqn:Ee; [left; reflexivity|]. right.
  destruct (with_dcs_facts dct_bound (fst (fst r)) w ltac:(lia) I6 Fw I7) as (D1 & D2 & D3).
  exists (map snd (with_dcs (fst (fst r)) w)), (snd (fst r)), (snd r), d', (nz || existsb blk_flag (with_dcs (fst (fst r)) w)).
  split; [rewrite (posts_idct _ D2 D3); reflexivity|].
  split; [split; [exact W1 | split; [exact B1 | exact Ee]]|]. split; [rewrite map_length, D1; exact I1|]. split; [exact D2|]. split; [exact I2|]. split; [exact I4|]. split; [exact I3 | exact I5].
Qed.
End Stage.

(* ---- bookkeeping of the flat [i32; 384] and of the 9-entry context arrays ---- *)
Lemma splice3 (a m r : list Z) n k : length a = n -> length m = k ->
  firstn n (a ++ m ++ r) = a /\ skipn (n + k) (a ++ m ++ r) = r /\ skipn n (a ++ m ++ r) = m ++ r.
Proof.
  intros <- <-. split; [|split].
  - rewrite firstn_app, firstn_all, Nat.sub_diag. cbn [firstn]. apply app_nil_r.
  - rewrite app_assoc. rewrite <- app_length. rewrite skipn_app, skipn_all, Nat.sub_diag. reflexivity.
  - rewrite skipn_app, skipn_all, Nat.sub_diag. reflexivity.
Qed.

Lemma ctx_splice (tc tn : list Z) (j size : nat) : length tc = 9%nat -> (j + size <= 9)%nat -> length tn = size -> cx_ok tc -> cx_ok tn ->
  length (firstn j tc ++ tn ++ skipn (j + size) tc) = 9%nat /\ cx_ok (firstn j tc ++ tn ++ skipn (j + size) tc).
Proof.
  intros L H Ln C Cn. split.
  - rewrite !app_length, firstn_length, skipn_length. lia.
  - apply cx_ok_splice; [apply cx_ok_firstn | | apply cx_ok_skipn]; assumption.
Qed.

(* the U and V stages, from blocks = ybs ++ zeros *)
Lemma stages_uv (P : list (list (list (list Z)))) (v : Vp8) p mbx t seg d tc lc (ya : list Z) nz :
  tables_ok P -> token_nodes_of P = Ok (v_token_probs v) ->
  0 <= p < Z.of_nat (length (v_partitions v)) -> 0 <= mbx < Z.of_nat (length (v_top v)) ->
  seg_q_ok seg -> part_live d -> length tc = 9%nat -> length lc = 9%nat -> cx_ok tc -> cx_ok lc -> length ya = 256%nat ->
  (let* '(v1, blocks, non_zero) := residual_rows 2 0 2 (rst v p mbx t d tc lc) (ya ++ repeat 0 128) nz mbx p 2 16 5 (sg_uvdc seg) (sg_uvac seg) in
   let* '(v2, blocks, non_zero) := residual_rows 2 0 2 v1 blocks non_zero mbx p 2 20 7 (sg_uvdc seg) (sg_uvac seg) in
   Ok (blocks, non_zero, v2)) = Err EBitStreamError \/
  exists bsU bsV nz' d' tc' lc',
    (let* '(v1, blocks, non_zero) := residual_rows 2 0 2 (rst v p mbx t d tc lc) (ya ++ repeat 0 128) nz mbx p 2 16 5 (sg_uvdc seg) (sg_uvac seg) in
     let* '(v2, blocks, non_zero) := residual_rows 2 0 2 v1 blocks non_zero mbx p 2 20 7 (sg_uvdc seg) (sg_uvac seg) in
     Ok (blocks, non_zero, v2)) = Ok (ya ++ idct_of bsU ++ idct_of bsV, nz', rst v p mbx t d' tc' lc') /\
    part_live d' /\ length tc' = 9%nat /\ cx_ok tc' /\ length lc' = 9%nat /\ cx_ok lc' /\
    length bsU = 4%nat /\ length bsV = 4%nat /\ bounded_blocks dct_bound bsU /\ bounded_blocks dct_bound bsV.
Proof.
  intros Htab Htp Hp Hmbx (_ & _ & _ & _ & I3 & I4 & _ & _ & B2) Hd Ltc Llc Ctc Clc Lya.
  (* U *)
  pose proof (stage_zero P v Htab Htp p mbx t Hp Hmbx 2 (sg_uvdc seg) (sg_uvac seg) 2 16 5 d tc lc (ya ++ repeat 0 64 ++ repeat 0 64) nz
                ltac:(lia) I3 I4 B2 Hd ltac:(lia) ltac:(lia) Ctc Clc) as SU.
  destruct (splice3 ya (repeat 0 64) (repeat 0 64) 256 64 Lya eq_refl) as (F1 & S1 & S2).
  specialize (SU ltac:(rewrite !app_length, !repeat_length; lia)
                 ltac:(change (16 * 16)%nat with 256%nat; rewrite S2; vm_compute; reflexivity)).
  unfold stage_post in SU. change (16 * 16)%nat with 256%nat in SU. change (16 * (16 + 2 * 2))%nat with (256 + 64)%nat in SU.
  rewrite F1, S1 in SU.
  change (Z.of_nat 2) with 2 in SU. change (Z.of_nat 16) with 16 in SU. change (Z.of_nat 5) with 5 in SU.
  change (repeat 0 64 ++ repeat 0 64) with (repeat 0 128) in SU.
  destruct SU as [EU | (bsU & tnU & lnU & d1 & nz1 & EU & Hd1 & LbU & BbU & Ltn & Ctn & Lln & Cln)]; [left; rewrite EU; reflexivity|].
  rewrite EU. cbn [bind]. clear EU.
  change (5 + 2)%nat with 7%nat.
  destruct (ctx_splice tc tnU 5 2 Ltc ltac:(lia) Ltn Ctc Ctn) as [Ltc1 Ctc1].
  destruct (ctx_splice lc lnU 5 2 Llc ltac:(lia) Lln Clc Cln) as [Llc1 Clc1].
  change (5 + 2)%nat with 7%nat in *.
  set (tc1 := firstn 5 tc ++ tnU ++ skipn 7 tc) in *. set (lc1 := firstn 5 lc ++ lnU ++ skipn 7 lc) in *.
  (* V *)
  assert (LU : length (idct_of bsU) = 64%nat) by (rewrite idct_of_length, LbU; reflexivity).
  pose proof (stage_zero P v Htab Htp p mbx t Hp Hmbx 2 (sg_uvdc seg) (sg_uvac seg) 2 20 7 d1 tc1 lc1 ((ya ++ idct_of bsU) ++ repeat 0 64 ++ []) nz1
                ltac:(lia) I3 I4 B2 Hd1 ltac:(lia) ltac:(lia) Ctc1 Clc1) as SV.
  destruct (splice3 (ya ++ idct_of bsU) (repeat 0 64) [] 320 64 ltac:(rewrite app_length; lia) eq_refl) as (F2 & S3 & S4).
  specialize (SV ltac:(rewrite !app_length, !repeat_length; cbn [length]; lia)
                 ltac:(change (16 * 20)%nat with 320%nat; rewrite S4; vm_compute; reflexivity)).
  unfold stage_post in SV. change (16 * 20)%nat with 320%nat in SV. change (16 * (20 + 2 * 2))%nat with (320 + 64)%nat in SV.
  rewrite F2, S3 in SV.
  change (Z.of_nat 2) with 2 in SV. change (Z.of_nat 20) with 20 in SV. change (Z.of_nat 7) with 7 in SV.
  rewrite app_nil_r in SV. rewrite <- app_assoc in SV.
  destruct SV as [EV | (bsV & tnV & lnV & d2 & nz2 & EV & Hd2 & LbV & BbV & Ltn2 & Ctn2 & Lln2 & Cln2)]; [left; rewrite EV; reflexivity|].
  rewrite EV. cbn [bind]. clear EV. right.
  destruct (ctx_splice tc1 tnV 7 2 Ltc1 ltac:(lia) Ltn2 Ctc1 Ctn2) as [Ltc2 Ctc2].
  destruct (ctx_splice lc1 lnV 7 2 Llc1 ltac:(lia) Lln2 Clc1 Cln2) as [Llc2 Clc2].
  exists bsU, bsV, nz2, d2, (firstn 7 tc1 ++ tnV ++ skipn (7 + 2) tc1), (firstn 7 lc1 ++ lnV ++ skipn (7 + 2) lc1).
  split; [rewrite ?app_nil_r, <- ?app_assoc; reflexivity|]. repeat (split; [assumption|]). assumption.
Qed.

(* ---- read_residual_data ---- *)
Definition rrd_post (v : Vp8) (p mbx : Z) (t : MacroBlock) (r : res (list Z * bool * Vp8)) : Prop :=
  r = Err EBitStreamError \/
  exists blocks nz d' tc' lc',
    r = Ok (blocks, nz, rst v p mbx t d' tc' lc') /\ part_live d' /\
    length tc' = 9%nat /\ cx_ok tc' /\ length lc' = 9%nat /\ cx_ok lc' /\ blocks_ok blocks.

Lemma blocks_ok_of (bsY bsU bsV : list (list Z)) : length bsY = 16%nat -> length bsU = 4%nat -> length bsV = 4%nat ->
  bounded_blocks dct_bound bsY -> bounded_blocks dct_bound bsU -> bounded_blocks dct_bound bsV ->
  blocks_ok (idct_of bsY ++ idct_of bsU ++ idct_of bsV).
Proof.
  intros L1 L2 L3 B1 B2 B3. exists (bsY ++ bsU ++ bsV). split; [rewrite !app_length; lia|].
  split; [apply bounded_app; [exact B1 | apply bounded_app; assumption]|]. rewrite !idct_of_app. reflexivity.
Qed.

Lemma rep384_len : (16 * (0 + 4 * 4) <= length (repeat 0 384))%nat.
Proof. vm_compute. lia. Qed.
Lemma rep384_inits : row_inits 4 4 (skipn (16 * 0) (repeat 0 384)) = repeat (repeat zero16 4) 4.
Proof. vm_compute. reflexivity. Qed.
Lemma rep384_firstn : firstn 0 (repeat 0 384) = [].
Proof. reflexivity. Qed.
Lemma rep384_skipn : skipn 256 (repeat 0 384) = repeat 0 128.
Proof. vm_compute. reflexivity. Qed.

Lemma rrd_bpred (v : Vp8) (mb t : MacroBlock) (mbx p : Z) (d : Dec) (seg : Segment) :
  (mb_luma_mode mb =? vp8_B_PRED) = true ->
  (exists P, tables_ok P /\ token_nodes_of P = Ok (v_token_probs v)) ->
  0 <= mb_segmentid mb -> nth_error (v_segment v) (Z.to_nat (mb_segmentid mb)) = Some seg -> seg_q_ok seg ->
  0 <= p -> nth_error (v_partitions v) (Z.to_nat p) = Some d -> part_live d ->
  0 <= mbx -> nth_error (v_top v) (Z.to_nat mbx) = Some t ->
  length (mb_complexity t) = 9%nat -> length (mb_complexity (v_left v)) = 9%nat ->
  cx_ok (mb_complexity t) -> cx_ok (mb_complexity (v_left v)) ->
  rrd_post v p mbx t (read_residual_data v mb mbx p).
Proof.
  intros Hluma (P & Htab & Htp) Hsid Hseg Hq Hp Hd Hlive Hmbx Ht Ltc Llc Ctc Clc.
  pose proof Hq as (I1 & I2 & J1 & J2 & I3 & I4 & B1 & BW & B2).
  set (tc := mb_complexity t) in *. set (lc := mb_complexity (v_left v)) in *.
  assert (Hpl : 0 <= p < Z.of_nat (length (v_partitions v))) by (pose proof (nth_error_lt_len _ _ _ Hd); lia).
  assert (Hml : 0 <= mbx < Z.of_nat (length (v_top v))) by (pose proof (nth_error_lt_len _ _ _ Ht); lia).
  unfold rrd_post, read_residual_data.
  rewrite Hluma; cbv iota.
    (* B_PRED: plane 3, no Y2 block *)
    change (3 =? 1) with false. cbv iota. cbn [bind].
    rewrite (idx_of_nth_error _ _ seg Hsid Hseg). cbn [bind].
    pose proof (stage_zero P v Htab Htp p mbx t Hpl Hml 3 (sg_ydc seg) (sg_yac seg) 4 0 1 d tc lc (repeat 0 384) false
                  ltac:(lia) I1 I2 B1 Hlive ltac:(lia) ltac:(lia) Ctc Clc rep384_len rep384_inits) as SY.
    unfold stage_post in SY. unfold tc, lc in SY. rewrite (rst_id v p mbx t d Hd Ht) in SY. fold tc lc in SY.
    change (Z.of_nat 4) with 4 in SY. change (Z.of_nat 0) with 0 in SY. change (Z.of_nat 1) with 1 in SY.
    destruct SY as [EY | (bsY & tnY & lnY & d1 & nz1 & EY & Hd1 & LbY & BbY & Ltn & Ctn & Lln & Cln)]; [left; rewrite EY; reflexivity|].
    rewrite EY. cbn [bind]. clear EY.
    change (16 * 0)%nat with 0%nat. change (16 * (0 + 4 * 4))%nat with 256%nat. change (1 + 4)%nat with 5%nat.
    rewrite rep384_firstn, rep384_skipn. cbn [app].
    destruct (ctx_splice tc tnY 1 4 Ltc ltac:(lia) Ltn Ctc Ctn) as [Ltc1 Ctc1].
    destruct (ctx_splice lc lnY 1 4 Llc ltac:(lia) Lln Clc Cln) as [Llc1 Clc1].
    change (1 + 4)%nat with 5%nat in *.
    assert (LY : length (idct_of bsY) = 256%nat) by (rewrite idct_of_length, LbY; reflexivity).
    destruct (stages_uv P v p mbx t seg d1 _ _ (idct_of bsY) nz1 Htab Htp Hpl Hml Hq Hd1 Ltc1 Llc1 Ctc1 Clc1 LY)
      as [E | (bsU & bsV & nz' & d' & tc' & lc' & E & Hd' & A1 & A2 & A3 & A4 & LbU & LbV & BbU & BbV)]; rewrite E; [left; reflexivity|].
    right. exists (idct_of bsY ++ idct_of bsU ++ idct_of bsV), nz', d', tc', lc'.
    split; [reflexivity|]. repeat (split; [assumption|]). apply blocks_ok_of; assumption.
Qed.

Lemma rrd_i16 (v : Vp8) (mb t : MacroBlock) (mbx p : Z) (d : Dec) (seg : Segment) :
  (mb_luma_mode mb =? vp8_B_PRED) = false ->
  (exists P, tables_ok P /\ token_nodes_of P = Ok (v_token_probs v)) ->
  0 <= mb_segmentid mb -> nth_error (v_segment v) (Z.to_nat (mb_segmentid mb)) = Some seg -> seg_q_ok seg ->
  0 <= p -> nth_error (v_partitions v) (Z.to_nat p) = Some d -> part_live d ->
  0 <= mbx -> nth_error (v_top v) (Z.to_nat mbx) = Some t ->
  length (mb_complexity t) = 9%nat -> length (mb_complexity (v_left v)) = 9%nat ->
  cx_ok (mb_complexity t) -> cx_ok (mb_complexity (v_left v)) ->
  rrd_post v p mbx t (read_residual_data v mb mbx p).
Proof.
  intros Hluma (P & Htab & Htp) Hsid Hseg Hq Hp Hd Hlive Hmbx Ht Ltc Llc Ctc Clc.
  pose proof Hq as (I1 & I2 & J1 & J2 & I3 & I4 & B1 & BW & B2).
  set (tc := mb_complexity t) in *. set (lc := mb_complexity (v_left v)) in *.
  assert (Hpl : 0 <= p < Z.of_nat (length (v_partitions v))) by (pose proof (nth_error_lt_len _ _ _ Hd); lia).
  assert (Hml : 0 <= mbx < Z.of_nat (length (v_top v))) by (pose proof (nth_error_lt_len _ _ _ Ht); lia).
  unfold rrd_post, read_residual_data.
  rewrite Hluma; cbv iota.
    (* 16x16: the Y2 block on plane 1, inverse WHT, then the Y blocks on plane 0 from position 1 *)
    change (1 =? 1) with true. cbv iota.
    assert (Ht0 : 0 <= nth 0 tc 0 <= 1) by (unfold cx_ok in Ctc; rewrite Forall_forall in Ctc; apply Ctc; apply nth_In; lia).
    assert (Hl0 : 0 <= nth 0 lc 0 <= 1) by (unfold cx_ok in Clc; rewrite Forall_forall in Clc; apply Clc; apply nth_In; lia).
    set (cx := nth 0 tc 0 + nth 0 lc 0).
    unfold top_complexity, left_complexity. rewrite (idx_of_nth_error _ _ t Hmbx Ht). cbn [bind]. fold tc lc.
    rewrite (idx_ok tc 0 0) by lia. rewrite (idx_ok lc 0 0) by lia. change (Z.to_nat 0) with 0%nat. cbn [bind].
    unfold u8_add_c. fold cx. destruct (Z.leb_spec cx 255) as [_|Hbad]; [|unfold cx in Hbad; lia]. cbn [bind].
    rewrite (idx_of_nth_error _ _ seg Hsid Hseg). cbn [bind]. change (repeat 0 16) with zero16.
    destruct Hlive as (Hw & Hbig & Heof).
    rewrite (read_coefficients_model v P p 1 cx (sg_y2dc seg) (sg_y2ac seg) d zero16 eq_refl Htab Htp ltac:(lia) ltac:(unfold cx; lia) J1 J2 Hp Hd Hw Hbig).
    change (Z.to_nat 1) with 1%nat. change (1 =? 0) with false. cbv iota.
    destruct (plane_facts P v Htab Htp 1 ltac:(lia)) as [HP1 HN1]. change (Z.to_nat 1) with 1%nat in *.
    assert (Bw : let r := fst (interpG cold_pure (G_blk (nth 1 (v_token_probs v) []) (sg_y2dc seg) (sg_y2ac seg) 0 cx zero16) d) in
                 length (snd r) = 16%nat /\ Forall (within (coef_bound (sg_y2dc seg) (sg_y2ac seg))) (snd r)).
    { unfold G_blk. change (Z.to_nat (16 - 0)) with 16%nat.
      apply (G_coeff_bound cold_pure _ _ (sg_y2dc seg) (sg_y2ac seg) HP1 HN1 16 0 cx false false zero16 d ltac:(lia) ltac:(lia) ltac:(unfold cx; lia) eq_refl).
      repeat constructor; unfold within, coef_bound; lia. }
    cbv zeta in Bw.
    destruct (run_facts (G_blk (nth 1 (v_token_probs v) []) (sg_y2dc seg) (sg_y2ac seg) 0 cx zero16) d Hw Hbig
                (G_blk_probs _ _ HP1 HN1 (sg_y2dc seg) (sg_y2ac seg) 0 ltac:(lia) cx zero16 ltac:(unfold cx; lia))) as [W1 Bg1].
    destruct (interpG cold_pure (G_blk (nth 1 (v_token_probs v) []) (sg_y2dc seg) (sg_y2ac seg) 0 cx zero16) d) as [hb d1].
    cbn [fst snd] in *. destruct Bw as [Lblk Fblk].
    destruct (is_past_eof d1) eqn:Ee1; [left; reflexivity|]. cbn [bind].
    rewrite (rst_parts_only v p mbx t d d1 Hd Ht). fold tc lc.
    rewrite rst_set_left_cx by lia. cbn [bind]. rewrite rst_set_top_cx by lia. cbn [bind].
    set (x := ArithDec.b2z (fst hb)). assert (Hx : 0 <= x <= 1) by apply b2z_01.
    assert (Fw : Forall (within wht_bound) (snd hb)) by (eapply Forall_impl; [|exact Fblk]; intros a Ha; unfold within in *; lia).
    rewrite (iwht_block_ok (snd hb) Lblk Fw). cbn [bind].
    assert (HB0 : 0 <= coef_bound (sg_y2dc seg) (sg_y2ac seg)) by (unfold coef_bound; lia).
    destruct (iwht_bound _ (snd hb) HB0 Lblk Fblk) as [Fws Lws].
    set (w := app16 iwht4x4 [] (snd hb)) in *.
    destruct (scatter_ok w Lws) as (Sc1 & _). rewrite Sc1. cbn [bind].
    rewrite rst_seg, (idx_of_nth_error _ _ seg Hsid Hseg). cbn [bind].
    set (tcx := updZ tc 0 x). set (lcx := updZ lc 0 x).
    assert (Ltcx : length tcx = 9%nat) by (unfold tcx; rewrite updZ_length; exact Ltc).
    assert (Llcx : length lcx = 9%nat) by (unfold lcx; rewrite updZ_length; exact Llc).
    assert (Ctcx : cx_ok tcx) by (apply cx_ok_upd0; assumption).
    assert (Clcx : cx_ok lcx) by (apply cx_ok_upd0; assumption).
    assert (Fwd : Forall (within dct_bound) w) by (eapply Forall_impl; [|exact Fws]; intros a Ha; unfold within, wht_bound, dct_bound in *; lia).
    pose proof (stage_dc P v Htab Htp p mbx t Hpl Hml (sg_ydc seg) (sg_yac seg) d1 tcx lcx false w I1 I2 B1
                  (conj W1 (conj Bg1 Ee1)) ltac:(lia) ltac:(lia) Ctcx Clcx Lws Fwd) as SY.
    unfold stage_post in SY.
    destruct SY as [EY | (bsY & tnY & lnY & d2 & nz1 & EY & Hd2 & LbY & BbY & Ltn & Ctn & Lln & Cln)]; [left; rewrite EY; reflexivity|].
    rewrite EY. cbn [bind]. clear EY.
    change (16 * 0)%nat with 0%nat. change (16 * (0 + 4 * 4))%nat with 256%nat. change (1 + 4)%nat with 5%nat.
    assert (Sk1 : skipn 256 (concat (map dcblk w) ++ repeat 0 128) = repeat 0 128).
    { replace 256%nat with (length (concat (map dcblk w))) by (rewrite dcblks_length, Lws; reflexivity).
      rewrite skipn_app, skipn_all, Nat.sub_diag. reflexivity. }
    rewrite Sk1. change (firstn 0 (concat (map dcblk w) ++ repeat 0 128)) with (@nil Z). cbn [app].
    destruct (ctx_splice tcx tnY 1 4 Ltcx ltac:(lia) Ltn Ctcx Ctn) as [Ltc1 Ctc1].
    destruct (ctx_splice lcx lnY 1 4 Llcx ltac:(lia) Lln Clcx Cln) as [Llc1 Clc1].
    change (1 + 4)%nat with 5%nat in *.
    assert (LY : length (idct_of bsY) = 256%nat) by (rewrite idct_of_length, LbY; reflexivity).
    destruct (stages_uv P v p mbx t seg d2 _ _ (idct_of bsY) nz1 Htab Htp Hpl Hml Hq Hd2 Ltc1 Llc1 Ctc1 Clc1 LY)
      as [E | (bsU & bsV & nz' & d' & tc' & lc' & E & Hd' & A1 & A2 & A3 & A4 & LbU & LbV & BbU & BbV)]; rewrite E; [left; reflexivity|].
    right. exists (idct_of bsY ++ idct_of bsU ++ idct_of bsV), nz', d', tc', lc'.
    split; [reflexivity|]. repeat (split; [assumption|]). apply blocks_ok_of; assumption.
Qed.

Theorem read_residual_data_safe (v : Vp8) (mb t : MacroBlock) (mbx p : Z) (d : Dec) (seg : Segment) :
  (exists P, tables_ok P /\ token_nodes_of P = Ok (v_token_probs v)) ->
  0 <= mb_segmentid mb -> nth_error (v_segment v) (Z.to_nat (mb_segmentid mb)) = Some seg -> seg_q_ok seg ->
  0 <= p -> nth_error (v_partitions v) (Z.to_nat p) = Some d -> part_live d ->
  0 <= mbx -> nth_error (v_top v) (Z.to_nat mbx) = Some t ->
  length (mb_complexity t) = 9%nat -> length (mb_complexity (v_left v)) = 9%nat ->
  cx_ok (mb_complexity t) -> cx_ok (mb_complexity (v_left v)) ->
  rrd_post v p mbx t (read_residual_data v mb mbx p).
Proof.
  intros. destruct (mb_luma_mode mb =? vp8_B_PRED) eqn:Hluma; [eapply rrd_bpred | eapply rrd_i16]; eassumption.
Qed.
