(* Glue of read_image / read_frame, part 8' (C03): Proofs/ReadImage_safe.v re-proved from the hypothesis the faithful VP8
   frame decoder actually satisfies.  ReadImage_safe.vp8_safe asks the frame decoder for [planes_ok] (so 1 <= width, height) on
   every list of integers; VP8_safe_defs.vp8_safe_bytes asks, on every BYTE string shorter than 2^63, for Ok with
   [frame_result_ok] (sizes 0..16383, planes of the announced size when both sizes are positive) or Err.  The glue only hands
   windows of the file to the frame decoder (bytes, no longer than the file) and compares the decoded sizes with sizes that are
   positive (the frame sizes of an ANMF chunk are 1 + a 24-bit field; `new` only accepts positive dimensions: [new_dims_pos]),
   so the weaker hypothesis is enough:
     read_image_no_panic_bytes, decode_frame_payload_no_panic_bytes. *)
From Coq Require Import ZArith List Bool Lia Arith.
From WebP Require Import Lib.Res Lib.ZBits Spec.Container Spec.YUV Spec.Alpha Model.Alpha Model.Yuv Model.Still.
From WebP Require Import Proofs.Container_bytes Proofs.Container_safety Proofs.C13_yuv Proofs.Alpha_unfilter
  Proofs.ReadImage_base Proofs.ReadImage_lossy.
From WebP Require Proofs.ReadImage_vp8l Model.Lossless Model.Anim Proofs.C15_model.
From WebP Require Import Model.ReadImage.
From WebP Require Import Proofs.ReadImage_safe Proofs.VP8_safe_defs.
Import ListNotations.
Open Scope Z_scope.

Ltac Zify.zify_post_hook ::= Z.div_mod_to_equations.

(* ---------------------------------------------------------------------------------------------- *)
(* the payloads handed to the frame decoder are no longer than the file                             *)
(* ---------------------------------------------------------------------------------------------- *)
Lemma window_len d p n : C15_model.len (window d p n) <= len d.
Proof.
  unfold C15_model.len, len, window. destruct (M.len d <=? p); [cbn [length]; lia|].
  unfold M.slice. rewrite firstn_length, skipn_length. lia.
Qed.

Lemma window_len_lt d p n : len d <= 9223372036854775807 -> C15_model.len (window d p n) < 2 ^ 63.
Proof. intros H. pose proof (window_len d p n). change (2 ^ 63) with 9223372036854775808. lia. Qed.

Lemma range_reader_safe_len d m k r : all_bytes d = true -> map_ok big m -> M.lookup k m = Some r ->
  exists rd, range_reader d r = Ok rd /\ Forall byte rd /\ C15_model.len rd <= len d.
Proof.
  intros Hb Hm E. destruct (map_ok_lookup _ _ _ _ Hm E) as [[_ Hse] _].
  unfold range_reader. rewrite sub_u64_ok by lia. cbn [bind]. eexists.
  split; [reflexivity | split; [apply window_bytes; exact Hb | apply window_len]].
Qed.

(* ---------------------------------------------------------------------------------------------- *)
(* `new` only accepts positive dimensions                                                           *)
(* ---------------------------------------------------------------------------------------------- *)
Lemma read_3_bytes_nonneg d p v p' : all_bytes d = true -> M.read_3_bytes d p = Ok (v, p') -> 0 <= v.
Proof.
  intros Hb E. destruct (read_3_bytes_cases d p Hb) as [(v0 & E0 & Hv & _) | E0]; rewrite E0 in E; [|discriminate E].
  apply Ok_inj in E. inversion E. subst. lia.
Qed.

Lemma read_extended_header_pos d p info p' : all_bytes d = true ->
  M.read_extended_header d p = Ok (info, p') -> 1 <= M.e_canvas_width info /\ 1 <= M.e_canvas_height info.
Proof.
  intros Hb H. unfold M.read_extended_header in H.
  do 6 inv_step H.
  match type of H with (if M.u32_max <? ?a * ?b then _ else _) = _ =>
    destruct (M.u32_max <? a * b) eqn:Echk; [discriminate H|] end.
  apply Ok_inj in H. inversion H. subst info. cbn [M.e_canvas_width M.e_canvas_height].
  repeat match goal with E : M.add_u32 _ 1 = Ok _ |- _ => apply add_u32_inv in E; destruct E as [E _] end.
  repeat match goal with E : M.read_3_bytes _ _ = Ok _ |- _ => apply (read_3_bytes_nonneg _ _ _ _ Hb) in E end.
  lia.
Qed.

Lemma new_dims_pos d dec : all_bytes d = true -> M.new d = Ok dec -> 1 <= M.d_width dec /\ 1 <= M.d_height dec.
Proof.
  intros Hb H. unfold M.new in H.
  inv_step H. inv_step H. inv_step H. inv_step H. inv_step H.
  match type of H with match ?c with M.KRIFF => _ | _ => _ end = _ => destruct c; try discriminate H end.
  - (* VP8 *)
    do 6 inv_step H.
    match type of H with (if (?a =? 0) || (?b =? 0) then _ else _) = _ =>
      destruct (a =? 0) eqn:Ea; [discriminate H|]; destruct (b =? 0) eqn:Eb; [discriminate H|] end.
    cbn [orb] in H. inv_step H. apply Ok_inj in H. subst dec. unfold M.mk_decoder. cbn [M.d_width M.d_height].
    apply Z.eqb_neq in Ea, Eb.
    match goal with |- 1 <= Z.land ?a 16383 /\ 1 <= Z.land ?b 16383 => pose proof (land14_range a); pose proof (land14_range b) end.
    lia.
  - (* VP8L *)
    repeat inv_step H. apply Ok_inj in H. subst dec. unfold M.mk_decoder. cbn [M.d_width M.d_height].
    repeat match goal with E : M.add_u32 (Z.land ?a 16383) 1 = Ok _ |- _ => apply add_u32_inv in E; pose proof (land14_range a) end.
    lia.
  - (* VP8X *)
    inv_step H.
    match goal with E : M.read_extended_header _ _ = Ok _ |- _ => pose proof (read_extended_header_pos _ _ _ _ Hb E) as Hd end.
    do 3 inv_step H.
    match type of H with (if ?b then _ else _) = _ => destruct b; [discriminate H|] end.
    repeat inv_step H. apply Ok_inj in H. subst dec. unfold M.mk_decoder. cbn [M.d_width M.d_height]. exact Hd.
Qed.

Section SafeBytes.
Variable vp8 : list Z -> res (Z * Z * list Z * list Z * list Z).
Hypothesis Hvp8 : vp8_safe_bytes vp8.

Lemma vp8_cases_bytes rd : Forall byte rd -> C15_model.len rd < 2 ^ 63 ->
  (exists w h yp up vp, vp8 rd = Ok (w, h, yp, up, vp) /\ frame_result_ok w h yp up vp) \/ (exists e, vp8 rd = Err e).
Proof.
  intros Hb Hl. pose proof (Hvp8 rd Hb Hl) as H. destruct (vp8 rd) as [[[[[w h] yp] up] vp]|e|p|]; try contradiction.
  - left. exists w, h, yp, up, vp. auto.
  - right. eauto.
Qed.

(* ---------------------------------------------------------------------------------------------- *)
(* read_image, still files                                                                          *)
(* ---------------------------------------------------------------------------------------------- *)
Theorem read_image_no_panic_bytes_sec file dec buf :
  all_bytes file = true -> len file <= 9223372036854775807 -> M.new file = Ok dec -> M.is_animated dec = false ->
  safe (fst (read_image vp8 dec buf)).
Proof.
  intros Hb Hlen Hnew Hanim.
  destruct (new_safe_ok file Hb Hlen) as [_ Hok]. destruct (Hok dec Hnew) as [Hd Hm].
  pose proof (new_dims_bound file dec Hnew) as Hdim.
  destruct (new_dims_pos file dec Hb Hnew) as [Hpw Hph].
  unfold read_image.
  destruct (M.output_buffer_size dec) as [n|] eqn:Eo; [|exact I].
  destruct (M.len buf =? n) eqn:El; cbn [negb]; [|exact I]. apply Z.eqb_eq in El.
  rewrite Hanim.
  assert (Hn : n = M.d_width dec * M.d_height dec * (if M.has_alpha dec then 4 else 3)).
  { unfold M.output_buffer_size in Eo.
    destruct (M.usize_max <? M.d_width dec * M.d_height dec); [discriminate|].
    destruct (M.usize_max <? M.d_width dec * M.d_height dec * (if M.has_alpha dec then 4 else 3)); [discriminate|].
    injection Eo as <-. reflexivity. }
  unfold M.len in El. unfold M.has_alpha in Hn.
  destruct (M.lookup M.KVP8L (M.d_chunks dec)) as [range|] eqn:ELL.
  - (* lossless *)
    unfold read_image_vp8l. rewrite Hd.
    destruct (range_reader_safe file _ _ _ Hb Hm ELL) as (rd & -> & Hrd). cbn [bindb].
    destruct (M.d_has_alpha dec) eqn:Ea.
    + destruct (ReadImage_vp8l.decode_frame_safe rd [] (M.d_width dec) (M.d_height dec) buf Hrd ltac:(lia)) as [(p & ->) | (e & ->)];
        exact I.
    + rewrite usz_ok by (unfold M.usize_max, M.u64_max; lia). cbn [bindb].
      destruct (ReadImage_vp8l.decode_frame_safe rd [] (M.d_width dec) (M.d_height dec) (zeros (M.d_width dec * M.d_height dec * 4)) Hrd
                  ltac:(rewrite zeros_length by lia; lia)) as [(p & ->) | (e & ->)]; exact I.
  - (* lossy *)
    unfold read_image_vp8. rewrite Hd.
    destruct (M.lookup M.KVP8 (M.d_chunks dec)) as [range|] eqn:EL8; [|exact I].
    destruct (range_reader_safe_len file _ _ _ Hb Hm EL8) as (rd & -> & Hrd & Lrd). cbn [bindb].
    assert (Lrd' : C15_model.len rd < 2 ^ 63) by (change (2 ^ 63) with 9223372036854775808; lia).
    destruct (vp8_cases_bytes rd Hrd Lrd') as [(w & h & yp & up & vp & -> & Hfr) | (e & ->)]; [|exact I]. cbn [bindb].
    destruct (w =? M.d_width dec) eqn:Ew; [|exact I]. destruct (h =? M.d_height dec) eqn:Eh; [|exact I].
    apply Z.eqb_eq in Ew, Eh. cbn [negb orb].
    destruct Hfr as (_ & _ & Hpl). specialize (Hpl ltac:(lia) ltac:(lia)).
    destruct Hpl as (Rw & Rh & Ly & Lu & Lv & By & Bu & Bv).
    assert (Hnn : Z.to_nat (w * h) = (Z.to_nat w * Z.to_nat h)%nat) by (rewrite Z2Nat.inj_mul by lia; reflexivity).
    unfold M.has_alpha. rewrite <- Ew, <- Eh in Hn.
    destruct (M.d_has_alpha dec).
    + rewrite (fill_rgba_spec_lemma (Z.to_nat w) (Z.to_nat h) yp up vp buf) by (try assumption; lia). cbn [bindb].
      destruct (rgba_plane_weave (Z.to_nat w) yp up vp buf (Z.to_nat h) Ly) as (al0 & -> & L0 & Lr).
      destruct (M.lookup M.KALPH (M.d_chunks dec)) as [arange|] eqn:ELA; [|exact I].
      destruct (range_reader_safe file _ _ _ Hb Hm ELA) as (ard & -> & Hard). cbn [bindb].
      rewrite <- Ew, <- Eh. rewrite !Z.mod_small by lia.
      destruct (read_alpha_chunk_safe ard w h Hard ltac:(lia) ltac:(lia)) as [(ac & -> & Lac) | (e & ->)]; [|exact I]. cbn [bindb].
      destruct (alpha_loop_ok ac w h (rgb_plane (Z.to_nat w) (Z.to_nat h) yp up vp) al0) as (out & ->); try lia. exact I.
    + rewrite (fill_rgb_spec_lemma (Z.to_nat w) (Z.to_nat h) yp up vp buf) by (try assumption; lia). exact I.
Qed.

(* ---------------------------------------------------------------------------------------------- *)
(* the payload branches of read_frame                                                               *)
(* ---------------------------------------------------------------------------------------------- *)
Lemma payload_vp8_safe_bytes rd fw fh : Forall byte rd -> C15_model.len rd < 2 ^ 63 ->
  1 <= fw <= 16384 -> 1 <= fh <= 16384 -> safe (payload_vp8 vp8 rd fw fh).
Proof.
  intros Hrd Lrd Hw Hh. unfold payload_vp8.
  destruct (vp8_cases_bytes rd Hrd Lrd) as [(w & h & yp & up & vp & -> & Hfr) | (e & ->)]; [|exact I]. cbn [bind].
  destruct (w =? fw) eqn:Ew; [|exact I]. destruct (h =? fh) eqn:Eh; [|exact I].
  apply Z.eqb_eq in Ew, Eh. subst fw fh. cbn [negb orb].
  destruct Hfr as (_ & _ & Hpl). specialize (Hpl ltac:(lia) ltac:(lia)).
  destruct Hpl as (Rw & Rh & Ly & Lu & Lv & By & Bu & Bv).
  rewrite usz_ok by (unfold M.usize_max, M.u64_max; nia). cbn [bind].
  rewrite (fill_rgb_spec_lemma (Z.to_nat w) (Z.to_nat h) yp up vp (zeros (w * h * 3)))
    by (try assumption; try lia; rewrite zeros_len by nia; rewrite !Z2Nat.inj_mul by lia; reflexivity).
  exact I.
Qed.

Lemma payload_alph_vp8_safe_bytes ac rd fw fh : Forall byte rd -> C15_model.len rd < 2 ^ 63 ->
  1 <= fw <= 16384 -> 1 <= fh <= 16384 -> length (ac_data ac) = Z.to_nat (fw * fh) ->
  safe (payload_alph_vp8 vp8 ac rd fw fh).
Proof.
  intros Hrd Lrd Hw Hh Lac. unfold payload_alph_vp8.
  destruct (vp8_cases_bytes rd Hrd Lrd) as [(w & h & yp & up & vp & -> & Hfr) | (e & ->)]; [|exact I]. cbn [bind].
  destruct (w =? fw) eqn:Ew; [|exact I]. destruct (h =? fh) eqn:Eh; [|exact I].
  apply Z.eqb_eq in Ew, Eh. subst fw fh. cbn [negb orb].
  destruct Hfr as (_ & _ & Hpl). specialize (Hpl ltac:(lia) ltac:(lia)).
  destruct Hpl as (Rw & Rh & Ly & Lu & Lv & By & Bu & Bv).
  rewrite usz_ok by (unfold M.usize_max, M.u64_max; nia). cbn [bind].
  assert (Hnn : Z.to_nat (w * h) = (Z.to_nat w * Z.to_nat h)%nat) by (rewrite Z2Nat.inj_mul by lia; reflexivity).
  rewrite (fill_rgba_spec_lemma (Z.to_nat w) (Z.to_nat h) yp up vp (zeros (w * h * 4)))
    by (try assumption; try lia; rewrite zeros_len by nia; rewrite !Z2Nat.inj_mul by lia; reflexivity).
  cbn [bind].
  destruct (rgba_plane_weave (Z.to_nat w) yp up vp (zeros (w * h * 4)) (Z.to_nat h) Ly) as (al0 & -> & L0 & Lr).
  destruct (alpha_loop_ok ac w h (rgb_plane (Z.to_nat w) (Z.to_nat h) yp up vp) al0) as (out & ->); try lia. exact I.
Qed.

Lemma frame_body_safe_bytes file dec anmf_size p :
  all_bytes file = true -> len file <= 9223372036854775807 -> M.d_data dec = file -> safe (frame_body vp8 dec anmf_size p).
Proof.
  intros Hb Hlen Hd. unfold frame_body. rewrite Hd.
  destruct (read_3_bytes_cases file p Hb) as [(fx & -> & Hfx & _) | ->]; [|exact I]. cbn [bind].
  rewrite add_u32_ok by (unfold M.u32_max; lia). cbn [bind].
  destruct (read_3_bytes_cases file (p + 3) Hb) as [(fy & -> & Hfy & _) | ->]; [|exact I]. cbn [bind].
  rewrite add_u32_ok by (unfold M.u32_max; lia). cbn [bind].
  destruct (read_3_bytes_cases file (p + 3 + 3) Hb) as [(fw1 & -> & Hfw & _) | ->]; [|exact I]. cbn [bind].
  rewrite add_u32_ok by (unfold M.u32_max; lia). cbn [bind].
  destruct (read_3_bytes_cases file (p + 3 + 3 + 3) Hb) as [(fh1 & -> & Hfh & _) | ->]; [|exact I]. cbn [bind].
  rewrite add_u32_ok by (unfold M.u32_max; lia). cbn [bind].
  destruct (16384 <? fw1 + 1) eqn:E1; [exact I|]. destruct (16384 <? fh1 + 1) eqn:E2; [exact I|]. cbn [orb].
  apply Z.ltb_ge in E1, E2.
  rewrite add_u32_ok by (unfold M.u32_max; lia). cbn [bind].
  apply safe_bind.
  { destruct (M.d_width dec <? fx + fx + (fw1 + 1)); [exact I|]. rewrite add_u32_ok by (unfold M.u32_max; lia). exact I. }
  intros outside _. destruct outside; [exact I|].
  destruct (read_3_bytes_cases file (p + 3 + 3 + 3 + 3) Hb) as [(dur & -> & _ & _) | ->]; [|exact I]. cbn [bind].
  destruct (read_u8_cases file (p + 3 + 3 + 3 + 3 + 3) Hb) as [(fl & -> & _ & _) | ->]; [|exact I]. cbn [bind].
  set (q := p + 3 + 3 + 3 + 3 + 3 + 1).
  destruct (read_chunk_header_cases file q Hb) as [(ck & csz & crsz & -> & Hcsz & Hcrsz & Hq) | ->]; [|exact I]. cbn [bind].
  destruct (anmf_size <? crsz + 24); [exact I|].
  apply safe_bind; [|intros [fr ha] _; exact I].
  assert (Hwin : forall p n, Forall byte (window file p n)) by (intros; apply window_bytes; exact Hb).
  assert (Lwin : forall p n, C15_model.len (window file p n) < 2 ^ 63) by (intros; apply window_len_lt; exact Hlen).
  destruct ck; try exact I.
  - apply payload_vp8_safe_bytes; [apply Hwin | apply Lwin | lia | lia].
  - apply payload_vp8l_safe; [apply Hwin | lia | lia].
  - destruct (anmf_size <? crsz + 32); [exact I|].
    rewrite add_u64_ok by (unfold M.u64_max; lia). cbn [bind].
    rewrite !Z.mod_small by lia.
    destruct (read_alpha_chunk_safe (window file (q + 8) csz) (fw1 + 1) (fh1 + 1) (Hwin _ _) ltac:(lia) ltac:(lia))
      as [(ac & -> & Lac) | (e & ->)]; [|exact I]. cbn [bind].
    destruct (read_chunk_header_cases file (q + 8 + crsz) Hb) as [(nk & nsz & nrsz & -> & _ & _ & _) | ->]; [|exact I]. cbn [bind].
    destruct (anmf_size <? csz + nsz + 32); [exact I|].
    apply payload_alph_vp8_safe_bytes; [apply Hwin | apply Lwin | lia | lia | exact Lac].
Qed.

Theorem decode_frame_payload_no_panic_bytes_sec file dec pos :
  all_bytes file = true -> len file <= 9223372036854775807 -> M.new file = Ok dec -> 0 <= pos ->
  safe (fst (decode_frame_payload vp8 dec pos)).
Proof.
  intros Hb Hlen Hnew Hpos.
  destruct (new_safe_ok file Hb Hlen) as [_ Hok]. destruct (Hok dec Hnew) as [Hd _].
  unfold decode_frame_payload. rewrite Hd.
  pose proof (find_anmf_safe file Hb Hlen (S (length file)) pos pos ltac:(lia) Hpos ltac:(lia)
                ltac:(unfold len; lia)) as Hs.
  destruct (find_anmf (S (length file)) file pos pos) as [r nfs]. cbn [fst] in *.
  destruct r as [[sz p]|e|q|]; cbn [bind]; try exact Hs; try exact I.
  apply (frame_body_safe_bytes file dec sz p Hb Hlen Hd).
Qed.
End SafeBytes.

(* ---------------------------------------------------------------------------------------------- *)
(* the theorems                                                                                     *)
(* ---------------------------------------------------------------------------------------------- *)
Theorem read_image_no_panic_bytes : forall vp8, vp8_safe_bytes vp8 ->
  forall (file : list Z) (dec : Container_bytes.M.decoder) (buf : list Z),
  all_bytes file = true -> len file <= 9223372036854775807 -> Container_bytes.M.new file = Ok dec ->
  Container_bytes.M.is_animated dec = false ->
  Container_safety.safe (fst (read_image vp8 dec buf)).
Proof. intros vp8 Hvp8 file dec buf. apply read_image_no_panic_bytes_sec. exact Hvp8. Qed.

Theorem decode_frame_payload_no_panic_bytes : forall vp8, vp8_safe_bytes vp8 ->
  forall file dec pos,
  all_bytes file = true -> len file <= 9223372036854775807 -> Container_bytes.M.new file = Ok dec -> 0 <= pos ->
  Container_safety.safe (fst (decode_frame_payload vp8 dec pos)).
Proof. intros vp8 Hvp8 file dec pos. apply decode_frame_payload_no_panic_bytes_sec. exact Hvp8. Qed.
