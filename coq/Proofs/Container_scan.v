(* C08, extended layouts, part 1: the chunk scan of the VP8X branch run on a serialised chunk list equals a
   structural fold over that list ([scan_spec]); what the fold computes (frame count, durations, lossy flag,
   first range per chunk kind); every serialised byte is a byte. *)
From Coq Require Import ZArith List Bool Lia.
From WebP Require Import Lib.Res Lib.ZBits Spec.Container Proofs.Container_bytes.
From WebP Require Model.Container.
Import ListNotations.
Open Scope Z_scope.

Ltac Zify.zify_post_hook ::= Z.div_mod_to_equations.

Lemma bind_Ok {A B} (a : A) (f : A -> res B) : bind (Ok a) f = f a.
Proof. reflexivity. Qed.

(* ---------------------------------------------------------------------------------------------- *)
(* the decoder's view of a chunk of the specification                                               *)
(* ---------------------------------------------------------------------------------------------- *)
Definition ckind (c : chunk) : M.chunk_kind := M.from_fourcc (chunk_cc c).

Definition ckind_expected (c : chunk) : M.chunk_kind :=
  match c with
  | CICCP _ => M.KICCP | CEXIF _ => M.KEXIF | CXMP _ => M.KXMP | CANIM _ _ => M.KANIM | CANMF _ => M.KANMF
  | CALPH _ => M.KALPH | CVP8 _ => M.KVP8 | CVP8L _ => M.KVP8L | CUnknown u => M.KUnknown (u_cc u)
  end.

Lemma unknown_ok_eq u : unknown_ok u = is_unknown_cc (u_cc u) && all_bytes (u_payload u).
Proof. reflexivity. Qed.

Lemma ckind_spec c : chunk_ok c = true -> ckind c = ckind_expected c.
Proof.
  destruct c; intros H; try reflexivity.
  cbn [chunk_ok] in H. rewrite unknown_ok_eq, andb_true_iff in H. destruct H as [H _].
  unfold ckind. cbn [chunk_cc ckind_expected]. apply from_fourcc_unknown. exact H.
Qed.

Lemma is_unknown_cc_len cc : is_unknown_cc cc = true -> len cc = 4.
Proof.
  unfold is_unknown_cc. rewrite !andb_true_iff. intros [[H _] _]. apply Nat.eqb_eq in H. unfold len. rewrite H. reflexivity.
Qed.

Lemma chunk_cc_len c : chunk_ok c = true -> len (chunk_cc c) = 4.
Proof.
  destruct c; intros H; try reflexivity.
  cbn [chunk_ok] in H. rewrite unknown_ok_eq, andb_true_iff in H. destruct H as [H _].
  cbn [chunk_cc]. apply is_unknown_cc_len. exact H.
Qed.

Definition chunk_frame (c : chunk) : option frame := match c with CANMF f => Some f | _ => None end.

Lemma ckind_anmf c : chunk_ok c = true -> M.kind_eqb (ckind c) M.KANMF = match chunk_frame c with Some _ => true | None => false end.
Proof. intros H. rewrite (ckind_spec c H). destruct c; reflexivity. Qed.

(* ---------------------------------------------------------------------------------------------- *)
(* one iteration of the loop, structurally                                                          *)
(* ---------------------------------------------------------------------------------------------- *)
Definition step_spec (p : Z) (c : chunk) (st : M.scan_state) : M.scan_state :=
  let pl := len (chunk_payload c) in
  let p' := p + 8 + rounded pl in
  let chunks := if negb (M.is_unknown (ckind c)) then M.or_insert (ckind c) (p + 8, p + 8 + pl) (M.s_chunks st)
                else M.s_chunks st in
  match chunk_frame c with
  | Some f =>
      {| M.s_rpos := p'; M.s_position := p'; M.s_chunks := chunks; M.s_num_frames := M.s_num_frames st + 1;
         M.s_loop_duration := (M.s_loop_duration st + f_duration f) mod 18446744073709551616;
         M.s_is_lossy := M.s_is_lossy st || frame_lossy f |}
  | None =>
      {| M.s_rpos := p'; M.s_position := p'; M.s_chunks := chunks; M.s_num_frames := M.s_num_frames st;
         M.s_loop_duration := M.s_loop_duration st; M.s_is_lossy := M.s_is_lossy st |}
  end.

Fixpoint scan_spec (p : Z) (cs : list chunk) (st : M.scan_state) : M.scan_state :=
  match cs with
  | [] => st
  | c :: cs' => scan_spec (p + len (chunk_bytes c)) cs' (step_spec p c st)
  end.

Lemma len_chunk_bytes c : chunk_ok c = true -> len (chunk_bytes c) = 8 + rounded (len (chunk_payload c)).
Proof. intros H. unfold chunk_bytes. apply len_ser_chunk4. apply chunk_cc_len. exact H. Qed.

(* ---------------------------------------------------------------------------------------------- *)
(* the frame header inside an ANMF payload                                                          *)
(* ---------------------------------------------------------------------------------------------- *)
Definition first_subchunk (i : frame_image) : list Z * list Z :=      (* FourCC and payload of the first sub-chunk *)
  match i with
  | FLossy None v => (cc_VP8, vp8_bytes v)
  | FLossy (Some a) _ => (cc_ALPH, alph_bytes a)
  | FLossless l => (cc_VP8L, vp8l_bytes l)
  end.
Definition after_first_subchunk (i : frame_image) : list Z :=
  match i with
  | FLossy (Some _) v => ser_chunk cc_VP8 (vp8_bytes v)
  | _ => []
  end.

Lemma image_bytes_split i :
  image_bytes i = ser_chunk (fst (first_subchunk i)) (snd (first_subchunk i)) ++ after_first_subchunk i.
Proof. destruct i as [[a|] v | l]; cbn [image_bytes first_subchunk after_first_subchunk fst snd]; rewrite ?app_nil_r; reflexivity. Qed.

Lemma first_subchunk_cc_len i : len (fst (first_subchunk i)) = 4.
Proof. destruct i as [[a|] v | l]; reflexivity. Qed.

Lemma first_subchunk_kind i :
  match M.from_fourcc (fst (first_subchunk i)) with M.KVP8 | M.KALPH => true | _ => false end
  = match i with FLossy _ _ => true | FLossless _ => false end.
Proof. destruct i as [[a|] v | l]; reflexivity. Qed.

Definition frame_head (f : frame) : list Z :=
  le24 (f_x f) ++ le24 (f_y f) ++ le24 (f_w1 f) ++ le24 (f_h1 f).
Definition frame_flags (f : frame) : Z := 4 * f_rsv f + 2 * b2z (f_noblend f) + b2z (f_dispose f).
Definition frame_tail (f : frame) : list Z :=
  after_first_subchunk (f_image f) ++ concat (map unknown_bytes (f_unknown f)).

Lemma frame_payload_split f :
  frame_payload f = frame_head f ++ (le24 (f_duration f) ++ [frame_flags f])
                    ++ ser_chunk (fst (first_subchunk (f_image f))) (snd (first_subchunk (f_image f))) ++ frame_tail f.
Proof.
  unfold frame_payload, frame_head, frame_flags, frame_tail. rewrite image_bytes_split. rewrite <- !app_assoc. reflexivity.
Qed.

Lemma len_frame_head f : len (frame_head f) = 12.
Proof. reflexivity. Qed.

Lemma len_frame_payload f :
  len (frame_payload f) = 24 + rounded (len (snd (first_subchunk (f_image f)))) + len (frame_tail f).
Proof.
  rewrite frame_payload_split, !len_app, len_frame_head, len_le24.
  rewrite len_ser_chunk4 by apply first_subchunk_cc_len. change (len [frame_flags f]) with 1. lia.
Qed.

Lemma read_u32_dur d p dur fl :
  at_pos d p (le24 dur ++ [fl]) -> 0 <= dur < 16777216 ->
  exists v, M.read_u32_le d p = Ok (v, p + 4) /\ Z.land v 16777215 = dur.
Proof.
  intros H Hd. unfold M.read_u32_le. rewrite (read_exact_at _ _ _ 4 H eq_refl).
  cbn [bind le24 app M.nth_byte nth]. eexists. split; [reflexivity|].
  change 16777215 with (Z.ones 24). rewrite Z.land_ones by lia. change (2 ^ 24) with 16777216. lia.
Qed.

(* ---------------------------------------------------------------------------------------------- *)
(* scan_body on one serialised chunk                                                                *)
(* ---------------------------------------------------------------------------------------------- *)
Lemma rounded_bounds n : 0 <= n -> n <= rounded n <= n + 1.
Proof. intros H. unfold rounded. lia. Qed.

Lemma scan_body_step d p c rest st :
  at_pos d p (chunk_bytes c ++ rest) -> chunk_ok c = true -> len d <= 4294967294 ->
  M.s_rpos st = p -> M.s_position st = p -> 0 <= M.s_num_frames st <= p ->
  M.scan_body d st = Ok (M.Continue (step_spec p c st)).
Proof.
  intros Hat Hok Hd Hr Hp Hn.
  pose proof (chunk_cc_len c Hok) as Hcc.
  unfold chunk_bytes in Hat.
  destruct (ser_chunk_header d p _ _ rest Hat Hcc) as (Hh & Hpay & Hrest).
  destruct (at_pos_bound _ _ _ Hat) as [Hp0 Hb]. rewrite len_app, (len_ser_chunk4 _ _ Hcc) in Hb.
  pose proof (len_nonneg (chunk_payload c)) as Hpl0. pose proof (len_nonneg rest) as Hrest0.
  pose proof (rounded_bounds _ Hpl0) as Hrb.
  set (pl := len (chunk_payload c)) in *.
  assert (Hhdr : M.read_chunk_header d p = Ok ((ckind c, pl, rounded pl), p + 8)).
  { apply read_chunk_header_at; [exact Hh | exact Hcc | lia]. }
  unfold M.scan_body. rewrite Hr, Hp, Hhdr.
  repeat (first [rewrite bind_Ok | rewrite add_u64_ok by (unfold M.u64_max; lia)]).
  rewrite (ckind_anmf c Hok). unfold step_spec. fold pl.
  destruct c as [q|q|q|bg lp|f|a|v|l|u]; cbn [chunk_frame];
    try (rewrite seek_relative_ok by (unfold M.u64_max; lia); rewrite bind_Ok;
         replace (p + (8 + rounded pl)) with (p + 8 + rounded pl) by lia; reflexivity).
  (* ANMF *)
  cbn [chunk_payload] in *. cbn [chunk_ok] in Hok.
  assert (Hfok : frame_ok f = true) by exact Hok.
  unfold frame_ok in Hfok. rewrite !andb_true_iff in Hfok.
  destruct Hfok as (((((((Hx & Hy) & Hw) & Hh') & Hdur) & Hrsv) & Himg) & Hunk).
  apply in_range_true in Hdur.
  pose proof (len_frame_payload f) as Hlen. fold pl in Hlen.
  pose proof (len_nonneg (snd (first_subchunk (f_image f)))) as Hs0.
  pose proof (rounded_bounds _ Hs0) as Hsb. pose proof (len_nonneg (frame_tail f)) as Ht0.
  rewrite add_u32_ok by (unfold M.u32_max; lia). rewrite bind_Ok.
  destruct (pl <? 24) eqn:E24; [apply Z.ltb_lt in E24; lia|].
  rewrite seek_relative_ok by (unfold M.u64_max; lia). rewrite bind_Ok.
  rewrite frame_payload_split in Hpay.
  apply at_pos_app_r in Hpay. rewrite len_frame_head in Hpay.
  pose proof (at_pos_app_l _ _ _ _ Hpay) as Hdurat.
  apply at_pos_app_r in Hpay. change (len (le24 (f_duration f) ++ [frame_flags f])) with 4 in Hpay.
  replace (p + 8 + 12 + 4) with (p + 24) in Hpay by lia.
  destruct (read_u32_dur d (p + 8 + 12) _ _ Hdurat) as (v32 & Hv32 & Hland); [lia|].
  rewrite Hv32, bind_Ok, Hland. replace (p + 8 + 12 + 4) with (p + 24) by lia.
  destruct (M.s_is_lossy st) eqn:El; cbn [negb].
  - rewrite sub_i64_ok by (unfold M.i64_min, M.i64_max; lia). rewrite bind_Ok.
    rewrite seek_relative_ok by (unfold M.u64_max; lia). rewrite bind_Ok.
    replace (p + 24 + (rounded pl - 16)) with (p + 8 + rounded pl) by lia.
    replace (p + (8 + rounded pl)) with (p + 8 + rounded pl) by lia.
    cbn [orb]. reflexivity.
  - destruct (ser_chunk_header d (p + 24) _ _ _ Hpay (first_subchunk_cc_len _)) as (Hsh & _ & _).
    rewrite (read_chunk_header_at d (p + 24) _ _ Hsh (first_subchunk_cc_len _)) by lia.
    rewrite bind_Ok.
    rewrite sub_i64_ok by (unfold M.i64_min, M.i64_max; lia). rewrite bind_Ok.
    rewrite seek_relative_ok by (unfold M.u64_max; lia). rewrite bind_Ok.
    replace (p + 24 + 8 + (rounded pl - 24)) with (p + 8 + rounded pl) by lia.
    replace (p + (8 + rounded pl)) with (p + 8 + rounded pl) by lia.
    cbn [orb]. unfold frame_lossy.
    pose proof (first_subchunk_kind (f_image f)) as Hk.
    destruct (M.from_fourcc (fst (first_subchunk (f_image f)))), (f_image f); try discriminate Hk; reflexivity.
Qed.

(* ---------------------------------------------------------------------------------------------- *)
(* the whole loop                                                                                   *)
(* ---------------------------------------------------------------------------------------------- *)
Lemma chunk_bytes_nonempty c : chunk_ok c = true -> 8 <= len (chunk_bytes c).
Proof. intros H. rewrite (len_chunk_bytes c H). pose proof (rounded_bounds _ (len_nonneg (chunk_payload c))). pose proof (len_nonneg (chunk_payload c)). lia. Qed.

Lemma forallb_cons {A} (f : A -> bool) a l : forallb f (a :: l) = f a && forallb f l.
Proof. reflexivity. Qed.

Lemma scan_chunks : forall cs fuel d maxp p st,
  at_pos d p (concat (map chunk_bytes cs)) -> p + len (concat (map chunk_bytes cs)) = len d ->
  forallb chunk_ok cs = true -> len d <= 4294967294 -> len d < maxp -> (length cs < fuel)%nat ->
  M.s_rpos st = p -> M.s_position st = p -> 0 <= M.s_num_frames st <= p ->
  M.scan fuel d maxp st = Ok (scan_spec p cs st).
Proof.
  induction cs as [|c cs IH]; intros fuel d maxp p st Hat Hend Hok Hd Hmax Hfuel Hr Hp Hn.
  - destruct fuel as [|fuel]; [inversion Hfuel|]. cbn [M.scan scan_spec].
    cbn [map concat] in Hend. rewrite len_nil in Hend.
    rewrite Hp. destruct (p <? maxp) eqn:E; [| apply Z.ltb_ge in E; lia].
    unfold M.scan_body. rewrite Hr. rewrite read_chunk_header_eof by lia. reflexivity.
  - destruct fuel as [|fuel]; [inversion Hfuel|]. cbn [M.scan scan_spec].
    cbn [map concat] in Hat, Hend. rewrite forallb_cons, andb_true_iff in Hok. destruct Hok as [Hc Hcs].
    rewrite len_app in Hend. pose proof (len_nonneg (concat (map chunk_bytes cs))) as Hl0.
    pose proof (chunk_bytes_nonempty c Hc) as Hc8.
    rewrite Hp. destruct (p <? maxp) eqn:E; [| apply Z.ltb_ge in E; lia].
    rewrite (scan_body_step d p c _ st Hat Hc Hd Hr Hp Hn).
    apply IH.
    + apply at_pos_app_r in Hat. exact Hat.
    + lia.
    + exact Hcs.
    + exact Hd.
    + exact Hmax.
    + cbn [length] in Hfuel. lia.
    + unfold step_spec. rewrite (len_chunk_bytes c Hc). destruct (chunk_frame c); cbn [M.s_rpos]; lia.
    + unfold step_spec. rewrite (len_chunk_bytes c Hc). destruct (chunk_frame c); cbn [M.s_position]; lia.
    + unfold step_spec. destruct (chunk_frame c); cbn [M.s_num_frames]; lia.
Qed.

Lemma length_chunks_le cs : forallb chunk_ok cs = true -> (length cs <= length (concat (map chunk_bytes cs)))%nat.
Proof.
  induction cs as [|c cs IH]; intros H; [cbn; lia|].
  rewrite forallb_cons, andb_true_iff in H. destruct H as [Hc Hcs].
  cbn [map concat length]. rewrite app_length. specialize (IH Hcs).
  pose proof (chunk_bytes_nonempty c Hc) as H8. unfold len in H8. lia.
Qed.

(* ---------------------------------------------------------------------------------------------- *)
(* what the fold computes                                                                           *)
(* ---------------------------------------------------------------------------------------------- *)
Definition frames_of (cs : list chunk) : list frame :=
  flat_map (fun k => match k with CANMF f => [f] | _ => [] end) cs.
Definition sum (l : list Z) : Z := fold_right Z.add 0 l.

Lemma frames_of_cons c cs : frames_of (c :: cs) = match chunk_frame c with Some f => f :: frames_of cs | None => frames_of cs end.
Proof. destruct c; reflexivity. Qed.

Lemma scan_spec_num_frames cs : forall p st,
  M.s_num_frames (scan_spec p cs st) = M.s_num_frames st + len (frames_of cs).
Proof.
  induction cs as [|c cs IH]; intros p st; cbn [scan_spec].
  - cbn. lia.
  - rewrite IH, frames_of_cons. unfold step_spec. destruct (chunk_frame c); cbn [M.s_num_frames]; rewrite ?len_cons; lia.
Qed.

Lemma scan_spec_is_lossy cs : forall p st,
  M.s_is_lossy (scan_spec p cs st) = M.s_is_lossy st || existsb frame_lossy (frames_of cs).
Proof.
  induction cs as [|c cs IH]; intros p st; cbn [scan_spec].
  - cbn. rewrite orb_false_r. reflexivity.
  - rewrite IH, frames_of_cons. unfold step_spec. destruct (chunk_frame c); cbn [M.s_is_lossy existsb].
    + rewrite orb_assoc. reflexivity.
    + reflexivity.
Qed.

Lemma scan_spec_duration cs : forall p st,
  0 <= M.s_loop_duration st -> Forall (fun f => 0 <= f_duration f) (frames_of cs) ->
  M.s_loop_duration st + sum (map f_duration (frames_of cs)) < 18446744073709551616 ->
  M.s_loop_duration (scan_spec p cs st) = M.s_loop_duration st + sum (map f_duration (frames_of cs)).
Proof.
  induction cs as [|c cs IH]; intros p st H0 Hall Hb; cbn [scan_spec].
  - cbn. lia.
  - rewrite frames_of_cons in Hall, Hb |- *. unfold step_spec.
    destruct (chunk_frame c) as [f|].
    + inversion Hall as [|? ? Hf Hall']; subst. cbn [map sum fold_right] in Hb |- *.
      assert (0 <= sum (map f_duration (frames_of cs))).
      { clear -Hall'. induction Hall'; cbn [map sum fold_right]; [lia|]. unfold sum in IHHall'. lia. }
      rewrite IH; cbn [M.s_loop_duration].
      * rewrite Z.mod_small by (unfold sum in *; lia). unfold sum. lia.
      * apply Z.mod_pos_bound. lia.
      * exact Hall'.
      * rewrite Z.mod_small by (unfold sum in *; lia). unfold sum in *. lia.
    + rewrite IH; cbn [M.s_loop_duration]; auto.
Qed.

(* assoc-list facts *)
Lemma lookup_app_one K m k r :
  M.lookup K (m ++ [(k, r)]) = match M.lookup K m with Some x => Some x | None => if M.kind_eqb K k then Some r else None end.
Proof.
  induction m as [|[k' r'] m IH]; cbn [app M.lookup]; [reflexivity|].
  destruct (M.kind_eqb K k'); [reflexivity | exact IH].
Qed.

Lemma lookup_or_insert K k r m :
  M.lookup K (M.or_insert k r m)
  = match M.lookup K m with Some x => Some x | None => if M.kind_eqb K k then Some r else None end.
Proof.
  unfold M.or_insert, M.contains_key. destruct (M.lookup k m) eqn:E.
  - destruct (M.lookup K m) eqn:E2; [reflexivity|].
    destruct (M.kind_eqb K k) eqn:E3; [|reflexivity]. apply kind_eqb_eq in E3. subst K. congruence.
  - apply lookup_app_one.
Qed.

(* the first chunk of kind K (a kind the decoder knows) and its payload range *)
Fixpoint first_range (K : M.chunk_kind) (p : Z) (cs : list chunk) : option (Z * Z) :=
  match cs with
  | [] => None
  | c :: cs' =>
      if negb (M.is_unknown (ckind c)) && M.kind_eqb K (ckind c)
      then Some (p + 8, p + 8 + len (chunk_payload c))
      else first_range K (p + len (chunk_bytes c)) cs'
  end.

Lemma scan_spec_lookup K cs : forall p st,
  M.lookup K (M.s_chunks (scan_spec p cs st))
  = match M.lookup K (M.s_chunks st) with Some x => Some x | None => first_range K p cs end.
Proof.
  induction cs as [|c cs IH]; intros p st; cbn [scan_spec first_range].
  - destruct (M.lookup K (M.s_chunks st)); reflexivity.
  - rewrite IH.
    assert (E : M.s_chunks (step_spec p c st)
                = if negb (M.is_unknown (ckind c)) then M.or_insert (ckind c) (p + 8, p + 8 + len (chunk_payload c)) (M.s_chunks st)
                  else M.s_chunks st).
    { unfold step_spec. destruct (chunk_frame c); reflexivity. }
    rewrite E. destruct (negb (M.is_unknown (ckind c))) eqn:Eu; cbn [andb].
    + rewrite lookup_or_insert. destruct (M.lookup K (M.s_chunks st)); [reflexivity|].
      destruct (M.kind_eqb K (ckind c)); reflexivity.
    + reflexivity.
Qed.

(* in terms of the specification's [find] *)
Definition kind_pred (K : M.chunk_kind) (c : chunk) : bool :=
  negb (M.is_unknown (ckind_expected c)) && M.kind_eqb K (ckind_expected c).

Lemma first_range_find K cs : forall p d,
  forallb chunk_ok cs = true -> at_pos d p (concat (map chunk_bytes cs)) ->
  match first_range K p cs with
  | Some (s, e) => exists c, find (kind_pred K) cs = Some c /\ at_pos d s (chunk_payload c) /\ e = s + len (chunk_payload c) /\ 8 <= s
  | None => find (kind_pred K) cs = None
  end.
Proof.
  induction cs as [|c cs IH]; intros p d Hok Hat; cbn [first_range find]; [reflexivity|].
  rewrite forallb_cons, andb_true_iff in Hok. destruct Hok as [Hc Hcs].
  unfold kind_pred at 1 3. rewrite <- (ckind_spec c Hc).
  cbn [map concat] in Hat.
  destruct (negb (M.is_unknown (ckind c)) && M.kind_eqb K (ckind c)) eqn:E.
  - exists c. split; [reflexivity|].
    unfold chunk_bytes in Hat. destruct (ser_chunk_header d p _ _ _ Hat (chunk_cc_len c Hc)) as (_ & Hpay & _).
    destruct (at_pos_bound _ _ _ Hat) as [Hp0 _]. repeat split; [exact Hpay | lia].
  - apply IH; [exact Hcs|]. apply at_pos_app_r in Hat. exact Hat.
Qed.

(* ---------------------------------------------------------------------------------------------- *)
(* every serialised byte is a byte                                                                  *)
(* ---------------------------------------------------------------------------------------------- *)
Lemma all_bytes_app a b : all_bytes (a ++ b) = all_bytes a && all_bytes b.
Proof. apply forallb_app. Qed.

Lemma is_byte_mod x : is_byte (x mod 256) = true.
Proof. unfold is_byte. apply andb_true_iff. split; apply Z.leb_le; lia. Qed.

Lemma is_byte_range x : 0 <= x <= 255 -> is_byte x = true.
Proof. intros H. unfold is_byte. apply andb_true_iff. split; apply Z.leb_le; lia. Qed.

Lemma all_bytes_le16 v : all_bytes (le16 v) = true.
Proof. unfold le16, all_bytes. cbn [forallb]. rewrite !is_byte_mod. reflexivity. Qed.
Lemma all_bytes_le24 v : all_bytes (le24 v) = true.
Proof. unfold le24, all_bytes. cbn [forallb]. rewrite !is_byte_mod. reflexivity. Qed.
Lemma all_bytes_le32 v : all_bytes (le32 v) = true.
Proof. unfold le32, all_bytes. cbn [forallb]. rewrite !is_byte_mod. reflexivity. Qed.

Lemma all_bytes_pad p : all_bytes (pad p) = true.
Proof. unfold pad. destruct (Z.odd (len p)); reflexivity. Qed.

Lemma all_bytes_ser_chunk cc p : all_bytes cc = true -> all_bytes p = true -> all_bytes (ser_chunk cc p) = true.
Proof.
  intros H1 H2. unfold ser_chunk. rewrite !all_bytes_app, H1, H2, all_bytes_le32, all_bytes_pad. reflexivity.
Qed.

Lemma all_bytes_single x : 0 <= x <= 255 -> all_bytes [x] = true.
Proof. intros H. unfold all_bytes. cbn [forallb]. rewrite is_byte_range by exact H. reflexivity. Qed.

Lemma all_bytes_vp8 v : vp8_ok v = true -> all_bytes (vp8_bytes v) = true.
Proof.
  unfold vp8_ok. rewrite !andb_true_iff. intros (_ & Hr).
  unfold vp8_bytes. rewrite !all_bytes_app, all_bytes_le24, !all_bytes_le16, Hr. reflexivity.
Qed.

Lemma all_bytes_vp8l l : vp8l_ok l = true -> all_bytes (vp8l_bytes l) = true.
Proof.
  unfold vp8l_ok. rewrite !andb_true_iff. intros (_ & Hr).
  unfold vp8l_bytes. rewrite !all_bytes_app, all_bytes_le32, Hr. reflexivity.
Qed.

Lemma all_bytes_alph a : alph_ok a = true -> all_bytes (alph_bytes a) = true.
Proof.
  unfold alph_ok. rewrite !andb_true_iff. intros (((H1 & H2) & H3) & Hr).
  apply in_range_true in H1, H2, H3.
  unfold alph_bytes. rewrite all_bytes_app, Hr, all_bytes_single by lia. reflexivity.
Qed.

Lemma all_bytes_unknown u : unknown_ok u = true -> all_bytes (unknown_bytes u) = true.
Proof.
  rewrite unknown_ok_eq, andb_true_iff. intros [H1 H2]. unfold unknown_bytes. apply all_bytes_ser_chunk; [|exact H2].
  unfold is_unknown_cc in H1. rewrite !andb_true_iff in H1. tauto.
Qed.

Lemma all_bytes_concat {A} (f : A -> list Z) (ok : A -> bool) l :
  (forall a, ok a = true -> all_bytes (f a) = true) -> forallb ok l = true -> all_bytes (concat (map f l)) = true.
Proof.
  intros Hf. induction l as [|a l IH]; intros H; [reflexivity|].
  rewrite forallb_cons, andb_true_iff in H. destruct H as [Ha Hl].
  cbn [map concat]. rewrite all_bytes_app, (Hf a Ha), (IH Hl). reflexivity.
Qed.

Lemma all_bytes_image i : image_ok i = true -> all_bytes (image_bytes i) = true.
Proof.
  destruct i as [[a|] v | l]; cbn [image_ok image_bytes]; intros H.
  - rewrite andb_true_iff in H. destruct H as [Ha Hv].
    rewrite all_bytes_app, !all_bytes_ser_chunk; auto using all_bytes_alph, all_bytes_vp8.
  - apply all_bytes_ser_chunk; auto using all_bytes_vp8.
  - apply all_bytes_ser_chunk; auto using all_bytes_vp8l.
Qed.

Lemma b2z_01 b : 0 <= b2z b <= 1.
Proof. destruct b; cbn; lia. Qed.

Lemma all_bytes_frame f : frame_ok f = true -> all_bytes (frame_payload f) = true.
Proof.
  unfold frame_ok. rewrite !andb_true_iff. intros (((((((Hx & Hy) & Hw) & Hh) & Hd) & Hr) & Hi) & Hu).
  apply in_range_true in Hr. pose proof (b2z_01 (f_noblend f)). pose proof (b2z_01 (f_dispose f)).
  unfold frame_payload. rewrite !all_bytes_app, !all_bytes_le24, all_bytes_single by lia.
  rewrite (all_bytes_image _ Hi). rewrite (all_bytes_concat unknown_bytes unknown_ok _ all_bytes_unknown Hu). reflexivity.
Qed.

Lemma all_bytes_chunk c : chunk_ok c = true -> all_bytes (chunk_bytes c) = true.
Proof.
  intros H. unfold chunk_bytes. destruct c as [q|q|q|bg lp|f|a|v|l|u]; cbn [chunk_ok chunk_cc chunk_payload] in *.
  - apply all_bytes_ser_chunk; [reflexivity | exact H].
  - apply all_bytes_ser_chunk; [reflexivity | exact H].
  - apply all_bytes_ser_chunk; [reflexivity | exact H].
  - rewrite !andb_true_iff in H. destruct H as [[_ Hb] _].
    apply all_bytes_ser_chunk; [reflexivity|]. rewrite all_bytes_app, Hb, all_bytes_le16. reflexivity.
  - apply all_bytes_ser_chunk; [reflexivity | apply all_bytes_frame; exact H].
  - apply all_bytes_ser_chunk; [reflexivity | apply all_bytes_alph; exact H].
  - apply all_bytes_ser_chunk; [reflexivity | apply all_bytes_vp8; exact H].
  - apply all_bytes_ser_chunk; [reflexivity | apply all_bytes_vp8l; exact H].
  - apply all_bytes_unknown. exact H.
Qed.

Lemma all_bytes_at d p x : all_bytes d = true -> at_pos d p x -> all_bytes x = true.
Proof.
  intros Hd (pre & post & -> & _). rewrite !all_bytes_app, !andb_true_iff in Hd. tauto.
Qed.
