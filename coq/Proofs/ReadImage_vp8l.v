(* Glue of read_image, part 3: the two frame theorems of property C01 (Proofs/C01_top.v) in the form the glue needs --
   with the length of the decoded pixel list (= the length of the buffer handed to LosslessDecoder::decode_frame). *)
From Coq Require Import ZArith NArith List Bool Lia.
From WebP Require Import Lib.Res Lib.Arr Lib.ZBits
  Model.LosslessLib Model.BitReader Model.Huffman Model.LosslessTransform Model.Lossless
  Proofs.Lossless_BitReader Proofs.C04_bits
  Proofs.C01_stream Proofs.C01_codes Proofs.C01_pixlib Proofs.C01_pixels Proofs.C01_groups Proofs.C01_gspec Proofs.C01_final Proofs.C01_top.
From WebP Require Proofs.C01T_repr Proofs.C01T_index Proofs.C01_frame.
Import ListNotations.
Open Scope Z_scope.

Theorem decode_frame_spec_length data sched W h buf pixels : Forall byte data -> Z.of_nat (length buf) = 4 * (W * h) ->
  V.decode_rgba data = Some (W, h, pixels) -> codes_in_format data ->
  (forall s0, V.read_header (V.Stream [] data) = Some (W, h, s0) -> in_format W h s0) ->
  decode_frame data sched W h false buf = Ok pixels /\ length pixels = length buf.
Proof.
  intros Hb Hl E Hc Hf. unfold codes_in_format in Hc. rewrite E in Hc.
  destruct (strict_decode_rgba data) as [x|] eqn:Es; [|contradiction].
  pose proof (strict_decode_rgba_sound _ _ Es) as E'. rewrite E in E'. injection E' as <-.
  unfold strict_decode_rgba, g_decode_rgba in Es.
  destruct (g_decode SE SS data) as [[[w' h'] px]|] eqn:Ed; [|discriminate].
  assert (w' = W /\ h' = h /\ pixels = V.rgba_bytes px) as (-> & -> & ->) by (repeat split; congruence).
  assert (Hl' : zlen (of_list buf) = 4 * (W * h)) by (rewrite C01T_index.zlen_of_list; exact Hl).
  destruct (F.decode_frame_refines_spec SE SS rel rel_init read_bits_refines P3_strict data sched W h (of_list buf) px Hb Hl' Ed Hf)
    as (out & E1 & L & O).
  unfold decode_frame. rewrite E1. cbn [bind]. rewrite O. split; [reflexivity|].
  rewrite <- O, zto_list_length. rewrite C01T_index.zlen_of_list in L. unfold zlen in L. lia.
Qed.

Theorem decode_frame_implicit_spec_length data sched W h buf pixels : Forall byte data -> Z.of_nat (length buf) = 4 * (W * h) ->
  V.decode_implicit_rgba W h data = Some pixels -> codes_in_format_implicit W h data -> in_format W h (V.Stream [] data) ->
  decode_frame data sched W h true buf = Ok pixels /\ length pixels = length buf.
Proof.
  intros Hb Hl E Hc Hf. unfold codes_in_format_implicit in Hc. rewrite E in Hc.
  destruct (strict_decode_implicit_rgba W h data) as [x|] eqn:Es; [|contradiction].
  pose proof (strict_decode_implicit_rgba_sound _ _ _ _ Es) as E'. rewrite E in E'. injection E' as <-.
  unfold strict_decode_implicit_rgba, g_decode_implicit_rgba in Es.
  destruct (g_decode_implicit SE SS W h data) as [px|] eqn:Ed; [|discriminate].
  assert (pixels = V.rgba_bytes px) as -> by congruence.
  assert (Hl' : zlen (of_list buf) = 4 * (W * h)) by (rewrite C01T_index.zlen_of_list; exact Hl).
  destruct (F.decode_frame_implicit_refines_spec SE SS rel rel_init read_bits_refines P3_strict data sched W h (of_list buf) px Hb Hl' Ed Hf)
    as (out & E1 & L & O).
  unfold decode_frame. rewrite E1. cbn [bind]. rewrite O. split; [reflexivity|].
  rewrite <- O, zto_list_length. rewrite C01T_index.zlen_of_list in L. unfold zlen in L. lia.
Qed.

(* for every payload: Ok or Err, never a panic, never out of fuel (C03: RS.frame_safe / RS.frame_implicit_safe), on lists *)
Theorem decode_frame_safe data sched W h buf : Forall byte data -> Z.of_nat (length buf) = 4 * (W * h) ->
  (exists p, decode_frame data sched W h false buf = Ok p) \/ (exists e, decode_frame data sched W h false buf = Err e).
Proof.
  intros Hb Hl.
  assert (Hl' : zlen (of_list buf) = 4 * (W * h)) by (rewrite C01T_index.zlen_of_list; exact Hl).
  destruct (decode_frame_no_panic data sched W h (of_list buf) Hb Hl') as [Hp Hf].
  unfold decode_frame.
  destruct (decode_frame_arr data sched W h false (of_list buf)) as [o|e|q|] eqn:E; cbn [bind].
  - left. eexists. reflexivity.
  - right. eexists. reflexivity.
  - exfalso. exact (Hp q eq_refl).
  - exfalso. exact (Hf eq_refl).
Qed.

Theorem decode_frame_implicit_safe data sched W h buf : Forall byte data -> Z.of_nat (length buf) = 4 * (W * h) ->
  1 <= W <= 16384 -> 1 <= h <= 16384 ->
  (exists p, decode_frame data sched W h true buf = Ok p) \/ (exists e, decode_frame data sched W h true buf = Err e).
Proof.
  intros Hb Hl HW Hh.
  assert (Hl' : zlen (of_list buf) = 4 * (W * h)) by (rewrite C01T_index.zlen_of_list; exact Hl).
  destruct (decode_frame_implicit_no_panic data sched W h (of_list buf) Hb Hl' HW Hh) as [Hp Hf].
  unfold decode_frame.
  destruct (decode_frame_arr data sched W h true (of_list buf)) as [o|e|q|] eqn:E; cbn [bind].
  - left. eexists. reflexivity.
  - right. eexists. reflexivity.
  - exfalso. exact (Hp q eq_refl).
  - exfalso. exact (Hf eq_refl).
Qed.
