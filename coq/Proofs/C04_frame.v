(* C04 layer L6: header, transform descriptions, prefix-code group, and the composition of all layers into the
   round-trip theorem  Spec.VP8L.decode (bytes written by Model.Encoder.encode_frame) = the input pixels. *)
From Coq Require Import ZArith NArith List Bool Lia.
From WebP Require Import Lib.Res Lib.Arr Lib.ZBits Gen.Kernels Model.EncoderHeap Model.Encoder
  Proofs.Huffman_lists Proofs.Huffman_ok Proofs.Encoder_bitwriter Proofs.Encoder_runs
  Proofs.C04_bits Proofs.C04_prefix Proofs.C04_codedesc Proofs.C04_arr Proofs.C04_tokens Proofs.C04_hist
  Proofs.C04_transforms Proofs.C04_predictor Proofs.C04_pixels.
From WebP Require Spec.VP8L.
Import ListNotations.
Open Scope Z_scope.

(* ------------------------------------------------------------------------------------------------ *)
(** * computations that end with flush *)
Definition closes (m : M bitwriter unit) (bs : list bool) : Prop :=
  forall w acc tot, binv w acc tot -> 0 <= tot ->
    exists w', m w = (w', Ok tt)
      /\ sink_bytes (bw_sink w') = le_bytes (Z.to_nat ((tot + zlen bs + 7) / 8)) (acc + bits_val bs * 2 ^ tot).

Lemma closes_flush : closes flush [].
Proof.
  intros w acc tot I Ht. destruct (flush_ok w acc tot I) as [w' [E Hb]]. exists w'. split; [exact E|].
  rewrite Hb. cbn [bits_val]. change (zlen (@nil bool)) with 0. rewrite Z.mul_0_l, !Z.add_0_r. reflexivity.
Qed.

Lemma closes_bind {A} (m : M bitwriter A) (f : A -> M bitwriter unit) b1 b2 a :
  emits m b1 a -> closes (f a) b2 -> closes (mbind m f) (b1 ++ b2).
Proof.
  intros H1 H2 w acc tot I Ht.
  destruct (H1 w acc tot I Ht) as [w1 [E1 I1]]. pose proof (zlen_nonneg b1) as Hl1.
  destruct (H2 w1 _ _ I1 ltac:(lia)) as [w2 [E2 Hb]].
  exists w2. unfold mbind. rewrite E1. split; [exact E2|]. rewrite Hb, bits_val_app, zlen_app. f_equal; [f_equal; f_equal; lia|].
  rewrite (Z.pow_add_r 2 tot) by lia. ring.
Qed.

Lemma closes_seq (m : M bitwriter unit) (m2 : M bitwriter unit) b1 b2 :
  emits m b1 tt -> closes m2 b2 -> closes (mbind m (fun _ => m2)) (b1 ++ b2).
Proof. intros H1 H2. apply (closes_bind m (fun _ => m2) b1 b2 tt H1 H2). Qed.

Lemma closes_lift_bind {A} (r : res A) a (f : A -> M bitwriter unit) bs :
  r = Ok a -> closes (f a) bs -> closes (mbind (lift r) f) bs.
Proof. intros -> H. exact H. Qed.

Lemma closes_run m bs : closes m bs ->
  exists w' pad, m (new_bitwriter (new_sink (-1))) = (w', Ok tt)
    /\ sbits (V.Stream [] (sink_bytes (bw_sink w'))) = bs ++ repeat false pad
    /\ zlen (sink_bytes (bw_sink w')) = (zlen bs + 7) / 8.
Proof.
  intros H. destruct (H _ 0 0 binv_init ltac:(lia)) as [w1 [E1 Hb]].
  pose proof (zlen_nonneg bs) as Hl.
  set (k := Z.to_nat ((0 + zlen bs + 7) / 8)) in *.
  exists w1, (8 * k - length bs)%nat. split; [exact E1|].
  split; [|rewrite Hb; unfold zlen at 1; rewrite le_bytes_length; unfold k; rewrite Z2Nat.id by (apply Z.div_pos; lia); f_equal; lia].
  rewrite Hb, sbits_le_bytes. change (2 ^ 0) with 1. rewrite Z.mul_1_r, Z.add_0_l.
  rewrite <- bits_of_bits_val. f_equal. unfold zlen in *. unfold k. lia.
Qed.

(* ------------------------------------------------------------------------------------------------ *)
(** * an image whose five codes are bare leaves: every pixel is the same colour and costs no bits *)
Section ConstImage.
  Variables (cw chh v r b a d : Z).
  Hypothesis Hv : 0 <= v < 256.
  Hypothesis Hdim : 1 <= cw * chh.
  Let g : V.group := {| V.g_green := V.Symbol v; V.g_red := V.Symbol r; V.g_blue := V.Symbol b;
                        V.g_alpha := V.Symbol a; V.g_dist := V.Symbol d |}.
  Let cim : V.image_info := {| V.xsize := cw; V.ysize := chh; V.cache_bits := 0; V.groups := [g]; V.meta := None |}.
  Let col := V.argb a r v b.
  Let cfin (st : V.state) : bool := cw * chh <=? V.pos st.

  Lemma const_step st : V.decode_step cim st = Some (V.emit cim col (V.with_input st (V.input st))).
  Proof.
    unfold V.decode_step. change (V.group_at cim (V.pos st mod V.xsize cim) (V.pos st / V.xsize cim)) with (Some g).
    cbv beta iota zeta. cbn [V.g_green V.g_red V.g_blue V.g_alpha g V.read_symbol].
    replace (v <? 256) with true by (symmetry; apply Z.ltb_lt; lia). reflexivity.
  Qed.

  Lemma const_reach : forall n st, 0 <= V.pos st -> V.pos st + Z.of_nat n <= cw * chh ->
    exists st', reach cfin (V.decode_step cim) n st st' /\ V.pos st' = V.pos st + Z.of_nat n /\ V.input st' = V.input st
      /\ alen (V.pixels st') = alen (V.pixels st)
      /\ forall j, 0 <= j -> V.pix (V.pixels st') j = if (V.pos st <=? j) && (j <? V.pos st + Z.of_nat n) then col else V.pix (V.pixels st) j.
  Proof.
    induction n as [|n IH]; intros st Hp Hn.
    - exists st. split; [reflexivity|]. split; [lia|]. split; [reflexivity|]. split; [reflexivity|]. intros j Hj.
      replace ((V.pos st <=? j) && (j <? V.pos st + Z.of_nat 0)) with false; [reflexivity|].
      symmetry. apply andb_false_iff. destruct (V.pos st <=? j) eqn:E; [right; apply Z.ltb_ge; apply Z.leb_le in E; lia | left; reflexivity].
    - set (st1 := V.emit cim col (V.with_input st (V.input st))).
      destruct (IH st1 ltac:(cbn; lia) ltac:(cbn [st1 V.emit V.pos V.with_input]; lia)) as [st' [Hr [Hp' [Hi' [Hl' Hx']]]]].
      exists st'. split; [|split; [|split; [|split]]].
      + cbn [reach]. split; [unfold cfin; apply Z.leb_gt; lia|]. exists st1. split; [apply const_step | exact Hr].
      + rewrite Hp'. cbn [st1 V.emit V.pos V.with_input]. lia.
      + rewrite Hi'. reflexivity.
      + rewrite Hl'. reflexivity.
      + intros j Hj. rewrite Hx' by exact Hj. cbn [st1 V.emit V.pos V.pixels V.with_input].
        rewrite pix_set_pix by lia.
        destruct (V.pos st =? j) eqn:Ej.
        * apply Z.eqb_eq in Ej. subst j.
          replace ((V.pos st + 1 <=? V.pos st) && (V.pos st <? V.pos st + 1 + Z.of_nat n)) with false
            by (symmetry; apply andb_false_iff; left; apply Z.leb_gt; lia).
          replace ((V.pos st <=? V.pos st) && (V.pos st <? V.pos st + Z.of_nat (S n))) with true
            by (symmetry; apply andb_true_iff; split; [apply Z.leb_le | apply Z.ltb_lt]; lia). reflexivity.
        * apply Z.eqb_neq in Ej.
          replace ((V.pos st + 1 <=? j) && (j <? V.pos st + 1 + Z.of_nat n)) with ((V.pos st <=? j) && (j <? V.pos st + Z.of_nat (S n))); [reflexivity|].
          destruct (V.pos st <=? j) eqn:E1; destruct (V.pos st + 1 <=? j) eqn:E2; cbn [andb]; try reflexivity.
          -- f_equal. lia.
          -- apply Z.leb_le in E1. apply Z.leb_gt in E2. lia.
          -- apply Z.leb_gt in E1. apply Z.leb_le in E2. lia.
  Qed.

  Lemma const_image_decode s : exists arr, V.decode_pixels cim s = Some (arr, s)
    /\ forall j, 0 <= j < cw * chh -> V.pix arr j = col.
  Proof.
    unfold V.decode_pixels. cbv zeta. cbn [V.xsize V.ysize V.cache_bits cim].
    set (st0 := {| V.pos := 0; V.pixels := amake (Z.to_N (cw * chh)); V.cache := amake (Z.to_N (2 ^ 0)); V.input := s |}).
    destruct (const_reach (Z.to_nat (cw * chh)) st0 ltac:(cbn; lia) ltac:(cbn [V.pos st0]; lia)) as [st' [Hr [Hp' [Hi' [_ Hx']]]]].
    cbn [V.pos V.input st0] in Hp', Hi'. rewrite Z2Nat.id in Hp' by lia.
    destruct (run_reach cfin (V.decode_step cim) (Z.to_pos (cw * chh))) as [RA _].
    assert (Hrun : V.run cfin (V.decode_step cim) (Z.to_pos (cw * chh)) st0 = Some st').
    { apply (RA (Z.to_nat (cw * chh)) st0 st').
      - rewrite <- Z2Nat.inj_pos, Z2Pos.id by lia. lia.
      - exact Hr.
      - unfold cfin. rewrite Hp'. apply Z.leb_le. lia. }
    unfold cfin in Hrun. rewrite Hrun. rewrite Hp'. replace (cw * chh <=? 0 + cw * chh) with true by (symmetry; apply Z.leb_le; lia).
    exists (V.pixels st'). split; [rewrite Hi'; reflexivity|]. intros j Hj. rewrite Hx' by lia.
    cbn [V.pos st0]. rewrite Z2Nat.id by lia.
    replace ((0 <=? j) && (j <? 0 + cw * chh)) with true by (symmetry; apply andb_true_iff; split; [apply Z.leb_le | apply Z.ltb_lt]; lia).
    reflexivity.
  Qed.
End ConstImage.

(* ------------------------------------------------------------------------------------------------ *)
(** * the transform descriptions *)
Definition tfbits (p : bool) : list bool :=
  if p then bits_of 6 57 ++ bits_of 1 0 ++ se_bits 2 ++ se_bits 0 ++ se_bits 0 ++ se_bits 0 ++ se_bits 0 ++ [] else [].

Lemma wb_emits v (n : nat) : (n <= 64)%nat -> 0 <= v < 2 ^ Z.of_nat n -> emits (write_bits v (Z.of_nat n)) (bits_of n v) tt.
Proof. apply write_bits_emits_nat. Qed.

Lemma transform_desc_emits (p : bool) :
  emits (if p then mbind (write_bits 57 6) (fun _ => mbind (write_bits 0 1) (fun _ =>
                   mbind (write_single_entry_huffman_tree 2) (fun _ => repeat_m 4 (write_single_entry_huffman_tree 0))))
         else ret tt) (tfbits p) tt.
Proof.
  destruct p; cbn [tfbits]; [|apply emits_ret].
  apply emits_seq; [apply (wb_emits 57 6); [lia | change (2 ^ Z.of_nat 6) with 64; lia]|].
  apply emits_seq; [apply (wb_emits 0 1); [lia | change (2 ^ Z.of_nat 1) with 2; lia]|].
  apply emits_seq; [apply (single_entry_explicit 2 256); lia|].
  cbn [repeat_m].
  pose proof (proj1 (single_entry_explicit 0 256 ltac:(lia) ltac:(lia))) as H0.
  apply emits_seq; [exact H0|]. apply emits_seq; [exact H0|]. apply emits_seq; [exact H0|]. apply emits_seq; [exact H0|].
  apply emits_ret.
Qed.

Definition modes_ok (w h : Z) (modes : arr) : Prop := forall x y, 0 <= x < w -> 0 <= y < h ->
  V.pix modes (Z.shiftr y 9 * V.DIV_ROUND_UP w (2 ^ 9) + Z.shiftr x 9) = V.argb 0 0 2 0.
Definition ts_ok (p : bool) (w h : Z) (ts : list V.transform) : Prop :=
  if p then exists modes, ts = [V.SubtractGreen; V.Predictor w 9 modes] /\ modes_ok w h modes else ts = [V.SubtractGreen].

Lemma read_transforms_S k seen w h s :
  V.read_transforms (S k) seen w h s =
  match V.read_bits 1 s with
  | Some (present, s) =>
    if present =? 0 then Some ([], w, s) else
    match V.read_bits 2 s with
    | Some (type, s) =>
      if existsb (Z.eqb type) seen then None else
      match V.read_transform type w h s with
      | Some (t, w1, s) =>
        match V.read_transforms k (type :: seen) w1 h s with
        | Some (ts, w2, s) => Some (t :: ts, w2, s)
        | None => None
        end
      | None => None
      end
    | None => None
    end
  | None => None
  end.
Proof. reflexivity. Qed.

Lemma b1 v : 0 <= v < 2 -> 0 <= v < 2 ^ Z.of_nat 1. Proof. change (2 ^ Z.of_nat 1) with 2. auto. Qed.

Lemma transforms_parse (p : bool) w h s rest : 1 <= w -> 1 <= h ->
  sbits s = bits_of 3 5 ++ tfbits p ++ bits_of 1 0 ++ rest ->
  exists ts s', V.read_transforms 4 [] w h s = Some (ts, w, s') /\ sbits s' = rest /\ ts_ok p w h ts.
Proof.
  intros Hw Hh Hs. rewrite read_transforms_S.
  change (bits_of 3 5) with (bits_of 1 1 ++ bits_of 2 2) in Hs. rewrite <- app_assoc in Hs.
  pstep (read_bits_parses 1 1 (b1 1 ltac:(lia))) Hs. change (1 =? 0) with false. cbv iota.
  pstep (read_bits_parses 2 2 ltac:(change (2 ^ Z.of_nat 2) with 4; lia)) Hs. cbn [existsb]. cbv iota.
  change (V.read_transform 2 w h s1) with (Some (V.SubtractGreen, w, s1)). cbv iota beta.
  rewrite read_transforms_S.
  destruct p; cbn [tfbits] in Hs.
  - change (bits_of 6 57) with (bits_of 1 1 ++ bits_of 2 0 ++ bits_of 3 7) in Hs. rewrite <- !app_assoc in Hs.
    pstep (read_bits_parses 1 1 (b1 1 ltac:(lia))) Hs. change (1 =? 0) with false. cbv iota.
    pstep (read_bits_parses 2 0 ltac:(change (2 ^ Z.of_nat 2) with 4; lia)) Hs.
    change (existsb (Z.eqb 0) [2]) with false. cbv iota.
    unfold V.read_transform.
    pstep (read_bits_parses 3 7 ltac:(change (2 ^ Z.of_nat 3) with 8; lia)) Hs. cbv beta iota zeta.
    change (7 + 2) with 9. unfold V.entropy_coded_image, V.read_cache_info.
    pstep (read_bits_parses 1 0 (b1 0 ltac:(lia))) Hs. change (0 =? 0) with true. cbv iota beta.
    change (V.cache_size_of 0) with 0. unfold V.read_group.
    pstep (proj2 (single_entry_explicit 2 (256 + 24 + 0) ltac:(lia) ltac:(lia))) Hs.
    pstep (proj2 (single_entry_explicit 0 256 ltac:(lia) ltac:(lia))) Hs.
    pstep (proj2 (single_entry_explicit 0 256 ltac:(lia) ltac:(lia))) Hs.
    pstep (proj2 (single_entry_explicit 0 256 ltac:(lia) ltac:(lia))) Hs.
    pstep (proj2 (single_entry_explicit 0 40 ltac:(lia) ltac:(lia))) Hs.
    set (bw := V.DIV_ROUND_UP w (2 ^ 9)). set (bh := V.DIV_ROUND_UP h (2 ^ 9)).
    assert (Hbw : 1 <= bw /\ (w - 1) / 512 < bw) by (unfold bw, V.DIV_ROUND_UP; change (2 ^ 9) with 512; lia).
    assert (Hbh : 1 <= bh /\ (h - 1) / 512 < bh) by (unfold bh, V.DIV_ROUND_UP; change (2 ^ 9) with 512; lia).
    destruct (const_image_decode bw bh 2 0 0 0 0 ltac:(lia) ltac:(nia) s10) as [modes [E Hpix]].
    cbv zeta in E. rewrite E. cbv beta iota. change (0 =? 0) with true. cbv iota.
    rewrite read_transforms_S. cbn [app] in Hs.
    pstep (read_bits_parses 1 0 (b1 0 ltac:(lia))) Hs. change (0 =? 0) with true. cbv iota.
    eexists. eexists. split; [reflexivity|]. split; [exact Hs|].
    exists modes. split; [reflexivity|]. intros x y Hx Hy. apply Hpix. fold bw.
    rewrite !Z.shiftr_div_pow2 by lia. change (2 ^ 9) with 512.
    assert (x / 512 <= (w - 1) / 512) by (apply Z.div_le_mono; lia).
    assert (y / 512 <= (h - 1) / 512) by (apply Z.div_le_mono; lia).
    assert (0 <= x / 512) by (apply Z.div_pos; lia). assert (0 <= y / 512) by (apply Z.div_pos; lia). nia.
  - cbn [app] in Hs.
    pstep (read_bits_parses 1 0 (b1 0 ltac:(lia))) Hs. change (0 =? 0) with true. cbv iota.
    eexists. eexists. split; [reflexivity|]. split; [exact Hs | reflexivity].
Qed.

(* ------------------------------------------------------------------------------------------------ *)
(** * the prefix codes of the ARGB image, channel by channel *)
Open Scope res_scope.

Lemma sym_ok_leaf v : 0 <= v < 256 -> sym_ok (V.Symbol v) (zeros 256) (zeros 256) (Z.to_nat v).
Proof.
  intros Hv. unfold sym_ok. rewrite !nth_zeros. change (2 ^ 0) with 1. split; [lia|]. split; [lia|].
  change (Z.to_nat 0) with 0%nat. cbn [bits_of]. rewrite Z2Nat.id by lia. apply read_symbol_leaf.
Qed.

Lemma tree_from_hist sorter f n B : sorter_ok sorter -> (n = 256 \/ n = 280) -> hinv (Z.to_N n) f B -> B < 2 ^ 32 ->
  (exists i, (i < 256)%nat /\ 0 < araw f (N.of_nat i)) ->
  exists bs lens codes c,
    emits (write_huffman_tree sorter (arr_to_list f)) bs (lens, codes) /\ parses (V.read_prefix_code n) bs c
    /\ length lens = Z.to_nat n /\ length codes = Z.to_nat n
    /\ (forall v, 0 <= v < n -> 0 < araw f (Z.to_N v) -> sym_ok c lens codes (Z.to_nat v))
    /\ zlen bs <= 2100.
Proof.
  intros Hsort Hn [Hal [Hnn Hsum]] HB [i [Hi Hpi]].
  assert (Hlen : length (arr_to_list f) = Z.to_nat n) by (rewrite arr_to_list_length, Hal; lia).
  destruct (write_huffman_tree_roundtrip sorter (arr_to_list f) n Hsort Hn) as [bs [lens [codes [c [Hem [Hpa [Hl [Hc [Hsym Hbl]]]]]]]]].
  - unfold zlen. rewrite Hlen. destruct Hn; lia.
  - rewrite arr_to_list_spec. apply Forall_forall. intros x Hx. apply in_map_iff in Hx. destruct Hx as [j [<- _]]. apply Hnn.
  - rewrite zsum_arr_to_list, Hal. lia.
  - exists i. split; [exact Hi|]. rewrite arr_to_list_nth by (rewrite Hal; destruct Hn; lia). exact Hpi.
  - exists bs, lens, codes, c. split; [exact Hem|]. split; [exact Hpa|]. split; [lia|]. split; [lia|]. split; [|exact Hbl].
    intros v Hv Hp. apply Hsym; [lia|]. rewrite arr_to_list_nth by (rewrite Hal; lia).
    replace (N.of_nat (Z.to_nat v)) with (Z.to_N v) by lia. exact Hp.
Qed.

Lemma color_block sorter ct f0 f2 B : sorter_ok sorter -> hinv 256 f0 B -> hinv 256 f2 B -> B < 2 ^ 32 ->
  (is_color ct = true -> (exists i, (i < 256)%nat /\ 0 < araw f0 (N.of_nat i)) /\ (exists i, (i < 256)%nat /\ 0 < araw f2 (N.of_nat i))) ->
  exists bs0 bs2 l0 c0 l2 c2 k0 k2,
    emits (if is_color ct then
             let+ '(l0, c0) := write_huffman_tree sorter (arr_to_list f0) in
             let+ '(l2, c2) := write_huffman_tree sorter (arr_to_list f2) in
             ret (l0, c0, l2, c2)
           else
             write_single_entry_huffman_tree 0 ;;
             write_single_entry_huffman_tree 0 ;;
             ret (zeros 256, zeros 256, zeros 256, zeros 256)) (bs0 ++ bs2 ++ []) (l0, c0, l2, c2)
    /\ parses (V.read_prefix_code 256) bs0 k0 /\ parses (V.read_prefix_code 256) bs2 k2
    /\ (length l0 = 256%nat /\ length c0 = 256%nat /\ length l2 = 256%nat /\ length c2 = 256%nat)
    /\ (forall v, 0 <= v < 256 -> (if is_color ct then 0 < araw f0 (Z.to_N v) else v = 0) -> sym_ok k0 l0 c0 (Z.to_nat v))
    /\ (forall v, 0 <= v < 256 -> (if is_color ct then 0 < araw f2 (Z.to_N v) else v = 0) -> sym_ok k2 l2 c2 (Z.to_nat v))
    /\ (is_color ct = false -> l0 = zeros 256 /\ l2 = zeros 256)
    /\ zlen bs0 <= 2100 /\ zlen bs2 <= 2100.
Proof.
  intros Hsort H0 H2 HB Hex. destruct (is_color ct) eqn:Ec.
  - destruct (Hex eq_refl) as [Hex0 Hex2].
    destruct (tree_from_hist sorter f0 256 B Hsort ltac:(left; reflexivity) H0 HB Hex0) as [bs0 [l0 [c0 [k0 [Em0 [Pa0 [L0 [C0 [S0 BL0]]]]]]]]].
    destruct (tree_from_hist sorter f2 256 B Hsort ltac:(left; reflexivity) H2 HB Hex2) as [bs2 [l2 [c2 [k2 [Em2 [Pa2 [L2 [C2 [S2 BL2]]]]]]]]].
    exists bs0, bs2, l0, c0, l2, c2, k0, k2.
    split; [|split; [exact Pa0|]; split; [exact Pa2|]; split; [auto|]; split; [exact S0|]; split; [exact S2|]; split; [discriminate | split; assumption]].
    eapply emits_bind; [exact Em0|]. cbv beta iota. eapply emits_bind; [exact Em2|]. cbv beta iota. apply emits_ret.
  - pose proof (single_entry_explicit 0 256 ltac:(lia) ltac:(lia)) as [Em Pa].
    exists (se_bits 0), (se_bits 0), (zeros 256), (zeros 256), (zeros 256), (zeros 256), (V.Symbol 0), (V.Symbol 0).
    split; [|split; [exact Pa|]; split; [exact Pa|]; split; [repeat split; apply zeros_length|]].
    + apply emits_seq; [exact Em|]. apply emits_seq; [exact Em | apply emits_ret].
    + split; [intros v Hv ->; apply (sym_ok_leaf 0); lia|]. split; [intros v Hv ->; apply (sym_ok_leaf 0); lia|].
      split; [auto|]. pose proof (se_bits_length 0). unfold zlen. split; lia.
Qed.

Lemma alpha_block sorter ct (p : bool) f3 B : sorter_ok sorter -> hinv 256 f3 B -> B < 2 ^ 32 ->
  (is_alpha ct = true -> exists i, (i < 256)%nat /\ 0 < araw f3 (N.of_nat i)) ->
  exists bs3 l3 c3 k3,
    emits (if is_alpha ct then write_huffman_tree sorter (arr_to_list f3)
           else if p then write_single_entry_huffman_tree 0 ;; ret (zeros 256, zeros 256)
           else write_single_entry_huffman_tree 255 ;; ret (zeros 256, zeros 256)) bs3 (l3, c3)
    /\ parses (V.read_prefix_code 256) bs3 k3
    /\ (length l3 = 256%nat /\ length c3 = 256%nat)
    /\ (forall v, 0 <= v < 256 -> (if is_alpha ct then 0 < araw f3 (Z.to_N v) else v = if p then 0 else 255) -> sym_ok k3 l3 c3 (Z.to_nat v))
    /\ (is_alpha ct = false -> l3 = zeros 256)
    /\ zlen bs3 <= 2100.
Proof.
  intros Hsort H3 HB Hex. destruct (is_alpha ct) eqn:Ea.
  - destruct (tree_from_hist sorter f3 256 B Hsort ltac:(left; reflexivity) H3 HB (Hex eq_refl)) as [bs3 [l3 [c3 [k3 [Em3 [Pa3 [L3 [C3 [S3 BL3]]]]]]]]].
    exists bs3, l3, c3, k3. split; [exact Em3|]. split; [exact Pa3|]. split; [auto|]. split; [exact S3|]. split; [discriminate | exact BL3].
  - set (a0 := if p then 0 else 255). assert (Ha0 : 0 <= a0 < 256) by (unfold a0; destruct p; lia).
    pose proof (single_entry_explicit a0 256 Ha0 ltac:(lia)) as [Em Pa].
    exists (se_bits a0 ++ []), (zeros 256), (zeros 256), (V.Symbol a0).
    split; [|split; [rewrite app_nil_r; exact Pa|]; split; [split; apply zeros_length|]].
    + unfold a0 in *. destruct p; (apply emits_seq; [exact Em | apply emits_ret]).
    + split; [intros v Hv ->; apply (sym_ok_leaf a0); exact Ha0|]. split; [auto|].
      pose proof (se_bits_length a0). unfold zlen. rewrite app_length. cbn [length]. lia.
Qed.

Lemma segments_in : forall fuel pxs sg, In sg (segments fuel pxs) -> In (fst sg) pxs.
Proof.
  induction fuel as [|fuel IH]; intros pxs sg Hin; [destruct Hin|].
  destruct pxs as [|p rest]; [destruct Hin|]. cbn [segments] in Hin.
  destruct (take_run_spec p rest 0 ltac:(lia)) as [m [rest' [E [Hrest _]]]]. rewrite E in Hin.
  destruct Hin as [<- | Hin]; [left; reflexivity|]. right. rewrite Hrest. apply in_or_app. right. apply IH. exact Hin.
Qed.

Lemma hinv_seed1 (b : bool) : hinv 256 (seed1 b 256) 1.
Proof.
  unfold seed1. split; [destruct b; reflexivity|]. split.
  - intros j. destruct b; [|unfold araw, amake; cbn [adata]; rewrite PM.gempty; lia].
    destruct (N.eq_dec j 0) as [-> | Hne]; [rewrite araw_aset'_eq; lia|].
    rewrite araw_aset'_neq by congruence. unfold araw, amake; cbn [adata]; rewrite PM.gempty; lia.
  - destruct b; vm_compute; discriminate.
Qed.

Lemma hinv_amake280 : hinv 280 (amake 280) 1.
Proof.
  split; [reflexivity|]. split; [intros j; unfold araw, amake; cbn [adata]; rewrite PM.gempty; lia | vm_compute; discriminate].
Qed.

(* ------------------------------------------------------------------------------------------------ *)
(** * the pixel pipeline of encode_frame and its inverse *)
Definition expand_argb (ct : color) (data : list Z) : list Z := map apx (to_pixels (expand ct data)).

Lemma map_seq_nth {A B} (f : A -> B) (d : A) : forall l, map (fun j => f (nth j l d)) (seq 0 (length l)) = map f l.
Proof.
  induction l as [|x tl IH]; [reflexivity|]. cbn [length seq map nth]. f_equal.
  rewrite <- seq_shift, map_map. exact IH.
Qed.

Record pipeline (ct : color) (data : list Z) (p : bool) (w h : Z) (T : list Z) : Prop := {
  pl_len : length (to_pixels T) = Z.to_nat (w * h);
  pl_lenE : length (to_pixels (expand ct data)) = Z.to_nat (w * h);
  pl_bytes : Forall pxbytes (to_pixels T);
  pl_grey : is_color ct = false -> Forall (fun q : pixel => let '(r, g, b, a) := q in r = 0 /\ b = 0) (to_pixels T);
  pl_alpha : is_alpha ct = false ->
             Forall (fun q : pixel => let '(r, g, b, a) := q in a = if p then 0 else 255) (to_pixels T);
  pl_inv : forall ts a, ts_ok p w h ts -> alen a = Z.to_N (w * h) ->
           (forall j, 0 <= j < w * h -> V.pix a j = apx (nth (Z.to_nat j) (to_pixels T) dpx)) ->
           V.pixel_list (fold_left (V.inverse_transform h) (rev ts) a) = expand_argb ct data
}.

Lemma sg_px_bytes q : pxbytes q -> pxbytes (sg_px q).
Proof. destruct q as [[[r g] b] a]. intros [Hr [Hg [Hb Ha]]]. cbn [sg_px pxbytes]. repeat split; try lia; apply sub8_range. Qed.

Lemma finish_pixels ct data w h (a2 : arr) : length (to_pixels (expand ct data)) = Z.to_nat (w * h) ->
  alen a2 = Z.to_N (w * h) -> 0 <= w * h ->
  (forall j, 0 <= j < w * h -> V.pix a2 j = apx (nth (Z.to_nat j) (to_pixels (expand ct data)) dpx)) ->
  V.pixel_list a2 = expand_argb ct data.
Proof.
  intros HlE Hal Hwh Hpix. rewrite pixel_list_spec, Hal. unfold expand_argb.
  replace (N.to_nat (Z.to_N (w * h))) with (length (to_pixels (expand ct data))) by lia.
  rewrite <- (map_seq_nth apx dpx). apply map_ext_in. intros j Hj. apply in_seq in Hj.
  rewrite Hpix by lia. rewrite Nat2Z.id. reflexivity.
Qed.

Lemma pipeline_ok ct data (p : bool) w h : 1 <= w -> 1 <= h ->
  zlen data = w * h * bytes_per_pixel ct -> Forall byte_ok data ->
  exists T, (if p then predictor_transform (subtract_green (expand ct data)) w h else Ok (subtract_green (expand ct data))) = Ok T
            /\ pipeline ct data p w h T.
Proof.
  intros Hw Hh Hlen Hb.
  set (n := Z.to_nat (w * h)). assert (Hn : Z.of_nat n = w * h) by (unfold n; nia).
  destruct (expand_facts ct n data) as [LE [BE [GE AE]]].
  { unfold zlen in Hlen. assert (0 < bytes_per_pixel ct) by (destruct ct; cbn; lia). nia. }
  { exact Hb. }
  set (E := expand ct data) in *. set (S := subtract_green E).
  assert (LS : length S = (4 * n)%nat) by (unfold S; rewrite subtract_green_length; exact LE).
  assert (BS : Forall byte_ok S) by (apply subtract_green_bytes'; exact BE).
  assert (PS : to_pixels S = map sg_px (to_pixels E)) by apply to_pixels_subtract_green.
  assert (LPE : length (to_pixels E) = n) by (rewrite to_pixels_length, LE; replace (4 * n)%nat with (n * 4)%nat by lia; apply Nat.div_mul; lia).
  assert (LPS : length (to_pixels S) = n) by (rewrite PS, map_length; exact LPE).
  assert (BPE : Forall pxbytes (to_pixels E)) by (apply to_pixels_bytes; exact BE).
  assert (GS : is_color ct = false -> Forall (fun q : pixel => let '(r, g, b, a) := q in r = 0 /\ b = 0) (to_pixels S)).
  { intros Hc. rewrite PS. apply Forall_forall. intros x Hx. apply in_map_iff in Hx. destruct Hx as [q [<- Hq]].
    specialize (GE Hc). rewrite Forall_forall in GE. specialize (GE q Hq). destruct q as [[[r g] b] a]. destruct GE as [-> ->].
    cbn [sg_px]. unfold sub8. rewrite Z.sub_diag. split; reflexivity. }
  assert (AS : is_alpha ct = false -> Forall (fun q : pixel => let '(r, g, b, a) := q in a = 255) (to_pixels S)).
  { intros Hc. rewrite PS. apply Forall_forall. intros x Hx. apply in_map_iff in Hx. destruct Hx as [q [<- Hq]].
    specialize (AE Hc). rewrite Forall_forall in AE. specialize (AE q Hq). destruct q as [[[r g] b] a]. exact AE. }
  assert (HPS : forall j, (j < n)%nat -> nth j (to_pixels S) dpx = sg_px (nth j (to_pixels E) dpx)).
  { intros j Hj. rewrite PS. change dpx with (sg_px dpx) at 1. apply map_nth. }
  assert (HPE : forall j, (j < n)%nat -> pxbytes (nth j (to_pixels E) dpx)).
  { intros j Hj. rewrite Forall_forall in BPE. apply BPE. apply nth_In. lia. }
  (* undoing subtract green at the end *)
  assert (Fin : forall a1, alen a1 = Z.to_N (w * h) ->
            (forall j, 0 <= j < w * h -> V.pix a1 j = apx (nth (Z.to_nat j) (to_pixels S) dpx)) ->
            V.pixel_list (V.inverse_subtract_green a1) = expand_argb ct data).
  { intros a1 Hal Hpix. destruct (inverse_subtract_green_spec a1) as [Hal2 Hpix2].
    apply (finish_pixels ct data w h); [exact LPE | lia | lia|].
    intros j Hj. rewrite Hpix2 by lia. rewrite Hpix by lia. rewrite HPS by lia.
    pose proof (HPE (Z.to_nat j) ltac:(lia)) as Hbj. fold E. destruct (nth (Z.to_nat j) (to_pixels E) dpx) as [[[r g] b] a] eqn:Eq.
    apply (add_green_sub (r, g, b, a)). exact Hbj. }
  destruct p.
  - destruct (predictor_transform_spec S w h Hw Hh ltac:(rewrite LS; nia)) as [out [Eout [Lout Hout]]].
    exists out. split; [exact Eout|].
    assert (HlenS' : length S = (4 * Z.to_nat w * Z.to_nat h)%nat) by (rewrite LS; nia).
    assert (Hout' : forall j, (j < length S)%nat -> nth j out 0 = pred_byte S (4 * Z.to_nat w) j).
    { intros j Hj. rewrite Hout by exact Hj. f_equal. lia. }
    pose proof (pred_px_count S out (Z.to_nat w) (Z.to_nat h) ltac:(lia) ltac:(lia) HlenS' Lout Hout') as [_ LO].
    pose proof (pred_channel_facts S out (Z.to_nat w) (Z.to_nat h) ltac:(lia) ltac:(lia) HlenS' Lout Hout') as [CG CA].
    assert (Hnn : (Z.to_nat w * Z.to_nat h)%nat = n) by (unfold n; nia).
    constructor.
    + rewrite LO. exact Hnn.
    + exact LPE.
    + apply to_pixels_bytes. apply (pred_out_bytes S out (Z.to_nat w) Lout Hout' BS).
    + intros Hc. apply CG. apply GS. exact Hc.
    + intros Hc. apply CA. apply AS. exact Hc.
    + intros ts a [modes [-> Hmodes]] Hal Hpix. cbn [rev app fold_left V.inverse_transform].
      destruct (inverse_predictor_spec w h modes a
                  (fun j => nth (Z.to_nat j) (to_pixels S) dpx) (fun j => nth (Z.to_nat j) (to_pixels out) dpx) Hw Hh Hmodes Hpix)
        as [Hal1 Hpix1].
      * intros i Hi. rewrite HPS by lia. apply sg_px_bytes. apply HPE. lia.
      * change (Z.to_nat 0) with 0%nat. apply (pred_px_first S out (Z.to_nat w) (Z.to_nat h)); try assumption; lia.
      * intros i Hi. replace (Z.to_nat (i - 1)) with (Z.to_nat i - 1)%nat by lia.
        apply (pred_px_left S out (Z.to_nat w) (Z.to_nat h)); try assumption; lia.
      * intros i Hi. replace (Z.to_nat (i - w)) with (Z.to_nat i - Z.to_nat w)%nat by lia.
        apply (pred_px_above S out (Z.to_nat w) (Z.to_nat h)); try assumption; nia.
      * apply Fin; [lia | exact Hpix1].
  - exists S. split; [reflexivity|]. constructor.
    + exact LPS.
    + exact LPE.
    + rewrite PS. apply Forall_forall. intros x Hx. apply in_map_iff in Hx. destruct Hx as [q [<- Hq]].
      apply sg_px_bytes. rewrite Forall_forall in BPE. apply BPE. exact Hq.
    + exact GS.
    + exact AS.
    + intros ts a Hts Hal Hpix. cbn [ts_ok] in Hts. subst ts. cbn [rev app fold_left V.inverse_transform].
      apply Fin; assumption.
Qed.

(* ------------------------------------------------------------------------------------------------ *)
(** * the whole frame *)
Definition decode_stream (s : V.stream) : option (Z * Z * list Z) :=
  match V.read_header s with
  | Some (w, h, s) => match V.image_stream w h s with Some px => Some (w, h, px) | None => None end
  | None => None
  end.

Lemma decode_is_stream data : V.decode data = decode_stream (V.Stream [] data).
Proof. reflexivity. Qed.

Lemma pow14 : 2 ^ Z.of_nat 14 = 16384. Proof. reflexivity. Qed.

Lemma frame_roundtrip sorter data w h ct (p : bool) :
  sorter_ok sorter -> 1 <= w <= 16384 -> 1 <= h <= 16384 ->
  zlen data = w * h * bytes_per_pixel ct -> Forall byte_ok data ->
  exists bs, closes (encode_frame sorter data w h ct p) bs
             /\ (forall s tail, sbits s = bs ++ tail -> decode_stream s = Some (w, h, expand_argb ct data))
             /\ zlen bs <= 85 * (w * h) + 9000.
Proof.
  intros Hsort Hw Hh Hlen Hbytes.
  destruct (pipeline_ok ct data p w h ltac:(lia) ltac:(lia) Hlen Hbytes) as [T [ET PL]].
  set (pxs := to_pixels T) in *.
  assert (Hwh : 1 <= w * h <= 268435456) by nia.
  assert (Lpx : zlen pxs = w * h) by (unfold zlen, pxs; rewrite (pl_len _ _ _ _ _ _ PL); lia).
  pose proof (pl_bytes _ _ _ _ _ _ PL) as Bpx. fold pxs in Bpx.
  (* histograms *)
  destruct (count_loop_ok ct (S (length pxs)) pxs (seed1 (negb (is_color ct)) 256) (amake 280) (seed1 (negb (is_color ct)) 256)
              (seed1 (negb (is_alpha ct)) 256) 1 ltac:(lia) Bpx (hinv_seed1 _) hinv_amake280 (hinv_seed1 _) (hinv_seed1 _)
              ltac:(unfold u32_max; lia))
    as [f0 [f1 [f2 [f3 [EC [H0 [H1 [H2 [H3 [_ [_ [_ [_ HF]]]]]]]]]]]]].
  set (B := 1 + 2 * zlen pxs) in *. assert (HB : B < 2 ^ 32) by (unfold B; change (2 ^ 32) with 4294967296; lia).
  (* the first pixel gives every histogram in use a symbol below 256 *)
  destruct pxs as [|p0 rest0] eqn:Epx; [unfold zlen in Lpx; cbn in Lpx; lia|]. rewrite <- Epx in *.
  assert (Hseg0 : exists run0 sgs, segments (S (length pxs)) pxs = (p0, run0) :: sgs).
  { rewrite Epx. cbn [segments]. destruct (take_run p0 rest0 0) as [run0 rest']. eexists. eexists. reflexivity. }
  destruct Hseg0 as [run0 [sgs Eseg]].
  assert (Hp0 : pix_bytes p0) by (rewrite Epx in Bpx; inversion Bpx; assumption).
  pose proof HF as HF0. rewrite Eseg in HF0. apply Forall_cons_iff in HF0. destruct HF0 as [HF0 _].
  destruct p0 as [[[r0 g0] b0] a0]. destruct Hp0 as [Hr0 [Hg0 [Hb0 Ha0]]]. destruct HF0 as [P1 [P02 [P3 _]]].
  assert (Hex : forall f v, 0 <= v < 256 -> 0 < araw f (Z.to_N v) -> exists i, (i < 256)%nat /\ 0 < araw f (N.of_nat i)).
  { intros f v Hv Hp. exists (Z.to_nat v). split; [lia|]. replace (N.of_nat (Z.to_nat v)) with (Z.to_N v) by lia. exact Hp. }
  (* the four codes of the image and the distance code *)
  destruct (tree_from_hist sorter f1 280 B Hsort ltac:(right; reflexivity) H1 HB (Hex f1 g0 Hg0 P1))
    as [bs1 [lens1 [codes1 [k1 [Em1 [Pa1 [L1 [C1 [S1 BL1]]]]]]]]].
  destruct (color_block sorter ct f0 f2 B Hsort H0 H2 HB) as [bs0 [bs2 [lens0 [codes0 [lens2 [codes2 [k0 [k2 [Em02 [Pa0 [Pa2 [L02 [S0 [S2 [Z02 [BL0 BL2]]]]]]]]]]]]]]]].
  { intros Hc. destruct (P02 Hc) as [Q0 Q2]. split; [apply (Hex f0 r0) | apply (Hex f2 b0)]; assumption. }
  destruct (alpha_block sorter ct p f3 B Hsort H3 HB) as [bs3 [lens3 [codes3 [k3 [Em3 [Pa3 [L3 [S3 [Z3 BL3]]]]]]]]].
  { intros Hc. apply (Hex f3 a0); [exact Ha0 | apply P3; exact Hc]. }
  pose proof (single_entry_explicit 1 40 ltac:(lia) ltac:(lia)) as [EmD PaD].
  destruct L02 as [L0 [C0 [L2 C2]]]. destruct L3 as [L3 C3].
  (* every segment is decodable *)
  assert (Hsegs : Forall (seg_ok ct lens0 codes0 lens1 codes1 lens2 codes2 lens3 codes3 k0 k1 k2 k3) (segments (S (length pxs)) pxs)).
  { apply Forall_forall. intros [[[[r g] b] a] run] Hin. rewrite Forall_forall in HF. pose proof (HF _ Hin) as [Q1 [Q02 [Q3 [Qr Qrun]]]].
    pose proof (segments_in _ _ _ Hin) as Hinp. cbn [fst] in Hinp.
    rewrite Forall_forall in Bpx. pose proof (Bpx _ Hinp) as [Hr [Hg [Hb Ha]]].
    split.
    - cbn [fst]. unfold lit_ok. split; [auto|]. split; [apply S1; [lia | exact Q1]|].
      split; [apply S0; [lia|]; destruct (is_color ct) eqn:Ec; [apply (Q02 eq_refl)|];
              pose proof (pl_grey _ _ _ _ _ _ PL Ec) as G; rewrite Forall_forall in G; apply (G _ Hinp)|].
      split; [apply S2; [lia|]; destruct (is_color ct) eqn:Ec; [apply (Q02 eq_refl)|];
              pose proof (pl_grey _ _ _ _ _ _ PL Ec) as G; rewrite Forall_forall in G; apply (G _ Hinp)|].
      split; [apply S3; [lia|]; destruct (is_alpha ct) eqn:Ea; [apply (Q3 eq_refl)|];
              pose proof (pl_alpha _ _ _ _ _ _ PL Ea) as G; rewrite Forall_forall in G; apply (G _ Hinp)|].
      split; [intros Hc; destruct (Z02 Hc) as [-> ->]; rewrite !nth_zeros; split; reflexivity|].
      intros Hc. rewrite (Z3 Hc). apply nth_zeros.
    - cbn [snd]. intros Hrun. specialize (Qr Hrun). unfold run_ok. unfold run_symbol in Qr.
      pose proof (run_token_roundtrip run ltac:(lia)) as RT.
      destruct (run_token run) as [[pp e] x]. cbn [fst] in Qr. destruct RT as [Hpp _]. apply S1; [lia | exact Qr]. }
  destruct (pixel_stream_roundtrip ct lens0 codes0 lens1 codes1 lens2 codes2 lens3 codes3 k0 k1 k2 k3
              ltac:(repeat split; assumption) w h pxs Lpx ltac:(lia) Hsegs) as [pbs [Hpem [PBL Hpdec]]].
  (* encoder side *)
  eexists. split; [|split].
  - unfold encode_frame.
    replace (Z.min (w * h * bytes_per_pixel ct) (two64 - 1) =? zlen data) with true
      by (symmetry; apply Z.eqb_eq; rewrite Hlen; apply Z.min_l; unfold two64; destruct ct; cbn [bytes_per_pixel]; lia).
    cbn [negb].
    replace ((w =? 0) || (16384 <? w) || (h =? 0) || (16384 <? h)) with false
      by (symmetry; repeat (apply orb_false_iff; split); try apply Z.eqb_neq; try apply Z.ltb_ge; lia).
    apply closes_seq; [apply (wb_emits 47 8); [lia | change (2 ^ Z.of_nat 8) with 256; lia]|].
    apply closes_seq; [apply (wb_emits (w - 1) 14); [lia | rewrite pow14; lia]|].
    apply closes_seq; [apply (wb_emits (h - 1) 14); [lia | rewrite pow14; lia]|].
    apply closes_seq; [apply (wb_emits (if is_alpha ct then 1 else 0) 1); [lia | apply b1; destruct (is_alpha ct); lia]|].
    apply closes_seq; [apply (wb_emits 0 3); [lia | change (2 ^ Z.of_nat 3) with 8; lia]|].
    apply closes_seq; [apply (wb_emits 5 3); [lia | change (2 ^ Z.of_nat 3) with 8; lia]|].
    apply closes_seq; [apply transform_desc_emits|].
    apply closes_seq; [apply (wb_emits 0 1); [lia | apply b1; lia]|].
    apply closes_seq; [apply (wb_emits 0 1); [lia | apply b1; lia]|].
    apply closes_seq; [apply (wb_emits 0 1); [lia | apply b1; lia]|].
    cbv zeta. eapply closes_lift_bind; [exact ET|]. cbv beta. fold pxs.
    eapply closes_lift_bind; [exact EC|]. cbv beta iota.
    eapply closes_bind; [exact Em1|]. cbv beta iota.
    eapply closes_bind; [exact Em02|]. cbv beta iota.
    eapply closes_bind; [exact Em3|]. cbv beta iota.
    apply closes_seq; [exact EmD|].
    apply closes_seq; [exact Hpem|]. apply closes_flush.
  - (* decoder side *)
    intros s tail Hs. rewrite <- !app_assoc in Hs. unfold decode_stream, V.read_header.
    pstep (read_bits_parses 8 47 ltac:(change (2 ^ Z.of_nat 8) with 256; lia)) Hs.
    change (negb (47 =? 47)) with false. cbv iota.
    pstep (read_bits_parses 14 (w - 1) ltac:(rewrite pow14; lia)) Hs.
    pstep (read_bits_parses 14 (h - 1) ltac:(rewrite pow14; lia)) Hs.
    pstep (read_bits_parses 1 (if is_alpha ct then 1 else 0) (b1 (if is_alpha ct then 1 else 0) ltac:(destruct (is_alpha ct); lia))) Hs.
    pstep (read_bits_parses 3 0 ltac:(change (2 ^ Z.of_nat 3) with 8; lia)) Hs.
    change (negb (0 =? 0)) with false. cbv iota.
    replace (w - 1 + 1) with w by lia. replace (h - 1 + 1) with h by lia.
    unfold V.image_stream.
    destruct (transforms_parse p w h _ _ ltac:(lia) ltac:(lia) Hs) as [ts [s' [Ert [Hs' Hts]]]]. rewrite Ert. clear Hs Ert.
    unfold V.spatially_coded_image, V.read_cache_info.
    pstep (read_bits_parses 1 0 (b1 0 ltac:(lia))) Hs'. change (0 =? 0) with true. cbv iota beta.
    unfold V.read_meta_prefix.
    pstep (read_bits_parses 1 0 (b1 0 ltac:(lia))) Hs'. change (0 =? 0) with true. cbv iota beta.
    change (Z.to_nat 1) with 1%nat. cbn [V.read_groups]. unfold V.read_group. change (V.cache_size_of 0) with 0.
    change (256 + 24 + 0) with 280.
    pstep Pa1 Hs'. pstep Pa0 Hs'. pstep Pa2 Hs'. pstep Pa3 Hs'. pstep PaD Hs'. cbv beta iota.
    destruct (Hpdec _ _ Hs') as [a [s'' [Edec [_ [Hal Hpix]]]]]. unfold im, grp in Edec. rewrite Edec.
    rewrite (pl_inv _ _ _ _ _ _ PL ts a Hts Hal Hpix). reflexivity.
  - unfold zlen in *. rewrite !app_length, !bits_of_length. cbn [length].
    assert (Htf : (length (tfbits p) <= 62)%nat).
    { unfold tfbits. destruct p; [|cbn; lia]. rewrite !app_length, !bits_of_length. cbn [length].
      pose proof (se_bits_length 2). pose proof (se_bits_length 0). lia. }
    pose proof (se_bits_length 1). lia.
Qed.

(* ------------------------------------------------------------------------------------------------ *)
(** * the round-trip theorems *)
Theorem encode_roundtrip_argb : forall sorter data w h ct (p : bool),
  sorter_ok sorter -> 1 <= w <= 16384 -> 1 <= h <= 16384 ->
  zlen data = w * h * bytes_per_pixel ct -> Forall (fun x => 0 <= x < 256) data ->
  exists fs, run_encode_frame sorter (-1) data w h ct p = (fs, Ok tt)
             /\ V.decode (sink_bytes fs) = Some (w, h, expand_argb ct data)
             /\ 8 * zlen (sink_bytes fs) <= 85 * (w * h) + 9007.
Proof.
  intros sorter data w h ct p Hsort Hw Hh Hlen Hb.
  destruct (frame_roundtrip sorter data w h ct p Hsort Hw Hh Hlen Hb) as [bs [Hcl [Hdec Hbl]]].
  destruct (closes_run _ _ Hcl) as [w' [pad [E [Hsb Hlb]]]].
  exists (bw_sink w'). unfold run_encode_frame. rewrite E. split; [reflexivity|].
  split; [rewrite decode_is_stream; apply (Hdec _ _ Hsb)|]. rewrite Hlb. lia.
Qed.

(* the byte order of the Rust decoder's output buffer: R, G, B, A *)
Lemma rgba_fold : forall px acc,
  fold_left (fun acc p => V.ALPHA p :: V.BLUE p :: V.GREEN p :: V.RED p :: acc) px acc
  = rev (flat_map (fun p => [V.RED p; V.GREEN p; V.BLUE p; V.ALPHA p]) px) ++ acc.
Proof.
  induction px as [|x tl IH]; intros acc; cbn [fold_left flat_map]; [reflexivity|].
  rewrite IH. rewrite rev_app_distr. cbn [rev app]. rewrite <- !app_assoc. reflexivity.
Qed.

Lemma rgba_bytes_argb : forall l, Forall byte_ok l -> (exists n, length l = (4 * n)%nat) ->
  V.rgba_bytes (map apx (to_pixels l)) = l.
Proof.
  intros l Hb [n Hn]. unfold V.rgba_bytes. rewrite rgba_fold, app_nil_r, rev_append_rev, app_nil_r, rev_involutive.
  revert l Hb Hn. induction n as [|n IH]; intros l Hb Hn.
  - destruct l; [reflexivity | cbn in Hn; lia].
  - destruct l as [|r [|g [|b [|a tl]]]]; cbn [length] in Hn; try lia.
    inversion Hb as [|? ? Hr H1]; subst. inversion H1 as [|? ? Hg H2]; subst. inversion H2 as [|? ? Hbb H3]; subst.
    inversion H3 as [|? ? Ha H4]; subst.
    cbn [to_pixels map flat_map apx]. destruct (argb_channels a r g b Ha Hr Hg Hbb) as [E1 [E2 [E3 E4]]].
    rewrite E1, E2, E3, E4. cbn [app]. rewrite (IH tl H4 ltac:(lia)). reflexivity.
Qed.

(* C04: the file payload written by encode_frame decodes, under the specification, to exactly the input pixels --
   grey expanded to R = G = B, a missing alpha channel as 255 (Model.Encoder.expand is that expansion) -- with the same
   dimensions; for all four colour types, with and without the predictor transform, for every admissible tie-break
   of the unstable sort. *)
Theorem encode_roundtrip : forall sorter data w h ct (p : bool),
  sorter_ok sorter -> 1 <= w <= 16384 -> 1 <= h <= 16384 ->
  zlen data = w * h * bytes_per_pixel ct -> Forall (fun x => 0 <= x < 256) data ->
  exists fs, run_encode_frame sorter (-1) data w h ct p = (fs, Ok tt)
             /\ V.decode_rgba (sink_bytes fs) = Some (w, h, expand ct data)
             /\ 8 * zlen (sink_bytes fs) <= 85 * (w * h) + 9007.
Proof.
  intros sorter data w h ct p Hsort Hw Hh Hlen Hb.
  destruct (encode_roundtrip_argb sorter data w h ct p Hsort Hw Hh Hlen Hb) as [fs [E [D Hsz]]].
  exists fs. split; [exact E|]. split; [|exact Hsz]. unfold V.decode_rgba. rewrite D. unfold expand_argb.
  destruct (expand_facts ct (Z.to_nat (w * h)) data) as [LE [BE _]].
  { unfold zlen in Hlen. assert (0 < bytes_per_pixel ct) by (destruct ct; cbn; lia). nia. }
  { exact Hb. }
  rewrite rgba_bytes_argb; [reflexivity | exact BE | eexists; exact LE].
Qed.

(* statement tests / non-vacuity: 2x2 RGBA, 5x1 grey with a run, 3x3 RGB with the predictor, 1x1 grey+alpha *)
Example roundtrip_rgba_2x2 :
  let data := [10; 20; 30; 255; 10; 20; 30; 255; 200; 100; 50; 0; 1; 2; 3; 4] in
  V.decode_rgba (sink_bytes (fst (run_encode_frame stable_sorter (-1) data 2 2 Rgba8 false))) = Some (2, 2, expand Rgba8 data).
Proof. vm_compute. reflexivity. Qed.
Example roundtrip_l8_5x1 :
  let data := [7; 7; 7; 7; 9] in
  V.decode_rgba (sink_bytes (fst (run_encode_frame stable_sorter (-1) data 5 1 L8 false))) = Some (5, 1, expand L8 data).
Proof. vm_compute. reflexivity. Qed.
Example roundtrip_rgb_3x3_pred :
  let data := [1; 2; 3; 4; 5; 6; 7; 8; 9; 10; 20; 30; 40; 50; 60; 70; 80; 90; 255; 0; 255; 0; 255; 0; 128; 128; 128] in
  V.decode_rgba (sink_bytes (fst (run_encode_frame stable_sorter (-1) data 3 3 Rgb8 true))) = Some (3, 3, expand Rgb8 data).
Proof. vm_compute. reflexivity. Qed.
Example roundtrip_la8_1x1_pred :
  V.decode_rgba (sink_bytes (fst (run_encode_frame stable_sorter (-1) [200; 17] 1 1 La8 true))) = Some (1, 1, expand La8 [200; 17]).
Proof. vm_compute. reflexivity. Qed.
