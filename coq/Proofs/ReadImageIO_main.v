(* Property C10, second half, for the GLUE: read_image of a non-animated file over the file reader with every required-method
   call counted (Model/ReadImageIO.v; tied to src/decoder.rs + std's Take / read_exact / read_to_end by the c10glue
   correspondence: outcome class with the error variant, pixel hash, total number of I/O calls, for a fault at the call
   indices read_image makes, under whole / constant / random schedules).

   (b) read_image_fault_surfaces : from any reader state without an armed fault, a fault at a call index k that the fault-free
       read_image makes turns the call into IErr XFault (io::ErrorKind::Other -> DecodingError::IoError) after exactly k + 1
       calls, with no buffer reported -- never Ok, never a panic, never another error; a fault at any other index changes
       neither the result, nor the buffer, nor the number of calls.
       No hypothesis on the file, the decoder record, the buffer or the schedule: runs that fault-free end in a decoding
       error, UnexpectedEof, a modelled panic or OutOfFuel are covered.
   open_and_read_fault_surfaces : the same for WebPDecoder::new followed by read_image on ONE reader, k counted from the first
       call of `new` (composition with Proofs/ContainerIO_laws.FaultLaw_new). *)
From Coq Require Import ZArith List Bool Lia.
From WebP Require Import Lib.Res Model.Container Model.ContainerIO Proofs.ContainerIO_prims Proofs.ContainerIO_laws.
From WebP Require Import Model.ReadImageIO Proofs.ReadImageIO_laws.
Import ListNotations.
Open Scope Z_scope.

Lemma read_image_io_m dec buf s :
  read_image_io dec buf s =
    (match fst (read_image_m dec buf s) with
     | IOk b => (IOk tt, Some b) | IErr e => (IErr e, None) | IPanic p => (IPanic p, None) | IOutOfFuel => (IOutOfFuel, None)
     end, snd (read_image_m dec buf s)).
Proof. unfold read_image_io. destruct (read_image_m dec buf s) as [[b|e|p|] s']; reflexivity. Qed.

Theorem read_image_fault_surfaces : forall (dec : decoder) (buf : list Z) (s : rstate) (k : Z),
  r_fail_at s = None -> r_fail_eof s = false ->
  let free := read_image_io dec buf s in
  let faulty := read_image_io dec buf (set_fail s (Some k)) in
  (r_calls s <= k < r_calls (snd free) -> fst faulty = (IErr XFault, None) /\ r_calls (snd faulty) = k + 1)
  /\ (k < r_calls s \/ r_calls (snd free) <= k -> fst faulty = fst free /\ r_calls (snd faulty) = r_calls (snd free)).
Proof.
  intros dec buf s k Hs He free faulty. subst free faulty. rewrite !read_image_io_m. cbn [fst snd].
  destruct (FaultLaw_read_image_m dec buf s k Hs He) as (_ & _ & _ & Hsame & Hf).
  split.
  - intros H. destruct (Hf H) as (E & C & _). rewrite E. split; [reflexivity | exact C].
  - intros H. rewrite (Hsame H). cbn [fst snd set_fail r_calls]. split; reflexivity.
Qed.

(* whatever the index: the I/O error without a buffer, or exactly the fault-free outcome *)
Corollary read_image_fault_outcome : forall dec buf s k, r_fail_at s = None -> r_fail_eof s = false ->
  fst (read_image_io dec buf (set_fail s (Some k))) = (IErr XFault, None)
  \/ fst (read_image_io dec buf (set_fail s (Some k))) = fst (read_image_io dec buf s).
Proof.
  intros dec buf s k Hs He. destruct (read_image_fault_surfaces dec buf s k Hs He) as [F1 F2].
  destruct (Z_lt_ge_dec k (r_calls s)) as [H|H]; [right; apply F2; lia|].
  destruct (Z_lt_ge_dec k (r_calls (snd (read_image_io dec buf s)))) as [H'|H']; [left; apply F1; lia | right; apply F2; lia].
Qed.

Corollary read_image_fault_never_ok_nor_panic : forall dec buf s k, r_fail_at s = None -> r_fail_eof s = false ->
  r_calls s <= k < r_calls (snd (read_image_io dec buf s)) ->
  forall b p, fst (fst (read_image_io dec buf (set_fail s (Some k)))) <> IOk b
              /\ fst (fst (read_image_io dec buf (set_fail s (Some k)))) <> IPanic p.
Proof.
  intros dec buf s k Hs He H b p. destruct (read_image_fault_surfaces dec buf s k Hs He) as [F1 _].
  destruct (F1 H) as [E _]. rewrite E. split; discriminate.
Qed.

(* ---------------------------------------------------------------------------------------------- *)
(* WebPDecoder::new + read_image on one reader                                                      *)
(* ---------------------------------------------------------------------------------------------- *)
Definition buffer_for (dec : decoder) (fill : Z) : list Z :=
  repeat fill (Z.to_nat (match output_buffer_size dec with Some k => k | None => 0 end)).

Definition open_and_read (fill : Z) : M (list Z) := bind new (fun dec => read_image_m dec (buffer_for dec fill)).

Lemma FaultLaw_open_and_read fill : FaultLaw (open_and_read fill).
Proof. unfold open_and_read. apply FaultLaw_bind; [exact FaultLaw_new | intros dec; apply FaultLaw_read_image_m]. Qed.

Theorem open_and_read_fault_surfaces : forall (sched : Z -> Z) (d : list Z) (fill k : Z),
  let free := open_and_read fill (init sched None d) in
  let faulty := open_and_read fill (init sched (Some k) d) in
  (0 <= k < r_calls (snd free) -> fst faulty = IErr XFault /\ r_calls (snd faulty) = k + 1)
  /\ (k < 0 \/ r_calls (snd free) <= k -> fst faulty = fst free /\ r_calls (snd faulty) = r_calls (snd free)).
Proof.
  intros sched d fill k free faulty. subst free faulty.
  change (init sched (Some k) d) with (set_fail (init sched None d) (Some k)).
  destruct (FaultLaw_open_and_read fill (init sched None d) k eq_refl eq_refl) as (_ & _ & _ & Hsame & Hf).
  split.
  - intros H. destruct (Hf H) as (E & C & _). split; assumption.
  - intros H. rewrite (Hsame H). cbn [fst snd set_fail r_calls]. split; reflexivity.
Qed.

(* the oracle's entry point is this composition *)
Lemma rio_eval_open_and_read sched fa d fill :
  match snd (rio_eval sched fa d fill) with
  | Some (ri, ob, c) =>
      c = r_calls (snd (open_and_read fill (init sched fa d)))
      /\ match fst (open_and_read fill (init sched fa d)) with
         | IOk b => ri = IOk tt /\ ob = Some b
         | IErr e => ri = IErr e /\ ob = None
         | IPanic p => ri = IPanic p /\ ob = None
         | IOutOfFuel => ri = IOutOfFuel /\ ob = None
         end
  | None => snd (fst (rio_eval sched fa d fill)) = r_calls (snd (open_and_read fill (init sched fa d)))
            /\ forall b, fst (open_and_read fill (init sched fa d)) <> IOk b
  end.
Proof.
  unfold rio_eval, open_and_read, bind, handle, buffer_for.
  destruct (new (init sched fa d)) as [[dec|e|p|] s1]; cbn [fst snd]; try (split; [reflexivity | intros b; discriminate]).
  rewrite read_image_io_m.
  destruct (read_image_m dec _ s1) as [[b|e|p|] s2]; cbn [fst snd]; repeat split; reflexivity.
Qed.

(* ---------------------------------------------------------------------------------------------- *)
(* (c), PARTIAL: never success with other pixels than the fault-free ones                           *)
(* ---------------------------------------------------------------------------------------------- *)
(* The missing hypothesis is explicit: that the fault-free run of read_image over the file reader returns the specification's
   pixels [px].  It would follow from (a) "the fault-free read_image_io is Model.ReadImage.read_image with
   vp8 := Model.Vp8Decode.decode_frame" (proved so far only for the reader operations, Proofs/ReadImageIO_refine.v) and the closed
   theorems C05 (VP8_decode_readimage.read_image_lossy_closed) / C01 (ReadImage_lossless.read_image_lossless). *)
Theorem read_image_io_error_or_pixels_partial : forall dec buf s px,
  r_fail_at s = None -> r_fail_eof s = false ->
  fst (read_image_io dec buf s) = (IOk tt, Some px) ->
  forall k, fst (read_image_io dec buf (set_fail s (Some k))) = (IErr XFault, None)
            \/ fst (read_image_io dec buf (set_fail s (Some k))) = (IOk tt, Some px).
Proof.
  intros dec buf s px Hs He Hfree k. destruct (read_image_fault_outcome dec buf s k Hs He) as [E|E]; [left; exact E | right].
  rewrite E. exact Hfree.
Qed.
