(* Proofs/VP8_recon_big.v -- (i), whole-block predicted macroblocks (luma 16x16 with stride 21, chroma 8x8 with stride
   9): after predict_big the residue loop `residue_blocks` on the bordered workspace = Spec.VP8.recon_blocks on the
   frame.  [big_inv k]: border cells and the cells of the blocks already done (index < k) hold the samples of the
   current reference plane, the cells of the blocks still to do hold the prediction pf. *)
From Coq Require Import ZArith NArith List Bool Lia.
From WebP Require Import Lib.Res Lib.ZBits Lib.Arr Gen.Tables Spec.VP8Tables Spec.VP8 Model.Vp8Predict Model.Vp8Recon
  Proofs.VP8_predict_base Proofs.VP8_predict_sub Proofs.VP8_predict_border Proofs.VP8_predict
  Proofs.VP8_recon_base Proofs.VP8_recon_plane Proofs.VP8_recon_bytes Proofs.VP8_recon_luma.
Import ListNotations.
Open Scope Z_scope.
Ltac Zify.zify_post_hook ::= Z.div_mod_to_equations.

Lemma tab16_nth (f : Z -> Z) r c : 0 <= r < 4 -> 0 <= c < 4 -> nth (Z.to_nat (4 * r + c)) (tabulate f 16) 0 = f (4 * r + c).
Proof. intros Hr Hc. apply (nthZ_tabulate f 16 (4 * r + c) 0). lia. Qed.

Section Big.
  (* nb blocks per row; size = 4 nb samples; stride s of the workspace; (X0, Y0) = position of the block in the plane *)
  Variables (nb s size mbw mx my X0 Y0 : Z) (pf : Z -> Z -> Z).
  Hypothesis Hgeo : (nb = 4 /\ s = 21 /\ size = 16) \/ (nb = 2 /\ s = 9 /\ size = 8).
  Hypothesis Hmx : 0 <= mx < mbw.
  Hypothesis Hmy : 0 <= my.
  Hypothesis HX : X0 = size * mx.
  Hypothesis HY : Y0 = size * my.

  Definition bcell_ok (p : plane) (ws : list Z) (c r : Z) : Prop :=
    get ws (r * s + c) = pget p (X0 + c - 1) (Y0 + r - 1).
  Definition bblk (i j : Z) : Z := nb * (j / 4) + i / 4.

  Definition big_inv (k : Z) (p : plane) (ws : list Z) : Prop :=
    len ws = (size + 1) * s /\ bytes ws /\
    (forall c r, 0 <= c <= size -> 0 <= r <= size -> (c = 0 \/ r = 0 \/ bblk (c - 1) (r - 1) < k) -> bcell_ok p ws c r) /\
    (forall c r, 1 <= c <= size -> 1 <= r <= size -> k <= bblk (c - 1) (r - 1) -> get ws (r * s + c) = pf (c - 1) (r - 1)).

  (* after predict_big: border untouched, block = pf *)
  Lemma big_inv_start p ws0 ws run :
    (forall c r, 0 <= c <= size -> 0 <= r <= size -> c = 0 \/ r = 0 -> bcell_ok p ws0 c r) ->
    big_ok run ws0 (size + 1) s size pf -> run = Ok ws -> bytes ws -> big_inv 0 p ws.
  Proof.
    intros Hborder (ws' & E & L & Hblock & Hkeep) Er Hb. rewrite Er in E. injection E as <-.
    split; [exact L|]. split; [exact Hb|]. split.
    - intros c r Hc Hr Hd. unfold bcell_ok.
      assert (H0 : c = 0 \/ r = 0).
      { destruct Hd as [?|[?|Hk]]; [lia|lia|]. unfold bblk in Hk. destruct Hgeo as [(-> & -> & ->)|(-> & -> & ->)]; lia. }
      rewrite Hkeep by (destruct Hgeo as [(-> & -> & ->)|(-> & -> & ->)]; lia). apply Hborder; assumption.
    - intros c r Hc Hr _. replace (r * s + c) with ((1 + (r - 1)) * s + (1 + (c - 1))) by lia. apply Hblock; lia.
  Qed.

  Lemma fits4_big ws sx sy : len ws = (size + 1) * s -> 0 <= sx < nb -> 0 <= sy < nb -> fits4 ws (1 + sx * 4) (1 + sy * 4) s.
  Proof. intros L Hx Hy. unfold fits4. destruct Hgeo as [(-> & -> & ->)|(-> & -> & ->)]; lia. Qed.

  (* one block *)
  Lemma big_step k p ws rb : 0 <= k < nb * nb -> big_inv k p ws -> p_w p = size * mbw -> length rb = 16%nat -> res_ok rb ->
    let sx := k mod nb in let sy := k / nb in
    exists ws2, add_residue ws rb (1 + sy * 4) (1 + sx * 4) s = Ok ws2 /\
                big_inv (k + 1) (recon_block p X0 Y0 sx sy pf rb) ws2.
  Proof.
    intros Hk (Hl & Hb & Hc & Hpf) Hw Lrb Hrb. cbv zeta.
    set (sx := k mod nb). set (sy := k / nb).
    assert (Hsx : 0 <= sx < nb) by (unfold sx; destruct Hgeo as [(-> & -> & ->)|(-> & -> & ->)]; lia).
    assert (Hsy : 0 <= sy < nb) by (unfold sy; destruct Hgeo as [(-> & -> & ->)|(-> & -> & ->)]; lia).
    assert (Ek : k = nb * sy + sx) by (unfold sx, sy; destruct Hgeo as [(-> & -> & ->)|(-> & -> & ->)]; lia).
    assert (Hf : fits4 ws (1 + sx * 4) (1 + sy * 4) s) by (apply fits4_big; assumption).
    pose proof (add_residue_spec ws rb (1 + sx * 4) (1 + sy * 4) s Hb Hf Lrb Hrb) as E2.
    eexists. split; [exact E2|].
    set (ws2 := put4x4 ws (1 + sx * 4) (1 + sy * 4) s (zip_with add_clip (blk4 ws (1 + sx * 4) (1 + sy * 4) s) rb)) in *.
    assert (Hb2 : bytes ws2) by (eapply add_residue_bytes; eassumption).
    assert (L2 : len ws2 = len ws) by (unfold ws2; apply len_put4x4).
    set (x := X0 + 4 * sx). set (y := Y0 + 4 * sy).
    set (pred := tabulate (fun t => pf (4 * sx + Z.land t 3) (4 * sy + Z.shiftr t 2)) 16).
    assert (Erec : recon_block p X0 Y0 sx sy pf rb = store4x4 p x y pred rb) by reflexivity.
    rewrite Erec.
    assert (Lpred : length pred = 16%nat) by reflexivity.
    assert (Hx : 0 <= x /\ x + 4 <= p_w p) by (unfold x; destruct Hgeo as [(-> & -> & ->)|(-> & -> & ->)]; nia).
    assert (Hy : 0 <= y) by (unfold y; destruct Hgeo as [(-> & -> & ->)|(-> & -> & ->)]; nia).
    assert (In2 : forall r c, 0 <= r < 4 -> 0 <= c < 4 ->
              get ws2 ((1 + sy * 4 + r) * s + (1 + sx * 4) + c) =
              clip255 (get ws ((1 + sy * 4 + r) * s + (1 + sx * 4) + c) + nth (Z.to_nat (4 * r + c)) rb 0)).
    { intros r c Hr Hcc. eapply add_residue_block; eassumption. }
    assert (Out2 : forall j, 0 <= j -> (forall r c, 0 <= r < 4 -> 0 <= c < 4 -> j <> (1 + sy * 4 + r) * s + (1 + sx * 4) + c) ->
              get ws2 j = get ws j).
    { intros j Hj Hne. exact (proj1 (add_residue_untouched ws ws2 rb (1 + sx * 4) (1 + sy * 4) s j Hb Hf Lrb Hrb E2 Hj Hne)). }
    assert (Epf : forall r c, 0 <= r < 4 -> 0 <= c < 4 -> nth (Z.to_nat (4 * r + c)) pred 0 = pf (4 * sx + c) (4 * sy + r)).
    { intros r c Hr Hcc. unfold pred. rewrite tab16_nth by assumption. rewrite land3, shiftr2 by lia. f_equal; lia. }
    split; [lia|]. split; [exact Hb2|]. split.
    - intros c r Hcr Hrr Hd. unfold bcell_ok.
      destruct (Z.eq_dec c 0) as [Hc0|Hc0]; [|destruct (Z.eq_dec r 0) as [Hr0|Hr0]; [|destruct (Z.eq_dec (bblk (c - 1) (r - 1)) k) as [Hbk|Hbk]]].
      + rewrite Out2 by (try intros; destruct Hgeo as [(-> & -> & ->)|(-> & -> & ->)]; lia).
        rewrite store4x4_out by (try assumption; unfold x, y; lia).
        apply Hc; [lia|lia|left; assumption].
      + rewrite Out2 by (try intros; destruct Hgeo as [(-> & -> & ->)|(-> & -> & ->)]; lia).
        rewrite store4x4_out by (try assumption; unfold x, y; lia).
        apply Hc; [lia|lia|right; left; assumption].
      + unfold bblk in Hbk.
        set (cc := c - 1 - 4 * sx). set (rr := r - 1 - 4 * sy).
        assert (Hcc : 0 <= cc < 4) by (unfold cc; destruct Hgeo as [(-> & -> & ->)|(-> & -> & ->)]; lia).
        assert (Hrrr : 0 <= rr < 4) by (unfold rr; destruct Hgeo as [(-> & -> & ->)|(-> & -> & ->)]; lia).
        replace (r * s + c) with ((1 + sy * 4 + rr) * s + (1 + sx * 4) + cc) by (unfold cc, rr; lia).
        rewrite In2 by assumption.
        replace ((1 + sy * 4 + rr) * s + (1 + sx * 4) + cc) with (r * s + c) by (unfold cc, rr; lia).
        rewrite Hpf by (unfold bblk; lia).
        replace (X0 + c - 1) with (x + cc) by (unfold x, cc; lia).
        replace (Y0 + r - 1) with (y + rr) by (unfold y, rr; lia).
        rewrite store4x4_in by (try assumption; lia). rewrite Epf by assumption.
        f_equal. f_equal. f_equal; unfold cc, rr; lia.
      + assert (Hlt : bblk (c - 1) (r - 1) < k) by (destruct Hd as [?|[?|?]]; lia).
        unfold bblk in Hbk, Hlt.
        rewrite Out2 by (try intros; destruct Hgeo as [(-> & -> & ->)|(-> & -> & ->)]; lia).
        rewrite store4x4_out by (try assumption; unfold x, y; destruct Hgeo as [(-> & -> & ->)|(-> & -> & ->)]; lia).
        apply Hc; [lia|lia|right; right; exact Hlt].
    - intros c r Hcr Hrr Hge. unfold bblk in Hge.
      rewrite Out2 by (try intros; destruct Hgeo as [(-> & -> & ->)|(-> & -> & ->)]; lia).
      apply Hpf; [lia|lia|unfold bblk; lia].
  Qed.

  Lemma recon_block_pw p sx sy rb : p_w (recon_block p X0 Y0 sx sy pf rb) = p_w p.
  Proof. unfold recon_block. apply store4x4_pw. Qed.
  Lemma recon_block_alen p sx sy rb : alen (p_a (recon_block p X0 Y0 sx sy pf rb)) = alen (p_a p).
  Proof. unfold recon_block. apply store4x4_alen. Qed.
  Lemma recon_block_pbytes p sx sy rb : pbytes p -> pbytes (recon_block p X0 Y0 sx sy pf rb).
  Proof. unfold recon_block. apply pbytes_store4x4. Qed.
  Lemma recon_block_out p sx sy rb x' y' : p_w p = size * mbw -> 0 <= sx < nb -> 0 <= sy < nb -> length rb = 16%nat ->
    x' < p_w p -> ~ (X0 <= x' < X0 + size /\ Y0 <= y' < Y0 + size) ->
    pget (recon_block p X0 Y0 sx sy pf rb) x' y' = pget p x' y'.
  Proof.
    intros Hw Hsx Hsy Lrb Hx' Hout. unfold recon_block.
    apply store4x4_out; try assumption; try reflexivity; destruct Hgeo as [(-> & -> & ->)|(-> & -> & ->)]; nia.
  Qed.

  (* the loop: blocks k .. nb*nb - 1 *)
  Lemma residue_loop resdata base : 0 <= base -> base + nb * nb * 16 <= len resdata ->
    forall n k ws p bs ok,
    Z.of_nat n + k = nb * nb -> 0 <= k -> length bs = n ->
    (forall t, (t < n)%nat -> sub resdata (base + (k + Z.of_nat t) * 16) 16 = fst (idct (nth t bs []))) ->
    (forall t, (t < n)%nat -> res_ok (fst (idct (nth t bs [])))) ->
    big_inv k p ws -> p_w p = size * mbw ->
    exists ws', residue_blocks n k nb base ws s resdata = Ok ws' /\
                big_inv (nb * nb) (fst (recon_blocks p X0 Y0 nb pf bs k ok)) ws'.
  Proof.
    intros Hbase Hlen. induction n as [|n IH]; intros k ws p bs ok Hn Hk Lbs Hres Hok Hinv Hw.
    - destruct bs; [|discriminate]. cbn [residue_blocks recon_blocks fst]. exists ws. split; [reflexivity|].
      replace (nb * nb) with k by lia. exact Hinv.
    - destruct bs as [|b bs]; [discriminate|]. cbn [residue_blocks recon_blocks].
      pose proof (Hres 0%nat ltac:(lia)) as Er. cbn [nth] in Er. replace (k + Z.of_nat 0) with k in Er by lia.
      pose proof (Hok 0%nat ltac:(lia)) as Hrk. cbn [nth] in Hrk.
      rewrite res_block_ok by nia. cbn [bind]. rewrite Er.
      destruct (big_step k p ws (fst (idct b)) ltac:(lia) Hinv Hw (idct_length b) Hrk) as (ws2 & E2 & Hinv2).
      cbv zeta in E2, Hinv2. rewrite E2. cbn [bind].
      destruct (idct b) as [res okb] eqn:Eidct. cbn [fst] in *.
      apply (IH (k + 1) ws2 (recon_block p X0 Y0 (k mod nb) (k / nb) pf res) bs (ok && okb)).
      + lia.
      + lia.
      + cbn [length] in Lbs. lia.
      + intros t Ht. specialize (Hres (S t) ltac:(lia)). cbn [nth] in Hres.
        replace (k + 1 + Z.of_nat t) with (k + Z.of_nat (S t)) by lia. exact Hres.
      + intros t Ht. specialize (Hok (S t) ltac:(lia)). cbn [nth] in Hok. exact Hok.
      + exact Hinv2.
      + rewrite recon_block_pw. exact Hw.
  Qed.

  Lemma recon_blocks_frame : forall bs k p ok,
    p_w p = size * mbw -> 0 <= k -> k + Z.of_nat (length bs) <= nb * nb ->
    let p' := fst (recon_blocks p X0 Y0 nb pf bs k ok) in
    p_w p' = p_w p /\ alen (p_a p') = alen (p_a p) /\ (pbytes p -> pbytes p') /\
    forall x' y', x' < p_w p -> ~ (X0 <= x' < X0 + size /\ Y0 <= y' < Y0 + size) -> pget p' x' y' = pget p x' y'.
  Proof.
    induction bs as [|b bs IH]; intros k p ok Hw Hk Hlen; cbv zeta.
    - cbn [recon_blocks fst]. split; [reflexivity|]. split; [reflexivity|]. split; [auto|]. intros; reflexivity.
    - cbn [recon_blocks]. destruct (idct b) as [res okb] eqn:Eidct.
      assert (Lres : length res = 16%nat) by (pose proof (idct_length b) as L; rewrite Eidct in L; exact L).
      cbn [length] in Hlen.
      destruct (IH (k + 1) (recon_block p X0 Y0 (k mod nb) (k / nb) pf res) (ok && okb)) as (W & A & B & O).
      { rewrite recon_block_pw. exact Hw. } { lia. } { lia. }
      cbv zeta in W, A, B, O. rewrite recon_block_pw in W. rewrite recon_block_alen in A.
      split; [exact W|]. split; [exact A|]. split; [intros Hp; apply B; apply recon_block_pbytes; exact Hp|].
      intros x' y' Hx' Hout. rewrite O by (rewrite ?recon_block_pw; assumption).
      apply recon_block_out; try assumption; destruct Hgeo as [(-> & -> & ->)|(-> & -> & ->)]; lia.
  Qed.
End Big.
