(* VP8 parsing, part 2: read_macroblock_header = Spec.VP8.parse_mb_mode (one macroblock of parse_modes).
   Mode numbers: the crate uses the RFC numbering, Spec.VP8 libwebp's; the trees of the crate are the Spec's with the
   leaves renumbered (VP8_tables: map_leaves ymode_to_rfc / bmode_to_rfc) and the sub-block probability table is the
   Spec's with both contexts renumbered, so every value the Model reads is bmode_to_rfc / ymode_to_rfc of the Spec's. *)
From Coq Require Import ZArith Lia List Bool.
From WebP Require Import Lib.Res Gen.Kernels Gen.Tables Lib.ZBits Lib.Sweep Proofs.C15_num Proofs.C15_ideal Proofs.C15_model
  Proofs.C15_ops Proofs.C15_reqs Proofs.C15_main Spec.RfcBoolDec Spec.BoolDec Spec.VP8Tables Spec.VP8 Model.ArithDec
  Model.Vp8Parse Proofs.VP8_tables Proofs.VP8_parse_base Proofs.VP8_parse_coeffs.
Import ListNotations.
Open Scope Z_scope.

(* ------------------------------------------------------------------------------------------------------------ *)
(* trees with renumbered leaves                                                                                 *)
(* ------------------------------------------------------------------------------------------------------------ *)
Lemma treed_map_leaves (f : Z -> Z) t P : f 0 = 0 -> (forall x, 0 <= x -> 0 <= f x) ->
  forall fuel i s, BoolDec.treed_read_aux fuel (map_leaves f t) P i s
                   = (f (fst (BoolDec.treed_read_aux fuel t P i s)), snd (BoolDec.treed_read_aux fuel t P i s)).
Proof.
  intros F0 Fpos. induction fuel as [|fuel IH]; intros i s; cbn [BoolDec.treed_read_aux]; [cbn [fst snd]; rewrite F0; reflexivity|].
  destruct (BoolDec.read_bool (nth (Z.to_nat (Z.shiftr i 1)) P 0) s) as [b s'].
  set (g := fun v : Z => if 0 <? v then v else - f (- v)).
  assert (Hn : forall k, nth k (map_leaves f t) 0 = g (nth k t 0)).
  { intros k. unfold map_leaves. fold g. rewrite <- (map_nth g t 0 k). f_equal. unfold g. change (0 <? 0) with false. change (- 0) with 0. rewrite F0. reflexivity. }
  rewrite !Hn. unfold g.
  set (j := nth (Z.to_nat (i + b)) t 0).
  destruct (Z.ltb_spec 0 j) as [Pos | Neg].
  - assert (E : (0 <? j) = true) by (apply Z.ltb_lt; lia). rewrite E. apply IH.
  - specialize (Fpos (- j) ltac:(lia)).
    assert (E : (0 <? - f (- j)) = false) by (apply Z.ltb_ge; lia). rewrite E. cbn [fst snd]. f_equal. lia.
Qed.

(* a tree read returns minus a non-positive entry (or 0) *)
Lemma treed_leaf t P hi : 0 <= hi -> (forall x, In x t -> x <= 0 -> - x <= hi) ->
  forall fuel i s, 0 <= fst (BoolDec.treed_read_aux fuel t P i s) <= hi.
Proof.
  intros Hhi Hl. induction fuel as [|fuel IH]; intros i s; cbn [BoolDec.treed_read_aux]; [cbn; lia|].
  destruct (BoolDec.read_bool (nth (Z.to_nat (Z.shiftr i 1)) P 0) s) as [b s'].
  set (j := nth (Z.to_nat (i + b)) t 0).
  destruct (Z.ltb_spec 0 j) as [Pos | Neg]; [apply IH|]. cbn [fst].
  destruct (nth_in_or_default (Z.to_nat (i + b)) t 0) as [Hin | Hd].
  - fold j in Hin. specialize (Hl j Hin Neg). lia.
  - fold j in Hd. lia.
Qed.

Lemma in_leaves_le (t : list Z) hi : forallb (fun x => (0 <? x) || (- x <=? hi)) t = true -> forall x, In x t -> x <= 0 -> - x <= hi.
Proof.
  intros H x Hx Hn. rewrite forallb_forall in H. specialize (H x Hx). apply orb_true_iff in H.
  destruct H as [H | H]; [apply Z.ltb_lt in H; lia | apply Z.leb_le in H; exact H].
Qed.

(* ------------------------------------------------------------------------------------------------------------ *)
(* the crate's trees                                                                                            *)
(* ------------------------------------------------------------------------------------------------------------ *)
Definition mode_ok (m : Z) : Prop := 0 <= m <= 9.

Fixpoint zlist_eqb (a b : list Z) : bool :=
  match a, b with
  | [], [] => true
  | x :: a', y :: b' => (x =? y) && zlist_eqb a' b'
  | _, _ => false
  end.
Lemma zlist_eqb_eq a : forall b, zlist_eqb a b = true -> a = b.
Proof.
  induction a as [|x a IH]; intros [|y b] H; cbn in H; try discriminate; [reflexivity|].
  apply andb_true_iff in H. destruct H as [H1 H2]. apply Z.eqb_eq in H1. subst. f_equal. apply IH. exact H2.
Qed.

(* the sub-block probability rows: 9 bytes each; the crate's table at RFC numbers = the Spec's at libwebp numbers *)
Lemma bpred_rows_sweep :
  forallb (fun a => forallb (fun l =>
    let row := nth (Z.to_nat (bmode_to_rfc l)) (nth (Z.to_nat (bmode_to_rfc a)) vp8_KEYFRAME_BPRED_MODE_PROBS []) [] in
    zlist_eqb row (nthZ (nthZ kBModesProba a []) l []) && (length row =? 9)%nat && forallb byteb row
    && (0 <=? bmode_to_rfc l) && (bmode_to_rfc l <=? 9)) (zrange 10 0)) (zrange 10 0) = true.
Proof. vm_compute. reflexivity. Qed.

Lemma bpred_row_facts a l : mode_ok a -> mode_ok l ->
  let row := nth (Z.to_nat (bmode_to_rfc l)) (nth (Z.to_nat (bmode_to_rfc a)) vp8_KEYFRAME_BPRED_MODE_PROBS []) [] in
  row = nthZ (nthZ kBModesProba a []) l [] /\ length row = 9%nat /\ Forall byte row /\ mode_ok (bmode_to_rfc l).
Proof.
  intros Ha Hl. unfold mode_ok in *.
  pose proof (forallb_zrange _ _ _ bpred_rows_sweep a ltac:(lia)) as H1. cbv beta in H1.
  pose proof (forallb_zrange _ _ _ H1 l ltac:(lia)) as H2. cbv beta zeta in H2.
  apply andb_true_iff in H2; destruct H2 as [H2 HE]. apply andb_true_iff in H2; destruct H2 as [H2 HD].
  apply andb_true_iff in H2; destruct H2 as [H2 HC]. apply andb_true_iff in H2; destruct H2 as [HA HB].
  cbv zeta. split; [apply zlist_eqb_eq; exact HA|]. split; [apply Nat.eqb_eq; exact HB|].
  split; [|split; apply Z.leb_le; assumption].
  rewrite Forall_forall. intros x Hx. apply byteb_spec. rewrite forallb_forall in HC. apply HC. exact Hx.
Qed.

(* rows at RFC numbers directly (for the Model side) *)
Lemma bpred_rows_rfc_sweep :
  forallb (fun a => forallb (fun l =>
    let row := nth (Z.to_nat l) (nth (Z.to_nat a) vp8_KEYFRAME_BPRED_MODE_PROBS []) [] in
    (length row =? 9)%nat && forallb byteb row) (zrange 10 0)) (zrange 10 0) = true.
Proof. vm_compute. reflexivity. Qed.

Lemma bpred_tree_ok row : length row = 9%nat -> Forall byte row -> tree_okb vp8_KEYFRAME_BPRED_MODE_TREE row = true.
Proof. intros Hl Hb. unfold tree_okb. rewrite Hl. rewrite (forallb_byteb row Hb). vm_compute. reflexivity. Qed.

Lemma bpred_nodes_ok a l : mode_ok a -> mode_ok l ->
  exists nodes, KEYFRAME_BPRED_MODE_NODES a l = Ok nodes /\ length nodes = 9%nat /\
    tree_nodes_from vp8_KEYFRAME_BPRED_MODE_TREE (nth (Z.to_nat l) (nth (Z.to_nat a) vp8_KEYFRAME_BPRED_MODE_PROBS []) []) = Ok nodes /\
    tree_okb vp8_KEYFRAME_BPRED_MODE_TREE (nth (Z.to_nat l) (nth (Z.to_nat a) vp8_KEYFRAME_BPRED_MODE_PROBS []) []) = true.
Proof.
  intros Ha Hl. unfold mode_ok in *.
  pose proof (forallb_zrange _ _ _ bpred_rows_rfc_sweep a ltac:(lia)) as H1. cbv beta in H1.
  pose proof (forallb_zrange _ _ _ H1 l ltac:(lia)) as H2. cbv beta zeta in H2.
  apply andb_true_iff in H2. destruct H2 as [H9 Hb]. apply Nat.eqb_eq in H9.
  assert (Hby : Forall byte (nth (Z.to_nat l) (nth (Z.to_nat a) vp8_KEYFRAME_BPRED_MODE_PROBS []) [])).
  { rewrite Forall_forall. intros x Hx. apply byteb_spec. rewrite forallb_forall in Hb. apply Hb. exact Hx. }
  pose proof (bpred_tree_ok _ H9 Hby) as Hok.
  destruct (tree_nodes_from_spec _ _ Hok) as [nodes (E1 & E2 & _)].
  exists nodes. unfold KEYFRAME_BPRED_MODE_NODES.
  rewrite (idx_ok vp8_KEYFRAME_BPRED_MODE_PROBS a []) by (cbn; lia). cbn [bind].
  rewrite (idx_ok _ l []).
  - cbn [bind]. repeat split; try assumption. lia.
  - assert (L10 : forallb (fun a => (length (nth (Z.to_nat a) vp8_KEYFRAME_BPRED_MODE_PROBS []) =? 10)%nat) (zrange 10 0) = true) by (vm_compute; reflexivity).
    pose proof (forallb_zrange _ _ _ L10 a ltac:(lia)) as H. cbv beta in H. apply Nat.eqb_eq in H. lia.
Qed.

Definition bnodes (a l : Z) : list TreeNode := match KEYFRAME_BPRED_MODE_NODES a l with Ok n => n | _ => [] end.

Lemma bpred_leaves : forall q, (q < length vp8_KEYFRAME_BPRED_MODE_TREE)%nat -> nth q vp8_KEYFRAME_BPRED_MODE_TREE 0 <= 0 ->
  - nth q vp8_KEYFRAME_BPRED_MODE_TREE 0 <= 9.
Proof.
  assert (H : forallb (fun q => (0 <? nth q vp8_KEYFRAME_BPRED_MODE_TREE 0) || (- nth q vp8_KEYFRAME_BPRED_MODE_TREE 0 <=? 9)) (seq 0 18) = true)
    by (vm_compute; reflexivity).
  intros q Hq Hn. rewrite forallb_forall in H. specialize (H q ltac:(apply in_seq; cbn in Hq; lia)).
  apply orb_true_iff in H. destruct H as [H | H]; [apply Z.ltb_lt in H; lia | apply Z.leb_le in H; exact H].
Qed.

(* the three fixed node tables *)
Lemma ymode_nodes_ok : exists nodes, KEYFRAME_YMODE_NODES = Ok nodes /\ length nodes = 4%nat /\
  tree_okb vp8_KEYFRAME_YMODE_TREE vp8_KEYFRAME_YMODE_PROBS = true.
Proof. eexists. split; [vm_compute; reflexivity|]. split; vm_compute; reflexivity. Qed.
Lemma uvmode_nodes_ok : exists nodes, KEYFRAME_UV_MODE_NODES = Ok nodes /\ length nodes = 3%nat /\
  tree_okb vp8_KEYFRAME_UV_MODE_TREE vp8_KEYFRAME_UV_MODE_PROBS = true.
Proof. eexists. split; [vm_compute; reflexivity|]. split; vm_compute; reflexivity. Qed.
Definition ynodes : list TreeNode := match KEYFRAME_YMODE_NODES with Ok n => n | _ => [] end.
Definition uvnodes : list TreeNode := match KEYFRAME_UV_MODE_NODES with Ok n => n | _ => [] end.

Lemma seg_tree_ok sp : length sp = 3%nat -> Forall byte sp -> tree_okb vp8_SEGMENT_ID_TREE sp = true.
Proof. intros Hl Hb. unfold tree_okb. rewrite Hl. rewrite (forallb_byteb sp Hb). vm_compute. reflexivity. Qed.

Lemma leaves_le_of t hi : forallb (fun q => (0 <? nth q t 0) || (- nth q t 0 <=? hi)) (seq 0 (length t)) = true ->
  forall q, (q < length t)%nat -> nth q t 0 <= 0 -> - nth q t 0 <= hi.
Proof.
  intros H q Hq Hn. rewrite forallb_forall in H. specialize (H q ltac:(apply in_seq; lia)).
  apply orb_true_iff in H. destruct H as [H | H]; [apply Z.ltb_lt in H; lia | apply Z.leb_le in H; exact H].
Qed.

(* ------------------------------------------------------------------------------------------------------------ *)
(* the macroblock header as a gprog (Model level: RFC mode numbers, the crate's node tables)                    *)
(* ------------------------------------------------------------------------------------------------------------ *)
Definition tree0 (nodes : list TreeNode) : prog := tree_prog (S (length nodes)) nodes 0.

(* the 4 x 4 sub-block modes: tb = top[mbx].bpred, lb = left.bpred, mbp = mb.bpred *)
Fixpoint G_brow (nx : nat) (x y : Z) (tb lb mbp : list Z) : gprog (list Z * list Z * list Z) :=
  match nx with
  | O => GRet (tb, lb, mbp)
  | S m =>
    gbind (lift (tree0 (bnodes (nth (Z.to_nat (12 + x)) tb 0) (nth (Z.to_nat y) lb 0)))) (fun mode =>
      G_brow m (x + 1) y (updZ tb (12 + x) mode) (updZ lb y mode) (updZ mbp (x + y * 4) mode))
  end.
Fixpoint G_brows (ny : nat) (y : Z) (tb lb mbp : list Z) : gprog (list Z * list Z * list Z) :=
  match ny with
  | O => GRet (tb, lb, mbp)
  | S m => gbind (G_brow 4 0 y tb lb mbp) (fun r => G_brows m (y + 1) (fst (fst r)) (snd (fst r)) (snd r))
  end.

(* for i in 0..4 { mb.bpred[12 + i] = mode; left.bpred[i] = mode } *)
Fixpoint fill4 (n : nat) (i : Z) (lb mbp : list Z) (mode : Z) : list Z * list Z :=
  match n with O => (lb, mbp) | S m => fill4 m (i + 1) (updZ lb i mode) (updZ mbp (12 + i) mode) mode end.

Definition intra_of (lm : Z) : Z := match LumaMode_into_intra lm with Some m => m | None => 0 end.

(* result: segment id, skip flag, luma mode, left.bpred, mb.bpred, chroma mode *)
Definition G_mbh (segnodes : option (list TreeNode)) (skipp : option Z) (tb lb : list Z)
  : gprog (Z * bool * Z * list Z * list Z * Z) :=
  gbind (match segnodes with Some nodes => lift (tree0 nodes) | None => GRet 0 end) (fun id =>
  gbind (match skipp with Some p => GRead p (fun b => GRet b) | None => GRet false end) (fun skipped =>
  gbind (lift (tree0 ynodes)) (fun luma =>
  gbind (if luma =? 4 then gbind (G_brows 4 0 tb lb (repeat 0 16)) (fun r => GRet (snd (fst r), snd r))
         else GRet (fill4 4 0 lb (repeat 0 16) (intra_of luma))) (fun lm =>
  gbind (lift (tree0 uvnodes)) (fun chroma => GRet (id, skipped, luma, fst lm, snd lm, chroma)))))).

(* ---- well-formed mode lists ---- *)
Definition modes_ok (l : list Z) : Prop := Forall mode_ok l.

Lemma modes_ok_upd_nat l : forall n m, modes_ok l -> mode_ok m -> modes_ok (upd l n m).
Proof.
  unfold modes_ok. induction l as [|x l IH]; intros n m Hl Hm; [constructor|].
  destruct n as [|n]; cbn [upd]; inversion Hl; subst; constructor; auto.
Qed.
Lemma modes_ok_upd l i m : modes_ok l -> mode_ok m -> modes_ok (updZ l i m).
Proof. unfold updZ. apply modes_ok_upd_nat. Qed.

Lemma modes_ok_nth l i : modes_ok l -> mode_ok (nth i l 0).
Proof.
  intros H. destruct (nth_in_or_default i l 0) as [Hin | ->]; [|unfold mode_ok; lia].
  unfold modes_ok in H. rewrite Forall_forall in H. apply H. exact Hin.
Qed.

Lemma tree0_range_b a l {St} (bit : St -> Z -> bool * St) s : mode_ok a -> mode_ok l ->
  mode_ok (fst (interpP bit (tree0 (bnodes a l)) s)).
Proof.
  intros Ha Hl. destruct (bpred_nodes_ok a l Ha Hl) as [nodes (E1 & E2 & E3 & E4)].
  unfold bnodes. rewrite E1. unfold tree0, mode_ok.
  exact (tree_prog_range _ _ nodes 9 E4 E3 ltac:(lia) bpred_leaves bit _ 0 s).
Qed.

Lemma tree0_probs_b a l : mode_ok a -> mode_ok l -> probs_ok (tree0 (bnodes a l)).
Proof.
  intros Ha Hl. destruct (bpred_nodes_ok a l Ha Hl) as [nodes (E1 & E2 & E3 & E4)].
  unfold bnodes. rewrite E1. unfold tree0. exact (tree_probs_of _ _ nodes E4 E3 _ _).
Qed.

Lemma idx_out {A} (l : list A) i : ~ (0 <= i < Z.of_nat (length l)) -> idx l i = Panic PIndex.
Proof.
  intros H. unfold idx. destruct (Z.ltb_spec i 0); [reflexivity|].
  assert (E : nth_error l (Z.to_nat i) = None) by (apply nth_error_None; lia). rewrite E. reflexivity.
Qed.

Lemma bnodes_out a l : ~ (mode_ok a /\ mode_ok l) -> bnodes a l = [].
Proof.
  intros H. unfold bnodes, KEYFRAME_BPRED_MODE_NODES.
  destruct (Z.le_gt_cases 0 a); [destruct (Z.le_gt_cases a 9)|]; try (rewrite (idx_out _ a) by (cbn; lia); reflexivity).
  rewrite (idx_ok vp8_KEYFRAME_BPRED_MODE_PROBS a []) by (cbn; lia). cbn [bind].
  assert (L10 : forallb (fun a => (length (nth (Z.to_nat a) vp8_KEYFRAME_BPRED_MODE_PROBS []) =? 10)%nat) (zrange 10 0) = true) by (vm_compute; reflexivity).
  pose proof (forallb_zrange _ _ _ L10 a ltac:(lia)) as HL. cbv beta in HL. apply Nat.eqb_eq in HL.
  rewrite idx_out; [reflexivity|]. rewrite HL. unfold mode_ok in H. lia.
Qed.

Lemma tree0_probs_any a l : probs_ok (tree0 (bnodes a l)).
Proof.
  destruct (Z.le_gt_cases 0 a); [destruct (Z.le_gt_cases a 9); [destruct (Z.le_gt_cases 0 l); [destruct (Z.le_gt_cases l 9)|]|]|];
    try (rewrite bnodes_out by (unfold mode_ok; lia); exact I).
  apply tree0_probs_b; unfold mode_ok; lia.
Qed.

Lemma G_brow_probs nx : forall x y tb lb mbp, gprobs_ok (G_brow nx x y tb lb mbp).
Proof.
  induction nx as [|nx IH]; intros x y tb lb mbp; cbn [G_brow]; [exact I|].
  apply gprobs_bind; [apply gprobs_lift; apply tree0_probs_any | intros mode; apply IH].
Qed.

Lemma G_brows_probs ny : forall y tb lb mbp, gprobs_ok (G_brows ny y tb lb mbp).
Proof.
  induction ny as [|ny IH]; intros y tb lb mbp; cbn [G_brows]; [exact I|].
  apply gprobs_bind; [apply G_brow_probs | intros r; apply IH].
Qed.

Lemma G_mbh_probs segnodes skipp tb lb :
  (forall nodes, segnodes = Some nodes -> probs_ok (tree0 nodes)) -> (forall p, skipp = Some p -> 0 <= p <= 255) ->
  gprobs_ok (G_mbh segnodes skipp tb lb).
Proof.
  intros Hseg Hskip. unfold G_mbh.
  apply gprobs_bind; [destruct segnodes as [nodes|]; [apply gprobs_lift; apply Hseg; reflexivity | exact I]|]. intros id.
  apply gprobs_bind; [destruct skipp as [p|]; [cbn [gprobs_ok]; specialize (Hskip p eq_refl); repeat split; lia | exact I]|]. intros skipped.
  destruct ymode_nodes_ok as [yn (Ey & Ly & Oy)]. destruct uvmode_nodes_ok as [un (Eu & Lu & Ou)].
  apply gprobs_bind.
  { apply gprobs_lift. unfold ynodes. rewrite Ey. unfold KEYFRAME_YMODE_NODES in Ey. exact (tree_probs_of _ _ yn Oy Ey _ _). }
  intros luma. apply gprobs_bind.
  { destruct (luma =? 4); [|exact I]. apply gprobs_bind; [apply G_brows_probs | intros r; exact I]. }
  intros lm. apply gprobs_bind; [|intros c; exact I].
  apply gprobs_lift. unfold uvnodes. rewrite Eu. unfold KEYFRAME_UV_MODE_NODES in Eu. exact (tree_probs_of _ _ un Ou Eu _ _).
Qed.

(* ------------------------------------------------------------------------------------------------------------ *)
(* (M) the Model function                                                                                       *)
(* ------------------------------------------------------------------------------------------------------------ *)
Lemma upd_upd {A} (l : list A) : forall n x y, upd (upd l n x) n y = upd l n y.
Proof. induction l as [|z l IH]; intros n x y; [reflexivity|]. destruct n; cbn [upd]; [reflexivity | rewrite IH; reflexivity]. Qed.

Lemma nth_error_upd_same {A} (l : list A) : forall n x, (n < length l)%nat -> nth_error (upd l n x) n = Some x.
Proof. induction l as [|z l IH]; intros n x H; [cbn in H; lia|]. destruct n; [reflexivity|]. cbn [upd nth_error]. apply IH. cbn in H. lia. Qed.

Lemma idx_of_nth_error {A} (l : list A) i x : 0 <= i -> nth_error l (Z.to_nat i) = Some x -> idx l i = Ok x.
Proof. intros Hi E. unfold idx. destruct (Z.ltb_spec i 0); [lia|]. rewrite E. reflexivity. Qed.

Lemma nth_error_lt_len {A} (l : list A) n x : nth_error l n = Some x -> (n < length l)%nat.
Proof. intros E. apply nth_error_Some. rewrite E. discriminate. Qed.

(* the state after the context updates of the sub-block loop *)
Definition put_ctx (v : Vp8) (mbx : Z) (t : MacroBlock) (tb lb : list Z) (d : Dec) : Vp8 :=
  set_left (set_top (set_b v d) (updZ (v_top v) mbx (mb_set_bpred t tb))) (mb_set_bpred (v_left v) lb).

Ltac vcbv := cbv [put_ctx set_left set_top set_b v_top v_left v_r v_b v_mbwidth v_mbheight v_frame v_segments_enabled v_segments_update_map
    v_segment v_ref_delta v_mode_delta v_partitions v_num_partitions v_segment_tree_nodes v_token_probs v_prob_intra v_prob_skip_false].

Lemma put_ctx_top v mbx t tb lb d : v_top (put_ctx v mbx t tb lb d) = updZ (v_top v) mbx (mb_set_bpred t tb).
Proof. destruct v. reflexivity. Qed.
Lemma put_ctx_left v mbx t tb lb d : v_left (put_ctx v mbx t tb lb d) = mb_set_bpred (v_left v) lb.
Proof. destruct v. reflexivity. Qed.
Lemma put_ctx_b v mbx t tb lb d : v_b (put_ctx v mbx t tb lb d) = d.
Proof. destruct v. reflexivity. Qed.

Lemma put_ctx_twice v mbx t tb1 lb1 d1 tb lb d :
  put_ctx (put_ctx v mbx t tb1 lb1 d1) mbx (mb_set_bpred t tb1) tb lb d = put_ctx v mbx t tb lb d.
Proof.
  destruct v as [vr vb vw vh vf vse vsum vsg vrd vmd vp vnp vst vtp vpi vpsf vtop vleft]. vcbv.
  unfold updZ. rewrite upd_upd. reflexivity.
Qed.

Lemma put_ctx_id v mbx t : nth_error (v_top v) (Z.to_nat mbx) = Some t ->
  put_ctx v mbx t (mb_bpred t) (mb_bpred (v_left v)) (v_b v) = v.
Proof.
  intros Et. destruct v as [vr vb vw vh vf vse vsum vsg vrd vmd vp vnp vst vtp vpi vpsf vtop vleft]. vcbv. cbn [v_top] in Et.
  replace (mb_set_bpred t (mb_bpred t)) with t by (destruct t; reflexivity).
  replace (mb_set_bpred vleft (mb_bpred vleft)) with vleft by (destruct vleft; reflexivity).
  replace (updZ vtop mbx t) with vtop; [reflexivity|].
  unfold updZ. rewrite <- (upd_nth_id vtop (Z.to_nat mbx) t) at 1. f_equal. apply nth_error_nth. exact Et.
Qed.

Lemma read_with_tree_ok d t p nodes : wsafe d -> big d -> tree_okb t p = true -> tree_nodes_from t p = Ok nodes ->
  read_with_tree d nodes = Ok (interpP cold_pure (tree0 nodes) d).
Proof.
  intros Hw Hb Hok En. destruct (tree_nodes_from_spec t p Hok) as [nodes' (E1 & E2 & E3)]. rewrite En in E1. injection E1 as <-.
  destruct (tree_okb_spec t p Hok) as (_ & Hm & _).
  unfold read_with_tree. rewrite (E3 0%nat ltac:(lia)). cbn [of_option bind].
  exact (m_read_tree d t p nodes 0 _ Hw Hb Hok En ltac:(lia) (E3 0%nat ltac:(lia))).
Qed.

Lemma bpred_row_ok nx : forall x y v mb mbx t,
  0 <= mbx -> nth_error (v_top v) (Z.to_nat mbx) = Some t ->
  length (mb_bpred t) = 16%nat -> length (mb_bpred (v_left v)) = 16%nat -> length (mb_bpred mb) = 16%nat ->
  modes_ok (mb_bpred t) -> modes_ok (mb_bpred (v_left v)) ->
  0 <= x -> x + Z.of_nat nx = 4 -> 0 <= y <= 3 -> wsafe (v_b v) -> big (v_b v) ->
  bpred_row nx x y v mb mbx
  = Ok (let '(r, d') := interpG cold_pure (G_brow nx x y (mb_bpred t) (mb_bpred (v_left v)) (mb_bpred mb)) (v_b v) in
        (put_ctx v mbx t (fst (fst r)) (snd (fst r)) d', mb_set_bpred mb (snd r))).
Proof.
  induction nx as [|nx IH]; intros x y v mb mbx t Hmbx Et Lt Ll Lm Mt Ml Hx Hxn Hy Hw Hbig.
  - cbn [bpred_row G_brow interpG fst snd]. f_equal. f_equal; [|destruct mb; reflexivity].
    symmetry. apply put_ctx_id. exact Et.
  - cbn [bpred_row G_brow].
    pose proof (nth_error_lt_len _ _ _ Et) as Hlen.
    unfold top_bpred. rewrite (idx_of_nth_error _ mbx t Hmbx Et). cbn [bind].
    rewrite (idx_ok (mb_bpred t) (12 + x) 0) by lia. cbn [bind].
    rewrite (idx_ok (mb_bpred (v_left v)) y 0) by lia. cbn [bind].
    set (top := nth (Z.to_nat (12 + x)) (mb_bpred t) 0). set (left := nth (Z.to_nat y) (mb_bpred (v_left v)) 0).
    assert (Htop : mode_ok top) by (apply modes_ok_nth; exact Mt).
    assert (Hleft : mode_ok left) by (apply modes_ok_nth; exact Ml).
    destruct (bpred_nodes_ok top left Htop Hleft) as [nodes (E1 & E2 & E3 & E4)].
    rewrite E1. cbn [bind].
    rewrite (read_with_tree_ok (v_b v) _ _ nodes Hw Hbig E4 E3). cbn [bind].
    rewrite interpG_bind, interpG_lift. unfold bnodes at 1. rewrite E1.
    pose proof (tree0_range_b top left cold_pure (v_b v) Htop Hleft) as Hm. unfold bnodes in Hm. rewrite E1 in Hm.
    destruct (cold_prog_facts (tree0 nodes) (v_b v) Hw (tree_probs_of _ _ nodes E4 E3 _ _)) as [W1 C1].
    destruct (interpP cold_pure (tree0 nodes) (v_b v)) as [intra b1]. cbn [fst snd] in *.
    unfold IntraMode_from_i8. unfold mode_ok in Hm.
    assert (X : (0 <=? intra) && (intra <=? 9) = true) by (apply andb_true_iff; split; apply Z.leb_le; lia). rewrite X. cbn [bind].
    rewrite set_idx_ok by lia. cbn [bind].
    unfold set_top_bpred. cbn [v_top set_b].
    rewrite (idx_of_nth_error _ mbx t Hmbx Et). cbn [bind].
    rewrite set_idx_ok by lia. cbn [bind]. rewrite set_idx_ok by lia. cbn [bind].
    unfold set_left_bpred. cbn [v_left set_top set_b]. rewrite set_idx_ok by lia. cbn [bind].
    (* one step done: the state is put_ctx of the updated lists *)
    change (set_left (set_top (set_b v b1) (updZ (v_top v) mbx (mb_set_bpred t (updZ (mb_bpred t) (12 + x) intra))))
                     (mb_set_bpred (v_left v) (updZ (mb_bpred (v_left v)) y intra)))
      with (put_ctx v mbx t (updZ (mb_bpred t) (12 + x) intra) (updZ (mb_bpred (v_left v)) y intra) b1).
    set (v3 := put_ctx v mbx t (updZ (mb_bpred t) (12 + x) intra) (updZ (mb_bpred (v_left v)) y intra) b1).
    assert (Et3 : nth_error (v_top v3) (Z.to_nat mbx) = Some (mb_set_bpred t (updZ (mb_bpred t) (12 + x) intra))).
    { unfold v3. rewrite put_ctx_top. unfold updZ at 1. apply nth_error_upd_same. exact Hlen. }
    assert (El3 : v_left v3 = mb_set_bpred (v_left v) (updZ (mb_bpred (v_left v)) y intra)) by (unfold v3; apply put_ctx_left).
    assert (Eb3 : v_b v3 = b1) by (unfold v3; apply put_ctx_b).
    rewrite (IH (x + 1) y v3 (mb_set_bpred mb (updZ (mb_bpred mb) (x + y * 4) intra)) mbx _ Hmbx Et3);
      rewrite ?El3, ?Eb3; cbn [mb_bpred mb_set_bpred]; try (unfold updZ; rewrite ?upd_length; assumption); try lia;
      try (apply modes_ok_upd; assumption); try exact W1; try (apply (big_chunks (v_b v)); assumption).
    destruct (interpG cold_pure _ b1) as [r d']. f_equal. f_equal. unfold v3. apply put_ctx_twice.
Qed.

Lemma updZ_length {A} (l : list A) i x : length (updZ l i x) = length l.
Proof. unfold updZ. apply upd_length. Qed.

(* what the sub-block loops preserve, for any bit reader *)
Lemma G_brow_inv {St} (bit : St -> Z -> bool * St) nx : forall x y tb lb mbp s, modes_ok tb -> modes_ok lb -> modes_ok mbp ->
  let r := fst (interpG bit (G_brow nx x y tb lb mbp) s) in
  length (fst (fst r)) = length tb /\ length (snd (fst r)) = length lb /\ length (snd r) = length mbp /\
  modes_ok (fst (fst r)) /\ modes_ok (snd (fst r)) /\ modes_ok (snd r).
Proof.
  induction nx as [|nx IH]; intros x y tb lb mbp s Ht Hl Hm; cbn [G_brow]; [cbn [interpG fst snd]; repeat split; assumption|].
  cbv zeta. rewrite interpG_bind, interpG_lift.
  pose proof (tree0_range_b (nth (Z.to_nat (12 + x)) tb 0) (nth (Z.to_nat y) lb 0) bit s (modes_ok_nth _ _ Ht) (modes_ok_nth _ _ Hl)) as Hmode.
  destruct (interpP bit (tree0 (bnodes (nth (Z.to_nat (12 + x)) tb 0) (nth (Z.to_nat y) lb 0))) s) as [mode s1]. cbn [fst] in Hmode.
  specialize (IH (x + 1) y (updZ tb (12 + x) mode) (updZ lb y mode) (updZ mbp (x + y * 4) mode) s1
                 (modes_ok_upd _ _ _ Ht Hmode) (modes_ok_upd _ _ _ Hl Hmode) (modes_ok_upd _ _ _ Hm Hmode)).
  cbv zeta in IH. rewrite !updZ_length in IH. exact IH.
Qed.

Lemma G_brows_inv {St} (bit : St -> Z -> bool * St) ny : forall y tb lb mbp s, modes_ok tb -> modes_ok lb -> modes_ok mbp ->
  let r := fst (interpG bit (G_brows ny y tb lb mbp) s) in
  length (fst (fst r)) = length tb /\ length (snd (fst r)) = length lb /\ length (snd r) = length mbp /\
  modes_ok (fst (fst r)) /\ modes_ok (snd (fst r)) /\ modes_ok (snd r).
Proof.
  induction ny as [|ny IH]; intros y tb lb mbp s Ht Hl Hm; cbn [G_brows]; [cbn [interpG fst snd]; repeat split; assumption|].
  cbv zeta. rewrite interpG_bind.
  pose proof (G_brow_inv bit 4 0 y tb lb mbp s Ht Hl Hm) as H1. cbv zeta in H1.
  destruct (interpG bit (G_brow 4 0 y tb lb mbp) s) as [r s1]. cbn [fst] in H1.
  destruct H1 as (L1 & L2 & L3 & M1 & M2 & M3).
  specialize (IH (y + 1) _ _ _ s1 M1 M2 M3). cbv zeta in IH. rewrite L1, L2, L3 in IH. exact IH.
Qed.

Lemma bpred_rows_ok ny : forall y v mb mbx t,
  0 <= mbx -> nth_error (v_top v) (Z.to_nat mbx) = Some t ->
  length (mb_bpred t) = 16%nat -> length (mb_bpred (v_left v)) = 16%nat -> length (mb_bpred mb) = 16%nat ->
  modes_ok (mb_bpred t) -> modes_ok (mb_bpred (v_left v)) -> modes_ok (mb_bpred mb) ->
  0 <= y -> y + Z.of_nat ny = 4 -> wsafe (v_b v) -> big (v_b v) ->
  bpred_rows ny y v mb mbx
  = Ok (let '(r, d') := interpG cold_pure (G_brows ny y (mb_bpred t) (mb_bpred (v_left v)) (mb_bpred mb)) (v_b v) in
        (put_ctx v mbx t (fst (fst r)) (snd (fst r)) d', mb_set_bpred mb (snd r))).
Proof.
  induction ny as [|ny IH]; intros y v mb mbx t Hmbx Et Lt Ll Lm Mt Ml Mm Hy Hyn Hw Hbig.
  - cbn [bpred_rows G_brows interpG fst snd]. f_equal. f_equal; [|destruct mb; reflexivity].
    symmetry. apply put_ctx_id. exact Et.
  - cbn [bpred_rows G_brows].
    rewrite (bpred_row_ok 4 0 y v mb mbx t Hmbx Et Lt Ll Lm Mt Ml) by (try assumption; lia).
    rewrite interpG_bind.
    pose proof (G_brow_inv cold_pure 4 0 y _ _ _ (v_b v) Mt Ml Mm) as Inv. cbv zeta in Inv.
    destruct (cold_gprog_facts (G_brow 4 0 y (mb_bpred t) (mb_bpred (v_left v)) (mb_bpred mb)) (v_b v) Hw (G_brow_probs _ _ _ _ _ _)) as [W1 C1].
    destruct (interpG cold_pure (G_brow 4 0 y (mb_bpred t) (mb_bpred (v_left v)) (mb_bpred mb)) (v_b v)) as [r d1].
    cbn [fst snd bind] in *. destruct Inv as (L1 & L2 & L3 & M1 & M2 & M3).
    pose proof (nth_error_lt_len _ _ _ Et) as Hlen.
    set (v1 := put_ctx v mbx t (fst (fst r)) (snd (fst r)) d1).
    assert (Et1 : nth_error (v_top v1) (Z.to_nat mbx) = Some (mb_set_bpred t (fst (fst r)))).
    { unfold v1. rewrite put_ctx_top. unfold updZ. apply nth_error_upd_same. exact Hlen. }
    assert (El1 : v_left v1 = mb_set_bpred (v_left v) (snd (fst r))) by (unfold v1; apply put_ctx_left).
    assert (Eb1 : v_b v1 = d1) by (unfold v1; apply put_ctx_b).
    rewrite (IH (y + 1) v1 (mb_set_bpred mb (snd r)) mbx _ Hmbx Et1);
      rewrite ?El1, ?Eb1; cbn [mb_bpred mb_set_bpred]; try assumption; try lia; try (apply (big_chunks (v_b v)); assumption).
    destruct (interpG cold_pure _ d1) as [r2 d2]. f_equal. f_equal. unfold v1. apply put_ctx_twice.
Qed.

Lemma set_left_twice v a b : set_left (set_left v a) b = set_left v b.
Proof. destruct v. reflexivity. Qed.
Lemma v_left_set_left v a : v_left (set_left v a) = a.
Proof. destruct v. reflexivity. Qed.

Lemma fill_modes_ok n : forall i v mb mode, 0 <= i -> i + Z.of_nat n <= 4 ->
  length (mb_bpred (v_left v)) = 16%nat -> length (mb_bpred mb) = 16%nat ->
  fill_modes n i v mb mode
  = Ok (let lm := fill4 n i (mb_bpred (v_left v)) (mb_bpred mb) mode in
        (set_left v (mb_set_bpred (v_left v) (fst lm)), mb_set_bpred mb (snd lm))).
Proof.
  induction n as [|n IH]; intros i v mb mode Hi Hn Ll Lm; cbn [fill_modes fill4].
  - cbn [fst snd]. f_equal. f_equal; [destruct v as [? ? ? ? ? ? ? ? ? ? ? ? ? ? ? ? ? vl]; destruct vl; reflexivity | destruct mb; reflexivity].
  - rewrite set_idx_ok by lia. cbn [bind]. unfold set_left_bpred. rewrite set_idx_ok by lia. cbn [bind].
    rewrite IH; rewrite ?v_left_set_left; cbn [mb_bpred mb_set_bpred]; try (unfold updZ; rewrite upd_length; assumption); try lia.
    cbv zeta. rewrite set_left_twice. reflexivity.
Qed.

Lemma fill4_inv n : forall i lb mbp mode, modes_ok lb -> modes_ok mbp -> mode_ok mode ->
  length (fst (fill4 n i lb mbp mode)) = length lb /\ length (snd (fill4 n i lb mbp mode)) = length mbp /\
  modes_ok (fst (fill4 n i lb mbp mode)) /\ modes_ok (snd (fill4 n i lb mbp mode)).
Proof.
  induction n as [|n IH]; intros i lb mbp mode Hl Hm Hmode; cbn [fill4 fst snd]; [repeat split; assumption|].
  specialize (IH (i + 1) (updZ lb i mode) (updZ mbp (12 + i) mode) mode (modes_ok_upd _ _ _ Hl Hmode) (modes_ok_upd _ _ _ Hm Hmode) Hmode).
  rewrite !updZ_length in IH. exact IH.
Qed.

(* ---- the whole function ---- *)
(* normal form of the states the function goes through: only b, top and left change *)
Definition st (v : Vp8) (d : Dec) (tops : list MacroBlock) (l : MacroBlock) : Vp8 := set_left (set_top (set_b v d) tops) l.
Lemma st_eta v : v = st v (v_b v) (v_top v) (v_left v). Proof. destruct v; reflexivity. Qed.
Lemma st_b v d tops l : v_b (st v d tops l) = d. Proof. destruct v; reflexivity. Qed.
Lemma st_top v d tops l : v_top (st v d tops l) = tops. Proof. destruct v; reflexivity. Qed.
Lemma st_left v d tops l : v_left (st v d tops l) = l. Proof. destruct v; reflexivity. Qed.
Lemma st_frame v d tops l : v_frame (st v d tops l) = v_frame v. Proof. destruct v; reflexivity. Qed.
Lemma st_se v d tops l : v_segments_enabled (st v d tops l) = v_segments_enabled v. Proof. destruct v; reflexivity. Qed.
Lemma st_sum v d tops l : v_segments_update_map (st v d tops l) = v_segments_update_map v. Proof. destruct v; reflexivity. Qed.
Lemma st_stn v d tops l : v_segment_tree_nodes (st v d tops l) = v_segment_tree_nodes v. Proof. destruct v; reflexivity. Qed.
Lemma st_psf v d tops l : v_prob_skip_false (st v d tops l) = v_prob_skip_false v. Proof. destruct v; reflexivity. Qed.
Lemma st_pi v d tops l : v_prob_intra (st v d tops l) = v_prob_intra v. Proof. destruct v; reflexivity. Qed.
Lemma set_b_st v d tops l d' : set_b (st v d tops l) d' = st v d' tops l. Proof. destruct v; reflexivity. Qed.
Lemma set_top_st v d tops l tops' : set_top (st v d tops l) tops' = st v d tops' l. Proof. destruct v; reflexivity. Qed.
Lemma set_left_st v d tops l l' : set_left (st v d tops l) l' = st v d tops l'. Proof. destruct v; reflexivity. Qed.
Lemma put_ctx_st v d tops l mbx t tb lb d' :
  put_ctx (st v d tops l) mbx t tb lb d' = st v d' (updZ tops mbx (mb_set_bpred t tb)) (mb_set_bpred l lb).
Proof. destruct v; reflexivity. Qed.
Lemma st_st v d tops l d' tops' l' : st (st v d tops l) d' tops' l' = st v d' tops' l'. Proof. destruct v; reflexivity. Qed.
Global Hint Rewrite st_st st_b st_top st_left st_frame st_se st_sum st_stn st_psf st_pi set_b_st set_top_st set_left_st put_ctx_st : stdb.

Lemma ymode_leaves : forall q, (q < length vp8_KEYFRAME_YMODE_TREE)%nat -> nth q vp8_KEYFRAME_YMODE_TREE 0 <= 0 -> - nth q vp8_KEYFRAME_YMODE_TREE 0 <= 4.
Proof. apply leaves_le_of. vm_compute. reflexivity. Qed.
Lemma uvmode_leaves : forall q, (q < length vp8_KEYFRAME_UV_MODE_TREE)%nat -> nth q vp8_KEYFRAME_UV_MODE_TREE 0 <= 0 -> - nth q vp8_KEYFRAME_UV_MODE_TREE 0 <= 3.
Proof. apply leaves_le_of. vm_compute. reflexivity. Qed.
Lemma seg_leaves : forall q, (q < length vp8_SEGMENT_ID_TREE)%nat -> nth q vp8_SEGMENT_ID_TREE 0 <= 0 -> - nth q vp8_SEGMENT_ID_TREE 0 <= 3.
Proof. apply leaves_le_of. vm_compute. reflexivity. Qed.

Lemma intra_of_ok lm : 0 <= lm <= 3 -> LumaMode_into_intra lm = Some (intra_of lm) /\ mode_ok (intra_of lm).
Proof.
  intros H. assert (C : lm = 0 \/ lm = 1 \/ lm = 2 \/ lm = 3) by lia.
  destruct C as [-> | [-> | [-> | ->]]]; (split; [reflexivity | unfold mode_ok; vm_compute; split; discriminate]).
Qed.

(* the segment-id tree of the state: built from three byte probabilities *)
Definition seg_nodes_ok (v : Vp8) : Prop :=
  exists sp, length sp = 3%nat /\ Forall byte sp /\ tree_nodes_from vp8_SEGMENT_ID_TREE sp = Ok (v_segment_tree_nodes v).

Definition mbh_seg (v : Vp8) : option (list TreeNode) :=
  if v_segments_enabled v && v_segments_update_map v then Some (v_segment_tree_nodes v) else None.

Definition mbh_result (v : Vp8) (mbx : Z) (t : MacroBlock) (rr : Z * bool * Z * list Z * list Z * Z) (d' : Dec) : res (MacroBlock * Vp8) :=
  let '(id, skipped, luma, lb', mbp', chroma) := rr in
  if is_past_eof d' then Err EBitStreamError else
  Ok (mkMB mbp' (repeat 0 9) luma chroma id skipped false,
      st v d' (updZ (v_top v) mbx (mkMB mbp' (mb_complexity t) luma chroma (mb_segmentid t) (mb_coeffs_skipped t) (mb_non_zero_coeffs t)))
         (mb_set_bpred (v_left v) lb')).

Lemma mbh_model_st v0 d tops l mbx t :
  fi_keyframe (v_frame v0) = true ->
  (v_segments_enabled v0 && v_segments_update_map v0 = true -> seg_nodes_ok v0) ->
  (forall p, v_prob_skip_false v0 = Some p -> 0 <= p <= 255) ->
  0 <= mbx -> nth_error tops (Z.to_nat mbx) = Some t ->
  length (mb_bpred t) = 16%nat -> length (mb_bpred l) = 16%nat -> modes_ok (mb_bpred t) -> modes_ok (mb_bpred l) ->
  wsafe d -> big d ->
  read_macroblock_header (st v0 d tops l) mbx
  = (let '(rr, d') := interpG cold_pure (G_mbh (mbh_seg v0) (v_prob_skip_false v0) (mb_bpred t) (mb_bpred l)) d in
     mbh_result (st v0 d tops l) mbx t rr d').
Proof.
  intros Hkey Hseg Hskip Hmbx Et Lt Ll Mt Ml Hw Hbig.
  unfold read_macroblock_header, G_mbh, mbh_seg. autorewrite with stdb.
  (* segment id *)
  rewrite !interpG_bind.
  assert (Hstep1 : exists id d1, 0 <= id <= 3 /\ wsafe d1 /\ big d1 /\
            (if v_segments_enabled v0 && v_segments_update_map v0
             then bind (read_with_tree d (v_segment_tree_nodes v0)) (fun '(id, b1) => Ok (mb_set_segmentid MacroBlock_default (wrapU 8 id), set_b (st v0 d tops l) b1))
             else Ok (MacroBlock_default, st v0 d tops l)) = Ok (mb_set_segmentid MacroBlock_default id, st v0 d1 tops l) /\
            interpG cold_pure (if v_segments_enabled v0 && v_segments_update_map v0 then lift (tree0 (v_segment_tree_nodes v0)) else GRet 0) d = (id, d1)).
  { destruct (v_segments_enabled v0 && v_segments_update_map v0) eqn:Ese.
    - destruct (Hseg eq_refl) as [sp (L3 & Bsp & En)]. pose proof (seg_tree_ok sp L3 Bsp) as Hok.
      rewrite (read_with_tree_ok d _ _ _ Hw Hbig Hok En). rewrite interpG_lift.
      pose proof (tree_prog_range _ _ _ 3 Hok En ltac:(lia) seg_leaves cold_pure (S (length (v_segment_tree_nodes v0))) 0 d) as Hr.
      destruct (cold_prog_facts (tree0 (v_segment_tree_nodes v0)) d Hw (tree_probs_of _ _ _ Hok En _ _)) as [W1 C1].
      fold (tree0 (v_segment_tree_nodes v0)) in Hr.
      destruct (interpP cold_pure (tree0 (v_segment_tree_nodes v0)) d) as [id d1]. cbn [fst snd bind] in *.
      exists id, d1. rewrite wrapU_small by (change (2 ^ 8) with 256; lia). autorewrite with stdb.
      split; [lia|]. split; [exact W1|]. split; [apply (big_chunks d); assumption|]. split; reflexivity.
    - exists 0, d. cbn [interpG]. split; [lia|]. split; [exact Hw|]. split; [exact Hbig|]. split; reflexivity. }
  destruct Hstep1 as [id [d1 (Hid & W1 & B1 & EM1 & EG1)]].
  match goal with |- context [if v_segments_enabled v0 && v_segments_update_map v0 then Some ?n else None] =>
    replace (match (if v_segments_enabled v0 && v_segments_update_map v0 then Some n else None) with Some nodes => lift (tree0 nodes) | None => GRet 0 end)
      with (if v_segments_enabled v0 && v_segments_update_map v0 then lift (tree0 n) else GRet 0)
      by (destruct (v_segments_enabled v0 && v_segments_update_map v0); reflexivity) end.
  rewrite EG1. rewrite EM1. cbn [bind]. autorewrite with stdb.
  (* skip flag *)
  assert (Hstep2 : exists skipped d2, wsafe d2 /\ big d2 /\
            match v_prob_skip_false v0 with
            | Some prob => bind (read_bool d1 prob) (fun '(b, b1) => Ok (b, set_b (st v0 d1 tops l) b1))
            | None => Ok (false, st v0 d1 tops l)
            end = Ok (skipped, st v0 d2 tops l) /\
            interpG cold_pure (match v_prob_skip_false v0 with Some p => GRead p (fun b => GRet b) | None => GRet false end) d1 = (skipped, d2)).
  { destruct (v_prob_skip_false v0) as [prob|] eqn:Epsf.
    - specialize (Hskip prob eq_refl). rewrite m_read_bool by assumption. cbn [interpG].
      destruct (cold_pure_wsafe d1 prob W1 Hskip) as [W2 C2].
      destruct (cold_pure d1 prob) as [b d2]. cbn [bind snd] in *. exists b, d2. autorewrite with stdb.
      split; [exact W2|]. split; [apply (big_chunks d1); assumption|]. split; reflexivity.
    - exists false, d1. cbn [interpG]. split; [exact W1|]. split; [exact B1|]. split; reflexivity. }
  destruct Hstep2 as [skipped [d2 (W2 & B2 & EM2 & EG2)]].
  rewrite interpG_bind. rewrite EM2, EG2. cbn [bind]. autorewrite with stdb. rewrite Hkey. cbn [negb bind].
  (* luma mode *)
  destruct ymode_nodes_ok as [yn (Ey & Ly & Oy)]. destruct uvmode_nodes_ok as [un (Eu & Lu & Ou)].
  rewrite Ey. cbn [bind]. unfold ynodes, uvnodes. rewrite Ey, Eu. autorewrite with stdb. rewrite ?Hkey.
  unfold KEYFRAME_YMODE_NODES in Ey. unfold KEYFRAME_UV_MODE_NODES in Eu.
  rewrite (read_with_tree_ok d2 _ _ yn W2 B2 Oy Ey). cbn [bind]. rewrite interpG_bind, interpG_lift.
  pose proof (tree_prog_range _ _ yn 4 Oy Ey ltac:(lia) ymode_leaves cold_pure (S (length yn)) 0 d2) as Hluma. fold (tree0 yn) in Hluma.
  destruct (cold_prog_facts (tree0 yn) d2 W2 (tree_probs_of _ _ yn Oy Ey _ _)) as [W3 C3].
  destruct (interpP cold_pure (tree0 yn) d2) as [luma d3]. cbn [fst snd] in *.
  assert (B3 : big d3) by (apply (big_chunks d2); assumption).
  autorewrite with stdb.
  unfold LumaMode_from_i8.
  assert (X : (0 <=? luma) && (luma <=? 4) = true) by (apply andb_true_iff; split; apply Z.leb_le; lia). rewrite X. cbn [bind].
  (* sub-block modes / fill *)
  destruct (Z.eqb_spec luma 4) as [E4 | N4].
  - subst luma. change (LumaMode_into_intra 4) with (@None Z). cbv iota.
    rewrite (bpred_rows_ok 4 0 (st v0 d3 tops l) _ mbx t Hmbx); autorewrite with stdb; cbn [mb_bpred mb_set_luma_mode mb_set_coeffs_skipped mb_set_segmentid MacroBlock_default];
      try assumption; try reflexivity; try lia;
      try (unfold modes_ok; apply Forall_forall; intros z Hz; apply repeat_spec in Hz; subst z; unfold mode_ok; lia).
    rewrite !interpG_bind.
    pose proof (G_brows_inv cold_pure 4 0 (mb_bpred t) (mb_bpred l) (repeat 0 16) d3 Mt Ml
                  ltac:(unfold modes_ok; apply Forall_forall; intros z Hz; apply repeat_spec in Hz; subst z; unfold mode_ok; lia)) as Inv.
    cbv zeta in Inv.
    destruct (cold_gprog_facts (G_brows 4 0 (mb_bpred t) (mb_bpred l) (repeat 0 16)) d3 W3 (G_brows_probs _ _ _ _ _)) as [W4 C4].
    destruct (interpG cold_pure (G_brows 4 0 (mb_bpred t) (mb_bpred l) (repeat 0 16)) d3) as [r d4]. cbn [fst snd bind interpG] in *.
    destruct Inv as (L1 & L2 & L3 & M1 & M2 & M3).
    assert (B4 : big d4) by (apply (big_chunks d3); assumption).
    autorewrite with stdb. cbn [bind].
    rewrite (read_with_tree_ok d4 _ _ un W4 B4 Ou Eu). cbn [bind]. rewrite interpG_bind, interpG_lift.
    pose proof (tree_prog_range _ _ un 3 Ou Eu ltac:(lia) uvmode_leaves cold_pure (S (length un)) 0 d4) as Hc. fold (tree0 un) in Hc.
    destruct (interpP cold_pure (tree0 un) d4) as [chroma d5]. cbn [fst snd interpG] in *.
    autorewrite with stdb. unfold ChromaMode_from_i8.
    assert (X2 : (0 <=? chroma) && (chroma <=? 3) = true) by (apply andb_true_iff; split; apply Z.leb_le; lia). rewrite X2. cbn [bind].
    pose proof (nth_error_lt_len _ _ _ Et) as Hlen.
    rewrite (idx_of_nth_error _ mbx (mb_set_bpred t (fst (fst r))) Hmbx) by (unfold updZ; apply nth_error_upd_same; exact Hlen).
    cbn [bind]. autorewrite with stdb. rewrite set_idx_ok by (rewrite updZ_length; lia). cbn [bind].
    autorewrite with stdb. unfold mbh_result. rewrite check_cases. autorewrite with stdb.
    destruct (is_past_eof d5); [reflexivity|].
    cbn [mb_set_chroma_mode mb_set_bpred mb_set_luma_mode mb_set_coeffs_skipped mb_set_segmentid MacroBlock_default
         mb_bpred mb_complexity mb_luma_mode mb_chroma_mode mb_segmentid mb_coeffs_skipped mb_non_zero_coeffs].
    unfold updZ. rewrite upd_upd. reflexivity.
  - assert (Hl3 : 0 <= luma <= 3) by lia. destruct (intra_of_ok luma Hl3) as [Ei Mi]. rewrite Ei.
    rewrite fill_modes_ok; autorewrite with stdb; cbn [mb_bpred mb_set_luma_mode mb_set_coeffs_skipped mb_set_segmentid MacroBlock_default];
      try assumption; try reflexivity; try lia.
    cbv zeta. cbn [bind interpG].
    autorewrite with stdb. cbn [bind].
    rewrite (read_with_tree_ok d3 _ _ un W3 B3 Ou Eu). cbn [bind]. rewrite !interpG_bind. cbn [interpG]. rewrite ?interpG_bind, interpG_lift.
    pose proof (tree_prog_range _ _ un 3 Ou Eu ltac:(lia) uvmode_leaves cold_pure (S (length un)) 0 d3) as Hc. fold (tree0 un) in Hc.
    destruct (interpP cold_pure (tree0 un) d3) as [chroma d5]. cbn [fst snd interpG] in *.
    autorewrite with stdb. unfold ChromaMode_from_i8.
    assert (X2 : (0 <=? chroma) && (chroma <=? 3) = true) by (apply andb_true_iff; split; apply Z.leb_le; lia). rewrite X2. cbn [bind].
    autorewrite with stdb. rewrite (idx_of_nth_error _ mbx t Hmbx Et).
    pose proof (nth_error_lt_len _ _ _ Et) as Hlen.
    cbn [bind]. autorewrite with stdb. rewrite set_idx_ok by lia. cbn [bind].
    autorewrite with stdb. unfold mbh_result. rewrite check_cases. autorewrite with stdb.
    destruct (is_past_eof d5); [reflexivity|].
    cbn [mb_set_chroma_mode mb_set_bpred mb_set_luma_mode mb_set_coeffs_skipped mb_set_segmentid MacroBlock_default
         mb_bpred mb_complexity mb_luma_mode mb_chroma_mode mb_segmentid mb_coeffs_skipped mb_non_zero_coeffs].
    reflexivity.
Qed.

(* ------------------------------------------------------------------------------------------------------------ *)
(* (S) the Spec function                                                                                        *)
(* ------------------------------------------------------------------------------------------------------------ *)
Lemma bmode_of_to m : mode_ok m -> bmode_of_rfc (bmode_to_rfc m) = m /\ bmode_to_rfc (bmode_of_rfc m) = m /\ mode_ok (bmode_of_rfc m).
Proof.
  unfold mode_ok. intros H.
  assert (S : forallb (fun m => (bmode_of_rfc (bmode_to_rfc m) =? m) && (bmode_to_rfc (bmode_of_rfc m) =? m)
                                && (0 <=? bmode_of_rfc m) && (bmode_of_rfc m <=? 9)) (zrange 10 0) = true) by (vm_compute; reflexivity).
  pose proof (forallb_zrange _ _ _ S m ltac:(lia)) as H1. cbv beta in H1.
  apply andb_true_iff in H1; destruct H1 as [H1 D]. apply andb_true_iff in H1; destruct H1 as [H1 C].
  apply andb_true_iff in H1; destruct H1 as [A B].
  apply Z.eqb_eq in A, B. apply Z.leb_le in C, D. repeat split; assumption.
Qed.

Lemma bpred_rows_of_sweep :
  forallb (fun a => forallb (fun l =>
    zlist_eqb (nth (Z.to_nat l) (nth (Z.to_nat a) vp8_KEYFRAME_BPRED_MODE_PROBS []) [])
              (nthZ (nthZ kBModesProba (bmode_of_rfc a) []) (bmode_of_rfc l) [])) (zrange 10 0)) (zrange 10 0) = true.
Proof. vm_compute. reflexivity. Qed.

Lemma bmode_tree_leaves : forall x, In x bmode_tree -> x <= 0 -> - x <= 9.
Proof. apply in_leaves_le. vm_compute. reflexivity. Qed.

(* one sub-block mode: the Spec's read at libwebp numbers = the crate's at RFC numbers, renumbered *)
Lemma spec_read_bmode a l s : mode_ok a -> mode_ok l ->
  read_bmode (bmode_of_rfc a) (bmode_of_rfc l) s
  = (bmode_of_rfc (fst (interpP bdbit (tree0 (bnodes a l)) s)), snd (interpP bdbit (tree0 (bnodes a l)) s)).
Proof.
  intros Ha Hl. unfold read_bmode.
  pose proof (forallb_zrange _ _ _ bpred_rows_of_sweep a ltac:(unfold mode_ok in Ha; lia)) as H1. cbv beta in H1.
  pose proof (forallb_zrange _ _ _ H1 l ltac:(unfold mode_ok in Hl; lia)) as H2. cbv beta in H2.
  apply zlist_eqb_eq in H2. rewrite <- H2.
  destruct (bpred_nodes_ok a l Ha Hl) as [nodes (E1 & E2 & E3 & E4)].
  unfold bnodes. rewrite E1. unfold tree0.
  set (P := nth (Z.to_nat l) (nth (Z.to_nat a) vp8_KEYFRAME_BPRED_MODE_PROBS []) []) in *.
  pose proof (bd_treed_read vp8_KEYFRAME_BPRED_MODE_TREE P nodes 0 s E4 E3) as ET.
  assert (HP : (0 < length P)%nat) by (destruct (tree_okb_spec _ _ E4) as (_ & Hm & _); lia).
  specialize (ET HP). change (2 * Z.of_nat 0) with 0 in ET. change (Z.of_nat 0) with 0 in ET.
  rewrite <- ET. rewrite bpred_tree_normative. fold bmode_tree. unfold BoolDec.treed_read.
  replace (length (map_leaves bmode_to_rfc bmode_tree)) with (length bmode_tree) by (unfold map_leaves; rewrite map_length; reflexivity).
  rewrite treed_map_leaves; [|reflexivity|].
  - cbn [fst snd].
    pose proof (treed_leaf bmode_tree P 9 ltac:(lia) bmode_tree_leaves (length bmode_tree) 0 s) as Hr.
    destruct (BoolDec.treed_read_aux (length bmode_tree) bmode_tree P 0 s) as [y s']. cbn [fst snd] in *.
    destruct (bmode_of_to y Hr) as (E & _). rewrite E. reflexivity.
  - intros x Hx. unfold bmode_to_rfc.
    destruct (Z.le_gt_cases x 9).
    + assert (S : forallb (fun m => 0 <=? bmode_to_rfc m) (zrange 10 0) = true) by (vm_compute; reflexivity).
      pose proof (forallb_zrange _ _ _ S x ltac:(lia)) as H0. cbv beta in H0. apply Z.leb_le in H0. exact H0.
    + rewrite nth_overflow by (cbn [length]; lia). lia.
Qed.

(* the 16 sub-block reads, unrolled row by row on explicit lists *)
Opaque bnodes tree0 bmode_of_rfc interpP interpG gbind lift read_bmode bdbit.

Lemma list16 {A} (l : list A) : length l = 16%nat ->
  exists a0 a1 a2 a3 a4 a5 a6 a7 a8 a9 a10 a11 a12 a13 a14 a15, l = [a0;a1;a2;a3;a4;a5;a6;a7;a8;a9;a10;a11;a12;a13;a14;a15].
Proof.
  intros H. do 16 (destruct l as [|? l]; [discriminate|]). destruct l; [|discriminate]. repeat eexists.
Qed.

Lemma G_brows_S m y tb lb mbp : G_brows (S m) y tb lb mbp
  = gbind (G_brow 4 0 y tb lb mbp) (fun r => G_brows m (y + 1) (fst (fst r)) (snd (fst r)) (snd r)).
Proof. reflexivity. Qed.
Lemma G_brows_0 y tb lb mbp : G_brows 0 y tb lb mbp = GRet (tb, lb, mbp).
Proof. reflexivity. Qed.
Lemma interpG_ret {A St} (bit : St -> Z -> bool * St) (a : A) s : interpG bit (GRet a) s = (a, s).
Proof. reflexivity. Qed.

Lemma rows_cons top l tl s modes newleft : read_bmode_rows top (l :: tl) s modes newleft
  = let '(row, last, s') := read_bmode_row top l s [] in read_bmode_rows row tl s' (modes ++ row) (last :: newleft).
Proof. reflexivity. Qed.
Lemma rows_nil top s modes newleft : read_bmode_rows top [] s modes newleft = (modes, top, rev_append newleft [], s).
Proof. reflexivity. Qed.

Ltac grow :=
  rewrite G_brows_S, interpG_bind;
  match goal with |- context [G_brow 4 0 ?y ?tb ?lb ?mbp] =>
    let e := eval cbv in (G_brow 4 0 y tb lb mbp) in change (G_brow 4 0 y tb lb mbp) with e end;
  rewrite rows_cons;
  match goal with |- context [read_bmode_row ?t ?l ?s ?acc] =>
    let e := eval cbv in (read_bmode_row t l s acc) in change (read_bmode_row t l s acc) with e end.
Ltac gread :=
  rewrite interpG_bind, interpG_lift;
  rewrite spec_read_bmode by assumption;
  match goal with |- context [interpP bdbit (tree0 (bnodes ?a ?l)) ?s] =>
    let H := fresh "Hm" in
    pose proof (tree0_range_b a l bdbit s ltac:(assumption) ltac:(assumption)) as H;
    let m := fresh "m" in let s' := fresh "s" in
    destruct (interpP bdbit (tree0 (bnodes a l)) s) as [m s']; cbn [fst snd] in H |- *; cbv beta iota zeta
  end.
Ltac gend := rewrite interpG_ret; cbv beta iota zeta; cbn [fst snd app].

Lemma spec_bmode_rows tb lb s : length tb = 16%nat -> length lb = 16%nat -> modes_ok tb -> modes_ok lb ->
  let '(r, s2) := interpG bdbit (G_brows 4 0 tb lb (repeat 0 16)) s in
  read_bmode_rows (map bmode_of_rfc (skipn 12 tb)) (map bmode_of_rfc (firstn 4 lb)) s [] []
  = (map bmode_of_rfc (snd r), map bmode_of_rfc (skipn 12 (snd r)), map bmode_of_rfc (firstn 4 (snd (fst r))), s2).
Proof.
  intros Lt Ll Mt Ml.
  destruct (list16 tb Lt) as (p0&p1&p2&p3&p4&p5&p6&p7&p8&p9&p10&p11&a0&a1&a2&a3&->).
  destruct (list16 lb Ll) as (l0&l1&l2&l3&q4&q5&q6&q7&q8&q9&q10&q11&q12&q13&q14&q15&->).
  unfold modes_ok in *.
  repeat match goal with H : Forall _ (_ :: _) |- _ => inversion H; clear H; subst end.
  change (repeat 0 16) with [0;0;0;0;0;0;0;0;0;0;0;0;0;0;0;0].
  cbn [map skipn firstn].
  grow. gread. gread. gread. gread. gend. change (0 + 1) with 1.
  grow. gread. gread. gread. gread. gend. change (1 + 1) with 2.
  grow. gread. gread. gread. gread. gend. change (2 + 1) with 3.
  grow. gread. gread. gread. gread. gend.
  rewrite G_brows_0, interpG_ret, rows_nil. cbn [fst snd map skipn firstn rev_append]. reflexivity.
Qed.
Transparent bnodes tree0 bmode_of_rfc interpP interpG gbind lift read_bmode bdbit.

(* a tree read returns minus a non-positive entry (or 0): any property of those *)
Lemma treed_leaf_P (Q : Z -> Prop) t P : Q 0 -> (forall x, In x t -> x <= 0 -> Q (- x)) ->
  forall fuel i s, Q (fst (BoolDec.treed_read_aux fuel t P i s)).
Proof.
  intros Q0 Hl. induction fuel as [|fuel IH]; intros i s; cbn [BoolDec.treed_read_aux]; [exact Q0|].
  destruct (BoolDec.read_bool (nth (Z.to_nat (Z.shiftr i 1)) P 0) s) as [b s'].
  set (j := nth (Z.to_nat (i + b)) t 0).
  destruct (Z.ltb_spec 0 j) as [Pos | Neg]; [apply IH|]. cbn [fst].
  destruct (nth_in_or_default (Z.to_nat (i + b)) t 0) as [Hin | Hd].
  - fold j in Hin. exact (Hl j Hin Neg).
  - fold j in Hd. rewrite Hd. exact Q0.
Qed.

Definition ymode_of_rfc (m : Z) : Z := nth (Z.to_nat m) [0; 2; 3; 1; 10] m.

(* a fixed tree with renumbered leaves: the Spec's value from the crate's *)
Lemma spec_mode_tree tS tM P nodes (leaves : list Z) s :
  tM = map_leaves ymode_to_rfc tS -> tree_okb tM P = true -> tree_nodes_from tM P = Ok nodes ->
  (forall x, In x tS -> x <= 0 -> In (- x) leaves) -> In 0 leaves ->
  (forall y, In y leaves -> ymode_of_rfc (ymode_to_rfc y) = y) ->
  BoolDec.treed_read tS P 0 s = (ymode_of_rfc (fst (interpP bdbit (tree0 nodes) s)), snd (interpP bdbit (tree0 nodes) s)).
Proof.
  intros EtM Hok En Hleaf H0 Hinv.
  pose proof (bd_treed_read tM P nodes 0 s Hok En) as ET.
  assert (HP : (0 < length P)%nat) by (destruct (tree_okb_spec _ _ Hok) as (_ & Hm & _); lia).
  specialize (ET HP). change (2 * Z.of_nat 0) with 0 in ET. change (Z.of_nat 0) with 0 in ET.
  unfold tree0. rewrite <- ET. rewrite EtM. unfold BoolDec.treed_read.
  replace (length (map_leaves ymode_to_rfc tS)) with (length tS) by (unfold map_leaves; rewrite map_length; reflexivity).
  rewrite treed_map_leaves; [|reflexivity|].
  - cbn [fst snd].
    pose proof (treed_leaf_P (fun y => In y leaves) tS P H0 Hleaf (length tS) 0 s) as Hr. cbv beta in Hr.
    destruct (BoolDec.treed_read_aux (length tS) tS P 0 s) as [y s']. cbn [fst snd] in *.
    rewrite (Hinv y Hr). reflexivity.
  - intros x Hx. unfold ymode_to_rfc.
    destruct (Z.le_gt_cases x 10).
    + assert (S : forallb (fun m => 0 <=? ymode_to_rfc m) (zrange 11 0) = true) by (vm_compute; reflexivity).
      pose proof (forallb_zrange _ _ _ S x ltac:(lia)) as H1. cbv beta in H1. apply Z.leb_le in H1. exact H1.
    + rewrite nth_overflow by (cbn [length]; lia). lia.
Qed.

Lemma in_list_dec (l leaves : list Z) :
  forallb (fun x => (0 <? x) || existsb (Z.eqb (- x)) leaves) l = true -> forall x, In x l -> x <= 0 -> In (- x) leaves.
Proof.
  intros H x Hx Hn. rewrite forallb_forall in H. specialize (H x Hx). apply orb_true_iff in H.
  destruct H as [H | H]; [apply Z.ltb_lt in H; lia|]. apply existsb_exists in H. destruct H as [y [Hy E]]. apply Z.eqb_eq in E. subst y. exact Hy.
Qed.

Lemma forall_in_dec (leaves : list Z) (f : Z -> bool) : forallb f leaves = true -> forall y, In y leaves -> f y = true.
Proof. intros H y Hy. rewrite forallb_forall in H. apply H. exact Hy. Qed.

Lemma spec_ymode s : BoolDec.treed_read kf_ymode_tree kf_ymode_prob 0 s
  = (ymode_of_rfc (fst (interpP bdbit (tree0 ynodes) s)), snd (interpP bdbit (tree0 ynodes) s)).
Proof.
  destruct ymode_nodes_ok as [yn (Ey & Ly & Oy)]. unfold ynodes. rewrite Ey. unfold KEYFRAME_YMODE_NODES in Ey.
  rewrite <- kf_ymode_probs_normative.
  apply (spec_mode_tree kf_ymode_tree vp8_KEYFRAME_YMODE_TREE _ yn [0; 1; 2; 3; 10] s kf_ymode_tree_normative Oy Ey).
  - apply in_list_dec. vm_compute. reflexivity.
  - cbn. auto.
  - intros y Hy. apply Z.eqb_eq. revert y Hy. apply forall_in_dec. vm_compute. reflexivity.
Qed.

Lemma spec_uvmode s : BoolDec.treed_read uv_mode_tree uv_mode_prob 0 s
  = (ymode_of_rfc (fst (interpP bdbit (tree0 uvnodes) s)), snd (interpP bdbit (tree0 uvnodes) s)).
Proof.
  destruct uvmode_nodes_ok as [un (Eu & Lu & Ou)]. unfold uvnodes. rewrite Eu. unfold KEYFRAME_UV_MODE_NODES in Eu.
  rewrite <- uv_mode_probs_normative.
  apply (spec_mode_tree uv_mode_tree vp8_KEYFRAME_UV_MODE_TREE _ un [0; 1; 2; 3] s uv_mode_tree_normative Ou Eu).
  - apply in_list_dec. vm_compute. reflexivity.
  - cbn. auto.
  - intros y Hy. apply Z.eqb_eq. revert y Hy. apply forall_in_dec. vm_compute. reflexivity.
Qed.

Lemma spec_segment sp nodes s : length sp = 3%nat -> Forall byte sp -> tree_nodes_from vp8_SEGMENT_ID_TREE sp = Ok nodes ->
  BoolDec.treed_read segment_tree sp 0 s = interpP bdbit (tree0 nodes) s.
Proof.
  intros L3 Hb En. rewrite <- segment_tree_normative.
  pose proof (bd_treed_read vp8_SEGMENT_ID_TREE sp nodes 0 s (seg_tree_ok sp L3 Hb) En ltac:(lia)) as ET.
  change (2 * Z.of_nat 0) with 0 in ET. change (Z.of_nat 0) with 0 in ET. exact ET.
Qed.

Definition spec_seg_hyp (h : header) (segnodes : option (list TreeNode)) : Prop :=
  if h_update_map h
  then exists nodes, segnodes = Some nodes /\ length (h_seg_probs h) = 3%nat /\ Forall byte (h_seg_probs h) /\
                     tree_nodes_from vp8_SEGMENT_ID_TREE (h_seg_probs h) = Ok nodes
  else segnodes = None.

Lemma mbh_spec h tb lb s segnodes :
  length tb = 16%nat -> length lb = 16%nat -> modes_ok tb -> modes_ok lb -> spec_seg_hyp h segnodes ->
  let '(rr, s2) := interpG bdbit (G_mbh segnodes (if h_use_skip h then Some (h_skip_p h) else None) tb lb) s in
  let '(id, skipped, luma, lb', mbp', chroma) := rr in
  parse_mb_mode h (map bmode_of_rfc (skipn 12 tb)) (map bmode_of_rfc (firstn 4 lb)) s
  = (mkM id skipped (luma =? 4) (ymode_of_rfc luma) (if luma =? 4 then map bmode_of_rfc mbp' else []) (ymode_of_rfc chroma),
     map bmode_of_rfc (skipn 12 mbp'), map bmode_of_rfc (firstn 4 lb'), s2).
Proof.
  intros Lt Ll Mt Ml Hseg. unfold parse_mb_mode, G_mbh, spec_seg_hyp in *.
  rewrite interpG_bind.
  (* segment id *)
  assert (E1 : exists id s1, interpG bdbit (match segnodes with Some nodes => lift (tree0 nodes) | None => GRet 0 end) s = (id, s1) /\
                (if h_update_map h then BoolDec.treed_read segment_tree (h_seg_probs h) 0 s else (0, s)) = (id, s1)).
  { destruct (h_update_map h).
    - destruct Hseg as [nodes (-> & L3 & Hb & En)]. rewrite interpG_lift. rewrite (spec_segment _ nodes s L3 Hb En).
      destruct (interpP bdbit (tree0 nodes) s) as [id s1]. exists id, s1. split; reflexivity.
    - subst segnodes. exists 0, s. split; reflexivity. }
  destruct E1 as [id [s1 [EG1 ES1]]]. rewrite EG1, ES1. rewrite interpG_bind.
  (* skip flag *)
  assert (E2 : exists sk s2, interpG bdbit (match (if h_use_skip h then Some (h_skip_p h) else None) with Some p => GRead p (fun b => GRet b) | None => GRet false end) s1 = (sk, s2) /\
                (if h_use_skip h then BoolDec.read_bool (h_skip_p h) s1 else (0, s1)) = (ArithDec.b2z sk, s2)).
  { destruct (h_use_skip h).
    - cbn [interpG]. rewrite bd_read_bool_bit. destruct (bdbit s1 (h_skip_p h)) as [sk s2]. exists sk, s2. split; reflexivity.
    - exists false, s1. split; reflexivity. }
  destruct E2 as [sk [s2 [EG2 ES2]]]. rewrite EG2, ES2.
  replace (isone (ArithDec.b2z sk)) with sk by (destruct sk; reflexivity).
  (* luma mode *)
  rewrite interpG_bind, interpG_lift. rewrite spec_ymode.
  destruct ymode_nodes_ok as [yn (Ey & Ly & Oy)].
  pose proof (tree_prog_range _ _ yn 4 Oy Ey ltac:(lia) ymode_leaves bdbit (S (length yn)) 0 s2) as Hluma.
  fold (tree0 yn) in Hluma.
  assert (Eyn : ynodes = yn) by (unfold ynodes; rewrite Ey; reflexivity). rewrite Eyn.
  destruct (interpP bdbit (tree0 yn) s2) as [luma s3]. cbn [fst snd] in *.
  assert (EB : (ymode_of_rfc luma =? B_PRED) = (luma =? 4)).
  { assert (C : luma = 0 \/ luma = 1 \/ luma = 2 \/ luma = 3 \/ luma = 4) by lia. destruct C as [-> | [-> | [-> | [-> | ->]]]]; reflexivity. }
  rewrite EB. rewrite interpG_bind.
  destruct (Z.eqb_spec luma 4) as [E4 | N4].
  - (* sub-block modes *)
    subst luma. rewrite interpG_bind.
    pose proof (spec_bmode_rows tb lb s3 Lt Ll Mt Ml) as HR.
    destruct (interpG bdbit (G_brows 4 0 tb lb (repeat 0 16)) s3) as [r s4]. rewrite HR. cbn [interpG fst snd].
    rewrite interpG_bind, interpG_lift. rewrite spec_uvmode.
    destruct (interpP bdbit (tree0 uvnodes) s4) as [chroma s5]. cbn [interpG fst snd]. reflexivity.
  - cbn [interpG]. rewrite interpG_bind, interpG_lift. rewrite spec_uvmode.
    destruct (interpP bdbit (tree0 uvnodes) s3) as [chroma s5]. cbn [interpG fst snd].
    destruct (list16 lb Ll) as (l0&l1&l2&l3&q4&q5&q6&q7&q8&q9&q10&q11&q12&q13&q14&q15&->).
    assert (C : luma = 0 \/ luma = 1 \/ luma = 2 \/ luma = 3) by lia.
    destruct C as [-> | [-> | [-> | ->]]]; reflexivity.
Qed.

(* ------------------------------------------------------------------------------------------------------------ *)
(* read_macroblock_header = parse_mb_mode                                                                       *)
(* ------------------------------------------------------------------------------------------------------------ *)
(* the header fields the macroblock header depends on: Spec header h vs. decoder state v *)
Definition mbh_header_rel (h : header) (v : Vp8) : Prop :=
  fi_keyframe (v_frame v) = true /\
  h_update_map h = (v_segments_enabled v && v_segments_update_map v) /\
  (h_update_map h = true -> length (h_seg_probs h) = 3%nat /\ Forall byte (h_seg_probs h) /\
                            tree_nodes_from vp8_SEGMENT_ID_TREE (h_seg_probs h) = Ok (v_segment_tree_nodes v)) /\
  v_prob_skip_false v = (if h_use_skip h then Some (h_skip_p h) else None) /\ 0 <= h_skip_p h <= 255.

Theorem read_macroblock_header_refines : forall data, Forall byte data -> C15_model.len data < 2 ^ 63 ->
  forall (h : header) (v : Vp8) (mbx : Z) (t : MacroBlock) (s : bstate),
  mbh_header_rel h v ->
  0 <= mbx -> nth_error (v_top v) (Z.to_nat mbx) = Some t ->
  length (mb_bpred t) = 16%nat -> length (mb_bpred (v_left v)) = 16%nat -> modes_ok (mb_bpred t) -> modes_ok (mb_bpred (v_left v)) ->
  linked data s (v_b v) ->
  let top4 := map bmode_of_rfc (skipn 12 (mb_bpred t)) in
  let left4 := map bmode_of_rfc (firstn 4 (mb_bpred (v_left v))) in
  let '(m, top4', left4', s') := parse_mb_mode h top4 left4 s in
  (exists mb lb' d',
     read_macroblock_header v mbx
     = Ok (mb, st v d' (updZ (v_top v) mbx (mkMB (mb_bpred mb) (mb_complexity t) (mb_luma_mode mb) (mb_chroma_mode mb)
                                                 (mb_segmentid t) (mb_coeffs_skipped t) (mb_non_zero_coeffs t)))
                 (mb_set_bpred (v_left v) lb')) /\
     linked data s' d' /\
     mb_segmentid mb = m_seg m /\ mb_coeffs_skipped mb = m_skip m /\ mb_non_zero_coeffs mb = false /\ mb_complexity mb = repeat 0 9 /\
     ymode_of_rfc (mb_luma_mode mb) = m_ymode m /\ ymode_of_rfc (mb_chroma_mode mb) = m_uvmode m /\
     m_i4 m = (mb_luma_mode mb =? 4) /\ m_imodes m = (if m_i4 m then map bmode_of_rfc (mb_bpred mb) else []) /\
     map bmode_of_rfc (skipn 12 (mb_bpred mb)) = top4' /\ map bmode_of_rfc (firstn 4 lb') = left4')
  \/ (read_macroblock_header v mbx = Err EBitStreamError /\ over_read data s').
Proof.
  intros data Hbytes Hlen h v mbx t s (Hkey & Hum & Hsp & Hpsf & Hskp) Hmbx Et Lt Ll Mt Ml Hlink top4 left4.
  destruct (linked_wsafe data Hlen s (v_b v) Hlink) as [Hw Hbig].
  (* Model side *)
  pose proof (mbh_model_st v (v_b v) (v_top v) (v_left v) mbx t Hkey) as EM. rewrite <- st_eta in EM.
  assert (Hsegok : v_segments_enabled v && v_segments_update_map v = true -> seg_nodes_ok v).
  { intros E. rewrite <- Hum in E. destruct (Hsp E) as (L3 & Hb & En). exists (h_seg_probs h). auto. }
  assert (Hskok : forall p, v_prob_skip_false v = Some p -> 0 <= p <= 255).
  { intros p Ep. rewrite Hpsf in Ep. destruct (h_use_skip h); [injection Ep as <-; exact Hskp | discriminate]. }
  specialize (EM Hsegok Hskok Hmbx Et Lt Ll Mt Ml Hw Hbig).
  (* Spec side *)
  assert (Hseg : spec_seg_hyp h (mbh_seg v)).
  { unfold spec_seg_hyp, mbh_seg. rewrite <- Hum. destruct (h_update_map h) eqn:E; [|reflexivity].
    destruct (Hsp eq_refl) as (L3 & Hb & En). exists (v_segment_tree_nodes v). auto. }
  pose proof (mbh_spec h (mb_bpred t) (mb_bpred (v_left v)) s (mbh_seg v) Lt Ll Mt Ml Hseg) as ES.
  rewrite <- Hpsf in ES.
  (* transfer *)
  assert (Hprobs : gprobs_ok (G_mbh (mbh_seg v) (v_prob_skip_false v) (mb_bpred t) (mb_bpred (v_left v)))).
  { apply G_mbh_probs; [|exact Hskok]. intros nodes En. unfold mbh_seg in En.
    destruct (v_segments_enabled v && v_segments_update_map v) eqn:E; [|discriminate]. injection En as <-.
    destruct (Hsegok eq_refl) as [sp (L3 & Hb & En)]. exact (tree_probs_of _ _ _ (seg_tree_ok sp L3 Hb) En _ _). }
  pose proof (transfer_run data Hbytes Hlen _ s (v_b v) Hlink Hprobs) as T. cbv zeta in T.
  fold top4 left4 in ES.
  destruct (interpG bdbit (G_mbh (mbh_seg v) (v_prob_skip_false v) (mb_bpred t) (mb_bpred (v_left v))) s) as [rrS s2].
  destruct (interpG cold_pure (G_mbh (mbh_seg v) (v_prob_skip_false v) (mb_bpred t) (mb_bpred (v_left v))) (v_b v)) as [rrM d'].
  cbn [fst snd] in T.
  destruct rrS as [[[[[id skipped] luma] lb'] mbp'] chroma].
  rewrite ES. rewrite EM. unfold mbh_result.
  destruct T as (W1 & C1 & [(Eeof & L1 & Ev) | (Eeof & Ov)]).
  - left. subst rrM. rewrite Eeof.
    exists (mkMB mbp' (repeat 0 9) luma chroma id skipped false), lb', d'.
    cbn [mb_bpred mb_complexity mb_luma_mode mb_chroma_mode mb_segmentid mb_coeffs_skipped mb_non_zero_coeffs m_seg m_skip m_i4 m_ymode m_imodes m_uvmode].
    repeat split; try reflexivity; try assumption.
  - right. destruct rrM as [[[[[id' skipped'] luma'] lb''] mbp''] chroma']. rewrite Eeof. split; [reflexivity | exact Ov].
Qed.
