(* C14: the code assignment of build_huffman_tree (Model.Encoder.assign_codes) produces, for lengths that satisfy the
   Kraft equality with limit L <= 15, exactly the bit-reversed canonical code words of Spec.PrefixCode, and its final
   `assert_eq!(code, 2 << length_limit)` holds. *)
From Coq Require Import ZArith List Bool Lia Arith.
From WebP Require Import Lib.Res Lib.Sweep Gen.Kernels Model.EncoderHeap Model.Encoder Spec.PrefixCode Proofs.Huffman_lists.
Import ListNotations.
Open Scope Z_scope.

(* ---- Kraft sum by length classes: KS lens b = sum_{l=1..b} count_eq l lens * 2^(b-l) ---- *)
Fixpoint KS (lens : list Z) (b : nat) : Z :=
  match b with O => 0 | S b' => 2 * KS lens b' + count_eq (Z.of_nat (S b')) lens end.

Lemma count_eq_nonneg b l : 0 <= count_eq b l.
Proof. induction l as [|x tl IH]; cbn [count_eq]; [lia|]. destruct (x =? b); lia. Qed.

Lemma count_eq_app b l1 l2 : count_eq b (l1 ++ l2) = count_eq b l1 + count_eq b l2.
Proof. induction l1 as [|x tl IH]; cbn [count_eq app]; [lia|]. rewrite IH. lia. Qed.

Lemma count_eq_rev b l : count_eq b (rev l) = count_eq b l.
Proof. induction l as [|x tl IH]; cbn [rev count_eq]; [reflexivity|]. rewrite count_eq_app, IH. cbn [count_eq]. lia. Qed.

Lemma KS_nonneg lens b : 0 <= KS lens b.
Proof. induction b as [|b IH]; cbn [KS]; [lia|]. pose proof (count_eq_nonneg (Z.of_nat (S b)) lens). lia. Qed.

Lemma next_code_KS lens b : next_code lens (S b) = 2 * KS lens b.
Proof.
  induction b as [|b IH].
  - cbn [next_code KS]. unfold bl_count. cbn. reflexivity.
  - change (next_code lens (S (S b))) with (2 * (next_code lens (S b) + bl_count lens (Z.of_nat (S b)))).
    rewrite IH. unfold bl_count. replace (Z.of_nat (S b) =? 0) with false by (symmetry; apply Z.eqb_neq; lia).
    cbn [KS]. reflexivity.
Qed.

Lemma KS_cons x tl b : KS (x :: tl) b = KS tl b + (if (1 <=? x) && (x <=? Z.of_nat b) then 2 ^ (Z.of_nat b - x) else 0).
Proof.
  induction b as [|b IH].
  - cbn [KS]. destruct (1 <=? x) eqn:E1; destruct (x <=? Z.of_nat 0) eqn:E2; cbn [andb]; try lia.
    apply Z.leb_le in E1, E2. lia.
  - cbn [KS count_eq]. rewrite IH.
    destruct (x =? Z.of_nat (S b)) eqn:Ex.
    + apply Z.eqb_eq in Ex. subst x.
      replace (Z.of_nat (S b) <=? Z.of_nat b) with false by (symmetry; apply Z.leb_gt; lia).
      replace (Z.of_nat (S b) <=? Z.of_nat (S b)) with true by (symmetry; apply Z.leb_le; lia).
      rewrite andb_false_r. replace (1 <=? Z.of_nat (S b)) with true by (symmetry; apply Z.leb_le; lia).
      cbn [andb]. rewrite Z.sub_diag. change (2 ^ 0) with 1. lia.
    + apply Z.eqb_neq in Ex.
      destruct (1 <=? x) eqn:E1; cbn [andb]; [|lia].
      destruct (x <=? Z.of_nat b) eqn:E2.
      * apply Z.leb_le in E2. replace (x <=? Z.of_nat (S b)) with true by (symmetry; apply Z.leb_le; lia).
        replace (Z.of_nat (S b) - x) with (Z.of_nat b - x + 1) by lia.
        rewrite pow2_succ by lia. lia.
      * apply Z.leb_gt in E2. replace (x <=? Z.of_nat (S b)) with false by (symmetry; apply Z.leb_gt; lia). lia.
Qed.

Lemma kraft_KS lens L : Forall (fun l => 0 <= l <= Z.of_nat L) lens -> kraft lens (Z.of_nat L) = KS lens L.
Proof.
  induction 1 as [|x tl Hx Ht IH]; cbn [kraft].
  - induction L as [|L IHL]; cbn [KS count_eq]; lia.
  - rewrite KS_cons, IH.
    destruct (0 <? x) eqn:E0; [apply Z.ltb_lt in E0 | apply Z.ltb_ge in E0].
    + replace (1 <=? x) with true by (symmetry; apply Z.leb_le; lia).
      replace (x <=? Z.of_nat L) with true by (symmetry; apply Z.leb_le; lia). cbn [andb]. lia.
    + replace (1 <=? x) with false by (symmetry; apply Z.leb_gt; lia). cbn [andb]. lia.
Qed.

Lemma KS_grow lens b j : 2 ^ Z.of_nat j * KS lens b <= KS lens (b + j).
Proof.
  induction j as [|j IH].
  - change (2 ^ Z.of_nat 0) with 1. rewrite Nat.add_0_r. lia.
  - replace (b + S j)%nat with (S (b + j)) by lia. cbn [KS].
    pose proof (count_eq_nonneg (Z.of_nat (S (b + j))) lens).
    rewrite Nat2Z.inj_succ, <- Z.add_1_r, pow2_succ by lia. lia.
Qed.

Lemma KS_bound lens L b : KS lens L = 2 ^ Z.of_nat L -> (b <= L)%nat -> KS lens b <= 2 ^ Z.of_nat b.
Proof.
  intros HK Hb. pose proof (KS_grow lens b (L - b)) as H. replace (b + (L - b))%nat with L in H by lia.
  rewrite HK in H. replace (Z.of_nat L) with (Z.of_nat (L - b) + Z.of_nat b) in H by lia.
  rewrite Z.pow_add_r in H by lia. pose proof (pow2_pos (Z.of_nat (L - b)) ltac:(lia)). nia.
Qed.

(* ---- bit reversal: u16::reverse_bits(code) >> (16 - len) is the len-bit reversal, for every len <= 15 ---- *)
Lemma revbits_same n x acc : revbits n x acc = rev_bits_nat n x acc.
Proof. revert x acc. induction n as [|n IH]; intros; cbn [revbits rev_bits_nat]; [reflexivity | apply IH]. Qed.

Lemma reverse16_shift_sweep :
  forallb (fun l => forallb (fun c => Z.shiftr (reverse_bits16 (wrapU 16 c)) (16 - l) =? rev_bits l c)
                            (zrange (Z.to_nat (2 ^ l)) 0))
          (zrange 15 1) = true.
Proof. vm_compute. reflexivity. Qed.

Lemma reverse16_shift l c : 1 <= l <= 15 -> 0 <= c < 2 ^ l ->
  Z.shiftr (reverse_bits16 (wrapU 16 c)) (16 - l) = rev_bits l c.
Proof.
  intros Hl Hc.
  pose proof (forallb_zrange _ _ _ reverse16_shift_sweep l ltac:(lia)) as H1. cbv beta in H1.
  pose proof (forallb_zrange _ _ _ H1 c) as H2. cbv beta in H2.
  apply Z.eqb_eq. apply H2. rewrite Z2Nat.id by (apply Z.lt_le_incl, pow2_pos; lia). lia.
Qed.

(* ---- the passes ---- *)
(* code word (already reversed) the implementation stores for a symbol of length l whose predecessors are `seen` *)
Definition cw (all seen : list Z) (l : Z) : Z :=
  Z.shiftr (reverse_bits16 (wrapU 16 (next_code all (Z.to_nat l) + count_eq l seen))) (16 - l).

(* contents of codes[] once the lengths 1 .. m-1 have been processed *)
Fixpoint codes_upto (all : list Z) (m : Z) (seen rest : list Z) : list Z :=
  match rest with
  | [] => []
  | l :: tl => (if (1 <=? l) && (l <? m) then cw all seen l else 0) :: codes_upto all m (l :: seen) tl
  end.

Lemma codes_upto_length all m seen rest : length (codes_upto all m seen rest) = length rest.
Proof. revert seen. induction rest as [|l tl IH]; intros; cbn [codes_upto length]; auto. Qed.

Lemma assign_pass_spec all len : 1 <= len <= 15 -> forall rest seen code,
  code = next_code all (Z.to_nat len) + count_eq len seen -> 0 <= code ->
  code + count_eq len rest <= u32_max ->
  assign_pass len rest (codes_upto all len seen rest) code
  = Ok (codes_upto all (len + 1) seen rest, code + count_eq len rest).
Proof.
  intros Hlen. induction rest as [|l tl IH]; intros seen code Hcode H0 Hmax.
  - cbn [assign_pass codes_upto count_eq]. rewrite Z.add_0_r. reflexivity.
  - cbn [assign_pass codes_upto count_eq] in *.
    destruct (l =? len) eqn:El.
    + apply Z.eqb_eq in El. subst l.
      pose proof (count_eq_nonneg len tl) as Hc.
      unfold csub. replace (16 - len <? 0) with false by (symmetry; apply Z.ltb_ge; lia). cbn [bind].
      replace (16 <=? 16 - len) with false by (symmetry; apply Z.leb_gt; lia).
      unfold cadd. replace (u32_max <? code + 1) with false by (symmetry; apply Z.ltb_ge; lia). cbn [bind].
      assert (IH1 := IH (len :: seen) (code + 1)).
      rewrite IH1.
      * cbn [bind]. f_equal. apply (f_equal2 pair); [|lia]. apply (f_equal2 cons); [|reflexivity].
        replace (1 <=? len) with true by (symmetry; apply Z.leb_le; lia).
        replace (len <? len + 1) with true by (symmetry; apply Z.ltb_lt; lia). cbn [andb].
        unfold cw. rewrite Hcode. reflexivity.
      * cbn [count_eq]. rewrite Z.eqb_refl. lia.
      * lia.
      * lia.
    + apply Z.eqb_neq in El.
      assert (IH1 := IH (l :: seen) code).
      rewrite IH1.
      * cbn [bind]. f_equal. apply (f_equal2 pair); [|lia]. apply (f_equal2 cons); [|reflexivity].
        destruct (1 <=? l) eqn:E1; cbn [andb]; [|reflexivity].
        destruct (l <? len) eqn:E2.
        -- apply Z.ltb_lt in E2. replace (l <? len + 1) with true by (symmetry; apply Z.ltb_lt; lia). reflexivity.
        -- apply Z.ltb_ge in E2. replace (l <? len + 1) with false by (symmetry; apply Z.ltb_ge; lia). reflexivity.
      * cbn [count_eq]. replace (l =? len) with false by (symmetry; apply Z.eqb_neq; lia). lia.
      * lia.
      * lia.
Qed.

Lemma assign_loop_spec lens L : (L <= 15)%nat -> KS lens L = 2 ^ Z.of_nat L ->
  forall k b, (1 <= b)%nat -> (b + k = S L)%nat ->
  assign_loop k (Z.of_nat b) lens (codes_upto lens (Z.of_nat b) [] lens) (next_code lens b)
  = Ok (codes_upto lens (Z.of_nat (S L)) [] lens, next_code lens (S L)).
Proof.
  intros HL HK. induction k as [|k IH]; intros b Hb Hbk.
  - cbn [assign_loop]. replace b with (S L) by lia. reflexivity.
  - cbn [assign_loop].
    assert (Hb' : (b <= L)%nat) by lia.
    pose proof (KS_bound lens L b HK Hb') as HKb.
    destruct b as [|b0]; [lia|].
    pose proof (next_code_KS lens b0) as Hnc. pose proof (KS_nonneg lens b0) as Hn0.
    assert (Hsum : next_code lens (S b0) + count_eq (Z.of_nat (S b0)) lens = KS lens (S b0)) by (rewrite Hnc; reflexivity).
    assert (Hp : 2 ^ Z.of_nat (S b0) <= 2 ^ 15) by (apply Z.pow_le_mono_r; lia).
    change (2 ^ 15) with 32768 in Hp.
    rewrite (assign_pass_spec lens (Z.of_nat (S b0)) ltac:(lia) lens [] (next_code lens (S b0))).
    + cbn [bind]. rewrite Hsum.
      replace ((KS lens (S b0) * 2) mod two32) with (next_code lens (S (S b0))).
      * replace (Z.of_nat (S b0) + 1) with (Z.of_nat (S (S b0))) by lia. apply IH; lia.
      * rewrite next_code_KS. unfold two32. rewrite Z.mod_small; [lia|].
        pose proof (KS_nonneg lens (S b0)). lia.
    + rewrite Nat2Z.id. cbn [count_eq]. lia.
    + lia.
    + unfold u32_max. lia.
Qed.

Lemma codes_upto_one all seen rest : codes_upto all 1 seen rest = zeros (length rest).
Proof.
  revert seen. induction rest as [|l tl IH]; intros seen; cbn [codes_upto length]; [reflexivity|].
  rewrite IH. replace ((1 <=? l) && (l <? 1)) with false; [reflexivity|].
  symmetry. apply andb_false_iff. destruct (1 <=? l) eqn:E; [right; apply Z.ltb_ge; apply Z.leb_le in E; lia | left; reflexivity].
Qed.

(* the finished array is the Spec's stream code *)
Lemma codes_upto_stream all L : (L <= 15)%nat -> KS all L = 2 ^ Z.of_nat L ->
  forall rest seen, rev seen ++ rest = all -> Forall (fun l => 0 <= l <= Z.of_nat L) rest ->
  codes_upto all (Z.of_nat (S L)) seen rest = map2 rev_bits rest (canonical_from all seen rest).
Proof.
  intros HL HK. induction rest as [|l tl IH]; intros seen Hall HF; cbn [codes_upto canonical_from map2]; [reflexivity|].
  apply Forall_cons_iff in HF. destruct HF as [Hl HF'].
  rewrite (IH (l :: seen)); [| cbn [rev]; rewrite <- app_assoc; exact Hall | exact HF'].
  f_equal.
  destruct (l =? 0) eqn:E0.
  - apply Z.eqb_eq in E0. subst l. cbn. reflexivity.
  - apply Z.eqb_neq in E0.
    replace (1 <=? l) with true by (symmetry; apply Z.leb_le; lia).
    replace (l <? Z.of_nat (S L)) with true by (symmetry; apply Z.ltb_lt; lia). cbn [andb].
    unfold cw. apply reverse16_shift; [lia|].
    (* next_code l + #seen_l < 2^l *)
    assert (Hb : (Z.to_nat l <= L)%nat) by lia.
    pose proof (KS_bound all L (Z.to_nat l) HK Hb) as HKb.
    destruct (Z.to_nat l) as [|b0] eqn:Eb; [lia|].
    pose proof (next_code_KS all b0) as Hnc. pose proof (KS_nonneg all b0).
    cbn [KS] in HKb. replace (Z.of_nat (S b0)) with l in HKb by lia.
    assert (Hcnt : count_eq l all = count_eq l seen + 1 + count_eq l tl).
    { rewrite <- Hall. rewrite count_eq_app, count_eq_rev. cbn [count_eq]. rewrite Z.eqb_refl. lia. }
    pose proof (count_eq_nonneg l seen). pose proof (count_eq_nonneg l tl).
    rewrite Hnc. lia.
Qed.

(* the stored code words fit the declared length *)
Theorem assign_codes_ok : forall lens L, 1 <= L <= 15 -> Forall (fun l => 0 <= l <= L) lens -> kraft lens L = 2 ^ L ->
  assign_codes lens L = Ok (stream_codes lens).
Proof.
  intros lens L HL HF Hk. unfold assign_codes.
  set (Ln := Z.to_nat L). assert (EL : L = Z.of_nat Ln) by (unfold Ln; lia).
  assert (HF' : Forall (fun l => 0 <= l <= Z.of_nat Ln) lens) by (rewrite <- EL; exact HF).
  assert (HK : KS lens Ln = 2 ^ Z.of_nat Ln) by (rewrite <- kraft_KS by exact HF'; rewrite <- EL; exact Hk).
  pose proof (assign_loop_spec lens Ln ltac:(lia) HK Ln 1%nat ltac:(lia) ltac:(lia)) as H.
  change (Z.of_nat 1) with 1 in H. rewrite codes_upto_one in H.
  change (next_code lens 1) with (2 * (0 + bl_count lens 0)) in H. unfold bl_count in H. cbn [Z.eqb] in H.
  change (2 * (0 + 0)) with 0 in H. fold Ln. rewrite H. cbn [bind].
  replace (32 <=? L) with false by (symmetry; apply Z.leb_gt; lia).
  rewrite next_code_KS, HK, <- EL.
  assert (Hp : 2 ^ L <= 2 ^ 15) by (apply Z.pow_le_mono_r; lia). change (2 ^ 15) with 32768 in Hp.
  pose proof (pow2_pos L ltac:(lia)).
  unfold two32. rewrite Z.mod_small by lia. rewrite Z.eqb_refl.
  f_equal. unfold stream_codes, canonical. apply (codes_upto_stream lens Ln); [lia | exact HK | reflexivity | exact HF'].
Qed.
