(* Glue, part 13: the call-sequence theorems of Proofs/ReadImage_ops.v with the VP8 frame decoder replaced by its model
   Vp8Decode.decode_frame (property C02 closed: Proofs/VP8_decode_readimage.v): no hypothesis about a frame decoder is left --
   a lossy frame is one whose 'VP8 ' payload the reference decodes (frame_decodes_spec). *)
From Coq Require Import ZArith List Bool.
From WebP Require Import Lib.Res Spec.Container.
From WebP Require Model.Vp8Decode Model.Anim Proofs.Anim_play Proofs.Anim_history Spec.Anim.
From WebP Require Import Proofs.Container_bytes Proofs.ReadImage_anim Proofs.ReadImage_ops Proofs.VP8_decode_readimage.
From WebP Require Import Model.ReadImage Model.ReadImageOps.
Import ListNotations.
Open Scope Z_scope.

Theorem run_ops_from_file_closed c ms :
  wf c = true -> anim c = true -> Forall2 (frame_decodes_spec (fst (dims c)) (snd (dims c))) (frames c) ms ->
  fst (dims c) * snd (dims c) * 4 < 18446744073709551616 ->
  Anim_play.valid_file (anim_file c ms) /\
  exists dec, M.new (serialize c) = Ok dec /\
    forall ops buf, len buf = buffer_size c ->
      run_ops Vp8Decode.decode_frame dec ops (initial_fstate dec) buf
      = map conv (Anim.run_ops (anim_file c ms) ops Anim.fresh_state buf).
Proof. intros Hwf Ha HF Hc. exact (run_ops_from_file Vp8Decode.decode_frame c ms Hwf Ha (frames_decode_closed c ms Hwf HF) Hc). Qed.

Theorem history_independent_from_file_closed c ms :
  wf c = true -> anim c = true -> Forall2 (frame_decodes_spec (fst (dims c)) (snd (dims c))) (frames c) ms ->
  fst (dims c) * snd (dims c) * 4 < 18446744073709551616 ->
  exists dec, M.new (serialize c) = Ok dec /\
    forall ops buf, len buf = buffer_size c ->
      run_ops Vp8Decode.decode_frame dec ops (initial_fstate dec) buf
      = map conv (Anim_history.trace_of
                    (Spec.Anim.cursor_run (Anim_history.kshown (anim_file c ms)) (map Anim_history.op_of ops) 0 buf)).
Proof. intros Hwf Ha HF Hc. exact (history_independent_from_file Vp8Decode.decode_frame c ms Hwf Ha (frames_decode_closed c ms Hwf HF) Hc). Qed.

Theorem clauses_from_file_closed c ms :
  wf c = true -> anim c = true -> Forall2 (frame_decodes_spec (fst (dims c)) (snd (dims c))) (frames c) ms ->
  fst (dims c) * snd (dims c) * 4 < 18446744073709551616 ->
  exists dec, M.new (serialize c) = Ok dec /\
    forall ops buf i, len buf = buffer_size c ->
      let F := anim_file c ms in
      let tr := run_ops Vp8Decode.decode_frame dec ops (initial_fstate dec) buf in
      (forall j, nth_error ops i = Some Anim.MFrame -> Anim_history.position F (firstn i ops) = j -> (j < length ms)%nat ->
         nth_error tr i = option_map (fun rb => (RoFrame (fst rb), snd rb)) (nth_error (play Vp8Decode.decode_frame dec (length ms) buf) j))
      /\ (nth_error ops i = Some Anim.MImage ->
          nth_error tr i = Some (RoImage (Ok tt) true,
                                 Spec.Anim.render (alpha c) (fst (dims c)) (snd (dims c))
                                   (Spec.Anim.frames_upto AlphaBlend.do_alpha_blending (Anim_play.anim_of F) 0))
          /\ Anim_history.position F (firstn (S i) ops) = Anim_history.position F (firstn i ops))
      /\ (nth_error ops i = Some Anim.MFrame -> Anim_history.position F (firstn i ops) = length ms ->
          exists b, nth_error tr i = Some (RoFrame (Err ENoMoreFrames), b)
                    /\ b = Anim_history.buffer_before (Anim.run_ops F ops Anim.fresh_state buf) i buf).
Proof. intros Hwf Ha HF Hc. exact (clauses_from_file Vp8Decode.decode_frame c ms Hwf Ha (frames_decode_closed c ms Hwf HF) Hc). Qed.
