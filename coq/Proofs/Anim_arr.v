(* C06/C07 support: facts about the flat byte arrays of Model.Anim (Lib.Arr arrays read through Z indices), the
   straight-line copy loops, and the invariant rule for `for_range`. *)
From Coq Require Import ZArith NArith List Bool Lia FMapPositive.
From WebP Require Import Lib.Res Lib.Arr Model.AlphaBlend Model.Anim Spec.Anim.
Import ListNotations.
Open Scope Z_scope.

(* ------------------------------------------------------------------------------------------------ *)
(* zraw / zset                                                                                       *)
(* ------------------------------------------------------------------------------------------------ *)
Lemma zraw_zset_eq a i v : zraw (zset a i v) i = v.
Proof. unfold zraw, zset. apply araw_aset'_eq. Qed.

Lemma zraw_zset_neq a i j v : 0 <= i -> 0 <= j -> i <> j -> zraw (zset a i v) j = zraw a j.
Proof. intros Hi Hj Hne. unfold zraw, zset. apply araw_aset'_neq. lia. Qed.

Lemma zlen_zset a i v : zlen (zset a i v) = zlen a.
Proof. reflexivity. Qed.

Lemma zlen_nonneg a : 0 <= zlen a.
Proof. unfold zlen. lia. Qed.

Definition chan4 (p : px) (c : Z) : Z :=
  let '(r, g, b, a) := p in if c =? 0 then r else if c =? 1 then g else if c =? 2 then b else a.

Lemma zlen_set4 a i p : zlen (set4 a i p) = zlen a.
Proof. destruct p as [[[r g] b] al]. reflexivity. Qed.

Lemma zraw_set4 a i p j : 0 <= i -> 0 <= j ->
  zraw (set4 a i p) j = if (i <=? j) && (j <? i + 4) then chan4 p (j - i) else zraw a j.
Proof.
  intros Hi Hj. destruct p as [[[r g] b] al]. unfold set4, chan4.
  destruct (Z.eq_dec j (i + 3)) as [->|N3].
  { rewrite zraw_zset_eq. replace ((i <=? i + 3) && (i + 3 <? i + 4)) with true by (symmetry; apply andb_true_intro; split; [apply Z.leb_le|apply Z.ltb_lt]; lia).
    replace (i + 3 - i) with 3 by lia. reflexivity. }
  rewrite zraw_zset_neq by lia.
  destruct (Z.eq_dec j (i + 2)) as [->|N2].
  { rewrite zraw_zset_eq. replace ((i <=? i + 2) && (i + 2 <? i + 4)) with true by (symmetry; apply andb_true_intro; split; [apply Z.leb_le|apply Z.ltb_lt]; lia).
    replace (i + 2 - i) with 2 by lia. reflexivity. }
  rewrite zraw_zset_neq by lia.
  destruct (Z.eq_dec j (i + 1)) as [->|N1].
  { rewrite zraw_zset_eq. replace ((i <=? i + 1) && (i + 1 <? i + 4)) with true by (symmetry; apply andb_true_intro; split; [apply Z.leb_le|apply Z.ltb_lt]; lia).
    replace (i + 1 - i) with 1 by lia. reflexivity. }
  rewrite zraw_zset_neq by lia.
  destruct (Z.eq_dec j i) as [->|N0].
  { rewrite zraw_zset_eq. replace ((i <=? i) && (i <? i + 4)) with true by (symmetry; apply andb_true_intro; split; [apply Z.leb_le|apply Z.ltb_lt]; lia).
    replace (i - i) with 0 by lia. reflexivity. }
  rewrite zraw_zset_neq by lia.
  destruct (i <=? j) eqn:E1; [|reflexivity]. destruct (j <? i + 4) eqn:E2; [|reflexivity].
  apply Z.leb_le in E1. apply Z.ltb_lt in E2. lia.
Qed.

(* pixel granularity: a pixel slot is 4 consecutive bytes starting at a multiple of 4 *)
Lemma get4_set4_same a i p : 0 <= i -> get4 (set4 a i p) i = p.
Proof.
  intros Hi. unfold get4. rewrite !zraw_set4 by lia. destruct p as [[[r g] b] al].
  replace ((i <=? i) && (i <? i + 4)) with true by (symmetry; apply andb_true_intro; split; [apply Z.leb_le|apply Z.ltb_lt]; lia).
  replace ((i <=? i + 1) && (i + 1 <? i + 4)) with true by (symmetry; apply andb_true_intro; split; [apply Z.leb_le|apply Z.ltb_lt]; lia).
  replace ((i <=? i + 2) && (i + 2 <? i + 4)) with true by (symmetry; apply andb_true_intro; split; [apply Z.leb_le|apply Z.ltb_lt]; lia).
  replace ((i <=? i + 3) && (i + 3 <? i + 4)) with true by (symmetry; apply andb_true_intro; split; [apply Z.leb_le|apply Z.ltb_lt]; lia).
  replace (i - i) with 0 by lia. replace (i + 1 - i) with 1 by lia. replace (i + 2 - i) with 2 by lia. replace (i + 3 - i) with 3 by lia.
  reflexivity.
Qed.

Lemma get4_set4_other a p q v : 0 <= p -> 0 <= q -> p <> q -> get4 (set4 a (p * 4) v) (q * 4) = get4 a (q * 4).
Proof.
  intros Hp Hq Hne. unfold get4. rewrite !zraw_set4 by lia.
  assert (F : forall k, 0 <= k <= 3 -> (p * 4 <=? q * 4 + k) && (q * 4 + k <? p * 4 + 4) = false).
  { intros k Hk. destruct (p * 4 <=? q * 4 + k) eqn:E1; [|reflexivity]. destruct (q * 4 + k <? p * 4 + 4) eqn:E2; [|reflexivity].
    apply Z.leb_le in E1. apply Z.ltb_lt in E2. lia. }
  pose proof (F 0 ltac:(lia)) as F0. rewrite Z.add_0_r in F0.
  rewrite F0, (F 1), (F 2), (F 3) by lia. reflexivity.
Qed.

(* ------------------------------------------------------------------------------------------------ *)
(* copy_bytes, copy_rgb, fill4                                                                       *)
(* ------------------------------------------------------------------------------------------------ *)
Lemma zlen_copy_bytes n : forall dst di src si, zlen (copy_bytes n dst di src si) = zlen dst.
Proof. induction n as [|n IH]; intros; cbn [copy_bytes]; [reflexivity|]. rewrite IH. reflexivity. Qed.

Lemma zraw_copy_bytes n : forall dst di src si j, 0 <= di -> 0 <= j ->
  zraw (copy_bytes n dst di src si) j =
  if (di <=? j) && (j <? di + Z.of_nat n) then zraw src (si + (j - di)) else zraw dst j.
Proof.
  induction n as [|n IH]; intros dst di src si j Hdi Hj.
  - cbn [copy_bytes]. destruct (di <=? j) eqn:E1; [|reflexivity]. destruct (j <? di + Z.of_nat 0) eqn:E2; [|reflexivity].
    apply Z.leb_le in E1. apply Z.ltb_lt in E2. lia.
  - cbn [copy_bytes]. rewrite IH by lia.
    destruct (Z.eq_dec j di) as [->|Hne].
    + replace ((di + 1 <=? di) && (di <? di + 1 + Z.of_nat n)) with false
        by (symmetry; apply andb_false_intro1; apply Z.leb_gt; lia).
      rewrite zraw_zset_eq.
      replace ((di <=? di) && (di <? di + Z.of_nat (S n))) with true
        by (symmetry; apply andb_true_intro; split; [apply Z.leb_le|apply Z.ltb_lt]; lia).
      f_equal. lia.
    + rewrite zraw_zset_neq by lia.
      destruct (di + 1 <=? j) eqn:E1.
      * apply Z.leb_le in E1. replace (di <=? j) with true by (symmetry; apply Z.leb_le; lia).
        cbn [andb]. replace (di + 1 + Z.of_nat n) with (di + Z.of_nat (S n)) by lia.
        destruct (j <? di + Z.of_nat (S n)); [|reflexivity]. f_equal. lia.
      * apply Z.leb_gt in E1. cbn [andb]. replace (di <=? j) with false by (symmetry; apply Z.leb_gt; lia). reflexivity.
Qed.

Lemma zlen_copy_rgb n : forall dst di src si, zlen (copy_rgb n dst di src si) = zlen dst.
Proof. induction n as [|n IH]; intros; cbn [copy_rgb]; [reflexivity|]. rewrite IH, zlen_set4. reflexivity. Qed.

(* pixel slot q of the destination after copying n RGB pixels to slots p .. p+n *)
Lemma get4_copy_rgb n : forall dst p src si q, 0 <= p -> 0 <= q ->
  get4 (copy_rgb n dst (p * 4) src si) (q * 4) =
  if (p <=? q) && (q <? p + Z.of_nat n)
  then (zraw src (si + 3 * (q - p)), zraw src (si + 3 * (q - p) + 1), zraw src (si + 3 * (q - p) + 2), 255)
  else get4 dst (q * 4).
Proof.
  induction n as [|n IH]; intros dst p src si q Hp Hq.
  - cbn [copy_rgb]. destruct (p <=? q) eqn:E1; [|reflexivity]. destruct (q <? p + Z.of_nat 0) eqn:E2; [|reflexivity].
    apply Z.leb_le in E1. apply Z.ltb_lt in E2. lia.
  - cbn [copy_rgb]. replace (p * 4 + 4) with ((p + 1) * 4) by lia. rewrite IH by lia.
    destruct (Z.eq_dec q p) as [->|Hne].
    + replace ((p + 1 <=? p) && (p <? p + 1 + Z.of_nat n)) with false
        by (symmetry; apply andb_false_intro1; apply Z.leb_gt; lia).
      rewrite get4_set4_same by lia.
      replace ((p <=? p) && (p <? p + Z.of_nat (S n))) with true
        by (symmetry; apply andb_true_intro; split; [apply Z.leb_le|apply Z.ltb_lt]; lia).
      replace (p - p) with 0 by lia. rewrite Z.mul_0_r, Z.add_0_r. reflexivity.
    + destruct (p + 1 <=? q) eqn:E1.
      * apply Z.leb_le in E1. replace (p <=? q) with true by (symmetry; apply Z.leb_le; lia).
        cbn [andb]. replace (p + 1 + Z.of_nat n) with (p + Z.of_nat (S n)) by lia.
        destruct (q <? p + Z.of_nat (S n)).
        -- replace (si + 3 + 3 * (q - (p + 1))) with (si + 3 * (q - p)) by lia. reflexivity.
        -- apply get4_set4_other; lia.
      * apply Z.leb_gt in E1. cbn [andb]. replace (p <=? q) with false by (symmetry; apply Z.leb_gt; lia).
        cbn [andb]. apply get4_set4_other; lia.
Qed.

Lemma get4_copy_bytes n dst p src s q : 0 <= p -> 0 <= q ->
  get4 (copy_bytes (4 * n) dst (p * 4) src s) (q * 4) =
  if (p <=? q) && (q <? p + Z.of_nat n) then get4 src (s + 4 * (q - p)) else get4 dst (q * 4).
Proof.
  intros Hp Hq. unfold get4. rewrite !zraw_copy_bytes by lia.
  assert (F : forall k, 0 <= k <= 3 ->
     (p * 4 <=? q * 4 + k) && (q * 4 + k <? p * 4 + Z.of_nat (4 * n)) = (p <=? q) && (q <? p + Z.of_nat n)).
  { intros k Hk. apply eq_true_iff_eq. rewrite !andb_true_iff, !Z.leb_le, !Z.ltb_lt. lia. }
  pose proof (F 0 ltac:(lia)) as F0. rewrite Z.add_0_r in F0.
  rewrite F0, (F 1), (F 2), (F 3) by lia.
  destruct ((p <=? q) && (q <? p + Z.of_nat n)); [|reflexivity].
  replace (s + (q * 4 - p * 4)) with (s + 4 * (q - p)) by lia.
  replace (s + (q * 4 + 1 - p * 4)) with (s + 4 * (q - p) + 1) by lia.
  replace (s + (q * 4 + 2 - p * 4)) with (s + 4 * (q - p) + 2) by lia.
  replace (s + (q * 4 + 3 - p * 4)) with (s + 4 * (q - p) + 3) by lia.
  reflexivity.
Qed.

Lemma zlen_fill4 n : forall a i c, zlen (fill4 n a i c) = zlen a.
Proof. induction n as [|n IH]; intros; cbn [fill4]; [reflexivity|]. rewrite IH, zlen_set4. reflexivity. Qed.

Lemma get4_fill4 n : forall a p c q, 0 <= p -> 0 <= q ->
  get4 (fill4 n a (p * 4) c) (q * 4) = if (p <=? q) && (q <? p + Z.of_nat n) then c else get4 a (q * 4).
Proof.
  induction n as [|n IH]; intros a p c q Hp Hq.
  - cbn [fill4]. destruct (p <=? q) eqn:E1; [|reflexivity]. destruct (q <? p + Z.of_nat 0) eqn:E2; [|reflexivity].
    apply Z.leb_le in E1. apply Z.ltb_lt in E2. lia.
  - cbn [fill4]. replace (p * 4 + 4) with ((p + 1) * 4) by lia. rewrite IH by lia.
    destruct (Z.eq_dec q p) as [->|Hne].
    + replace ((p + 1 <=? p) && (p <? p + 1 + Z.of_nat n)) with false
        by (symmetry; apply andb_false_intro1; apply Z.leb_gt; lia).
      rewrite get4_set4_same by lia.
      replace ((p <=? p) && (p <? p + Z.of_nat (S n))) with true
        by (symmetry; apply andb_true_intro; split; [apply Z.leb_le|apply Z.ltb_lt]; lia).
      reflexivity.
    + destruct (p + 1 <=? q) eqn:E1.
      * apply Z.leb_le in E1. replace (p <=? q) with true by (symmetry; apply Z.leb_le; lia).
        cbn [andb]. replace (p + 1 + Z.of_nat n) with (p + Z.of_nat (S n)) by lia.
        destruct (q <? p + Z.of_nat (S n)); [reflexivity|]. apply get4_set4_other; lia.
      * apply Z.leb_gt in E1. cbn [andb]. replace (p <=? q) with false by (symmetry; apply Z.leb_gt; lia).
        cbn [andb]. apply get4_set4_other; lia.
Qed.

Lemma zlen_new_canvas len c : 0 <= len -> zlen (new_canvas len c) = len.
Proof. intros H. unfold new_canvas. rewrite zlen_fill4. unfold zlen, amake. cbn [alen]. lia. Qed.

(* ------------------------------------------------------------------------------------------------ *)
(* of_list                                                                                           *)
(* ------------------------------------------------------------------------------------------------ *)
Lemma of_list_from_find l : forall (i : N) m k,
  PM.find (akey k) (of_list_from l i m) =
  if (i <=? k)%N && (k <? i + N.of_nat (length l))%N then Some (nth (N.to_nat (k - i)) l 0) else PM.find (akey k) m.
Proof.
  induction l as [|x tl IH]; intros i m k.
  - cbn [of_list_from length]. destruct (i <=? k)%N eqn:E1; [|reflexivity]. destruct (k <? i + N.of_nat 0)%N eqn:E2; [|reflexivity].
    apply N.leb_le in E1. apply N.ltb_lt in E2. lia.
  - cbn [of_list_from length]. rewrite IH.
    destruct (N.eq_dec k i) as [->|Hne].
    + replace ((N.succ i <=? i)%N) with false by (symmetry; apply N.leb_gt; lia). cbn [andb].
      rewrite PM.gss.
      replace ((i <=? i)%N && (i <? i + N.of_nat (S (length tl)))%N) with true
        by (symmetry; apply andb_true_intro; split; [apply N.leb_le|apply N.ltb_lt]; lia).
      replace (N.to_nat (i - i)) with 0%nat by lia. reflexivity.
    + destruct (N.succ i <=? k)%N eqn:E1.
      * apply N.leb_le in E1. replace (i <=? k)%N with true by (symmetry; apply N.leb_le; lia). cbn [andb].
        replace (N.succ i + N.of_nat (length tl))%N with (i + N.of_nat (S (length tl)))%N by lia.
        destruct (k <? i + N.of_nat (S (length tl)))%N.
        -- replace (N.to_nat (k - i)) with (S (N.to_nat (k - N.succ i))) by lia. reflexivity.
        -- rewrite PM.gso; [reflexivity|]. intros E. apply akey_inj in E. lia.
      * apply N.leb_gt in E1. cbn [andb]. replace (i <=? k)%N with false by (symmetry; apply N.leb_gt; lia). cbn [andb].
        rewrite PM.gso; [reflexivity|]. intros E. apply akey_inj in E. lia.
Qed.

Lemma zraw_of_list l i : 0 <= i -> zraw (of_list l) i = nth (Z.to_nat i) l 0.
Proof.
  intros Hi. unfold zraw, araw, of_list. cbn [adata]. rewrite of_list_from_find.
  rewrite PM.gempty. replace (Z.to_N i - 0)%N with (Z.to_N i) by lia.
  replace (N.to_nat (Z.to_N i)) with (Z.to_nat i) by lia.
  destruct ((0 <=? Z.to_N i)%N && (Z.to_N i <? 0 + N.of_nat (length l))%N) eqn:E; [reflexivity|].
  symmetry. apply nth_overflow.
  apply andb_false_iff in E. destruct E as [E|E]; [apply N.leb_gt in E; lia|]. apply N.ltb_ge in E. lia.
Qed.

Lemma zlen_of_list l : zlen (of_list l) = Z.of_nat (length l).
Proof. unfold zlen, of_list. cbn [alen]. lia. Qed.

(* ------------------------------------------------------------------------------------------------ *)
(* read_bytes / read_rgb as maps over an index range                                                 *)
(* ------------------------------------------------------------------------------------------------ *)
Lemma zseq_shift n : forall a k, zseq n (a + k) = map (fun j => j + k) (zseq n a).
Proof. induction n as [|n IH]; intros a k; cbn [zseq map]; [reflexivity|]. f_equal. replace (a + k + 1) with (a + 1 + k) by lia. apply IH. Qed.

Lemma in_zseq n : forall a x, In x (zseq n a) <-> a <= x < a + Z.of_nat n.
Proof.
  induction n as [|n IH]; intros a x; cbn [zseq In]; [lia|].
  rewrite IH. lia.
Qed.

Lemma zseq_length n a : length (zseq n a) = n.
Proof. revert a. induction n as [|n IH]; intros a; cbn [zseq length]; [reflexivity|]. rewrite IH. reflexivity. Qed.

Lemma read_bytes_map n : forall a i, read_bytes n a i = map (zraw a) (zseq n i).
Proof. induction n as [|n IH]; intros a i; cbn [read_bytes zseq map]; [reflexivity|]. rewrite IH. reflexivity. Qed.

Lemma read_rgb_map n : forall a i,
  read_rgb n a i = map (fun j => zraw a (i + 4 * (j / 3) + j mod 3)) (zseq (3 * n) 0).
Proof.
  induction n as [|n IH]; intros a i.
  - reflexivity.
  - replace (3 * S n)%nat with (S (S (S (3 * n)))) by lia. cbn [read_rgb zseq map].
    change (0 + 1 + 1 + 1) with (0 + 3). rewrite zseq_shift, map_map, IH.
    change (0 / 3) with 0. change (0 mod 3) with 0. change ((0 + 1) / 3) with 0. change ((0 + 1) mod 3) with 1.
    change ((0 + 1 + 1) / 3) with 0. change ((0 + 1 + 1) mod 3) with 2.
    replace (i + 4 * 0 + 0) with i by lia. replace (i + 4 * 0 + 1) with (i + 1) by lia. replace (i + 4 * 0 + 2) with (i + 2) by lia.
    do 3 f_equal. apply map_ext_in. intros j Hj. apply in_zseq in Hj.
    replace (j + 3) with (j + 1 * 3) by lia. rewrite Z.div_add, Z.mod_add by lia. f_equal. lia.
Qed.

(* ------------------------------------------------------------------------------------------------ *)
(* invariant rule for for_range                                                                      *)
(* ------------------------------------------------------------------------------------------------ *)
Lemma for_range_inv {St : Type} (P : Z -> St -> Prop) (body : Z -> St -> res St) : forall n i s,
  P i s ->
  (forall j t, i <= j < i + Z.of_nat n -> P j t -> exists t', body j t = Ok t' /\ P (j + 1) t') ->
  exists s', for_range n i body s = Ok s' /\ P (i + Z.of_nat n) s'.
Proof.
  induction n as [|n IH]; intros i s HP Hstep.
  - exists s. split; [reflexivity|]. replace (i + Z.of_nat 0) with i by lia. exact HP.
  - destruct (Hstep i s ltac:(lia) HP) as (t' & Hb & HP').
    cbn [for_range]. rewrite Hb.
    destruct (IH (i + 1) t' HP') as (s' & Hf & HP'').
    { intros j t Hj. apply Hstep. lia. }
    exists s'. split; [exact Hf|]. replace (i + Z.of_nat (S n)) with (i + 1 + Z.of_nat n) by lia. exact HP''.
Qed.

Lemma usz_ok v : v < 18446744073709551616 -> usz v = Ok v.
Proof. intros H. unfold usz. replace (v <? 18446744073709551616) with true by (symmetry; apply Z.ltb_lt; exact H). reflexivity. Qed.
