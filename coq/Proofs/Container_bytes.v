(* C08, byte-level kit: where a byte string sits inside the file ([at_pos]), what the reader primitives of
   Model.Container return there, little-endian round trips, FourCC recognition. *)
From Coq Require Import ZArith List Bool Lia.
From WebP Require Import Lib.Res Lib.ZBits Spec.Container.
From WebP Require Model.Container.
Module M := WebP.Model.Container.
Import ListNotations.
Open Scope Z_scope.

Ltac Zify.zify_post_hook ::= Z.div_mod_to_equations.

(* ---------------------------------------------------------------------------------------------- *)
(* lengths                                                                                          *)
(* ---------------------------------------------------------------------------------------------- *)
Lemma len_M {A} (l : list A) : M.len l = len l.
Proof. reflexivity. Qed.

Lemma len_app {A} (a b : list A) : len (a ++ b) = len a + len b.
Proof. unfold len. rewrite app_length. lia. Qed.

Lemma len_nonneg {A} (l : list A) : 0 <= len l.
Proof. unfold len. lia. Qed.

Lemma len_nil {A} : len (@nil A) = 0.
Proof. reflexivity. Qed.

Lemma len_cons {A} (x : A) l : len (x :: l) = 1 + len l.
Proof. unfold len. cbn [length]. lia. Qed.

Lemma len_0_nil {A} (l : list A) : len l = 0 -> l = [].
Proof. destruct l; [reflexivity | rewrite len_cons; pose proof (len_nonneg l); lia]. Qed.

Lemma len_le16 v : len (le16 v) = 2. Proof. reflexivity. Qed.
Lemma len_le24 v : len (le24 v) = 3. Proof. reflexivity. Qed.
Lemma len_le32 v : len (le32 v) = 4. Proof. reflexivity. Qed.

Lemma len_pad p : len (pad p) = len p mod 2.
Proof.
  unfold pad. rewrite Zodd_mod. destruct (Zeq_bool (len p mod 2) 1) eqn:E.
  - apply Zeq_bool_eq in E. rewrite E. reflexivity.
  - apply Zeq_bool_neq in E. rewrite len_nil. pose proof (len_nonneg p). lia.
Qed.

Lemma len_ser_chunk cc p : len (ser_chunk cc p) = len cc + 4 + len p + len p mod 2.
Proof. unfold ser_chunk. rewrite !len_app, len_le32, len_pad. lia. Qed.

(* ---------------------------------------------------------------------------------------------- *)
(* positions inside the file                                                                        *)
(* ---------------------------------------------------------------------------------------------- *)
Definition at_pos (d : list Z) (p : Z) (x : list Z) : Prop :=
  exists pre post, d = pre ++ x ++ post /\ len pre = p.

Lemma at_pos_whole d : at_pos d 0 d.
Proof. exists [], []. rewrite app_nil_r. split; reflexivity. Qed.

Lemma at_pos_app_l d p x y : at_pos d p (x ++ y) -> at_pos d p x.
Proof. intros (pre & post & -> & H). exists pre, (y ++ post). rewrite <- app_assoc. auto. Qed.

Lemma at_pos_app_r d p x y : at_pos d p (x ++ y) -> at_pos d (p + len x) y.
Proof.
  intros (pre & post & -> & H). exists (pre ++ x), post. split.
  - rewrite <- !app_assoc. reflexivity.
  - rewrite len_app. lia.
Qed.

Lemma at_pos_bound d p x : at_pos d p x -> 0 <= p /\ p + len x <= len d.
Proof.
  intros (pre & post & -> & H). rewrite !len_app. pose proof (len_nonneg pre). pose proof (len_nonneg post). lia.
Qed.

Lemma at_pos_end d p x : at_pos d p x -> p + len x = len d -> exists pre, d = pre ++ x /\ len pre = p.
Proof.
  intros (pre & post & -> & H) E. rewrite !len_app in E.
  assert (post = []) by (apply len_0_nil; lia). subst post. rewrite app_nil_r. eauto.
Qed.

Lemma slice_at d p x : at_pos d p x -> M.slice d p (len x) = x.
Proof.
  intros (pre & post & -> & H). unfold M.slice. subst p. unfold len. rewrite !Nat2Z.id.
  rewrite skipn_app, skipn_all, Nat.sub_diag. cbn [skipn app].
  rewrite firstn_app, firstn_all, Nat.sub_diag. cbn [firstn]. apply app_nil_r.
Qed.

Lemma read_exact_at d p x n : at_pos d p x -> len x = n -> M.read_exact d p n = Ok (x, p + n).
Proof.
  intros H E. unfold M.read_exact. destruct (n =? 0) eqn:E0.
  - apply Z.eqb_eq in E0. subst n. rewrite E0. apply len_0_nil in E0. subst x. rewrite Z.add_0_r. reflexivity.
  - destruct (at_pos_bound _ _ _ H) as [_ Hb]. rewrite len_M. subst n.
    destruct (p + len x <=? len d) eqn:E1; [| apply Z.leb_gt in E1; lia].
    rewrite (slice_at _ _ _ H). reflexivity.
Qed.

(* reading past the end *)
Lemma read_exact_eof d p n : 0 < n -> len d < p + n -> M.read_exact d p n = Err EIo.
Proof.
  intros Hn H. unfold M.read_exact. destruct (n =? 0) eqn:E0; [apply Z.eqb_eq in E0; lia|].
  rewrite len_M. destruct (p + n <=? len d) eqn:E1; [apply Z.leb_le in E1; lia | reflexivity].
Qed.

(* ---------------------------------------------------------------------------------------------- *)
(* little-endian round trips                                                                        *)
(* ---------------------------------------------------------------------------------------------- *)
Lemma read_u8_at d p b : at_pos d p [b] -> M.read_u8 d p = Ok (b, p + 1).
Proof. intros H. unfold M.read_u8. rewrite (read_exact_at _ _ _ 1 H eq_refl). reflexivity. Qed.

Lemma read_u16_at d p v : at_pos d p (le16 v) -> 0 <= v < 65536 -> M.read_u16_le d p = Ok (v, p + 2).
Proof.
  intros H Hv. unfold M.read_u16_le. rewrite (read_exact_at _ _ _ 2 H eq_refl).
  cbn [bind le16 M.nth_byte nth]. f_equal. f_equal. lia.
Qed.

Lemma read_u24_at d p v : at_pos d p (le24 v) -> 0 <= v < 16777216 -> M.read_u24_le d p = Ok (v, p + 3).
Proof.
  intros H Hv. unfold M.read_u24_le. rewrite (read_exact_at _ _ _ 3 H eq_refl).
  cbn [bind le24 M.nth_byte nth]. f_equal. f_equal. lia.
Qed.

Lemma read_u32_at d p v : at_pos d p (le32 v) -> 0 <= v < 4294967296 -> M.read_u32_le d p = Ok (v, p + 4).
Proof.
  intros H Hv. unfold M.read_u32_le. rewrite (read_exact_at _ _ _ 4 H eq_refl).
  cbn [bind le32 M.nth_byte nth]. f_equal. f_equal. lia.
Qed.

(* (b2 << 16) | (b1 << 8) | b0 *)
Lemma lor3 b0 b1 b2 : 0 <= b0 < 256 -> 0 <= b1 < 256 -> 0 <= b2 < 256 ->
  Z.lor (Z.lor (Z.shiftl b2 16) (Z.shiftl b1 8)) b0 = b0 + 256 * b1 + 65536 * b2.
Proof.
  intros H0 H1 H2. rewrite !Z.shiftl_mul_pow2 by lia.
  rewrite (Z.lor_comm (b2 * 2 ^ 16)). rewrite (lor_low_high (b1 * 2 ^ 8) b2 16) by lia.
  rewrite Z.lor_comm.
  replace (b1 * 2 ^ 8 + b2 * 2 ^ 16) with ((b1 + b2 * 256) * 2 ^ 8) by lia.
  rewrite (lor_low_high b0 (b1 + b2 * 256) 8) by lia. lia.
Qed.

Lemma read_3_bytes_at d p v : at_pos d p (le24 v) -> 0 <= v < 16777216 -> M.read_3_bytes d p = Ok (v, p + 3).
Proof.
  intros H Hv. unfold M.read_3_bytes. rewrite (read_exact_at _ _ _ 3 H eq_refl).
  cbn [bind le24 M.nth_byte nth]. rewrite lor3 by lia. f_equal. f_equal. lia.
Qed.

(* ---------------------------------------------------------------------------------------------- *)
(* FourCCs and chunk headers                                                                        *)
(* ---------------------------------------------------------------------------------------------- *)
Lemma M_bytes_eqb_eq a b : M.bytes_eqb a b = true <-> a = b.
Proof.
  revert b. induction a as [|x a IH]; intros [|y b]; cbn [M.bytes_eqb]; split; intros H; try reflexivity; try discriminate.
  - apply andb_prop in H. destruct H as [H1 H2]. apply Z.eqb_eq in H1. apply IH in H2. congruence.
  - inversion H; subst. rewrite Z.eqb_refl. cbn [andb]. apply IH. reflexivity.
Qed.

Lemma bytes_eqb_M a b : M.bytes_eqb a b = bytes_eqb a b.
Proof. reflexivity. Qed.

Lemma kind_eqb_eq a b : M.kind_eqb a b = true <-> a = b.
Proof.
  destruct a, b; cbn [M.kind_eqb]; split; intros H; try reflexivity; try discriminate.
  - apply M_bytes_eqb_eq in H. congruence.
  - inversion H; subst. apply M_bytes_eqb_eq. reflexivity.
Qed.

Lemma kind_eqb_refl a : M.kind_eqb a a = true.
Proof. apply kind_eqb_eq. reflexivity. Qed.

(* a FourCC the specification does not reserve is "Unknown" for the decoder *)
Lemma from_fourcc_unknown cc : is_unknown_cc cc = true -> M.from_fourcc cc = M.KUnknown cc.
Proof.
  unfold is_unknown_cc. intros H. apply andb_prop in H. destruct H as [_ H]. apply negb_true_iff in H.
  unfold reserved_ccs in H. cbn [existsb] in H. repeat (apply orb_false_elim in H; destruct H as [?E H]).
  unfold M.from_fourcc. change bytes_eqb with M.bytes_eqb in *.
  unfold cc_RIFF, cc_WEBP, cc_VP8, cc_VP8L, cc_VP8X, cc_ANIM, cc_ANMF, cc_ALPH, cc_ICCP, cc_EXIF, cc_XMP in *.
  rewrite E, E0, E1, E2, E3, E4, E5, E6, E7, E8, E9. reflexivity.
Qed.

Lemma read_fourcc_at d p cc : at_pos d p cc -> len cc = 4 -> M.read_fourcc d p = Ok (M.from_fourcc cc, p + 4).
Proof. intros H E. unfold M.read_fourcc. rewrite (read_exact_at _ _ _ 4 H E). reflexivity. Qed.

Definition rounded (n : Z) : Z := n + n mod 2.

Lemma read_chunk_header_at d p cc size :
  at_pos d p (cc ++ le32 size) -> len cc = 4 -> 0 <= size <= 4294967294 ->
  M.read_chunk_header d p = Ok ((M.from_fourcc cc, size, rounded size), p + 8).
Proof.
  intros H E Hs. unfold M.read_chunk_header.
  rewrite (read_fourcc_at _ _ _ (at_pos_app_l _ _ _ _ H) E). cbn [bind].
  pose proof (at_pos_app_r _ _ _ _ H) as H2. rewrite E in H2.
  rewrite (read_u32_at _ _ _ H2) by lia. cbn [bind].
  replace (p + 4 + 4) with (p + 8) by lia.
  change 1 with (Z.ones 1). rewrite Z.land_ones by lia. change (2 ^ 1) with 2.
  unfold rounded, M.u32_max. rewrite Z.min_l by lia. reflexivity.
Qed.

Lemma read_chunk_header_eof d p : len d < p + 4 -> M.read_chunk_header d p = Err EIo.
Proof.
  intros H. unfold M.read_chunk_header, M.read_fourcc. rewrite read_exact_eof by lia. reflexivity.
Qed.

Lemma len_payload_padded p : len (p ++ pad p) = rounded (len p).
Proof. rewrite len_app, len_pad. reflexivity. Qed.

(* a serialised chunk: header, then the payload at +8, then whatever follows at +8+rounded *)
Lemma ser_chunk_header d p cc pl rest :
  at_pos d p (ser_chunk cc pl ++ rest) -> len cc = 4 ->
  at_pos d p (cc ++ le32 (len pl)) /\ at_pos d (p + 8) pl /\ at_pos d (p + 8 + rounded (len pl)) rest.
Proof.
  intros H E. unfold ser_chunk in H.
  replace ((cc ++ le32 (len pl) ++ pl ++ pad pl) ++ rest) with ((cc ++ le32 (len pl)) ++ pl ++ pad pl ++ rest) in H
    by (rewrite <- !app_assoc; reflexivity).
  split; [exact (at_pos_app_l _ _ _ _ H)|].
  apply at_pos_app_r in H. rewrite len_app, E, len_le32 in H. replace (p + (4 + 4)) with (p + 8) in H by lia.
  split; [exact (at_pos_app_l _ _ _ _ H)|].
  apply at_pos_app_r in H. apply at_pos_app_r in H. rewrite len_pad in H.
  unfold rounded. replace (p + 8 + (len pl + len pl mod 2)) with (p + 8 + len pl + len pl mod 2) by lia. exact H.
Qed.

Lemma len_ser_chunk4 cc pl : len cc = 4 -> len (ser_chunk cc pl) = 8 + rounded (len pl).
Proof. intros E. rewrite len_ser_chunk, E. unfold rounded. lia. Qed.

(* ---------------------------------------------------------------------------------------------- *)
(* checked arithmetic that does not overflow                                                        *)
(* ---------------------------------------------------------------------------------------------- *)
Lemma add_u64_ok a b : a + b <= M.u64_max -> M.add_u64 a b = Ok (a + b).
Proof. intros H. unfold M.add_u64. destruct (a + b <=? M.u64_max) eqn:E; [reflexivity | apply Z.leb_gt in E; lia]. Qed.
Lemma add_u32_ok a b : a + b <= M.u32_max -> M.add_u32 a b = Ok (a + b).
Proof. intros H. unfold M.add_u32. destruct (a + b <=? M.u32_max) eqn:E; [reflexivity | apply Z.leb_gt in E; lia]. Qed.
Lemma sub_u64_ok a b : b <= a -> M.sub_u64 a b = Ok (a - b).
Proof. intros H. unfold M.sub_u64. destruct (b <=? a) eqn:E; [reflexivity | apply Z.leb_gt in E; lia]. Qed.
Lemma sub_i64_ok a b : M.i64_min <= a - b <= M.i64_max -> M.sub_i64 a b = Ok (a - b).
Proof.
  intros H. unfold M.sub_i64. destruct (M.i64_min <=? a - b) eqn:E1; [| apply Z.leb_gt in E1; lia].
  destruct (a - b <=? M.i64_max) eqn:E2; [reflexivity | apply Z.leb_gt in E2; lia].
Qed.
Lemma seek_relative_ok p off : 0 <= p + off <= M.u64_max -> M.seek_relative p off = Ok (p + off).
Proof.
  intros H. unfold M.seek_relative. destruct (0 <=? p + off) eqn:E1; [| apply Z.leb_gt in E1; lia].
  destruct (p + off <=? M.u64_max) eqn:E2; [reflexivity | apply Z.leb_gt in E2; lia].
Qed.

(* ---------------------------------------------------------------------------------------------- *)
(* boolean well-formedness to Prop                                                                  *)
(* ---------------------------------------------------------------------------------------------- *)
Lemma in_range_true lo hi x : in_range lo hi x = true -> lo <= x <= hi.
Proof. unfold in_range. intros H. apply andb_prop in H. destruct H as [H1 H2]. apply Z.leb_le in H1, H2. lia. Qed.

Ltac split_andb :=
  repeat match goal with
         | H : _ && _ = true |- _ => rewrite andb_true_iff in H; destruct H
         | H : in_range _ _ _ = true |- _ => apply in_range_true in H
         end.
