(* Glue of read_image / read_frame (Model/ReadImage.v), part 1: the kit.
   readers over a file position ([window], [range_reader]); the ALPH chunk reader against the container specification
   (Spec.Still.alpha_plane: header bits, raw / lossless payload, green channel); interleaving colour and alpha bytes
   ([weave]) against the four-channel plane writer, the opaque fill, the alpha loop and the 4 -> 3 byte copy. *)
From Coq Require Import ZArith List Bool Lia Arith.
From WebP Require Import Lib.Res Lib.ZBits Lib.Sweep Spec.YUV Spec.Alpha Model.Alpha Model.Yuv Model.Still.
From WebP Require Spec.Still Spec.VP8L Model.Lossless.
From WebP Require Import Proofs.Container_bytes Proofs.C13_yuv Proofs.Alpha_unfilter Proofs.Still_glue.
From WebP Require Proofs.C04_bits Proofs.C01_top.
From WebP Require Import Model.ReadImage.
Import ListNotations.
Open Scope Z_scope.

Module V := WebP.Spec.VP8L.
Module SS := WebP.Spec.Still.

Lemma bind_Ok' {A B} (a : A) (f : A -> res B) : bind (Ok a) f = f a.
Proof. reflexivity. Qed.

Lemma bind_ok_inv {A B} (r : res A) (f : A -> res B) b : bind r f = Ok b -> exists a, r = Ok a /\ f a = Ok b.
Proof. destruct r; cbn [bind]; intros H; try discriminate. eauto. Qed.

(* ---------------------------------------------------------------------------------------------- *)
(* readers                                                                                          *)
(* ---------------------------------------------------------------------------------------------- *)
Lemma window_at d p x : at_pos d p x -> window d p (Spec.Container.len x) = x.
Proof.
  intros H. destruct (at_pos_bound _ _ _ H) as [Hp Hb]. unfold window. rewrite len_M.
  pose proof (len_nonneg x) as Hx.
  destruct (Spec.Container.len d <=? p) eqn:E.
  - apply Z.leb_le in E. assert (Spec.Container.len x = 0) by lia. symmetry. apply len_0_nil. assumption.
  - apply Z.leb_gt in E. rewrite Z.min_l by lia. apply slice_at. exact H.
Qed.

Lemma range_reader_at d s x : at_pos d s x -> range_reader d (s, s + Spec.Container.len x) = Ok x.
Proof.
  intros H. unfold range_reader. cbn [fst snd]. pose proof (len_nonneg x).
  rewrite sub_u64_ok by lia. cbn [bind]. replace (s + Spec.Container.len x - s) with (Spec.Container.len x) by lia.
  rewrite (window_at _ _ _ H). reflexivity.
Qed.

Lemma all_bytes_Forall l : Spec.Container.all_bytes l = true <-> Forall byte l.
Proof.
  unfold Spec.Container.all_bytes. rewrite forallb_forall, Forall_forall. unfold Spec.Container.is_byte, byte.
  split; intros H x Hx; specialize (H x Hx).
  - rewrite andb_true_iff, !Z.leb_le in H. exact H.
  - rewrite andb_true_iff, !Z.leb_le. exact H.
Qed.

Lemma usz_ok v : v <= M.usize_max -> usz v = Ok v.
Proof. intros H. unfold usz. destruct (v <=? M.usize_max) eqn:E; [reflexivity | apply Z.leb_gt in E; lia]. Qed.

Lemma zeros_length n : 0 <= n -> Z.of_nat (length (zeros n)) = n.
Proof. intros H. unfold zeros. rewrite repeat_length. lia. Qed.

(* ---------------------------------------------------------------------------------------------- *)
(* the green channel                                                                                *)
(* ---------------------------------------------------------------------------------------------- *)
Lemma extract_green_greens : forall px g, length g = length (SS.greens px) -> extract_green px g = SS.greens px.
Proof.
  intros px. induction px as [|a|a b|a b c|r g b a px IH] using list_ind4; intros gl H; cbn [SS.greens length] in H;
    try (destruct gl; [reflexivity | discriminate]).
  destruct gl as [|x gl]; [discriminate|]. cbn [extract_green SS.greens]. f_equal. apply IH. cbn [length] in H. lia.
Qed.

Lemma take_firstn : forall n l, SS.take n l = firstn n l.
Proof. induction n as [|n IH]; intros [|x l]; first [reflexivity | cbn [SS.take firstn]; f_equal; apply IH]. Qed.

(* ---------------------------------------------------------------------------------------------- *)
(* the ALPH header byte                                                                             *)
(* ---------------------------------------------------------------------------------------------- *)
Lemma alpha_header_bits b : 0 <= b <= 255 ->
  Z.shiftr (Z.land b 48) 4 = (b / 16) mod 4 /\ Z.shiftr (Z.land b 12) 2 = (b / 4) mod 4 /\ Z.land b 3 = b mod 4.
Proof.
  intros Hb.
  assert (S : forallb (fun b => (Z.shiftr (Z.land b 48) 4 =? (b / 16) mod 4) && (Z.shiftr (Z.land b 12) 2 =? (b / 4) mod 4)
                                && (Z.land b 3 =? b mod 4)) (zrange 256 0) = true) by (vm_compute; reflexivity).
  pose proof (forallb_zrange _ _ _ S b ltac:(lia)) as H. cbv beta in H.
  rewrite !andb_true_iff, !Z.eqb_eq in H. tauto.
Qed.

(* the stream conditions of property C01 under which the lossless decoder equals the specification, for a compressed ALPH
   payload (header byte, then the implicit-dimension VP8L stream) *)
Definition alph_in_format (w h : Z) (payload : list Z) : Prop :=
  match payload with
  | hb :: data => header_compressed hb = true ->
                  C01_top.codes_in_format_implicit w h data /\ C01_top.in_format w h (V.Stream [] data)
  | [] => True
  end.

(* extended.rs::read_alpha_chunk = the container specification's reading of the chunk *)
Lemma read_alpha_chunk_spec payload w h al :
  Forall byte payload -> 1 <= w <= 16384 -> 1 <= h <= 16384 ->
  SS.alpha_plane w h payload = Some al -> alph_in_format w h payload ->
  exists ac, read_alpha_chunk payload w h = Ok ac /\ length (ac_data ac) = Z.to_nat (w * h)
             /\ unfilter (ac_filter ac) (Z.to_nat w) (ac_data ac) = al.
Proof.
  intros Hb Hw Hh Hsp Hfmt. destruct payload as [|hb data]; [discriminate|].
  inversion Hb as [|? ? Hhb Hdata]; subst. unfold byte in Hhb.
  destruct (alpha_header_bits hb Hhb) as (B1 & B2 & B3).
  cbn [SS.alpha_plane] in Hsp. destruct (header_ok hb) eqn:Hok; cbn [negb] in Hsp; [|discriminate].
  unfold header_ok in Hok. rewrite andb_true_iff, !Z.leb_le in Hok. destruct Hok as [Hpre Hcmp].
  assert (Hn : 0 <= w * h <= 268435456) by nia.
  unfold read_alpha_chunk. rewrite B1, B2, B3.
  assert (Epre : exists pb, match (hb / 16) mod 4 with 0 => Ok false | 1 => Ok true | _ => Err EInvalidAlphaPreprocessing end = Ok pb).
  { assert (C : (hb / 16) mod 4 = 0 \/ (hb / 16) mod 4 = 1) by lia. destruct C as [-> | ->]; eauto. }
  destruct Epre as (pb & ->). cbn [bind].
  assert (Efil : match (hb / 4) mod 4 with
                 | 0 => Ok FNone | 1 => Ok FHorizontal | 2 => Ok FVertical | 3 => Ok FGradient | _ => Panic PUnreachable
                 end = Ok (header_filter hb)).
  { unfold header_filter.
    assert (C : (hb / 4) mod 4 = 0 \/ (hb / 4) mod 4 = 1 \/ (hb / 4) mod 4 = 2 \/ (hb / 4) mod 4 = 3) by lia.
    destruct C as [-> | [-> | [-> | ->]]]; reflexivity. }
  rewrite Efil. cbn [bind].
  assert (Ecmp : match hb mod 4 with 0 => Ok false | 1 => Ok true | _ => Err EInvalidCompressionMethod end
                 = Ok (header_compressed hb)).
  { unfold header_compressed. assert (C : hb mod 4 = 0 \/ hb mod 4 = 1) by lia. destruct C as [-> | ->]; reflexivity. }
  rewrite Ecmp. cbn [bind].
  rewrite usz_ok by (unfold M.usize_max, M.u64_max; lia). cbn [bind].
  destruct (header_compressed hb) eqn:Ec.
  - (* lossless payload *)
    destruct (V.decode_implicit_rgba w h data) as [px|] eqn:Ed; [|discriminate].
    destruct (Nat.eqb (length (SS.greens px)) (Z.to_nat (w * h))) eqn:El; [|discriminate]. apply Nat.eqb_eq in El.
    injection Hsp as <-.
    destruct (Hfmt Ec) as [Hcodes Hform].
    rewrite usz_ok by (unfold M.usize_max, M.u64_max; lia). cbn [bind].
    rewrite (C01_top.decode_frame_implicit_matches_spec data [] w h (zeros (w * h * 4)) px Hdata) ;
      [| rewrite zeros_length by lia; lia | exact Ed | exact Hcodes | exact Hform].
    cbn [bind]. eexists. split; [reflexivity|]. cbn [ac_data ac_filter].
    rewrite extract_green_greens by (unfold zeros; rewrite repeat_length; lia).
    split; [exact El | reflexivity].
  - (* raw payload *)
    destruct (Nat.leb (Z.to_nat (w * h)) (length data)) eqn:El; [|discriminate]. apply Nat.leb_le in El.
    rewrite take_firstn in Hsp.
    destruct (Nat.eqb (length (firstn (Z.to_nat (w * h)) data)) (Z.to_nat (w * h))) eqn:El2; [|discriminate].
    apply Nat.eqb_eq in El2. injection Hsp as <-.
    unfold M.len. destruct (w * h <=? Z.of_nat (length data)) eqn:E2; [| apply Z.leb_gt in E2; lia].
    cbn [bind]. eexists. split; [reflexivity|]. cbn [ac_data ac_filter]. split; [exact El2 | reflexivity].
Qed.

(* ---------------------------------------------------------------------------------------------- *)
(* colour bytes and alpha bytes interleaved                                                         *)
(* ---------------------------------------------------------------------------------------------- *)
Lemma weave_app : forall c a b d, length a = (3 * length c)%nat -> SS.weave (a ++ b) (c ++ d) = SS.weave a c ++ SS.weave b d.
Proof.
  induction c as [|x c IH]; intros a b d H; cbn [length] in H.
  - destruct a; [reflexivity | cbn [length] in H; lia].
  - destruct a as [|r [|g [|bb a]]]; cbn [length] in H; try lia.
    cbn [app SS.weave]. do 4 f_equal. apply IH. lia.
Qed.

Lemma weave_length : forall al rgb, length rgb = (3 * length al)%nat -> length (SS.weave rgb al) = (4 * length al)%nat.
Proof.
  induction al as [|x al IH]; intros rgb H; cbn [length] in H.
  - destruct rgb as [|r [|g [|b rgb]]]; cbn [length] in H; try lia; reflexivity.
  - destruct rgb as [|r [|g [|b rgb]]]; cbn [length] in H; try lia. cbn [SS.weave length]. rewrite IH by lia. lia.
Qed.

Lemma flat_map_weave (r g b a : nat -> Z) : forall l,
  flat_map (fun x => [r x; g x; b x] ++ [a x]) l = SS.weave (flat_map (fun x => [r x; g x; b x]) l) (map a l).
Proof. induction l as [|x l IH]; [reflexivity|]. cbn [flat_map map]. rewrite IH. reflexivity. Qed.

Lemma flat_map_length3 (r g b : nat -> Z) l : length (flat_map (fun x => [r x; g x; b x]) l) = (3 * length l)%nat.
Proof. induction l as [|x l IH]; [reflexivity|]. cbn [flat_map app length]. rewrite IH. lia. Qed.

Lemma rgba_row_weave ys us vs buf :
  rgba_row ys us vs buf = SS.weave (rgb_row ys us vs) (map (fun x => nthZ buf (4 * x + 3)) (seq 0 (length ys))).
Proof. unfold rgba_row, rgb_row, rgb. apply flat_map_weave. Qed.

Lemma rgb_row_length ys us vs : length (rgb_row ys us vs) = (3 * length ys)%nat.
Proof. unfold rgb_row, rgb. rewrite flat_map_length3, seq_length. reflexivity. Qed.

(* a four-channel plane = the three-channel plane interleaved with the alpha bytes the buffer held *)
Lemma rgba_plane_weave w yp up vp buf : forall h, length yp = (w * h)%nat ->
  exists al0, rgba_plane w h yp up vp buf = SS.weave (rgb_plane w h yp up vp) al0 /\ length al0 = (w * h)%nat
              /\ length (rgb_plane w h yp up vp) = (3 * (w * h))%nat.
Proof.
  intros h Hy. unfold rgba_plane, rgb_plane.
  assert (G : forall rows, Forall (fun r => r < h)%nat rows ->
    exists al0,
      flat_map (fun r => rgba_row (row_of w yp r) (row_of ((w + 1) / 2) up (r / 2)) (row_of ((w + 1) / 2) vp (r / 2)) (row_of (4 * w) buf r)) rows
      = SS.weave (flat_map (fun r => rgb_row (row_of w yp r) (row_of ((w + 1) / 2) up (r / 2)) (row_of ((w + 1) / 2) vp (r / 2))) rows) al0
      /\ length al0 = (w * length rows)%nat
      /\ length (flat_map (fun r => rgb_row (row_of w yp r) (row_of ((w + 1) / 2) up (r / 2)) (row_of ((w + 1) / 2) vp (r / 2))) rows)
         = (3 * (w * length rows))%nat).
  { induction rows as [|r rows IH]; intros Hr.
    - exists []. repeat split; cbn [flat_map length SS.weave]; lia.
    - inversion Hr as [|? ? Hr0 Hrs]; subst. destruct (IH Hrs) as (al1 & E1 & L1 & L2).
      assert (Hrow : length (row_of w yp r) = w).
      { unfold row_of. rewrite firstn_length, skipn_length. nia. }
      exists (map (fun x => nthZ (row_of (4 * w) buf r) (4 * x + 3)) (seq 0 (length (row_of w yp r))) ++ al1).
      cbn [flat_map]. rewrite rgba_row_weave, E1.
      rewrite weave_app by (rewrite rgb_row_length, map_length, seq_length; reflexivity).
      split; [reflexivity|]. rewrite !app_length, map_length, seq_length, rgb_row_length, Hrow, L1, L2. cbn [length]. lia. }
  destruct (G (seq 0 h)) as (al0 & E & L1 & L2).
  { apply Forall_forall. intros r Hr. apply in_seq in Hr. lia. }
  rewrite seq_length in L1, L2. exists al0. auto.
Qed.

Lemma weave_nth_alpha : forall al rgb j, length rgb = (3 * length al)%nat -> (j < length al)%nat ->
  nth (j * 4 + 3) (SS.weave rgb al) 0 = nth j al 0.
Proof.
  induction al as [|x al IH]; intros rgb j H Hj; cbn [length] in *; [lia|].
  destruct rgb as [|r [|g [|b rgb]]]; cbn [length] in H; try lia. cbn [SS.weave].
  destruct j as [|j]; [reflexivity|].
  replace (S j * 4 + 3)%nat with (S (S (S (S (j * 4 + 3))))) by lia. cbn [nth]. apply IH; lia.
Qed.

Lemma weave_nth_colour : forall al al' rgb k, length rgb = (3 * length al)%nat -> length al' = length al ->
  (k mod 4 <> 3)%nat -> nth k (SS.weave rgb al) 0 = nth k (SS.weave rgb al') 0.
Proof.
  induction al as [|x al IH]; intros al' rgb k H H' Hk; cbn [length] in *.
  - destruct al'; [reflexivity | discriminate].
  - destruct al' as [|x' al']; [discriminate|]. cbn [length] in H'.
    destruct rgb as [|r [|g [|b rgb]]]; cbn [length] in H; try lia. cbn [SS.weave].
    destruct k as [|[|[|[|k]]]]; try reflexivity.
    + exfalso. apply Hk. reflexivity.
    + cbn [nth]. apply IH; try lia.
      replace (S (S (S (S k)))) with (k + 1 * 4)%nat in Hk by lia. rewrite Nat.mod_add in Hk by lia. exact Hk.
Qed.

(* the result of the alpha loop on a freshly written four-channel plane *)
Lemma alpha_over_weave f w data rgb al0 :
  (1 <= w)%nat -> length rgb = (3 * length data)%nat -> length al0 = length data ->
  apply_alpha f w data (SS.weave rgb al0) = Ok (SS.weave rgb (unfilter f w data)).
Proof.
  intros Hw Hr Ha.
  assert (Hl : length (SS.weave rgb al0) = (4 * length data)%nat) by (rewrite weave_length by lia; lia).
  destruct (apply_alpha_spec_lemma f w data _ Hw Hl) as (out & E & Lo & Ao & Co).
  rewrite E. f_equal.
  assert (Hu : length (unfilter f w data) = length data).
  { unfold unfilter. rewrite unfilter_from_length. cbn [length]. lia. }
  apply (nth_ext _ _ 0 0).
  - rewrite Lo, Hl, weave_length by lia. lia.
  - intros k Hk. rewrite Lo, Hl in Hk.
    destruct (Nat.eq_dec (k mod 4) 3) as [E3 | N3].
    + pose proof (Nat.div_mod k 4 ltac:(lia)) as Hd.
      replace k with ((k / 4) * 4 + 3)%nat by lia.
      rewrite Ao by lia. rewrite weave_nth_alpha by lia. reflexivity.
    + rewrite Co by exact N3. apply weave_nth_colour; lia.
Qed.

Lemma set_opaque_weave : forall al0 rgb, length rgb = (3 * length al0)%nat ->
  set_opaque (SS.weave rgb al0) = SS.weave rgb (repeat 255 (length al0)).
Proof.
  induction al0 as [|x al IH]; intros rgb H; cbn [length] in H.
  - destruct rgb as [|r [|g [|b rgb]]]; cbn [length] in H; try lia; reflexivity.
  - destruct rgb as [|r [|g [|b rgb]]]; cbn [length] in H; try lia.
    cbn [SS.weave length repeat set_opaque]. do 4 f_equal. apply IH. lia.
Qed.

Lemma drop_alpha_weave : forall al rgb, length rgb = (3 * length al)%nat -> drop_alpha (SS.weave rgb al) = rgb.
Proof.
  induction al as [|x al IH]; intros rgb H; cbn [length] in H.
  - destruct rgb; [reflexivity | cbn [length] in H; lia].
  - destruct rgb as [|r [|g [|b rgb]]]; cbn [length] in H; try lia.
    cbn [SS.weave drop_alpha]. do 3 f_equal. apply IH. lia.
Qed.
