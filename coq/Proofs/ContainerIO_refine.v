(* C10, container layer over an abstract reader: Model.ContainerIO refines Model.Container.
   From any state in which no fault can fire any more (none armed, or its index already behind the call counter),
   for EVERY schedule, each I/O-level function returns what its pure-cursor namesake returns on the same data and
   position: same value and same final position / same error / same panic.  The three I/O error kinds are all the
   pure model's [EIo]; the one place where the kind matters (UnexpectedEof ends the chunk scan) is covered by
   [read_chunk_header_results]: without a fault read_chunk_header can only fail with UnexpectedEof.
   Hypothesis where positions computed from file contents are used for absolute seeks: the data is a list of bytes. *)
From Coq Require Import ZArith List Bool Lia.
From WebP Require Import Lib.Res Lib.ZBits Spec.Container Proofs.Container_bytes Proofs.Container_safety.
From WebP Require Import Model.Container Model.ContainerIO Proofs.ContainerIO_prims Proofs.ContainerIO_laws.
Import ListNotations.
Open Scope Z_scope.

(* ---------------------------------------------------------------------------------------------- *)
(* the simulation relation                                                                          *)
(* ---------------------------------------------------------------------------------------------- *)
Definition erase_err (e : xerr) : err := match e with XDec e => e | _ => EIo end.
Definition erase {A} (r : ires A) : res A :=
  match r with IOk a => Ok a | IErr e => Err (erase_err e) | IPanic p => Panic p | IOutOfFuel => OutOfFuel end.

Definition okstate (d : list Z) (s : rstate) : Prop := r_data s = d /\ quiet s /\ 0 <= r_pos s.

Definition frame (s s' : rstate) : Prop :=
  r_data s' = r_data s /\ r_sched s' = r_sched s /\ r_fail_at s' = r_fail_at s /\ r_calls s <= r_calls s' /\ 0 <= r_pos s'.

Definition good_xerr (x : xerr) (e : err) : Prop := erase_err x = e /\ x <> XFault /\ x <> XDec EIo.

Definition rel {A B} (R : A -> rstate -> B -> Prop) (pr : res B) (r : ires A) (s' : rstate) : Prop :=
  match pr, r with
  | Ok b, IOk a => R a s' b
  | Err e, IErr x => good_xerr x e
  | Panic p, IPanic p' => p = p'
  | OutOfFuel, IOutOfFuel => True
  | _, _ => False
  end.

Definition Sim {A B} (d : list Z) (R : A -> rstate -> B -> Prop) (m : M A) (s : rstate) (pr : res B) : Prop :=
  okstate d s -> frame s (snd (m s)) /\ rel R pr (fst (m s)) (snd (m s)).

Lemma frame_refl s : 0 <= r_pos s -> frame s s.
Proof. intros H. unfold frame. repeat split; (reflexivity || lia). Qed.

Lemma frame_trans s1 s2 s3 : frame s1 s2 -> frame s2 s3 -> frame s1 s3.
Proof. unfold frame. intros (A1 & A2 & A3 & A4 & A5) (B1 & B2 & B3 & B4 & B5). repeat split; try congruence; lia. Qed.

Lemma okstate_frame d s s' : okstate d s -> frame s s' -> okstate d s'.
Proof.
  unfold okstate, frame, quiet. intros (H1 & H2 & H3) (F1 & F2 & F3 & F4 & F5).
  split; [congruence|]. split; [|exact F5]. rewrite F3. apply (quiet_at_mono _ (r_calls s)); assumption.
Qed.

Lemma Sim_erase {A} d (R : A -> rstate -> A -> Prop) m s pr :
  (forall a s' b, R a s' b -> a = b) -> Sim d R m s pr -> okstate d s -> erase (fst (m s)) = pr.
Proof.
  intros HR H Hok. destruct (H Hok) as [_ Hrel]. unfold rel in Hrel.
  destruct pr as [b|e|p|], (fst (m s)) as [a|x|p'|]; try contradiction; cbn [erase].
  - f_equal. eapply HR. exact Hrel.
  - destruct Hrel as [E _]. congruence.
  - congruence.
  - reflexivity.
Qed.

Lemma Sim_weaken {A B} d (R R' : A -> rstate -> B -> Prop) m s pr :
  (forall a s' b, R a s' b -> R' a s' b) -> Sim d R m s pr -> Sim d R' m s pr.
Proof.
  intros HR H Hok. destruct (H Hok) as [Hf Hrel]. split; [exact Hf|]. unfold rel in *.
  destruct pr, (fst (m s)); try contradiction; auto.
Qed.

Lemma Sim_pure_fact {A B} d (R : A -> rstate -> B -> Prop) (Q : B -> Prop) m s pr :
  Sim d R m s pr -> (forall b, pr = Ok b -> Q b) -> Sim d (fun a s' b => R a s' b /\ Q b) m s pr.
Proof.
  intros H HQ Hok. destruct (H Hok) as [Hf Hrel]. split; [exact Hf|]. unfold rel in *.
  destruct pr, (fst (m s)); try contradiction; auto.
Qed.

Lemma Sim_ret {A B} d (R : A -> rstate -> B -> Prop) a b s : R a s b -> Sim d R (ret a) s (Ok b).
Proof. intros H (H1 & H2 & H3). cbn [ret fst snd rel]. split; [apply frame_refl; exact H3 | exact H]. Qed.

Lemma Sim_fail {A B} d (R : A -> rstate -> B -> Prop) e s : e <> EIo -> Sim d R (fail (XDec e)) s (Err e).
Proof.
  intros He (H1 & H2 & H3). cbn [fail fst snd rel]. split; [apply frame_refl; exact H3|].
  unfold good_xerr. cbn [erase_err]. repeat split; congruence.
Qed.

(* a Rust `match` on a Result, against the corresponding `match` of the pure model *)
Lemma Sim_handle {A B A' B'} d (R : A -> rstate -> B -> Prop) (R' : A' -> rstate -> B' -> Prop)
  (m : M A) (h : ires A -> M A') s (pr : res B) (hp : res B -> res B') :
  Sim d R m s pr ->
  (forall r s', r = fst (m s) -> frame s s' -> okstate d s' -> rel R pr r s' -> Sim d R' (h r) s' (hp pr)) ->
  Sim d R' (handle m h) s (hp pr).
Proof.
  intros Hm Hh Hok. destruct (Hm Hok) as [Hf Hrel]. unfold handle.
  destruct (m s) as [r s'] eqn:E. cbn [fst snd] in *.
  pose proof (okstate_frame d s s' Hok Hf) as Hok'.
  destruct (Hh r s' eq_refl Hf Hok' Hrel Hok') as [Hf' Hrel'].
  split; [exact (frame_trans _ _ _ Hf Hf') | exact Hrel'].
Qed.

(* the `?` operator *)
Lemma Sim_bind {A B A' B'} d (R : A -> rstate -> B -> Prop) (R' : A' -> rstate -> B' -> Prop)
  (m : M A) (f : A -> M A') s (pr : res B) (g : B -> res B') :
  Sim d R m s pr ->
  (forall a s' b, frame s s' -> okstate d s' -> R a s' b -> Sim d R' (f a) s' (g b)) ->
  Sim d R' (bind m f) s (Res.bind pr g).
Proof.
  intros Hm Hf. unfold bind. apply (Sim_handle d R R' m _ s pr (fun pr => Res.bind pr g) Hm).
  intros r s' _ Hfr Hok' Hrel. unfold rel in Hrel.
  destruct pr as [b|e|p|], r as [a|x|p'|]; try contradiction; cbn [Res.bind].
  - apply Hf; assumption.
  - intros _. cbn [fst snd rel]. split; [apply frame_refl; apply Hok' | exact Hrel].
  - intros _. cbn [fst snd rel]. split; [apply frame_refl; apply Hok' | exact Hrel].
  - intros _. cbn [fst snd rel]. split; [apply frame_refl; apply Hok' | exact I].
Qed.

Definition noerr {A} (r : res A) : Prop := match r with Err _ => False | _ => True end.

(* a step that does not touch the reader *)
Lemma Sim_bind_lift {A A' B'} d (R' : A' -> rstate -> B' -> Prop) (r : res A) (f : A -> M A') s (g : A -> res B') :
  noerr r -> (forall a, Sim d R' (f a) s (g a)) -> Sim d R' (bind (lift r) f) s (Res.bind r g).
Proof.
  intros Hr Hf Hok. unfold bind, handle, lift. destruct r as [a|e|p|]; cbn [of_res Res.bind noerr] in *.
  - apply Hf. exact Hok.
  - contradiction.
  - cbn [fst snd rel]. split; [apply frame_refl; apply Hok | reflexivity].
  - cbn [fst snd rel]. split; [apply frame_refl; apply Hok | exact I].
Qed.

(* an I/O step that the pure model does not have (a seek that cannot fail on a cursor) *)
Lemma Sim_bind_ok {A A' B'} d (R' : A' -> rstate -> B' -> Prop) (m : M A) (f : A -> M A') s a s' (pr : res B') :
  (okstate d s -> m s = (IOk a, s') /\ frame s s') -> Sim d R' (f a) s' pr -> Sim d R' (bind m f) s pr.
Proof.
  intros Hm Hf Hok. destruct (Hm Hok) as [E Hfr]. unfold bind, handle. rewrite E.
  destruct (Hf (okstate_frame d s s' Hok Hfr)) as [Hf' Hrel]. split; [exact (frame_trans _ _ _ Hfr Hf') | exact Hrel].
Qed.

Lemma noerr_add_u32 a b : noerr (add_u32 a b). Proof. unfold add_u32. destruct (_ <=? _); exact I. Qed.
Lemma noerr_add_u64 a b : noerr (add_u64 a b). Proof. unfold add_u64. destruct (_ <=? _); exact I. Qed.
Lemma noerr_sub_u64 a b : noerr (sub_u64 a b). Proof. unfold sub_u64. destruct (_ <=? _); exact I. Qed.
Lemma noerr_sub_i64 a b : noerr (sub_i64 a b). Proof. unfold sub_i64. destruct (_ && _); exact I. Qed.
Lemma noerr_mul_u32 a b : noerr (mul_u32 a b). Proof. unfold mul_u32. destruct (_ <=? _); exact I. Qed.

(* ---------------------------------------------------------------------------------------------- *)
(* the primitives                                                                                   *)
(* ---------------------------------------------------------------------------------------------- *)
(* value and final position *)
Definition Rpos {A} (a : A) (s' : rstate) (b : A * Z) : Prop := a = fst b /\ r_pos s' = snd b.

Lemma sim_read_exact d s p n : r_pos s = p -> 0 <= n -> Sim d Rpos (read_exact n) s (MC.read_exact d p n).
Proof.
  intros Hp Hn (Hd & Hq & Hpos). subst p.
  destruct (read_exact_nofault n s Hq) as (c' & Hc' & _ & E). rewrite E. clear E.
  assert (Hrem : MC.len (remaining s) = Z.max 0 (MC.len d - r_pos s)).
  { unfold remaining. rewrite len_dropz, Hd. lia. }
  pose proof (len_nonneg (remaining s)) as Hl.
  unfold MC.read_exact.
  destruct (n =? 0) eqn:E0.
  - apply Z.eqb_eq in E0. subst n. cbn [Z.leb Z.compare fst snd rel].
    split; [unfold frame; cbn [set_pos_calls r_data r_sched r_fail_at r_calls r_pos]; repeat split; (reflexivity || lia)|].
    unfold Rpos. cbn [fst snd set_pos_calls r_pos]. split; [reflexivity | lia].
  - apply Z.eqb_neq in E0. replace (n <=? 0) with false by (symmetry; apply Z.leb_gt; lia).
    destruct (r_pos s + n <=? MC.len d) eqn:E1.
    + apply Z.leb_le in E1. replace (n <=? MC.len (remaining s)) with true by (symmetry; apply Z.leb_le; lia).
      cbn [fst snd rel].
      split; [unfold frame; cbn [set_pos_calls r_data r_sched r_fail_at r_calls r_pos]; repeat split; (reflexivity || lia)|].
      unfold Rpos. cbn [fst snd set_pos_calls r_pos]. split; [|reflexivity].
      unfold remaining, MC.slice. rewrite takez_firstn, dropz_skipn, Hd. reflexivity.
    + apply Z.leb_gt in E1. replace (n <=? MC.len (remaining s)) with false by (symmetry; apply Z.leb_gt; lia).
      cbn [fst snd rel].
      split; [unfold frame; cbn [set_pos_calls r_data r_sched r_fail_at r_calls r_pos]; repeat split; (reflexivity || lia)|].
      unfold good_xerr. cbn [erase_err]. repeat split; congruence.
Qed.

Ltac sim_prim :=
  intros; eapply Sim_bind; [apply sim_read_exact; [eassumption | lia] |];
  intros ? ? [? ?] ? ? [? ?]; cbn [fst snd] in *; subst; apply Sim_ret; split; reflexivity.

Lemma sim_read_u8 d s p : r_pos s = p -> Sim d Rpos read_u8 s (MC.read_u8 d p).
Proof. unfold read_u8, MC.read_u8. sim_prim. Qed.
Lemma sim_read_u16_le d s p : r_pos s = p -> Sim d Rpos read_u16_le s (MC.read_u16_le d p).
Proof. unfold read_u16_le, MC.read_u16_le. sim_prim. Qed.
Lemma sim_read_u24_le d s p : r_pos s = p -> Sim d Rpos read_u24_le s (MC.read_u24_le d p).
Proof. unfold read_u24_le, MC.read_u24_le. sim_prim. Qed.
Lemma sim_read_u32_le d s p : r_pos s = p -> Sim d Rpos read_u32_le s (MC.read_u32_le d p).
Proof. unfold read_u32_le, MC.read_u32_le. sim_prim. Qed.
Lemma sim_read_3_bytes d s p : r_pos s = p -> Sim d Rpos read_3_bytes s (MC.read_3_bytes d p).
Proof. unfold read_3_bytes, MC.read_3_bytes. sim_prim. Qed.
Lemma sim_read_fourcc d s p : r_pos s = p -> Sim d Rpos read_fourcc s (MC.read_fourcc d p).
Proof. unfold read_fourcc, MC.read_fourcc. sim_prim. Qed.

Lemma sim_read_chunk_header d s p : r_pos s = p -> Sim d Rpos read_chunk_header s (MC.read_chunk_header d p).
Proof.
  intros Hp. unfold read_chunk_header, MC.read_chunk_header.
  eapply Sim_bind; [apply sim_read_fourcc; exact Hp|].
  intros k s1 [k' p1] _ _ [E1 E2]. cbn [fst snd] in *. subst k'.
  eapply Sim_bind; [apply sim_read_u32_le; exact E2|].
  intros v s2 [v' p2] _ _ [E3 E4]. cbn [fst snd] in *. subst v'.
  apply Sim_ret. split; [reflexivity | exact E4].
Qed.

(* the seeks *)
Lemma seek_start_ok d s p : 0 <= p <= u64_max -> okstate d s ->
  seek_start p s = (IOk p, set_pos_calls s p (r_calls s + 1)) /\ frame s (set_pos_calls s p (r_calls s + 1)).
Proof.
  intros Hp (Hd & Hq & Hpos). unfold seek_start. rewrite seek_to_quiet by exact Hq.
  replace ((p <? 0) || (u64_max <? p)) with false.
  - split; [reflexivity|]. unfold frame. cbn [set_pos_calls r_data r_sched r_fail_at r_calls r_pos]. repeat split; (reflexivity || lia).
  - symmetry. apply orb_false_iff. split; apply Z.ltb_ge; lia.
Qed.

Lemma stream_position_ok d s : okstate d s -> r_pos s <= u64_max ->
  stream_position s = (IOk (r_pos s), set_pos_calls s (r_pos s) (r_calls s + 1))
  /\ frame s (set_pos_calls s (r_pos s) (r_calls s + 1)).
Proof.
  intros (Hd & Hq & Hpos) Hle. unfold stream_position, seek_current. rewrite seek_to_quiet by exact Hq.
  rewrite Z.add_0_r. replace ((r_pos s <? 0) || (u64_max <? r_pos s)) with false.
  - split; [reflexivity|]. unfold frame. cbn [set_pos_calls r_data r_sched r_fail_at r_calls r_pos]. repeat split; (reflexivity || lia).
  - symmetry. apply orb_false_iff. split; apply Z.ltb_ge; lia.
Qed.

(* seek_relative = the cursor's checked_add_signed *)
Lemma sim_seek_relative d s p off : r_pos s = p ->
  Sim d (fun (_ : unit) s' p' => r_pos s' = p') (seek_relative off) s (MC.seek_relative p off).
Proof.
  intros Hp (Hd & Hq & Hpos). subst p. unfold seek_relative, bind, handle, seek_current, MC.seek_relative.
  rewrite seek_to_quiet by exact Hq.
  destruct ((0 <=? r_pos s + off) && (r_pos s + off <=? u64_max)) eqn:E.
  - apply andb_true_iff in E. destruct E as [E1 E2]. apply Z.leb_le in E1, E2.
    replace ((r_pos s + off <? 0) || (u64_max <? r_pos s + off)) with false
      by (symmetry; apply orb_false_iff; split; apply Z.ltb_ge; lia).
    cbn [ret fst snd rel]. split; [|reflexivity].
    unfold frame. cbn [set_pos_calls r_data r_sched r_fail_at r_calls r_pos]. repeat split; (reflexivity || lia).
  - replace ((r_pos s + off <? 0) || (u64_max <? r_pos s + off)) with true.
    + cbn [fst snd rel]. split.
      * unfold frame. cbn [set_pos_calls r_data r_sched r_fail_at r_calls r_pos]. repeat split; (reflexivity || lia).
      * unfold good_xerr. cbn [erase_err]. repeat split; congruence.
    + symmetry. apply andb_false_iff in E. apply orb_true_iff. destruct E as [E|E]; apply Z.leb_gt in E; [left | right]; apply Z.ltb_lt; lia.
Qed.

(* without a fault read_chunk_header fails only with UnexpectedEof *)
Lemma read_exact_results n s :
  match fst (read_exact n s) with IOk _ | IErr XEof | IErr XFault | IOutOfFuel => True | _ => False end.
Proof.
  unfold read_exact.
  pose proof (read_loop_results (r_sched s) (r_fail_at s) (r_fail_eof s) (S (length (remaining s))) (remaining s) n (r_calls s) [] 0) as H.
  destruct (read_loop _ _ _ _ _ _ _ _ _) as [[r c] nr]. exact H.
Qed.

Lemma read_chunk_header_results s :
  match fst (read_chunk_header s) with IOk _ | IErr XEof | IErr XFault | IOutOfFuel => True | _ => False end.
Proof.
  unfold read_chunk_header, read_fourcc, read_u32_le, bind, handle.
  pose proof (read_exact_results 4 s) as H1. destruct (read_exact 4 s) as [r1 s1]. cbn [fst] in H1.
  destruct r1 as [b|x|p|]; cbn [fst ret]; try exact H1; try exact I.
  pose proof (read_exact_results 4 s1) as H2. destruct (read_exact 4 s1) as [r2 s2]. cbn [fst] in H2.
  destruct r2 as [b2|x|p|]; cbn [fst ret]; try exact H2; exact I.
Qed.
