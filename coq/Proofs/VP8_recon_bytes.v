(* Proofs/VP8_recon_bytes.v -- the workspace functions of Model/Vp8Predict.v keep every cell a byte (whatever the
   geometry): needed because the residue step (add_residue_spec) and the 4x4 predictors are stated for byte workspaces,
   while the whole-block theorems of VP8_predict.v only describe the block and the border cells. *)
From Coq Require Import ZArith List Bool Lia.
From WebP Require Import Lib.Res Lib.ZBits Lib.Arr Gen.Kernels Gen.Tables Spec.VP8 Model.Vp8Predict Model.Vp8Recon
  Proofs.VP8_predict_base Proofs.VP8_recon_base.
Import ListNotations.
Open Scope Z_scope.

Lemma bytes_Forall a : bytes a <-> Forall byte a.
Proof.
  unfold bytes, len, get. split.
  - intros H. apply Forall_forall. intros x Hx. destruct (In_nth a x 0 Hx) as (n & Hn & <-).
    specialize (H (Z.of_nat n)). rewrite Nat2Z.id in H. apply H. lia.
  - intros H i Hi. rewrite Forall_forall in H. apply H. apply nth_In. lia.
Qed.

Lemma byte_0 : byte 0.
Proof. unfold byte. lia. Qed.

Lemma get_byte a i : bytes a -> byte (get a i).
Proof.
  intros H. unfold get. destruct (Nat.lt_ge_cases (Z.to_nat i) (length a)) as [L|L].
  - apply bytes_Forall in H. rewrite Forall_forall in H. apply H. apply nth_In. exact L.
  - rewrite nth_overflow by exact L. exact byte_0.
Qed.

Lemma Forall_upd a : forall i v, Forall byte a -> byte v -> Forall byte (upd a i v).
Proof.
  induction a as [|x a IH]; intros [|i] v H Hv; cbn [upd]; try exact H.
  - inversion H; subst. constructor; assumption.
  - inversion H; subst. constructor; [assumption|]. apply IH; assumption.
Qed.

Lemma bytes_set a i v : bytes a -> byte v -> bytes (set a i v).
Proof. intros H Hv. apply bytes_Forall. unfold set. apply Forall_upd; [apply bytes_Forall; exact H | exact Hv]. Qed.

Lemma bytes_repeat v n : byte v -> bytes (repeat v n).
Proof. intros Hv. apply bytes_Forall. apply Forall_forall. intros x Hx. apply repeat_spec in Hx. subst. exact Hv. Qed.

Lemma wr_bytes a i v a' : bytes a -> byte v -> wr a i v = Ok a' -> bytes a'.
Proof. intros H Hv E. unfold wr in E. destruct (inb a i); [|discriminate]. injection E as <-. apply bytes_set; assumption. Qed.

Lemma rd_byte a i v : bytes a -> rd a i = Ok v -> byte v.
Proof. intros H E. unfold rd in E. destruct (inb a i); [|discriminate]. injection E as <-. apply get_byte. exact H. Qed.

Lemma copyf_bytes n : forall a pos k f a', bytes a -> (forall j, byte (f j)) -> copyf n a pos k f = Ok a' -> bytes a'.
Proof.
  induction n as [|n IH]; intros a pos k f a' H Hf E; cbn [copyf] in E.
  - injection E as <-. exact H.
  - destruct (wr a (pos + k) (f k)) as [a1| | |] eqn:E1; cbn [bind] in E; try discriminate.
    eapply IH; [|exact Hf|exact E]. eapply wr_bytes; [exact H| apply Hf |exact E1].
Qed.

Lemma rows_bytes n : forall a pos stride r body a',
  (forall r pos s s', bytes s -> body r pos s = Ok s' -> bytes s') ->
  bytes a -> rows n a pos stride r body = Ok a' -> bytes a'.
Proof.
  induction n as [|n IH]; intros a pos stride r body a' Hbody H E; cbn [rows] in E.
  - injection E as <-. exact H.
  - destruct (body r pos a) as [a1| | |] eqn:E1; cbn [bind] in E; try discriminate.
    eapply IH; [exact Hbody| |exact E]. eapply Hbody; eassumption.
Qed.

Lemma for__bytes n : forall i body a a',
  (forall i s s', bytes s -> body i s = Ok s' -> bytes s') ->
  bytes a -> for_ n i body a = Ok a' -> bytes a'.
Proof.
  induction n as [|n IH]; intros i body a a' Hbody H E; cbn [for_] in E.
  - injection E as <-. exact H.
  - destruct (body i a) as [a1| | |] eqn:E1; cbn [bind] in E; try discriminate.
    eapply IH; [exact Hbody| |exact E]. eapply Hbody; eassumption.
Qed.

Lemma clamp255_byte v : byte (clamp255 v).
Proof. unfold clamp255, byte. lia. Qed.

Lemma mod256_byte v : byte (v mod 256).
Proof. unfold byte. pose proof (Z.mod_pos_bound v 256 ltac:(lia)). lia. Qed.

(* peel `if guard then Panic else ..` and `let* x := r in ..` off a hypothesis E : .. = Ok _ *)
Ltac peel E :=
  repeat match type of E with
  | (if ?c then _ else _) = Ok _ => destruct c; try discriminate E
  end.

(* ---------- whole-block predictors ---------- *)
Lemma predict_vpred_bytes a size x0 y0 stride a' : bytes a -> predict_vpred a size x0 y0 stride = Ok a' -> bytes a'.
Proof.
  intros H E. unfold predict_vpred in E. peel E.
  eapply rows_bytes; [|exact H|exact E].
  intros r pos s s' Hs Es. eapply copyf_bytes; [exact Hs| |exact Es]. intros j. apply get_byte. exact H.
Qed.

Lemma predict_hpred_bytes a size x0 y0 stride a' : bytes a -> predict_hpred a size x0 y0 stride = Ok a' -> bytes a'.
Proof.
  intros H E. unfold predict_hpred in E. peel E.
  eapply rows_bytes; [|exact H|exact E].
  intros r pos s s' Hs Es. cbv beta in Es.
  destruct (usub x0 1) as [xm| | |]; cbn [bind] in Es; try discriminate. peel Es.
  eapply copyf_bytes; [exact Hs| |exact Es]. intros j. apply get_byte. exact Hs.
Qed.

Lemma predict_dcpred_bytes a size stride above left a' : bytes a -> predict_dcpred a size stride above left = Ok a' -> bytes a'.
Proof.
  intros H E. unfold predict_dcpred in E.
  destruct (if left then sum_left (Z.to_nat size) a 0 stride 0 else Ok 0) as [s1| | |]; cbn [bind] in E; try discriminate.
  match type of E with bind ?r _ = _ => destruct r as [s2| | |]; cbn [bind] in E; try discriminate end.
  eapply rows_bytes; [|exact H|exact E].
  intros r pos s s' Hs Es. cbv beta in Es. peel Es.
  eapply copyf_bytes; [exact Hs| |exact Es]. intros j. apply mod256_byte.
Qed.

Lemma predict_tmpred_bytes a size x0 y0 stride a' : bytes a -> predict_tmpred a size x0 y0 stride = Ok a' -> bytes a'.
Proof.
  intros H E. unfold predict_tmpred in E.
  destruct (usub x0 1) as [xm| | |]; cbn [bind] in E; try discriminate. peel E.
  destruct (usub y0 1) as [ym| | |]; cbn [bind] in E; try discriminate.
  match type of E with bind ?r _ = _ => destruct r as [pidx| | |]; cbn [bind] in E; try discriminate end. peel E.
  eapply rows_bytes; [|exact H|exact E].
  intros r pos s s' Hs Es. cbv beta in Es. peel Es.
  eapply copyf_bytes; [exact Hs| |exact Es]. intros j. apply clamp255_byte.
Qed.

Lemma predict_big_bytes mode a size stride mbx mby a' : bytes a -> predict_big mode a size stride mbx mby = Ok a' -> bytes a'.
Proof.
  intros H E. unfold predict_big in E.
  destruct (mode =? vp8_V_PRED); [eapply predict_vpred_bytes; eassumption|].
  destruct (mode =? vp8_H_PRED); [eapply predict_hpred_bytes; eassumption|].
  destruct (mode =? vp8_TM_PRED); [eapply predict_tmpred_bytes; eassumption|].
  destruct (mode =? vp8_DC_PRED); [eapply predict_dcpred_bytes; eassumption|discriminate].
Qed.

(* ---------- add_residue / residue_blocks ---------- *)
Lemma add_residue_row_bytes n : forall row a pos k a', bytes a -> add_residue_row n row a pos k = Ok a' -> bytes a'.
Proof.
  induction n as [|n IH]; intros [|r row] a pos k a' H E; cbn [add_residue_row] in E; try (injection E as <-; exact H).
  destruct (rd a (pos + k)) as [p| | |]; cbn [bind] in E; try discriminate. peel E.
  match type of E with bind ?r _ = _ => destruct r as [a1| | |] eqn:E1; cbn [bind] in E; try discriminate end.
  eapply IH; [|exact E]. eapply wr_bytes; [exact H|apply clamp255_byte|exact E1].
Qed.

Lemma add_residue_rows_bytes rws : forall a pos stride a', bytes a -> add_residue_rows rws a pos stride = Ok a' -> bytes a'.
Proof.
  induction rws as [|row rws IH]; intros a pos stride a' H E; cbn [add_residue_rows] in E.
  - injection E as <-. exact H.
  - peel E. match type of E with bind ?r _ = _ => destruct r as [a1| | |] eqn:E1; cbn [bind] in E; try discriminate end.
    eapply IH; [|exact E]. eapply add_residue_row_bytes; eassumption.
Qed.

Lemma add_residue_bytes a rb y0 x0 stride a' : bytes a -> add_residue a rb y0 x0 stride = Ok a' -> bytes a'.
Proof. intros H E. eapply add_residue_rows_bytes; eassumption. Qed.

Lemma residue_blocks_bytes n : forall i nb base ws stride resdata ws',
  bytes ws -> residue_blocks n i nb base ws stride resdata = Ok ws' -> bytes ws'.
Proof.
  induction n as [|n IH]; intros i nb base ws stride resdata ws' H E; cbn [residue_blocks] in E.
  - injection E as <-. exact H.
  - destruct (res_block resdata (base + i * 16)) as [rb| | |]; cbn [bind] in E; try discriminate.
    match type of E with bind ?r _ = _ => destruct r as [a1| | |] eqn:E1; cbn [bind] in E; try discriminate end.
    eapply IH; [|exact E]. eapply add_residue_bytes; eassumption.
Qed.

(* ---------- borders ---------- *)
Lemma create_border_luma_bytes mbx mby mbw top left ws :
  bytes top -> bytes left -> create_border_luma mbx mby mbw top left = Ok ws -> bytes ws.
Proof.
  intros Ht Hl E. unfold create_border_luma in E.
  assert (H0 : bytes luma_ws0) by (apply bytes_repeat; exact byte_0).
  match type of E with bind ?r _ = _ => destruct r as [ws1| | |] eqn:E1; cbn [bind] in E; try discriminate end.
  assert (H1 : bytes ws1).
  { destruct (mby =? 0).
    - eapply copyf_bytes; [exact H0| |exact E1]. intros j. unfold byte. lia.
    - peel E1.
      match type of E1 with bind ?r _ = _ => destruct r as [wsa| | |] eqn:Ea; cbn [bind] in E1; try discriminate end.
      assert (Ha : bytes wsa) by (eapply copyf_bytes; [exact H0| |exact Ea]; intros j; apply get_byte; exact Ht).
      destruct (usub mbw 1) as [m1| | |]; cbn [bind] in E1; try discriminate.
      destruct (mbx =? m1).
      + destruct (rd top (mbx * 16 + 15)) as [v| | |] eqn:Ev; cbn [bind] in E1; try discriminate.
        eapply copyf_bytes; [exact Ha| |exact E1]. intros j. exact (rd_byte _ _ _ Ht Ev).
      + peel E1. eapply copyf_bytes; [exact Ha| |exact E1]. intros j. apply get_byte. exact Ht. }
  match type of E with bind ?r _ = _ => destruct r as [ws2| | |] eqn:E2; cbn [bind] in E; try discriminate end.
  assert (H2 : bytes ws2).
  { eapply for__bytes; [|exact H1|exact E2].
    intros i s s' Hs Es. cbv beta in Es.
    destruct (rd s i) as [v| | |] eqn:Ev; cbn [bind] in Es; try discriminate.
    match type of Es with bind ?r _ = _ => destruct r as [sa| | |] eqn:Ea; cbn [bind] in Es; try discriminate end.
    assert (Hsa : bytes sa) by (eapply wr_bytes; [exact Hs|exact (rd_byte _ _ _ Hs Ev)|exact Ea]).
    destruct (rd sa i) as [v2| | |] eqn:Ev2; cbn [bind] in Es; try discriminate.
    match type of Es with bind ?r _ = _ => destruct r as [sb| | |] eqn:Eb; cbn [bind] in Es; try discriminate end.
    assert (Hsb : bytes sb) by (eapply wr_bytes; [exact Hsa|exact (rd_byte _ _ _ Hsa Ev2)|exact Eb]).
    destruct (rd sb i) as [v3| | |] eqn:Ev3; cbn [bind] in Es; try discriminate.
    eapply wr_bytes; [exact Hsb|exact (rd_byte _ _ _ Hsb Ev3)|exact Es]. }
  match type of E with bind ?r _ = _ => destruct r as [ws3| | |] eqn:E3; cbn [bind] in E; try discriminate end.
  assert (H3 : bytes ws3).
  { destruct (mbx =? 0).
    - eapply for__bytes; [|exact H2|exact E3]. intros i s s' Hs Es. eapply wr_bytes; [exact Hs| |exact Es]. unfold byte. lia.
    - peel E3. eapply for__bytes; [|exact H2|exact E3]. intros i s s' Hs Es.
      eapply wr_bytes; [exact Hs|apply get_byte; exact Hl|exact Es]. }
  match type of E with bind ?r _ = _ => destruct r as [pv| | |] eqn:E4; cbn [bind] in E; try discriminate end.
  eapply wr_bytes; [exact H3| |exact E].
  destruct (mby =? 0); [injection E4 as <-; unfold byte; lia|].
  destruct (mbx =? 0); [injection E4 as <-; unfold byte; lia|]. exact (rd_byte _ _ _ Hl E4).
Qed.

(* only the cells inside the buffer matter *)
Definition abytes_in (a : arr) : Prop := forall j, 0 <= j < alenZ a -> byte (araw a (Z.to_N j)).

Lemma abytes_abytes_in a : abytes a -> abytes_in a.
Proof. intros H j _. apply H. Qed.

Lemma ard_byte a i v : abytes_in a -> ard a i = Ok v -> byte v.
Proof.
  intros H E. unfold ard in E. destruct (in_buf a i) eqn:Ei; [|discriminate]. injection E as <-. apply H.
  unfold in_buf in Ei. apply andb_true_iff in Ei. destruct Ei as [E1 E2]. apply Z.leb_le in E1. apply Z.ltb_lt in E2. lia.
Qed.

Lemma create_border_chroma_bytes mbx mby mbw buf ws :
  abytes_in buf -> Vp8Recon.create_border_chroma mbx mby mbw buf = Ok ws -> bytes ws.
Proof.
  intros Hb E. unfold Vp8Recon.create_border_chroma in E.
  assert (H0 : bytes chroma_ws0) by (apply bytes_repeat; exact byte_0).
  match type of E with bind ?r _ = _ => destruct r as [ws1| | |] eqn:E1; cbn [bind] in E; try discriminate end.
  assert (H1 : bytes ws1).
  { eapply for__bytes; [|exact H0|exact E1]. intros i s s' Hs Es. cbv beta in Es.
    match type of Es with bind ?r _ = _ => destruct r as [v| | |] eqn:Ev; cbn [bind] in Es; try discriminate end.
    eapply wr_bytes; [exact Hs| |exact Es].
    destruct (mbx =? 0); [injection Ev as <-; unfold byte; lia|].
    destruct (usub mbx 1) as [mx| | |]; cbn [bind] in Ev; try discriminate. exact (ard_byte _ _ _ Hb Ev). }
  match type of E with bind ?r _ = _ => destruct r as [ws2| | |] eqn:E2; cbn [bind] in E; try discriminate end.
  assert (H2 : bytes ws2).
  { eapply for__bytes; [|exact H1|exact E2]. intros i s s' Hs Es. cbv beta in Es.
    match type of Es with bind ?r _ = _ => destruct r as [v| | |] eqn:Ev; cbn [bind] in Es; try discriminate end.
    eapply wr_bytes; [exact Hs| |exact Es].
    destruct (mby =? 0); [injection Ev as <-; unfold byte; lia|].
    destruct (usub mby 1) as [my| | |]; cbn [bind] in Ev; try discriminate. exact (ard_byte _ _ _ Hb Ev). }
  match type of E with bind ?r _ = _ => destruct r as [v| | |] eqn:Ev; cbn [bind] in E; try discriminate end.
  eapply wr_bytes; [exact H2| |exact E].
  destruct (mby =? 0); [injection Ev as <-; unfold byte; lia|].
  destruct (mbx =? 0); [injection Ev as <-; unfold byte; lia|].
  destruct (usub mby 1) as [my| | |]; cbn [bind] in Ev; try discriminate.
  destruct (usub mbx 1) as [mx| | |]; cbn [bind] in Ev; try discriminate. exact (ard_byte _ _ _ Hb Ev).
Qed.
