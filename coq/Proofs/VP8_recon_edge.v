(* Proofs/VP8_recon_edge.v -- (iii), one edge position: the three edge functions of loop_filter.rs as modelled in
   Model/Vp8Recon.v (range checks, short-circuit of should_filter, overflow predicates, kernel of Gen.Kernels, write-back)
   against Spec.VP8.simple_edge / inner_edge / mb_edge, using the kernel theorems of VP8_arraykernels.v as black boxes.
   [aeq]: two arrays agree on every cell inside the buffer (the decoder plane and the reference plane). *)
From Coq Require Import ZArith NArith List Bool Lia.
From WebP Require Import Lib.Res Lib.ZBits Lib.Arr Gen.Kernels Spec.VP8 Model.Vp8Predict Model.Vp8Recon
  Proofs.VP8_predict_base Proofs.VP8_arraykernels Proofs.VP8_recon_base Proofs.VP8_recon_bytes.
Import ListNotations.
Open Scope Z_scope.

Definition aeq (a b : arr) : Prop := alen a = alen b /\ forall n : N, (n < alen a)%N -> araw a n = araw b n.

Lemma aeq_refl a : aeq a a.
Proof. split; reflexivity. Qed.
Lemma aeq_sym a b : aeq a b -> aeq b a.
Proof. intros [L E]. split; [congruence|]. intros n Hn. symmetry. apply E. lia. Qed.
Lemma aeq_trans a b c : aeq a b -> aeq b c -> aeq a c.
Proof. intros [L1 E1] [L2 E2]. split; [congruence|]. intros n Hn. rewrite E1 by exact Hn. apply E2. lia. Qed.
Lemma arr_ext_aeq a b : arr_ext a b -> aeq a b.
Proof. intros [L E]. split; [exact L|]. intros n _. apply E. Qed.

Lemma aeq_abytes_in a b : aeq a b -> abytes_in a -> abytes_in b.
Proof.
  intros [L E] H j Hj. unfold abytes_in, alenZ in *. rewrite <- E by lia. apply H. lia.
Qed.

(* the 8 samples across the edge are inside the buffer, pairwise distinct *)
Definition valid8 (a : arr) (point stride : Z) : Prop := 0 < stride /\ 4 * stride <= point /\ point + 3 * stride < alenZ a.

Lemma valid8_edge_pos a point stride : valid8 a point stride -> edge_pos point stride.
Proof. intros (H1 & H2 & H3). unfold edge_pos. lia. Qed.

Lemma with_taps_app8 {A} a point stride (f : Z -> Z -> Z -> Z -> Z -> Z -> Z -> Z -> A) d :
  with_taps a point stride f = app8 f d (taps_of a point stride).
Proof. reflexivity. Qed.

Lemma write8_write_taps a point stride l : write8 a point stride l = write_taps a point stride l.
Proof. reflexivity. Qed.

Lemma taps_aeq a b point stride : aeq a b -> valid8 a point stride -> taps_of a point stride = taps_of b point stride.
Proof.
  intros [L E] (H1 & H2 & H3). unfold taps_of, VP8.px, alenZ in *.
  rewrite !E by lia. reflexivity.
Qed.

Lemma taps_bytes_in a point stride : abytes_in a -> valid8 a point stride -> taps_bytes a point stride.
Proof.
  intros H (H1 & H2 & H3). unfold taps_bytes, taps_of, VP8.px.
  repeat (apply Forall_cons; [apply H; lia|]). apply Forall_nil.
Qed.

Lemma aeq_wr a b i v : aeq a b -> aeq (VP8.wr a i v) (VP8.wr b i v).
Proof.
  intros [L E]. split; [exact L|]. intros n Hn. rewrite !araw_wr. destruct (Z.to_N i =? n)%N; [reflexivity|]. apply E. exact Hn.
Qed.

Lemma aeq_write_taps a b point stride l : aeq a b -> aeq (write_taps a point stride l) (write_taps b point stride l).
Proof.
  intros H. unfold write_taps.
  do 8 (destruct l as [|? l]; [exact H|]). destruct l; [|exact H].
  repeat apply aeq_wr. exact H.
Qed.

Lemma alen_write_taps a point stride l : alen (write_taps a point stride l) = alen a.
Proof. unfold write_taps. do 8 (destruct l as [|? l]; [reflexivity|]). destruct l; reflexivity. Qed.

Lemma abytes_in_write_taps a point stride l : abytes_in a -> Forall byte l -> abytes_in (write_taps a point stride l).
Proof.
  intros H Hl j Hj. unfold alenZ in Hj. rewrite alen_write_taps in Hj. unfold write_taps.
  do 8 (destruct l as [|? l]; [apply H; exact Hj|]). destruct l; [|apply H; exact Hj].
  repeat match goal with Hf : Forall byte (_ :: _) |- _ =>
    let Hh := fresh "Hb" in pose proof (Forall_inv Hf) as Hh; apply Forall_inv_tail in Hf end.
  rewrite !araw_wr.
  repeat match goal with |- context [(?x =? ?y)%N] => destruct (x =? y)%N; [assumption|] end.
  apply H. exact Hj.
Qed.

(* simple_segment writes only the 4 inner samples: the same array when the kernel leaves the outer ones alone *)
Lemma write4_write8 a point stride x2 x3 x4 x5 : 0 < stride -> 4 * stride <= point ->
  arr_ext (write4 a point stride [VP8.px a (point - 4 * stride); VP8.px a (point - 3 * stride); x2; x3; x4; x5;
                                  VP8.px a (point + 2 * stride); VP8.px a (point + 3 * stride)])
          (write_taps a point stride [VP8.px a (point - 4 * stride); VP8.px a (point - 3 * stride); x2; x3; x4; x5;
                                      VP8.px a (point + 2 * stride); VP8.px a (point + 3 * stride)]).
Proof.
  intros Hs Hp. split; [reflexivity|]. intros n. unfold write4, write_taps, VP8.px.
  rewrite ?araw_pw, ?araw_wr.
  destruct (N.eqb_spec (Z.to_N (point + 3 * stride)) n) as [E7|E7].
  { subst n. repeat match goal with |- context [(?x =? ?y)%N] => destruct (N.eqb_spec x y); [lia|] end. reflexivity. }
  destruct (N.eqb_spec (Z.to_N (point + 2 * stride)) n) as [E6|E6].
  { subst n. repeat match goal with |- context [(?x =? ?y)%N] => destruct (N.eqb_spec x y); [lia|] end. reflexivity. }
  destruct (N.eqb_spec (Z.to_N (point + stride)) n) as [E5|E5]; [reflexivity|].
  destruct (N.eqb_spec (Z.to_N point) n) as [E4|E4]; [reflexivity|].
  destruct (N.eqb_spec (Z.to_N (point - stride)) n) as [E3|E3]; [reflexivity|].
  destruct (N.eqb_spec (Z.to_N (point - 2 * stride)) n) as [E2|E2]; [reflexivity|].
  destruct (N.eqb_spec (Z.to_N (point - 3 * stride)) n) as [E1|E1]; [subst n; reflexivity|].
  destruct (N.eqb_spec (Z.to_N (point - 4 * stride)) n) as [E0|E0]; [subst n; reflexivity|]. reflexivity.
Qed.

Lemma app8_bytes (f : Z -> Z -> Z -> Z -> Z -> Z -> Z -> Z -> list Z) a point stride :
  (forall p3 p2 p1 p0 q0 q1 q2 q3, byte p3 -> byte p2 -> byte p1 -> byte p0 -> byte q0 -> byte q1 -> byte q2 -> byte q3 ->
     Forall byte (f p3 p2 p1 p0 q0 q1 q2 q3)) ->
  taps_bytes a point stride -> Forall byte (app8 f [] (taps_of a point stride)).
Proof. intros Hf H. inv_taps_bytes H. unfold taps_of, app8. apply Hf; assumption. Qed.

(* ------------------------------------------------------------------------------------------------------------ *)
(* simple_segment = Spec.VP8.simple_edge                                                                        *)
(* ------------------------------------------------------------------------------------------------------------ *)
Theorem simple_segment_refines_spec el a b point stride : aeq a b -> abytes_in a -> valid8 a point stride ->
  exists a', simple_segment el a point stride = Ok a' /\ aeq a' (VP8.simple_edge stride el b point) /\
             abytes_in a' /\ alen a' = alen a.
Proof.
  intros Hab Hby Hv. pose proof Hv as (H1 & H2 & H3).
  pose proof (taps_bytes_in a point stride Hby Hv) as Htb.
  unfold simple_segment.
  rewrite ltb_false by lia. rewrite in_buf_true by lia. cbn [negb].
  rewrite (with_taps_app8 a point stride (lf_simple_segment_ok el) false). rewrite simple_segment_no_panic by exact Htb. cbn [negb].
  rewrite (with_taps_app8 a point stride (lf_simple_segment el) []).
  set (K := app8 (lf_simple_segment el) [] (taps_of a point stride)).
  eexists. split; [reflexivity|].
  assert (Hshape : exists x2 x3 x4 x5,
            K = [VP8.px a (point - 4 * stride); VP8.px a (point - 3 * stride); x2; x3; x4; x5;
                 VP8.px a (point + 2 * stride); VP8.px a (point + 3 * stride)]).
  { unfold K, taps_of, app8. rewrite lf_simple_segment_eq. unfold t_simple_edge, t_filter2.
    destruct (t_needs_filter _ _ _ _ _); do 4 eexists; reflexivity. }
  destruct Hshape as (x2 & x3 & x4 & x5 & EK).
  assert (Hext : arr_ext (write4 a point stride K) (write_taps a point stride K)) by (rewrite EK; apply write4_write8; lia).
  assert (HKb : Forall byte K) by (apply app8_bytes; [apply lf_simple_segment_bytes | exact Htb]).
  assert (Haeq : aeq (write_taps a point stride K) (VP8.simple_edge stride el b point)).
  { eapply aeq_trans; [apply aeq_write_taps; exact Hab|].
    unfold K. rewrite (taps_aeq a b point stride Hab Hv).
    apply arr_ext_aeq. apply arr_ext_sym. apply simple_segment_refines.
    destruct Hab as [L _]. unfold edge_pos. lia. }
  split; [eapply aeq_trans; [apply arr_ext_aeq; exact Hext | exact Haeq]|]. split.
  - apply (aeq_abytes_in (write_taps a point stride K)); [apply aeq_sym; apply arr_ext_aeq; exact Hext|].
    apply abytes_in_write_taps; assumption.
  - rewrite (proj1 Hext). apply alen_write_taps.
Qed.

(* ------------------------------------------------------------------------------------------------------------ *)
(* macroblock_filter = Spec.VP8.mb_edge                                                                         *)
(* ------------------------------------------------------------------------------------------------------------ *)
Theorem macroblock_filter_refines_spec hev il el a b point stride : aeq a b -> abytes_in a -> valid8 a point stride ->
  exists a', macroblock_filter hev il el a point stride = Ok a' /\ aeq a' (VP8.mb_edge stride el il hev b point) /\
             abytes_in a' /\ alen a' = alen a.
Proof.
  intros Hab Hby Hv. pose proof Hv as (H1 & H2 & H3).
  pose proof (taps_bytes_in a point stride Hby Hv) as Htb.
  unfold macroblock_filter.
  rewrite ltb_false by lia. rewrite in_buf_true by lia. cbn [negb].
  rewrite (with_taps_app8 a point stride (lf_macroblock_filter_ok hev il el) false). rewrite macroblock_filter_no_panic by exact Htb. cbn [negb].
  rewrite (with_taps_app8 a point stride (lf_macroblock_filter hev il el) []). rewrite write8_write_taps.
  set (K := app8 (lf_macroblock_filter hev il el) [] (taps_of a point stride)).
  eexists. split; [reflexivity|].
  assert (HKb : Forall byte K) by (apply app8_bytes; [apply lf_macroblock_filter_bytes | exact Htb]).
  split; [|split; [apply abytes_in_write_taps; assumption | apply alen_write_taps]].
  eapply aeq_trans; [apply aeq_write_taps; exact Hab|].
  unfold K. rewrite (taps_aeq a b point stride Hab Hv).
  apply arr_ext_aeq. apply arr_ext_sym. apply macroblock_filter_refines. unfold edge_pos. lia.
Qed.

(* ------------------------------------------------------------------------------------------------------------ *)
(* subblock_filter = Spec.VP8.inner_edge (incl. the two early exits of should_filter's `&&` chain)              *)
(* ------------------------------------------------------------------------------------------------------------ *)
Lemma should_filter_split il el p3 p2 p1 p0 q0 q1 q2 q3 :
  lf_should_filter il el p3 p2 p1 p0 q0 q1 q2 q3 =
  lf_simple_threshold el p3 p2 p1 p0 q0 q1 q2 q3 && p_side_ok il p3 p2 p1 p0 q0 q1 q2 q3 &&
  ((lf_diff q3 q2 <=? il) && (lf_diff q2 q1 <=? il) && (lf_diff q1 q0 <=? il)).
Proof.
  unfold lf_should_filter, p_side_ok.
  destruct (lf_simple_threshold el p3 p2 p1 p0 q0 q1 q2 q3); destruct (lf_diff p3 p2 <=? il); destruct (lf_diff p2 p1 <=? il);
    destruct (lf_diff p1 p0 <=? il); destruct (lf_diff q3 q2 <=? il); destruct (lf_diff q2 q1 <=? il); reflexivity.
Qed.

Theorem subblock_filter_refines_spec hev il el a b point stride : aeq a b -> abytes_in a -> valid8 a point stride ->
  exists a', subblock_filter hev il el a point stride = Ok a' /\ aeq a' (VP8.inner_edge stride el il hev b point) /\
             abytes_in a' /\ alen a' = alen a.
Proof.
  intros Hab Hby Hv. pose proof Hv as (H1 & H2 & H3).
  pose proof (taps_bytes_in a point stride Hby Hv) as Htb.
  assert (Hnf : VP8.needs_filter2 b point stride el il = app8 (lf_should_filter il el) false (taps_of a point stride)).
  { rewrite (taps_aeq a b point stride Hab Hv). symmetry. apply should_filter_refines. }
  unfold subblock_filter.
  rewrite ltb_false by lia. rewrite in_buf_true by lia. cbn [negb].
  assert (Hok1 : with_taps a point stride (lf_simple_threshold_ok el) = true).
  { pose proof Htb as Htb'. inv_taps_bytes Htb'. unfold with_taps. apply lf_simple_threshold_ok_true; assumption. }
  rewrite Hok1. cbn [negb].
  destruct (with_taps a point stride (lf_simple_threshold el)) eqn:Est; cbn [negb].
  2:{ exists a. split; [reflexivity|]. split; [|split; [exact Hby|reflexivity]].
      unfold VP8.inner_edge. rewrite Hnf. unfold taps_of, app8. rewrite should_filter_split.
      unfold with_taps in Est. unfold VP8.px. unfold Vp8Recon.px in Est. rewrite Est. cbn [andb]. exact Hab. }
  rewrite ltb_false by lia.
  destruct (with_taps a point stride (p_side_ok il)) eqn:Eps; cbn [negb].
  2:{ exists a. split; [reflexivity|]. split; [|split; [exact Hby|reflexivity]].
      unfold VP8.inner_edge. rewrite Hnf. unfold taps_of, app8. rewrite should_filter_split.
      unfold with_taps in Eps. unfold VP8.px. unfold Vp8Recon.px in Eps. rewrite Eps. rewrite andb_false_r. cbn [andb]. exact Hab. }
  rewrite in_buf_true by lia. cbn [negb].
  rewrite (with_taps_app8 a point stride (lf_subblock_filter_ok hev il el) false). rewrite subblock_filter_no_panic by exact Htb. cbn [negb].
  rewrite (with_taps_app8 a point stride (lf_subblock_filter hev il el) []). rewrite write8_write_taps.
  set (K := app8 (lf_subblock_filter hev il el) [] (taps_of a point stride)).
  eexists. split; [reflexivity|].
  assert (HKb : Forall byte K) by (apply app8_bytes; [apply lf_subblock_filter_bytes | exact Htb]).
  split; [|split; [apply abytes_in_write_taps; assumption | apply alen_write_taps]].
  eapply aeq_trans; [apply aeq_write_taps; exact Hab|].
  unfold K. rewrite (taps_aeq a b point stride Hab Hv).
  apply arr_ext_aeq. apply arr_ext_sym. apply subblock_filter_refines. unfold edge_pos. lia.
Qed.

(* ------------------------------------------------------------------------------------------------------------ *)
(* a run of n positions `along` apart = Spec.VP8.edge_loop                                                      *)
(* ------------------------------------------------------------------------------------------------------------ *)
(* [f] a Model edge function, [g] the Spec one it refines at every valid position *)
Definition edge_refines (f : arr -> Z -> Z -> res arr) (g : Z -> arr -> Z -> arr) : Prop :=
  forall a b point stride, aeq a b -> abytes_in a -> valid8 a point stride ->
  exists a', f a point stride = Ok a' /\ aeq a' (g stride b point) /\ abytes_in a' /\ alen a' = alen a.

Lemma edge_run_refines f g (pt : Z -> Z) (i0 along stride : Z) : edge_refines f g ->
  forall n t0 a b,
  (forall t, t0 <= t < t0 + Z.of_nat n -> pt t = i0 + t * along) ->
  aeq a b -> abytes_in a ->
  (forall t, t0 <= t < t0 + Z.of_nat n -> valid8 a (i0 + t * along) stride) ->
  exists a', for_range n t0 (fun t a => f a (pt t) stride) a = Ok a' /\
             aeq a' (edge_loop (g stride) b (i0 + t0 * along) along n) /\ abytes_in a' /\ alen a' = alen a.
Proof.
  intros Hfg. induction n as [|n IH]; intros t0 a b Hpt Hab Hby Hv.
  - exists a. cbn [for_range edge_loop]. split; [reflexivity|]. split; [exact Hab|]. split; [exact Hby|reflexivity].
  - cbn [for_range edge_loop]. rewrite (Hpt t0) by lia.
    destruct (Hfg a b (i0 + t0 * along) stride Hab Hby (Hv t0 ltac:(lia))) as (a1 & E1 & Hab1 & Hby1 & L1).
    rewrite E1. cbn [bind].
    destruct (IH (t0 + 1) a1 (g stride b (i0 + t0 * along))) as (a' & E' & Hab' & Hby' & L').
    + intros t Ht. apply Hpt. lia.
    + exact Hab1.
    + exact Hby1.
    + intros t Ht. destruct (Hv t ltac:(lia)) as (V1 & V2 & V3). unfold valid8, alenZ in *. rewrite L1. lia.
    + exists a'. split; [exact E'|]. split; [|split; [exact Hby'|congruence]].
      replace (i0 + t0 * along + along) with (i0 + (t0 + 1) * along) by lia. exact Hab'.
Qed.
