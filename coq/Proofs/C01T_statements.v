(* C01 / C03, inverse transforms and frame composition: the delivered theorems restated in the style of Properties/*.v
   (`Theorem ... Proof. exact lemma. Qed.`), ready to be copied into Properties/C01.v (module T: functional refinement) and
   Properties/C03.v (module TS: no Panic).  Nothing is proved here. *)
From Coq Require Import ZArith List.
From WebP Require Import Lib.Res Lib.Arr Lib.ZBits Model.LosslessLib Model.LosslessTransform Model.Lossless.
From WebP Require Model.BitReader Spec.VP8L.
From WebP Require Import Proofs.C01T_repr Proofs.C01T_green Proofs.C01T_color Proofs.C01T_index Proofs.C01T_palette
  Proofs.C01T_pred_spec Proofs.C01T_predictor Proofs.C01T_frame.
Import ListNotations.
Open Scope Z_scope.

(* `repr bytes px n` (Proofs/C01T_repr.v): the Model's R,G,B,A byte buffer `bytes` holds the n ARGB words of the
   specification array `px`:  4n <= len bytes, alen px = n, the first 4n bytes are in 0..255, and
   px[i] = argb bytes[4i+3] bytes[4i] bytes[4i+1] bytes[4i+2]. *)

Module T.   (* -> Properties/C01.v *)
  Theorem subtract_green_matches_spec : forall bytes px n, repr bytes px n -> zlen bytes = 4 * n ->
    exists bytes', apply_subtract_green_transform bytes = Ok bytes' /\ zlen bytes' = zlen bytes /\
                   repr bytes' (V.inverse_subtract_green px) n.
  Proof. exact subtract_green_refines. Qed.

  Theorem color_transform_matches_spec : forall bytes px tdata el w h bits nel,
    1 <= w <= 16384 -> 0 <= h -> 0 <= bits <= 9 -> repr bytes px (w * h) -> zlen bytes = 4 * (w * h) -> repr tdata el nel ->
    V.DIV_ROUND_UP w (2 ^ bits) * V.DIV_ROUND_UP h (2 ^ bits) <= nel ->
    exists bytes', apply_color_transform bytes w bits tdata = Ok bytes' /\ zlen bytes' = zlen bytes /\
                   repr bytes' (V.inverse_color_transform w h bits el px) (w * h).
  Proof. exact color_transform_refines. Qed.

  Theorem color_indexing_matches_spec : forall bytes px tdata table w h ts,
    1 <= w -> 0 <= h -> 1 <= ts <= 256 ->
    repr bytes px (V.DIV_ROUND_UP w (2 ^ V.width_bits_of ts) * h) -> zlen bytes = 4 * (w * h) ->
    repr tdata table ts -> zlen tdata = 4 * ts ->
    exists bytes', apply_color_indexing_transform bytes w h ts tdata = Ok bytes' /\ zlen bytes' = zlen bytes /\
                   repr bytes' (V.inverse_color_indexing w h ts table px) (w * h).
  Proof. exact color_indexing_refines. Qed.

  Theorem color_table_matches_spec : forall cm deltas n, repr cm deltas n -> zlen cm = 4 * n -> 1 <= n ->
    exists cm', adjust_color_map cm = Ok cm' /\ zlen cm' = zlen cm /\
                repr cm' (of_list (V.undo_deltas 0 (V.pixel_list deltas))) n.
  Proof. exact adjust_color_map_refines. Qed.

  Theorem predictor_transform_matches_spec : forall bytes px pdata modes w h bits nm,
    1 <= w <= 16384 -> 1 <= h -> 0 <= bits <= 9 -> repr bytes px (w * h) -> zlen bytes = 4 * (w * h) -> repr pdata modes nm ->
    V.DIV_ROUND_UP w (2 ^ bits) * V.DIV_ROUND_UP h (2 ^ bits) <= nm ->
    (forall j, 0 <= j < nm -> V.GREEN (V.pix modes j) <= 13) ->
    exists bytes', apply_predictor_transform bytes w h bits pdata = Ok bytes' /\ zlen bytes' = zlen bytes /\
                   repr bytes' (V.inverse_predictor w h bits modes px) (w * h).
  Proof. exact predictor_transform_refines. Qed.

  (* what the Rust code does for ANY mode image: the specification's scan with `pmodel` (modes 0..13 as in the format,
     a block whose green byte is 14..255 keeps its residuals) *)
  Theorem predictor_transform_model : forall bytes px pdata modes w h bits nm,
    1 <= w <= 16384 -> 1 <= h -> 0 <= bits <= 9 -> repr bytes px (w * h) -> zlen bytes = 4 * (w * h) -> repr pdata modes nm ->
    V.DIV_ROUND_UP w (2 ^ bits) * V.DIV_ROUND_UP h (2 ^ bits) <= nm ->
    exists bytes', apply_predictor_transform bytes w h bits pdata = Ok bytes' /\ zlen bytes' = zlen bytes /\
                   repr bytes' (inverse_predictor_gen pmodel w h bits modes px) (w * h).
  Proof. exact C01T_predictor.predictor_transform_model. Qed.

  (* the whole frame, given the refinement of the entropy decoder for valid input (three premises about `rel`) *)
  Theorem decode_frame_matches_spec : forall rel : BitReader.t -> V.stream -> Prop,
    (forall data sched, Forall byte data -> rel (BitReader.init data sched) (V.Stream [] data)) ->
    (forall br s tb n v s', rel br s -> 0 <= n <= 16 -> n <= tb -> V.read_bits (Z.to_nat n) s = Some (v, s') ->
       exists br', BitReader.read_bits br tb n = Ok (v, br') /\ rel br' s') ->
    (forall br s xs ys (argb : bool) data px s', rel br s -> 1 <= xs <= 16384 -> 1 <= ys <= 16384 -> zlen data = 4 * (xs * ys) ->
       (if argb then V.spatially_coded_image xs ys s else V.entropy_coded_image xs ys s) = Some (px, s') ->
       exists br' bytes, decode_image_stream STREAM_LEVELS br xs ys argb data = Ok (br', bytes) /\
                         zlen bytes = zlen data /\ repr bytes px (xs * ys) /\ rel br' s') ->
    forall data sched W h buf pixels, Forall byte data -> Z.of_nat (length buf) = 4 * (W * h) ->
    V.decode_rgba data = Some (W, h, pixels) ->
    (forall s0, V.read_header (V.Stream [] data) = Some (W, h, s0) -> stream_in_format W h s0) ->
    decode_frame data sched W h false buf = Ok pixels.
  Proof. exact C01T_frame.decode_frame_matches_spec. Qed.

  Theorem decode_frame_implicit_matches_spec : forall rel : BitReader.t -> V.stream -> Prop,
    (forall data sched, Forall byte data -> rel (BitReader.init data sched) (V.Stream [] data)) ->
    (forall br s tb n v s', rel br s -> 0 <= n <= 16 -> n <= tb -> V.read_bits (Z.to_nat n) s = Some (v, s') ->
       exists br', BitReader.read_bits br tb n = Ok (v, br') /\ rel br' s') ->
    (forall br s xs ys (argb : bool) data px s', rel br s -> 1 <= xs <= 16384 -> 1 <= ys <= 16384 -> zlen data = 4 * (xs * ys) ->
       (if argb then V.spatially_coded_image xs ys s else V.entropy_coded_image xs ys s) = Some (px, s') ->
       exists br' bytes, decode_image_stream STREAM_LEVELS br xs ys argb data = Ok (br', bytes) /\
                         zlen bytes = zlen data /\ repr bytes px (xs * ys) /\ rel br' s') ->
    forall data sched W h buf pixels, Forall byte data -> Z.of_nat (length buf) = 4 * (W * h) ->
    V.decode_implicit_rgba W h data = Some pixels -> stream_in_format W h (V.Stream [] data) ->
    decode_frame data sched W h true buf = Ok pixels.
  Proof. exact C01T_frame.decode_frame_implicit_matches_spec. Qed.
End T.

Module TS.   (* -> Properties/C03.v *)
  Theorem subtract_green_safe : forall img p, apply_subtract_green_transform img <> Panic p.
  Proof. exact subtract_green_no_panic. Qed.

  Theorem color_transform_safe : forall bytes px tdata el w h bits nel,
    1 <= w <= 16384 -> 0 <= h -> 0 <= bits <= 9 -> repr bytes px (w * h) -> zlen bytes = 4 * (w * h) -> repr tdata el nel ->
    V.DIV_ROUND_UP w (2 ^ bits) * V.DIV_ROUND_UP h (2 ^ bits) <= nel ->
    forall p, apply_color_transform bytes w bits tdata <> Panic p.
  Proof. exact color_transform_no_panic. Qed.

  Theorem color_indexing_safe : forall bytes px tdata table w h ts,
    1 <= w -> 0 <= h -> 1 <= ts <= 256 ->
    repr bytes px (V.DIV_ROUND_UP w (2 ^ V.width_bits_of ts) * h) -> zlen bytes = 4 * (w * h) ->
    repr tdata table ts -> zlen tdata = 4 * ts ->
    forall p, apply_color_indexing_transform bytes w h ts tdata <> Panic p.
  Proof. exact color_indexing_no_panic. Qed.

  Theorem color_table_safe : forall cm deltas n, repr cm deltas n -> zlen cm = 4 * n -> 1 <= n ->
    forall p, adjust_color_map cm <> Panic p.
  Proof. exact adjust_color_map_no_panic. Qed.

  Theorem predictor_transform_safe : forall bytes px pdata modes w h bits nm,
    1 <= w <= 16384 -> 1 <= h -> 0 <= bits <= 9 -> repr bytes px (w * h) -> zlen bytes = 4 * (w * h) -> repr pdata modes nm ->
    V.DIV_ROUND_UP w (2 ^ bits) * V.DIV_ROUND_UP h (2 ^ bits) <= nm ->
    forall p, apply_predictor_transform bytes w h bits pdata <> Panic p.
  Proof. exact predictor_transform_no_panic. Qed.

  (* the frame: Ok or Err for EVERY payload, given the refinement of the entropy decoder in both directions *)
  Theorem decode_frame_safe : forall rel : BitReader.t -> V.stream -> Prop,
    (forall data sched, Forall byte data -> rel (BitReader.init data sched) (V.Stream [] data)) ->
    (forall br s tb n v s', rel br s -> 0 <= n <= 16 -> n <= tb -> V.read_bits (Z.to_nat n) s = Some (v, s') ->
       exists br', BitReader.read_bits br tb n = Ok (v, br') /\ rel br' s') ->
    (forall br s xs ys (argb : bool) data px s', rel br s -> 1 <= xs <= 16384 -> 1 <= ys <= 16384 -> zlen data = 4 * (xs * ys) ->
       (if argb then V.spatially_coded_image xs ys s else V.entropy_coded_image xs ys s) = Some (px, s') ->
       exists br' bytes, decode_image_stream STREAM_LEVELS br xs ys argb data = Ok (br', bytes) /\
                         zlen bytes = zlen data /\ repr bytes px (xs * ys) /\ rel br' s') ->
    (forall br s tb n, rel br s -> 0 <= n <= 16 -> n <= tb -> V.read_bits (Z.to_nat n) s = None -> is_err (BitReader.read_bits br tb n)) ->
    (forall br s xs ys (argb : bool) data, rel br s -> 1 <= xs <= 16384 -> 1 <= ys <= 16384 -> zlen data = 4 * (xs * ys) ->
       (if argb then V.spatially_coded_image xs ys s else V.entropy_coded_image xs ys s) = None ->
       is_err (decode_image_stream STREAM_LEVELS br xs ys argb data)) ->
    forall data sched W h buf, Forall byte data -> zlen buf = 4 * (W * h) ->
    (forall p, decode_frame_arr data sched W h false buf <> Panic p) /\ decode_frame_arr data sched W h false buf <> OutOfFuel.
  Proof. exact C01T_frame.decode_frame_no_panic. Qed.

  Theorem decode_frame_rejects_invalid : forall rel : BitReader.t -> V.stream -> Prop,
    (forall data sched, Forall byte data -> rel (BitReader.init data sched) (V.Stream [] data)) ->
    (forall br s tb n v s', rel br s -> 0 <= n <= 16 -> n <= tb -> V.read_bits (Z.to_nat n) s = Some (v, s') ->
       exists br', BitReader.read_bits br tb n = Ok (v, br') /\ rel br' s') ->
    (forall br s xs ys (argb : bool) data px s', rel br s -> 1 <= xs <= 16384 -> 1 <= ys <= 16384 -> zlen data = 4 * (xs * ys) ->
       (if argb then V.spatially_coded_image xs ys s else V.entropy_coded_image xs ys s) = Some (px, s') ->
       exists br' bytes, decode_image_stream STREAM_LEVELS br xs ys argb data = Ok (br', bytes) /\
                         zlen bytes = zlen data /\ repr bytes px (xs * ys) /\ rel br' s') ->
    (forall br s tb n, rel br s -> 0 <= n <= 16 -> n <= tb -> V.read_bits (Z.to_nat n) s = None -> is_err (BitReader.read_bits br tb n)) ->
    (forall br s xs ys (argb : bool) data, rel br s -> 1 <= xs <= 16384 -> 1 <= ys <= 16384 -> zlen data = 4 * (xs * ys) ->
       (if argb then V.spatially_coded_image xs ys s else V.entropy_coded_image xs ys s) = None ->
       is_err (decode_image_stream STREAM_LEVELS br xs ys argb data)) ->
    forall data sched W h buf, Forall byte data -> zlen buf = 4 * (W * h) ->
    V.decode data = None -> is_err (decode_frame_arr data sched W h false buf).
  Proof. exact C01T_frame.decode_frame_rejects. Qed.
End TS.
