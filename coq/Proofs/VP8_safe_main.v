(* C03 for the VP8 key-frame decoder, part 6: the composition.
     vp8_decode_never_panics   for EVERY byte string shorter than 2^63 -- valid, truncated, garbage --
                               Model.Vp8Decode.decode_frame (= Vp8Decoder::decode_frame: new, read_frame_header, the macroblock
                               loop with read_macroblock_header / read_residual_data / the skipped branch, intra prediction,
                               loop filter, crop) returns Ok with a frame of the announced size, or Err: never Panic, never
                               OutOfFuel;
     vp8_safe_refuted          ReadImage_safe.vp8_safe (which demands 1 <= width, height of every Ok result) is FALSE of the faithful
                               model: a 19-byte key-frame header announcing width 0 is accepted (read_frame_header does not check the
                               sizes: documented leniency) and decodes to an Ok frame 0 x 16 with empty planes.  No panic; the
                               container layer rejects such a file before it reaches the frame decoder (InconsistentImageSizes) or
                               compares the sizes afterwards.  Hence the weaker vp8_safe_bytes, which the glue theorems need only;
     read_image_never_panics, read_frame_payload_never_panics
                               the glue theorems of C03 (module RI) with vp8 := Model.Vp8Decode.decode_frame and NO hypothesis about
                               the frame decoder left: only byte-ness and length of the file. *)
From Coq Require Import ZArith List Bool Lia.
From WebP Require Import Lib.Res Lib.ZBits Model.Vp8Parse Model.Vp8Frame Model.Vp8Recon Model.Vp8Decode.
From WebP Require Proofs.C15_model Spec.Container Proofs.Container_bytes Proofs.Container_safety Model.ReadImage.
From WebP Require Import Proofs.VP8_arraykernels_aux Proofs.VP8_parse_residual Proofs.VP8_frame_loop Proofs.VP8_decode_shape Proofs.VP8_decode_refwf
  Proofs.VP8_recon_mb Proofs.ReadImage_lossy Proofs.ReadImage_safe
  Proofs.VP8_safe_defs Proofs.VP8_safe_inv Proofs.VP8_safe_residual Proofs.VP8_safe_loop Proofs.VP8_safe_header Proofs.VP8_safe_recon
  Proofs.VP8_safe_readimage.
Import ListNotations.
Open Scope Z_scope.
Open Scope res_scope.

(* ---- what the parsing half hands on is what the reconstruction half asks for ---- *)
Lemma blocks_ok_res_rel blocks : blocks_ok blocks -> exists rr, res_rel blocks rr.
Proof.
  intros (bs & L & B & E).
  exists (Spec.VP8.mkR (firstn 16 bs) (firstn 4 (skipn 16 bs)) (skipn 20 bs) false true).
  assert (Ebs : firstn 16 bs ++ firstn 4 (skipn 16 bs) ++ skipn 20 bs = bs).
  { replace (skipn 20 bs) with (skipn 4 (skipn 16 bs)) by (rewrite skipn_skipn'; reflexivity).
    rewrite (firstn_skipn 4 (skipn 16 bs)). apply firstn_skipn. }
  unfold res_rel. cbn [Spec.VP8.r_y Spec.VP8.r_u Spec.VP8.r_v].
  split; [rewrite firstn_length; lia|]. split; [rewrite firstn_length, skipn_length; lia|]. split; [rewrite skipn_length; lia|].
  rewrite Ebs. split; [exact E|].
  unfold bounded_blocks in B. eapply Forall_impl; [|exact B]. intros b [Lb Fb]. apply idct_res_ok; assumption.
Qed.

Lemma mbout_rec_ok r : mbout_ok r -> rec_ok r.
Proof. intros (A & B & C). split; [exact A|]. split; [exact B | apply blocks_ok_res_rel; exact C]. Qed.

Lemma same_hdr_recon v v' : same_hdr v v' -> recon_header v' = recon_header v.
Proof.
  unfold same_hdr, hdr_fields. intros E. injection E as E1 E2 E3 E4 E5 E6 E7 E8 E9 E10 E11 E12 E13 E14.
  unfold recon_header, rhdr_of_vp8. rewrite E1, E2, E3, E4, E6, E11, E12. reflexivity.
Qed.

(* ---- the theorem ---- *)
Theorem vp8_decode_total : forall data, Forall byte data -> C15_model.len data < 2 ^ 63 ->
  (exists e, Vp8Decode.decode_frame data = Err e) \/
  exists w h yp up vp, Vp8Decode.decode_frame data = Ok (w, h, yp, up, vp) /\ frame_result_ok w h yp up vp.
Proof.
  intros data Hb Hl. unfold Vp8Decode.decode_frame, parse_frame.
  destruct (read_frame_header_safe data Hb Hl) as (v0 & Enew & [(e & E) | (v & E & Hinv & Hhdr)]); rewrite Enew; cbn [bind]; rewrite E; cbn [bind];
    [left; eexists; reflexivity|].
  pose proof Hhdr as (Hw & Hh & Hmw & Hmh & _). unfold rhdr_of_vp8 in Hw, Hh, Hmw, Hmh. cbn [rh_width rh_height rh_mbwidth rh_mbheight] in Hw, Hh, Hmw, Hmh.
  assert (Hmw0 : 0 <= v_mbwidth v) by (rewrite Hmw; apply Z.div_pos; lia).
  assert (Hmh0 : 0 <= v_mbheight v) by (rewrite Hmh; apply Z.div_pos; lia).
  destruct (parse_frame_loop_safe v Hinv Hmw0) as [(e & E2) | (recs & v' & E2 & Hsame & Hrecs & Hlen)]; rewrite E2; cbn [bind];
    [left; eexists; reflexivity|].
  rewrite (same_hdr_recon v v' Hsame). unfold recon_header.
  destruct (decode_frame_planes_safe (rhdr_of_vp8 v) recs Hhdr) as (y & u & vv & E3 & Hpl).
  - eapply Forall_impl; [|exact Hrecs]. intros r. apply mbout_rec_ok.
  - unfold rhdr_of_vp8. cbn [rh_mbwidth rh_mbheight]. rewrite Hlen. rewrite Z2Nat.inj_mul by assumption. lia.
  - rewrite E3. cbn [bind]. right. exists (rh_width (rhdr_of_vp8 v)), (rh_height (rhdr_of_vp8 v)), y, u, vv.
    split; [reflexivity|]. unfold frame_result_ok, rhdr_of_vp8. cbn [rh_width rh_height]. split; [exact Hw|]. split; [exact Hh | exact Hpl].
Qed.

Theorem vp8_decode_never_panics : forall data, Forall byte data -> C15_model.len data < 2 ^ 63 ->
  (forall p, Vp8Decode.decode_frame data <> Panic p) /\ Vp8Decode.decode_frame data <> OutOfFuel.
Proof.
  intros data Hb Hl. destruct (vp8_decode_total data Hb Hl) as [(e & E) | (w & h & yp & up & vp & E & _)]; rewrite E; split; intros; discriminate.
Qed.

Theorem vp8_decode_safe_bytes : vp8_safe_bytes Vp8Decode.decode_frame.
Proof.
  intros data Hb Hl. destruct (vp8_decode_total data Hb Hl) as [(e & E) | (w & h & yp & up & vp & E & Hok)]; rewrite E; [exact I | exact Hok].
Qed.

(* ---- the stronger vp8_safe of ReadImage_safe does not hold: a header announcing width 0 decodes to an Ok frame 0 x 16 ---- *)
Definition width0_payload : list Z := [16; 1; 0; 157; 1; 42; 0; 0; 16; 0; 0; 0; 0; 0; 0; 0; 0; 0; 0].

Lemma width0_decodes : Forall byte width0_payload /\ Vp8Decode.decode_frame width0_payload = Ok (0, 16, [], [], []).
Proof. split; [repeat constructor; unfold byte; lia | vm_compute; reflexivity]. Qed.

Theorem vp8_safe_refuted : ~ vp8_safe Vp8Decode.decode_frame.
Proof.
  intros H. specialize (H width0_payload). rewrite (proj2 width0_decodes) in H. destruct H as ((H & _) & _). lia.
Qed.

(* ---- C03, module RI, closed: vp8 := the real frame decoder ---- *)
Theorem read_image_never_panics : forall (file : list Z) (dec : Container_bytes.M.decoder) (buf : list Z),
  Spec.Container.all_bytes file = true -> Spec.Container.len file <= 9223372036854775807 ->
  Container_bytes.M.new file = Ok dec -> Container_bytes.M.is_animated dec = false ->
  Container_safety.safe (fst (Model.ReadImage.read_image Vp8Decode.decode_frame dec buf)).
Proof. exact (read_image_no_panic_bytes Vp8Decode.decode_frame vp8_decode_safe_bytes). Qed.

Theorem read_frame_payload_never_panics : forall (file : list Z) (dec : Container_bytes.M.decoder) (pos : Z),
  Spec.Container.all_bytes file = true -> Spec.Container.len file <= 9223372036854775807 ->
  Container_bytes.M.new file = Ok dec -> 0 <= pos ->
  Container_safety.safe (fst (Model.ReadImage.decode_frame_payload Vp8Decode.decode_frame dec pos)).
Proof. exact (decode_frame_payload_no_panic_bytes Vp8Decode.decode_frame vp8_decode_safe_bytes). Qed.
