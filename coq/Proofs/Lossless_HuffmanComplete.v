(* Completeness of HuffmanTree::build_implicit: a complete code description (Kraft sum 1) with at least two used symbols
   is accepted -- after the Kraft check the population loop never returns HuffmanError.
   The secondary tree carries a ghost address (prefix length, prefix value) for every node: a Leaf's address is a code placed
   earlier, a Branch's address is a proper prefix of a placed longer code; canonical codes are prefix free (no_prefix) and
   pairwise distinct (next_codes increases), so the walk of a new code never meets a Leaf and ends on an Empty node. *)
From Coq Require Import ZArith NArith List Bool Lia FMapPositive.
From WebP Require Import Lib.Res Lib.Arr Lib.ZBits Gen.Tables Spec.PrefixCode Model.LosslessLib Model.BitReader Model.Huffman
     Proofs.Lossless_HuffmanSafe Proofs.Lossless_HuffmanRead.
Import ListNotations.
Open Scope Z_scope.

Ltac Zify.zify_post_hook ::= Z.div_mod_to_equations.

(* ---------- small facts ---------- *)
Lemma revl_invol l y : 1 <= l <= 16 -> 0 <= y < 2 ^ l -> revl l (revl l y) = y.
Proof.
  intros Hl Hy. apply Z.bits_inj'. intros i Hi.
  pose proof (revl_nonneg l y ltac:(lia)) as H0. rewrite revl_bits by lia.
  destruct (Z_lt_ge_dec i l).
  - replace (i <? l) with true by (symmetry; apply Z.ltb_lt; lia). rewrite revl_bits by lia.
    replace (l - 1 - i <? l) with true by (symmetry; apply Z.ltb_lt; lia). f_equal. lia.
  - replace (i <? l) with false by (symmetry; apply Z.ltb_ge; lia). symmetry. apply (lt_pow2_bits_above y l); lia.
Qed.

Lemma shiftr_step c n : 0 <= n -> Z.shiftr c n = 2 * Z.shiftr c (n + 1) + Z.land (Z.shiftr c n) 1.
Proof.
  intros Hn. rewrite land1. rewrite <- (Z.shiftr_shiftr c n 1) by lia.
  rewrite (Z.shiftr_div_pow2 (Z.shiftr c n) 1) by lia. change (2 ^ 1) with 2. lia.
Qed.

(* ---------- the ghost addresses ---------- *)
Definition node_inv (hist : list Z) (mx : Z) (nc : list Z) (cur : option (Z * Z)) (nodes : vec node) (addr : Z -> Z * Z) : Prop :=
  (forall i o, 0 <= i < vzlen nodes -> vz nodes i = Branch o ->
     addr (i + o) = (fst (addr i) + 1, 2 * snd (addr i)) /\ addr (i + o + 1) = (fst (addr i) + 1, 2 * snd (addr i) + 1) /\
     exists l0 c0, (1 <= fst (addr i) /\ fst (addr i) < l0 <= mx) /\ first hist l0 <= c0 /\ (c0 < zn nc l0 \/ cur = Some (l0, c0)) /\
                   Z.shiftr c0 (l0 - fst (addr i)) = snd (addr i)) /\
  (forall i sy, 0 <= i < vzlen nodes -> vz nodes i = Leaf sy ->
     1 <= fst (addr i) <= mx /\ first hist (fst (addr i)) <= snd (addr i) < zn nc (fst (addr i))).

Definition roots_inv (tb : Z) (table : arr) (addr : Z -> Z * Z) : Prop :=
  forall j, 0 <= j < 2 ^ tb -> Z.shiftr (az table j) 16 = 0 -> az table j <> 0 -> addr (az table j - 1) = (tb, revl tb j).

(* walking the bits of the code (l, c) from a node whose address is the matching prefix of c never fails *)
Lemma descend_addr hist mx tb nc l c : code_ctx hist mx tb -> 1 <= l <= mx -> first hist l <= c ->
  (forall l0, 1 <= l0 <= mx -> zn nc l0 <= lim hist l0) ->
  forall n nodes idx addr, wf_nodes nodes -> 0 <= idx < vzlen nodes ->
  node_inv hist mx nc (Some (l, c)) nodes addr -> 1 <= l - Z.of_nat n ->
  addr idx = (l - Z.of_nat n, Z.shiftr c (Z.of_nat n)) ->
  exists nodes' idx' addr', descend n nodes idx c = Ok (nodes', idx') /\ wf_nodes nodes' /\ 0 <= idx' < vzlen nodes' /\
    vzlen nodes <= vzlen nodes' /\ node_inv hist mx nc (Some (l, c)) nodes' addr' /\ addr' idx' = (l, c) /\
    (forall i, 0 <= i < vzlen nodes -> addr' i = addr i).
Proof.
  intros Hcx Hl Hc Hlims. induction n as [|n IH]; intros nodes idx addr Hwf Hidx Hinv Hq Haddr; cbn [descend].
  - exists nodes, idx, addr. split; [reflexivity|]. split; [assumption|]. split; [assumption|]. split; [lia|].
    split; [assumption|]. split; [|auto]. rewrite Haddr. change (Z.of_nat 0) with 0. rewrite Z.sub_0_r, Z.shiftr_0_r. reflexivity.
  - rewrite vget_ok by assumption. cbn [bind].
    set (bit := Z.land (Z.shiftr c (Z.of_nat n)) 1).
    assert (Hbit : 0 <= bit <= 1) by (unfold bit; rewrite land1; lia).
    assert (Hstep : Z.shiftr c (Z.of_nat n) = 2 * Z.shiftr c (Z.of_nat (S n)) + bit).
    { unfold bit. rewrite Nat2Z.inj_succ. unfold Z.succ. apply shiftr_step. lia. }
    destruct Hinv as [Hbr Hlf].
    destruct (vz nodes idx) as [o| sy |] eqn:End.
    + (* Branch: follow it *)
      cbn [bind]. destruct (Hwf idx o Hidx End) as [Ho Hio].
      destruct (Hbr idx o Hidx End) as (A0 & A1 & _). rewrite Haddr in A0, A1. cbn [fst snd] in A0, A1.
      apply (IH nodes (idx + o + bit) addr Hwf ltac:(lia) (conj Hbr Hlf) ltac:(lia)).
      assert (Hb : bit = 0 \/ bit = 1) by lia.
      destruct Hb as [Hb|Hb]; rewrite Hb in *; [rewrite Z.add_0_r, A0 | rewrite A1]; f_equal; lia.
    + (* Leaf: impossible, a shorter code would be a prefix *)
      exfalso. destruct (Hlf idx sy Hidx End) as [Hq1 Hx]. rewrite Haddr in Hq1, Hx. cbn [fst snd] in Hq1, Hx.
      pose proof (no_prefix hist mx tb (l - Z.of_nat (S n)) l c Hcx ltac:(lia) ltac:(lia) ltac:(lia) Hc) as Hnp.
      replace (l - (l - Z.of_nat (S n))) with (Z.of_nat (S n)) in Hnp by lia.
      pose proof (Hlims (l - Z.of_nat (S n)) ltac:(lia)). lia.
    + (* Empty: it becomes a branch with two fresh children *)
      unfold usub. replace (vzlen nodes <? idx) with false by (symmetry; apply Z.ltb_ge; lia). cbn [bind].
      destruct (vset_ok nodes idx (Branch (vzlen nodes - idx)) Hidx) as (n1 & E1 & Hlen1 & Hz1).
      rewrite E1. cbn [bind].
      set (n3 := vpush (vpush n1 Empty) Empty).
      assert (Hlen3 : vzlen n3 = vzlen nodes + 2) by (unfold n3; rewrite !vpush_len; lia).
      assert (Hz3 : forall i, 0 <= i < vzlen nodes -> vz n3 i = if i =? idx then Branch (vzlen nodes - idx) else vz nodes i).
      { intros i Hi. unfold n3. rewrite vpush_vz by lia. rewrite vpush_len.
        destruct (Z.eqb_spec i (vzlen n1 + 1)); [lia|]. rewrite vpush_vz by lia.
        destruct (Z.eqb_spec i (vzlen n1)); [lia|]. apply Hz1. lia. }
      assert (Hz3new : forall i, vzlen nodes <= i < vzlen nodes + 2 -> vz n3 i = Empty).
      { intros i Hi. unfold n3. rewrite vpush_vz by lia. rewrite vpush_len.
        destruct (Z.eqb_spec i (vzlen n1 + 1)); [reflexivity|]. rewrite vpush_vz by lia.
        destruct (Z.eqb_spec i (vzlen n1)); [reflexivity | lia]. }
      assert (Hwf3 : wf_nodes n3).
      { intros i o Hi Hnd. rewrite Hlen3 in Hi. destruct (Z_lt_ge_dec i (vzlen nodes)) as [Hlt|Hge].
        - rewrite Hz3 in Hnd by lia. destruct (Z.eqb_spec i idx) as [->|Hne].
          + injection Hnd as <-. lia.
          + destruct (Hwf i o ltac:(lia) Hnd). lia.
        - rewrite Hz3new in Hnd by lia. discriminate. }
      set (q := l - Z.of_nat (S n)) in *. set (x := Z.shiftr c (Z.of_nat (S n))) in *.
      set (addr3 := fun i => if i =? vzlen nodes then (q + 1, 2 * x) else if i =? vzlen nodes + 1 then (q + 1, 2 * x + 1) else addr i).
      assert (Hold : forall i, 0 <= i < vzlen nodes -> addr3 i = addr i).
      { intros i Hi. unfold addr3. destruct (Z.eqb_spec i (vzlen nodes)); [lia|]. destruct (Z.eqb_spec i (vzlen nodes + 1)); [lia | reflexivity]. }
      assert (Hinv3 : node_inv hist mx nc (Some (l, c)) n3 addr3).
      { split.
        - intros i o Hi Hnd. rewrite Hlen3 in Hi. destruct (Z_lt_ge_dec i (vzlen nodes)) as [Hlt|Hge].
          2:{ rewrite Hz3new in Hnd by lia. discriminate. }
          rewrite Hz3 in Hnd by lia. rewrite (Hold i ltac:(lia)). destruct (Z.eqb_spec i idx) as [->|Hne].
          + injection Hnd as <-. rewrite Haddr. cbn [fst snd]. replace (idx + (vzlen nodes - idx)) with (vzlen nodes) by lia.
            unfold addr3. rewrite Z.eqb_refl. replace (vzlen nodes + 1 =? vzlen nodes) with false by (symmetry; apply Z.eqb_neq; lia).
            rewrite Z.eqb_refl. split; [reflexivity|]. split; [reflexivity|].
            exists l, c. split; [unfold q; lia|]. split; [assumption|]. split; [right; reflexivity|]. unfold x, q. f_equal. lia.
          + destruct (Hwf i o ltac:(lia) Hnd) as [Ho Hio]. destruct (Hbr i o ltac:(lia) Hnd) as (A0 & A1 & A2).
            rewrite (Hold (i + o) ltac:(lia)), (Hold (i + o + 1) ltac:(lia)). auto.
        - intros i sy Hi Hnd. rewrite Hlen3 in Hi. destruct (Z_lt_ge_dec i (vzlen nodes)) as [Hlt|Hge].
          2:{ rewrite Hz3new in Hnd by lia. discriminate. }
          rewrite Hz3 in Hnd by lia. destruct (Z.eqb_spec i idx); [discriminate|]. rewrite (Hold i ltac:(lia)). apply (Hlf i sy); [lia | assumption]. }
      destruct (IH n3 (idx + (vzlen nodes - idx) + bit) addr3 Hwf3 ltac:(lia) Hinv3 ltac:(unfold q in *; lia))
        as (nodes' & idx' & addr' & E & Hwf' & Hidx' & Hlen' & Hinv' & Ha' & Hpres).
      { replace (idx + (vzlen nodes - idx) + bit) with (vzlen nodes + bit) by lia. unfold addr3.
        assert (Hb : bit = 0 \/ bit = 1) by lia.
        destruct Hb as [Hb|Hb]; rewrite Hb in *.
        - rewrite Z.add_0_r, Z.eqb_refl. unfold q, x. f_equal; lia.
        - replace (vzlen nodes + 1 =? vzlen nodes) with false by (symmetry; apply Z.eqb_neq; lia). rewrite Z.eqb_refl.
          unfold q, x. f_equal; lia. }
      exists nodes', idx', addr'. split; [exact E|]. split; [assumption|]. split; [assumption|]. split; [lia|].
      split; [assumption|]. split; [assumption|]. intros i Hi. rewrite Hpres by lia. apply Hold. assumption.
Qed.

Lemma node_inv_mono hist mx nc nc' l c nodes addr :
  (forall l0, 1 <= l0 <= mx -> zn nc l0 <= zn nc' l0) -> c < zn nc' l ->
  node_inv hist mx nc (Some (l, c)) nodes addr -> node_inv hist mx nc' None nodes addr.
Proof.
  intros Hm Hc [Hbr Hlf]. split.
  - intros i o Hi Hnd. destruct (Hbr i o Hi Hnd) as (A0 & A1 & l0 & c0 & Hl0 & Hf & Hw & Hs).
    split; [assumption|]. split; [assumption|]. exists l0, c0. split; [assumption|]. split; [assumption|]. split; [|assumption].
    left. destruct Hw as [Hw|Hw].
    + pose proof (Hm l0 ltac:(lia)). lia.
    + injection Hw as -> ->. assumption.
  - intros i sy Hi Hnd. destruct (Hlf i sy Hi Hnd) as [Hq Hx]. split; [assumption|]. pose proof (Hm _ Hq). lia.
Qed.

Lemma node_inv_cur hist mx nc cur nodes addr : node_inv hist mx nc None nodes addr -> node_inv hist mx nc cur nodes addr.
Proof.
  intros [Hbr Hlf]. split; [|assumption]. intros i o Hi Hnd. destruct (Hbr i o Hi Hnd) as (A0 & A1 & l0 & c0 & Hl0 & Hf & Hw & Hs).
  split; [assumption|]. split; [assumption|]. exists l0, c0. split; [assumption|]. split; [assumption|]. split; [|assumption].
  destruct Hw as [Hw|Hw]; [left; assumption | discriminate].
Qed.

(* one symbol: after the Kraft check the placement cannot fail, and the addresses carry over *)
Lemma place_symbol_conv hist mx tb symbol l tl nc nodes table addr :
  code_ctx hist mx tb -> 1 <= l <= mx -> 0 <= symbol ->
  nc_inv hist mx nc (l :: tl) -> table_inv hist tb nc nodes table -> wf_nodes nodes ->
  vzlen nodes + 11 * Z.of_nat (length (l :: tl)) <= 65535 ->
  node_inv hist mx nc None nodes addr -> roots_inv tb table addr ->
  exists nc' nodes' table' addr',
    place_symbol symbol l (nc, nodes, table) tb (Z.shiftl 1 tb) ((Z.shiftl 1 tb) mod 2 ^ 16 - 1) = Ok (nc', nodes', table') /\
    node_inv hist mx nc' None nodes' addr' /\ roots_inv tb table' addr'.
Proof.
  intros Hcx Hl Hsym Hncinv Htabinv Hwf Hpot Hnode Hroots.
  pose proof (place_symbol_ok hist mx tb symbol l tl nc nodes table Hcx Hl Hsym Hncinv Htabinv Hwf Hpot) as Hok.
  destruct Hncinv as (Hnclen & Hnc). destruct Htabinv as (Htlen & Htab).
  pose proof Hcx as [Hhist Hmx Htb Hkraft Hprefix].
  assert (Htb' : 1 <= tb <= 10 /\ tb <= mx) by (clear - Hmx Htb; lia).
  assert (Hts : Z.shiftl 1 tb = 2 ^ tb) by (rewrite Z.shiftl_1_l; reflexivity).
  assert (Hpow_tb : 2 <= 2 ^ tb <= 1024).
  { split; [change 2 with (2 ^ 1) at 1; apply Z.pow_le_mono_r; lia | change 1024 with (2 ^ 10); apply Z.pow_le_mono_r; lia]. }
  rewrite Hts in *. rewrite (Z.mod_small (2 ^ tb)) in * by (change (2 ^ 16) with 65536; clear - Hpow_tb; lia).
  destruct (Hnc l Hl) as [Hfirst Hcount]. rewrite cnt_cons_same in Hcount.
  pose proof (cnt_nonneg l tl) as Hcnt. pose proof (Hkraft l Hl) as Hk.
  assert (Hpow_l : 2 <= 2 ^ l <= 32768).
  { split; [change 2 with (2 ^ 1) at 1; apply Z.pow_le_mono_r; lia | change 32768 with (2 ^ 15); apply Z.pow_le_mono_r; lia]. }
  assert (Hfirst0 : 0 <= first hist l) by (unfold first; apply curr_of_bound; assumption).
  remember (zn nc l) as c eqn:Ec.
  assert (Hc : 0 <= c < 2 ^ l) by (clear - Hfirst Hcount Hcnt Hk Hfirst0; lia).
  assert (Hclim : c < lim hist l) by (clear - Hcount Hcnt; lia).
  assert (Hlims : forall l0, 1 <= l0 <= mx -> zn nc l0 <= lim hist l0).
  { intros l0 Hl0. destruct (Hnc l0 Hl0) as [_ B]. pose proof (cnt_nonneg l0 (l :: tl)) as H. clear - B H. lia. }
  hide Hok. hide Htab. hide Hnc.
  unfold place_symbol.
  rewrite zlist_get_ok by (clear - Hl Hmx Hnclen; lia). rewrite <- Ec. cbn [bind].
  replace (65535 <? c + 1) with false by (symmetry; apply Z.ltb_ge; clear - Hc Hpow_l; lia).
  destruct (zlist_set_ok nc l (c + 1) ltac:(clear - Hl Hmx Hnclen; lia)) as (nc' & Enc & Hnclen' & Hncz).
  rewrite Enc. cbn [bind].
  unfold usub. replace (16 <? l) with false by (symmetry; apply Z.ltb_ge; clear - Hl Hmx; lia). cbn [bind].
  fold (revl l c).
  assert (Hmono : forall l1, 1 <= l1 <= mx -> zn nc l1 <= zn nc' l1).
  { intros l1 Hl1. rewrite (Hncz l1 ltac:(clear - Hl1; lia)). destruct (Z.eqb_spec l1 l) as [->|]; [rewrite <- Ec|]; clear; lia. }
  assert (Hcnc' : c < zn nc' l) by (rewrite (Hncz l ltac:(clear - Hl; lia)), Z.eqb_refl; clear; lia).
  assert (Hvl : 0 <= vzlen nodes) by (unfold vzlen; clear; lia).
  destruct (l <=? tb) eqn:Eshort.
  - (* primary entries: only slots with a non-zero length field change *)
    apply Z.leb_le in Eshort.
    pose proof (revl_nonneg l c (proj1 Hc)) as Hj0.
    pose proof (revl_lt l c (proj1 Hc) ltac:(clear - Hl Hmx; lia)) as Hj1.
    assert (Hstep : 0 < Z.shiftl 1 l) by (rewrite Z.shiftl_1_l; clear - Hpow_l; lia).
    assert (Hfuel : 2 ^ tb <= revl l c + Z.of_nat (Z.to_nat (2 ^ tb)) * Z.shiftl 1 l).
    { rewrite Z2Nat.id by (clear - Hpow_tb; lia). clear - Hj0 Hstep Hpow_tb. nia. }
    destruct (replicate_ok (Z.to_nat (2 ^ tb)) table (revl l c) (Z.shiftl 1 l)
                (Z.lor (Z.shiftl l 16) (symbol mod 2 ^ 32)) (2 ^ tb) Htlen Hj0 Hstep Hfuel) as (t' & Er & Hlen' & Hz').
    rewrite Er. cbn [bind]. exists nc', nodes, t', addr. split; [reflexivity|]. split.
    + apply (node_inv_mono hist mx nc nc' l c); auto. apply node_inv_cur. assumption.
    + intros j Hj Hs0 Hn0. rewrite (Hz' j (proj1 Hj)) in *.
      destruct (hit (revl l c) (Z.shiftl 1 l) (2 ^ tb) j).
      * exfalso. apply (shiftr_entry l (symbol mod 2 ^ 32) (proj1 Hl)); [apply Z.mod_pos_bound; reflexivity | exact Hs0].
      * apply Hroots; assumption.
  - (* a long code *)
    apply Z.leb_gt in Eshort.
    assert (Htb10 : tb = 10) by (clear - Htb Hl Eshort; lia).
    remember (Z.land (revl l c) (2 ^ tb - 1)) as idx eqn:Eidx.
    assert (Hidx_eq : idx = (revl l c) mod 2 ^ tb).
    { rewrite Eidx. apply land_mask. clear - Htb'. lia. }
    assert (Hidx : 0 <= idx < 2 ^ tb) by (rewrite Hidx_eq; apply Z.mod_pos_bound; clear - Hpow_tb; lia).
    assert (Hpre : 0 <= Z.shiftr c (l - tb) < 2 ^ tb) by (apply shiftr_lt; [exact Hc | clear - Htb' Eshort; lia]).
    assert (Hrev : revl tb idx = Z.shiftr c (l - tb)).
    { rewrite Hidx_eq. rewrite revl_prefix; [| clear - Hc; lia | clear - Htb' Eshort; lia | clear - Hl Hmx; lia].
      apply revl_invol; [clear - Htb'; lia | exact Hpre]. }
    rewrite zget_ok by (rewrite Htlen; exact Hidx). cbn [bind].
    destruct (Z.eqb_spec (Z.shiftr (az table idx) 16) 0) as [Ezero|Enz]; cbn [negb].
    2:{ exfalso. unhide Hok. unfold place_symbol in Hok.
        rewrite zlist_get_ok in Hok by (clear - Hl Hmx Hnclen; lia). rewrite <- Ec in Hok. cbn [bind] in Hok.
        replace (65535 <? c + 1) with false in Hok by (symmetry; apply Z.ltb_ge; clear - Hc Hpow_l; lia).
        rewrite Enc in Hok. cbn [bind] in Hok. unfold usub in Hok.
        replace (16 <? l) with false in Hok by (symmetry; apply Z.ltb_ge; clear - Hl Hmx; lia). cbn [bind] in Hok.
        replace (l <=? tb) with false in Hok by (symmetry; apply Z.leb_gt; exact Eshort).
        fold (revl l c) in Hok. rewrite <- Eidx in Hok. rewrite zget_ok in Hok by (rewrite Htlen; exact Hidx). cbn [bind] in Hok.
        replace (Z.shiftr (az table idx) 16 =? 0) with false in Hok by (symmetry; apply Z.eqb_neq; exact Enz).
        cbn [negb] in Hok. destruct Hok as [Hok|(a & b & d & Hok & _)]; discriminate. }
    unhide Htab. destruct (Htab idx Hidx) as [_ T3]. specialize (T3 Ezero). hide Htab.
    (* the root *)
    assert (Hroot : exists nodes1 table1 node_index addr1,
       (if az table idx =? 0
        then bind (zset table idx (vzlen nodes + 1)) (fun t' => Ok (vpush nodes Empty, t', vzlen nodes))
        else Ok (nodes, table, az table idx - 1)) = Ok (nodes1, table1, node_index) /\
       wf_nodes nodes1 /\ 0 <= node_index < vzlen nodes1 /\
       node_inv hist mx nc (Some (l, c)) nodes1 addr1 /\ roots_inv tb table1 addr1 /\
       addr1 node_index = (tb, Z.shiftr c (l - tb)) /\
       (forall j, 0 <= j < 2 ^ tb -> Z.shiftr (az table1 j) 16 = 0 -> az table1 j <> 0 -> 0 <= az table1 j - 1 < vzlen nodes1)).
    { destruct (Z.eqb_spec (az table idx) 0) as [Ev|Ev].
      - destruct (zset_ok table idx (vzlen nodes + 1) ltac:(rewrite Htlen; exact Hidx)) as (t1 & Et & Hlen1 & Hz1).
        rewrite Et. cbn [bind].
        set (addr1 := fun i => if i =? vzlen nodes then (tb, revl tb idx) else addr i).
        exists (vpush nodes Empty), t1, (vzlen nodes), addr1. split; [reflexivity|]. rewrite vpush_len.
        assert (Hvz1 : forall i, 0 <= i < vzlen nodes -> vz (vpush nodes Empty) i = vz nodes i).
        { intros i Hi. rewrite vpush_vz by (clear - Hi; lia). destruct (Z.eqb_spec i (vzlen nodes)); [clear - Hi e; lia | reflexivity]. }
        assert (Hold : forall i, 0 <= i < vzlen nodes -> addr1 i = addr i).
        { intros i Hi. unfold addr1. destruct (Z.eqb_spec i (vzlen nodes)); [clear - Hi e; lia | reflexivity]. }
        split.
        { intros i o Hi Hnd. rewrite vpush_len in Hi. rewrite vpush_vz in Hnd by (clear - Hi; lia).
          destruct (Z.eqb_spec i (vzlen nodes)); [discriminate|]. rewrite vpush_len.
          destruct (Hwf i o ltac:(clear - Hi n; lia) Hnd) as [Ho Hio]. clear - Ho Hio. lia. }
        split; [clear - Hvl; lia|]. split.
        { destruct (node_inv_cur hist mx nc (Some (l, c)) nodes addr Hnode) as [Hbr Hlf]. split.
          - intros i o Hi Hnd. rewrite vpush_len in Hi. rewrite vpush_vz in Hnd by (clear - Hi; lia).
            destruct (Z.eqb_spec i (vzlen nodes)); [discriminate|].
            assert (Hi' : 0 <= i < vzlen nodes) by (clear - Hi n; lia).
            destruct (Hwf i o Hi' Hnd) as [Ho Hio]. destruct (Hbr i o Hi' Hnd) as (A0 & A1 & A2).
            rewrite (Hold i Hi'), (Hold (i + o) ltac:(clear - Hi' Ho Hio; lia)), (Hold (i + o + 1) ltac:(clear - Hi' Ho Hio; lia)). auto.
          - intros i sy Hi Hnd. rewrite vpush_len in Hi. rewrite vpush_vz in Hnd by (clear - Hi; lia).
            destruct (Z.eqb_spec i (vzlen nodes)); [discriminate|].
            assert (Hi' : 0 <= i < vzlen nodes) by (clear - Hi n; lia). rewrite (Hold i Hi'). apply (Hlf i sy Hi' Hnd). }
        split.
        { intros j Hj Hs0 Hn0. rewrite (Hz1 j (proj1 Hj)) in *. destruct (Z.eqb_spec j idx) as [->|Hne].
          - replace (vzlen nodes + 1 - 1) with (vzlen nodes) by (clear; lia). unfold addr1. rewrite Z.eqb_refl. reflexivity.
          - unhide Htab. destruct (Htab j Hj) as [_ T3j]. specialize (T3j Hs0). hide Htab.
            rewrite Hold by (clear - T3j Hn0; lia). apply Hroots; assumption. }
        split; [unfold addr1; rewrite Z.eqb_refl; rewrite Hrev; reflexivity|].
        intros j Hj Hs0 Hn0. rewrite (Hz1 j (proj1 Hj)) in *. destruct (Z.eqb_spec j idx) as [->|Hne]; [clear - Hvl; lia|].
        unhide Htab. destruct (Htab j Hj) as [_ T3j]. specialize (T3j Hs0). clear - T3j Hn0. lia.
      - exists nodes, table, (az table idx - 1), addr. split; [reflexivity|]. split; [assumption|].
        split; [clear - T3 Ev; lia|]. split; [apply node_inv_cur; assumption|]. split; [assumption|].
        split; [rewrite (Hroots idx Hidx Ezero Ev), Hrev; reflexivity|].
        intros j Hj Hs0 Hn0. unhide Htab. destruct (Htab j Hj) as [_ T3j]. specialize (T3j Hs0). clear - T3j Hn0. lia. }
    destruct Hroot as (nodes1 & table1 & node_index & addr1 & Eroot & Hwf1 & Hni & Hnode1 & Hroots1 & Haddr1 & Hrootvalid).
    match goal with |- context [bind ?X _] => replace X with (Ok (nodes1, table1, node_index) : res (vec node * arr * Z)) end.
    cbn [bind].
    destruct (descend_addr hist mx tb nc l c Hcx Hl Hfirst Hlims (Z.to_nat (l - tb)) nodes1 node_index addr1 Hwf1 Hni Hnode1)
      as (nodes2 & idx2 & addr2 & E & Hwf2 & Hidx2 & Hlen2 & Hnode2 & Haddr2 & Hpres2).
    { rewrite Z2Nat.id by (clear - Eshort; lia). clear - Htb'. lia. }
    { rewrite Z2Nat.id by (clear - Eshort; lia). rewrite Haddr1. f_equal. clear. lia. }
    rewrite E. cbn [bind]. rewrite vget_ok by assumption. cbn [bind].
    destruct Hnode2 as [Hbr2 Hlf2].
    destruct (vz nodes2 idx2) as [o|sy|] eqn:End.
    + (* Branch: a longer placed code would extend this one *)
      exfalso. destruct (Hbr2 idx2 o Hidx2 End) as (_ & _ & l0 & c0 & Hl0 & Hf0 & Hw & Hs0).
      rewrite Haddr2 in Hl0, Hs0. cbn [fst snd] in Hl0, Hs0.
      destruct Hw as [Hw|Hw]; [|injection Hw as Hw1 Hw2; clear - Hw1 Hl0; lia].
      pose proof (no_prefix hist mx tb l l0 c0 Hcx ltac:(clear - Hl; lia) ltac:(clear - Hl0; lia) ltac:(clear - Hl0; lia) Hf0) as Hnp.
      rewrite Hs0 in Hnp. clear - Hnp Hclim. lia.
    + (* Leaf: the same code would have been placed before *)
      exfalso. destruct (Hlf2 idx2 sy Hidx2 End) as [_ Hx]. rewrite Haddr2 in Hx. cbn [fst snd] in Hx. rewrite <- Ec in Hx. clear - Hx. lia.
    + destruct (vset_ok nodes2 idx2 (Leaf (symbol mod 2 ^ 16)) Hidx2) as (nodes3 & E3 & Hlen3 & Hz3).
      rewrite E3. cbn [bind]. exists nc', nodes3, table1, addr2. split; [reflexivity|]. split.
      * destruct (node_inv_mono hist mx nc nc' l c nodes2 addr2 Hmono Hcnc' (conj Hbr2 Hlf2)) as [Hbr2' Hlf2']. split.
        -- intros i o Hi Hnd. rewrite Hlen3 in Hi. rewrite Hz3 in Hnd by (clear - Hi; lia).
           destruct (Z.eqb_spec i idx2); [discriminate|]. apply (Hbr2' i o Hi Hnd).
        -- intros i sy Hi Hnd. rewrite Hlen3 in Hi. rewrite Hz3 in Hnd by (clear - Hi; lia).
           destruct (Z.eqb_spec i idx2) as [->|Hne].
           ++ rewrite Haddr2. cbn [fst snd]. split; [exact Hl|]. clear - Hfirst Hcnc'. lia.
           ++ apply (Hlf2' i sy Hi Hnd).
      * intros j Hj Hs0 Hn0. rewrite Hpres2 by (apply Hrootvalid; assumption). apply Hroots1; assumption.
Qed.

Lemma populate_conv hist mx tb : code_ctx hist mx tb -> forall ls symbol nc nodes table addr,
  Forall (fun l => l = 0 \/ 1 <= l <= mx) ls -> 0 <= symbol ->
  nc_inv hist mx nc ls -> table_inv hist tb nc nodes table -> wf_nodes nodes ->
  vzlen nodes + 11 * Z.of_nat (length ls) <= 65535 ->
  node_inv hist mx nc None nodes addr -> roots_inv tb table addr ->
  exists st', populate ls symbol (nc, nodes, table) tb (Z.shiftl 1 tb) ((Z.shiftl 1 tb) mod 2 ^ 16 - 1) = Ok st'.
Proof.
  intros Hcx. induction ls as [|l tl IH]; intros symbol nc nodes table addr Hls Hsym Hnc Htab Hwf Hpot Hnode Hroots; cbn [populate].
  - eauto.
  - inversion Hls as [|? ? Hl Htl]; subst. destruct Hl as [->|Hl].
    + cbn [Z.eqb]. apply (IH (symbol + 1) nc nodes table addr); auto; try lia.
      * destruct Hnc as [Hlen Hnc]. split; [assumption|]. intros l' Hl'. destruct (Hnc l' Hl') as [A B].
        rewrite cnt_cons_other in B by lia. auto.
      * cbn [length] in Hpot. lia.
    + replace (l =? 0) with false by (symmetry; apply Z.eqb_neq; lia).
      destruct (place_symbol_conv hist mx tb symbol l tl nc nodes table addr Hcx Hl Hsym Hnc Htab Hwf Hpot Hnode Hroots)
        as (nc' & nodes' & table' & addr' & E & Hnode' & Hroots').
      destruct (place_symbol_ok hist mx tb symbol l tl nc nodes table Hcx Hl Hsym Hnc Htab Hwf Hpot)
        as [E2|(nc2 & nodes2 & table2 & E2 & Hnc' & Htab' & Hwf' & Hpot' & _)]; [rewrite E in E2; discriminate|].
      rewrite E in E2. injection E2 as <- <- <-.
      rewrite E. cbn [bind]. apply (IH (symbol + 1) nc' nodes' table' addr'); auto. lia.
Qed.

(* ---------- the Kraft sum of the specification and the decoder's check ---------- *)
(* sum over b = 1..m of cnt b lens * 2^(L-b) *)
Fixpoint ksum (lens : list Z) (L : Z) (m : nat) : Z :=
  match m with O => 0 | S m' => ksum lens L m' + cnt (Z.of_nat m) lens * 2 ^ (L - Z.of_nat m) end.

Lemma ksum_nil L m : ksum [] L m = 0.
Proof. induction m as [|m IH]; cbn [ksum cnt]; lia. Qed.

Lemma ksum_cons x lens L m : ksum (x :: lens) L m = ksum lens L m + (if (1 <=? x) && (x <=? Z.of_nat m) then 2 ^ (L - x) else 0).
Proof.
  induction m as [|m IH].
  - cbn [ksum]. replace ((1 <=? x) && (x <=? Z.of_nat 0)) with false; [lia|].
    symmetry. apply andb_false_iff. destruct (Z_lt_ge_dec x 1); [left; apply Z.leb_gt | right; apply Z.leb_gt]; lia.
  - cbn [ksum cnt]. rewrite IH. destruct (Z.eqb_spec x (Z.of_nat (S m))) as [->|Hne].
    + replace ((1 <=? Z.of_nat (S m)) && (Z.of_nat (S m) <=? Z.of_nat m)) with false
        by (symmetry; apply andb_false_iff; right; apply Z.leb_gt; lia).
      replace ((1 <=? Z.of_nat (S m)) && (Z.of_nat (S m) <=? Z.of_nat (S m))) with true
        by (symmetry; apply andb_true_iff; split; apply Z.leb_le; lia). lia.
    + replace (x <=? Z.of_nat (S m)) with (x <=? Z.of_nat m); [lia|].
      destruct (Z.leb_spec x (Z.of_nat m)); symmetry; [apply Z.leb_le | apply Z.leb_gt]; lia.
Qed.

Lemma kraft_ksum lens L m : Forall (fun l => 0 <= l <= Z.of_nat m) lens -> kraft lens L = ksum lens L m.
Proof.
  induction 1 as [|x lens Hx _ IH]; [rewrite ksum_nil; reflexivity|].
  cbn [kraft]. rewrite ksum_cons, IH.
  destruct (Z.ltb_spec 0 x).
  - replace ((1 <=? x) && (x <=? Z.of_nat m)) with true by (symmetry; apply andb_true_iff; split; apply Z.leb_le; lia). lia.
  - replace (1 <=? x) with false by (symmetry; apply Z.leb_gt; lia). cbn [andb]. lia.
Qed.

(* 2^(L-m) * curr_of m = 2 * ksum m  when the histogram is the count of the lengths *)
Lemma curr_ksum lens hist L : (forall i, 1 <= i -> zn hist i = cnt i lens) ->
  forall m, Z.of_nat m <= L -> 2 ^ (L - Z.of_nat m) * curr_of hist m = 2 * ksum lens L m.
Proof.
  intros Hz. induction m as [|m IH]; intros Hm.
  - cbn [curr_of ksum]. lia.
  - cbn [curr_of ksum]. rewrite Hz by lia. specialize (IH ltac:(lia)).
    assert (Hp : 2 ^ (L - Z.of_nat m) = 2 * 2 ^ (L - Z.of_nat (S m))).
    { replace (L - Z.of_nat m) with (1 + (L - Z.of_nat (S m))) by lia. rewrite Z.pow_add_r by lia. reflexivity. }
    rewrite Hp in IH. nia.
Qed.

(* beyond the longest used length the accumulator only doubles *)
Lemma curr_of_tail hist mx : (forall i, mx < i -> zn hist i = 0) -> forall k, curr_of hist (Z.to_nat mx + k) = 2 ^ Z.of_nat k * curr_of hist (Z.to_nat mx).
Proof.
  intros Hlast. induction k as [|k IH].
  - rewrite Nat.add_0_r. change (2 ^ Z.of_nat 0) with 1. lia.
  - replace (Z.to_nat mx + S k)%nat with (S (Z.to_nat mx + k)) by lia. cbn [curr_of]. rewrite IH.
    rewrite Hlast by lia. rewrite Nat2Z.inj_succ, Z.pow_succ_r by lia. lia.
Qed.

Lemma kraft_check lens hist mx : lens_ok lens -> 1 <= mx <= 15 ->
  (forall i, 0 <= i -> zn hist i = if i =? 0 then 0 else cnt i lens) -> (forall i, mx < i -> zn hist i = 0) ->
  kraft lens 15 = 2 ^ 15 -> curr_of hist (Z.to_nat mx) = 2 ^ (mx + 1).
Proof.
  intros Hok Hmx Hzn Hlast Hk.
  assert (Hf : Forall (fun l => 0 <= l <= Z.of_nat 15) lens) by (eapply Forall_impl; [|exact Hok]; cbn; intros; lia).
  rewrite (kraft_ksum lens 15 15 Hf) in Hk.
  pose proof (curr_ksum lens hist 15 ltac:(intros i Hi; rewrite Hzn by lia; replace (i =? 0) with false by (symmetry; apply Z.eqb_neq; lia); reflexivity) 15%nat ltac:(lia)) as H.
  change (2 ^ (15 - Z.of_nat 15)) with 1 in H. rewrite Hk in H.
  pose proof (curr_of_tail hist mx Hlast (15 - Z.to_nat mx)) as Ht.
  replace (Z.to_nat mx + (15 - Z.to_nat mx))%nat with 15%nat in Ht by lia.
  assert (Hp : 2 ^ Z.of_nat (15 - Z.to_nat mx) * 2 ^ (mx + 1) = 2 ^ 16).
  { rewrite <- Z.pow_add_r by lia. f_equal. lia. }
  assert (Hpos : 0 < 2 ^ Z.of_nat (15 - Z.to_nat mx)) by (apply Z.pow_pos_nonneg; lia).
  change (2 * 2 ^ 15) with (2 ^ 16) in H. nia.
Qed.

(* a complete code description with at least two used symbols is accepted *)
Theorem build_implicit_complete lens : lens_ok lens -> Z.of_nat (length lens) <= 5957 -> 2 <= nz lens ->
  kraft lens 15 = 2 ^ 15 -> exists t, build_implicit lens = Ok t.
Proof.
  intros Hok Hlen Hnz Hkraft15. unfold build_implicit.
  destruct (count_lengths_spec lens (repeat 0 16) 0 Hok ltac:(reflexivity)) as (hist & num & Ec & Hhlen & Hz & Hnum & Hsum); try lia.
  { intros i Hi. rewrite repeat0_zn. lia. }
  rewrite Ec. cbn [bind]. rewrite repeat0_lsum in Hsum.
  assert (Hzn : forall i, 0 <= i -> zn hist i = if i =? 0 then 0 else cnt i lens).
  { intros i Hi. rewrite (Hz i Hi), repeat0_zn. lia. }
  pose proof (nz_nonneg lens) as Hnz0. pose proof (nz_le_length lens) as Hnz1.
  destruct (Z.eqb_spec num 0); [exfalso; lia|].
  destruct (Z.eqb_spec num 1) as [E1|E1]; [exfalso; lia|].
  assert (Hhist : hist_ok hist).
  { intros i Hi. rewrite (Hzn i Hi). destruct (i =? 0); [lia|]. pose proof (cnt_nonneg i lens). pose proof (cnt_le_length i lens). lia. }
  destruct (rposition_max hist Hhlen ltac:(lia)) as (mx & Emx & Hmx & Hmxnz & Hmxlast).
  rewrite Emx. cbn [of_option bind].
  assert (Hmx1 : 1 <= mx).
  { destruct (Z.eq_dec mx 0) as [->|]; [|lia]. rewrite (Hzn 0 ltac:(lia)) in Hmxnz. cbn in Hmxnz. lia. }
  destruct (assign_codes_spec hist Hhist Hhlen (Z.to_nat mx) 1 (repeat 0 16) ltac:(lia) ltac:(lia) ltac:(reflexivity))
    as (nc & Ea & Hnclen & Hncz).
  change (curr_of hist (1 - 1)) with 0 in Ea. change (Z.of_nat 1) with 1 in Ea. rewrite Ea. cbn [bind].
  replace (1 + Z.to_nat mx - 1)%nat with (Z.to_nat mx) by lia.
  assert (Hsh : Z.shiftl 2 mx mod 2 ^ 32 = 2 ^ (mx + 1)).
  { rewrite Z.shiftl_mul_pow2 by lia. rewrite Z.pow_add_r by lia. change (2 ^ 1) with 2.
    assert (2 ^ mx <= 2 ^ 15) by (apply Z.pow_le_mono_r; lia). assert (0 < 2 ^ mx) by (apply Z.pow_pos_nonneg; lia).
    change (2 ^ 15) with 32768 in *. rewrite Z.mod_small by (change (2 ^ 32) with 4294967296; lia). lia. }
  rewrite Hsh.
  destruct (Z.eqb_spec (curr_of hist (Z.to_nat mx)) (2 ^ (mx + 1))) as [Ek|Ek];
    [|exfalso; apply Ek; apply (kraft_check lens hist mx Hok ltac:(lia) Hzn Hmxlast Hkraft15)].
  cbn [negb].
  set (tb := Z.min mx MAX_TABLE_BITS).
  assert (Htb : tb = Z.min mx 10) by reflexivity.
  (* the static facts *)
  assert (Hcx : code_ctx hist mx tb).
  { constructor; auto; try lia.
    - intros l Hl. pose proof (kraft_levels hist (Z.to_nat mx) Hhist ltac:(rewrite Ek; f_equal; lia) (Z.to_nat l) ltac:(lia)) as Hk.
      rewrite curr_of_lim in Hk by lia. replace (Z.of_nat (Z.to_nat l) + 1) with (l + 1) in Hk by lia.
      rewrite Z.pow_add_r in Hk by lia. change (2 ^ 1) with 2 in Hk. lia.
    - intros l1 l2 H1 H12 H2. unfold first.
      pose proof (curr_of_mono hist Hhist (Z.to_nat (l2 - 1 - l1)) (Z.to_nat l1)) as Hm.
      replace (Z.to_nat l1 + Z.to_nat (l2 - 1 - l1))%nat with (Z.to_nat l2 - 1)%nat in Hm by (clear - H1 H12; lia).
      rewrite curr_of_lim in Hm by lia. rewrite Z2Nat.id in Hm by lia.
      replace (l2 - l1) with (l2 - 1 - l1 + 1) by lia. rewrite Z.pow_add_r by lia. change (2 ^ 1) with 2. lia. }
  assert (Hnn : forall j, 0 <= nth j hist 0).
  { intros j. pose proof (Hhist (Z.of_nat j) ltac:(lia)) as H. unfold zn in H. rewrite Nat2Z.id in H. lia. }
  destruct (sum_range_u16_ok hist (tb + 1) mx Hhlen Hnn ltac:(lia) ltac:(lia) ltac:(lia) ltac:(lia)) as (ts & Es).
  rewrite Es. cbn [bind].
  assert (Hls : Forall (fun l => l = 0 \/ 1 <= l <= mx) lens).
  { apply Forall_forall. intros l Hin. pose proof (proj1 (Forall_forall _ _) Hok l Hin) as Hr. cbn beta in Hr.
    destruct (Z.eq_dec l 0); [left; assumption|right]. split; [lia|].
    destruct (Z_le_gt_dec l mx); [assumption|]. exfalso.
    pose proof (Hmxlast l ltac:(lia)) as H0. rewrite (Hzn l ltac:(lia)) in H0.
    replace (l =? 0) with false in H0 by (symmetry; apply Z.eqb_neq; lia).
    pose proof (cnt_in l lens Hin). lia. }
  assert (Hnc0 : nc_inv hist mx nc lens).
  { split; [assumption|]. intros l Hl. rewrite (Hncz l ltac:(lia)). change (Z.of_nat 1) with 1.
    replace ((1 <=? l) && (l <? Z.of_nat (1 + Z.to_nat mx))) with true
      by (symmetry; apply andb_true_iff; split; [apply Z.leb_le | apply Z.ltb_lt]; lia).
    pose proof (cx_kraft _ _ _ Hcx l Hl) as Hkl. pose proof (curr_of_bound hist (Z.to_nat l - 1) Hhist) as Hfb.
    pose proof (Hhist l ltac:(lia)) as Hhl.
    assert (Hp15 : 2 ^ l <= 2 ^ 15) by (apply Z.pow_le_mono_r; lia). change (2 ^ 15) with 32768 in Hp15.
    unfold lim, first in *. rewrite Z.mod_small by (change (2 ^ 16) with 65536; lia).
    rewrite (Hzn l ltac:(lia)) in *. replace (l =? 0) with false in * by (symmetry; apply Z.eqb_neq; lia). lia. }
  assert (Hts : Z.shiftl 1 tb = 2 ^ tb) by (rewrite Z.shiftl_1_l; reflexivity).
  assert (Htab0 : table_inv hist tb nc (vmake 0 Empty) (zmake (Z.shiftl 1 tb))).
  { split.
    - rewrite Hts. apply zmake_len. apply Z.pow_nonneg. lia.
    - intros j Hj. rewrite zmake_az. split; [intros H; exfalso; apply H; reflexivity|]. intros _. unfold vzlen, vmake. cbn [vlen]. lia. }
  assert (Hwf0 : wf_nodes (vmake 0 (A:=node) Empty)).
  { intros i o Hi. unfold vzlen, vmake in Hi. cbn [vlen] in Hi. lia. }
  fold tb.
  destruct (populate_conv hist mx tb Hcx lens 0 nc (vmake 0 Empty) (zmake (Z.shiftl 1 tb)) (fun _ => (0, 0)) Hls ltac:(lia) Hnc0 Htab0 Hwf0)
    as (st' & E).
  { unfold vzlen, vmake. cbn [vlen]. lia. }
  { split; intros i o Hi; unfold vzlen, vmake in Hi; cbn [vlen] in Hi; lia. }
  { intros j Hj _ Hn0. rewrite zmake_az in Hn0. contradiction. }
  rewrite E. cbn [bind]. destruct st' as [[nc' nodes'] table']. eauto.
Qed.

Example build_implicit_complete_example :
  kraft [2; 1; 3; 3] 15 = 2 ^ 15 /\ is_ok (build_implicit [2; 1; 3; 3]) = true /\
  kraft [1; 1; 1] 15 <> 2 ^ 15 /\ build_implicit [1; 1; 1] = Err EHuffmanError.
Proof. vm_compute. repeat split; discriminate. Qed.
