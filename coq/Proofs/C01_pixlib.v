(* C01, layer 4a: building blocks of the pixel-loop refinement.
   - the decoder's byte buffer read pixel-wise (`px_at`), and what set4 / write4 / slice4 / get4 / fill_pixels /
     copy_backref do to it;
   - ARGB pixels (Spec) versus R,G,B,A byte quadruples (Model): `px_of`, `pix32`, the colour-cache hash;
   - the colour cache relation `cache_rel` (pointwise, so it does not see idempotent re-insertions);
   - the specification's bounded loop `run` as plain iteration (`run_iterN`);
   - LZ77 prefix values (get_copy_distance = read_lz77_value) and the distance map
     (plane_code_to_distance = distance_of_code). *)
From Coq Require Import ZArith NArith List Bool Lia FMapPositive.
From WebP Require Import Lib.Res Lib.Arr Lib.ZBits Lib.Sweep Gen.Tables
  Model.EncoderHeap Proofs.C04_bits Proofs.C04_arr
  Model.LosslessLib Model.BitReader Model.Huffman Model.LosslessTransform Model.Lossless
  Proofs.Lossless_BitReader Proofs.Lossless_HuffmanSafe Proofs.Lossless_CopyWithin Proofs.Lossless_PixelSafe
  Proofs.C01_stream Proofs.C01_symbols.
Import ListNotations.
Open Scope Z_scope.

Ltac Zify.zify_post_hook ::= Z.div_mod_to_equations.

(* ------------------------------------------------------------------------------------------------ *)
(** * the byte buffer, pixel by pixel *)
Definition px_at (a : arr) (i : Z) : px4 := (az a (4 * i), az a (4 * i + 1), az a (4 * i + 2), az a (4 * i + 3)).

(* four consecutive bytes written at s *)
Definition wrote4 (a a' : arr) (s : Z) (p : px4) : Prop :=
  let '(b0, b1, b2, b3) := p in
  zlen a' = zlen a /\
  forall k, 0 <= k -> az a' k = if k =? s then b0 else if k =? s + 1 then b1 else if k =? s + 2 then b2 else if k =? s + 3 then b3 else az a k.

Lemma wrote4_px a a' i p : 0 <= i -> wrote4 a a' (4 * i) p ->
  zlen a' = zlen a /\ forall j, 0 <= j -> px_at a' j = if j =? i then p else px_at a j.
Proof.
  destruct p as [[[b0 b1] b2] b3]. intros Hi [Hl Hz]. split; [exact Hl|]. intros j Hj. unfold px_at.
  rewrite !Hz by lia. destruct (Z.eqb_spec j i) as [->|Hne].
  - rewrite Z.eqb_refl.
    replace (4 * i + 1 =? 4 * i) with false by (symmetry; apply Z.eqb_neq; lia). rewrite Z.eqb_refl.
    replace (4 * i + 2 =? 4 * i) with false by (symmetry; apply Z.eqb_neq; lia).
    replace (4 * i + 2 =? 4 * i + 1) with false by (symmetry; apply Z.eqb_neq; lia). rewrite Z.eqb_refl.
    replace (4 * i + 3 =? 4 * i) with false by (symmetry; apply Z.eqb_neq; lia).
    replace (4 * i + 3 =? 4 * i + 1) with false by (symmetry; apply Z.eqb_neq; lia).
    replace (4 * i + 3 =? 4 * i + 2) with false by (symmetry; apply Z.eqb_neq; lia). rewrite Z.eqb_refl. reflexivity.
  - repeat match goal with |- context [?x =? ?y] => replace (x =? y) with false by (symmetry; apply Z.eqb_neq; lia) end.
    reflexivity.
Qed.

Lemma zwrite_spec a start l : 0 <= start -> start + Z.of_nat (length l) <= zlen a ->
  exists a', zwrite a start l = Ok a' /\ zlen a' = zlen a /\
    forall k, 0 <= k -> az a' k = if (start <=? k) && (k <? start + Z.of_nat (length l)) then nth (Z.to_nat (k - start)) l 0 else az a k.
Proof.
  intros Hs Hl. unfold zwrite, zlen in *. replace (start <? 0) with false by (symmetry; apply Z.ltb_ge; lia).
  unfold awrite. replace (Z.to_N start + N.of_nat (length l) <=? alen a)%N with true by (symmetry; apply N.leb_le; lia).
  cbn [of_option]. eexists. split; [reflexivity|]. cbn [alen]. split; [reflexivity|].
  intros k Hk. unfold az at 1. unfold araw. cbn [adata]. rewrite write_aux_find.
  destruct (Z.leb_spec start k) as [H1|H1]; [destruct (Z.ltb_spec k (start + Z.of_nat (length l))) as [H2|H2]|]; cbn [andb].
  - replace ((Z.to_N start <=? Z.to_N k) && (Z.to_N k <? Z.to_N start + N.of_nat (length l)))%N with true
      by (symmetry; apply andb_true_iff; split; [apply N.leb_le | apply N.ltb_lt]; lia).
    f_equal. lia.
  - replace ((Z.to_N start <=? Z.to_N k) && (Z.to_N k <? Z.to_N start + N.of_nat (length l)))%N with false
      by (symmetry; apply andb_false_iff; right; apply N.ltb_ge; lia).
    reflexivity.
  - replace ((Z.to_N start <=? Z.to_N k) && (Z.to_N k <? Z.to_N start + N.of_nat (length l)))%N with false
      by (symmetry; apply andb_false_iff; left; apply N.leb_gt; lia).
    reflexivity.
Qed.

Lemma write4_wrote a s p : 0 <= s -> s + 4 <= zlen a -> exists a', write4 a s p = Ok a' /\ wrote4 a a' s p.
Proof.
  intros Hs Hl. destruct p as [[[b0 b1] b2] b3]. unfold write4.
  destruct (zwrite_spec a s [b0; b1; b2; b3] Hs ltac:(cbn [length]; lia)) as (a' & E & Hlen & Hz).
  exists a'. split; [exact E|]. split; [exact Hlen|]. intros k Hk. rewrite (Hz k Hk). cbn [length].
  destruct (Z.eqb_spec k s) as [->|N0].
  { replace ((s <=? s) && (s <? s + Z.of_nat 4)) with true by (symmetry; apply andb_true_iff; split; [apply Z.leb_le | apply Z.ltb_lt]; lia).
    replace (Z.to_nat (s - s)) with 0%nat by lia. reflexivity. }
  destruct (Z.eqb_spec k (s + 1)) as [->|N1].
  { replace ((s <=? s + 1) && (s + 1 <? s + Z.of_nat 4)) with true by (symmetry; apply andb_true_iff; split; [apply Z.leb_le | apply Z.ltb_lt]; lia).
    replace (Z.to_nat (s + 1 - s)) with 1%nat by lia. reflexivity. }
  destruct (Z.eqb_spec k (s + 2)) as [->|N2].
  { replace ((s <=? s + 2) && (s + 2 <? s + Z.of_nat 4)) with true by (symmetry; apply andb_true_iff; split; [apply Z.leb_le | apply Z.ltb_lt]; lia).
    replace (Z.to_nat (s + 2 - s)) with 2%nat by lia. reflexivity. }
  destruct (Z.eqb_spec k (s + 3)) as [->|N3].
  { replace ((s <=? s + 3) && (s + 3 <? s + Z.of_nat 4)) with true by (symmetry; apply andb_true_iff; split; [apply Z.leb_le | apply Z.ltb_lt]; lia).
    replace (Z.to_nat (s + 3 - s)) with 3%nat by lia. reflexivity. }
  replace ((s <=? k) && (k <? s + Z.of_nat 4)) with false; [reflexivity|].
  symmetry. apply andb_false_iff. destruct (Z.leb_spec s k); [right; apply Z.ltb_ge; lia | left; reflexivity].
Qed.

Lemma set4_wrote a s p : 0 <= s -> s + 4 <= zlen a -> exists a', set4 a s p = Ok a' /\ wrote4 a a' s p.
Proof.
  intros Hs Hl. destruct p as [[[b0 b1] b2] b3]. unfold set4.
  destruct (zset_ok a s b0 ltac:(lia)) as (a1 & E1 & L1 & Z1). rewrite E1. cbn [bind].
  destruct (zset_ok a1 (s + 1) b1 ltac:(lia)) as (a2 & E2 & L2 & Z2). rewrite E2. cbn [bind].
  destruct (zset_ok a2 (s + 2) b2 ltac:(lia)) as (a3 & E3 & L3 & Z3). rewrite E3. cbn [bind].
  destruct (zset_ok a3 (s + 3) b3 ltac:(lia)) as (a4 & E4 & L4 & Z4). exists a4. split; [exact E4|]. split; [lia|].
  intros k Hk. rewrite (Z4 k Hk), (Z3 k Hk), (Z2 k Hk), (Z1 k Hk).
  destruct (Z.eqb_spec k s); destruct (Z.eqb_spec k (s + 1)); destruct (Z.eqb_spec k (s + 2)); destruct (Z.eqb_spec k (s + 3));
    try reflexivity; lia.
Qed.

Lemma write4_px a i p : 0 <= i -> 4 * (i + 1) <= zlen a ->
  exists a', write4 a (i * 4) p = Ok a' /\ zlen a' = zlen a /\ forall j, 0 <= j -> px_at a' j = if j =? i then p else px_at a j.
Proof.
  intros Hi Hl. replace (i * 4) with (4 * i) by lia. destruct (write4_wrote a (4 * i) p ltac:(lia) ltac:(lia)) as (a' & E & W).
  exists a'. split; [exact E|]. apply wrote4_px; assumption.
Qed.

Lemma set4_px a i p : 0 <= i -> 4 * (i + 1) <= zlen a ->
  exists a', set4 a (i * 4) p = Ok a' /\ zlen a' = zlen a /\ forall j, 0 <= j -> px_at a' j = if j =? i then p else px_at a j.
Proof.
  intros Hi Hl. replace (i * 4) with (4 * i) by lia. destruct (set4_wrote a (4 * i) p ltac:(lia) ltac:(lia)) as (a' & E & W).
  exists a'. split; [exact E|]. apply wrote4_px; assumption.
Qed.

Lemma get4_px a i : 0 <= i -> 4 * (i + 1) <= zlen a -> get4 a (4 * i) = Ok (px_at a i).
Proof. intros Hi Hl. unfold get4. rewrite !zget_ok by lia. reflexivity. Qed.

Lemma slice4_px a i : 0 <= i -> 4 * (i + 1) <= zlen a -> slice4 a (4 * i) = Ok (px_at a i).
Proof.
  intros Hi Hl. unfold slice4, zslice, zlen in *.
  replace ((4 * i <? 0) || (4 <? 0)) with false by (symmetry; apply orb_false_iff; split; apply Z.ltb_ge; lia).
  unfold aslice. replace (Z.to_N (4 * i) + Z.to_N 4 <=? alen a)%N with true by (symmetry; apply N.leb_le; lia).
  cbn [of_option bind]. change (N.to_nat (Z.to_N 4)) with 4%nat. cbn [slice_aux].
  unfold px_at, az. repeat f_equal; lia.
Qed.

Lemma fill_pixels_px data index n value : 0 <= index -> 0 <= n -> 4 * (index + n) <= zlen data ->
  exists data', fill_pixels data index n value = Ok data' /\ zlen data' = zlen data /\
    forall j, 0 <= j -> px_at data' j = if (index <=? j) && (j <? index + n) then value else px_at data j.
Proof.
  intros Hi Hn Hl. unfold fill_pixels, for_range.
  destruct (for_loop_inv (fun (i : Z) (d : arr) => zlen d = zlen data /\
              forall j, 0 <= j -> px_at d j = if (index <=? j) && (j <? index + i) then value else px_at data j)
              (fun i d => write4 d (index * 4 + i * 4) value) 1 (Z.to_nat (n - 0)) 0 data) as (d' & E & Hl' & Hz).
  - split; [reflexivity|]. intros j Hj. replace ((index <=? j) && (j <? index + 0)) with false; [reflexivity|].
    symmetry. apply andb_false_iff. destruct (Z.leb_spec index j); [right; apply Z.ltb_ge; lia | left; reflexivity].
  - intros k d (m & Hm & Hk) [Hld Hzd]. replace (index * 4 + k * 4) with ((index + k) * 4) by lia.
    destruct (write4_px d (index + k) value ltac:(lia) ltac:(lia)) as (d1 & E1 & L1 & Z1).
    exists d1. split; [exact E1|]. split; [lia|]. intros j Hj. rewrite (Z1 j Hj), (Hzd j Hj).
    destruct (Z.eqb_spec j (index + k)) as [->|Hne].
    + replace ((index <=? index + k) && (index + k <? index + (k + 1))) with true; [reflexivity|].
      symmetry. apply andb_true_iff. split; [apply Z.leb_le | apply Z.ltb_lt]; lia.
    + destruct (index <=? j); cbn [andb]; [|reflexivity].
      destruct (Z.ltb_spec j (index + k)); destruct (Z.ltb_spec j (index + (k + 1))); try reflexivity; lia.
  - exists d'. split; [exact E|]. split; [exact Hl'|]. intros j Hj. rewrite (Hz j Hj).
    replace (0 + Z.of_nat (Z.to_nat (n - 0)) * 1) with n by lia. reflexivity.
Qed.

Lemma copy_backref_px data index dist length N : zlen data = 4 * N -> 2 <= dist <= index -> 1 <= length -> index + length <= N ->
  exists data', copy_backref data index dist length N = Ok data' /\ zlen data' = zlen data /\
    (forall j, 0 <= j < index -> px_at data' j = px_at data j) /\
    (forall j, index <= j < index + length -> px_at data' j = px_at data' (j - dist)).
Proof.
  intros Hlen Hd Hl Hin. destruct (copy_backref_spec data index dist length N Hlen Hd Hl Hin) as (d' & E & Hl' & A & B & _).
  exists d'. split; [exact E|]. split; [exact Hl'|]. split.
  - intros j Hj. unfold px_at. rewrite !A by lia. reflexivity.
  - intros j Hj. unfold px_at. rewrite (B (4 * j)), (B (4 * j + 1)), (B (4 * j + 2)), (B (4 * j + 3)) by lia.
    replace (4 * j - 4 * dist) with (4 * (j - dist)) by lia. replace (4 * j + 1 - 4 * dist) with (4 * (j - dist) + 1) by lia.
    replace (4 * j + 2 - 4 * dist) with (4 * (j - dist) + 2) by lia. replace (4 * j + 3 - 4 * dist) with (4 * (j - dist) + 3) by lia.
    reflexivity.
Qed.

(* ------------------------------------------------------------------------------------------------ *)
(** * ARGB pixels and R,G,B,A bytes *)
Definition pix32 (p : Z) : Prop := 0 <= p < 2 ^ 32.
Definition px_of (p : Z) : px4 := (V.RED p, V.GREEN p, V.BLUE p, V.ALPHA p).

Lemma chan_argb a r g b : byte a -> byte r -> byte g -> byte b ->
  V.ALPHA (V.argb a r g b) = a /\ V.RED (V.argb a r g b) = r /\ V.GREEN (V.argb a r g b) = g /\ V.BLUE (V.argb a r g b) = b /\
  pix32 (V.argb a r g b).
Proof.
  unfold byte, pix32, V.ALPHA, V.RED, V.GREEN, V.BLUE, V.argb. intros Ha Hr Hg Hb.
  rewrite !Z.shiftr_div_pow2 by lia. change (2 ^ 24) with 16777216. change (2 ^ 16) with 65536. change (2 ^ 8) with 256.
  change (2 ^ 32) with 4294967296. change 255 with (Z.ones 8). rewrite !Z.land_ones by lia. change (2 ^ 8) with 256. lia.
Qed.

Lemma px_of_argb a r g b : byte a -> byte r -> byte g -> byte b -> px_of (V.argb a r g b) = (r, g, b, a).
Proof. intros Ha Hr Hg Hb. destruct (chan_argb a r g b Ha Hr Hg Hb) as (E1 & E2 & E3 & E4 & _). unfold px_of. rewrite E1, E2, E3, E4. reflexivity. Qed.

Lemma chan_byte p : byte (V.ALPHA p) /\ byte (V.RED p) /\ byte (V.GREEN p) /\ byte (V.BLUE p).
Proof.
  unfold byte, V.ALPHA, V.RED, V.GREEN, V.BLUE. change 255 with (Z.ones 8). rewrite !Z.land_ones by lia.
  change (2 ^ 8) with 256. change (Z.ones 8) with 255. repeat split; lia.
Qed.

Lemma argb_chan p : pix32 p -> V.argb (V.ALPHA p) (V.RED p) (V.GREEN p) (V.BLUE p) = p.
Proof.
  unfold pix32, V.ALPHA, V.RED, V.GREEN, V.BLUE, V.argb. intros Hp.
  rewrite !Z.shiftr_div_pow2 by lia. change (2 ^ 24) with 16777216. change (2 ^ 16) with 65536. change (2 ^ 8) with 256.
  change (2 ^ 32) with 4294967296 in Hp. change 255 with (Z.ones 8). rewrite !Z.land_ones by lia. change (2 ^ 8) with 256. lia.
Qed.

(* the u32 the decoder hashes is the ARGB value *)
Lemma color_u32 r g b a : byte r -> byte g -> byte b -> byte a ->
  Z.lor (Z.lor (Z.lor (Z.shiftl r 16) (Z.shiftl g 8)) b) (Z.shiftl a 24) = V.argb a r g b.
Proof.
  unfold byte, V.argb. intros Hr Hg Hb Ha. rewrite !Z.shiftl_mul_pow2 by lia.
  rewrite (Z.lor_comm (r * 2 ^ 16)). rewrite (lor_low_high (g * 2 ^ 8) r 16) by (change (2 ^ 16) with 65536; change (2 ^ 8) with 256; lia).
  rewrite (Z.lor_comm _ b). replace (g * 2 ^ 8 + r * 2 ^ 16) with ((g + r * 2 ^ 8) * 2 ^ 8) by (change (2 ^ 16) with (2 ^ 8 * 2 ^ 8); ring).
  rewrite (lor_low_high b (g + r * 2 ^ 8) 8) by (change (2 ^ 8) with 256; lia).
  rewrite (lor_low_high _ a 24) by (change (2 ^ 24) with 16777216; change (2 ^ 8) with 256; lia).
  change (2 ^ 24) with 16777216. change (2 ^ 8) with 256. lia.
Qed.

Lemma u8_byte x : byte x -> u8 x = x.
Proof. unfold byte, u8. intros H. apply Z.mod_small. lia. Qed.

(* ------------------------------------------------------------------------------------------------ *)
(** * the colour cache *)
Definition s_ins (bits : Z) (cache : arr) (color : Z) : arr :=
  if bits =? 0 then cache else V.set_pix cache (V.cache_index bits color) color.

Definition cache_rel (bits : Z) (sc : arr) (mc : option color_cache) : Prop :=
  match mc with
  | None => bits = 0
  | Some c => bits = cbits c /\ 1 <= bits <= 11 /\ vzlen (ccache c) = 2 ^ bits /\
              forall k, 0 <= k < 2 ^ bits -> vz (ccache c) k = px_of (V.pix sc k) /\ pix32 (V.pix sc k)
  end.

Lemma cache_index_range bits p : 1 <= bits <= 11 -> 0 <= V.cache_index bits p < 2 ^ bits.
Proof.
  intros Hb. unfold V.cache_index. change 4294967295 with (Z.ones 32). rewrite Z.land_ones by lia.
  pose proof (Z.mod_pos_bound (506832829 * p) (2 ^ 32) ltac:(lia)) as Hm.
  rewrite Z.shiftr_div_pow2 by lia. assert (Hp : 0 < 2 ^ (32 - bits)) by (apply Z.pow_pos_nonneg; lia).
  split; [apply Z.div_pos; lia|]. apply Z.div_lt_upper_bound; [lia|]. rewrite <- Z.pow_add_r by lia.
  replace (32 - bits + bits) with 32 by lia. lia.
Qed.

Lemma cache_insert_rel bits sc c p : cache_rel bits sc (Some c) -> pix32 p ->
  exists c', cache_insert c (px_of p) = Ok c' /\ cache_rel bits (s_ins bits sc p) (Some c').
Proof.
  intros (Hb & Hr & Hl & Hz) Hp. unfold px_of, cache_insert.
  destruct (chan_byte p) as (Ba & Br & Bg & Bb). rewrite (color_u32 _ _ _ _ Br Bg Bb Ba), (argb_chan p Hp).
  unfold usub. replace (32 <? cbits c) with false by (symmetry; apply Z.ltb_ge; lia). cbn [bind].
  replace (32 <=? 32 - cbits c) with false by (symmetry; apply Z.leb_gt; lia).
  assert (Hidx : Z.shiftr ((506832829 * p) mod 2 ^ 32) (32 - cbits c) = V.cache_index bits p).
  { unfold V.cache_index. change 4294967295 with (Z.ones 32). rewrite Z.land_ones by lia. rewrite Hb. reflexivity. }
  rewrite Hidx. pose proof (cache_index_range bits p Hr) as Hir.
  destruct (vset_ok (ccache c) (V.cache_index bits p) (V.RED p, V.GREEN p, V.BLUE p, V.ALPHA p) ltac:(lia)) as (v' & E & L & Zv).
  rewrite E. cbn [bind]. eexists. split; [reflexivity|]. unfold cache_rel. cbn [cbits ccache].
  split; [exact Hb|]. split; [exact Hr|]. split; [lia|]. intros k Hk. rewrite (Zv k ltac:(lia)).
  unfold s_ins. replace (bits =? 0) with false by (symmetry; apply Z.eqb_neq; lia).
  rewrite pix_set_pix by lia. rewrite (Z.eqb_sym k). destruct (V.cache_index bits p =? k); [split; [reflexivity | exact Hp] | apply Hz; exact Hk].
Qed.

Lemma cache_lookup_rel bits sc c k : cache_rel bits sc (Some c) -> 0 <= k < 2 ^ bits ->
  cache_lookup c k = Ok (px_of (V.pix sc k)) /\ pix32 (V.pix sc k).
Proof.
  intros (Hb & Hr & Hl & Hz) Hk. unfold cache_lookup. rewrite vget_ok by lia. destruct (Hz k Hk) as [E Hp]. rewrite E. auto.
Qed.

Lemma cache_rel_ext bits sc sc' mc : (forall k, 0 <= k -> V.pix sc' k = V.pix sc k) -> cache_rel bits sc mc -> cache_rel bits sc' mc.
Proof.
  intros He H. destruct mc as [c|]; [|exact H]. destruct H as (Hb & Hr & Hl & Hz).
  split; [exact Hb|]. split; [exact Hr|]. split; [exact Hl|]. intros k Hk. rewrite He by lia. apply Hz. exact Hk.
Qed.

Lemma cache_rel_init bits : 1 <= bits <= 11 -> cache_rel bits (amake (Z.to_N (2 ^ bits))) (Some (cache_new bits)).
Proof.
  intros Hb. unfold cache_rel, cache_new. cbn [cbits ccache]. split; [reflexivity|]. split; [exact Hb|]. split.
  - unfold vzlen, vmake. cbn [vlen]. rewrite Z.shiftl_1_l. rewrite Z2N.id; [reflexivity | apply Z.pow_nonneg; lia].
  - intros k Hk. unfold vz, vraw, vmake. cbn [vdata vdef]. rewrite PM.gempty.
    unfold V.pix, araw, amake. cbn [adata]. rewrite PM.gempty. split; [reflexivity|]. unfold pix32. lia.
Qed.

(* re-inserting what is already there changes nothing *)
Lemma s_ins_same bits sc p : (bits <> 0 -> V.pix sc (V.cache_index bits p) = p) -> 0 <= bits <= 11 ->
  forall k, 0 <= k -> V.pix (s_ins bits sc p) k = V.pix sc k.
Proof.
  intros H Hb k Hk. unfold s_ins. destruct (Z.eqb_spec bits 0) as [E|E]; [reflexivity|].
  pose proof (cache_index_range bits p ltac:(lia)). rewrite pix_set_pix by lia.
  destruct (Z.eqb_spec (V.cache_index bits p) k) as [<-|]; [symmetry; apply H; exact E | reflexivity].
Qed.

Lemma s_ins_last bits sc p : bits <> 0 -> 0 <= bits <= 11 -> V.pix (s_ins bits sc p) (V.cache_index bits p) = p.
Proof.
  intros E Hb. unfold s_ins. replace (bits =? 0) with false by (symmetry; apply Z.eqb_neq; exact E).
  pose proof (cache_index_range bits p ltac:(lia)). rewrite pix_set_pix by lia. rewrite Z.eqb_refl. reflexivity.
Qed.

(* ------------------------------------------------------------------------------------------------ *)
(** * the specification's `run` is plain bounded iteration *)
Section Iter.
  Context {St : Type} (finished : St -> bool) (step : St -> option St).

  Fixpoint iterN (n : nat) (s : St) : option St :=
    match n with
    | O => Some s
    | S k => if finished s then Some s else match step s with Some s' => iterN k s' | None => None end
    end.

  Lemma iterN_finished n s : finished s = true -> iterN n s = Some s.
  Proof. intros H. destruct n; cbn [iterN]; [reflexivity | rewrite H; reflexivity]. Qed.

  Lemma iterN_add a : forall b s, iterN (a + b) s = match iterN a s with Some s1 => iterN b s1 | None => None end.
  Proof.
    induction a as [|a IH]; intros b s; [reflexivity|]. cbn [Nat.add iterN].
    destruct (finished s) eqn:E; [symmetry; apply iterN_finished; exact E|].
    destruct (step s) as [s'|]; [apply IH | reflexivity].
  Qed.

  Lemma run_iterN : forall p s, V.run finished step p s = iterN (Pos.to_nat p) s.
  Proof.
    induction p as [q IH|q IH|]; intros s.
    - rewrite Pos2Nat.inj_xI. cbn [V.run iterN]. destruct (finished s); [reflexivity|].
      destruct (step s) as [s1|]; [|reflexivity]. replace (2 * Pos.to_nat q)%nat with (Pos.to_nat q + Pos.to_nat q)%nat by lia.
      rewrite iterN_add, IH. destruct (iterN (Pos.to_nat q) s1); [apply IH | reflexivity].
    - rewrite Pos2Nat.inj_xO. cbn [V.run]. replace (2 * Pos.to_nat q)%nat with (Pos.to_nat q + Pos.to_nat q)%nat by lia.
      rewrite iterN_add. destruct (finished s) eqn:E.
      + rewrite iterN_finished by exact E. rewrite iterN_finished by exact E. reflexivity.
      + rewrite IH. destruct (iterN (Pos.to_nat q) s); [apply IH | reflexivity].
    - cbn [V.run iterN]. change (Pos.to_nat 1) with 1%nat. cbn [iterN]. destruct (finished s); [reflexivity|].
      destruct (step s); reflexivity.
  Qed.

  Lemma iterN_step n s s1 : finished s = false -> step s = Some s1 -> iterN (S n) s = iterN n s1.
  Proof. intros H1 H2. cbn [iterN]. rewrite H1, H2. reflexivity. Qed.

  Lemma iterN_fail n s : finished s = false -> step s = None -> iterN (S n) s = None.
  Proof. intros H1 H2. cbn [iterN]. rewrite H1, H2. reflexivity. Qed.
End Iter.

(* ------------------------------------------------------------------------------------------------ *)
(** * LZ77 prefix values and the distance map *)
(* "enough bits": at least k valid bits in the reservoir, or nothing left to pull *)
Definition lvl (k : Z) (r : BitReader.t) : Prop := k <= nbits r \/ data r = [].

Definition lz_extra (pc : Z) : Z := if pc <? 4 then 0 else (pc - 2) / 2.

Theorem get_copy_distance_refines st r pc : Rel st r -> 0 <= pc < 40 -> lvl (lz_extra pc) r ->
  match V.read_lz77_value pc st with
  | Some (v, st') => exists r', get_copy_distance r pc = Ok (v, r') /\ Rel st' r' /\ data r' = data r /\
                                nbits r' = nbits r - lz_extra pc /\ 1 <= v
  | None => get_copy_distance r pc = Err EBitStreamError
  end.
Proof.
  intros HRel Hpc Hlvl. unfold V.read_lz77_value, get_copy_distance, lz_extra in *. destruct (pc <? 4) eqn:E4.
  - exists r. split; [reflexivity|]. split; [exact HRel|]. split; [reflexivity|]. split; lia.
  - apply Z.ltb_ge in E4. rewrite Z.shiftr_div_pow2 by lia. change (2 ^ 1) with 2.
    set (e := (pc - 2) / 2) in *. assert (He : 1 <= e <= 18) by (unfold e; lia).
    replace (255 <? e) with false by (symmetry; apply Z.ltb_ge; lia).
    rewrite land1, Z.shiftl_mul_pow2 by lia.
    unfold Rel in HRel. set (l := sbits st) in *. pose proof (RelB_nbits l r HRel) as [Hnb Hnl].
    destruct (Z_le_gt_dec e (nbits r)) as [Hle|Hgt].
    + destruct (read_bits_some (Z.to_nat e) st ltac:(fold l; lia)) as (st' & Es & Hs'). rewrite Es. fold l in Hs'.
      rewrite (peek_RelB l r e HRel ltac:(lia)). cbn [bind].
      destruct (consume_RelB l r e HRel ltac:(lia)) as (r' & Ec & HR' & Hn' & Hd'). rewrite Ec. cbn [bind].
      pose proof (firstn_val_range (Z.to_nat e) l) as Hv. fold l.
      assert (0 < 2 ^ e) by (apply Z.pow_pos_nonneg; lia).
      exists r'. split; [reflexivity|]. split; [unfold Rel; rewrite Hs'; exact HR'|]. split; [exact Hd'|]. split; [exact Hn'|]. nia.
    + destruct Hlvl as [Hl|Hl]; [lia|]. pose proof (RelB_exhausted l r HRel Hl).
      rewrite (read_bits_none (Z.to_nat e) st) by (fold l; lia).
      unfold peek. replace ((e <? 0) || (64 <=? e)) with false
        by (symmetry; apply orb_false_iff; split; [apply Z.ltb_ge | apply Z.leb_gt]; lia).
      cbn [bind]. rewrite consume_short by lia. reflexivity.
Qed.

Lemma lz_extra_range pc : 0 <= pc < 40 -> 0 <= lz_extra pc <= 18.
Proof. intros H. unfold lz_extra. destruct (pc <? 4) eqn:E; [lia|]. apply Z.ltb_ge in E. lia. Qed.

Lemma lz_extra_len pc : 0 <= pc < 24 -> 0 <= lz_extra pc <= 10.
Proof. intros H. unfold lz_extra. destruct (pc <? 4) eqn:E; [lia|]. apply Z.ltb_ge in E. lia. Qed.

Lemma distance_map_same :
  forallb (fun i => match nth_error lossless_DISTANCE_MAP (Z.to_nat i), V.lookup V.distance_map i with
                    | Some [x; y], Some (x', y') => (x =? x') && (y =? y')
                    | _, _ => false
                    end) (zrange 120 0) = true.
Proof. vm_compute. reflexivity. Qed.

Theorem plane_code_refines w pc : 1 <= pc -> plane_code_to_distance w pc = Ok (V.distance_of_code w pc).
Proof.
  intros Hpc. unfold plane_code_to_distance, V.distance_of_code. rewrite Z.gtb_ltb.
  destruct (120 <? pc) eqn:E; [reflexivity|]. apply Z.ltb_ge in E.
  unfold usub. replace (pc <? 1) with false by (symmetry; apply Z.ltb_ge; lia). cbn [bind].
  pose proof (forallb_zrange _ 120 0 distance_map_same (pc - 1) ltac:(lia)) as H. cbn beta in H.
  destruct (nth_error lossless_DISTANCE_MAP (Z.to_nat (pc - 1))) as [[|x [|y [|z t]]]|]; try discriminate.
  destruct (V.lookup V.distance_map (pc - 1)) as [[x' y']|]; [|discriminate].
  apply andb_true_iff in H. destruct H as [H1 H2]. apply Z.eqb_eq in H1. apply Z.eqb_eq in H2. subst x' y'.
  destruct (Z.ltb_spec (x + y * w) 1); f_equal; lia.
Qed.

Lemma distance_of_code_pos w pc : 1 <= pc -> 1 <= V.distance_of_code w pc.
Proof.
  intros H. unfold V.distance_of_code. destruct (pc >? 120) eqn:E; [apply Z.gtb_lt in E; lia|].
  destruct (V.lookup V.distance_map (pc - 1)) as [[x y]|]; lia.
Qed.
