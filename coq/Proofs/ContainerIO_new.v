(* C10, container layer over an abstract reader: the refinement of Proofs/ContainerIO_refine.v carried through
   read_extended_header, read_chunk, the chunk scan, the first-frame loop, WebPDecoder::new and the metadata getters.
   Main statements: [sim_new], [sim_read_chunk_in]; the theorems in their final form are in ContainerIO_main.v. *)
From Coq Require Import ZArith List Bool Lia.
From WebP Require Import Lib.Res Lib.ZBits Spec.Container Proofs.Container_bytes Proofs.Container_safety.
From WebP Require Import Model.Container Model.ContainerIO Proofs.ContainerIO_prims Proofs.ContainerIO_laws
  Proofs.ContainerIO_refine.
Import ListNotations.
Open Scope Z_scope.

(* ---------------------------------------------------------------------------------------------- *)
(* small additions to the kit                                                                       *)
(* ---------------------------------------------------------------------------------------------- *)
Lemma Sim_bind_lift' {A A' B'} d (R' : A' -> rstate -> B' -> Prop) (r : res A) (f : A -> M A') s (g : A -> res B') :
  noerr r -> (forall a, r = Ok a -> Sim d R' (f a) s (g a)) -> Sim d R' (bind (lift r) f) s (Res.bind r g).
Proof.
  intros Hr Hf Hok. unfold bind, handle, lift. destruct r as [a|e|p|]; cbn [of_res Res.bind noerr] in *.
  - apply Hf; [reflexivity | exact Hok].
  - contradiction.
  - cbn [fst snd rel]. split; [apply frame_refl; apply Hok | reflexivity].
  - cbn [fst snd rel]. split; [apply frame_refl; apply Hok | exact I].
Qed.

Lemma Sim_panic {A B} d (R : A -> rstate -> B -> Prop) p s : Sim d R (fun s => (IPanic p, s)) s (Panic p).
Proof. intros Hok. cbn [fst snd rel]. split; [apply frame_refl; apply Hok | reflexivity]. Qed.
Lemma Sim_oof {A B} d (R : A -> rstate -> B -> Prop) s : Sim d R (fun s => (IOutOfFuel, s)) s OutOfFuel.
Proof. intros Hok. cbn [fst snd rel]. split; [apply frame_refl; apply Hok | exact I]. Qed.
Lemma Sim_fail_io {A B} d (R : A -> rstate -> B -> Prop) x e s : good_xerr x e -> Sim d R (fail x) s (Err e).
Proof. intros H Hok. cbn [fail fst snd rel]. split; [apply frame_refl; apply Hok | exact H]. Qed.

Lemma add_u64_inv a b v : add_u64 a b = Ok v -> v = a + b /\ a + b <= u64_max.
Proof. unfold add_u64. destruct (a + b <=? u64_max) eqn:E; [|discriminate]. intros H. apply Ok_inj in H. apply Z.leb_le in E. lia. Qed.
Lemma add_u32_inv a b v : add_u32 a b = Ok v -> v = a + b /\ a + b <= u32_max.
Proof. unfold add_u32. destruct (a + b <=? u32_max) eqn:E; [|discriminate]. intros H. apply Ok_inj in H. apply Z.leb_le in E. lia. Qed.
Lemma sub_u64_inv a b v : sub_u64 a b = Ok v -> v = a - b /\ b <= a.
Proof. unfold sub_u64. destruct (b <=? a) eqn:E; [|discriminate]. intros H. apply Ok_inj in H. apply Z.leb_le in E. lia. Qed.

(* chunk-table entries whose start is a valid argument of seek(SeekFrom::Start(_)) *)
Definition starts_ok (m : chunk_map) : Prop := Forall (fun kr => 0 <= fst (snd kr) <= u64_max) m.

Lemma starts_ok_lookup m k r : starts_ok m -> lookup k m = Some r -> 0 <= fst r <= u64_max.
Proof.
  induction m as [|[k' r'] m IH]; cbn [lookup]; [discriminate|]. intros H E. inversion H; subst.
  destruct (kind_eqb k k'); [inversion E; subst; assumption | apply IH; assumption].
Qed.

Lemma starts_ok_or_insert m k r : starts_ok m -> 0 <= fst r <= u64_max -> starts_ok (or_insert k r m).
Proof.
  intros H Hr. unfold or_insert. destruct (contains_key k m); [exact H|].
  apply Forall_app. split; [exact H|]. constructor; [exact Hr | constructor].
Qed.

(* read_chunk_header on a list of bytes: bounds of what it returns *)
Definition hdr_ok (d : list Z) (p : Z) (b : (chunk_kind * Z * Z) * Z) : Prop :=
  0 <= snd (fst (fst b)) <= 4294967295 /\ snd (fst (fst b)) <= snd (fst b) <= 4294967295 /\ snd b = p + 8
  /\ snd b <= MC.len d.

Lemma sim_rch d s p : all_bytes d = true -> r_pos s = p ->
  Sim d (fun a s' b => Rpos a s' b /\ hdr_ok d p b) read_chunk_header s (MC.read_chunk_header d p).
Proof.
  intros Hb Hp. apply Sim_pure_fact; [apply sim_read_chunk_header; exact Hp|].
  intros b E. destruct (read_chunk_header_cases d p Hb) as [(k & sz & rsz & E' & H1 & H2 & H3) | E'];
    rewrite E' in E; [|discriminate].
  apply Ok_inj in E. subst b. unfold hdr_ok. cbn [fst snd]. rewrite len_M. lia.
Qed.

Lemma sim_r3 d s p : all_bytes d = true -> r_pos s = p ->
  Sim d (fun a s' b => Rpos a s' b /\ 0 <= fst b <= 16777215) read_3_bytes s (MC.read_3_bytes d p).
Proof.
  intros Hb Hp. apply Sim_pure_fact; [apply sim_read_3_bytes; exact Hp|].
  intros b E. destruct (read_3_bytes_cases d p Hb) as [(v & E' & H1 & _) | E']; rewrite E' in E; [|discriminate].
  apply Ok_inj in E. subst b. exact H1.
Qed.

(* ---------------------------------------------------------------------------------------------- *)
(* read_extended_header                                                                             *)
(* ---------------------------------------------------------------------------------------------- *)
Ltac step L := eapply Sim_bind; [apply L; eassumption |];
  let a := fresh "a" in let s' := fresh "s" in let b := fresh "b" in let p := fresh "p" in
  let Hfr := fresh "Hfr" in let Hok := fresh "Hok" in let E1 := fresh "E" in let E2 := fresh "E" in
  intros a s' [b p] Hfr Hok [E1 E2]; cbn [fst snd] in E1, E2; subst a; cbv beta iota.

Ltac lstep H := apply Sim_bind_lift'; [first [apply noerr_add_u32 | apply noerr_add_u64 | apply noerr_sub_u64
                                                | apply noerr_sub_i64 | apply noerr_mul_u32] |];
  let a := fresh "v" in intros a H.

Lemma sim_read_extended_header d s p : r_pos s = p ->
  Sim d Rpos read_extended_header s (MC.read_extended_header d p).
Proof.
  intros Hp. unfold read_extended_header, MC.read_extended_header.
  step sim_read_u8. step sim_read_3_bytes. step sim_read_3_bytes. lstep Hw. step sim_read_3_bytes. lstep Hh.
  destruct (u32_max <? v * v0); [apply Sim_fail; discriminate|].
  apply Sim_ret. split; [reflexivity | assumption].
Qed.

(* ---------------------------------------------------------------------------------------------- *)
(* read_chunk                                                                                       *)
(* ---------------------------------------------------------------------------------------------- *)
Definition Rval {A} (a : A) (_ : rstate) (b : A) : Prop := a = b.

Lemma sim_read_chunk_in d s chunks k mx : starts_ok chunks ->
  Sim d Rval (read_chunk_in chunks k mx) s (MC.read_chunk_in d chunks k mx).
Proof.
  intros Hm. unfold read_chunk_in, MC.read_chunk_in.
  destruct (lookup k chunks) as [[rs re]|] eqn:El; [|apply Sim_ret; reflexivity].
  pose proof (starts_ok_lookup _ _ _ Hm El) as Hrs. cbn [fst] in Hrs.
  lstep Hsz. destruct (mx <? v); [apply Sim_fail; discriminate|].
  apply sub_u64_inv in Hsz.
  eapply Sim_bind_ok; [intros Hok; apply (seek_start_ok d s rs Hrs Hok)|].
  eapply Sim_bind; [apply (sim_read_exact d _ rs v); [reflexivity | lia]|].
  intros a s' [b p] _ _ [E1 E2]. cbn [fst snd] in *. subst a. cbv beta iota. apply Sim_ret. reflexivity.
Qed.

(* ---------------------------------------------------------------------------------------------- *)
(* the chunk scan                                                                                   *)
(* ---------------------------------------------------------------------------------------------- *)
Definition to_pure (i : IO.scan_state) (rp : Z) : MC.scan_state :=
  {| MC.s_rpos := rp; MC.s_position := IO.s_position i; MC.s_chunks := IO.s_chunks i;
     MC.s_num_frames := IO.s_num_frames i; MC.s_loop_duration := IO.s_loop_duration i;
     MC.s_is_lossy := IO.s_is_lossy i |}.

Definition st_ok (i : IO.scan_state) : Prop := 0 <= IO.s_position i /\ starts_ok (IO.s_chunks i).

Definition Rstep (a : IO.step) (s' : rstate) (b : MC.step) : Prop :=
  match a, b with
  | IO.Continue i', MC.Continue p' => p' = to_pure i' (r_pos s') /\ st_ok i'
  | IO.Break, MC.Break => True
  | _, _ => False
  end.

Ltac handle_with RR :=
  match goal with
  | |- Sim ?d ?R (handle ?m ?h) ?s ?body =>
      match body with
      | context [match ?pr with Ok _ => _ | Err _ => _ | Panic _ => _ | OutOfFuel => _ end] =>
          let pr' := fresh "pr" in
          set (pr' := pr);
          match goal with
          | |- Sim _ _ _ _ ?body' =>
              let f := (eval pattern pr' in body') in
              match f with ?hp _ => apply (Sim_handle d RR R m h s pr' hp) end
          end
      end
  end.

Lemma sim_scan_body d i s : all_bytes d = true -> st_ok i ->
  Sim d Rstep (IO.scan_body i) s (MC.scan_body d (to_pure i (r_pos s))).
Proof.
  intros Hb [Hpos Hst]. unfold IO.scan_body, MC.scan_body.
  cbn [to_pure MC.s_rpos MC.s_position MC.s_chunks MC.s_num_frames MC.s_loop_duration MC.s_is_lossy].
  handle_with (fun (a : chunk_kind * Z * Z) (s' : rstate) (b : (chunk_kind * Z * Z) * Z) => Rpos a s' b /\ hdr_ok d (r_pos s) b).
  { subst pr. apply sim_rch; [exact Hb | reflexivity]. }
  intros r s1 Er Hfr1 Hok1 Hrel. unfold rel in Hrel.
  destruct pr as [[[[chunk cs] csr] rp]|e|pp|] eqn:Epr; destruct r as [[[chunk' cs'] csr']|x|pp'|]; try contradiction.
  - (* a chunk header *)
    destruct Hrel as [[E1 E2] (B1 & B2 & B3 & _)]. cbn [fst snd] in *. inversion E1; subst chunk' cs' csr'. clear E1.
    lstep H1. lstep H2. lstep H3. lstep H4.
    apply add_u64_inv in H1, H2, H3, H4.
    assert (Hst' : starts_ok (if negb (is_unknown chunk) then or_insert chunk (v, v0) (IO.s_chunks i) else IO.s_chunks i)).
    { destruct (negb (is_unknown chunk)); [apply starts_ok_or_insert; [exact Hst | cbn [fst]; lia] | exact Hst]. }
    destruct (kind_eqb chunk KANMF).
    + lstep H5. destruct (cs <? 24); [apply Sim_fail; discriminate|].
      eapply Sim_bind; [apply sim_seek_relative; exact E2|]. intros [] s2 p2 _ _ Ep2. cbv beta iota.
      step sim_read_u32_le.
      destruct (negb (IO.s_is_lossy i)).
      * step sim_read_chunk_header. destruct b0 as [[sub ?] ?]. lstep H6.
        eapply Sim_bind; [apply sim_seek_relative; eassumption|]. intros [] s5 p5 _ _ Ep5. cbv beta iota.
        apply Sim_ret. cbn [Rstep]. split; [subst p5; reflexivity|]. split; cbn [IO.s_position IO.s_chunks]; [lia | exact Hst'].
      * lstep H6.
        eapply Sim_bind; [apply sim_seek_relative; eassumption|]. intros [] s5 p5 _ _ Ep5. cbv beta iota.
        apply Sim_ret. cbn [Rstep]. split; [subst p5; reflexivity|]. split; cbn [IO.s_position IO.s_chunks]; [lia | exact Hst'].
    + eapply Sim_bind; [apply sim_seek_relative; exact E2|]. intros [] s2 p2 _ _ Ep2. cbv beta iota.
      apply Sim_ret. cbn [Rstep]. split; [subst p2; reflexivity|]. split; cbn [IO.s_position IO.s_chunks]; [lia | exact Hst'].
  - (* an I/O error: only UnexpectedEof is possible, and it ends the scan *)
    pose proof (read_chunk_header_results s) as Hres. rewrite <- Er in Hres.
    destruct Hrel as (He & Hx1 & Hx2).
    destruct x as [| | |e']; try contradiction; cbn [erase_err] in He; subst e.
    apply Sim_ret. exact I.
  - subst pp'. apply Sim_panic.
  - apply Sim_oof.
Qed.

Definition Rscan (a : IO.scan_state) (_ : rstate) (b : MC.scan_state) : Prop :=
  (exists rp, b = to_pure a rp) /\ st_ok a.

Lemma pure_scan_unfold fuel d maxp st :
  MC.scan (S fuel) d maxp st =
    if MC.s_position st <? maxp then
      Res.bind (MC.scan_body d st) (fun stp => match stp with MC.Continue st' => MC.scan fuel d maxp st' | MC.Break => Ok st end)
    else Ok st.
Proof. cbn [MC.scan]. destruct (MC.s_position st <? maxp); [|reflexivity]. destruct (MC.scan_body d st) as [[st'|]| | |]; reflexivity. Qed.

Lemma sim_scan d maxp : all_bytes d = true -> forall fuel i s, st_ok i ->
  Sim d Rscan (IO.scan fuel maxp i) s (MC.scan fuel d maxp (to_pure i (r_pos s))).
Proof.
  intros Hb. induction fuel as [|fuel IH]; intros i s Hi.
  - cbn [IO.scan MC.scan]. apply Sim_oof.
  - rewrite pure_scan_unfold. cbn [IO.scan]. cbn [to_pure MC.s_position].
    destruct (IO.s_position i <? maxp).
    + eapply Sim_bind; [apply sim_scan_body; assumption|].
      intros a s' b _ _ HR. destruct a as [i'|], b as [p'|]; cbn [Rstep] in HR; try contradiction.
      * destruct HR as [-> Hi']. apply IH. exact Hi'.
      * apply Sim_ret. split; [eexists; reflexivity | exact Hi].
    + apply Sim_ret. split; [eexists; reflexivity | exact Hi].
Qed.

(* ---------------------------------------------------------------------------------------------- *)
(* the sub-chunks of the first frame                                                                *)
(* ---------------------------------------------------------------------------------------------- *)
Lemma sim_first_frame_loop d rend : all_bytes d = true -> forall n s position chunks, starts_ok chunks -> 0 <= position ->
  Sim d (fun a _ b => a = b /\ starts_ok a) (IO.first_frame_loop n rend position chunks) s
        (MC.first_frame_loop n d rend (r_pos s) position chunks).
Proof.
  intros Hb. induction n as [|n IH]; intros s position chunks Hm Hp; cbn [IO.first_frame_loop MC.first_frame_loop].
  - apply Sim_ret. split; [reflexivity | exact Hm].
  - eapply Sim_bind; [apply sim_rch; [exact Hb | reflexivity]|].
    intros [[sub ssz] srs] s1 [[[sub' ssz'] srs'] p1] _ _ [[E1 E2] (B1 & B2 & B3 & _)]. cbn [fst snd] in *.
    inversion E1; subst sub' ssz' srs'. clear E1. cbv beta iota.
    lstep H1. lstep H2. lstep H3. lstep H4. lstep H5.
    apply add_u64_inv in H1, H2, H3, H4, H5.
    assert (Hm' : starts_ok (or_insert sub (v, v0) chunks)) by (apply starts_ok_or_insert; [exact Hm | cbn [fst]; lia]).
    destruct (rend <? v3); [apply Sim_ret; split; [reflexivity | exact Hm']|].
    subst p1. apply IH; [exact Hm' | lia].
Qed.

(* ---------------------------------------------------------------------------------------------- *)
(* WebPDecoder::new                                                                                 *)
(* ---------------------------------------------------------------------------------------------- *)
Lemma Sim_lift_cursor {A} d (r : res A) s : Sim d Rval (lift_cursor r) s r.
Proof.
  intros Hok. unfold lift_cursor. cbn [fst snd]. split; [apply frame_refl; apply Hok|].
  destruct r as [a|e|p|]; cbn [of_res_cursor rel]; [reflexivity | | reflexivity | exact I].
  destruct e; cbn [rel]; unfold good_xerr; cbn [erase_err]; repeat split; congruence.
Qed.

Definition Rnew (d : list Z) (a : decoder) (_ : rstate) (b : decoder) : Prop :=
  a = b /\ starts_ok (d_chunks a) /\ d_data a = d.

(* the ANIM chunk *)
Lemma sim_anim d s info chunks : starts_ok chunks ->
  Sim d Rval
    (if e_animation info then
       handle (read_chunk_in chunks KANIM 6) (fun r =>
         match r with
         | IOk (Some chunk) => lift_cursor (parse_anim info chunks chunk)
         | IOk None => fail (XDec EChunkMissing)
         | IErr (XDec EMemoryLimitExceeded) => fail (XDec EInvalidChunkSize)
         | IErr e => fail e
         | IPanic pk => fun s => (IPanic pk, s)
         | IOutOfFuel => fun s => (IOutOfFuel, s)
         end)
     else ret (info, Times 1, 0)) s
    (if e_animation info then
       match MC.read_chunk_in d chunks KANIM 6 with
       | Ok (Some chunk) => parse_anim info chunks chunk
       | Ok None => Err EChunkMissing
       | Err EMemoryLimitExceeded => Err EInvalidChunkSize
       | Err e => Err e
       | Panic pk => Panic pk
       | OutOfFuel => OutOfFuel
       end
     else Ok (info, Times 1, 0)).
Proof.
  intros Hm. destruct (e_animation info); [|apply Sim_ret; reflexivity].
  handle_with (@Rval (option (list Z))).
  { subst pr. apply sim_read_chunk_in. exact Hm. }
  intros r s1 _ _ _ Hrel. unfold rel in Hrel.
  destruct pr as [[chunk|]|e|pp|]; destruct r as [[chunk'|]|x|pp'|]; try contradiction; try discriminate Hrel.
  - unfold Rval in Hrel. inversion Hrel; subst chunk'. apply Sim_lift_cursor.
  - apply Sim_fail. discriminate.
  - destruct Hrel as (He & Hx1 & Hx2).
    destruct x as [| | |e']; cbn [erase_err] in He; subst e; try contradiction.
    + apply Sim_fail_io. unfold good_xerr. cbn [erase_err]. repeat split; congruence.
    + apply Sim_fail_io. unfold good_xerr. cbn [erase_err]. repeat split; congruence.
    + destruct e'; apply Sim_fail_io; unfold good_xerr; cbn [erase_err]; repeat split; congruence.
  - subst pp'. apply Sim_panic.
  - apply Sim_oof.
Qed.

Lemma sim_new d s : all_bytes d = true -> MC.len d <= 9223372036854775807 -> r_pos s = 0 ->
  Sim d (Rnew d) IO.new s (MC.new d).
Proof.
  intros Hb Hlen Hp0. unfold IO.new, MC.new.
  eapply (Sim_bind_ok d _ get_data _ s d s).
  { intros Hok. unfold get_data. rewrite (proj1 Hok). split; [reflexivity | apply frame_refl; apply Hok]. }
  eapply Sim_bind; [apply sim_rch; [exact Hb | exact Hp0]|].
  intros [[riff riff_size] rr] s1 [[[riff' riff_size'] rr'] p1] _ _ [[E1 E2] (B1 & B2 & B3 & B4)]. cbn [fst snd] in *.
  inversion E1; subst riff' riff_size' rr'. clear E1. cbv beta iota.
  destruct (negb (kind_eqb riff KRIFF)); [apply Sim_fail; discriminate|].
  step sim_read_fourcc.
  destruct (negb (kind_eqb b KWEBP)); [apply Sim_fail; discriminate|].
  eapply Sim_bind; [apply sim_rch; [exact Hb | eassumption]|].
  intros [[chunk cs] csr] s3 [[[chunk' cs'] csr'] p3] _ Hok3 [[E3 E4] (C1 & C2 & C3 & C4)]. cbn [fst snd] in *.
  inversion E3; subst chunk' cs' csr'. clear E3. cbv beta iota.
  eapply Sim_bind_ok; [intros Hk; apply (stream_position_ok d s3 Hk); unfold u64_max; lia|].
  assert (Hs3 : 0 <= r_pos s3) by apply Hok3.
  set (s4 := set_pos_calls s3 (r_pos s3) (r_calls s3 + 1)).
  assert (Hp4 : r_pos s4 = p3) by exact E4.
  clearbody s4. rewrite E4 in *. clear E4.
  destruct chunk; try (apply Sim_fail; discriminate).
  - (* VP8 *)
    step sim_read_u24_le.
    destruct (negb (Z.land b0 1 =? 0)); [apply Sim_fail; discriminate|].
    eapply Sim_bind; [apply sim_read_exact; [eassumption | lia]|].
    intros magic s6 [magic' p6] _ _ [E5 E6]. cbn [fst snd] in *. subst magic'. cbv beta iota.
    destruct (negb (bytes_eqb magic [157; 1; 42])); [apply Sim_fail; discriminate|].
    step sim_read_u16_le. step sim_read_u16_le.
    destruct ((Z.land b1 16383 =? 0) || (Z.land b2 16383 =? 0)); [apply Sim_fail; discriminate|].
    lstep Hre. apply Sim_ret. split; [reflexivity|]. split; [|reflexivity].
    unfold mk_decoder. cbn [d_chunks]. constructor; [cbn [fst snd]; unfold u64_max; lia | constructor].
  - (* VP8L *)
    step sim_read_u8.
    destruct (negb (b0 =? 47)); [apply Sim_fail; discriminate|].
    step sim_read_u32_le.
    destruct (negb (Z.shiftr b1 29 =? 0)); [apply Sim_fail; discriminate|].
    lstep Hw. lstep Hh. lstep Hre. apply Sim_ret. split; [reflexivity|]. split; [|reflexivity].
    unfold mk_decoder. cbn [d_chunks]. constructor; [cbn [fst snd]; unfold u64_max; lia | constructor].
  - (* VP8X *)
    step sim_read_extended_header. rename b0 into info.
    lstep Hpos. lstep Hmax. apply add_u64_inv in Hpos.
    eapply Sim_bind_ok; [intros Hk; apply (seek_start_ok d); [lia | exact Hk]|].
    match goal with
    | |- Sim _ _ _ ?s6 _ =>
        eapply Sim_bind;
          [apply (sim_scan d v0 Hb (S (length d))
                    {| IO.s_position := v; IO.s_chunks := []; IO.s_num_frames := 0; IO.s_loop_duration := 0;
                       IO.s_is_lossy := false |} s6); split; [cbn [IO.s_position]; lia | constructor] |]
    end.
    intros st s7 pst _ _ [[rp ->] [Hst1 Hst2]].
    cbn [to_pure MC.s_chunks MC.s_is_lossy MC.s_num_frames MC.s_loop_duration].
    match goal with |- Sim _ _ (if ?c then _ else _) _ _ => destruct c end; [apply Sim_fail; discriminate|].
    eapply Sim_bind; [apply (sim_anim d s7 info (IO.s_chunks st) Hst2)|].
    intros [[info' lc] nfs] s8 b8 _ _ E8. unfold Rval in E8. subst b8. cbv beta iota.
    eapply Sim_bind with (R := fun a _ b => a = b /\ starts_ok a).
    { destruct (lookup KANMF (IO.s_chunks st)) as [[rstart rend]|] eqn:El.
      - pose proof (starts_ok_lookup _ _ _ Hst2 El) as Hrs. cbn [fst] in Hrs.
        lstep Hfp. apply add_u64_inv in Hfp.
        eapply Sim_bind_ok; [intros Hk; apply (seek_start_ok d); [lia | exact Hk]|].
        match goal with
        | |- Sim _ _ _ ?s9 _ => apply (sim_first_frame_loop d rend Hb 2 s9 v1 (IO.s_chunks st) Hst2); lia
        end.
      - apply Sim_ret. split; [reflexivity | exact Hst2]. }
    intros chunks s9 chunks' _ _ [-> Hc]. apply Sim_ret. split; [reflexivity|]. split; [exact Hc | reflexivity].
Qed.
