(* VP8 whole-frame decoding, part 4: the two halves speak about the same things.
     * per macroblock: VP8_frame_loop.mb_rel (parsing: the record = the reference's mbmode / mbres, reference numbering
       obtained FROM the crate's by ymode_of_rfc / bmode_of_rfc) implies VP8_recon_mb.mb_rel + res_rel +
       VP8_recon_frame.seg_rel (reconstruction: the crate's numbers = ymode_to_rfc / bmode_to_rfc OF the
       reference's, lengths, ranges, residual bounds) -- given the well-typedness of the record (VP8_decode_shape)
       and the well-formedness of the reference parse (VP8_decode_refwf);
     * per frame: rows_rel -> frame_rel;
     * header: header_rel (+ same_hdr) -> dims_rel / filt_rel of Model.Vp8Decode.recon_header; header_wf + the
       segment-base condition -> lf_valid. *)
From Coq Require Import ZArith Lia List Bool.
From WebP Require Import Lib.Res Gen.Tables Lib.ZBits Spec.BoolDec Spec.VP8Tables Spec.VP8 Model.ArithDec Model.Vp8Parse Model.Vp8Frame
  Model.Vp8Predict Model.Vp8Recon Model.Vp8Decode
  Proofs.VP8_parse_base Proofs.VP8_parse_coeffs Proofs.VP8_parse_mbheader Proofs.VP8_parse_residual Proofs.VP8_predict_sub
  Proofs.VP8_frame_header Proofs.VP8_frame_hdrthm Proofs.VP8_frame_loop
  Proofs.VP8_recon_mb Proofs.VP8_recon_frame Proofs.VP8_recon_filter Proofs.VP8_recon_example
  Proofs.VP8_decode_shape Proofs.VP8_decode_refwf.
Import ListNotations.
Open Scope Z_scope.

(* ---------- one macroblock ---------- *)
Lemma ymode_of_to_small x : 0 <= x <= 3 -> 0 <= ymode_of_rfc x <= 3 /\ ymode_to_rfc (ymode_of_rfc x) = x.
Proof. intros H. assert (E : x = 0 \/ x = 1 \/ x = 2 \/ x = 3) by lia. destruct E as [-> | [-> | [-> | ->]]]; vm_compute; repeat split; discriminate. Qed.

Theorem mb_bridge m r mb blocks :
  VP8_frame_loop.mb_rel m r (mb, blocks) -> rec_shape mb -> seg_ok m -> res_wf r ->
  VP8_recon_mb.mb_rel mb m /\ res_rel blocks r /\ seg_rel mb m r.
Proof.
  intros (Esid & _ & Eym & Euv & Ei4 & Eim & Enz & Ebl) ((Lb & Mb) & Hl & Hc) Hseg (Ly & Lu & Lv & Hbd).
  split; [|split].
  - unfold VP8_recon_mb.mb_rel.
    destruct (ymode_of_to_small _ Hc) as [Cr Ci]. rewrite Euv in Cr, Ci.
    split; [|split; [exact Cr | symmetry; exact Ci]].
    rewrite Ei4 in *. destruct (Z.eqb_spec (mb_luma_mode mb) 4) as [E4 | N4].
    + split; [exact E4|]. rewrite Eim. split; [rewrite map_length; exact Lb|]. split.
      * apply Forall_forall. intros x Hx. apply in_map_iff in Hx. destruct Hx as (y & <- & Hy).
        unfold modes_ok in Mb. rewrite Forall_forall in Mb. destruct (bmode_of_to y (Mb y Hy)) as (_ & _ & R). exact R.
      * rewrite map_map. rewrite <- (map_id (mb_bpred mb)) at 1. apply map_ext_in. intros y Hy.
        unfold modes_ok in Mb. rewrite Forall_forall in Mb. destruct (bmode_of_to y (Mb y Hy)) as (_ & R & _). symmetry. exact R.
    + destruct (ymode_of_to_small (mb_luma_mode mb) ltac:(lia)) as [Yr Yi]. rewrite Eym in Yr, Yi. split; [exact Yr | symmetry; exact Yi].
  - unfold res_rel. split; [exact Ly|]. split; [exact Lu|]. split; [exact Lv|]. split; [exact Ebl|].
    unfold bounded_blocks in Hbd. eapply Forall_impl; [|exact Hbd]. cbv beta. intros b [L F]. apply idct_res_ok; assumption.
  - unfold seg_rel, seg_ok in *. split; [exact Enz|]. split; [exact Esid | lia].
Qed.

(* ---------- one row, all rows ---------- *)
Lemma row_bridge ms rs recs : recs_rel ms rs recs -> recs_shape recs -> Forall seg_ok ms -> Forall res_wf rs ->
  row_rel recs ms rs /\ length recs = length ms.
Proof.
  induction 1 as [|m r [mb blocks] ms rs recs Hm _ IH]; intros Hs Hsg Hw; [split; [constructor | reflexivity]|].
  inversion Hs as [|? ? Hs0 Hs1]; subst. inversion Hsg as [|? ? Hg0 Hg1]; subst. inversion Hw as [|? ? Hw0 Hw1]; subst.
  destruct (IH Hs1 Hg1 Hw1) as [R L]. destruct (mb_bridge m r mb blocks Hm Hs0 Hg0 Hw0) as (A & B & C).
  split; [constructor; assumption | cbn [length]; lia].
Qed.

Theorem frame_bridge (h : header) mss rss recs : 0 <= mb_w h ->
  rows_rel mss rss recs -> recs_shape recs -> Forall (mrow_ok h) mss -> Forall (Forall res_wf) rss ->
  frame_rel (mb_w h) recs mss rss.
Proof.
  intros Hw. induction 1 as [|ms rs recs mss rss rest Hrow _ IH]; intros Hs Hm Hr; [constructor|].
  unfold recs_shape in Hs. apply Forall_app in Hs. destruct Hs as [Hs0 Hs1].
  inversion Hm as [|? ? [Lm Hg] Hm1]; subst. inversion Hr as [|? ? Hr0 Hr1]; subst.
  destruct (row_bridge ms rs recs Hrow Hs0 Hg Hr0) as [R L].
  constructor; [exact R | rewrite L, Lm; lia | apply IH; assumption].
Qed.

(* ---------- header ---------- *)
(* without the loop-filter delta flag the reference leaves both delta arrays zero (parse_header's `else` branches) *)
Lemma parse_header_no_lf_delta data h s parts : parse_header data = Some (h, s, parts) -> h_use_lf_delta h = false ->
  h_ref_lf_delta h = [0; 0; 0; 0] /\ h_mode_lf_delta h = [0; 0; 0; 0].
Proof.
  unfold parse_header. intros H.
  do 10 (destruct data as [|? data]; [discriminate H|]).
  repeat match type of H with
  | (if ?c then None else _) = Some _ => destruct c eqn:?; [discriminate H|]
  end.
  repeat match type of H with
  | (let '(_, _) := ?e in _) = Some _ => destruct e eqn:?
  | match ?e with Some _ => _ | None => None end = Some _ => destruct e eqn:?; [|discriminate H]
  end.
  injection H as <- _ _. cbn [h_use_lf_delta h_ref_lf_delta h_mode_lf_delta]. intros Hf.
  match goal with Hd : (if isone ?z then _ else _) = (_, _, _) |- _ => rewrite Hf in Hd; injection Hd as <- <- _ end.
  split; reflexivity.
Qed.

Theorem header_bridge data h s parts vh v :
  parse_header data = Some (h, s, parts) -> header_rel h vh -> same_hdr vh v ->
  dims_rel (recon_header v) h /\ filt_rel (recon_header v) h.
Proof.
  intros Hph (Hfr & Hw & Hh & _ & _ & Hse & _ & L4 & Hsegs & _ & Hrd & Hmd & _) Sh.
  unfold same_hdr, hdr_fields in Sh. injection Sh as E1 E2 E3 E4 E5 E6 E7 E8 E9 E10 E11 E12 E13 E14.
  destruct (parse_header_dims data h s parts Hph) as [Dw Dh].
  unfold recon_header, rhdr_of_vp8. split.
  - unfold dims_rel. cbn [rh_width rh_height rh_mbwidth rh_mbheight]. rewrite <- E1, <- E2, <- E3, Hfr, Hw, Hh. cbn [fi_width fi_height].
    repeat split; lia.
  - unfold filt_rel. cbn [rh_filter_type rh_filter_level rh_sharpness_level rh_segments_enabled rh_segment rh_ref_delta rh_mode_delta].
    rewrite <- E1, <- E4, <- E6, <- E11, <- E12, Hfr, Hse, Hrd, Hmd. cbn [fi_filter_type fi_filter_level fi_sharpness_level].
    repeat (split; [reflexivity|]). split; [|split].
    + intros seg Hseg. assert (Hn : (Z.to_nat seg < 4)%nat) by lia.
      exists (nth (Z.to_nat seg) (v_segment vh) Segment_default). split; [apply nth_error_nth'; lia|].
      destruct (Hsegs (Z.to_nat seg) Hn) as (_ & Elf & Edv & _). split; [exact Edv|]. rewrite Elf. rewrite Z2Nat.id by lia. reflexivity.
    + destruct (h_use_lf_delta h) eqn:Eu; [reflexivity|]. destruct (parse_header_no_lf_delta data h s parts Hph Eu) as [-> _]. reflexivity.
    + destruct (h_use_lf_delta h) eqn:Eu; [reflexivity|]. destruct (parse_header_no_lf_delta data h s parts Hph Eu) as [_ ->]. reflexivity.
Qed.

(* the one genuine side condition of the loop filter: the segment-adjusted base level is a legal level *)
Definition lf_base_ok (h : header) : Prop :=
  forall seg, 0 <= seg < 4 ->
  0 <= (if h_use_segment h then nthZ (h_seg_filter h) seg 0 + (if h_absolute h then 0 else h_level h) else h_level h) <= 63.
Definition lf_base_okb (h : header) : bool :=
  forallb (fun seg => let base := if h_use_segment h then nthZ (h_seg_filter h) seg 0 + (if h_absolute h then 0 else h_level h) else h_level h in
                      (0 <=? base) && (base <=? 63)) [0; 1; 2; 3].

Lemma lf_base_okb_spec h : lf_base_okb h = true -> lf_base_ok h.
Proof.
  unfold lf_base_okb, lf_base_ok. intros H seg Hseg. rewrite forallb_forall in H.
  assert (Hin : In seg [0; 1; 2; 3]) by (cbn [In]; lia). specialize (H seg Hin). cbv zeta in H.
  apply andb_true_iff in H. destruct H as [A B]. apply Z.leb_le in A, B. lia.
Qed.

Lemma nth4_range (P : Z -> Prop) (l : list Z) i : length l = 4%nat -> Forall P l -> 0 <= i < 4 -> P (nthZ l i 0).
Proof. intros L F Hi. rewrite Forall_forall in F. apply F. unfold nthZ. apply nth_In. lia. Qed.

Theorem lf_valid_bridge h : header_wf h -> lf_base_ok h -> lf_valid h.
Proof.
  intros (_ & _ & _ & _ & _ & _ & Hlv & Hsh & _ & _ & Lsf & Fsf & Lr & Fr & Lm & Fm & _) Hb.
  unfold lf_valid. split; [exact Hlv|]. split; [exact Hsh|].
  split; [exact (nth4_range _ _ 0 Lr Fr ltac:(lia))|]. split; [exact (nth4_range _ _ 0 Lm Fm ltac:(lia))|].
  intros seg Hseg. split; [exact (nth4_range _ _ seg Lsf Fsf Hseg) | exact (Hb seg Hseg)].
Qed.

(* ---------- the computable well-formedness check of VP8_recon_example holds whenever the relations do ---------- *)
Lemma wf_mb_b_of_rel mb m bl r : VP8_recon_mb.mb_rel mb m -> res_rel bl r -> seg_rel mb m r -> wf_mb_b m r = true.
Proof.
  intros (Hl & Hu & _) (Ly & Lu & Lv & _ & Hok) (_ & _ & Hs). unfold wf_mb_b. rewrite !andb_true_iff.
  repeat split; try (apply Z.leb_le; lia); try (apply Z.ltb_lt; lia); try (apply Nat.eqb_eq; assumption).
  - destruct (m_i4 m).
    + destruct Hl as (_ & L16 & F & _). apply andb_true_iff. split; [apply Nat.eqb_eq; exact L16|].
      apply forallb_forall. intros x Hx. rewrite Forall_forall in F. specialize (F x Hx). apply andb_true_iff. split; apply Z.leb_le; lia.
    + destruct Hl as (R & _). apply andb_true_iff. split; apply Z.leb_le; lia.
  - apply forallb_forall. intros b Hb. rewrite Forall_forall in Hok. specialize (Hok b Hb). unfold res_ok in Hok.
    apply forallb_forall. intros x Hx. rewrite Forall_forall in Hok. apply Z.leb_le. exact (Hok x Hx).
Qed.

Lemma wf_row_b_of_rel row ms rs : row_rel row ms rs -> wf_row_b ms rs = true.
Proof.
  induction 1 as [|mb bl m r inp ms rs Hm Hr Hsg _ IH]; [reflexivity|]. cbn [wf_row_b].
  rewrite (wf_mb_b_of_rel mb m bl r Hm Hr Hsg), IH. reflexivity.
Qed.

Theorem wf_frame_b_of_rel mbw inp mss rss : frame_rel mbw inp mss rss -> wf_frame_b mbw mss rss = true.
Proof.
  induction 1 as [|row inp ms rs mss rss Hrow Hlen _ IH]; [reflexivity|]. cbn [wf_frame_b].
  destruct (row_rel_length row ms rs Hrow) as [Lm _]. rewrite Lm, Hlen, Z.eqb_refl, (wf_row_b_of_rel row ms rs Hrow), IH. reflexivity.
Qed.
