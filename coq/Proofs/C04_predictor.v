(* C04 layer L5 (encoder side): what Model.Encoder.predictor_transform computes on the flat RGBA byte buffer, and its
   restatement on pixels in the form Proofs.C04_transforms.inverse_predictor_spec expects. *)
From Coq Require Import ZArith NArith List Bool Lia.
From WebP Require Import Lib.Res Lib.Arr Lib.ZBits Gen.Kernels Model.EncoderHeap Model.Encoder
  Proofs.Huffman_lists Proofs.C04_bits Proofs.C04_arr Proofs.C04_transforms.
Import ListNotations.
Open Scope Z_scope.

Lemma asub_ok a i j : (i < alen a)%N -> (j < alen a)%N ->
  exists a', asub a i j = Ok a' /\ alen a' = alen a /\ araw a' i = sub8 (araw a i) (araw a j)
             /\ forall k, k <> i -> araw a' k = araw a k.
Proof.
  intros Hi Hj. unfold asub. rewrite !aget_some by assumption.
  destruct (aset_some a i (sub8 (araw a i) (araw a j)) Hi) as [a' E]. rewrite E.
  exists a'. split; [reflexivity|]. split; [apply (alen_aset _ _ _ _ E)|]. split; [apply (araw_aset_eq _ _ _ _ E)|].
  intros k Hk. apply (araw_aset_neq _ _ _ _ k E). congruence.
Qed.

Lemma pred_row_spec : forall k a cur prev, (prev + N.of_nat k <= cur)%N -> (cur + N.of_nat k <= alen a)%N ->
  exists a', pred_row k a cur prev = Ok a' /\ alen a' = alen a /\
    forall j, araw a' j = if ((cur <=? j) && (j <? cur + N.of_nat k))%N
                          then sub8 (araw a j) (araw a (j - (cur - prev))%N) else araw a j.
Proof.
  induction k as [|k IH]; intros a cur prev H1 H2; cbn [pred_row].
  - exists a. split; [reflexivity|]. split; [reflexivity|]. intros j.
    replace ((cur <=? j) && (j <? cur + N.of_nat 0))%N with false; [reflexivity|].
    symmetry. apply andb_false_iff. destruct (cur <=? j)%N eqn:E; [right; apply N.ltb_ge; apply N.leb_le in E; lia | left; reflexivity].
  - destruct (asub_ok a cur prev ltac:(lia) ltac:(lia)) as [a1 [E1 [L1 [V1 O1]]]]. rewrite E1. cbn [bind].
    destruct (IH a1 (N.succ cur) (N.succ prev) ltac:(lia) ltac:(lia)) as [a' [E [L V']]].
    exists a'. split; [exact E|]. split; [lia|]. intros j. rewrite V'.
    destruct (N.eq_dec j cur) as [-> | Hne].
    + replace ((N.succ cur <=? cur) && (cur <? N.succ cur + N.of_nat k))%N with false
        by (symmetry; apply andb_false_iff; left; apply N.leb_gt; lia).
      replace ((cur <=? cur) && (cur <? cur + N.of_nat (S k)))%N with true
        by (symmetry; apply andb_true_iff; split; [apply N.leb_le | apply N.ltb_lt]; lia).
      rewrite V1. f_equal. f_equal. lia.
    + destruct ((N.succ cur <=? j) && (j <? N.succ cur + N.of_nat k))%N eqn:Ein.
      * apply andb_true_iff in Ein. destruct Ein as [Ea Eb]. apply N.leb_le in Ea. apply N.ltb_lt in Eb.
        replace ((cur <=? j) && (j <? cur + N.of_nat (S k)))%N with true
          by (symmetry; apply andb_true_iff; split; [apply N.leb_le | apply N.ltb_lt]; lia).
        rewrite !O1 by lia. f_equal. f_equal. lia.
      * replace ((cur <=? j) && (j <? cur + N.of_nat (S k)))%N with false; [apply O1; exact Hne|].
        symmetry. apply andb_false_iff. apply andb_false_iff in Ein.
        destruct Ein as [Ea | Eb]; [left; apply N.leb_gt in Ea; apply N.leb_gt; lia | right; apply N.ltb_ge in Eb; apply N.ltb_ge; lia].
Qed.

Lemma pred_rows_spec R : (0 < R)%N -> forall k a, ((N.of_nat k + 1) * R <= alen a)%N ->
  exists a', pred_rows k (N.of_nat k) a R = Ok a' /\ alen a' = alen a /\
    forall j, araw a' j = if ((R <=? j) && (j <? (N.of_nat k + 1) * R))%N
                          then sub8 (araw a j) (araw a (j - R)%N) else araw a j.
Proof.
  intros HR. induction k as [|k IH]; intros a Hlen; cbn [pred_rows].
  - exists a. split; [reflexivity|]. split; [reflexivity|]. intros j.
    replace ((R <=? j) && (j <? (N.of_nat 0 + 1) * R))%N with false; [reflexivity|].
    symmetry. apply andb_false_iff. destruct (R <=? j)%N eqn:E; [right; apply N.ltb_ge; apply N.leb_le in E; lia | left; reflexivity].
  - set (y := N.of_nat (S k)) in *. assert (Hy : (y - 1 = N.of_nat k)%N) by (unfold y; lia).
    assert (Hy1 : (1 <= y)%N) by (unfold y; lia).
    replace (((y - 1) * R + 2 * R <=? alen a)%N) with true by (symmetry; apply N.leb_le; nia).
    destruct (pred_row_spec (N.to_nat R) a (y * R)%N ((y - 1) * R)%N ltac:(nia) ltac:(nia)) as [a1 [E1 [L1 V1]]].
    rewrite E1. cbn [bind]. rewrite Hy.
    destruct (IH a1 ltac:(rewrite L1; nia)) as [a' [E [L V']]].
    exists a'. split; [exact E|]. split; [lia|]. intros j. rewrite V', !V1. rewrite N2Nat.id.
    replace (y * R - (y - 1) * R)%N with R by nia.
    destruct ((R <=? j) && (j <? (N.of_nat k + 1) * R))%N eqn:Ein.
    + apply andb_true_iff in Ein. destruct Ein as [Ea Eb]. apply N.leb_le in Ea. apply N.ltb_lt in Eb.
      replace ((y * R <=? j) && (j <? y * R + R))%N with false by (symmetry; apply andb_false_iff; left; apply N.leb_gt; nia).
      replace ((y * R <=? j - R) && (j - R <? y * R + R))%N with false by (symmetry; apply andb_false_iff; left; apply N.leb_gt; nia).
      replace ((R <=? j) && (j <? (y + 1) * R))%N with true
        by (symmetry; apply andb_true_iff; split; [apply N.leb_le | apply N.ltb_lt]; nia).
      reflexivity.
    + destruct ((y * R <=? j) && (j <? y * R + R))%N eqn:Ein2.
      * apply andb_true_iff in Ein2. destruct Ein2 as [Ea Eb]. apply N.leb_le in Ea. apply N.ltb_lt in Eb.
        replace ((R <=? j) && (j <? (y + 1) * R))%N with true
          by (symmetry; apply andb_true_iff; split; [apply N.leb_le | apply N.ltb_lt]; nia).
        reflexivity.
      * replace ((R <=? j) && (j <? (y + 1) * R))%N with false; [reflexivity|].
        symmetry. apply andb_false_iff. apply andb_false_iff in Ein, Ein2.
        destruct (R <=? j)%N eqn:ER; [right | left; reflexivity]. apply N.leb_le in ER. apply N.ltb_ge.
        destruct Ein as [Ea | Ea]; [discriminate|]. apply N.ltb_ge in Ea.
        destruct Ein2 as [Eb | Eb]; [apply N.leb_gt in Eb; nia | apply N.ltb_ge in Eb; nia].
Qed.

Lemma pred_first_row_spec : forall k a, (N.of_nat k + 3 < alen a)%N ->
  exists a', pred_first_row k (N.of_nat k + 3)%N a = Ok a' /\ alen a' = alen a /\
    forall j, araw a' j = if ((4 <=? j) && (j <=? N.of_nat k + 3))%N
                          then sub8 (araw a j) (araw a (j - 4)%N) else araw a j.
Proof.
  induction k as [|k IH]; intros a Hlen; cbn [pred_first_row].
  - exists a. split; [reflexivity|]. split; [reflexivity|]. intros j.
    replace ((4 <=? j) && (j <=? N.of_nat 0 + 3))%N with false; [reflexivity|].
    symmetry. apply andb_false_iff. destruct (4 <=? j)%N eqn:E; [right; apply N.leb_gt; apply N.leb_le in E; lia | left; reflexivity].
  - set (i := (N.of_nat (S k) + 3)%N) in *.
    destruct (asub_ok a i (i - 4)%N ltac:(lia) ltac:(lia)) as [a1 [E1 [L1 [V1 O1]]]]. rewrite E1. cbn [bind].
    replace (i - 1)%N with (N.of_nat k + 3)%N by (unfold i; lia).
    destruct (IH a1 ltac:(unfold i in *; lia)) as [a' [E [L V']]].
    exists a'. split; [exact E|]. split; [lia|]. intros j. rewrite V'.
    destruct (N.eq_dec j i) as [-> | Hne].
    + replace ((4 <=? i) && (i <=? N.of_nat k + 3))%N with false
        by (symmetry; apply andb_false_iff; right; apply N.leb_gt; unfold i; lia).
      replace ((4 <=? i) && (i <=? i))%N with true
        by (symmetry; apply andb_true_iff; split; apply N.leb_le; unfold i; lia).
      exact V1.
    + destruct ((4 <=? j) && (j <=? N.of_nat k + 3))%N eqn:Ein.
      * apply andb_true_iff in Ein. destruct Ein as [Ea Eb]. apply N.leb_le in Ea, Eb.
        replace ((4 <=? j) && (j <=? i))%N with true
          by (symmetry; apply andb_true_iff; split; apply N.leb_le; unfold i; lia).
        rewrite !O1 by (unfold i; lia). reflexivity.
      * replace ((4 <=? j) && (j <=? i))%N with false; [apply O1; exact Hne|].
        symmetry. apply andb_false_iff. apply andb_false_iff in Ein.
        destruct Ein as [Ea | Eb]; [left; exact Ea | right; apply N.leb_gt in Eb; apply N.leb_gt; unfold i; lia].
Qed.

(* the forward predictor on the flat buffer *)
Definition pred_byte (pixels : list Z) (R j : nat) : Z :=
  if (R <=? j)%nat then sub8 (nth j pixels 0) (nth (j - R) pixels 0)
  else if (4 <=? j)%nat then sub8 (nth j pixels 0) (nth (j - 4) pixels 0)
  else if (j =? 3)%nat then sub8 (nth 3 pixels 0) 255 else nth j pixels 0.

Theorem predictor_transform_spec pixels w h : 1 <= w -> 1 <= h -> length pixels = Z.to_nat (4 * w * h) ->
  exists out, predictor_transform pixels w h = Ok out /\ length out = length pixels /\
    forall j, (j < length pixels)%nat -> nth j out 0 = pred_byte pixels (Z.to_nat (4 * w)) j.
Proof.
  intros Hw Hh Hlen. unfold predictor_transform.
  set (a0 := of_list pixels). set (R := Z.to_N (w * 4)).
  assert (HR : (4 <= R)%N) by (unfold R; lia).
  assert (Hal : alen a0 = (Z.to_N h * R)%N) by (unfold a0, R; rewrite alen_of_list, Hlen; nia).
  replace (Z.to_N (h - 1)) with (N.of_nat (Z.to_nat (h - 1))) by lia.
  destruct (pred_rows_spec R ltac:(lia) (Z.to_nat (h - 1)) a0 ltac:(rewrite Hal; nia)) as [a1 [E1 [L1 V1]]].
  rewrite E1. cbn [bind].
  replace (R - 1)%N with (N.of_nat (N.to_nat (R - 4)) + 3)%N by lia.
  destruct (pred_first_row_spec (N.to_nat (R - 4)) a1 ltac:(rewrite L1, Hal; nia)) as [a2 [E2 [L2 V2]]].
  rewrite E2. cbn [bind].
  rewrite (aget_some a2 3%N) by (rewrite L2, L1, Hal; nia).
  destruct (aset_some a2 3%N (sub8 (araw a2 3%N) 255) ltac:(rewrite L2, L1, Hal; nia)) as [a3 E3]. rewrite E3.
  pose proof (alen_aset _ _ _ _ E3) as L3.
  eexists. split; [reflexivity|].
  assert (Hl3 : N.to_nat (alen a3) = length pixels) by (rewrite L3, L2, L1; unfold a0; rewrite alen_of_list; lia).
  split; [rewrite arr_to_list_length; exact Hl3|].
  intros j Hj. rewrite arr_to_list_nth by lia.
  assert (Ha0 : forall i, araw a0 (N.of_nat i) = nth i pixels 0) by (intros i; unfold a0; rewrite araw_of_list, Nat2N.id; reflexivity).
  unfold pred_byte. replace (Z.to_nat (4 * w)) with (N.to_nat R) by (unfold R; lia).
  assert (Hrows : (N.of_nat (Z.to_nat (h - 1)) + 1)%N = Z.to_N h) by lia.
  destruct (N.to_nat R <=? j)%nat eqn:ER.
  - apply Nat.leb_le in ER.
    rewrite (araw_aset_neq _ _ _ _ (N.of_nat j) E3) by lia. rewrite V2.
    replace ((4 <=? N.of_nat j) && (N.of_nat j <=? N.of_nat (N.to_nat (R - 4)) + 3))%N with false
      by (symmetry; apply andb_false_iff; right; apply N.leb_gt; lia).
    rewrite V1, Hrows.
    replace ((R <=? N.of_nat j) && (N.of_nat j <? Z.to_N h * R))%N with true
      by (symmetry; apply andb_true_iff; split; [apply N.leb_le | apply N.ltb_lt]; lia).
    replace (N.of_nat j - R)%N with (N.of_nat (j - N.to_nat R)) by lia. rewrite !Ha0. reflexivity.
  - apply Nat.leb_gt in ER.
    assert (Hlow : forall i, (i < N.to_nat R)%nat -> araw a1 (N.of_nat i) = nth i pixels 0).
    { intros i Hi. rewrite V1. replace ((R <=? N.of_nat i) && (N.of_nat i <? (N.of_nat (Z.to_nat (h - 1)) + 1) * R))%N with false
        by (symmetry; apply andb_false_iff; left; apply N.leb_gt; lia). apply Ha0. }
    destruct (4 <=? j)%nat eqn:E4.
    + apply Nat.leb_le in E4. rewrite (araw_aset_neq _ _ _ _ (N.of_nat j) E3) by lia. rewrite V2.
      replace ((4 <=? N.of_nat j) && (N.of_nat j <=? N.of_nat (N.to_nat (R - 4)) + 3))%N with true
        by (symmetry; apply andb_true_iff; split; apply N.leb_le; lia).
      replace (N.of_nat j - 4)%N with (N.of_nat (j - 4)) by lia. rewrite !Hlow by lia. reflexivity.
    + apply Nat.leb_gt in E4.
      assert (Hlow2 : forall i, (i < 4)%nat -> araw a2 (N.of_nat i) = nth i pixels 0).
      { intros i Hi. rewrite V2. replace ((4 <=? N.of_nat i) && (N.of_nat i <=? N.of_nat (N.to_nat (R - 4)) + 3))%N with false
          by (symmetry; apply andb_false_iff; left; apply N.leb_gt; lia). apply Hlow. lia. }
      destruct (j =? 3)%nat eqn:E3j.
      * apply Nat.eqb_eq in E3j. subst j. change (N.of_nat 3) with 3%N. rewrite (araw_aset_eq _ _ _ _ E3).
        change 3%N with (N.of_nat 3). rewrite Hlow2 by lia. reflexivity.
      * apply Nat.eqb_neq in E3j. rewrite (araw_aset_neq _ _ _ _ (N.of_nat j) E3) by lia. apply Hlow2. lia.
Qed.
