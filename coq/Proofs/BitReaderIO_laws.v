(* Laws of the operations of Model/BitReaderIO.v (the lossless bit reader over a reader whose fill_buf can fail once).

   FaultLaw m : for a state without armed fault, let m make the fill_buf calls [calls r, calls r') on its fault-free run.
     - arming a fault at a call index k inside that interval makes m return Err EIoFault after exactly k + 1 calls;
     - arming a fault at an index outside the interval changes nothing (same result, same state, fault still armed).
   The law is closed under bindM, so it holds for fill, read_bits, consume, peek+consume and therefore for every script step.

   Free refinement: without a fault the I/O-level step is Model/BitReader.step (same values, same failure, same reader state). *)
From Coq Require Import ZArith List Bool Lia.
From WebP Require Import Lib.Res Model.BitReader Model.BitReaderIO.
Import ListNotations.
Open Scope Z_scope.

(* the same state with a fault armed at fill_buf call k *)
Definition arm (k : Z) (r : iot) : iot := mkio (br r) (calls r) (Some k).

Definition FaultLaw {A} (m : M A) : Prop := forall r k, fail_at r = None ->
  fail_at (snd (m r)) = None /\ calls r <= calls (snd (m r)) /\
  (calls r <= k < calls (snd (m r)) ->
     exists r'', m (arm k r) = (Err EIoFault, r'') /\ calls r'' = k + 1 /\ fail_at r'' = Some k) /\
  (k < calls r \/ calls (snd (m r)) <= k -> m (arm k r) = (fst (m r), arm k (snd (m r)))).

Lemma FaultLaw_ret {A} (x : res A) : FaultLaw (retM x).
Proof.
  intros r k H. unfold retM. cbn [fst snd]. split; [assumption|]. split; [lia|]. split; [lia|]. reflexivity.
Qed.

Lemma FaultLaw_bind {A B} (m : M A) (f : A -> M B) :
  FaultLaw m -> (forall a, FaultLaw (f a)) -> FaultLaw (bindM m f).
Proof.
  intros Hm Hf r k H. destruct (Hm r k H) as (H1 & H2 & H3 & H4).
  unfold bindM. destruct (m r) as [x r1] eqn:Em. cbn [fst snd] in *.
  destruct x as [a| e | p | ].
  - destruct (Hf a r1 k H1) as (G1 & G2 & G3 & G4).
    destruct (f a r1) as [y r2] eqn:Ef. cbn [fst snd] in *.
    split; [assumption|]. split; [lia|]. split.
    + intros Hk. destruct (Z_lt_ge_dec k (calls r1)) as [Hlt|Hge].
      * destruct (H3 ltac:(lia)) as (r'' & E & C & F). rewrite E. eauto.
      * rewrite (H4 ltac:(lia)). apply G3. lia.
    + intros Hk. rewrite (H4 ltac:(lia)). rewrite (G4 ltac:(lia)). reflexivity.
  - split; [assumption|]. split; [assumption|]. split.
    + intros Hk. destruct (H3 Hk) as (r'' & E & C & F). rewrite E. eauto.
    + intros Hk. rewrite (H4 Hk). reflexivity.
  - split; [assumption|]. split; [assumption|]. split.
    + intros Hk. destruct (H3 Hk) as (r'' & E & C & F). rewrite E. eauto.
    + intros Hk. rewrite (H4 Hk). reflexivity.
  - split; [assumption|]. split; [assumption|]. split.
    + intros Hk. destruct (H3 Hk) as (r'' & E & C & F). rewrite E. eauto.
    + intros Hk. rewrite (H4 Hk). reflexivity.
Qed.

(* a choice that looks only at the bit-reader part of the state *)
Lemma FaultLaw_if {A} (c : BitReader.t -> bool) (m1 m2 : M A) :
  FaultLaw m1 -> FaultLaw m2 -> FaultLaw (fun r => if c (br r) then m1 r else m2 r).
Proof.
  intros H1 H2 r k H. cbn [arm br]. destruct (c (br r)); [apply H1 | apply H2]; assumption.
Qed.

Lemma FaultLaw_peek num : FaultLaw (peek_io num).
Proof.
  intros r k H. unfold peek_io. cbn [fst snd arm br]. split; [assumption|]. split; [lia|]. split; [lia|]. reflexivity.
Qed.

Lemma FaultLaw_consume num : FaultLaw (consume_io num).
Proof.
  intros [b c fa] k H. cbn [fail_at] in H. subst fa. unfold consume_io, arm. cbn [br calls fail_at].
  destruct (consume b num); cbn [fst snd br calls fail_at]; (split; [reflexivity|]; split; [lia|]; split; [lia|]; reflexivity).
Qed.

(* ---------- fill ---------- *)
Lemma fill_slow_io_law : forall d s buf nb c k,
  fst (fill_slow_io None d s buf nb c) = Ok tt /\
  fail_at (snd (fill_slow_io None d s buf nb c)) = None /\
  c <= calls (snd (fill_slow_io None d s buf nb c)) /\
  (c <= k < calls (snd (fill_slow_io None d s buf nb c)) ->
     exists r'', fill_slow_io (Some k) d s buf nb c = (Err EIoFault, r'') /\ calls r'' = k + 1 /\ fail_at r'' = Some k) /\
  (k < c \/ calls (snd (fill_slow_io None d s buf nb c)) <= k ->
     fill_slow_io (Some k) d s buf nb c = (Ok tt, arm k (snd (fill_slow_io None d s buf nb c)))).
Proof.
  induction d as [|b tl IH]; intros s buf nb c k; cbn [fill_slow_io].
  - cbn [fst snd fail_at calls]. split; [reflexivity|]. split; [reflexivity|]. split; [lia|]. split; [lia|]. reflexivity.
  - destruct (nb <? 56).
    + cbn [hits]. specialize (IH (List.tl s) (Z.lor buf (Z.shiftl b nb)) (nb + 8) (c + 1) k).
      destruct IH as (I1 & I2 & I3 & I4 & I5).
      split; [assumption|]. split; [assumption|]. split; [lia|].
      destruct (c =? k) eqn:E.
      * apply Z.eqb_eq in E. subst k. split.
        -- intros _. eexists. split; [reflexivity|]. cbn [calls fail_at]. auto.
        -- intros Hk. lia.
      * apply Z.eqb_neq in E. split.
        -- intros Hk. apply I4. lia.
        -- intros Hk. apply I5. lia.
    + cbn [fst snd fail_at calls]. split; [reflexivity|]. split; [reflexivity|]. split; [lia|]. split; [lia|]. reflexivity.
Qed.

Lemma FaultLaw_fill : FaultLaw fill_io.
Proof.
  intros [b c fa] k H. cbn [fail_at] in H. subst fa. unfold fill_io, arm. cbn [br calls fail_at hits].
  destruct (64 <=? nbits b).
  { cbn [fst snd br calls fail_at]. split; [reflexivity|]. split; [lia|]. split; [lia|]. reflexivity. }
  destruct (window_ge8 (data b) (sched b)).
  - cbn [fst snd br calls fail_at]. split; [reflexivity|]. split; [lia|]. split.
    + intros Hk. replace (c =? k) with true by (symmetry; apply Z.eqb_eq; lia).
      eexists. split; [reflexivity|]. cbn [calls fail_at]. split; [lia | reflexivity].
    + intros Hk. replace (c =? k) with false by (symmetry; apply Z.eqb_neq; lia). reflexivity.
  - destruct (fill_slow_io_law (data b) (List.tl (sched b)) (buffer b) (nbits b) (c + 1) k) as (I1 & I2 & I3 & I4 & I5).
    split; [assumption|]. split; [lia|]. split.
    + intros Hk. destruct (c =? k) eqn:E.
      * apply Z.eqb_eq in E. eexists. split; [reflexivity|]. cbn [calls fail_at]. split; [lia | reflexivity].
      * apply Z.eqb_neq in E. apply I4. lia.
    + intros Hk. replace (c =? k) with false by (symmetry; apply Z.eqb_neq; lia).
      rewrite (I5 ltac:(lia)). rewrite <- I1 at 1. reflexivity.
Qed.

Lemma FaultLaw_read_bits tb num : FaultLaw (read_bits_io tb num).
Proof.
  unfold read_bits_io. destruct ((tb <? num) || (32 <? num)); [apply FaultLaw_ret|].
  apply FaultLaw_bind.
  - apply (FaultLaw_if (fun b => nbits b <? num) fill_io (retM (Ok tt))); [apply FaultLaw_fill | apply FaultLaw_ret].
  - intros _. apply FaultLaw_bind; [apply FaultLaw_peek|]. intros v.
    apply FaultLaw_bind; [apply FaultLaw_consume|]. intros _.
    destruct (v mod 2 ^ 32 <? 2 ^ tb); apply FaultLaw_ret.
Qed.

Lemma FaultLaw_step o : FaultLaw (step_io o).
Proof.
  destruct o as [|tb n|n|n]; cbn [step_io].
  - apply FaultLaw_bind; [apply FaultLaw_fill | intros; apply FaultLaw_ret].
  - apply FaultLaw_bind; [apply FaultLaw_read_bits | intros; apply FaultLaw_ret].
  - apply FaultLaw_bind; [apply FaultLaw_consume | intros; apply FaultLaw_ret].
  - apply FaultLaw_bind; [apply FaultLaw_peek|]. intros v.
    apply FaultLaw_bind; [apply FaultLaw_consume | intros; apply FaultLaw_ret].
Qed.

(* ---------- without a fault the I/O-level operations are those of Model/BitReader.v ---------- *)
Definition erase {A} (x : res A) : res unit :=
  match x with Ok _ => Ok tt | Err e => Err e | Panic p => Panic p | OutOfFuel => OutOfFuel end.

Lemma fill_slow_io_free : forall d s buf nb c,
  exists c', fill_slow_io None d s buf nb c = (Ok tt, mkio (fill_slow d s buf nb) c' None).
Proof.
  induction d as [|b tl IH]; intros s buf nb c; cbn [fill_slow_io fill_slow].
  - eauto.
  - destruct (nb <? 56); [cbn [hits]; apply IH | eauto].
Qed.

Lemma fill_io_free r : fail_at r = None ->
  match fill (br r) with
  | Ok b' => exists c', fill_io r = (Ok tt, mkio b' c' None)
  | Err e => fst (fill_io r) = Err e
  | Panic p => fst (fill_io r) = Panic p
  | OutOfFuel => fst (fill_io r) = OutOfFuel
  end.
Proof.
  destruct r as [b c fa]. cbn [fail_at br]. intros ->. unfold fill, fill_io. cbn [br calls fail_at hits].
  destruct (64 <=? nbits b); [reflexivity|].
  destruct (window_ge8 (data b) (sched b)); [eauto|].
  apply fill_slow_io_free.
Qed.

Lemma consume_io_free r num : fail_at r = None ->
  match consume (br r) num with
  | Ok b' => consume_io num r = (Ok tt, mkio b' (calls r) None)
  | Err e => fst (consume_io num r) = Err e
  | Panic p => fst (consume_io num r) = Panic p
  | OutOfFuel => fst (consume_io num r) = OutOfFuel
  end.
Proof.
  destruct r as [b c fa]. cbn [fail_at br]. intros ->. unfold consume_io. cbn [br calls fail_at].
  destruct (consume b num); reflexivity.
Qed.

Lemma read_bits_io_free r tb num : fail_at r = None ->
  match read_bits (br r) tb num with
  | Ok (v, b') => exists c', read_bits_io tb num r = (Ok v, mkio b' c' None)
  | Err e => fst (read_bits_io tb num r) = Err e
  | Panic p => fst (read_bits_io tb num r) = Panic p
  | OutOfFuel => fst (read_bits_io tb num r) = OutOfFuel
  end.
Proof.
  intros H. unfold read_bits, read_bits_io.
  destruct ((tb <? num) || (32 <? num)); [reflexivity|].
  cbv beta delta [bindM].
  assert (H1 : match (if nbits (br r) <? num then fill (br r) else Ok (br r)) with
               | Ok b1 => exists c1, (if nbits (br r) <? num then fill_io r else (Ok tt, r)) = (Ok tt, mkio b1 c1 None)
               | Err e => fst (if nbits (br r) <? num then fill_io r else (Ok tt, r)) = Err e
               | Panic p => fst (if nbits (br r) <? num then fill_io r else (Ok tt, r)) = Panic p
               | OutOfFuel => fst (if nbits (br r) <? num then fill_io r else (Ok tt, r)) = OutOfFuel
               end).
  { destruct (nbits (br r) <? num); [apply fill_io_free; assumption|].
    exists (calls r). destruct r as [b c fa]. cbn [fail_at] in H. subst fa. reflexivity. }
  destruct (if nbits (br r) <? num then fill (br r) else Ok (br r)) as [b1| e | p | ]; cbn [bind].
  2-4: destruct (if nbits (br r) <? num then fill_io r else (Ok tt, r)) as [x r1]; cbn [fst] in H1; subst x; reflexivity.
  destruct H1 as (c1 & ->).
  cbv beta delta [bindM peek_io]. cbn [br].
  destruct (peek b1 num) as [v| e | p | ]; cbn [bind]; try reflexivity.
  cbv beta delta [bindM].
  pose proof (consume_io_free (mkio b1 c1 None) num eq_refl) as H2. cbn [br calls] in H2.
  destruct (consume b1 num) as [b2| e | p | ]; cbn [bind].
  2-4: destruct (consume_io num (mkio b1 c1 None)) as [x r2]; cbn [fst] in H2; subst x; reflexivity.
  rewrite H2. destruct (v mod 2 ^ 32 <? 2 ^ tb); unfold retM; cbn [fst]; eauto.
Qed.

Lemma step_io_free o r : fail_at r = None ->
  match step (br r) o with
  | Ok (vs, b') => exists c', step_io o r = (Ok vs, mkio b' c' None)
  | Err e => fst (step_io o r) = Err e
  | Panic p => fst (step_io o r) = Panic p
  | OutOfFuel => fst (step_io o r) = OutOfFuel
  end.
Proof.
  intros H. destruct o as [|tb n|n|n]; cbn [step step_io]; cbv beta delta [bindM].
  - pose proof (fill_io_free r H) as H1.
    destruct (fill (br r)) as [b'| e | p | ]; cbn [bind].
    + destruct H1 as (c' & ->). unfold retM. eauto.
    + destruct (fill_io r) as [x r1]; cbn [fst] in H1; subst x; reflexivity.
    + destruct (fill_io r) as [x r1]; cbn [fst] in H1; subst x; reflexivity.
    + destruct (fill_io r) as [x r1]; cbn [fst] in H1; subst x; reflexivity.
  - pose proof (read_bits_io_free r tb n H) as H1.
    destruct (read_bits (br r) tb n) as [[v b']| e | p | ]; cbn [bind].
    + destruct H1 as (c' & ->). unfold retM. eauto.
    + destruct (read_bits_io tb n r) as [x r1]; cbn [fst] in H1; subst x; reflexivity.
    + destruct (read_bits_io tb n r) as [x r1]; cbn [fst] in H1; subst x; reflexivity.
    + destruct (read_bits_io tb n r) as [x r1]; cbn [fst] in H1; subst x; reflexivity.
  - pose proof (consume_io_free r n H) as H1.
    destruct (consume (br r) n) as [b'| e | p | ]; cbn [bind].
    + rewrite H1. unfold retM. eauto.
    + destruct (consume_io n r) as [x r1]; cbn [fst] in H1; subst x; reflexivity.
    + destruct (consume_io n r) as [x r1]; cbn [fst] in H1; subst x; reflexivity.
    + destruct (consume_io n r) as [x r1]; cbn [fst] in H1; subst x; reflexivity.
  - cbv beta delta [peek_io]. destruct (peek (br r) n) as [v| e | p | ]; cbn [bind]; try reflexivity.
    cbv beta delta [bindM]. pose proof (consume_io_free r n H) as H1.
    destruct (consume (br r) n) as [b'| e | p | ]; cbn [bind].
    + rewrite H1. unfold retM. eauto.
    + destruct (consume_io n r) as [x r1]; cbn [fst] in H1; subst x; reflexivity.
    + destruct (consume_io n r) as [x r1]; cbn [fst] in H1; subst x; reflexivity.
    + destruct (consume_io n r) as [x r1]; cbn [fst] in H1; subst x; reflexivity.
Qed.
