(* VP8 frame-level parsing, part 0: byte strings, init_partitions = parse_partitions, and monotonicity of the reference
   boolean decoder (a reference state that has over-read stays over-read). *)
From Coq Require Import ZArith Lia List Bool.
From WebP Require Import Lib.Res Gen.Kernels Gen.Tables Lib.ZBits Proofs.C15_num Proofs.C15_ideal Proofs.C15_model
  Proofs.C15_ops Proofs.C15_reqs Proofs.C15_main Spec.RfcBoolDec Spec.BoolDec Spec.VP8Tables Spec.VP8 Model.ArithDec
  Model.Vp8Parse Proofs.VP8_tables Proofs.VP8_quant Proofs.VP8_parse_base Proofs.VP8_parse_coeffs Proofs.VP8_parse_mbheader Proofs.VP8_parse_header Proofs.VP8_parse_residual.
Import ListNotations.
Open Scope Z_scope.
Open Scope res_scope.

(* ---------- byte strings ---------- *)
Lemma take_rev_spec l : forall n acc, take_rev l n acc = (rev (firstn (Z.to_nat n) l) ++ acc, skipn (Z.to_nat n) l).
Proof.
  induction l as [|x l IH]; intros n acc; cbn [take_rev].
  - rewrite firstn_nil, skipn_nil. reflexivity.
  - destruct (Z.leb_spec n 0).
    + replace (Z.to_nat n) with 0%nat by lia. reflexivity.
    + rewrite IH. replace (Z.to_nat n) with (S (Z.to_nat (n - 1))) by lia. cbn [firstn skipn rev]. rewrite <- app_assoc. reflexivity.
Qed.

Lemma split_at_spec n l : split_at n l = (firstn (Z.to_nat n) l, skipn (Z.to_nat n) l).
Proof. unfold split_at. rewrite take_rev_spec. rewrite app_nil_r, rev_append_rev, app_nil_r, rev_involutive. reflexivity. Qed.

Lemma read_exact_ok r n : 0 <= n <= Z.of_nat (length r) -> read_exact r n = Ok (firstn (Z.to_nat n) r, skipn (Z.to_nat n) r).
Proof. intros H. unfold read_exact. destruct (Z.leb_spec n (Z.of_nat (length r))); [reflexivity | lia]. Qed.

Lemma init_data_ok data : C15_model.len data < 2 ^ 63 -> init (chunks_of data) (Z.of_nat (length data)) = Ok (dec_of_data data).
Proof. intros H. destruct (init_ok data H) as [d0 [E _]]. unfold dec_of_data. unfold C15_model.len in E. rewrite E. reflexivity. Qed.

(* ---------- init_partitions = parse_partitions ---------- *)
Lemma cut_nil szs : forall acc, snd (cut_partitions szs [] acc) = [].
Proof. induction szs as [|sz tl IH]; intros acc; cbn [cut_partitions]; [reflexivity|]. rewrite split_at_spec, firstn_nil, skipn_nil. apply IH. Qed.

Lemma le24_list_S k b0 b1 b2 tl : le24_list (b0 :: b1 :: b2 :: tl) (S k) = (b0 + 256 * b1 + 65536 * b2) :: le24_list tl k.
Proof. reflexivity. Qed.

Lemma sized_ok k : forall i sizes r parts acc racc lastp,
  length sizes = (3 * k)%nat -> Forall byte sizes -> (i + k <= length parts)%nat -> Z.of_nat (length r) < 2 ^ 63 ->
  cut_partitions (le24_list sizes k) r acc = (racc, lastp) -> lastp <> [] ->
  exists news, racc = rev news ++ acc /\ length news = k /\
    init_sized_partitions k (Z.of_nat i) sizes r parts
    = Ok (lastp, firstn i parts ++ map dec_of_data news ++ skipn (i + k) parts) /\
    r = concat news ++ lastp.
Proof.
  induction k as [|k IH]; intros i sizes r parts acc racc lastp Ls Hb Hl Hr Hc Hne.
  - destruct sizes; [|discriminate]. cbn [le24_list cut_partitions] in Hc. injection Hc as <- <-.
    exists []. cbn [rev app length map init_sized_partitions concat]. rewrite Nat.add_0_r, firstn_skipn. repeat split.
  - destruct sizes as [|b0 [|b1 [|b2 tl]]]; try (cbn in Ls; lia).
    rewrite le24_list_S in Hc. cbn [cut_partitions] in Hc. rewrite split_at_spec in Hc.
    inversion Hb as [|? ? B0 Hb1]; subst. inversion Hb1 as [|? ? B1 Hb2]; subst. inversion Hb2 as [|? ? B2 Hb3]; subst. unfold byte in *.
    set (sz := b0 + 256 * b1 + 65536 * b2) in *.
    assert (Hsz : 0 <= sz) by (unfold sz; lia).
    (* the size is proper, else the last partition would be empty *)
    assert (Hlt : sz < Z.of_nat (length r)).
    { destruct (Z.ltb_spec sz (Z.of_nat (length r))) as [|Hge]; [assumption|]. exfalso.
      rewrite (skipn_all2 r) in Hc by lia. pose proof (cut_nil (le24_list tl k) (firstn (Z.to_nat sz) r :: acc)) as N.
      rewrite Hc in N. cbn [snd] in N. exact (Hne N). }
    cbn [init_sized_partitions]. cbn [firstn]. change (le24 [b0; b1; b2]) with sz.
    rewrite read_exact_ok by lia. cbn [bind].
    set (p := firstn (Z.to_nat sz) r) in *. set (r1 := skipn (Z.to_nat sz) r) in *.
    assert (Lp : Z.of_nat (length p) = sz) by (unfold p; rewrite firstn_length; lia).
    rewrite <- Lp. rewrite init_data_ok by (unfold C15_model.len; lia). cbn [bind].
    rewrite set_idx_ok by lia. cbn [bind]. cbn [skipn].
    replace (Z.of_nat i + 1) with (Z.of_nat (S i)) by lia.
    destruct (IH (S i) tl r1 (updZ parts (Z.of_nat i) (dec_of_data p)) (p :: acc) racc lastp) as [news (E1 & E2 & E3 & E4)];
      try assumption; [cbn in Ls; lia | rewrite updZ_length; lia | unfold r1; rewrite skipn_length; lia|].
    exists (p :: news). cbn [rev length map concat]. rewrite <- app_assoc. cbn [app].
    split; [exact E1|]. split; [lia|]. split.
    + rewrite E3. f_equal. f_equal. unfold updZ. rewrite Nat2Z.id. rewrite firstn_upd_S by lia. rewrite skipn_upd_above by lia.
      rewrite <- app_assoc. cbn [app]. replace (S i + k)%nat with (i + S k)%nat by lia. reflexivity.
    + rewrite <- app_assoc. rewrite <- E4. unfold p, r1. symmetry. apply firstn_skipn.
Qed.

Lemma le24_list_len k : forall l, length l = (3 * k)%nat -> length (le24_list l k) = k.
Proof.
  induction k as [|k IH]; intros l H; [destruct l; reflexivity|].
  destruct l as [|b0 [|b1 [|b2 tl]]]; try (cbn in H; lia). rewrite le24_list_S. cbn [length]. rewrite IH; [reflexivity | cbn in H; lia].
Qed.

Theorem init_partitions_refines v n parts : 1 <= n <= 8 -> length (v_partitions v) = 8%nat ->
  Forall byte (v_r v) -> Z.of_nat (length (v_r v)) < 2 ^ 63 ->
  parse_partitions n (v_r v) = Some parts ->
  init_partitions v n = Ok (set_partitions (set_r v []) (map dec_of_data parts ++ skipn (Z.to_nat n) (v_partitions v))) /\
  length parts = Z.to_nat n /\ (forall p, In p parts -> Forall byte p /\ Z.of_nat (length p) < 2 ^ 63).
Proof.
  intros Hn L8 Hb Hr. unfold parse_partitions. rewrite zlength_len. cbv zeta.
  destruct (Z.ltb_spec (Z.of_nat (length (v_r v))) (3 * (n - 1))) as [|Hge]; [discriminate|].
  rewrite split_at_spec.
  set (szb := firstn (Z.to_nat (3 * (n - 1))) (v_r v)). set (body := skipn (Z.to_nat (3 * (n - 1))) (v_r v)).
  destruct (cut_partitions (le24_list szb (Z.to_nat (n - 1))) body []) as [racc lastp] eqn:Ec.
  destruct lastp as [|x lastp]; [discriminate|]. intros E. injection E as <-.
  assert (Lszb : length szb = (3 * Z.to_nat (n - 1))%nat) by (unfold szb; rewrite firstn_length; lia).
  assert (Hbody : Z.of_nat (length body) < 2 ^ 63) by (unfold body; rewrite skipn_length; lia).
  destruct (sized_ok (Z.to_nat (n - 1)) 0 szb body (v_partitions v) [] racc (x :: lastp) Lszb) as [news (E1 & E2 & E3 & E4)];
    try assumption; [unfold szb; apply Forall_firstn; exact Hb | lia | discriminate|].
  rewrite app_nil_r in E1. subst racc. rewrite rev_append_rev, rev_involutive.
  assert (Hall : Forall byte body) by (unfold body; apply Forall_skipn; exact Hb).
  split; [|split].
  - unfold init_partitions.
    assert (Hlast : forall r parts0, (Z.to_nat (n - 1) < length parts0)%nat -> Z.of_nat (length r) < 2 ^ 63 ->
              (let size := Z.of_nat (length r) in
               let* d := init (chunks_of r) size in let* idxn := usize_sub n 1 in let* parts1 := set_idx parts0 idxn d in
               Ok (set_partitions (set_r v []) parts1))
              = Ok (set_partitions (set_r v []) (updZ parts0 (n - 1) (dec_of_data r)))).
    { intros r parts0 Hl Hrr. cbv zeta. rewrite init_data_ok by (unfold C15_model.len; lia). cbn [bind].
      unfold usize_sub. destruct (Z.leb_spec 1 n); [|lia]. cbn [bind]. rewrite set_idx_ok by lia. reflexivity. }
    destruct (Z.ltb_spec 1 n) as [H1 | H1].
    + rewrite read_exact_ok by lia. cbn [bind]. replace (3 * n - 3) with (3 * (n - 1)) by lia. fold szb body.
      change 0 with (Z.of_nat 0). rewrite E3. cbn [bind firstn app Nat.add].
      rewrite Hlast; [| rewrite !app_length, map_length, skipn_length; lia | rewrite E4 in Hbody; rewrite app_length in Hbody; lia].
      f_equal. f_equal. rewrite map_app. cbn [map]. unfold updZ.
      replace (Z.to_nat (n - 1)) with (length (map dec_of_data news)) by (rewrite map_length; lia).
      rewrite upd_splice by (rewrite app_length, skipn_length, map_length; lia).
      rewrite firstn_app, firstn_all, Nat.sub_diag. cbn [firstn]. rewrite app_nil_r. rewrite <- app_assoc. cbn [app]. f_equal. f_equal.
      rewrite skipn_app. rewrite skipn_all2 by lia. cbn [app]. replace (S (length (map dec_of_data news)) - length (map dec_of_data news))%nat with 1%nat by lia.
      rewrite skipn_skipn'. f_equal. rewrite map_length. lia.
    + assert (n = 1) by lia. subst n. cbn [bind]. change (Z.to_nat (1 - 1)) with 0%nat in *. destruct news; [|discriminate]. cbn [concat app] in E4.
      unfold body in E4. change (Z.to_nat (3 * (1 - 1))) with 0%nat in E4. cbn [skipn] in E4.
      rewrite Hlast by lia. rewrite E4. cbn [rev map app]. unfold updZ. change (Z.to_nat (1 - 1)) with 0%nat.
      destruct (v_partitions v) as [|d0 ps]; [discriminate|]. reflexivity.
  - rewrite app_length. cbn [length]. lia.
  - intros p Hp. rewrite E4 in Hall, Hbody. apply in_app_or in Hp.
    rewrite Forall_app in Hall. destruct Hall as [Hc Hl]. rewrite app_length in Hbody.
    destruct Hp as [Hp | [<- | []]].
    + split.
      * rewrite Forall_forall in Hc |- *. intros y Hy. apply Hc. apply in_concat. exists p. split; assumption.
      * assert (length p <= length (concat news))%nat; [|lia].
        clear - Hp. induction news as [|q news IH]; [destruct Hp|]. cbn [concat]. rewrite app_length. destruct Hp as [-> | Hp]; [lia | specialize (IH Hp); lia].
    + split; [exact Hl | lia].
Qed.

(* ---------- the reference reader only moves forward ---------- *)
Lemma normalize_mono n : forall s, shift_count s <= shift_count (normalize n s).
Proof.
  induction n as [|n IH]; intros s; cbn [normalize]; [lia|].
  destruct (BoolDec.range s <? 128); [|lia]. cbv zeta.
  destruct (Z.eqb_spec (BoolDec.bit_count s + 1) 8) as [E|E].
  - unfold BoolDec.next_byte. destruct (rest s) as [|x tl];
      (eapply Z.le_trans; [|apply IH]); unfold shift_count; cbn [fetched BoolDec.bit_count]; lia.
  - eapply Z.le_trans; [|apply IH]. unfold shift_count; cbn [fetched BoolDec.bit_count]; lia.
Qed.

Lemma bdbit_mono s p : shift_count s <= shift_count (snd (bdbit s p)).
Proof.
  rewrite bd_read_bool_cases. cbn [snd]. eapply Z.le_trans; [|apply normalize_mono].
  destruct (_ <=? BoolDec.value s); unfold shift_count; cbn [fetched BoolDec.bit_count]; lia.
Qed.

Lemma interp_mono {A} (g : gprog A) : forall s, shift_count s <= shift_count (snd (interpG bdbit g s)).
Proof.
  induction g as [a | p k IH]; intros s; cbn [interpG snd]; [lia|].
  pose proof (bdbit_mono s p) as H. destruct (bdbit s p) as [b s1]. cbn [snd] in H. specialize (IH b s1). lia.
Qed.

Lemma over_read_shift data s s' : shift_count s <= shift_count s' -> over_read data s -> over_read data s'.
Proof.
  unfold over_read, bytes_needed. intros H O. assert ((shift_count s + 7) / 8 <= (shift_count s' + 7) / 8) by (apply Z.div_le_mono; lia). lia.
Qed.

Lemma over_read_mono {A} data (g : gprog A) s : over_read data s -> over_read data (snd (interpG bdbit g s)).
Proof. apply over_read_shift. apply interp_mono. Qed.
