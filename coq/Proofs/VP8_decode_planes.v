(* VP8 whole-frame decoding, part 6: the planes Spec.VP8.decode returns are well formed -- UNCONDITIONALLY (no side
   condition on the stream): dimensions in 1..16383, w*h luma samples, ceil(w/2)*ceil(h/2) samples per chroma plane,
   every sample a byte.  This is Proofs.ReadImage_lossy.planes_ok, the hypothesis the container-level theorems carry
   about the key frame.  Proof about the Spec alone: every cell of the three reference planes is a byte at all times
   (plane_make: zeros; reconstruction writes clip255 (prediction + residual); every loop-filter write is a clip255),
   and crop reads width * height cells per plane. *)
From Coq Require Import ZArith NArith Lia List Bool Arith.
From WebP Require Import Lib.Res Lib.ZBits Lib.Arr Spec.BoolDec Spec.VP8Tables Spec.VP8
  Proofs.VP8_predict_base Proofs.VP8_recon_base Proofs.VP8_recon_plane Proofs.VP8_recon_pass Proofs.VP8_recon_example
  Proofs.ReadImage_lossy.
Import ListNotations.
Open Scope Z_scope.

(* ---------- reconstruction keeps bytes ---------- *)
Lemma recon_subs_pbytes mbw mx my : forall modes blocks p k ok, pbytes p -> pbytes (fst (recon_subs mbw p mx my modes blocks k ok)).
Proof.
  induction modes as [|m mtl IH]; intros blocks p k ok Hp; cbn [recon_subs]; [exact Hp|].
  destruct blocks as [|b btl]; [exact Hp|]. destruct (idct b) as [res ok1]. apply IH.
  unfold recon_sub. apply pbytes_store4x4. exact Hp.
Qed.

Lemma recon_blocks_pbytes x0 y0 nb pf : forall blocks p k ok, pbytes p -> pbytes (fst (recon_blocks p x0 y0 nb pf blocks k ok)).
Proof.
  induction blocks as [|b btl IH]; intros p k ok Hp; cbn [recon_blocks]; [exact Hp|].
  destruct (idct b) as [res ok1]. apply IH. unfold recon_block. apply pbytes_store4x4. exact Hp.
Qed.

Definition plbytes (pl : planes) : Prop := pbytes (pl_y pl) /\ pbytes (pl_u pl) /\ pbytes (pl_v pl).

Lemma recon_mb_plbytes mbw pl mx my m r : plbytes pl -> plbytes (recon_mb mbw pl mx my m r).
Proof.
  intros (Hy & Hu & Hv). unfold recon_mb.
  assert (Py : pbytes (fst (if m_i4 m then recon_subs mbw (pl_y pl) mx my (m_imodes m) (r_y r) 0 true
                            else recon_blocks (pl_y pl) (16 * mx) (16 * my) 4 (pred_big (pl_y pl) 16 4 mx my (m_ymode m)) (r_y r) 0 true)))
    by (destruct (m_i4 m); [apply recon_subs_pbytes | apply recon_blocks_pbytes]; exact Hy).
  destruct (if m_i4 m then _ else _) as [py ok1].
  pose proof (recon_blocks_pbytes (8 * mx) (8 * my) 2 (pred_big (pl_u pl) 8 3 mx my (m_uvmode m)) (r_u r) (pl_u pl) 0 true Hu) as Pu.
  destruct (recon_blocks (pl_u pl) _ _ 2 _ (r_u r) 0 true) as [pu ok2].
  pose proof (recon_blocks_pbytes (8 * mx) (8 * my) 2 (pred_big (pl_v pl) 8 3 mx my (m_uvmode m)) (r_v r) (pl_v pl) 0 true Hv) as Pv.
  destruct (recon_blocks (pl_v pl) _ _ 2 _ (r_v r) 0 true) as [pv ok3].
  split; [exact Py | split; [exact Pu | exact Pv]].
Qed.

Lemma recon_row_plbytes mbw my : forall modes res pl mx, plbytes pl -> plbytes (recon_row mbw pl mx my modes res).
Proof.
  induction modes as [|m mtl IH]; intros res pl mx Hp; cbn [recon_row]; [exact Hp|].
  destruct res as [|r rtl]; [exact Hp|]. apply IH. apply recon_mb_plbytes. exact Hp.
Qed.

Lemma recon_rows_plbytes mbw : forall modes res pl my, plbytes pl -> plbytes (recon_rows mbw pl my modes res).
Proof.
  induction modes as [|m mtl IH]; intros res pl my Hp; cbn [recon_rows]; [exact Hp|].
  destruct res as [|r rtl]; [exact Hp|]. apply IH. apply recon_row_plbytes. exact Hp.
Qed.

Lemma reconstruct_plbytes h modes res : plbytes (reconstruct h modes res).
Proof. unfold reconstruct. apply recon_rows_plbytes. split; [|split]; apply pbytes_make. Qed.

(* ---------- the loop filter keeps bytes ---------- *)
Definition abytes (a : arr) : Prop := forall n : N, byte (araw a n).

Lemma abytes_wr a i v : abytes a -> byte v -> abytes (VP8.wr a i v).
Proof.
  intros Ha Hv n. unfold VP8.wr. destruct (N.eq_dec (Z.to_N i) n) as [<- | N]; [rewrite araw_aset'_eq; exact Hv | rewrite araw_aset'_neq by exact N; apply Ha].
Qed.

Lemma do_filter2_abytes a i step : abytes a -> abytes (do_filter2 a i step).
Proof. intros Ha. unfold do_filter2. cbv zeta. repeat (apply abytes_wr; [|apply clip255_byte]). exact Ha. Qed.
Lemma do_filter4_abytes a i step : abytes a -> abytes (do_filter4 a i step).
Proof. intros Ha. unfold do_filter4. cbv zeta. repeat (apply abytes_wr; [|apply clip255_byte]). exact Ha. Qed.
Lemma do_filter6_abytes a i step : abytes a -> abytes (do_filter6 a i step).
Proof. intros Ha. unfold do_filter6. cbv zeta. repeat (apply abytes_wr; [|apply clip255_byte]). exact Ha. Qed.

Definition keeps_bytes (f : arr -> Z -> arr) : Prop := forall a i, abytes a -> abytes (f a i).

Lemma simple_edge_kb step t : keeps_bytes (simple_edge step t).
Proof. intros a i Ha. unfold simple_edge. destruct (needs_filter a i step t); [apply do_filter2_abytes|]; exact Ha. Qed.
Lemma mb_edge_kb step t it hv : keeps_bytes (mb_edge step t it hv).
Proof.
  intros a i Ha. unfold mb_edge. destruct (needs_filter2 a i step t it); [|exact Ha].
  destruct (hev a i step hv); [apply do_filter2_abytes | apply do_filter6_abytes]; exact Ha.
Qed.
Lemma inner_edge_kb step t it hv : keeps_bytes (inner_edge step t it hv).
Proof.
  intros a i Ha. unfold inner_edge. destruct (needs_filter2 a i step t it); [|exact Ha].
  destruct (hev a i step hv); [apply do_filter2_abytes | apply do_filter4_abytes]; exact Ha.
Qed.

Lemma edge_loop_abytes f along : keeps_bytes f -> forall n a i, abytes a -> abytes (edge_loop f a i along n).
Proof. intros Hf. induction n as [|n IH]; intros a i Ha; cbn [edge_loop]; [exact Ha|]. apply IH. apply Hf. exact Ha. Qed.

Lemma inner_edges_abytes f off along size : keeps_bytes f -> forall k a i0, abytes a -> abytes (inner_edges f a i0 off along size k).
Proof. intros Hf. induction k as [|k IH]; intros a i0 Ha; cbn [inner_edges]; [exact Ha|]. apply IH. apply edge_loop_abytes; assumption. Qed.

Lemma filter_mb_plane_abytes fe fi stride size mx my inner a :
  (forall step, keeps_bytes (fe step)) -> (forall step, keeps_bytes (fi step)) -> abytes a ->
  abytes (filter_mb_plane fe fi stride size mx my inner a).
Proof.
  intros He Hi Ha. unfold filter_mb_plane. cbv zeta.
  repeat match goal with
  | |- abytes (if ?c then _ else _) => destruct c
  | |- abytes (edge_loop _ _ _ _ _) => apply edge_loop_abytes; [auto|]
  | |- abytes (inner_edges _ _ _ _ _ _ _) => apply inner_edges_abytes; [auto|]
  end; exact Ha.
Qed.

Lemma filter_mb_plbytes h pl mx my m r : plbytes pl -> plbytes (filter_mb h pl mx my m r).
Proof.
  intros (Hy & Hu & Hv). unfold filter_mb. cbv zeta.
  destruct (f_limit (filter_strength h (m_seg m) (m_i4 m)) =? 0); [split; [|split]; assumption|].
  destruct (filter_type h =? 1).
  - split; [|split; assumption]. unfold pbytes. cbn [pl_y p_a].
    apply filter_mb_plane_abytes; [intros step; apply simple_edge_kb | intros step; apply simple_edge_kb | exact Hy].
  - split; [|split]; unfold pbytes; cbn [pl_y pl_u pl_v p_a];
      (apply filter_mb_plane_abytes; [intros step; apply mb_edge_kb | intros step; apply inner_edge_kb | assumption]).
Qed.

Lemma filter_row_plbytes h my : forall modes res pl mx, plbytes pl -> plbytes (filter_row h pl mx my modes res).
Proof.
  induction modes as [|m mtl IH]; intros res pl mx Hp; cbn [filter_row]; [exact Hp|].
  destruct res as [|r rtl]; [exact Hp|]. apply IH. apply filter_mb_plbytes. exact Hp.
Qed.
Lemma filter_rows_plbytes h : forall modes res pl my, plbytes pl -> plbytes (filter_rows h pl my modes res).
Proof.
  induction modes as [|m mtl IH]; intros res pl my Hp; cbn [filter_rows]; [exact Hp|].
  destruct res as [|r rtl]; [exact Hp|]. apply IH. apply filter_row_plbytes. exact Hp.
Qed.
Lemma loop_filter_plbytes h modes res pl : plbytes pl -> plbytes (loop_filter h modes res pl).
Proof. intros Hp. unfold loop_filter. destruct (filter_type h =? 0); [exact Hp | apply filter_rows_plbytes; exact Hp]. Qed.

(* ---------- crop ---------- *)
Lemma crop_length p w hh : length (VP8.crop p w hh) = (Z.to_nat w * Z.to_nat hh)%nat.
Proof.
  unfold VP8.crop. rewrite crop_rows_spec, app_nil_r. unfold rows_list.
  induction (Z.to_nat hh) as [|n IH]; [cbn [seq flat_map length]; lia|]. rewrite seq_S, flat_map_app, app_length, IH. cbn [flat_map length Nat.add].
  rewrite app_nil_r, map_length, seq_length. lia.
Qed.

Lemma crop_bytes p w hh : pbytes p -> Forall byte (VP8.crop p w hh).
Proof.
  intros Hp. unfold VP8.crop. rewrite crop_rows_spec, app_nil_r. unfold rows_list.
  apply Forall_forall. intros x Hx. apply in_flat_map in Hx. destruct Hx as (y & _ & Hx).
  apply in_map_iff in Hx. destruct Hx as (k & <- & _). apply Hp.
Qed.

Lemma half_up_nat w : 0 <= w -> Z.to_nat (Z.shiftr (w + 1) 1) = ((Z.to_nat w + 1) / 2)%nat.
Proof.
  intros Hw. rewrite Z.shiftr_div_pow2 by lia. change (2 ^ 1) with 2.
  apply Nat2Z.inj. rewrite Z2Nat.id by (apply Z.div_pos; lia). rewrite Nat2Z.inj_div, Nat2Z.inj_add, Z2Nat.id by lia. reflexivity.
Qed.

(* ---------- the statement ---------- *)
Theorem planes_ok_of_spec_frame data f : VP8.decode_frame data = Some f -> planes_ok (fr_w f) (fr_h f) (fr_y f) (fr_u f) (fr_v f).
Proof.
  intros Hd. unfold VP8.decode_frame in Hd.
  destruct (parse_header data) as [[[h s] parts]|] eqn:Hph; [|discriminate Hd].
  destruct (parse_header_dims data h s parts Hph) as [Dw Dh].
  destruct (parse_modes h s) as [modes s']. destruct (starved s'); [discriminate Hd|].
  destruct (parse_tokens h modes (map bd_init parts)) as [res parts'].
  destruct (existsb starved _); [discriminate Hd|]. injection Hd as <-. cbn [fr_w fr_h fr_y fr_u fr_v].
  destruct (loop_filter_plbytes h modes res _ (reconstruct_plbytes h modes res)) as (By & Bu & Bv).
  unfold planes_ok. rewrite !crop_length, !half_up_nat by lia.
  repeat split; try lia; apply crop_bytes; assumption.
Qed.

Theorem planes_ok_of_spec data w h yp up vp : VP8.decode data = Some (w, h, yp, up, vp) -> planes_ok w h yp up vp.
Proof.
  unfold VP8.decode. destruct (VP8.decode_frame data) as [f|] eqn:Ef; [|discriminate]. intros H. injection H as <- <- <- <- <-.
  exact (planes_ok_of_spec_frame data f Ef).
Qed.
