(* Glue of read_image, part 7: (1) read_image = the composed specification Spec.Still.decode_still on lossy stills, every output
   byte a function of the file (C05 / C11); (2) all still wrappings of one payload agree (C11 wrappings_agree): simple file,
   VP8X with the alpha flag clear or set, with any metadata / unknown chunks around -- modulo the documented RGB / RGBA
   difference. *)
From Coq Require Import ZArith List Bool Lia.
From WebP Require Import Lib.Res Lib.ZBits Spec.Container Spec.YUV Model.Still.
From WebP Require Spec.VP8.
From WebP Require Import Proofs.Container_bytes Proofs.ReadImage_base Proofs.ReadImage_container Proofs.ReadImage_lossless
  Proofs.ReadImage_lossy Proofs.ReadImage_stillspec.
From WebP Require Proofs.C01_top.
From WebP Require Import Model.ReadImage.
Import ListNotations.
Open Scope Z_scope.

Section Wrap.
Variable vp8 : list Z -> res (Z * Z * list Z * list Z * list Z).

(* C05 at file level.  The C02 link is the hypothesis [Hlink]: on this payload the VP8 frame decoder returns what
   Spec.VP8.decode returns (checked on the crate by the c02 correspondence on every run). *)
Theorem read_image_equals_still_spec c payload w h yp up vp w' h' a px :
  wf c = true -> anim c = false -> image_vp8 c = Some payload -> dims c = (w, h) ->
  Spec.VP8.decode payload = Some (w, h, yp, up, vp) ->
  vp8 payload = Ok (w, h, yp, up, vp) ->                                                        (* Hlink *)
  planes_ok w h yp up vp -> alph_ok_for c w h ->
  SS.decode_still (serialize c) = Some (w', h', a, px) ->
  (w', h', a) = (w, h, alpha c) /\
  exists dec, M.new (serialize c) = Ok dec /\ M.dimensions dec = (w', h') /\ M.has_alpha dec = a /\
    (forall buf, len buf = buffer_size c -> read_image vp8 dec buf = (Ok tt, Some px)) /\
    (forall buf, len buf <> buffer_size c -> read_image vp8 dec buf = (Err EImageTooLarge, Some buf)).
Proof.
  intros Hwf Ha Hp Hd Hdec Hlink Hpl Hfmt Hspec.
  rewrite (decode_still_serialize c payload w h yp up vp Hwf Ha Hp Hdec) in Hspec.
  destruct (lossy_pixels c w h yp up vp) as [px0|] eqn:Epx; [|discriminate].
  injection Hspec as <- <- <- <-. split; [reflexivity|].
  destruct (new_still_view c Hwf Ha) as (dec & Hnew & Hv).
  assert (Hnl : image_vp8l c = None).
  { destruct (still_one_bitstream c Hwf Ha) as [(p & _ & E) | (p & _ & E)]; [exact E | congruence]. }
  exists dec. split; [exact Hnew|].
  pose proof Hv as (_ & _ & Hw & Hh & Hal & _).
  split; [unfold M.dimensions; rewrite Hw, Hh, Hd; reflexivity|].
  split; [exact Hal|]. split.
  - intros buf Hl. apply (read_image_lossy_view vp8 c dec payload w h yp up vp px0 buf); assumption.
  - intros buf Hl. apply (wrong_length_view vp8 c dec buf Hv Hl).
Qed.

(* three channels = four channels with the alpha byte dropped *)
Definition render (alpha : bool) (rgba : list Z) : list Z := if alpha then rgba else drop_alpha rgba.

(* C11 wrappings_agree, lossless payloads: every well-formed still file around the same VP8L payload (and of its dimensions)
   decodes to the same RGBA pixels, rendered with or without the alpha byte as the file's alpha bit / flag says *)
Theorem lossless_wrappings_agree payload W h pixels :
  V.decode_rgba payload = Some (W, h, pixels) -> C01_top.codes_in_format payload ->
  (forall s0, V.read_header (V.Stream [] payload) = Some (W, h, s0) -> C01_top.in_format W h s0) ->
  forall c, wf c = true -> anim c = false -> image_vp8l c = Some payload -> dims c = (W, h) ->
  exists dec, M.new (serialize c) = Ok dec /\
    forall buf, len buf = buffer_size c -> read_image vp8 dec buf = (Ok tt, Some (render (alpha c) pixels)).
Proof.
  intros Hdec Hcodes Hfmt c Hwf Ha Hp Hd.
  destruct (read_image_lossless vp8 c payload W h pixels Hwf Ha Hp Hd Hdec Hcodes Hfmt) as (dec & Hnew & Hok & _).
  exists dec. split; [exact Hnew | exact Hok].
Qed.

(* C11 wrappings_agree, lossy payloads: every well-formed still file around the same 'VP8 ' payload shows the same colours
   (Spec.YUV.rgb_plane of the payload's planes): as they are when the file has no alpha, with an alpha byte added otherwise *)
Theorem lossy_wrappings_agree payload w h yp up vp :
  vp8 payload = Ok (w, h, yp, up, vp) -> planes_ok w h yp up vp ->
  forall c px, wf c = true -> anim c = false -> image_vp8 c = Some payload -> dims c = (w, h) ->
  lossy_pixels c w h yp up vp = Some px -> alph_ok_for c w h ->
  (if alpha c then drop_alpha px else px) = rgb_plane (Z.to_nat w) (Z.to_nat h) yp up vp /\
  exists dec, M.new (serialize c) = Ok dec /\
    forall buf, len buf = buffer_size c -> read_image vp8 dec buf = (Ok tt, Some px).
Proof.
  intros Hvp8 Hpl c px Hwf Ha Hp Hd Hpx Hfmt. split.
  - pose proof Hpl as (Rw & Rh & Ly & _).
    destruct (rgba_plane_weave (Z.to_nat w) yp up vp [] (Z.to_nat h) Ly) as (_ & _ & _ & Lr).
    assert (Hn : Z.to_nat (w * h) = (Z.to_nat w * Z.to_nat h)%nat) by (rewrite Z2Nat.inj_mul by lia; reflexivity).
    unfold lossy_pixels in Hpx. destruct (alpha c); cbn [negb] in Hpx; [|injection Hpx as <-; reflexivity].
    destruct (image_alph c) as [al|].
    + destruct (SS.alpha_plane w h al) as [pl|] eqn:Epl; [|discriminate]. injection Hpx as <-.
      apply drop_alpha_weave. rewrite Lr.
      (* the specification's plane has w*h samples *)
      unfold SS.alpha_plane in Epl. destruct al as [|hb data]; [discriminate|].
      destruct (negb (Spec.Alpha.header_ok hb)); [discriminate|].
      match type of Epl with match ?strm with _ => _ end = _ => destruct strm as [st|]; [|discriminate] end.
      destruct (Nat.eqb (length st) (Z.to_nat (w * h))) eqn:El; [|discriminate]. apply Nat.eqb_eq in El.
      injection Epl as <-. unfold Spec.Alpha.unfilter. rewrite Alpha_unfilter.unfilter_from_length. cbn [length]. lia.
    + injection Hpx as <-. apply drop_alpha_weave. rewrite Lr, repeat_length. lia.
  - destruct (read_image_lossy vp8 c payload w h yp up vp px Hwf Ha Hp Hd Hvp8 Hpl Hpx Hfmt) as (dec & Hnew & Hok & _).
    exists dec. split; [exact Hnew | exact Hok].
Qed.
End Wrap.
