(* VP8 frame-level parsing, part 1: read_frame_header = Spec.VP8.parse_header.
   The Model function is cut into suffixes (rfh_mid .. rfh_tail, equal to the original text by reflexivity); every suffix is shown to
   be "run one adaptive request program on the first-partition reader, fail with BitStreamError iff the reader ended past its end of
   file, else continue" (the intermediate `check`s collapse into the last one: once past the end, always past the end); the reference
   parser is cut the same way (parse_header_eq) and shown to run the same programs; VP8_parse_base.transfer links the two runs. *)
From Coq Require Import ZArith Lia List Bool.
From WebP Require Import Lib.Res Gen.Kernels Gen.Tables Lib.ZBits Proofs.C15_num Proofs.C15_ideal Proofs.C15_model
  Proofs.C15_ops Proofs.C15_reqs Proofs.C15_main Spec.RfcBoolDec Spec.BoolDec Spec.VP8Tables Spec.VP8 Model.ArithDec
  Model.Vp8Parse Proofs.VP8_tables Proofs.VP8_quant Proofs.VP8_parse_base Proofs.VP8_parse_coeffs Proofs.VP8_parse_mbheader Proofs.VP8_parse_header Proofs.VP8_parse_residual Proofs.VP8_frame_base.
Import ListNotations.
Open Scope Z_scope.
Open Scope res_scope.

Definition rfh_tail (v : Vp8) (keyframe : bool) : res Vp8 :=
  let* v := read_quantization_indices v in
  if negb keyframe then Err EUnsupportedFeature else
  let* '(_, d) := read_literal (v_b v) 1 in
  let v := set_b v d in
  let* v := update_token_probabilities v in
  let* '(mb_no_skip_coeff, d) := read_literal (v_b v) 1 in
  let* '(psf, d) := (if mb_no_skip_coeff =? 1 then let* '(x, d) := read_literal d 8 in Ok (Some x, d) else Ok (None, d)) in
  let v := set_b (set_prob_skip_false v psf) d in
  let* _ := check d tt in
  Ok v.

Definition rfh_mid4 (v : Vp8) (K : Vp8 -> Z -> res Vp8) : res Vp8 :=
  let* '(lg, d) := read_literal (v_b v) 2 in
  let num_partitions := 2 ^ lg in
  let v := set_b v d in
  let* _ := check d tt in
  let v := set_num_partitions v (wrapU 8 num_partitions) in
  K v num_partitions.

Definition rfh_mid3 (v : Vp8) (K : Vp8 -> Z -> res Vp8) : res Vp8 :=
  let* '(filter_type, d) := read_flag (v_b v) in
  let* '(filter_level, d) := read_literal d 6 in
  let* '(sharpness_level, d) := read_literal d 3 in
  let v := set_frame v (fi_set_filter (v_frame v) filter_type filter_level sharpness_level) in
  let* '(lf_adjust_enable, d) := read_flag d in
  let v := set_b v d in
  let* v := (if lf_adjust_enable then read_loop_filter_adjustments v else Ok v) in
  rfh_mid4 v K.

Definition rfh_mid2 (v : Vp8) (d : Dec) (K : Vp8 -> Z -> res Vp8) : res Vp8 :=
  let* '(segments_enabled, d) := read_flag d in
  let v := set_b (set_segments_enabled v segments_enabled) d in
  let* v := (if segments_enabled then read_segment_updates v else Ok v) in
  rfh_mid3 v K.

Definition rfh_mid (v : Vp8) (d : Dec) (keyframe : bool) (K : Vp8 -> Z -> res Vp8) : res Vp8 :=
  let* '(v, d) :=
    if keyframe then
      let* '(color_space, d) := read_literal d 1 in
      let* '(pixel_type, d) := read_literal d 1 in
      let v := set_frame v (fi_set_pixel_type (v_frame v) pixel_type) in
      if negb (color_space =? 0) then Err EColorSpaceInvalid else Ok (v, d)
    else Ok (v, d) in
  rfh_mid2 v d K.

Definition rfh_K (keyframe : bool) (v : Vp8) (np : Z) : res Vp8 := let* v := init_partitions v np in rfh_tail v keyframe.

Lemma rfh_split v : read_frame_header v =
  (let* '(t, r) := read_exact (v_r v) 3 in
  let tag := le24 t in
  let keyframe := Z.land tag 1 =? 0 in
  let f := mkFI (fi_width (v_frame v)) (fi_height (v_frame v)) keyframe (Z.land (Z.shiftr tag 1) 7)
                (negb (Z.land (Z.shiftr tag 4) 1 =? 0)) (fi_pixel_type (v_frame v)) (fi_filter_type (v_frame v))
                (fi_filter_level (v_frame v)) (fi_sharpness_level (v_frame v)) in
  let v := set_frame (set_r v r) f in
  let first_partition_size := Z.shiftr tag 5 in
  let* v :=
    if keyframe then
      let* '(magic, r) := read_exact (v_r v) 3 in
      if negb (match magic with [a; b; c] => (a =? 157) && (b =? 1) && (c =? 42) | _ => false end) then Err EVp8MagicInvalid else
      let* '(wb, r) := read_exact r 2 in
      let* '(hb, r) := read_exact r 2 in
      let w := match wb with [a; b] => a + 256 * b | _ => 0 end in
      let h := match hb with [a; b] => a + 256 * b | _ => 0 end in
      let width := Z.land w 16383 in
      let height := Z.land h 16383 in
      let v := set_frame (set_r v r) (fi_set_size (v_frame v) width height) in
      let top := init_top_macroblocks width in
      let v := set_left (set_top v top) (match top with m :: _ => m | [] => MacroBlock_default end) in
      Ok (set_mbsize v ((width + 15) / 16) ((height + 15) / 16))
    else Ok v in
  let size := first_partition_size in
  let* '(bytes, r) := read_exact (v_r v) size in
  let v := set_r v r in
  let* d := init (chunks_of bytes) size in
  rfh_mid v d keyframe (rfh_K keyframe)).
Proof. reflexivity. Qed.

(* ---------- generic ---------- *)
Lemma run_facts {A} (g : gprog A) d : wsafe d -> big d -> gprobs_ok g ->
  wsafe (snd (interpG cold_pure g d)) /\ big (snd (interpG cold_pure g d)).
Proof.
  intros Hw Hb Hp. destruct (cold_gprog_facts g d Hw Hp) as [W C]. split; [exact W | apply (big_chunks d); assumption].
Qed.

Lemma quant_model v : wsafe (v_b v) -> big (v_b v) -> length (v_segment v) = 4%nat -> Forall seg_level_ok (v_segment v) ->
  read_quantization_indices v =
  (let '(q, d') := interpG cold_pure G_quant (v_b v) in if is_past_eof d' then Err EBitStreamError else Ok (quant_state v q d')).
Proof.
  intros Hw Hbig L4 Hsegs. pose proof (quant_reads_model (v_b v) Hw Hbig) as [EM RM].
  unfold read_quantization_indices.
  destruct (interpG cold_pure G_quant (v_b v)) as [[[[[[yac a] b] c] dd] e] d'] eqn:EI. cbn [fst] in RM.
  revert EM. destruct (read_literal (v_b v) 7) as [[y0 d0]| | |]; cbn [bind]; try discriminate.
  destruct (read_optional_signed_value d0 4) as [[y1 d1]| | |]; cbn [bind]; try discriminate.
  destruct (read_optional_signed_value d1 4) as [[y2 d2]| | |]; cbn [bind]; try discriminate.
  destruct (read_optional_signed_value d2 4) as [[y3 d3]| | |]; cbn [bind]; try discriminate.
  destruct (read_optional_signed_value d3 4) as [[y4 d4]| | |]; cbn [bind]; try discriminate.
  destruct (read_optional_signed_value d4 4) as [[y5 d5]| | |]; cbn [bind]; try discriminate.
  intros EM. injection EM as -> -> -> -> -> -> ->.
  replace (if v_segments_enabled v then 4%nat else 1%nat) with (if v_segments_enabled v then 4 else 1)%nat by reflexivity.
  rewrite (quant_segments_ok _ 0 (v_segment v) (v_segments_enabled v) yac a b c dd e RM Hsegs) by (destruct (v_segments_enabled v); lia).
  cbn [bind]. rewrite check_cases. unfold quant_state. destruct (is_past_eof d'); reflexivity.
Qed.

Definition tables := list (list (list (list Z))).
Definition G_skip : gprog (option Z) :=
  gbind (g_lit 1) (fun us => if us =? 1 then gbind (g_lit 8) (fun x => GRet (Some x)) else GRet None).
Definition G_tail (P0 : tables) : gprog ((Z * Z * Z * Z * Z * Z) * tables * option Z) :=
  gbind G_quant (fun q => gbind (g_lit 1) (fun _ => gbind (G_p1 vp8_COEFF_UPDATE_PROBS P0) (fun P1 =>
  gbind G_skip (fun sp => GRet (q, P1, sp))))).

Lemma G_skip_probs : gprobs_ok G_skip.
Proof. unfold G_skip. apply gprobs_bind; [apply g_lit_probs|]. intros us. destruct (us =? 1); [|exact I]. apply gprobs_bind; [apply g_lit_probs | intros; exact I]. Qed.
Lemma G_tail_probs P0 : gprobs_ok (G_tail P0).
Proof.
  unfold G_tail. apply gprobs_bind; [apply G_quant_probs|]. intros q. apply gprobs_bind; [apply g_lit_probs|]. intros _.
  apply gprobs_bind; [apply G_p1_probs; apply rows1_ok_bytes; apply update_probs_shape|]. intros P1.
  apply gprobs_bind; [apply G_skip_probs | intros; exact I].
Qed.


Lemma eof_tail {A B} (g : gprog A) d (f : A -> Dec -> res B) : is_past_eof d = true ->
  (let '(a, d2) := interpG cold_pure g d in if is_past_eof d2 then Err EBitStreamError else f a d2) = Err EBitStreamError.
Proof. intros H. pose proof (eof_absorbing g d H) as H2. destruct (interpG cold_pure g d) as [a d2]. cbn [snd] in H2. rewrite H2. reflexivity. Qed.

Definition tail_state (v : Vp8) (o : (Z * Z * Z * Z * Z * Z) * tables * option Z) (d : Dec) : Vp8 :=
  let '(q, P1, sp) := o in
  set_b (set_prob_skip_false (set_token_probs (quant_state v q d) (zip_with (zip_with (zip_with (zip_with node_set_prob))) (v_token_probs v) P1)) sp) d.

Lemma skip_model {B} d (K : option Z * Dec -> res B) : wsafe d -> big d ->
  bind (read_literal d 1) (fun '(mb_no_skip_coeff, d) =>
    bind (if mb_no_skip_coeff =? 1 then let* '(x, d) := read_literal d 8 in Ok (Some x, d) else Ok (None, d)) K)
  = K (interpG cold_pure G_skip d) /\ (forall x, fst (interpG cold_pure G_skip d) = Some x -> 0 <= x <= 255).
Proof.
  intros Hw Hb. unfold G_skip. destruct (mstep_lit d 1 Hw Hb ltac:(lia)) as (E & W & B1 & R). rewrite E. rewrite interpG_bind.
  destruct (interpG cold_pure (g_lit 1) d) as [us d1]. cbn [fst snd bind] in *.
  destruct (us =? 1).
  - destruct (mstep_lit d1 8 W B1 ltac:(lia)) as (E1 & W1 & B2 & R1). rewrite E1. rewrite interpG_bind.
    destruct (interpG cold_pure (g_lit 8) d1) as [x d2]. cbn [fst snd bind interpG] in *. split; [reflexivity|].
    intros y Hy. injection Hy as <-. change (2 ^ 8) with 256 in R1. lia.
  - cbn [interpG fst bind]. split; [reflexivity | intros x Hx; discriminate].
Qed.

Lemma rfh_tail_model v P0 : wsafe (v_b v) -> big (v_b v) -> length (v_segment v) = 4%nat -> Forall seg_level_ok (v_segment v) ->
  tables_ok P0 -> token_nodes_of P0 = Ok (v_token_probs v) ->
  rfh_tail v true =
  (let '(o, d2) := interpG cold_pure (G_tail P0) (v_b v) in
   if is_past_eof d2 then Err EBitStreamError else Ok (tail_state v o d2)).
Proof.
  intros Hw Hbig L4 Hsegs HP0 Htp. unfold rfh_tail, G_tail.
  rewrite (quant_model v Hw Hbig L4 Hsegs). rewrite !interpG_bind.
  destruct (run_facts G_quant (v_b v) Hw Hbig G_quant_probs) as [W1 B1].
  destruct (interpG cold_pure G_quant (v_b v)) as [q d1]. cbn [fst snd] in *.
  destruct (is_past_eof d1) eqn:E1.
  { cbn [bind]. symmetry. apply (eof_tail _ d1 (fun o d2 => Ok (tail_state v o d2)) E1). }
  cbn [bind negb].
  assert (Eb : v_b (quant_state v q d1) = d1) by (destruct v; reflexivity). rewrite Eb.
  destruct (mstep_lit d1 1 W1 B1 ltac:(lia)) as (E2 & W2 & B2 & _). rewrite E2. rewrite !interpG_bind.
  destruct (interpG cold_pure (g_lit 1) d1) as [rf d2]. cbn [fst snd bind] in *. rewrite !interpG_bind.
  (* update_token_probabilities *)
  set (v1 := set_b (quant_state v q d1) d2).
  assert (Etp : v_token_probs v1 = v_token_probs v) by (destruct v; reflexivity).
  assert (Eb1 : v_b v1 = d2) by (destruct v; reflexivity).
  destruct (token_nodes_shape P0 _ Htp HP0) as [L4t Fn]. pose proof update_probs_shape as [LU FU].
  pose proof (token_nodes_proj P0 _ Htp HP0) as Eproj.
  destruct (model_p1 vp8_COEFF_UPDATE_PROBS FU (v_token_probs v) d2 W2 B2 ltac:(lia) Fn) as (EM & W3 & B3 & L3 & F3).
  rewrite Eproj in *.
  unfold update_token_probabilities. rewrite Etp, Eb1. rewrite EM.
  destruct (interpG cold_pure (G_p1 vp8_COEFF_UPDATE_PROBS P0) d2) as [P1 d3]. cbn [fst snd bind] in *.
  rewrite check_cases. destruct (is_past_eof d3) eqn:E3.
  { cbn [bind]. symmetry. apply (eof_tail _ d3 (fun o d2 => Ok (tail_state v o d2)) E3). }
  cbn [bind]. rewrite !interpG_bind.
  set (v2 := set_b (set_token_probs v1 _) d3).
  assert (Eb2 : v_b v2 = d3) by (destruct v; reflexivity). rewrite Eb2.
  rewrite (proj1 (skip_model d3 _ W3 B3)).
  destruct (interpG cold_pure G_skip d3) as [sp d4]. cbn [bind interpG].
  rewrite check_cases. destruct (is_past_eof d4); cbn [bind].
  { reflexivity. }
  reflexivity.
Qed.

(* ---------- the stages before the token partitions ---------- *)
Lemma lfadj_model v : wsafe (v_b v) -> big (v_b v) -> length (v_ref_delta v) = 4%nat -> length (v_mode_delta v) = 4%nat ->
  read_loop_filter_adjustments v =
  (let '(o, d') := interpG cold_pure G_lfadj (v_b v) in
   if is_past_eof d' then Err EBitStreamError else
   Ok (set_b (match o with Some rm => set_mode_delta (set_ref_delta v (fst rm)) (snd rm) | None => v end) d')).
Proof.
  intros Hw Hbig Lr Lm. unfold read_loop_filter_adjustments, G_lfadj.
  destruct (mstep_flag (v_b v) Hw Hbig) as (E & W & B). rewrite E. rewrite interpG_bind.
  destruct (interpG cold_pure g_flag (v_b v)) as [f d1]. cbn [fst snd bind] in *. destruct f.
  - destruct (read_signed_array_ok 4 0 (v_ref_delta v) d1 6 W B ltac:(lia) ltac:(lia)) as (E1 & W1 & B1 & L1 & _).
    change (Z.of_nat 0) with 0 in E1. rewrite E1. rewrite interpG_bind.
    destruct (interpG cold_pure (G_arr 4 6) d1) as [r d2]. cbn [fst snd bind] in *.
    destruct (read_signed_array_ok 4 0 (v_mode_delta v) d2 6 W1 B1 ltac:(lia) ltac:(lia)) as (E2 & W2 & B2 & L2 & _).
    change (Z.of_nat 0) with 0 in E2. rewrite E2. rewrite interpG_bind.
    destruct (interpG cold_pure (G_arr 4 6) d2) as [m d3]. cbn [fst snd bind interpG firstn app] in *.
    rewrite !skipn_all2 by lia. rewrite !app_nil_r. rewrite check_cases. destruct (is_past_eof d3); reflexivity.
  - cbn [interpG bind]. rewrite check_cases. destruct (is_past_eof d1); reflexivity.
Qed.

Definition G_mid4 : gprog Z := g_lit 2.
Definition mid4_state (v : Vp8) (lg : Z) (d : Dec) : Vp8 := set_num_partitions (set_b v d) (wrapU 8 (2 ^ lg)).

Lemma mid4_model v K : wsafe (v_b v) -> big (v_b v) ->
  rfh_mid4 v K =
  (let '(lg, d1) := interpG cold_pure G_mid4 (v_b v) in
   if is_past_eof d1 then Err EBitStreamError else K (mid4_state v lg d1) (2 ^ lg)).
Proof.
  intros Hw Hb. unfold rfh_mid4, G_mid4. destruct (mstep_lit (v_b v) 2 Hw Hb ltac:(lia)) as (E & W & B & R). rewrite E.
  destruct (interpG cold_pure (g_lit 2) (v_b v)) as [lg d1]. cbn [bind]. rewrite check_cases. destruct (is_past_eof d1); reflexivity.
Qed.

Definition lfR := option (option (list Z * list Z)).
Definition G_lf (lfe : bool) : gprog lfR := if lfe then gbind G_lfadj (fun o => GRet (Some o)) else GRet None.
Definition G_mid3 : gprog (bool * Z * Z * lfR * Z) :=
  gbind g_flag (fun ft => gbind (g_lit 6) (fun fl => gbind (g_lit 3) (fun sh => gbind g_flag (fun lfe =>
  gbind (G_lf lfe) (fun lf => gbind G_mid4 (fun lg => GRet (ft, fl, sh, lf, lg))))))).

Definition lf_apply (v : Vp8) (lf : lfR) : Vp8 :=
  match lf with Some (Some rm) => set_mode_delta (set_ref_delta v (fst rm)) (snd rm) | _ => v end.
Definition mid3_state (v : Vp8) (r : bool * Z * Z * lfR * Z) (d : Dec) : Vp8 :=
  let '(ft, fl, sh, lf, lg) := r in
  mid4_state (lf_apply (set_frame v (fi_set_filter (v_frame v) ft fl sh)) lf) lg d.
Definition lg_of3 (r : bool * Z * Z * lfR * Z) : Z := snd r.

Lemma G_lf_probs lfe : gprobs_ok (G_lf lfe).
Proof. destruct lfe; [|exact I]. apply gprobs_bind; [apply G_lfadj_probs | intros; exact I]. Qed.
Lemma G_mid3_probs : gprobs_ok G_mid3.
Proof.
  unfold G_mid3. apply gprobs_bind; [apply g_flag_probs|]. intros ft. apply gprobs_bind; [apply g_lit_probs|]. intros fl.
  apply gprobs_bind; [apply g_lit_probs|]. intros sh. apply gprobs_bind; [apply g_flag_probs|]. intros lfe.
  apply gprobs_bind; [apply G_lf_probs|]. intros lf. apply gprobs_bind; [apply g_lit_probs | intros; exact I].
Qed.

Lemma mid3_model v K : wsafe (v_b v) -> big (v_b v) -> length (v_ref_delta v) = 4%nat -> length (v_mode_delta v) = 4%nat ->
  rfh_mid3 v K =
  (let '(r, d1) := interpG cold_pure G_mid3 (v_b v) in
   if is_past_eof d1 then Err EBitStreamError else K (mid3_state v r d1) (2 ^ lg_of3 r)).
Proof.
  intros Hw Hb Lr Lm. unfold rfh_mid3, G_mid3.
  destruct (mstep_flag (v_b v) Hw Hb) as (E & W & B). rewrite E. rewrite !interpG_bind.
  destruct (interpG cold_pure g_flag (v_b v)) as [ft d1]. cbn [fst snd bind] in *. rewrite !interpG_bind.
  destruct (mstep_lit d1 6 W B ltac:(lia)) as (E1 & W1 & B1 & _). rewrite E1.
  destruct (interpG cold_pure (g_lit 6) d1) as [fl d2]. cbn [fst snd bind] in *. rewrite !interpG_bind.
  destruct (mstep_lit d2 3 W1 B1 ltac:(lia)) as (E2 & W2 & B2 & _). rewrite E2.
  destruct (interpG cold_pure (g_lit 3) d2) as [sh d3]. cbn [fst snd bind] in *. rewrite !interpG_bind.
  destruct (mstep_flag d3 W2 B2) as (E3 & W3 & B3). rewrite E3.
  destruct (interpG cold_pure g_flag d3) as [lfe d4]. cbn [fst snd bind] in *. rewrite !interpG_bind.
  set (v1 := set_b (set_frame v (fi_set_filter (v_frame v) ft fl sh)) d4).
  assert (Eb : v_b v1 = d4) by (destruct v; reflexivity).
  destruct lfe; unfold G_lf.
  - rewrite (lfadj_model v1) by (try rewrite Eb; try assumption; destruct v; assumption). rewrite Eb. rewrite !interpG_bind.
    destruct (run_facts G_lfadj d4 W3 B3 G_lfadj_probs) as [W4 B4].
    destruct (interpG cold_pure G_lfadj d4) as [o d5]. cbn [fst snd interpG] in *.
    destruct (is_past_eof d5) eqn:E5.
    { cbn [bind]. symmetry. apply (eof_tail _ d5 (fun r d1 => K (mid3_state v r d1) (2 ^ lg_of3 r)) E5). }
    cbn [bind]. rewrite !interpG_bind.
    set (v2 := set_b _ d5).
    assert (Eb2 : v_b v2 = d5) by (destruct o; destruct v; reflexivity).
    rewrite (mid4_model v2 K) by (rewrite Eb2; assumption). rewrite Eb2.
    destruct (interpG cold_pure G_mid4 d5) as [lg d6]. cbn [interpG]. destruct (is_past_eof d6); [reflexivity|].
    unfold mid3_state, lg_of3, v2, v1. cbn [snd]. destruct o; reflexivity.
  - cbn [bind interpG]. rewrite !interpG_bind.
    rewrite (mid4_model v1 K) by (rewrite Eb; assumption). rewrite Eb.
    destruct (interpG cold_pure G_mid4 d4) as [lg d6]. cbn [interpG]. destruct (is_past_eof d6); [reflexivity|].
    unfold mid3_state, lg_of3, v1. cbn [snd]. reflexivity.
Qed.

Definition seguR := (bool * option (bool * list Z * list Z) * option (list Z))%type.
Definition G_sg (se : bool) : gprog (option seguR) := if se then gbind G_segu (fun r => GRet (Some r)) else GRet None.
Definition mid3R := (bool * Z * Z * lfR * Z)%type.
Definition G_mid2 : gprog (bool * option seguR * mid3R) :=
  gbind g_flag (fun se => gbind (G_sg se) (fun sg => gbind G_mid3 (fun r3 => GRet (se, sg, r3)))).

Definition sg_apply (v : Vp8) (sg : option seguR) (d : Dec) : Vp8 := match sg with Some r => segu_state v r d | None => v end.
Definition mid2_state (v : Vp8) (r : bool * option seguR * mid3R) (d : Dec) : Vp8 :=
  let '(se, sg, r3) := r in mid3_state (sg_apply (set_segments_enabled v se) sg d) r3 d.
Definition lg_of2 (r : bool * option seguR * mid3R) : Z := lg_of3 (snd r).

Lemma G_sg_probs se : gprobs_ok (G_sg se).
Proof. destruct se; [|exact I]. apply gprobs_bind; [apply G_segu_probs | intros; exact I]. Qed.
Lemma G_mid2_probs : gprobs_ok G_mid2.
Proof.
  unfold G_mid2. apply gprobs_bind; [apply g_flag_probs|]. intros se. apply gprobs_bind; [apply G_sg_probs|]. intros sg.
  apply gprobs_bind; [apply G_mid3_probs | intros; exact I].
Qed.

Lemma segu_state_fields v r d : v_b (segu_state v r d) = d /\ v_ref_delta (segu_state v r d) = v_ref_delta v /\ v_mode_delta (segu_state v r d) = v_mode_delta v.
Proof. destruct r as [[um dat] pr]. destruct v; repeat split. Qed.

Lemma mid2_model v d K : wsafe d -> big d -> length (v_segment v) = 4%nat -> length (v_segment_tree_nodes v) = 3%nat ->
  length (v_ref_delta v) = 4%nat -> length (v_mode_delta v) = 4%nat ->
  rfh_mid2 v d K =
  (let '(r, d1) := interpG cold_pure G_mid2 d in
   if is_past_eof d1 then Err EBitStreamError else K (mid2_state v r d1) (2 ^ lg_of2 r)).
Proof.
  intros Hw Hb L4 L3 Lr Lm. unfold rfh_mid2, G_mid2.
  destruct (mstep_flag d Hw Hb) as (E & W & B). rewrite E. rewrite !interpG_bind.
  destruct (interpG cold_pure g_flag d) as [se d1]. cbn [fst snd bind] in *. rewrite !interpG_bind.
  set (v1 := set_b (set_segments_enabled v se) d1).
  assert (Eb : v_b v1 = d1) by (destruct v; reflexivity).
  destruct se; unfold G_sg.
  - rewrite (segu_model v1) by (try rewrite Eb; try assumption; destruct v; assumption). rewrite Eb. rewrite !interpG_bind.
    destruct (run_facts G_segu d1 W B G_segu_probs) as [W2 B2].
    destruct (interpG cold_pure G_segu d1) as [r d2]. cbn [fst snd interpG] in *.
    destruct (is_past_eof d2) eqn:E2.
    { cbn [bind]. symmetry. apply (eof_tail _ d2 (fun r d1 => K (mid2_state v r d1) (2 ^ lg_of2 r)) E2). }
    cbn [bind]. rewrite !interpG_bind.
    destruct (segu_state_fields v1 r d2) as (Eb2 & Er2 & Em2).
    rewrite (mid3_model (segu_state v1 r d2) K) by (rewrite ?Eb2, ?Er2, ?Em2; try assumption; destruct v; assumption). rewrite Eb2.
    destruct (interpG cold_pure G_mid3 d2) as [r3 d3]. cbn [interpG]. destruct (is_past_eof d3); [reflexivity|].
    unfold mid2_state, lg_of2, sg_apply. cbn [snd]. f_equal.
    destruct r as [[um dat] pr]. destruct r3 as [[[[ft fl] sh] lf] lg]. unfold v1. destruct lf as [[rm|]|]; destruct v; reflexivity.
  - cbn [bind interpG]. rewrite !interpG_bind.
    rewrite (mid3_model v1 K) by (try rewrite Eb; try assumption; destruct v; assumption). rewrite Eb.
    destruct (interpG cold_pure G_mid3 d1) as [r3 d3]. cbn [interpG]. destruct (is_past_eof d3); [reflexivity|].
    unfold mid2_state, lg_of2, sg_apply. cbn [snd]. f_equal.
    destruct r3 as [[[[ft fl] sh] lf] lg]. unfold v1. destruct lf as [[rm|]|]; destruct v; reflexivity.
Qed.

Definition G_mid : gprog (Z * Z * (bool * option seguR * mid3R)) :=
  gbind (g_lit 1) (fun cs => gbind (g_lit 1) (fun pt => gbind G_mid2 (fun r => GRet (cs, pt, r)))).
Lemma G_mid_probs : gprobs_ok G_mid.
Proof.
  unfold G_mid. apply gprobs_bind; [apply g_lit_probs|]. intros cs. apply gprobs_bind; [apply g_lit_probs|]. intros pt.
  apply gprobs_bind; [apply G_mid2_probs | intros; exact I].
Qed.
Definition mid_state (v : Vp8) (o : Z * Z * (bool * option seguR * mid3R)) (d : Dec) : Vp8 :=
  let '(cs, pt, r) := o in mid2_state (set_frame v (fi_set_pixel_type (v_frame v) pt)) r d.

Lemma mid_model v d K : wsafe d -> big d -> length (v_segment v) = 4%nat -> length (v_segment_tree_nodes v) = 3%nat ->
  length (v_ref_delta v) = 4%nat -> length (v_mode_delta v) = 4%nat ->
  rfh_mid v d true K =
  (let '(o, d1) := interpG cold_pure G_mid d in
   if negb (fst (fst o) =? 0) then Err EColorSpaceInvalid else
   if is_past_eof d1 then Err EBitStreamError else K (mid_state v o d1) (2 ^ lg_of2 (snd o))).
Proof.
  intros Hw Hb L4 L3 Lr Lm. unfold rfh_mid, G_mid.
  destruct (mstep_lit d 1 Hw Hb ltac:(lia)) as (E & W & B & _). rewrite E. rewrite !interpG_bind.
  destruct (interpG cold_pure (g_lit 1) d) as [cs d1]. cbn [fst snd bind] in *. rewrite !interpG_bind.
  destruct (mstep_lit d1 1 W B ltac:(lia)) as (E1 & W1 & B1 & _). rewrite E1.
  destruct (interpG cold_pure (g_lit 1) d1) as [pt d2]. cbn [fst snd bind] in *. rewrite !interpG_bind.
  destruct (interpG cold_pure G_mid2 d2) as [r d3] eqn:ER. cbn [interpG fst snd].
  destruct (negb (cs =? 0)); [reflexivity|]. cbn [bind].
  rewrite (mid2_model _ d2 K) by (try assumption; destruct v; assumption). rewrite ER. reflexivity.
Qed.

(* ---------- Spec side: parse_header in stages ---------- *)
Definition zeros4 : list Z := [0; 0; 0; 0].
Definition spec_lf_block (s : bstate) : (list Z * list Z) * bstate :=
  let '(upd_delta, s) := BoolDec.read_flag s in
  if isone upd_delta then
    let '(r, s) := read_delta_updates [0; 0; 0; 0] s [] in
    let '(m, s) := read_delta_updates [0; 0; 0; 0] s [] in
    ((r, m), s)
  else (([0; 0; 0; 0], [0; 0; 0; 0]), s).

(* colour space, clamp type, use_seg, (update_map, (absolute, q, f), probs), simple, level, sharpness, use_lf_delta, (ref, mode), lg *)
Definition spec_midR := (Z * Z * Z * (bool * (bool * list Z * list Z) * list Z) * Z * Z * Z * Z * (list Z * list Z) * Z)%type.
Definition spec_mid (s : bstate) : spec_midR * bstate :=
  let '(color_space, s) := BoolDec.read_flag s in
  let '(clamp_type, s) := BoolDec.read_flag s in
  let '(use_seg, s) := BoolDec.read_flag s in
  let '(seg, s) := if isone use_seg then spec_segment_block s
                   else ((false, (true, [0; 0; 0; 0], [0; 0; 0; 0]), [255; 255; 255]), s) in
  let '(simple, s) := BoolDec.read_flag s in
  let '(level, s) := BoolDec.read_literal 6 s in
  let '(sharpness, s) := BoolDec.read_literal 3 s in
  let '(use_lf_delta, s) := BoolDec.read_flag s in
  let '(deltas, s) := if isone use_lf_delta then spec_lf_block s else (([0; 0; 0; 0], [0; 0; 0; 0]), s) in
  let '(lg, s) := BoolDec.read_literal 2 s in
  ((color_space, clamp_type, use_seg, seg, simple, level, sharpness, use_lf_delta, deltas, lg), s).

(* quantiser indices, probabilities, use_skip, skip_p *)
Definition spec_tail (s : bstate) : ((Z * Z * Z * Z * Z * Z) * tables * Z * Z) * bstate :=
  let '(base_q, s) := BoolDec.read_literal 7 s in
  let '(dqy1_dc, s) := read_opt_signed 4 s in
  let '(dqy2_dc, s) := read_opt_signed 4 s in
  let '(dqy2_ac, s) := read_opt_signed 4 s in
  let '(dquv_dc, s) := read_opt_signed 4 s in
  let '(dquv_ac, s) := read_opt_signed 4 s in
  let '(_, s) := BoolDec.read_flag s in
  let '(probas, s) := parse_proba_1 coeffs_update_proba coeffs_proba0 s [] in
  let '(use_skip, s) := BoolDec.read_flag s in
  let '(skip_p, s) := if isone use_skip then BoolDec.read_literal 8 s else (0, s) in
  (((base_q, dqy1_dc, dqy2_dc, dqy2_ac, dquv_dc, dquv_ac), probas, use_skip, skip_p), s).

Definition header_of (b7 b9 width height profile : Z) (m : spec_midR) (t : (Z * Z * Z * Z * Z * Z) * tables * Z * Z) : header :=
  let '(color_space, clamp_type, use_seg, seg, simple, level, sharpness, use_lf_delta, deltas, lg) := m in
  let '(update_map, (absolute, seg_q, seg_f), seg_probs) := seg in
  let '(ref_d, mode_d) := deltas in
  let '((base_q, dqy1_dc, dqy2_dc, dqy2_ac, dquv_dc, dquv_ac), probas, use_skip, skip_p) := t in
  mkH width height (Z.shiftr b7 6) (Z.shiftr b9 6) profile color_space clamp_type
      (isone use_seg) update_map absolute seg_q seg_f seg_probs
      (isone simple) level sharpness (isone use_lf_delta) ref_d mode_d
      (Z.shiftl 1 lg) base_q dqy1_dc dqy2_dc dqy2_ac dquv_dc dquv_ac probas (isone use_skip) skip_p.

Definition lg_of_spec (m : spec_midR) : Z := snd m.

Lemma parse_header_eq data : parse_header data =
  match data with
  | b0 :: b1 :: b2 :: b3 :: b4 :: b5 :: b6 :: b7 :: b8 :: b9 :: body =>
    let bits := b0 + 256 * b1 + 65536 * b2 in
    let profile := Z.land (Z.shiftr bits 1) 7 in
    let part_len := Z.shiftr bits 5 in
    let width := Z.land (b6 + 256 * b7) 16383 in
    let height := Z.land (b8 + 256 * b9) 16383 in
    if negb (Z.even bits) then None else
    if 3 <? profile then None else
    if Z.land (Z.shiftr bits 4) 1 =? 0 then None else
    if negb ((b3 =? 157) && (b4 =? 1) && (b5 =? 42)) then None else
    if (width =? 0) || (height =? 0) then None else
    if zlength body <? part_len then None else
    let '(p0, after) := split_at part_len body in
    let '(m, s1) := spec_mid (bd_init p0) in
    match parse_partitions (Z.shiftl 1 (lg_of_spec m)) after with
    | None => None
    | Some parts => let '(t, s2) := spec_tail s1 in Some (header_of b7 b9 width height profile m t, s2, parts)
    end
  | _ => None
  end.
Proof.
  unfold parse_header.
  do 10 (destruct data as [|? data]; [reflexivity|]).
  cbv zeta.
  repeat match goal with |- (if ?c then _ else _) = (if ?c then _ else _) => destruct c; [reflexivity|] end.
  destruct (split_at _ data) as [p0 after].
  unfold spec_mid, spec_tail, spec_lf_block, spec_segment_block, lg_of_spec, header_of.
  generalize (bd_init p0). intros s.
  repeat (cbn [snd]; match goal with |- match ?x with _ => _ end = _ => destruct x end); reflexivity.
Qed.

Lemma lit1_flag s : BoolDec.read_flag s = interpG bdbit (g_lit 1) s.
Proof.
  rewrite <- sstep_lit by lia. unfold BoolDec.read_literal, BoolDec.read_flag. change (Z.to_nat 1) with 1%nat. cbn [BoolDec.read_literal_aux].
  destruct (BoolDec.read_bool 128 s) as [b s']. reflexivity.
Qed.

Lemma isone_b2z b : isone (ArithDec.b2z b) = b. Proof. destruct b; reflexivity. Qed.

Lemma lfadj_spec s : spec_lf_block s =
  (let '(o, s2) := interpG bdbit G_lfadj s in (match o with Some rm => rm | None => ([0; 0; 0; 0], [0; 0; 0; 0]) end, s2)).
Proof.
  unfold spec_lf_block, G_lfadj. rewrite sstep_flag. rewrite interpG_bind. destruct (interpG bdbit g_flag s) as [f s1]. cbn [fst snd].
  rewrite isone_b2z. destruct f; cbn [interpG]; [|reflexivity].
  rewrite !read_delta_updates_zero. rewrite read_opt_signed_n by lia. rewrite interpG_bind.
  destruct (interpG bdbit (G_arr 4 6) s1) as [r s2]. cbn [rev_append]. rewrite read_delta_updates_zero. rewrite read_opt_signed_n by lia. rewrite interpG_bind.
  destruct (interpG bdbit (G_arr 4 6) s2) as [m s3]. cbn [rev_append interpG]. reflexivity.
Qed.

Definition seg_of (sg : option seguR) : bool * (bool * list Z * list Z) * list Z :=
  match sg with
  | Some (um, dat, pr) => (um, match dat with Some x => x | None => (true, [0; 0; 0; 0], [0; 0; 0; 0]) end, match pr with Some p => p | None => [255; 255; 255] end)
  | None => (false, (true, [0; 0; 0; 0], [0; 0; 0; 0]), [255; 255; 255])
  end.
Definition lf_of (lf : lfR) : list Z * list Z :=
  match lf with Some (Some rm) => rm | _ => ([0; 0; 0; 0], [0; 0; 0; 0]) end.
Definition is_some {A} (o : option A) : bool := match o with Some _ => true | None => false end.

Definition spec_of_mid (o : Z * Z * (bool * option seguR * mid3R)) : spec_midR :=
  let '(cs, pt, (se, sg, (ft, fl, sh, lf, lg))) := o in
  (cs, pt, ArithDec.b2z se, seg_of sg, ArithDec.b2z ft, fl, sh, ArithDec.b2z (is_some lf), lf_of lf, lg).

Lemma spec_mid_eq s : spec_mid s = (let '(o, s') := interpG bdbit G_mid s in (spec_of_mid o, s')).
Proof.
  unfold spec_mid, G_mid, G_mid2, G_mid3, G_mid4.
  rewrite lit1_flag. rewrite !interpG_bind. destruct (interpG bdbit (g_lit 1) s) as [cs s1].
  rewrite lit1_flag. rewrite !interpG_bind. destruct (interpG bdbit (g_lit 1) s1) as [pt s2].
  rewrite !interpG_bind. rewrite sstep_flag. destruct (interpG bdbit g_flag s2) as [se s3]. cbn [fst snd]. rewrite isone_b2z.
  rewrite !interpG_bind.
  assert (Hsg : (if se then spec_segment_block s3 else (false, (true, [0; 0; 0; 0], [0; 0; 0; 0]), [255; 255; 255], s3))
                = (let '(sg, s4) := interpG bdbit (G_sg se) s3 in (seg_of sg, s4))).
  { destruct se; unfold G_sg; [|reflexivity]. rewrite segu_spec. rewrite interpG_bind.
    destruct (interpG bdbit G_segu s3) as [[[um dat] pr] s4]. reflexivity. }
  rewrite Hsg. clear Hsg. destruct (interpG bdbit (G_sg se) s3) as [sg s4].
  rewrite !interpG_bind. rewrite sstep_flag. destruct (interpG bdbit g_flag s4) as [ft s5]. cbn [fst snd].
  rewrite !interpG_bind. rewrite sstep_lit by lia. destruct (interpG bdbit (g_lit 6) s5) as [fl s6].
  rewrite !interpG_bind. rewrite sstep_lit by lia. destruct (interpG bdbit (g_lit 3) s6) as [sh s7].
  rewrite !interpG_bind. rewrite sstep_flag. destruct (interpG bdbit g_flag s7) as [lfe s8]. cbn [fst snd]. rewrite isone_b2z.
  rewrite !interpG_bind.
  assert (Hlf : (if lfe then spec_lf_block s8 else ([0; 0; 0; 0], [0; 0; 0; 0], s8))
                = (let '(lf, s9) := interpG bdbit (G_lf lfe) s8 in (lf_of lf, s9)) /\
                is_some (fst (interpG bdbit (G_lf lfe) s8)) = lfe).
  { destruct lfe; unfold G_lf; [|split; reflexivity]. rewrite lfadj_spec. rewrite interpG_bind.
    destruct (interpG bdbit G_lfadj s8) as [o s9]. split; [destruct o; reflexivity | reflexivity]. }
  destruct Hlf as [Hlf Hsome]. rewrite Hlf. clear Hlf. destruct (interpG bdbit (G_lf lfe) s8) as [lf s9]. cbn [fst] in Hsome.
  rewrite !interpG_bind. rewrite sstep_lit by lia. destruct (interpG bdbit (g_lit 2) s9) as [lg s10].
  cbn [interpG]. unfold spec_of_mid. rewrite Hsome. reflexivity.
Qed.

Definition spec_of_tail (o : (Z * Z * Z * Z * Z * Z) * tables * option Z) : (Z * Z * Z * Z * Z * Z) * tables * Z * Z :=
  let '(q, P1, sp) := o in (q, P1, ArithDec.b2z (is_some sp), match sp with Some x => x | None => 0 end).

Lemma lit1_values {St} (bit : St -> Z -> bool * St) s : fst (interpG bit (g_lit 1) s) = ArithDec.b2z (fst (bit s 128)).
Proof. unfold g_lit. rewrite interpG_lift. change (Z.to_nat 1) with 1%nat. cbn [lit_prog interpP]. destruct (bit s 128) as [b s1]. destruct b; reflexivity. Qed.

Lemma spec_tail_eq s : spec_tail s = (let '(o, s') := interpG bdbit (G_tail coeffs_proba0) s in (spec_of_tail o, s')).
Proof.
  unfold spec_tail, G_tail.
  pose proof (quant_reads_spec s) as EQ.
  destruct (BoolDec.read_literal 7 s) as [base_q s1]. destruct (read_opt_signed 4 s1) as [q1 s2]. destruct (read_opt_signed 4 s2) as [q2 s3].
  destruct (read_opt_signed 4 s3) as [q3 s4]. destruct (read_opt_signed 4 s4) as [q4 s5]. destruct (read_opt_signed 4 s5) as [q5 s6].
  rewrite !interpG_bind. rewrite <- EQ.
  rewrite lit1_flag. rewrite !interpG_bind. destruct (interpG bdbit (g_lit 1) s6) as [rf s7].
  rewrite !interpG_bind. rewrite <- coeff_update_probs_normative. rewrite spec_p1. cbn [rev_append].
  destruct (interpG bdbit (G_p1 vp8_COEFF_UPDATE_PROBS coeffs_proba0) s7) as [P1 s8].
  rewrite !interpG_bind. unfold G_skip. rewrite !interpG_bind.
  pose proof (lit1_values bdbit s8) as Hv. rewrite lit1_flag. destruct (interpG bdbit (g_lit 1) s8) as [us s9]. cbn [fst] in Hv.
  unfold isone. destruct (us =? 1) eqn:Eus.
  - rewrite sstep_lit by lia. rewrite !interpG_bind. destruct (interpG bdbit (g_lit 8) s9) as [x s10]. cbn [interpG].
    unfold spec_of_tail. cbn [is_some ArithDec.b2z]. apply Z.eqb_eq in Eus. clear Hv. subst us. reflexivity.
  - cbn [interpG]. unfold spec_of_tail. cbn [is_some ArithDec.b2z].
    destruct (fst (bdbit s8 128)); cbn in Hv; subst us; [discriminate Eus | reflexivity].
Qed.
