(* C01 / C03 / C10, lossless entropy decoder and frame: the delivered theorems restated in the style of Properties/*.v
   (`Theorem ... Proof. exact lemma. Qed.`), ready to be copied into Properties/C01.v (module R), Properties/C03.v (module RS)
   and Properties/C10.v (module RC).  Nothing is proved here.
   Vocabulary: `Rel st r` (C01_stream): the reader state r holds exactly the unread bits of the specification stream st;
   `represents t c n` (C01_symbols): table t decodes the code c (symbols < n); `strict_*` (C01_codes / C01_groups / C01_top):
   the specification with the crate's rule that a simple code may not name a symbol outside its alphabet;
   `px_at data i` = bytes 4i..4i+3 of the decoder's buffer, `px_of p` = (R, G, B, A) of the ARGB word p (C01_pixlib). *)
From Coq Require Import ZArith List.
From WebP Require Import Lib.Res Lib.Arr Lib.ZBits Spec.PrefixCode Model.LosslessLib Model.BitReader Model.Huffman Model.Lossless
  Proofs.Lossless_BitReader Proofs.Lossless_HuffmanSafe Proofs.Lossless_PixelSafe Proofs.C04_bits
  Proofs.C01_stream Proofs.C01_symbols Proofs.C01_codes Proofs.C01_pixlib Proofs.C01_pixels Proofs.C01_groups
  Proofs.C01_gspec Proofs.C01_final Proofs.C01_top.
Import ListNotations.
Open Scope Z_scope.

Module R.   (* -> Properties/C01.v *)
  (* (1) streams *)
  Theorem stream_init : forall d sch, Forall byte d -> Rel (V.Stream [] d) (init d sch).
  Proof. exact Rel_init. Qed.

  Theorem stream_fill : forall st r, Rel st r -> exists r', fill r = Ok r' /\ Rel st r' /\ (56 <= nbits r' \/ data r' = []).
  Proof. exact fill_Rel. Qed.

  Theorem stream_read_bits : forall st r tb n, Rel st r -> 0 <= n <= 32 -> n <= tb ->
    match V.read_bits (Z.to_nat n) st with
    | Some (v, st') => exists r', read_bits r tb n = Ok (v, r') /\ Rel st' r' /\ 0 <= v < 2 ^ n
    | None => read_bits r tb n = Err EBitStreamError
    end.
  Proof. exact read_bits_Rel. Qed.

  (* (2) prefix codes: acceptance (Kraft), symbol decoding, description reading *)
  Theorem code_acceptance : forall lens, lens_ok lens -> Z.of_nat (length lens) <= 5957 ->
    ((exists t, build_implicit lens = Ok t) <-> (exists c, V.make_code lens = Some c)) /\
    ((exists c, V.make_code lens = Some c) <-> nz lens = 1 \/ (2 <= nz lens /\ kraft lens 15 = 2 ^ 15)).
  Proof. exact acceptance. Qed.

  Theorem code_tables : forall lens, lens_ok lens -> Z.of_nat (length lens) <= 5957 ->
    match V.make_code lens with
    | Some c => exists t, build_implicit lens = Ok t /\ represents t c (Z.of_nat (length lens))
    | None => build_implicit lens = Err EHuffmanError
    end.
  Proof. exact build_make. Qed.

  Theorem code_description : forall a st r, Rel st r -> 2 <= a <= 5957 ->
    match strict_prefix_code a st with
    | Some (c, st') => exists t r', read_huffman_code r a = Ok (t, r') /\ Rel st' r' /\ represents t c a
    | None => exists e, read_huffman_code r a = Err e
    end.
  Proof. exact read_huffman_code_refines. Qed.

  Theorem code_description_spec : forall a st r, Rel st r -> 256 <= a <= 5957 ->
    match V.read_prefix_code a st with
    | Some (c, st') => exists t r', read_huffman_code r a = Ok (t, r') /\ Rel st' r' /\ represents t c a
    | None => exists e, read_huffman_code r a = Err e
    end.
  Proof. exact read_huffman_code_refines_256. Qed.

  Theorem code_description_sound : forall a st r t r', Rel st r -> 2 <= a <= 5957 -> read_huffman_code r a = Ok (t, r') ->
    exists c st', V.read_prefix_code a st = Some (c, st') /\ Rel st' r' /\ represents t c a.
  Proof. exact read_huffman_code_sound. Qed.

  Theorem strict_code_is_spec_code : forall a s x, strict_prefix_code a s = Some x -> V.read_prefix_code a s = Some x.
  Proof. exact strict_prefix_code_sound. Qed.

  (* FINDING: the specification (libwebp) drops a simple-code symbol >= 40 of a distance code; the crate rejects the stream *)
  Theorem dropped_symbol_refuted :
    let d := [7; 64; 6] in
    (exists st', V.read_prefix_code 40 (V.Stream [] d) = Some (V.Symbol 0, st')) /\
    strict_prefix_code 40 (V.Stream [] d) = None /\
    read_huffman_code (BitReader.init d []) 40 = Err EBitStreamError.
  Proof. exact simple_dropped_symbol_refuted. Qed.

  (* (4) the pixel loop *)
  Theorem pixel_loop : forall im h w hgt, info_rel im h w hgt -> 1 <= w <= 65535 -> 1 <= hgt <= 65536 ->
    forall st br data, Rel st br -> zlen data = 4 * (w * hgt) ->
    cache_rel (V.cache_bits im) (amake (Z.to_N (2 ^ V.cache_bits im))) (h_cache h) ->
    match V.decode_pixels im st with
    | Some (pixels, st') =>
        exists br' data', decode_image_data br w hgt h data = Ok (br', data') /\ Rel st' br' /\ zlen data' = 4 * (w * hgt) /\
                          forall i, 0 <= i < w * hgt -> px_at data' i = px_of (V.pix pixels i) /\ pix32 (V.pix pixels i)
    | None => exists e, decode_image_data br w hgt h data = Err e
    end.
  Proof. exact decode_image_data_refines. Qed.

  (* (3) whole entropy-coded images *)
  Theorem image_entropy : forall lvl st r w hgt data, Rel st r -> 1 <= w <= 65535 -> 1 <= hgt <= 65536 -> zlen data = 4 * (w * hgt) ->
    match strict_entropy_coded_image w hgt st with
    | Some (pixels, st') =>
        exists r' data', decode_image_stream (S lvl) r w hgt false data = Ok (r', data') /\ Rel st' r' /\
                         zlen data' = 4 * (w * hgt) /\
                         forall i, 0 <= i < w * hgt -> px_at data' i = px_of (V.pix pixels i) /\ pix32 (V.pix pixels i)
    | None => exists e, decode_image_stream (S lvl) r w hgt false data = Err e
    end.
  Proof. exact decode_image_stream_entropy. Qed.

  Theorem image_spatial : forall lvl st r w hgt data, Rel st r -> 1 <= w <= 65535 -> 1 <= hgt <= 65535 -> zlen data = 4 * (w * hgt) ->
    match strict_spatially_coded_image w hgt st with
    | Some (pixels, st') =>
        exists r' data', decode_image_stream (S (S lvl)) r w hgt true data = Ok (r', data') /\ Rel st' r' /\
                         zlen data' = 4 * (w * hgt) /\
                         forall i, 0 <= i < w * hgt -> px_at data' i = px_of (V.pix pixels i) /\ pix32 (V.pix pixels i)
    | None => exists e, decode_image_stream (S (S lvl)) r w hgt true data = Err e
    end.
  Proof. exact decode_image_stream_spatial. Qed.

  Theorem strict_image_is_spec_image : forall w h s x, strict_spatially_coded_image w h s = Some x -> V.spatially_coded_image w h s = Some x.
  Proof. exact strict_spatial_sound. Qed.

  (* the frame *)
  Theorem strict_decode_is_spec_decode : forall data x, strict_decode_rgba data = Some x -> V.decode_rgba data = Some x.
  Proof. exact strict_decode_rgba_sound. Qed.

  Theorem frame_matches_spec : forall data sched W h buf pixels, Forall byte data -> Z.of_nat (length buf) = 4 * (W * h) ->
    V.decode_rgba data = Some (W, h, pixels) -> codes_in_format data ->
    (forall s0, V.read_header (V.Stream [] data) = Some (W, h, s0) -> in_format W h s0) ->
    decode_frame data sched W h false buf = Ok pixels.
  Proof. exact decode_frame_matches_spec. Qed.

  Theorem frame_implicit_matches_spec : forall data sched W h buf pixels, Forall byte data -> Z.of_nat (length buf) = 4 * (W * h) ->
    V.decode_implicit_rgba W h data = Some pixels -> codes_in_format_implicit W h data -> in_format W h (V.Stream [] data) ->
    decode_frame data sched W h true buf = Ok pixels.
  Proof. exact decode_frame_implicit_matches_spec. Qed.

  Theorem frame_sound : forall data sched W h buf pixels, Forall byte data -> Z.of_nat (length buf) = 4 * (W * h) ->
    decode_frame data sched W h false buf = Ok pixels ->
    (forall s0, V.read_header (V.Stream [] data) = Some (W, h, s0) -> in_format W h s0) ->
    V.decode_rgba data = Some (W, h, pixels).
  Proof. exact decode_frame_sound. Qed.
End R.

Module RS.   (* -> Properties/C03.v *)
  Theorem header_establishes_pixel_invariant : forall im h w hgt, info_rel im h w hgt ->
    info_ok h w hgt (280 + V.cache_size_of (V.cache_bits im)).
  Proof. exact info_rel_ok. Qed.

  Theorem entropy_decoder_safe : forall br s xs ys (argb : bool) data,
    rel br s -> 1 <= xs <= 16384 -> 1 <= ys <= 16384 -> zlen data = 4 * (xs * ys) ->
    match decode_image_stream STREAM_LEVELS br xs ys argb data with Panic _ => False | OutOfFuel => False | _ => True end.
  Proof. exact decode_image_stream_no_panic. Qed.

  Theorem frame_safe : forall data sched W h buf, Forall byte data -> zlen buf = 4 * (W * h) ->
    (forall p, decode_frame_arr data sched W h false buf <> Panic p) /\ decode_frame_arr data sched W h false buf <> OutOfFuel.
  Proof. exact decode_frame_no_panic. Qed.

  Theorem frame_implicit_safe : forall data sched W h buf, Forall byte data -> zlen buf = 4 * (W * h) ->
    1 <= W <= 16384 -> 1 <= h <= 16384 ->
    (forall p, decode_frame_arr data sched W h true buf <> Panic p) /\ decode_frame_arr data sched W h true buf <> OutOfFuel.
  Proof. exact decode_frame_implicit_no_panic. Qed.

  Theorem frame_rejects_invalid : forall data sched W h buf, Forall byte data -> zlen buf = 4 * (W * h) ->
    V.decode data = None -> exists e, decode_frame_arr data sched W h false buf = Err e.
  Proof. exact decode_frame_rejects. Qed.
End RS.

Module RC.   (* -> Properties/C10.v *)
  Theorem entropy_decoder_schedule_independent : forall d sched1 sched2 xs ys (argb : bool) data,
    Forall byte d -> 1 <= xs <= 16384 -> 1 <= ys <= 16384 -> zlen data = 4 * (xs * ys) ->
    match decode_image_stream STREAM_LEVELS (BitReader.init d sched1) xs ys argb data,
          decode_image_stream STREAM_LEVELS (BitReader.init d sched2) xs ys argb data with
    | Ok (r1, b1), Ok (r2, b2) => zlen b1 = zlen b2 /\ (forall k, 0 <= k < zlen b1 -> az b1 k = az b2 k) /\
                                  exists s', Rel s' r1 /\ Rel s' r2
    | Err _, Err _ => True
    | _, _ => False
    end.
  Proof. exact decode_image_stream_schedule_independent. Qed.

  Theorem frame_schedule_independent : forall data sched1 sched2 W h buf, Forall byte data -> Z.of_nat (length buf) = 4 * (W * h) ->
    (forall s0, V.read_header (V.Stream [] data) = Some (W, h, s0) -> in_format W h s0) ->
    match decode_frame data sched1 W h false buf, decode_frame data sched2 W h false buf with
    | Ok p1, Ok p2 => p1 = p2
    | Err _, Err _ => True
    | _, _ => False
    end.
  Proof. exact decode_frame_schedule_independent. Qed.
End RC.
