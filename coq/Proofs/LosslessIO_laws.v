(* FaultLaw (Proofs/BitReaderIO_laws.v) for every function of Model/LosslessIO.v: the whole lossless decoder over a reader whose
   fill_buf fails once.

   FaultLaw m : for a state without armed fault, let m make the fill_buf calls [calls r, calls r') on its fault-free run.
     - arming a fault at a call index k inside that interval makes m return Err EIoFault after exactly k + 1 calls;
     - arming a fault at an index outside the interval changes nothing (same result, same state, fault still armed).
   The law holds for fill_io, read_bits_io, consume_io (BitReaderIO_laws), for every `liftM f` (no fill_buf call at all) and is
   closed under bindM and under case analysis on values; loops inherit it by induction on their fuel / trip count.
   The tactic `fl` does the composition. *)
From Coq Require Import ZArith List Bool Lia.
From WebP Require Import Lib.Res Lib.Arr Model.LosslessLib Model.Huffman Model.LosslessTransform Model.Lossless.
From WebP Require Model.BitReader.
From WebP Require Import Model.BitReaderIO Model.LosslessIO Proofs.BitReaderIO_laws.
Import ListNotations.
Open Scope Z_scope.

(* ---------- primitives without I/O ---------- *)
Lemma FaultLaw_lift {A} (f : BitReader.t -> res (A * BitReader.t)) : FaultLaw (liftM f).
Proof.
  intros [b c fa] k H. cbn [fail_at] in H. subst fa. unfold liftM, arm. cbn [br calls fail_at].
  destruct (f b) as [[a b']| e | p | ]; cbn [fst snd br calls fail_at];
    (split; [reflexivity|]; split; [lia|]; split; [lia|]; reflexivity).
Qed.

Lemma FaultLaw_read_symbol t : FaultLaw (read_symbol_io t).
Proof. apply FaultLaw_lift. Qed.

Lemma FaultLaw_get_copy_distance c : FaultLaw (get_copy_distance_io c).
Proof. apply FaultLaw_lift. Qed.

Lemma FaultLaw_peek_symbol t : FaultLaw (peek_symbol_io t).
Proof.
  intros r k H. unfold peek_symbol_io. cbn [fst snd arm br]. split; [assumption|]. split; [lia|]. split; [lia|]. reflexivity.
Qed.

Lemma FaultLaw_fill_if n : FaultLaw (fill_if_io n).
Proof. exact (FaultLaw_if (fun b => BitReader.nbits b <? n) fill_io (retM (Ok tt)) FaultLaw_fill (FaultLaw_ret (Ok tt))). Qed.

Lemma FaultLaw_fast_path nv h grp entered cache index nbs data : FaultLaw (fast_path_io nv h grp entered cache index nbs data).
Proof. apply FaultLaw_lift. Qed.

(* ---------- composition ---------- *)
Ltac fl_step :=
  first
    [ apply FaultLaw_ret
    | apply FaultLaw_fill
    | apply FaultLaw_fill_if
    | apply FaultLaw_read_bits
    | apply FaultLaw_consume
    | apply FaultLaw_read_symbol
    | apply FaultLaw_get_copy_distance
    | apply FaultLaw_peek_symbol
    | apply FaultLaw_fast_path
    | match goal with H : context [FaultLaw] |- _ => apply H end
    | solve [auto with faultlaw nocore]
    | apply FaultLaw_bind; [ | intro ]
    | progress cbv beta zeta
    | match goal with |- FaultLaw (match ?x with _ => _ end) => destruct x end ].
Ltac fl := repeat fl_step.

Create HintDb faultlaw.

Lemma FaultLaw_read_color_cache : FaultLaw read_color_cache_io.
Proof. unfold read_color_cache_io. fl. Qed.
#[export] Hint Resolve FaultLaw_read_color_cache : faultlaw.

Lemma FaultLaw_code_lengths_loop : forall fuel table num_symbols symbol max_symbol prev cl,
  FaultLaw (code_lengths_loop_io fuel table num_symbols symbol max_symbol prev cl).
Proof.
  induction fuel as [|fuel IH]; intros; cbn [code_lengths_loop_io]; fl.
Qed.
#[export] Hint Resolve FaultLaw_code_lengths_loop : faultlaw.

Lemma FaultLaw_read_huffman_code_lengths clcl n : FaultLaw (read_huffman_code_lengths_io clcl n).
Proof. unfold read_huffman_code_lengths_io. fl. Qed.
#[export] Hint Resolve FaultLaw_read_huffman_code_lengths : faultlaw.

Lemma FaultLaw_read_cl_cl : forall n i cl, FaultLaw (read_cl_cl_io n i cl).
Proof. induction n as [|n IH]; intros; cbn [read_cl_cl_io]; fl. Qed.
#[export] Hint Resolve FaultLaw_read_cl_cl : faultlaw.

Lemma FaultLaw_read_huffman_code a : FaultLaw (read_huffman_code_io a).
Proof. unfold read_huffman_code_io. fl. Qed.
#[export] Hint Resolve FaultLaw_read_huffman_code : faultlaw.

Lemma FaultLaw_pixel_nonfast k width nv grp cache index nbs data :
  (forall c i d, FaultLaw (k c i d)) -> FaultLaw (pixel_nonfast_io k width nv grp cache index nbs data).
Proof. intros Hk. unfold pixel_nonfast_io. fl. Qed.

Lemma FaultLaw_pixel_loop : forall fuel width nv h grp cache index nbs data,
  FaultLaw (pixel_loop_io fuel width nv h grp cache index nbs data).
Proof.
  induction fuel as [|fuel IH]; intros; cbn [pixel_loop_io].
  { fl. }
  repeat (first [ apply FaultLaw_pixel_nonfast; intros | fl_step ]).
Qed.
#[export] Hint Resolve FaultLaw_pixel_loop : faultlaw.

Lemma FaultLaw_decode_image_data w h info data : FaultLaw (decode_image_data_io w h info data).
Proof. unfold decode_image_data_io. fl. Qed.
#[export] Hint Resolve FaultLaw_decode_image_data : faultlaw.

Lemma FaultLaw_read_group cb : FaultLaw (read_group_io cb).
Proof. unfold read_group_io. fl. Qed.
#[export] Hint Resolve FaultLaw_read_group : faultlaw.

Lemma FaultLaw_read_groups : forall n cb acc, FaultLaw (read_groups_io n cb acc).
Proof. induction n as [|n IH]; intros; cbn [read_groups_io]; fl. Qed.
#[export] Hint Resolve FaultLaw_read_groups : faultlaw.

Lemma FaultLaw_decode_image_stream : forall lvl xs ys argb data, FaultLaw (decode_image_stream_io lvl xs ys argb data).
Proof. induction lvl as [|lvl IH]; intros; cbn [decode_image_stream_io]; fl. Qed.
#[export] Hint Resolve FaultLaw_decode_image_stream : faultlaw.

Lemma FaultLaw_read_transforms_loop : forall fuel d xs, FaultLaw (read_transforms_loop_io fuel d xs).
Proof. induction fuel as [|fuel IH]; intros; cbn [read_transforms_loop_io]; fl. Qed.
#[export] Hint Resolve FaultLaw_read_transforms_loop : faultlaw.

Lemma FaultLaw_read_transforms d : FaultLaw (read_transforms_io d).
Proof. unfold read_transforms_io. fl. Qed.
#[export] Hint Resolve FaultLaw_read_transforms : faultlaw.

Theorem FaultLaw_decode_frame w h implicit buf : FaultLaw (decode_frame_m w h implicit buf).
Proof. unfold decode_frame_m. fl. Qed.
