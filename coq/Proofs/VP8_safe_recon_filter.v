(* C03 for the VP8 key-frame decoder, reconstruction half, part 1: the loop-filter pass never panics.
     cfp_safe                 Gen.Kernels.calculate_filter_parameters on EVERY header state within the ranges the parser can
                              produce (6-bit level, 6-bit signed segment level and deltas, 3-bit sharpness; NO restriction on the
                              segment-adjusted base: the function clamps it to 0..63 first): no i32 / u8 overflow, and the three
                              outputs are a level in 0..63, an interior limit in 1..63, a hev threshold in 0..2;
     filter_parameters_safe   the same through Vp8Recon.filter_parameters (the `self.segment[segmentid]` lookup succeeds);
     loop_filter_safe         Vp8Decoder::loop_filter on one macroblock of macroblock-aligned byte planes: Ok, and the planes
                              are byte planes of the same sizes afterwards (`mbedge_limit` <= 193 fits a u8, the `usize`
                              subtractions do not wrap, every tap of every edge is inside the plane);
     filter_frame_safe        the whole pass (the `self.macroblocks[mby * mbwidth + mbx]` lookup succeeds).
   The per-stage lemmas of VP8_recon_stages.v are stated for arbitrary limits and an arbitrary reference array; they are
   instantiated here with the decoder array itself as the reference (pst a a w h). *)
From Coq Require Import ZArith NArith List Bool Lia.
From WebP Require Import Lib.Res Lib.ZBits Lib.Arr Gen.Kernels Gen.Tables Spec.VP8 Model.Vp8Predict Model.Vp8Recon
  Proofs.VP8_predict_base Proofs.VP8_filter_params Proofs.VP8_recon_base Proofs.VP8_recon_bytes Proofs.VP8_recon_edge
  Proofs.VP8_recon_stages Proofs.VP8_recon_filter Proofs.VP8_safe_defs.
From WebP Require Model.Vp8Parse.
Import ListNotations.
Open Scope Z_scope.

(* ------------------------------------------------------------------------------------------------------------ *)
(* 1. calculate_filter_parameters                                                                               *)
(* ------------------------------------------------------------------------------------------------------------ *)
(* the kernel reads (frame level, segment flags, segment level) only through the segment-adjusted base ... *)
Lemma cfp_base (frame : Z) (en d : bool) (sl r0 m0 luma sh : Z) :
  -2147483648 <= frame + sl <= 2147483647 ->
  let base := if en then (if d then frame + sl else sl) else frame in
  calculate_filter_parameters frame en d sl r0 m0 luma sh true = calculate_filter_parameters base false false 0 r0 m0 luma sh true /\
  calculate_filter_parameters_ok frame en d sl r0 m0 luma sh true = calculate_filter_parameters_ok base false false 0 r0 m0 luma sh true.
Proof.
  intros Hr base. split.
  - unfold base. destruct en; [destruct d|]; reflexivity.
  - unfold base. unfold calculate_filter_parameters_ok. destruct en; [destruct d|]; cbv zeta; cbv iota;
      try rewrite (proj2 (inr_true (-2147483648) 2147483647 (frame + sl)) Hr); reflexivity.
Qed.

(* ... and the base only through its clamp to 0..63 *)
Lemma cfp_clamp x r0 m0 luma sh :
  let c := Z.min (Z.max x 0) 63 in
  calculate_filter_parameters x false false 0 r0 m0 luma sh true = calculate_filter_parameters c false false 0 r0 m0 luma sh true /\
  calculate_filter_parameters_ok x false false 0 r0 m0 luma sh true = calculate_filter_parameters_ok c false false 0 r0 m0 luma sh true.
Proof.
  intros c.
  assert (Ec : Z.min (Z.max c 0) 63 = c) by (unfold c; lia).
  split.
  - unfold calculate_filter_parameters. cbv zeta. cbv iota. cbn [nth]. rewrite Ec. reflexivity.
  - unfold calculate_filter_parameters_ok. cbv zeta. cbv iota. cbn [nth]. rewrite Ec. reflexivity.
Qed.

Theorem cfp_safe (frame : Z) (en d : bool) (sl r0 m0 luma sh : Z) :
  0 <= frame <= 63 -> lf63 sl -> lf63 r0 -> lf63 m0 -> 0 <= sh <= 7 ->
  calculate_filter_parameters_ok frame en d sl r0 m0 luma sh true = true /\
  exists level il hev,
    calculate_filter_parameters frame en d sl r0 m0 luma sh true = [level; il; hev] /\
    0 <= level <= 63 /\ 1 <= il <= 63 /\ 0 <= hev <= 2.
Proof.
  unfold lf63. intros Hf Hs Hr Hm Hsh.
  destruct (cfp_base frame en d sl r0 m0 luma sh ltac:(lia)) as [E1 O1]. cbv zeta in E1, O1.
  set (base := if en then (if d then frame + sl else sl) else frame) in *.
  destruct (cfp_clamp base r0 m0 luma sh) as [E2 O2]. cbv zeta in E2, O2.
  set (c := Z.min (Z.max base 0) 63) in *.
  assert (Hc : 0 <= c <= 63) by (unfold c; lia).
  destruct (calc_params_reference c false false 0 r0 m0 luma sh Hc ltac:(lia) Hr Hm Hsh Hc) as [E3 O3]. cbv zeta in E3.
  split; [rewrite O1, O2; exact O3|].
  set (level := ref_level c r0 m0 (luma =? 4)) in *.
  pose proof (ref_level_range c r0 m0 (luma =? 4)) as Hl. fold level in Hl.
  exists level, (ref_ilevel level sh), (ref_hev level).
  split; [rewrite E1, E2; exact E3|]. split; [exact Hl|]. split; [apply ref_ilevel_range; assumption|].
  unfold ref_hev. destruct (40 <=? level); [lia|]. destruct (15 <=? level); lia.
Qed.

(* ------------------------------------------------------------------------------------------------------------ *)
(* 2. Vp8Recon.filter_parameters                                                                                *)
(* ------------------------------------------------------------------------------------------------------------ *)
(* the header fields the filter reads, within the ranges of read_frame_header (part of rhdr_ok) *)
Definition fhdr_ok (h : RHdr) : Prop :=
  0 <= rh_filter_level h <= 63 /\ 0 <= rh_sharpness_level h <= 7 /\
  length (rh_segment h) = 4%nat /\ Forall (fun s => lf63 (Vp8Parse.sg_loopfilter_level s)) (rh_segment h) /\
  lf63 (nth 0 (rh_ref_delta h) 0) /\ lf63 (nth 0 (rh_mode_delta h) 0).

Lemma rhdr_ok_fhdr h : rhdr_ok h -> fhdr_ok h.
Proof. intros (_ & _ & _ & _ & H). exact H. Qed.

Definition seg_id_ok (mb : Vp8Parse.MacroBlock) : Prop := 0 <= Vp8Parse.mb_segmentid mb <= 3.

Theorem filter_parameters_safe h mb : fhdr_ok h -> seg_id_ok mb ->
  exists level il hev, filter_parameters h mb = Ok (level, il, hev) /\ 0 <= level <= 63 /\ 1 <= il <= 63 /\ 0 <= hev <= 2.
Proof.
  intros (Hl & Hsh & L4 & Hsegs & Hr & Hm) Hid. unfold seg_id_ok in Hid.
  unfold filter_parameters.
  destruct (nth_error (rh_segment h) (Z.to_nat (Vp8Parse.mb_segmentid mb))) as [seg|] eqn:En.
  2:{ apply nth_error_None in En. lia. }
  apply nth_error_In in En. rewrite Forall_forall in Hsegs. specialize (Hsegs seg En).
  unfold cfp_apply.
  destruct (cfp_safe (rh_filter_level h) (rh_segments_enabled h) (Vp8Parse.sg_delta_values seg) (Vp8Parse.sg_loopfilter_level seg)
              (nth 0 (rh_ref_delta h) 0) (nth 0 (rh_mode_delta h) 0) (Vp8Parse.mb_luma_mode mb) (rh_sharpness_level h)
              Hl Hsegs Hr Hm Hsh) as (Eok & level & il & hev & Ec & Hlv & Hil & Hhev).
  rewrite Eok, Ec. cbn [negb nth]. exists level, il, hev. repeat split; try reflexivity; lia.
Qed.

(* ------------------------------------------------------------------------------------------------------------ *)
(* 3. one macroblock                                                                                            *)
(* ------------------------------------------------------------------------------------------------------------ *)
(* three macroblock-aligned planes of bytes *)
Definition pst3 (mbw mbh : Z) (b : planes3) : Prop :=
  pst (fst (fst b)) (fst (fst b)) (mbw * 16) (mbh * 16) /\
  pst (snd (fst b)) (snd (fst b)) (mbw * 8) (mbh * 8) /\
  pst (snd b) (snd b) (mbw * 8) (mbh * 8).

Lemma pst_self a b w h : pst a b w h -> pst a a w h.
Proof. intros (_ & B & L). split; [apply aeq_refl|]. split; assumption. Qed.

Theorem loop_filter_safe h mx my mb b : fhdr_ok h -> seg_id_ok mb ->
  0 <= mx < rh_mbwidth h -> 0 <= my < rh_mbheight h ->
  pst3 (rh_mbwidth h) (rh_mbheight h) b ->
  exists b', Vp8Recon.loop_filter h mx my mb b = Ok b' /\ pst3 (rh_mbwidth h) (rh_mbheight h) b'.
Proof.
  intros Hh Hid Hmx Hmy Hb. destruct b as [[y u] v]. destruct Hb as (Py & Pu & Pv). cbn [fst snd] in Py, Pu, Pv.
  destruct (filter_parameters_safe h mb Hh Hid) as (level & il & hev & Efp & Hlv & Hil & Hhev).
  unfold Vp8Recon.loop_filter. rewrite Efp. cbn [bind].
  rewrite Z.gtb_ltb. destruct (Z.ltb_spec 0 level) as [Hpos|Hzero].
  2:{ exists (y, u, v). split; [reflexivity|]. split; [exact Py|]. split; [exact Pu|exact Pv]. }
  rewrite (ltb_false 255 ((level + 2) * 2 + il)) by lia.
  rewrite !usub_ok by lia. cbn [bind].
  rewrite !Z.min_r by lia.
  set (el := (level + 2) * 2 + il). set (sl := level * 2 + il).
  destruct (rh_filter_type h) eqn:Esimple.
  - (* simple filter: luma only *)
    destruct (lf_left_simple h (rh_mbheight h) mx my mb il hev el Hmx Hmy y u v y Py Esimple) as (y1 & E1 & P1).
    rewrite E1. cbn [bind]. apply pst_self in P1.
    destruct (lf_inner_v_simple h (rh_mbheight h) mx my mb il hev sl Hmx Hmy y1 u v y1 P1 Esimple) as (y2 & E2 & P2).
    rewrite E2. cbn [bind]. apply pst_self in P2.
    destruct (lf_top_simple h (rh_mbheight h) mx my mb il hev el Hmx Hmy y2 u v y2 P2 Esimple) as (y3 & E3 & P3).
    rewrite E3. cbn [bind]. apply pst_self in P3.
    destruct (lf_inner_h_simple h (rh_mbheight h) mx my mb il hev sl Hmx Hmy y3 u v y3 P3 Esimple) as (y4 & E4 & P4).
    rewrite E4. apply pst_self in P4. exists (y4, u, v). split; [reflexivity|].
    split; [exact P4|]. split; [exact Pu|exact Pv].
  - (* normal filter *)
    destruct (lf_left_normal h (rh_mbheight h) mx my mb il hev el Hmx Hmy y u v y u v Py Pu Pv Esimple)
      as (y1 & u1 & v1 & E1 & Py1 & Pu1 & Pv1).
    rewrite E1. cbn [bind]. apply pst_self in Py1. apply pst_self in Pu1. apply pst_self in Pv1.
    destruct (lf_inner_v_normal h (rh_mbheight h) mx my mb il hev sl Hmx Hmy y1 u1 v1 y1 u1 v1 Py1 Pu1 Pv1 Esimple)
      as (y2 & u2 & v2 & E2 & Py2 & Pu2 & Pv2).
    rewrite E2. cbn [bind]. apply pst_self in Py2. apply pst_self in Pu2. apply pst_self in Pv2.
    destruct (lf_top_normal h (rh_mbheight h) mx my mb il hev el Hmx Hmy y2 u2 v2 y2 u2 v2 Py2 Pu2 Pv2 Esimple)
      as (y3 & u3 & v3 & E3 & Py3 & Pu3 & Pv3).
    rewrite E3. cbn [bind]. apply pst_self in Py3. apply pst_self in Pu3. apply pst_self in Pv3.
    destruct (lf_inner_h_normal h (rh_mbheight h) mx my mb il hev sl Hmx Hmy y3 u3 v3 y3 u3 v3 Py3 Pu3 Pv3 Esimple)
      as (y4 & u4 & v4 & E4 & Py4 & Pu4 & Pv4).
    rewrite E4. apply pst_self in Py4. apply pst_self in Pu4. apply pst_self in Pv4.
    exists (y4, u4, v4). split; [reflexivity|]. split; [exact Py4|]. split; [exact Pu4|exact Pv4].
Qed.

(* ------------------------------------------------------------------------------------------------------------ *)
(* 4. the pass                                                                                                  *)
(* ------------------------------------------------------------------------------------------------------------ *)
Lemma mb_index mbw mbh mx my : 0 <= mx < mbw -> 0 <= my < mbh -> 0 <= my * mbw + mx < mbw * mbh.
Proof. intros Hx Hy. assert (0 <= my * mbw) by nia. assert ((my + 1) * mbw <= mbh * mbw) by nia. lia. Qed.

Theorem filter_frame_safe h mbs b : fhdr_ok h ->
  length mbs = Z.to_nat (rh_mbwidth h * rh_mbheight h) -> Forall seg_id_ok mbs ->
  pst3 (rh_mbwidth h) (rh_mbheight h) b ->
  exists b', filter_frame h mbs b = Ok b' /\ pst3 (rh_mbwidth h) (rh_mbheight h) b'.
Proof.
  intros Hh Hlen Hmbs Hb. unfold filter_frame.
  destruct (rh_filter_level h =? 0); [exists b; split; [reflexivity|exact Hb]|].
  destruct (for_range_inv (fun (_ : Z) (t : planes3) => pst3 (rh_mbwidth h) (rh_mbheight h) t)
              (fun mby b0 => for_range (Z.to_nat (rh_mbwidth h)) 0 (fun mbx b1 =>
                 match nth_error mbs (Z.to_nat (mby * rh_mbwidth h + mbx)) with
                 | None => Panic PIndex
                 | Some mb => Vp8Recon.loop_filter h mbx mby mb b1
                 end) b0)
              (Z.to_nat (rh_mbheight h)) 0 b Hb) as (b' & E & Hb').
  - intros my t Hmy Ht.
    destruct (for_range_inv (fun (_ : Z) (t : planes3) => pst3 (rh_mbwidth h) (rh_mbheight h) t)
                (fun mbx b1 =>
                   match nth_error mbs (Z.to_nat (my * rh_mbwidth h + mbx)) with
                   | None => Panic PIndex
                   | Some mb => Vp8Recon.loop_filter h mbx my mb b1
                   end)
                (Z.to_nat (rh_mbwidth h)) 0 t Ht) as (t' & E' & Ht').
    + intros mx t1 Hmx Ht1.
      pose proof (mb_index (rh_mbwidth h) (rh_mbheight h) mx my ltac:(lia) ltac:(lia)) as Hidx.
      destruct (nth_error mbs (Z.to_nat (my * rh_mbwidth h + mx))) as [mb|] eqn:En.
      2:{ apply nth_error_None in En. lia. }
      apply nth_error_In in En. rewrite Forall_forall in Hmbs.
      apply (loop_filter_safe h mx my mb t1 Hh (Hmbs mb En)); [lia | lia | exact Ht1].
    + exists t'. split; [exact E'|exact Ht'].
  - exists b'. split; [exact E|exact Hb'].
Qed.
