(* vp8.rs read_quantization_indices, the per-segment block (translated on every run by tools/rs2v_imp.py: places read as parameters,
   places written as the result list) computes the dequantisation factors of the reference (Spec.VP8.segment_quant =
   libwebp VP8ParseQuant / RFC 6386 9.6 + 14.1) for every header the bitstream can express:
   7-bit base index, 4-bit signed deltas, 7-bit signed segment values. *)
From Coq Require Import ZArith Lia List Bool.
From WebP Require Import Gen.Tables Gen.Kernels Lib.ZBits Lib.Sweep Spec.VP8 Spec.VP8Tables Proofs.VP8_tables.
Import ListNotations.
Open Scope Z_scope.

(* facts about the two tables at every index 0..127, by exhaustive evaluation *)
Lemma quant_entries_sweep :
  forallb (fun i =>
    let dc := nth (Z.to_nat i) vp8_DC_QUANT 0 in let ac := nth (Z.to_nat i) vp8_AC_QUANT 0 in
    (0 <=? dc) && (dc * 2 <=? 32767) && (0 <=? ac) && (ac * 155 <=? 2147483647)
    && (wrapS 16 (Z.quot (ac * 155) 100) =? ac * 155 / 100)
    && ((if dc >? 132 then 132 else dc) =? nth (Z.to_nat (if 117 <? i then 117 else i)) vp8_DC_QUANT 0))
  (zrange 128 0) = true.
Proof. vm_compute. reflexivity. Qed.

Lemma quant_entries i : 0 <= i <= 127 ->
  let dc := nth (Z.to_nat i) vp8_DC_QUANT 0 in let ac := nth (Z.to_nat i) vp8_AC_QUANT 0 in
  0 <= dc /\ dc * 2 <= 32767 /\ 0 <= ac /\ ac * 155 <= 2147483647
  /\ wrapS 16 (Z.quot (ac * 155) 100) = ac * 155 / 100
  /\ (if dc >? 132 then 132 else dc) = nth (Z.to_nat (if 117 <? i then 117 else i)) vp8_DC_QUANT 0.
Proof.
  intros Hi.
  pose proof (forallb_zrange _ 128 0 quant_entries_sweep i ltac:(lia)) as H. cbv beta zeta in H.
  repeat (apply andb_prop in H; destruct H as [H ?]).
  cbv zeta. repeat split; try (apply Z.leb_le; assumption); apply Z.eqb_eq; assumption.
Qed.

Lemma clamp_index v : wrapU 64 (Z.min (Z.max v 0) 127) = clip 0 127 v /\ 0 <= clip 0 127 v <= 127.
Proof.
  unfold clip. destruct (Z.ltb_spec v 0); [|destruct (Z.ltb_spec 127 v)];
    (split; [rewrite wrapU_small by (change (2 ^ 64) with 18446744073709551616; lia); lia | lia]).
Qed.

Lemma clip117 v : (if 117 <? clip 0 127 v then 117 else clip 0 127 v) = clip 0 117 v.
Proof. unfold clip. destruct (Z.ltb_spec v 0); [reflexivity|]. destruct (Z.ltb_spec 127 v); destruct (Z.ltb_spec 117 v); try lia;
  try reflexivity; destruct (Z.ltb_spec 117 127); try lia; destruct (Z.ltb_spec 117 v); lia. Qed.

Definition quant_list (q : quant) : list Z := [q_y1dc q; q_y1ac q; q_y2dc q; q_y2ac q; q_uvdc q; q_uvac q].

Lemma segment_quantizers_reference (yac ydc y2dc y2ac uvdc uvac : Z) (seg_enabled seg_delta : bool) (seg_level : Z) :
  0 <= yac <= 127 -> -15 <= ydc <= 15 -> -15 <= y2dc <= 15 -> -15 <= y2ac <= 15 -> -15 <= uvdc <= 15 -> -15 <= uvac <= 15 ->
  -127 <= seg_level <= 127 ->
  let q := if seg_enabled then (if seg_delta then seg_level + yac else seg_level) else yac in
  let y2 := nthZ kAcTable (clip 0 127 (q + y2ac)) 0 * 155 / 100 in
  segment_quantizers yac ydc y2dc y2ac uvdc uvac seg_enabled seg_delta seg_level
  = [nthZ kDcTable (clip 0 127 (q + ydc)) 0; nthZ kAcTable (clip 0 127 q) 0; nthZ kDcTable (clip 0 127 (q + y2dc)) 0 * 2;
     (if y2 <? 8 then 8 else y2); nthZ kDcTable (clip 0 117 (q + uvdc)) 0; nthZ kAcTable (clip 0 127 (q + uvac)) 0]
  /\ segment_quantizers_ok yac ydc y2dc y2ac uvdc uvac seg_enabled seg_delta seg_level = true.
Proof.
  intros Hy H1 H2 H3 H4 H5 Hs q y2.
  assert (Hq : -127 <= q <= 254) by (unfold q; destruct seg_enabled; [destruct seg_delta|]; lia).
  unfold y2. rewrite <- dc_quant_normative, <- ac_quant_normative. unfold nthZ.
  split.
  - unfold segment_quantizers. cbv zeta. fold q.
    repeat match goal with |- context [wrapU 64 (Z.min (Z.max ?v 0) 127)] => rewrite (proj1 (clamp_index v)) end.
    destruct (quant_entries _ (proj2 (clamp_index (q + y2ac)))) as (_ & _ & _ & _ & E5 & _). cbv zeta in E5. rewrite E5.
    destruct (quant_entries _ (proj2 (clamp_index (q + uvdc)))) as (_ & _ & _ & _ & _ & E6). cbv zeta in E6.
    rewrite clip117 in E6. rewrite <- E6.
    destruct (_ <? 8); destruct (_ >? 132); reflexivity.
  - unfold segment_quantizers_ok. cbv zeta. fold q.
    repeat match goal with |- context [wrapU 64 (Z.min (Z.max ?v 0) 127)] => rewrite (proj1 (clamp_index v)) end.
    pose proof (clamp_index (q + ydc)) as [_ I1]. pose proof (clamp_index q) as [_ I2]. pose proof (clamp_index (q + y2dc)) as [_ I3].
    pose proof (clamp_index (q + y2ac)) as [_ I4]. pose proof (clamp_index (q + uvdc)) as [_ I5]. pose proof (clamp_index (q + uvac)) as [_ I6].
    destruct (quant_entries _ I3) as (D1 & D2 & _). destruct (quant_entries _ I4) as (_ & _ & A1 & A2 & _). cbv zeta in D1, D2, A1, A2.
    assert (Q : 0 <= Z.quot (nth (Z.to_nat (clip 0 127 (q + y2ac))) vp8_AC_QUANT 0 * 155) 100 <= 2147483647).
    { rewrite Z.quot_div_nonneg by lia. split; [apply Z.div_pos; lia|]. apply Z.div_le_upper_bound; lia. }
    assert (B : (if seg_enabled then if seg_delta then inr (-32768) 32767 (seg_level + yac) else true else true) = true).
    { destruct seg_enabled; [destruct seg_delta|]; try reflexivity. apply inr_true; lia. }
    rewrite B. cbn [andb].
    repeat (apply andb_true_intro; split); try (apply inr_true; lia); try (apply Z.leb_le; lia); try (apply Z.ltb_lt; lia).
Qed.

(* the same against Spec.VP8.segment_quant on a parsed header *)
Lemma segment_quant_refine (h : header) (seg : Z) :
  0 <= h_base_q h <= 127 -> -127 <= nthZ (h_seg_quant h) seg 0 <= 127 ->
  -15 <= h_dqy1_dc h <= 15 -> -15 <= h_dqy2_dc h <= 15 -> -15 <= h_dqy2_ac h <= 15 -> -15 <= h_dquv_dc h <= 15 -> -15 <= h_dquv_ac h <= 15 ->
  segment_quantizers (h_base_q h) (h_dqy1_dc h) (h_dqy2_dc h) (h_dqy2_ac h) (h_dquv_dc h) (h_dquv_ac h)
                     (h_use_segment h) (negb (h_absolute h)) (nthZ (h_seg_quant h) seg 0)
  = quant_list (segment_quant h seg)
  /\ segment_quantizers_ok (h_base_q h) (h_dqy1_dc h) (h_dqy2_dc h) (h_dqy2_ac h) (h_dquv_dc h) (h_dquv_ac h)
                     (h_use_segment h) (negb (h_absolute h)) (nthZ (h_seg_quant h) seg 0) = true.
Proof.
  intros Hb Hs H1 H2 H3 H4 H5.
  destruct (segment_quantizers_reference _ _ _ _ _ _ (h_use_segment h) (negb (h_absolute h)) _ Hb H1 H2 H3 H4 H5 Hs) as [E O].
  split; [|exact O]. rewrite E. unfold segment_quant, quant_list. cbn [q_y1dc q_y1ac q_y2dc q_y2ac q_uvdc q_uvac].
  assert (Eq : (if h_use_segment h then if negb (h_absolute h) then nthZ (h_seg_quant h) seg 0 + h_base_q h else nthZ (h_seg_quant h) seg 0
                else h_base_q h)
               = (if h_use_segment h then nthZ (h_seg_quant h) seg 0 + (if h_absolute h then 0 else h_base_q h) else h_base_q h)).
  { destruct (h_use_segment h); [|reflexivity]. destruct (h_absolute h); cbn [negb]; lia. }
  rewrite Eq. reflexivity.
Qed.
