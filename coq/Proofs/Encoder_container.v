(* C09 at the Model level: whenever the frame encodes, WebPEncoder::encode (Model.Encoder.encode) writes exactly the file
   the container specification prescribes (Spec.WebPFile.lossless_file): RIFF size = length - 8, chunks in the order
   VP8X, ICCP, VP8L, EXIF, XMP, each even-padded, VP8X flags and canvas as the arguments say.  And invalid dimensions
   are rejected with InvalidDimensions before anything is written (C04). *)
From Coq Require Import ZArith List Bool Lia.
From WebP Require Import Lib.Res Lib.ZBits Gen.Kernels Model.EncoderHeap Model.Encoder Spec.WebPFile Proofs.Huffman_lists.
Import ListNotations.
Open Scope Z_scope.
Open Scope res_scope.

(* ---- Spec-level facts about the layout ---- *)
Lemma flen_app (a b : list Z) : flen (a ++ b) = flen a + flen b.
Proof. unfold flen. rewrite app_length. lia. Qed.

Lemma chunk_even fourcc payload : flen fourcc = 4 -> Z.even (flen (chunk fourcc payload)) = true.
Proof.
  intros H4. unfold chunk. rewrite !flen_app, H4. change (flen (le32 (flen payload))) with 4.
  destruct (Z.odd (flen payload)) eqn:E.
  - apply Z.odd_spec in E. destruct E as [m Hm]. apply Z.even_spec. exists (m + 5). change (flen [0]) with 1. lia.
  - assert (Ev : Z.even (flen payload) = true) by (rewrite <- Z.negb_odd, E; reflexivity).
    apply Z.even_spec in Ev. destruct Ev as [m Hm]. apply Z.even_spec. exists (m + 4). change (flen (@nil Z)) with 0. lia.
Qed.

(* the RIFF size field holds the file length minus 8 *)
Lemma webp_file_size body : webp_file body = RIFF ++ le32 (flen (webp_file body) - 8) ++ WEBP ++ body.
Proof. unfold webp_file at 2. rewrite !flen_app. change (flen RIFF) with 4. change (flen WEBP) with 4.
  change (flen (le32 (4 + flen body))) with 4. replace (4 + (4 + (4 + flen body)) - 8) with (4 + flen body) by lia. reflexivity. Qed.

Lemma odd_mod2 n : Z.odd n = (n mod 2 =? 1).
Proof.
  destruct (Z.odd n) eqn:E.
  - apply Z.odd_spec in E. destruct E as [m Hm]. symmetry. apply Z.eqb_eq. lia.
  - assert (Ev : Z.even n = true) by (rewrite <- Z.negb_odd, E; reflexivity).
    apply Z.even_spec in Ev. destruct Ev as [m Hm]. symmetry. apply Z.eqb_neq. lia.
Qed.

(* ---- the Model's writes ---- *)
Definition good (s : sink) (out : list Z) : Prop := s_fault s = -1 /\ 0 <= s_calls s /\ sink_bytes s = out.

Lemma write_all_good bytes s out : good s out -> exists s', sink_write_all bytes s = (s', Ok tt) /\ good s' (out ++ bytes).
Proof.
  intros [Hf [Hc Hb]]. unfold sink_write_all. destruct bytes as [|b t].
  - exists s. split; [reflexivity|]. rewrite app_nil_r. repeat split; assumption.
  - replace (s_calls s =? s_fault s) with false by (symmetry; apply Z.eqb_neq; lia).
    eexists. split; [reflexivity|]. unfold good. cbn [s_fault s_calls]. split; [exact Hf|]. split; [lia|].
    unfold sink_bytes in *. cbn [s_out rev]. rewrite concat_app. cbn [concat]. rewrite app_nil_r, Hb. reflexivity.
Qed.

Lemma le_bytes4 x : le_bytes 4 x = le32 x.
Proof. cbn [le_bytes]. unfold le32. rewrite !Z.div_div by lia. reflexivity. Qed.

Lemma write_chunk_good name data s out : flen data < 2 ^ 32 -> good s out ->
  exists s', write_chunk name data s = (s', Ok tt) /\ good s' (out ++ chunk name data).
Proof.
  intros Hl G. unfold write_chunk, mbind.
  destruct (write_all_good name s out G) as [s1 [E1 G1]]. rewrite E1.
  destruct (write_all_good (le_bytes 4 (wrapU 32 (zlen data))) s1 _ G1) as [s2 [E2 G2]]. rewrite E2.
  destruct (write_all_good data s2 _ G2) as [s3 [E3 G3]]. rewrite E3.
  assert (Ew : wrapU 32 (zlen data) = flen data).
  { unfold wrapU, zlen, flen in *. apply Z.mod_small. lia. }
  assert (Eodd : (Z.rem (zlen data) 2 =? 1) = Z.odd (flen data)).
  { unfold zlen, flen. rewrite Z.rem_mod_nonneg by lia. rewrite odd_mod2. reflexivity. }
  rewrite Eodd. unfold chunk. rewrite Ew, le_bytes4 in G3.
  destruct (Z.odd (flen data)).
  - destruct (write_all_good [0] s3 _ G3) as [s4 [E4 G4]]. rewrite E4. exists s4. split; [reflexivity|].
    rewrite <- !app_assoc in G4. exact G4.
  - exists s3. split; [reflexivity|]. rewrite app_nil_r. rewrite <- !app_assoc in G3. exact G3.
Qed.

Lemma chunk_size_spec n : 0 <= n -> n + 9 < 2 ^ 32 -> chunk_size_ok n = true /\ chunk_size n = n + n mod 2 + 8.
Proof.
  intros H0 Hb. change (2 ^ 32) with 4294967296 in Hb. unfold chunk_size_ok, chunk_size, inr, wrapU.
  change (2 ^ 32) with 4294967296. rewrite Z.rem_mod_nonneg by lia.
  destruct (n mod 2 =? 1) eqn:E; [apply Z.eqb_eq in E | apply Z.eqb_neq in E].
  - rewrite (Z.mod_small (n + 1)) by lia. split; [|lia].
    repeat (apply andb_true_iff; split); try reflexivity; apply Z.leb_le; lia.
  - rewrite (Z.mod_small n) by lia. assert (n mod 2 = 0) by lia. split; [|lia].
    repeat (apply andb_true_iff; split); try reflexivity; apply Z.leb_le; lia.
Qed.

Lemma chunk_flen name data : flen name = 4 -> flen (chunk name data) = flen data + flen data mod 2 + 8.
Proof.
  intros H4. unfold chunk. rewrite !flen_app, H4. change (flen (le32 (flen data))) with 4.
  rewrite odd_mod2. destruct (flen data mod 2 =? 1) eqn:E; [apply Z.eqb_eq in E | apply Z.eqb_neq in E].
  - change (flen [0]) with 1. lia.
  - change (flen (@nil Z)) with 0. assert (0 <= flen data) by (unfold flen; lia). lia.
Qed.

Lemma opt_chunk_flen name data : flen name = 4 ->
  flen (opt_chunk name data) = if present data then flen data + flen data mod 2 + 8 else 0.
Proof. intros H4. destruct data as [|x t]; [reflexivity|]. cbn [opt_chunk present]. apply chunk_flen. exact H4. Qed.

Lemma is_empty_present l : is_empty l = negb (present l).
Proof. destruct l; reflexivity. Qed.

(* an optional chunk written by `if !x.is_empty() { write_chunk(..) }` *)
Lemma write_opt_chunk_good name data s out : flen data < 2 ^ 32 -> good s out ->
  exists s', (if is_empty data then ret tt else write_chunk name data) s = (s', Ok tt) /\ good s' (out ++ opt_chunk name data).
Proof.
  intros Hl G. destruct data as [|x t].
  - exists s. split; [reflexivity|]. cbn [opt_chunk]. rewrite app_nil_r. exact G.
  - cbn [is_empty opt_chunk]. apply write_chunk_good; assumption.
Qed.

Lemma mbind_run {S A B} (m : M S A) (f : A -> M S B) s s' a : m s = (s', Ok a) -> mbind m f s = f a s'.
Proof. intros H. unfold mbind. rewrite H. reflexivity. Qed.

Lemma lift_run {S A} (r : res A) (a : A) (s : S) : r = Ok a -> lift r s = (s, Ok a).
Proof. intros ->. reflexivity. Qed.

Lemma cadd_ok m x y : x + y <= m -> cadd m x y = Ok (x + y).
Proof. intros H. unfold cadd. replace (m <? x + y) with false by (symmetry; apply Z.ltb_ge; lia). reflexivity. Qed.

Lemma csub_ok x y : 0 <= x - y -> csub x y = Ok (x - y).
Proof. intros H. unfold csub. replace (x - y <? 0) with false by (symmetry; apply Z.ltb_ge; lia). reflexivity. Qed.

Theorem encode_layout : forall sorter data w h ct p icc exif xmp fs,
  1 <= w <= 16384 -> 1 <= h <= 16384 ->
  run_encode_frame sorter (-1) data w h ct p = (fs, Ok tt) ->
  flen (sink_bytes fs) + flen icc + flen exif + flen xmp + 100 < 2 ^ 32 ->
  exists s, run_encode sorter (-1) data w h ct p icc exif xmp = (s, Ok tt)
            /\ sink_bytes s = lossless_file (is_alpha ct) w h (sink_bytes fs) icc exif xmp.
Proof.
  intros sorter data w h ct p icc exif xmp fs Hw Hh Ef Hsz.
  change (2 ^ 32) with 4294967296 in Hsz.
  set (frame := sink_bytes fs) in *.
  assert (Hn : forall l : list Z, 0 <= flen l) by (intros; unfold flen; lia).
  pose proof (Hn frame). pose proof (Hn icc). pose proof (Hn exif). pose proof (Hn xmp).
  assert (Hm : forall l : list Z, 0 <= flen l mod 2 < 2) by (intros; apply Z.mod_pos_bound; lia).
  pose proof (Hm frame). pose proof (Hm icc). pose proof (Hm exif). pose proof (Hm xmp).
  unfold run_encode, encode. rewrite Ef. fold frame.
  assert (G0 : good (new_sink (-1)) []) by (repeat split; cbn; lia).
  assert (Ezf : forall l : list Z, zlen l = flen l) by reflexivity.
  assert (Copt : forall l : list Z, flen l + 9 < 4294967296 -> chunk_size_checked (zlen l) = Ok (flen l + flen l mod 2 + 8)).
  { intros l Hl. destruct (chunk_size_spec (zlen l)) as [A B]; [apply zlen_nonneg | rewrite Ezf; change (2 ^ 32) with 4294967296; lia|].
    unfold chunk_size_checked. rewrite A, B, Ezf. reflexivity. }
  unfold lossless_file. rewrite !is_empty_present.
  destruct (present icc || present exif || present xmp) eqn:Emeta.
  - (* extended layout *)
    replace (negb (present icc) && negb (present exif) && negb (present xmp)) with false
      by (destruct (present icc), (present exif), (present xmp); cbn in *; congruence).
    set (t0 := 30 + flen frame + flen frame mod 2).
    set (a1 := if present icc then flen icc + flen icc mod 2 + 8 else 0).
    set (a2 := if present exif then flen exif + flen exif mod 2 + 8 else 0).
    set (a3 := if present xmp then flen xmp + flen xmp mod 2 + 8 else 0).
    assert (Ha1 : 0 <= a1 <= flen icc + 9) by (unfold a1; destruct (present icc); lia).
    assert (Ha2 : 0 <= a2 <= flen exif + 9) by (unfold a2; destruct (present exif); lia).
    assert (Ha3 : 0 <= a3 <= flen xmp + 9) by (unfold a3; destruct (present xmp); lia).
    assert (Step : forall (l : list Z) (t : Z) (s0 : sink), 0 <= t -> t + flen l + 20 < 4294967296 ->
               (if negb (present l) then ret t
                else let+ c := lift (chunk_size_checked (zlen l)) in lift (cadd u32_max t c)) s0
               = (s0, Ok (t + (if present l then flen l + flen l mod 2 + 8 else 0)))).
    { intros l t s0 Ht Hb. destruct (present l) eqn:Ep; cbn [negb].
      - pose proof (Hm l). rewrite (mbind_run _ _ _ _ _ (lift_run _ _ _ (Copt l ltac:(lia)))).
        apply lift_run. apply cadd_ok. unfold u32_max. lia.
      - unfold ret. rewrite Z.add_0_r. reflexivity. }
    rewrite (mbind_run _ _ _ _ _ (lift_run _ _ _ (Copt frame ltac:(lia)))).
    rewrite (mbind_run _ _ _ _ (22 + (flen frame + flen frame mod 2 + 8)) (lift_run _ _ _ (cadd_ok u32_max 22 (flen frame + flen frame mod 2 + 8) ltac:(unfold u32_max; lia)))).
    replace (22 + (flen frame + flen frame mod 2 + 8)) with t0 by (unfold t0; lia).
    rewrite (mbind_run _ _ _ _ _ (Step icc t0 _ ltac:(unfold t0; lia) ltac:(unfold t0; lia))). fold a1.
    rewrite (mbind_run _ _ _ _ _ (Step exif (t0 + a1) _ ltac:(unfold t0; lia) ltac:(unfold t0; lia))). fold a2.
    rewrite (mbind_run _ _ _ _ _ (Step xmp (t0 + a1 + a2) _ ltac:(unfold t0; lia) ltac:(unfold t0; lia))). fold a3.
    set (total := t0 + a1 + a2 + a3).
    destruct (write_all_good fourcc_RIFF _ _ G0) as [s1 [E1 G1]]. rewrite (mbind_run _ _ _ _ _ E1).
    destruct (write_all_good (le_bytes 4 total) _ _ G1) as [s2 [E2 G2]]. rewrite (mbind_run _ _ _ _ _ E2).
    destruct (write_all_good fourcc_WEBP _ _ G2) as [s3 [E3 G3]]. rewrite (mbind_run _ _ _ _ _ E3).
    rewrite (mbind_run _ _ _ _ _ (lift_run _ _ _ (csub_ok w 1 ltac:(lia)))).
    rewrite (mbind_run _ _ _ _ _ (lift_run _ _ _ (csub_ok h 1 ltac:(lia)))).
    set (vp8x := [(if negb (present xmp) then 0 else 4) + (if negb (present exif) then 0 else 8) + (if is_alpha ct then 16 else 0)
                  + (if negb (present icc) then 0 else 32)] ++ [0; 0; 0] ++ firstn 3 (le_bytes 4 (w - 1)) ++ firstn 3 (le_bytes 4 (h - 1))).
    assert (Evp : vp8x = vp8x_payload (is_alpha ct) w h icc exif xmp).
    { unfold vp8x, vp8x_payload, vp8x_flags, le24. cbn [le_bytes firstn app]. rewrite !Z.div_div by lia.
      destruct (present xmp), (present exif), (present icc); cbn [negb]; reflexivity. }
    assert (Hvl : flen vp8x < 2 ^ 32) by (rewrite Evp; cbn; lia).
    assert (H32 : forall l : list Z, flen l < 4294967296 -> flen l < 2 ^ 32) by (intros; change (2 ^ 32) with 4294967296; lia).
    destruct (write_chunk_good fourcc_VP8X vp8x s3 _ Hvl G3) as [s4 [E4 G4]]. rewrite (mbind_run _ _ _ _ _ E4).
    destruct (write_opt_chunk_good fourcc_ICCP icc s4 _ (H32 icc ltac:(lia)) G4) as [s5 [E5 G5]].
    rewrite is_empty_present in E5. rewrite (mbind_run _ _ _ _ _ E5).
    destruct (write_chunk_good fourcc_VP8L frame s5 _ (H32 frame ltac:(lia)) G5) as [s6 [E6 G6]]. rewrite (mbind_run _ _ _ _ _ E6).
    destruct (write_opt_chunk_good fourcc_EXIF exif s6 _ (H32 exif ltac:(lia)) G6) as [s7 [E7 G7]].
    rewrite is_empty_present in E7. rewrite (mbind_run _ _ _ _ _ E7).
    destruct (write_opt_chunk_good fourcc_XMP xmp s7 _ (H32 xmp ltac:(lia)) G7) as [s8 [E8 G8]].
    rewrite is_empty_present in E8. rewrite E8.
    exists s8. split; [reflexivity|]. destruct G8 as [_ [_ G8]]. rewrite G8.
    unfold webp_file. cbn [app]. rewrite le_bytes4, Evp.
    change fourcc_RIFF with RIFF. change fourcc_WEBP with WEBP. change fourcc_VP8X with VP8X. change fourcc_ICCP with ICCP.
    change fourcc_VP8L with VP8L. change fourcc_EXIF with EXIF. change fourcc_XMP with XMP_.
    rewrite <- !app_assoc. f_equal. f_equal. f_equal.
    unfold total. rewrite !flen_app, (chunk_flen VP8X), (chunk_flen VP8L), !opt_chunk_flen by reflexivity.
    fold a1 a2 a3. change (flen (vp8x_payload (is_alpha ct) w h icc exif xmp)) with 10. change (10 mod 2) with 0. unfold t0. lia.
  - (* simple layout *)
    replace (negb (present icc) && negb (present exif) && negb (present xmp)) with true
      by (destruct (present icc), (present exif), (present xmp); cbn in *; congruence).
    destruct (write_all_good fourcc_RIFF _ _ G0) as [s1 [E1 G1]]. rewrite (mbind_run _ _ _ _ _ E1).
    rewrite (mbind_run _ _ _ _ _ (lift_run _ _ _ (Copt frame ltac:(lia)))).
    rewrite (mbind_run _ _ _ _ _ (lift_run _ _ _ (cadd_ok u32_max (flen frame + flen frame mod 2 + 8) 4 ltac:(unfold u32_max; lia)))).
    destruct (write_all_good (le_bytes 4 (flen frame + flen frame mod 2 + 8 + 4)) _ _ G1) as [s2 [E2 G2]]. rewrite (mbind_run _ _ _ _ _ E2).
    destruct (write_all_good fourcc_WEBP _ _ G2) as [s3 [E3 G3]]. rewrite (mbind_run _ _ _ _ _ E3).
    destruct (write_chunk_good fourcc_VP8L frame s3 _ ltac:(change (2 ^ 32) with 4294967296; lia) G3) as [s4 [E4 G4]]. rewrite E4.
    exists s4. split; [reflexivity|]. destruct G4 as [_ [_ G4]]. rewrite G4.
    unfold webp_file. cbn [app]. rewrite le_bytes4.
    change fourcc_RIFF with RIFF. change fourcc_WEBP with WEBP. change fourcc_VP8L with VP8L.
    rewrite <- !app_assoc. f_equal. f_equal. f_equal. rewrite (chunk_flen VP8L) by reflexivity. lia.
Qed.

(* C04: dimensions of 0 or above 16384 are rejected before a single byte is written *)
Theorem encode_bad_dims : forall sorter fault data w h ct p icc exif xmp,
  (w = 0 \/ 16384 < w \/ h = 0 \/ 16384 < h) ->
  zlen data = Z.min (w * h * bytes_per_pixel ct) (two64 - 1) ->
  run_encode sorter fault data w h ct p icc exif xmp = (new_sink fault, Err EInvalidDimensions).
Proof.
  intros sorter fault data w h ct p icc exif xmp Hd Hl.
  unfold run_encode, encode, run_encode_frame, encode_frame.
  rewrite <- Hl, Z.eqb_refl. cbn [negb].
  replace ((w =? 0) || (16384 <? w) || (h =? 0) || (16384 <? h)) with true; [reflexivity|].
  symmetry. rewrite !orb_true_iff, !Z.eqb_eq, !Z.ltb_lt. tauto.
Qed.

(* a buffer whose length does not match the dimensions is the documented panic (assert_eq!) *)
Theorem encode_length_mismatch : forall sorter fault data w h ct p icc exif xmp,
  zlen data <> Z.min (w * h * bytes_per_pixel ct) (two64 - 1) ->
  run_encode sorter fault data w h ct p icc exif xmp = (new_sink fault, Panic PAssert).
Proof.
  intros sorter fault data w h ct p icc exif xmp Hl.
  unfold run_encode, encode, run_encode_frame, encode_frame.
  replace (Z.min (w * h * bytes_per_pixel ct) (two64 - 1) =? zlen data) with false by (symmetry; apply Z.eqb_neq; lia).
  reflexivity.
Qed.
