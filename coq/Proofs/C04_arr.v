(* C04 support: facts about Lib.Arr arrays as used by Model.Encoder (histograms, code tables, the predictor buffer)
   and by Spec.VP8L (pixel arrays, for_range loops). *)
From Coq Require Import ZArith NArith List Bool Lia FMapPositive.
From WebP Require Import Lib.Res Lib.Arr Gen.Kernels Model.EncoderHeap Model.Encoder Proofs.Huffman_lists Proofs.C04_bits.
From WebP Require Spec.VP8L.
Import ListNotations.
Open Scope Z_scope.

(* ------------------------------------------------------------------------------------------------ *)
(** * of_list / arr_to_list *)
Lemma of_list_from_find l : forall (i : N) m k,
  PM.find (akey k) (of_list_from l i m) =
  if (i <=? k)%N && (k <? i + N.of_nat (length l))%N then Some (nth (N.to_nat (k - i)) l 0) else PM.find (akey k) m.
Proof.
  induction l as [|x tl IH]; intros i m k.
  - cbn [of_list_from length]. destruct (i <=? k)%N eqn:E1; [|reflexivity]. destruct (k <? i + N.of_nat 0)%N eqn:E2; [|reflexivity].
    apply N.leb_le in E1. apply N.ltb_lt in E2. lia.
  - cbn [of_list_from length]. rewrite IH.
    destruct (N.eq_dec k i) as [->|Hne].
    + replace ((N.succ i <=? i)%N) with false by (symmetry; apply N.leb_gt; lia). cbn [andb].
      rewrite PM.gss.
      replace ((i <=? i)%N && (i <? i + N.of_nat (S (length tl)))%N) with true
        by (symmetry; apply andb_true_intro; split; [apply N.leb_le|apply N.ltb_lt]; lia).
      replace (N.to_nat (i - i)) with 0%nat by lia. reflexivity.
    + destruct (N.succ i <=? k)%N eqn:E1.
      * apply N.leb_le in E1. replace (i <=? k)%N with true by (symmetry; apply N.leb_le; lia). cbn [andb].
        replace (N.succ i + N.of_nat (length tl))%N with (i + N.of_nat (S (length tl)))%N by lia.
        destruct (k <? i + N.of_nat (S (length tl)))%N.
        -- replace (N.to_nat (k - i)) with (S (N.to_nat (k - N.succ i))) by lia. reflexivity.
        -- rewrite PM.gso; [reflexivity|]. intros E. apply akey_inj in E. lia.
      * apply N.leb_gt in E1. cbn [andb]. replace (i <=? k)%N with false by (symmetry; apply N.leb_gt; lia). cbn [andb].
        rewrite PM.gso; [reflexivity|]. intros E. apply akey_inj in E. lia.
Qed.

Lemma araw_of_list l i : araw (of_list l) i = nth (N.to_nat i) l 0.
Proof.
  unfold araw, of_list. cbn [adata]. rewrite of_list_from_find, PM.gempty.
  replace (i - 0)%N with i by lia.
  destruct ((0 <=? i)%N && (i <? 0 + N.of_nat (length l))%N) eqn:E; [reflexivity|].
  symmetry. apply nth_overflow.
  apply andb_false_iff in E. destruct E as [E|E]; [apply N.leb_gt in E; lia|]. apply N.ltb_ge in E. lia.
Qed.

Lemma alen_of_list l : alen (of_list l) = N.of_nat (length l).
Proof. reflexivity. Qed.

Lemma aread_of_list l i : 0 <= i < zlen l -> aread (of_list l) i = Ok (nth (Z.to_nat i) l 0).
Proof.
  intros Hi. unfold aread, zlen in *. replace (i <? 0) with false by (symmetry; apply Z.ltb_ge; lia).
  unfold aget. rewrite alen_of_list. replace (Z.to_N i <? N.of_nat (length l))%N with true by (symmetry; apply N.ltb_lt; lia).
  cbn [of_option]. rewrite araw_of_list. f_equal. f_equal. lia.
Qed.

Lemma arr_to_list_aux_spec a : forall k i acc, (N.of_nat k <= i)%N ->
  arr_to_list_aux a k i acc = map (fun j => araw a (i - N.of_nat k + N.of_nat j)%N) (seq 0 k) ++ acc.
Proof.
  induction k as [|k IH]; intros i acc Hk; cbn [arr_to_list_aux]; [reflexivity|].
  rewrite IH by lia. rewrite seq_S, map_app. cbn [map Nat.add]. rewrite <- app_assoc. cbn [app]. f_equal.
  - apply map_ext. intros j. f_equal. lia.
  - f_equal. f_equal. lia.
Qed.

Lemma arr_to_list_spec a : arr_to_list a = map (fun j => araw a (N.of_nat j)) (seq 0 (N.to_nat (alen a))).
Proof.
  unfold arr_to_list. rewrite arr_to_list_aux_spec by lia. rewrite app_nil_r. apply map_ext. intros j. f_equal. lia.
Qed.

Lemma arr_to_list_length a : length (arr_to_list a) = N.to_nat (alen a).
Proof. rewrite arr_to_list_spec, map_length, seq_length. reflexivity. Qed.

Lemma arr_to_list_nth a j : (j < N.to_nat (alen a))%nat -> nth j (arr_to_list a) 0 = araw a (N.of_nat j).
Proof.
  intros Hj. rewrite arr_to_list_spec.
  rewrite (nth_indep _ 0 (araw a (N.of_nat 0))) by (rewrite map_length, seq_length; exact Hj).
  rewrite (map_nth (fun j => araw a (N.of_nat j))), seq_nth by exact Hj. reflexivity.
Qed.

(* ------------------------------------------------------------------------------------------------ *)
(** * aset / aget *)
Lemma araw_aset_eq a i v a' : aset a i v = Some a' -> araw a' i = v.
Proof. unfold aset. destruct (i <? alen a)%N; [|discriminate]. intros H. inversion H. unfold araw. cbn [adata]. rewrite PM.gss. reflexivity. Qed.

Lemma araw_aset_neq a i v a' j : aset a i v = Some a' -> i <> j -> araw a' j = araw a j.
Proof.
  unfold aset. destruct (i <? alen a)%N; [|discriminate]. intros H Hne. inversion H. unfold araw. cbn [adata].
  rewrite PM.gso; [reflexivity|]. intros E. apply Hne. symmetry. apply akey_inj. exact E.
Qed.

Lemma alen_aset a i v a' : aset a i v = Some a' -> alen a' = alen a.
Proof. unfold aset. destruct (i <? alen a)%N; [|discriminate]. intros H. inversion H. reflexivity. Qed.

Lemma aset_some a i v : (i < alen a)%N -> exists a', aset a i v = Some a'.
Proof. intros H. unfold aset. replace (i <? alen a)%N with true by (symmetry; apply N.ltb_lt; exact H). eexists. reflexivity. Qed.

Lemma aget_some a i : (i < alen a)%N -> aget a i = Some (araw a i).
Proof. intros H. unfold aget. replace (i <? alen a)%N with true by (symmetry; apply N.ltb_lt; exact H). reflexivity. Qed.

(* ainc: one counter goes up by one *)
Lemma ainc_ok a i : 0 <= i < Z.of_N (alen a) -> araw a (Z.to_N i) + 1 <= u32_max ->
  exists a', ainc a i = Ok a' /\ alen a' = alen a /\
    forall j, araw a' j = araw a j + (if (j =? Z.to_N i)%N then 1 else 0).
Proof.
  intros Hi Hb. unfold ainc. replace (i <? 0) with false by (symmetry; apply Z.ltb_ge; lia).
  rewrite aget_some by lia. replace (u32_max <? araw a (Z.to_N i) + 1) with false by (symmetry; apply Z.ltb_ge; lia).
  destruct (aset_some a (Z.to_N i) (araw a (Z.to_N i) + 1) ltac:(lia)) as [a' E]. rewrite E.
  exists a'. split; [reflexivity|]. split; [apply (alen_aset _ _ _ _ E)|].
  intros j. destruct (j =? Z.to_N i)%N eqn:Ej.
  - apply N.eqb_eq in Ej. subst j. apply (araw_aset_eq _ _ _ _ E).
  - apply N.eqb_neq in Ej. rewrite (araw_aset_neq _ _ _ _ j E) by congruence. lia.
Qed.

(* the sum of the cells 0 .. n-1 *)
Fixpoint asum (a : arr) (n : nat) : Z :=
  match n with O => 0 | S k => asum a k + araw a (N.of_nat k) end.

Lemma asum_arr_to_list_gen a : forall n, zsum (map (fun j => araw a (N.of_nat j)) (seq 0 n)) = asum a n.
Proof.
  induction n as [|n IH]; [reflexivity|]. rewrite seq_S, map_app, zsum_app, IH. cbn [map zsum Nat.add asum]. lia.
Qed.

Lemma zsum_arr_to_list a : zsum (arr_to_list a) = asum a (N.to_nat (alen a)).
Proof. rewrite arr_to_list_spec. apply asum_arr_to_list_gen. Qed.

Lemma asum_inc a a' i : (forall j, araw a' j = araw a j + (if (j =? i)%N then 1 else 0)) ->
  forall n, asum a' n = asum a n + (if (i <? N.of_nat n)%N then 1 else 0).
Proof.
  intros H. induction n as [|n IH]; cbn [asum].
  - replace (i <? N.of_nat 0)%N with false by (symmetry; apply N.ltb_ge; lia). lia.
  - rewrite IH, H. destruct (N.of_nat n =? i)%N eqn:E.
    + apply N.eqb_eq in E. subst i.
      replace (N.of_nat n <? N.of_nat n)%N with false by (symmetry; apply N.ltb_ge; lia).
      replace (N.of_nat n <? N.of_nat (S n))%N with true by (symmetry; apply N.ltb_lt; lia). lia.
    + apply N.eqb_neq in E. destruct (i <? N.of_nat n)%N eqn:E2.
      * apply N.ltb_lt in E2. replace (i <? N.of_nat (S n))%N with true by (symmetry; apply N.ltb_lt; lia). lia.
      * apply N.ltb_ge in E2. replace (i <? N.of_nat (S n))%N with false by (symmetry; apply N.ltb_ge; lia). lia.
Qed.

Lemma asum_nonneg a n : (forall j, 0 <= araw a j) -> 0 <= asum a n.
Proof. intros H. induction n as [|n IH]; cbn [asum]; [lia|]. specialize (H (N.of_nat n)). lia. Qed.

Lemma asum_ge a n j : (forall j, 0 <= araw a j) -> (j < n)%nat -> araw a (N.of_nat j) <= asum a n.
Proof.
  intros H. induction n as [|n IH]; intros Hj; [lia|]. cbn [asum].
  destruct (Nat.eq_dec j n) as [-> | Hne].
  - pose proof (asum_nonneg a n H). lia.
  - specialize (IH ltac:(lia)). specialize (H (N.of_nat n)). lia.
Qed.

(* ------------------------------------------------------------------------------------------------ *)
(** * the specification's pixel arrays and loops *)
Lemma pix_set_pix a i v j : 0 <= i -> 0 <= j -> V.pix (V.set_pix a i v) j = if i =? j then v else V.pix a j.
Proof.
  intros Hi Hj. unfold V.pix, V.set_pix. destruct (i =? j) eqn:E.
  - apply Z.eqb_eq in E. subst j. apply araw_aset'_eq.
  - apply Z.eqb_neq in E. apply araw_aset'_neq. lia.
Qed.

Lemma alen_set_pix a i v : alen (V.set_pix a i v) = alen a.
Proof. reflexivity. Qed.

Lemma for_range_0 {A} (f : Z -> A -> A) a : V.for_range 0 f a = a.
Proof. reflexivity. Qed.

Lemma for_range_iter {A} (f : Z -> A -> A) a (n : N) :
  N.iter n (fun ia : Z * A => (fst ia + 1, f (fst ia) (snd ia))) (0, a)
  = (Z.of_N n, snd (N.iter n (fun ia : Z * A => (fst ia + 1, f (fst ia) (snd ia))) (0, a))).
Proof.
  induction n as [|n IH] using N.peano_ind; [reflexivity|].
  rewrite N.iter_succ, IH. cbn [fst snd]. f_equal. lia.
Qed.

Lemma for_range_succ {A} (f : Z -> A -> A) a n : 0 <= n -> V.for_range (n + 1) f a = f n (V.for_range n f a).
Proof.
  intros Hn. unfold V.for_range. replace (Z.to_N (n + 1)) with (N.succ (Z.to_N n)) by lia.
  rewrite N.iter_succ. rewrite for_range_iter. cbn [fst snd]. rewrite Z2N.id by lia. reflexivity.
Qed.

(* invariant rule *)
Lemma for_range_inv {A} (P : Z -> A -> Prop) (f : Z -> A -> A) a n : 0 <= n ->
  P 0 a -> (forall i x, 0 <= i < n -> P i x -> P (i + 1) (f i x)) -> P n (V.for_range n f a).
Proof.
  intros Hn H0 Hstep. rewrite <- (Z2Nat.id n Hn). assert (Hle : (Z.to_nat n <= Z.to_nat n)%nat) by lia.
  revert Hle. generalize (Z.to_nat n) at 1 3 4 as k. induction k as [|k IH]; intros Hle.
  - exact H0.
  - rewrite Nat2Z.inj_succ, <- Z.add_1_r. rewrite for_range_succ by lia. apply Hstep; [lia|]. apply IH. lia.
Qed.

Lemma pixel_list_spec a : V.pixel_list a = map (fun j => V.pix a (Z.of_nat j)) (seq 0 (N.to_nat (alen a))).
Proof.
  unfold V.pixel_list. cbv zeta. set (n := Z.of_N (alen a)).
  assert (G : forall k, (k <= N.to_nat (alen a))%nat ->
    V.for_range (Z.of_nat k) (fun i acc => V.pix a (n - 1 - i) :: acc) []
    = map (fun j => V.pix a (Z.of_nat j)) (seq (N.to_nat (alen a) - k) k)).
  { induction k as [|k IH]; intros Hk; [reflexivity|].
    rewrite Nat2Z.inj_succ, <- Z.add_1_r, for_range_succ by lia. rewrite IH by lia.
    replace (N.to_nat (alen a) - S k)%nat with (N.to_nat (alen a) - k - 1)%nat by lia.
    replace (seq (N.to_nat (alen a) - k - 1) (S k)) with ((N.to_nat (alen a) - k - 1)%nat :: seq (N.to_nat (alen a) - k) k).
    - cbn [map]. f_equal. f_equal. unfold n. lia.
    - cbn [seq]. f_equal. f_equal. lia. }
  specialize (G (N.to_nat (alen a)) ltac:(lia)). rewrite N_nat_Z in G. fold n in G. rewrite G. f_equal. f_equal. lia.
Qed.
