(* C04 layer L5: the specification's inverse transforms undo the encoder's forward transforms on the whole image.
     * subtract green  : Spec.VP8L.inverse_subtract_green (array loop) after Model.Encoder.subtract_green;
     * predictor       : Spec.VP8L.inverse_predictor with every block in mode 2 (= T, the pixel above; the fixed mode
                         encode_frame writes), border rules L for the top row and 0xff000000 for the first pixel, after
                         Model.Encoder.predictor_transform (rows bottom-up, first row right-to-left, alpha of pixel 0). *)
From Coq Require Import ZArith NArith List Bool Lia.
From WebP Require Import Lib.Res Lib.Arr Lib.ZBits Gen.Kernels Model.EncoderHeap Model.Encoder
  Proofs.Huffman_lists Proofs.C04_bits Proofs.C04_arr.
From WebP Require Spec.VP8L.
Import ListNotations.
Open Scope Z_scope.

Definition apx (p : pixel) : Z := let '(r, g, b, a) := p in V.argb a r g b.
Definition pxbytes (p : pixel) : Prop := let '(r, g, b, a) := p in 0 <= r < 256 /\ 0 <= g < 256 /\ 0 <= b < 256 /\ 0 <= a < 256.

(* ------------------------------------------------------------------------------------------------ *)
(** * channels of an ARGB word *)
Lemma argb_channels a r g b : 0 <= a < 256 -> 0 <= r < 256 -> 0 <= g < 256 -> 0 <= b < 256 ->
  V.ALPHA (V.argb a r g b) = a /\ V.RED (V.argb a r g b) = r /\ V.GREEN (V.argb a r g b) = g /\ V.BLUE (V.argb a r g b) = b.
Proof.
  intros Ha Hr Hg Hb. unfold V.ALPHA, V.RED, V.GREEN, V.BLUE, V.argb.
  rewrite !Z.shiftr_div_pow2 by lia. change (2 ^ 24) with 16777216. change (2 ^ 16) with 65536. change (2 ^ 8) with 256.
  rewrite !land255 by (try apply Z.div_pos; lia). repeat split; lia.
Qed.

Definition sub_px (p q : pixel) : pixel :=
  let '(r, g, b, a) := p in let '(r', g', b', a') := q in (sub8 r r', sub8 g g', sub8 b b', sub8 a a').

Lemma sub8_range x y : 0 <= sub8 x y < 256.
Proof. unfold sub8. apply Z.mod_pos_bound. lia. Qed.

Lemma add_pixels_sub_px p q : pxbytes p -> pxbytes q -> V.add_pixels (apx (sub_px p q)) (apx q) = apx p.
Proof.
  destruct p as [[[r g] b] a]. destruct q as [[[r' g'] b'] a']. intros [Hr [Hg [Hb Ha]]] [Hr' [Hg' [Hb' Ha']]].
  unfold V.add_pixels, V.per_channel, sub_px, apx.
  destruct (argb_channels (sub8 a a') (sub8 r r') (sub8 g g') (sub8 b b') (sub8_range _ _) (sub8_range _ _) (sub8_range _ _) (sub8_range _ _))
    as [E1 [E2 [E3 E4]]].
  destruct (argb_channels a' r' g' b' Ha' Hr' Hg' Hb') as [F1 [F2 [F3 F4]]].
  rewrite E1, E2, E3, E4, F1, F2, F3, F4. unfold sub8. f_equal; lia.
Qed.

Lemma add_pixels_first r g b a : pxbytes (r, g, b, a) -> V.add_pixels (apx (r, g, b, sub8 a 255)) V.black = apx (r, g, b, a).
Proof.
  intros [Hr [Hg [Hb Ha]]]. unfold V.add_pixels, V.per_channel, apx.
  destruct (argb_channels (sub8 a 255) r g b (sub8_range _ _) Hr Hg Hb) as [E1 [E2 [E3 E4]]].
  rewrite E1, E2, E3, E4. change (V.ALPHA V.black) with 255. change (V.RED V.black) with 0.
  change (V.GREEN V.black) with 0. change (V.BLUE V.black) with 0. unfold sub8. f_equal; lia.
Qed.

Lemma add_green_sub p : pxbytes p ->
  let '(r, g, b, a) := p in V.add_green (apx (sub8 r g, g, sub8 b g, a)) = apx p.
Proof.
  destruct p as [[[r g] b] a]. intros [Hr [Hg [Hb Ha]]]. unfold V.add_green, apx.
  destruct (argb_channels a (sub8 r g) g (sub8 b g) Ha (sub8_range _ _) Hg (sub8_range _ _)) as [E1 [E2 [E3 E4]]].
  rewrite E1, E2, E3, E4. unfold sub8. f_equal; lia.
Qed.

(* ------------------------------------------------------------------------------------------------ *)
(** * subtract green, array level *)
Lemma inverse_subtract_green_spec img :
  alen (V.inverse_subtract_green img) = alen img
  /\ forall j, 0 <= j < Z.of_N (alen img) -> V.pix (V.inverse_subtract_green img) j = V.add_green (V.pix img j).
Proof.
  unfold V.inverse_subtract_green.
  pose proof (for_range_inv (fun i x => alen x = alen img
                /\ forall j, 0 <= j -> V.pix x j = if j <? i then V.add_green (V.pix img j) else V.pix img j)
               (fun i x => V.set_pix x i (V.add_green (V.pix x i))) img (Z.of_N (alen img)) ltac:(lia)) as H.
  destruct H as [Hl Hp].
  - split; [reflexivity|]. intros j Hj. replace (j <? 0) with false by (symmetry; apply Z.ltb_ge; lia). reflexivity.
  - intros i x Hi [Hl Hp]. split; [rewrite alen_set_pix; exact Hl|]. intros j Hj.
    rewrite pix_set_pix by lia. destruct (i =? j) eqn:E.
    + apply Z.eqb_eq in E. subst j. replace (i <? i + 1) with true by (symmetry; apply Z.ltb_lt; lia).
      rewrite Hp by lia. replace (i <? i) with false by (symmetry; apply Z.ltb_ge; lia). reflexivity.
    + apply Z.eqb_neq in E. rewrite Hp by lia. destruct (j <? i) eqn:E1.
      * apply Z.ltb_lt in E1. replace (j <? i + 1) with true by (symmetry; apply Z.ltb_lt; lia). reflexivity.
      * apply Z.ltb_ge in E1. replace (j <? i + 1) with false by (symmetry; apply Z.ltb_ge; lia). reflexivity.
  - split; [exact Hl|]. intros j Hj. rewrite Hp by lia. replace (j <? Z.of_N (alen img)) with true by (symmetry; apply Z.ltb_lt; lia). reflexivity.
Qed.

(* ------------------------------------------------------------------------------------------------ *)
(** * the inverse predictor with all blocks in mode 2 *)
Section InvPred.
  Variables (w h : Z) (modes img : arr) (P Q : Z -> pixel).
  Hypothesis Hw : 1 <= w. Hypothesis Hh : 1 <= h.
  Hypothesis Hmodes : forall x y, 0 <= x < w -> 0 <= y < h ->
    V.pix modes (Z.shiftr y 9 * V.DIV_ROUND_UP w (2 ^ 9) + Z.shiftr x 9) = V.argb 0 0 2 0.
  Hypothesis Himg : forall i, 0 <= i < w * h -> V.pix img i = apx (Q i).
  Hypothesis HP : forall i, 0 <= i < w * h -> pxbytes (P i).
  Hypothesis HQ0 : let '(r, g, b, a) := P 0 in Q 0 = (r, g, b, sub8 a 255).
  Hypothesis HQrow : forall i, 0 < i < w -> Q i = sub_px (P i) (P (i - 1)).
  Hypothesis HQ : forall i, w <= i < w * h -> Q i = sub_px (P i) (P (i - w)).

  Definition pinv (i : Z) (x : arr) : Prop :=
    alen x = alen img /\ forall j, 0 <= j < w * h -> V.pix x j = if j <? i then apx (P j) else apx (Q j).

  Lemma mode_2 x y : 0 <= x < w -> 0 <= y < h ->
    Z.land (V.GREEN (V.pix modes (Z.shiftr y 9 * V.DIV_ROUND_UP w (2 ^ 9) + Z.shiftr x 9))) 15 = 2.
  Proof. intros Hx Hy. rewrite Hmodes by assumption. reflexivity. Qed.

  Lemma pred_step x y a : 0 <= x < w -> 0 <= y < h -> pinv (y * w + x) a ->
    pinv (y * w + x + 1) (V.set_pix a (y * w + x) (V.add_pixels (V.pix a (y * w + x)) (V.prediction w 9 modes a x y))).
  Proof.
    intros Hx Hy [Hl Hp]. set (i := y * w + x) in *.
    assert (Hi : 0 <= i < w * h) by (unfold i; nia).
    split; [rewrite alen_set_pix; exact Hl|]. intros j Hj. rewrite pix_set_pix by lia.
    destruct (i =? j) eqn:E.
    - apply Z.eqb_eq in E. subst j. replace (i <? i + 1) with true by (symmetry; apply Z.ltb_lt; lia).
      rewrite (Hp i Hi). replace (i <? i) with false by (symmetry; apply Z.ltb_ge; lia).
      unfold V.prediction.
      destruct ((x =? 0) && (y =? 0)) eqn:E00.
      + apply andb_true_iff in E00. destruct E00 as [Ex Ey]. apply Z.eqb_eq in Ex, Ey.
        assert (i = 0) by (unfold i; subst; lia). rewrite H in *. pose proof HQ0 as H0. specialize (HP 0 Hi).
        destruct (P 0) as [[[r g] b] a0]. rewrite H0. apply add_pixels_first. exact HP.
      + destruct (y =? 0) eqn:Ey.
        * apply Z.eqb_eq in Ey. assert (Hx0 : x <> 0) by (intros ->; subst y; cbn in E00; discriminate).
          assert (Ei : i = x) by (unfold i; subst y; lia).
          replace (y * w + (x - 1)) with (i - 1) by (subst y; lia).
          rewrite (Hp (i - 1)) by lia. replace (i - 1 <? i) with true by (symmetry; apply Z.ltb_lt; lia).
          rewrite (HQrow i) by lia. apply add_pixels_sub_px; apply HP; lia.
        * apply Z.eqb_neq in Ey.
          assert (HT : V.pix a ((y - 1) * w + x) = apx (P (i - w))).
          { replace ((y - 1) * w + x) with (i - w) by (unfold i; lia). rewrite Hp by (unfold i; nia).
            replace (i - w <? i) with true by (symmetry; apply Z.ltb_lt; lia). reflexivity. }
          assert (Hiw : w <= i) by (unfold i; nia).
          destruct (x =? 0) eqn:Ex.
          -- rewrite HT. rewrite (HQ i) by lia. apply add_pixels_sub_px; apply HP; lia.
          -- rewrite mode_2 by assumption. cbn [V.predict]. rewrite HT. rewrite (HQ i) by lia.
             apply add_pixels_sub_px; apply HP; lia.
    - apply Z.eqb_neq in E. rewrite Hp by lia. destruct (j <? i) eqn:E1.
      + apply Z.ltb_lt in E1. replace (j <? i + 1) with true by (symmetry; apply Z.ltb_lt; lia). reflexivity.
      + apply Z.ltb_ge in E1. replace (j <? i + 1) with false by (symmetry; apply Z.ltb_ge; lia). reflexivity.
  Qed.

  Theorem inverse_predictor_spec :
    alen (V.inverse_predictor w h 9 modes img) = alen img
    /\ forall j, 0 <= j < w * h -> V.pix (V.inverse_predictor w h 9 modes img) j = apx (P j).
  Proof.
    unfold V.inverse_predictor.
    assert (Hrows : pinv (h * w) (V.for_range h (fun y => V.for_range w (fun x img0 =>
       let i := y * w + x in V.set_pix img0 i (V.add_pixels (V.pix img0 i) (V.prediction w 9 modes img0 x y)))) img)).
    { apply (for_range_inv (fun y x => pinv (y * w) x)); [lia | |].
      - split; [reflexivity|]. intros j Hj. replace (j <? 0 * w) with false by (symmetry; apply Z.ltb_ge; lia). apply Himg. exact Hj.
      - intros y a Hy Ha.
        replace ((y + 1) * w) with (y * w + w) by lia.
        apply (for_range_inv (fun x a0 => pinv (y * w + x) a0)); [lia | rewrite Z.add_0_r; exact Ha|].
        intros x a0 Hx Ha0. cbv zeta. rewrite Z.add_assoc. apply pred_step; assumption. }
    destruct Hrows as [Hl Hp]. split; [exact Hl|]. intros j Hj. rewrite Hp by exact Hj.
    replace (j <? h * w) with true by (symmetry; apply Z.ltb_lt; lia). reflexivity.
  Qed.
End InvPred.
