(* C01, layer 3: the header of an entropy-coded image.  Model.Lossless.decode_image_stream (read_color_cache, the
   read_huffman_codes part -- meta prefix image through the recursive call, number of groups = largest meta prefix
   code + 1, five codes per group with alphabets 256+24+cache, 256, 256, 256, 40 -- and then decode_image_data)
   refines the specification's entropy_coded_image / spatially_coded_image (read_cache_info, read_meta_prefix,
   read_groups, decode_pixels), in their STRICT form (C01_codes.strict_prefix_code in place of read_prefix_code:
   a simple code naming a symbol outside the 40-symbol distance alphabet is rejected, as the crate does):

     decode_image_stream_entropy  : is_argb = false, any lvl >= 1  =  strict_entropy_coded_image
     decode_image_stream_spatial  : is_argb = true,  any lvl >= 2  =  strict_spatially_coded_image
     strict_*_sound               : strict = Some x -> Spec = Some x
   (Some <-> Ok with related streams and the pixel/byte correspondence of C01_pixels; None <-> Err; never a panic,
   never OutOfFuel).  On the way the header is shown to establish C01_pixels.info_rel, hence vp8lmodel's info_ok:
   the C03 theorem decode_image_data_safe applies to every stream. *)
From Coq Require Import ZArith NArith List Bool Lia FMapPositive.
From WebP Require Import Lib.Res Lib.Arr Lib.ZBits Gen.Tables Gen.Kernels
  Model.EncoderHeap Proofs.C04_bits Proofs.C04_arr
  Model.LosslessLib Model.BitReader Model.Huffman Model.LosslessTransform Model.Lossless
  Proofs.Lossless_BitReader Proofs.Lossless_Kernels Proofs.Lossless_HuffmanSafe Proofs.Lossless_CopyWithin
  Proofs.Lossless_SymSchedule Proofs.Lossless_PixelSafe
  Proofs.C01_stream Proofs.C01_symbols Proofs.C01_codes Proofs.C01_pixlib Proofs.C01_pixels.
Import ListNotations.
Open Scope Z_scope.
Open Scope res_scope.

Ltac Zify.zify_post_hook ::= Z.div_mod_to_equations.

Notation "'olet' p ':=' e 'in' f" := (match e with Some p => f | None => None end)
  (at level 200, p pattern, e at level 200, f at level 200, right associativity).

(* ------------------------------------------------------------------------------------------------ *)
(** * the strict specification, one level up *)
Definition strict_group (cache_size : Z) (s : V.stream) : option (V.group * V.stream) :=
  olet (c1, s) := strict_prefix_code (256 + 24 + cache_size) s in
  olet (c2, s) := strict_prefix_code 256 s in
  olet (c3, s) := strict_prefix_code 256 s in
  olet (c4, s) := strict_prefix_code 256 s in
  olet (c5, s) := strict_prefix_code 40 s in
  Some ({| V.g_green := c1; V.g_red := c2; V.g_blue := c3; V.g_alpha := c4; V.g_dist := c5 |}, s).

Fixpoint strict_groups (n : nat) (cache_size : Z) (s : V.stream) : option (list V.group * V.stream) :=
  match n with
  | O => Some ([], s)
  | S k => olet (g, s) := strict_group cache_size s in
           olet (gs, s) := strict_groups k cache_size s in
           Some (g :: gs, s)
  end.

Definition strict_entropy_coded_image (w h : Z) (s : V.stream) : option (arr * V.stream) :=
  olet (cbits, s) := V.read_cache_info s in
  olet (g, s) := strict_group (V.cache_size_of cbits) s in
  V.decode_pixels {| V.xsize := w; V.ysize := h; V.cache_bits := cbits; V.groups := [g]; V.meta := None |} s.

Definition strict_meta_prefix (w h : Z) (s : V.stream) : option (option (Z * arr) * Z * V.stream) :=
  olet (has_meta, s) := V.read_bits 1 s in
  if has_meta =? 0 then Some (None, 1, s) else
  olet (b, s) := V.read_bits 3 s in
  let prefix_bits := b + 2 in
  olet (entropy_image, s) :=
    strict_entropy_coded_image (V.DIV_ROUND_UP w (2 ^ prefix_bits)) (V.DIV_ROUND_UP h (2 ^ prefix_bits)) s in
  let largest := fold_left (fun m p => Z.max m (Z.land (Z.shiftr p 8) 0xffff)) (V.pixel_list entropy_image) 0 in
  Some (Some (prefix_bits, entropy_image), largest + 1, s).

Definition strict_spatially_coded_image (w h : Z) (s : V.stream) : option (arr * V.stream) :=
  olet (cbits, s) := V.read_cache_info s in
  olet (m, num_groups, s) := strict_meta_prefix w h s in
  olet (gs, s) := strict_groups (Z.to_nat num_groups) (V.cache_size_of cbits) s in
  V.decode_pixels {| V.xsize := w; V.ysize := h; V.cache_bits := cbits; V.groups := gs; V.meta := m |} s.

Lemma strict_group_sound cs s x : strict_group cs s = Some x -> V.read_group cs s = Some x.
Proof.
  unfold strict_group, V.read_group.
  destruct (strict_prefix_code (256 + 24 + cs) s) as [[c1 s1]|] eqn:E1; [|discriminate]. rewrite (strict_prefix_code_sound _ _ _ E1).
  destruct (strict_prefix_code 256 s1) as [[c2 s2]|] eqn:E2; [|discriminate]. rewrite (strict_prefix_code_sound _ _ _ E2).
  destruct (strict_prefix_code 256 s2) as [[c3 s3]|] eqn:E3; [|discriminate]. rewrite (strict_prefix_code_sound _ _ _ E3).
  destruct (strict_prefix_code 256 s3) as [[c4 s4]|] eqn:E4; [|discriminate]. rewrite (strict_prefix_code_sound _ _ _ E4).
  destruct (strict_prefix_code 40 s4) as [[c5 s5]|] eqn:E5; [|discriminate]. rewrite (strict_prefix_code_sound _ _ _ E5).
  auto.
Qed.

Lemma strict_groups_sound cs : forall n s x, strict_groups n cs s = Some x -> V.read_groups n cs s = Some x.
Proof.
  induction n as [|n IH]; intros s x; cbn [strict_groups V.read_groups]; [auto|].
  destruct (strict_group cs s) as [[g s1]|] eqn:E1; [|discriminate]. rewrite (strict_group_sound _ _ _ E1).
  destruct (strict_groups n cs s1) as [[gs s2]|] eqn:E2; [|discriminate]. rewrite (IH _ _ E2). auto.
Qed.

Lemma strict_entropy_sound w h s x : strict_entropy_coded_image w h s = Some x -> V.entropy_coded_image w h s = Some x.
Proof.
  unfold strict_entropy_coded_image, V.entropy_coded_image. destruct (V.read_cache_info s) as [[cbits s1]|]; [|discriminate].
  destruct (strict_group (V.cache_size_of cbits) s1) as [[g s2]|] eqn:E; [|discriminate]. rewrite (strict_group_sound _ _ _ E). auto.
Qed.

Lemma strict_meta_sound w h s x : strict_meta_prefix w h s = Some x -> V.read_meta_prefix w h s = Some x.
Proof.
  unfold strict_meta_prefix, V.read_meta_prefix. destruct (V.read_bits 1 s) as [[m s1]|]; [|discriminate].
  destruct (m =? 0); [auto|]. destruct (V.read_bits 3 s1) as [[b s2]|]; [|discriminate]. cbv zeta.
  destruct (strict_entropy_coded_image _ _ s2) as [[e s3]|] eqn:E; [|discriminate]. rewrite (strict_entropy_sound _ _ _ _ E). auto.
Qed.

Theorem strict_spatial_sound w h s x : strict_spatially_coded_image w h s = Some x -> V.spatially_coded_image w h s = Some x.
Proof.
  unfold strict_spatially_coded_image, V.spatially_coded_image. destruct (V.read_cache_info s) as [[cbits s1]|]; [|discriminate].
  destruct (strict_meta_prefix w h s1) as [[[m ng] s2]|] eqn:E; [|discriminate]. rewrite (strict_meta_sound _ _ _ _ E).
  destruct (strict_groups (Z.to_nat ng) (V.cache_size_of cbits) s2) as [[gs s3]|] eqn:E2; [|discriminate].
  rewrite (strict_groups_sound _ _ _ _ E2). auto.
Qed.

(* ------------------------------------------------------------------------------------------------ *)
(** * colour cache info *)
Definition cb_rel (ob : option Z) (cbits : Z) : Prop :=
  match ob with None => cbits = 0 | Some b => cbits = b /\ 1 <= b <= 11 end.

Lemma read_color_cache_refines st r : Rel st r ->
  match V.read_cache_info st with
  | Some (cbits, st') => exists ob r', read_color_cache r = Ok (ob, r') /\ Rel st' r' /\ cb_rel ob cbits
  | None => exists e, read_color_cache r = Err e
  end.
Proof.
  intros HRel. unfold V.read_cache_info, read_color_cache.
  pose proof (rbn st r 8 1 HRel ltac:(lia) ltac:(lia)) as P. change (Z.of_nat 1) with 1 in P.
  destruct (V.read_bits 1 st) as [[present st1]|]; [|rewrite P; eexists; reflexivity].
  destruct P as (r1 & E1 & HRel1 & Hp). change (2 ^ 1) with 2 in Hp. rewrite E1. cbn [bind].
  assert (Hc : present = 0 \/ present = 1) by lia. destruct Hc as [-> | ->]; cbn [Z.eqb Pos.eqb].
  - exists None, r1. split; [reflexivity|]. split; [exact HRel1 | reflexivity].
  - pose proof (rbn st1 r1 8 4 HRel1 ltac:(lia) ltac:(lia)) as P. change (Z.of_nat 4) with 4 in P.
    destruct (V.read_bits 4 st1) as [[cb st2]|]; [|rewrite P; eexists; reflexivity].
    destruct P as (r2 & E2 & HRel2 & Hcb). rewrite E2. cbn [bind].
    destruct ((1 <=? cb) && (cb <=? 11)) eqn:Er; [|eexists; reflexivity].
    apply andb_true_iff in Er. destruct Er as [H1 H2]. apply Z.leb_le in H1. apply Z.leb_le in H2.
    exists (Some cb), r2. split; [reflexivity|]. split; [exact HRel2|]. cbn [cb_rel]. lia.
Qed.

Lemma cb_rel_range ob cbits : cb_rel ob cbits -> 0 <= cbits <= 11.
Proof. destruct ob as [b|]; cbn [cb_rel]; lia. Qed.

(* ------------------------------------------------------------------------------------------------ *)
(** * one group of five codes, and the vector of groups *)
Lemma read_group_refines st r ob cbits : Rel st r -> cb_rel ob cbits ->
  match strict_group (V.cache_size_of cbits) st with
  | Some (gs, st') => exists gm r', read_group r ob = Ok (gm, r') /\ Rel st' r' /\ group_rel (V.cache_size_of cbits) gm gs
  | None => exists e, read_group r ob = Err e
  end.
Proof.
  intros HRel Hcb. unfold strict_group, read_group. change (nth 0 lossless_ALPHABET_SIZE 0) with 280.
  change (nth 1 lossless_ALPHABET_SIZE 0) with 256. change (nth 2 lossless_ALPHABET_SIZE 0) with 256.
  change (nth 3 lossless_ALPHABET_SIZE 0) with 256. change (nth 4 lossless_ALPHABET_SIZE 0) with 40. cbv zeta.
  pose proof (cache_size_range cbits (cb_rel_range _ _ Hcb)) as Hcs.
  assert (Ea0 : (match ob with
                 | Some b => if 65535 <? 280 + Z.shiftl 1 b then Panic POverflow else Ok (280 + Z.shiftl 1 b)
                 | None => Ok 280 end) = Ok (256 + 24 + V.cache_size_of cbits)).
  { destruct ob as [b|]; cbn [cb_rel] in Hcb.
    - destruct Hcb as [-> Hb]. rewrite Z.shiftl_1_l. unfold V.cache_size_of in *.
      replace (b =? 0) with false in * by (symmetry; apply Z.eqb_neq; lia).
      replace (65535 <? 280 + 2 ^ b) with false by (symmetry; apply Z.ltb_ge; lia). reflexivity.
    - subst cbits. reflexivity. }
  rewrite Ea0. cbn [bind]. clear Ea0.
  pose proof (read_huffman_code_refines (256 + 24 + V.cache_size_of cbits) st r HRel ltac:(lia)) as P.
  destruct (strict_prefix_code (256 + 24 + V.cache_size_of cbits) st) as [[c1 s1]|]; [|destruct P as (e & E); rewrite E; eexists; reflexivity].
  destruct P as (t1 & r1 & E1 & HRel1 & Hrep1). rewrite E1. cbn [bind]. clear E1.
  pose proof (read_huffman_code_refines 256 s1 r1 HRel1 ltac:(lia)) as P.
  destruct (strict_prefix_code 256 s1) as [[c2 s2]|]; [|destruct P as (e & E); rewrite E; eexists; reflexivity].
  destruct P as (t2 & r2 & E2 & HRel2 & Hrep2). rewrite E2. cbn [bind]. clear E2.
  pose proof (read_huffman_code_refines 256 s2 r2 HRel2 ltac:(lia)) as P.
  destruct (strict_prefix_code 256 s2) as [[c3 s3]|]; [|destruct P as (e & E); rewrite E; eexists; reflexivity].
  destruct P as (t3 & r3 & E3 & HRel3 & Hrep3). rewrite E3. cbn [bind]. clear E3.
  pose proof (read_huffman_code_refines 256 s3 r3 HRel3 ltac:(lia)) as P.
  destruct (strict_prefix_code 256 s3) as [[c4 s4]|]; [|destruct P as (e & E); rewrite E; eexists; reflexivity].
  destruct P as (t4 & r4 & E4 & HRel4 & Hrep4). rewrite E4. cbn [bind]. clear E4.
  pose proof (read_huffman_code_refines 40 s4 r4 HRel4 ltac:(lia)) as P.
  destruct (strict_prefix_code 40 s4) as [[c5 s5]|]; [|destruct P as (e & E); rewrite E; eexists; reflexivity].
  destruct P as (t5 & r5 & E5 & HRel5 & Hrep5). rewrite E5. cbn [bind]. clear E5.
  eexists _, r5. split; [reflexivity|]. split; [exact HRel5|].
  constructor; cbn [g_green g_red g_blue g_alpha g_dist V.g_green V.g_red V.g_blue V.g_alpha V.g_dist]; try assumption.
Qed.

Definition groups_rel (cs : Z) (v : vec group) (l : list V.group) : Prop :=
  vzlen v = Z.of_nat (length l) /\
  forall i, 0 <= i < vzlen v -> exists gs, V.lookup l i = Some gs /\ group_rel cs (vz v i) gs.

Lemma lookup_app {A} (l : list A) x : forall i, 0 <= i ->
  V.lookup (l ++ [x]) i = if i <? Z.of_nat (length l) then V.lookup l i else if i =? Z.of_nat (length l) then Some x else None.
Proof.
  induction l as [|y tl IH]; intros i Hi; cbn [app V.lookup length].
  - destruct (Z.eqb_spec i 0) as [->|Hne]; [reflexivity|]. replace (i <? Z.of_nat 0) with false by (symmetry; apply Z.ltb_ge; lia).
    replace (i =? Z.of_nat 0) with false by (symmetry; apply Z.eqb_neq; lia). destruct (i - 1 =? 0); reflexivity.
  - destruct (Z.eqb_spec i 0) as [->|Hne]; [reflexivity|]. rewrite IH by lia.
    destruct (Z.ltb_spec (i - 1) (Z.of_nat (length tl))); destruct (Z.ltb_spec i (Z.of_nat (S (length tl)))); try lia; [reflexivity|].
    destruct (Z.eqb_spec (i - 1) (Z.of_nat (length tl))); destruct (Z.eqb_spec i (Z.of_nat (S (length tl)))); try lia; reflexivity.
Qed.

Lemma groups_rel_snoc cs v l gm gs : groups_rel cs v l -> group_rel cs gm gs -> groups_rel cs (vpush v gm) (l ++ [gs]).
Proof.
  intros [Hlen Hall] Hg. split.
  - rewrite vpush_len, app_length. cbn [length]. lia.
  - intros i Hi. rewrite vpush_len in Hi. rewrite vpush_vz by lia. rewrite lookup_app by lia. rewrite <- Hlen.
    destruct (Z.eqb_spec i (vzlen v)) as [->|Hne].
    + rewrite Z.ltb_irrefl. exists gs. auto.
    + replace (i <? vzlen v) with true by (symmetry; apply Z.ltb_lt; lia). apply Hall. lia.
Qed.

Lemma read_groups_refines ob cbits : cb_rel ob cbits -> forall n st r acc pre,
  Rel st r -> groups_rel (V.cache_size_of cbits) acc pre ->
  match strict_groups n (V.cache_size_of cbits) st with
  | Some (gs, st') => exists v r', read_groups n r ob acc = Ok (v, r') /\ Rel st' r' /\
                        groups_rel (V.cache_size_of cbits) v (pre ++ gs)
  | None => exists e, read_groups n r ob acc = Err e
  end.
Proof.
  intros Hcb. induction n as [|n IH]; intros st r acc pre HRel Hacc; cbn [strict_groups read_groups].
  - exists acc, r. rewrite app_nil_r. auto.
  - pose proof (read_group_refines st r ob cbits HRel Hcb) as P.
    destruct (strict_group (V.cache_size_of cbits) st) as [[g s1]|]; [|destruct P as (e & E); rewrite E; eexists; reflexivity].
    destruct P as (gm & r1 & E1 & HRel1 & Hg). rewrite E1. cbn [bind].
    specialize (IH s1 r1 (vpush acc gm) (pre ++ [g]) HRel1 (groups_rel_snoc _ _ _ _ _ Hacc Hg)).
    destruct (strict_groups n (V.cache_size_of cbits) s1) as [[gs s2]|]; [|exact IH].
    destruct IH as (v & r2 & E2 & HRel2 & Hv). exists v, r2. split; [exact E2|]. split; [exact HRel2|].
    rewrite <- app_assoc in Hv. exact Hv.
Qed.

Lemma groups_rel_nil cs : groups_rel cs (vmake 0 default_group) [].
Proof. split; [reflexivity|]. intros i Hi. unfold vzlen, vmake in Hi. cbn [vlen] in Hi. lia. Qed.

(* ------------------------------------------------------------------------------------------------ *)
(** * images without meta prefix codes (transform data, colour table, the meta prefix image itself) *)
Lemma info_rel_flat w hgt cbits ob v g : cb_rel ob cbits -> groups_rel (V.cache_size_of cbits) v [g] ->
  info_rel {| V.xsize := w; V.ysize := hgt; V.cache_bits := cbits; V.groups := [g]; V.meta := None |}
           {| h_xsize := 1; h_cache := option_map cache_new ob; h_image := of_list []; h_bits := 0; h_mask := 65535; h_groups := v |}
           w hgt.
Proof.
  intros Hcb [Hlen Hall]. constructor; cbn [V.xsize V.ysize V.cache_bits V.groups V.meta h_groups h_bits h_mask]; auto.
  - apply (cb_rel_range _ _ Hcb).
  - cbn [length] in Hlen. lia.
Qed.

Theorem decode_image_stream_entropy lvl st r w hgt data :
  Rel st r -> 1 <= w <= 65535 -> 1 <= hgt <= 65536 -> zlen data = 4 * (w * hgt) ->
  match strict_entropy_coded_image w hgt st with
  | Some (pixels, st') =>
      exists r' data', decode_image_stream (S lvl) r w hgt false data = Ok (r', data') /\ Rel st' r' /\
                       zlen data' = 4 * (w * hgt) /\ forall i, 0 <= i < w * hgt -> px_at data' i = px_of (V.pix pixels i) /\ pix32 (V.pix pixels i)
  | None => exists e, decode_image_stream (S lvl) r w hgt false data = Err e
  end.
Proof.
  intros HRel Hw Hh Hlen. unfold strict_entropy_coded_image. cbn [decode_image_stream].
  pose proof (read_color_cache_refines st r HRel) as P.
  destruct (V.read_cache_info st) as [[cbits st1]|]; [|destruct P as (e & E); rewrite E; eexists; reflexivity].
  destruct P as (ob & r1 & E1 & HRel1 & Hcb). rewrite E1. cbn [bind]. clear E1.
  change (Z.to_nat 1) with 1%nat.
  pose proof (read_groups_refines ob cbits Hcb 1 st1 r1 (vmake 0 default_group) [] HRel1 (groups_rel_nil _)) as P.
  cbn [strict_groups] in P.
  destruct (strict_group (V.cache_size_of cbits) st1) as [[g st2]|]; [|destruct P as (e & E); rewrite E; eexists; reflexivity].
  destruct P as (v & r2 & E2 & HRel2 & Hv). rewrite E2. cbn [bind app]. clear E2. cbn [app] in Hv.
  apply (decode_image_data_refines _ _ w hgt (info_rel_flat w hgt cbits ob v g Hcb Hv) Hw Hh st2 r2 data HRel2 Hlen).
  cbn [V.cache_bits h_cache]. apply cache_rel_new. destruct ob as [b|]; cbn [cb_rel] in Hcb |- *; auto.
Qed.

(* ------------------------------------------------------------------------------------------------ *)
(** * the meta prefix image *)
Definition mcode (l : list Z) (i : nat) : Z := Z.lor (Z.shiftl (nth (4 * i) l 0) 8) (nth (4 * i + 1) l 0).
Definition maxg (ng : Z) (cs : list Z) : Z := fold_left (fun g c => if g <=? c then c + 1 else g) cs ng.

Lemma entropy_image_of_spec : forall (n : nat) l acc ng, length l = (4 * n)%nat ->
  entropy_image_of l acc ng = (rev acc ++ map (mcode l) (seq 0 n), maxg ng (map (mcode l) (seq 0 n))).
Proof.
  induction n as [|n IH]; intros l acc ng Hl.
  - destruct l; [|discriminate]. cbn [entropy_image_of seq map maxg fold_left]. rewrite app_nil_r. reflexivity.
  - destruct l as [|p0 [|p1 [|p2 [|p3 tl]]]]; try (cbn [length] in Hl; lia).
    cbn [entropy_image_of]. rewrite IH by (cbn [length] in Hl; lia).
    assert (Hshift : map (mcode (p0 :: p1 :: p2 :: p3 :: tl)) (seq 1 n) = map (mcode tl) (seq 0 n)).
    { rewrite <- seq_shift, map_map. apply map_ext. intros i. unfold mcode.
      replace (4 * S i)%nat with (S (S (S (S (4 * i))))) by lia. replace (4 * S i + 1)%nat with (S (S (S (S (4 * i + 1))))) by lia.
      reflexivity. }
    cbn [seq map]. rewrite Hshift. cbn [rev]. rewrite <- app_assoc. cbn [app maxg fold_left]. unfold mcode at 2 4. cbn [Nat.mul Nat.add nth].
    reflexivity.
Qed.

Lemma zto_list_length a : length (zto_list a) = N.to_nat (alen a).
Proof.
  unfold zto_list. rewrite <- (N2Nat.id (alen a)) at 2. rewrite zto_list_aux_spec, app_nil_r, map_length, seq_length. reflexivity.
Qed.

Lemma zto_list_nth a k : (k < N.to_nat (alen a))%nat -> nth k (zto_list a) 0 = az a (Z.of_nat k).
Proof.
  intros Hk. unfold zto_list. rewrite <- (N2Nat.id (alen a)) at 2. rewrite zto_list_aux_spec, app_nil_r.
  rewrite (nth_indep _ 0 ((fun j => araw a (N.of_nat j)) 0%nat)) by (rewrite map_length, seq_length; exact Hk).
  rewrite (map_nth (fun j => araw a (N.of_nat j))). rewrite seq_nth by exact Hk. unfold az. f_equal. lia.
Qed.

Lemma meta_code p : Z.lor (Z.shiftl (V.RED p) 8) (V.GREEN p) = Z.land (Z.shiftr p 8) 65535.
Proof.
  destruct (chan_byte p) as (_ & Br & Bg & _). unfold byte in *. rewrite Z.shiftl_mul_pow2 by lia. rewrite Z.lor_comm.
  rewrite lor_low_high by (change (2 ^ 8) with 256; lia).
  unfold V.RED, V.GREEN. change 255 with (Z.ones 8). change 65535 with (Z.ones 16). rewrite !Z.land_ones by lia.
  rewrite !Z.shiftr_div_pow2 by lia. change (2 ^ 8) with 256. change (2 ^ 16) with 65536. lia.
Qed.

Lemma maxg_max : forall cs m, Forall (fun c => 0 <= c) cs -> maxg (m + 1) cs = fold_left Z.max cs m + 1.
Proof.
  induction cs as [|c tl IH]; intros m HF; [reflexivity|]. inversion HF; subst. cbn [maxg fold_left].
  replace (if m + 1 <=? c then c + 1 else m + 1) with (Z.max m c + 1) by (destruct (Z.leb_spec (m + 1) c); lia).
  apply IH. assumption.
Qed.

Lemma fold_max_mono : forall cs m, m <= fold_left Z.max cs m.
Proof. induction cs as [|x tl IH]; intros m; cbn [fold_left]; [lia|]. specialize (IH (Z.max m x)). lia. Qed.

Lemma fold_max_ge : forall cs m c, In c cs -> c <= fold_left Z.max cs m.
Proof.
  assert (Hmono : forall cs m, m <= fold_left Z.max cs m).
  { induction cs as [|x tl IH]; intros m; cbn [fold_left]; [lia|]. specialize (IH (Z.max m x)). lia. }
  induction cs as [|x tl IH]; intros m c Hin; [destruct Hin|]. cbn [fold_left]. destruct Hin as [->|Hin].
  - specialize (Hmono tl (Z.max m c)). lia.
  - apply IH. exact Hin.
Qed.

Lemma fold_left_map {A B C} (f : A -> B -> A) (g : C -> B) : forall l a, fold_left f (map g l) a = fold_left (fun a x => f a (g x)) l a.
Proof. induction l as [|x tl IH]; intros a; cbn [map fold_left]; [reflexivity | apply IH]. Qed.

(* the pixel array returned by the specification has the size of the image *)
Lemma copy_pixels_alen im : forall n dist st, alen (V.pixels (V.copy_pixels im n dist st)) = alen (V.pixels st).
Proof. induction n as [|n IH]; intros dist st; cbn [V.copy_pixels]; [reflexivity|]. rewrite IH. reflexivity. Qed.

Lemma decode_step_alen im st st' : V.decode_step im st = Some st' -> alen (V.pixels st') = alen (V.pixels st).
Proof.
  unfold V.decode_step. destruct (V.group_at im _ _) as [g|]; [|discriminate].
  destruct (V.read_symbol (V.g_green g) (V.input st)) as [[sym s]|]; [|discriminate].
  destruct (sym <? 256).
  - destruct (V.read_symbol (V.g_red g) s) as [[red s1]|]; [|discriminate].
    destruct (V.read_symbol (V.g_blue g) s1) as [[blue s2]|]; [|discriminate].
    destruct (V.read_symbol (V.g_alpha g) s2) as [[alpha s3]|]; [|discriminate]. intros H. injection H as <-. reflexivity.
  - destruct (sym <? 256 + 24).
    + destruct (V.read_lz77_value (sym - 256) s) as [[len s1]|]; [|discriminate].
      destruct (V.read_symbol (V.g_dist g) s1) as [[dp s2]|]; [|discriminate].
      destruct (V.read_lz77_value dp s2) as [[dc s3]|]; [|discriminate].
      match goal with |- context [if ?c then None else _] => destruct c end; [discriminate|].
      intros H. injection H as <-. rewrite copy_pixels_alen. reflexivity.
    + intros H. injection H as <-. reflexivity.
Qed.

Lemma iterN_alen im (fin : V.state -> bool) : forall n st st', iterN fin (V.decode_step im) n st = Some st' ->
  alen (V.pixels st') = alen (V.pixels st).
Proof.
  induction n as [|n IH]; intros st st' E; cbn [iterN] in E; [injection E as <-; reflexivity|].
  destruct (fin st); [injection E as <-; reflexivity|].
  destruct (V.decode_step im st) as [s1|] eqn:Es; [|discriminate]. rewrite (IH _ _ E). apply (decode_step_alen im st s1 Es).
Qed.

Lemma decode_pixels_alen im s px s' : V.decode_pixels im s = Some (px, s') -> alen px = Z.to_N (V.xsize im * V.ysize im).
Proof.
  unfold V.decode_pixels. rewrite run_iterN.
  match goal with |- context [iterN ?f ?st ?n ?s0] => destruct (iterN f st n s0) as [st1|] eqn:E end; [|discriminate].
  destruct (_ <=? V.pos st1); [|discriminate]. intros H. injection H as <- _.
  rewrite (iterN_alen _ _ _ _ _ E). reflexivity.
Qed.

(* ------------------------------------------------------------------------------------------------ *)
(** * the ARGB image: meta prefix, groups, pixels *)
Definition m_meta (lvl' : nat) (br : BitReader.t) (xsize ysize : Z) : res (Z * Z * list Z * Z * BitReader.t) :=
  let* '(b, br) := BitReader.read_bits br 8 1 in
  if b =? 1 then
    let* '(hb, br) := BitReader.read_bits br 8 3 in
    let huffman_bits := hb + 2 in
    let* huffman_xsize := subsample xsize huffman_bits in
    let* huffman_ysize := subsample ysize huffman_bits in
    let* '(br, d) := decode_image_stream lvl' br huffman_xsize huffman_ysize false (zmake (huffman_xsize * huffman_ysize * 4)) in
    let '(img, ng) := entropy_image_of (zto_list d) [] 1 in
    Ok (huffman_bits, huffman_xsize, img, ng, br)
  else Ok (0, 1, [], 1, br).

Lemma decode_image_stream_argb lvl' br xsize ysize data :
  decode_image_stream (S lvl') br xsize ysize true data =
  let* '(ob, br) := read_color_cache br in
  let* '(hb, hx, img, ng, br) := m_meta lvl' br xsize ysize in
  let* '(groups, br) := read_groups (Z.to_nat ng) br ob (vmake 0 default_group) in
  decode_image_data br xsize ysize
    {| h_xsize := hx; h_cache := option_map cache_new ob; h_image := of_list img; h_bits := hb;
       h_mask := (if hb =? 0 then 65535 else Z.shiftl 1 hb - 1); h_groups := groups |} data.
Proof.
  cbn [decode_image_stream]. destruct (read_color_cache br) as [[ob br1]| | |]; cbn [bind]; try reflexivity.
  unfold m_meta. destruct (BitReader.read_bits br1 8 1) as [[b br2]| | |]; cbn [bind]; reflexivity.
Qed.

(* what the decoder's (bits, xsize, entropy image, number of groups) mean for the specification's meta *)
Definition meta_rel (m : option (Z * arr)) (hb hx : Z) (img : list Z) (ng w hgt : Z) : Prop :=
  match m with
  | None => hb = 0 /\ ng = 1
  | Some (pb, eimg) =>
      hb = pb /\ 2 <= pb <= 9 /\ hx = V.DIV_ROUND_UP w (2 ^ pb) /\ 1 <= ng /\
      forall x y, 0 <= x < w -> 0 <= y < hgt ->
        let p := Z.shiftr y pb * hx + Z.shiftr x pb in
        0 <= p < Z.of_nat (length img) /\ nth (Z.to_nat p) img 0 = Z.land (Z.shiftr (V.pix eimg p) 8) 65535 /\
        0 <= nth (Z.to_nat p) img 0 < ng
  end.

Lemma div_round_up_pos w P : 1 <= w -> 1 <= P -> V.DIV_ROUND_UP w P = (w - 1) / P + 1 /\ 1 <= V.DIV_ROUND_UP w P <= w.
Proof.
  intros Hw HP. unfold V.DIV_ROUND_UP. replace (w + P - 1) with (w - 1 + 1 * P) by lia. rewrite Z.div_add by lia.
  split; [reflexivity|]. pose proof (Z.div_pos (w - 1) P ltac:(lia) ltac:(lia)).
  pose proof (Z.div_le_upper_bound (w - 1) P (w - 1) ltac:(lia) ltac:(nia)). lia.
Qed.

Lemma div_lt_round x w P : 0 <= x < w -> 1 <= P -> 0 <= x / P < (w - 1) / P + 1.
Proof.
  intros Hx HP. pose proof (Z.div_pos x P ltac:(lia) ltac:(lia)) as H1. pose proof (Z.div_le_mono x (w - 1) P ltac:(lia) ltac:(lia)) as H2.
  set (a := x / P) in *. set (b := (w - 1) / P) in *. clearbody a b. lia.
Qed.

Lemma pos_bound a b hx hy : 0 <= a < hx -> 0 <= b < hy -> 0 <= b * hx + a < hx * hy.
Proof. intros Ha Hb. nia. Qed.

Lemma meta_refines lvl st r w hgt : Rel st r -> 1 <= w <= 65535 -> 1 <= hgt <= 65535 ->
  match strict_meta_prefix w hgt st with
  | Some (m, ng, st') => exists hb hx img r', m_meta (S lvl) r w hgt = Ok (hb, hx, img, ng, r') /\ Rel st' r' /\
                           meta_rel m hb hx img ng w hgt
  | None => exists e, m_meta (S lvl) r w hgt = Err e
  end.
Proof.
  intros HRel Hw Hh. unfold strict_meta_prefix, m_meta.
  pose proof (rbn st r 8 1 HRel ltac:(lia) ltac:(lia)) as P. change (Z.of_nat 1) with 1 in P.
  destruct (V.read_bits 1 st) as [[hm st1]|]; [|rewrite P; eexists; reflexivity].
  destruct P as (r1 & E1 & HRel1 & Hhm). change (2 ^ 1) with 2 in Hhm. rewrite E1. cbn [bind]. clear E1.
  assert (Hc : hm = 0 \/ hm = 1) by lia. destruct Hc as [-> | ->]; cbn [Z.eqb Pos.eqb].
  { exists 0, 1, [], r1. split; [reflexivity|]. split; [exact HRel1|]. cbn [meta_rel]. auto. }
  pose proof (rbn st1 r1 8 3 HRel1 ltac:(lia) ltac:(lia)) as P. change (Z.of_nat 3) with 3 in P.
  destruct (V.read_bits 3 st1) as [[b st2]|]; [|rewrite P; eexists; reflexivity].
  destruct P as (r2 & E2 & HRel2 & Hb). change (2 ^ 3) with 8 in Hb. rewrite E2. cbn [bind]. cbv zeta. clear E2.
  set (pb := b + 2) in *. assert (Hpb : 2 <= pb <= 9) by (unfold pb; lia).
  assert (HP : 4 <= 2 ^ pb) by (change 4 with (2 ^ 2); apply Z.pow_le_mono_r; lia).
  rewrite (subsample_ok w pb) by lia. cbn [bind]. rewrite (subsample_ok hgt pb) by lia. cbn [bind].
  fold (V.DIV_ROUND_UP w (2 ^ pb)). fold (V.DIV_ROUND_UP hgt (2 ^ pb)).
  destruct (div_round_up_pos w (2 ^ pb) ltac:(lia) ltac:(lia)) as [Ehx Hhx].
  destruct (div_round_up_pos hgt (2 ^ pb) ltac:(lia) ltac:(lia)) as [Ehy Hhy].
  set (hx := V.DIV_ROUND_UP w (2 ^ pb)) in *. set (hy := V.DIV_ROUND_UP hgt (2 ^ pb)) in *.
  pose proof (decode_image_stream_entropy lvl st2 r2 hx hy (zmake (hx * hy * 4)) HRel2 ltac:(lia) ltac:(lia)
                ltac:(rewrite zmake_len by nia; lia)) as P.
  destruct (strict_entropy_coded_image hx hy st2) as [[eimg st3]|] eqn:Ese; [|destruct P as (e & E); rewrite E; eexists; reflexivity].
  destruct P as (r3 & d & E3 & HRel3 & Hld & Hpx). rewrite E3. cbn [bind]. clear E3.
  (* the entropy image and the number of groups *)
  assert (Hn : 0 <= hx * hy) by nia.
  assert (Hlist : length (zto_list d) = (4 * Z.to_nat (hx * hy))%nat) by (rewrite zto_list_length; unfold zlen in Hld; lia).
  rewrite (entropy_image_of_spec (Z.to_nat (hx * hy)) (zto_list d) [] 1 Hlist). cbn [rev app].
  set (codes := map (mcode (zto_list d)) (seq 0 (Z.to_nat (hx * hy)))).
  assert (Hcode : forall i, (i < Z.to_nat (hx * hy))%nat ->
             mcode (zto_list d) i = Z.land (Z.shiftr (V.pix eimg (Z.of_nat i)) 8) 65535).
  { intros i Hi. unfold mcode. rewrite !zto_list_nth by (unfold zlen in Hld; lia).
    destruct (Hpx (Z.of_nat i) ltac:(lia)) as [Hp _]. unfold px_at, px_of in Hp.
    replace (Z.of_nat (4 * i)) with (4 * Z.of_nat i) by lia. replace (Z.of_nat (4 * i + 1)) with (4 * Z.of_nat i + 1) by lia.
    pose proof (f_equal (fun q : px4 => fst (fst (fst q))) Hp) as H0. pose proof (f_equal (fun q : px4 => snd (fst (fst q))) Hp) as H1.
    cbn [fst snd] in H0, H1. rewrite H0, H1. apply meta_code. }
  assert (Hcodes_nth : forall i, (i < Z.to_nat (hx * hy))%nat -> nth i codes 0 = Z.land (Z.shiftr (V.pix eimg (Z.of_nat i)) 8) 65535).
  { intros i Hi. unfold codes. rewrite (nth_indep _ 0 (mcode (zto_list d) 0%nat)) by (rewrite map_length, seq_length; exact Hi).
    rewrite map_nth, seq_nth by exact Hi. cbn [plus]. apply Hcode. exact Hi. }
  assert (Hcodes_len : length codes = Z.to_nat (hx * hy)) by (unfold codes; rewrite map_length, seq_length; reflexivity).
  assert (Hcodes_nonneg : Forall (fun c => 0 <= c) codes).
  { apply Forall_forall. intros c Hin. apply (In_nth _ _ 0) in Hin. destruct Hin as (i & Hi & <-). rewrite Hcodes_nth by lia.
    apply Z.land_nonneg. right. lia. }
  (* the specification's largest code *)
  assert (Halen : alen eimg = Z.to_N (hx * hy)).
  { unfold strict_entropy_coded_image in Ese. destruct (V.read_cache_info st2) as [[cb sx]|]; [|discriminate].
    destruct (strict_group (V.cache_size_of cb) sx) as [[g sy]|]; [|discriminate]. apply decode_pixels_alen in Ese. exact Ese. }
  assert (Hspec : fold_left (fun m p => Z.max m (Z.land (Z.shiftr p 8) 65535)) (V.pixel_list eimg) 0 = fold_left Z.max codes 0).
  { rewrite pixel_list_spec, Halen. rewrite fold_left_map. unfold codes. rewrite fold_left_map.
    replace (N.to_nat (Z.to_N (hx * hy))) with (Z.to_nat (hx * hy)) by lia.
    assert (G : forall l a, (forall i, In i l -> (i < Z.to_nat (hx * hy))%nat) ->
               fold_left (fun a0 x => Z.max a0 (Z.land (Z.shiftr (V.pix eimg (Z.of_nat x)) 8) 65535)) l a =
               fold_left (fun a0 x => Z.max a0 (mcode (zto_list d) x)) l a).
    { induction l as [|x tl IHl]; intros a Hin; [reflexivity|]. cbn [fold_left]. rewrite Hcode by (apply Hin; left; reflexivity).
      apply IHl. intros i Hi. apply Hin. right. exact Hi. }
    apply G. intros i Hi. apply in_seq in Hi. lia. }
  change 65535 with 0xffff in Hspec. rewrite Hspec. replace (maxg 1 codes) with (fold_left Z.max codes 0 + 1) by (symmetry; exact (maxg_max codes 0 Hcodes_nonneg)).
  exists pb, hx, codes, r3. split; [reflexivity|]. split; [exact HRel3|]. cbn [meta_rel].
  split; [reflexivity|]. split; [exact Hpb|]. split; [reflexivity|].
  pose proof (fold_max_mono codes 0) as Hge0.
  split; [lia|].
  intros x y Hx Hy. cbv zeta. rewrite (Z.shiftr_div_pow2 y pb), (Z.shiftr_div_pow2 x pb) by lia.
  assert (Hxd : 0 <= x / 2 ^ pb < hx) by (rewrite Ehx; apply div_lt_round; lia).
  assert (Hyd : 0 <= y / 2 ^ pb < hy) by (rewrite Ehy; apply div_lt_round; lia).
  set (p := y / 2 ^ pb * hx + x / 2 ^ pb).
  assert (Hp : 0 <= p < hx * hy) by (unfold p; apply pos_bound; assumption).
  rewrite Hcodes_len. split; [lia|]. rewrite Hcodes_nth by lia. rewrite Z2Nat.id by lia. split; [reflexivity|].
  split; [apply Z.land_nonneg; right; lia|].
  pose proof (fold_max_ge codes 0 (nth (Z.to_nat p) codes 0) ltac:(apply nth_In; lia)) as Hle.
  rewrite Hcodes_nth in Hle by lia. rewrite Z2Nat.id in Hle by lia. lia.
Qed.

Lemma info_rel_argb w hgt cbits ob v gs m hb hx img ng :
  cb_rel ob cbits -> groups_rel (V.cache_size_of cbits) v gs -> vzlen v = ng -> meta_rel m hb hx img ng w hgt ->
  info_rel {| V.xsize := w; V.ysize := hgt; V.cache_bits := cbits; V.groups := gs; V.meta := m |}
           {| h_xsize := hx; h_cache := option_map cache_new ob; h_image := of_list img; h_bits := hb;
              h_mask := (if hb =? 0 then 65535 else Z.shiftl 1 hb - 1); h_groups := v |} w hgt.
Proof.
  intros Hcb [Hlen Hall] Hng Hm. constructor; cbn [V.xsize V.ysize V.cache_bits V.groups V.meta h_groups h_bits h_mask h_xsize h_image]; auto.
  - apply (cb_rel_range _ _ Hcb).
  - destruct m as [[pb eimg]|]; cbn [meta_rel] in Hm; [destruct Hm as (_ & _ & _ & H1 & _) | destruct Hm as [_ H1]]; lia.
  - rewrite Z.shiftl_1_l. reflexivity.
  - destruct m as [[pb eimg]|]; cbn [meta_rel] in Hm; [|destruct Hm; assumption].
    destruct Hm as (E & Hpb & Ehx & Hng1 & Hpos). split; [exact E|]. split; [exact Hpb|]. split; [exact Ehx|].
    intros x y Hx Hy. cbv zeta. destruct (Hpos x y Hx Hy) as (A & B & C). cbv zeta in A, B, C.
    assert (Haz : az (of_list img) (Z.shiftr y pb * hx + Z.shiftr x pb) = nth (Z.to_nat (Z.shiftr y pb * hx + Z.shiftr x pb)) img 0).
    { unfold az. rewrite araw_of_list. f_equal. lia. }
    rewrite Haz. split; [unfold zlen; rewrite alen_of_list; lia|]. split; [exact B | lia].
Qed.

Theorem decode_image_stream_spatial lvl st r w hgt data :
  Rel st r -> 1 <= w <= 65535 -> 1 <= hgt <= 65535 -> zlen data = 4 * (w * hgt) ->
  match strict_spatially_coded_image w hgt st with
  | Some (pixels, st') =>
      exists r' data', decode_image_stream (S (S lvl)) r w hgt true data = Ok (r', data') /\ Rel st' r' /\
                       zlen data' = 4 * (w * hgt) /\ forall i, 0 <= i < w * hgt -> px_at data' i = px_of (V.pix pixels i) /\ pix32 (V.pix pixels i)
  | None => exists e, decode_image_stream (S (S lvl)) r w hgt true data = Err e
  end.
Proof.
  intros HRel Hw Hh Hlen. unfold strict_spatially_coded_image. rewrite decode_image_stream_argb.
  pose proof (read_color_cache_refines st r HRel) as P.
  destruct (V.read_cache_info st) as [[cbits st1]|]; [|destruct P as (e & E); rewrite E; eexists; reflexivity].
  destruct P as (ob & r1 & E1 & HRel1 & Hcb). rewrite E1. cbn [bind]. clear E1.
  pose proof (meta_refines lvl st1 r1 w hgt HRel1 Hw Hh) as P.
  destruct (strict_meta_prefix w hgt st1) as [[[m ng] st2]|]; [|destruct P as (e & E); rewrite E; eexists; reflexivity].
  destruct P as (hb & hx & img & r2 & E2 & HRel2 & Hm). rewrite E2. cbn [bind]. clear E2.
  pose proof (read_groups_refines ob cbits Hcb (Z.to_nat ng) st2 r2 (vmake 0 default_group) [] HRel2 (groups_rel_nil _)) as P.
  destruct (strict_groups (Z.to_nat ng) (V.cache_size_of cbits) st2) as [[gs st3]|] eqn:Eg; [|destruct P as (e & E); rewrite E; eexists; reflexivity].
  destruct P as (v & r3 & E3 & HRel3 & Hv). rewrite E3. cbn [bind app]. clear E3. cbn [app] in Hv.
  assert (Hng : vzlen v = ng).
  { destruct Hv as [Hl _]. rewrite Hl.
    assert (G : forall n s l s', strict_groups n (V.cache_size_of cbits) s = Some (l, s') -> length l = n).
    { induction n as [|n IH]; intros s l s' E; cbn [strict_groups] in E; [injection E as <- _; reflexivity|].
      destruct (strict_group _ s) as [[g s1]|]; [|discriminate]. destruct (strict_groups n _ s1) as [[l1 s2]|] eqn:E1; [|discriminate].
      injection E as <- _. cbn [length]. rewrite (IH _ _ _ E1). reflexivity. }
    rewrite (G _ _ _ _ Eg).
    destruct m as [[pb eimg]|]; cbn [meta_rel] in Hm; [destruct Hm as (_ & _ & _ & H1 & _) | destruct Hm as [_ H1]]; lia. }
  apply (decode_image_data_refines _ _ w hgt (info_rel_argb w hgt cbits ob v gs m hb hx img ng Hcb Hv Hng Hm) Hw ltac:(lia) st3 r3 data HRel3 Hlen).
  cbn [V.cache_bits h_cache]. apply cache_rel_new. destruct ob as [b|]; cbn [cb_rel] in Hcb |- *; auto.
Qed.
